/-
  Lemmas/CsvSrcT3.lean — CSV I/O, READ side, `raws_to_wbs`: what the composition of the loops needs of the folds
  (the store after the first loop, the dict `tasks_by_id`, the list `roots`).
-/
import PjVerif.Lemmas.CsvSrcT2
namespace Pj.CsvSrc
open Pj.PyLite Pj.Extracted.Csv Pj.Csv

/-! ### the store after the first loop -/

theorem allocFold_reads (f : Nat → PyLite.Env) : ∀ (os : List Nat) (st : PState),
    (os.foldl (fun s o => allocSt s (f o)) st).reads = st.reads + os.length
  | [], _ => rfl
  | o :: os, st => by
    rw [List.foldl_cons, allocFold_reads f os, List.length_cons]
    show st.reads + 1 + os.length = _
    omega

theorem allocFold_low (f : Nat → PyLite.Env) (j : Nat) : ∀ (os : List Nat) (st : PState), j < st.reads →
    (os.foldl (fun s o => allocSt s (f o)) st).heap j = st.heap j
  | [], _, _ => rfl
  | o :: os, st, h => by
    rw [List.foldl_cons, allocFold_low f j os _ (Nat.lt_succ_of_lt h)]
    simp only [allocSt, if_neg (Nat.ne_of_lt h)]

theorem allocSt_par (n : Nat) (st : PState) (e : PyLite.Env) (he : e.get? "parent" = some (.atom .none))
    (h : ParInv n st) : ParInv n (allocSt st e) := by
  intro j x hx
  by_cases hj : j = st.reads
  · simp only [allocSt, hj, if_true, he] at hx
    injection hx with hx; injection hx with hx; cases hx
  · simp only [allocSt, if_neg hj] at hx
    exact h j x hx

theorem allocFold_par (n : Nat) (f : Nat → PyLite.Env) (hf : ∀ o, (f o).get? "parent" = some (.atom .none)) :
    ∀ (os : List Nat) (st : PState), ParInv n st → ParInv n (os.foldl (fun s o => allocSt s (f o)) st)
  | [], _, h => h
  | o :: os, st, h => allocFold_par n f hf os _ (allocSt_par n st _ (hf o) h)

theorem mkTask_parent (e : PyLite.Env) : (mkTask e).get? "parent" = some (.atom .none) :=
  mkTask_get e "parent" _ (by simp [taskEnvOf, envGet_cons])

/-! ### the dict `tasks_by_id` -/

/-- the rows of the second loop: the raw object, its task (allocated in order from `r` on), its id, its parent id -/
def linkRows (E : Nat → PyLite.Env) : Nat → List Nat → List LinkRow
  | _, [] => []
  | r, o :: os => ⟨o, r, slot (E o) "id", slot (E o) "parent_id"⟩ :: linkRows E (r + 1) os

theorem linkRows_map (E : Nat → PyLite.Env) : ∀ (r : Nat) (os : List Nat),
    (linkRows E r os).map (fun x => Atom.ref x.o) = os.map Atom.ref
  | _, [] => rfl
  | r, o :: os => by simp only [linkRows, List.map_cons, linkRows_map E (r + 1) os]

theorem linkRows_spec (E : Nat → PyLite.Env) : ∀ (r : Nat) (os : List Nat), ∀ x ∈ linkRows E r os,
    x.o ∈ os ∧ x.a = slot (E x.o) "id" ∧ x.p = slot (E x.o) "parent_id" ∧ r ≤ x.t
  | _, [], x, h => by cases h
  | r, o :: os, x, h => by
    rcases List.mem_cons.1 h with rfl | h
    · exact ⟨List.mem_cons_self .., rfl, rfl, Nat.le_refl _⟩
    · obtain ⟨a, b, c, d⟩ := linkRows_spec E (r + 1) os x h
      exact ⟨List.mem_cons_of_mem _ a, b, c, by omega⟩

theorem pyEq_refl (a : Atom) : a.pyEq a = true := (pyEq_iff a a).2 rfl

theorem byId_vals (E : Nat → PyLite.Env) (n : Nat) : ∀ (os : List Nat) (r : Nat) (D : List (Atom × Atom)), n ≤ r →
    (∀ k v, Dict.get? D k = some v → ∃ q, v = .ref q ∧ n ≤ q) →
    ∀ k v, Dict.get? (byId E os r D) k = some v → ∃ q, v = .ref q ∧ n ≤ q
  | [], _, _, _, hD => hD
  | o :: os, r, D, hr, hD => by
    refine byId_vals E n os (r + 1) _ (by omega) (fun k v hv => ?_)
    rw [dictGet_insert] at hv
    by_cases hk : (slot (E o) "id").pyEq k = true
    · rw [if_pos hk] at hv
      injection hv with hv
      exact ⟨r, hv.symm, hr⟩
    · rw [if_neg hk] at hv
      exact hD k v hv

theorem byId_notin (E : Nat → PyLite.Env) (k : Atom) : ∀ (os : List Nat) (r : Nat) (D : List (Atom × Atom)),
    (∀ o ∈ os, (slot (E o) "id").pyEq k = false) → Dict.get? (byId E os r D) k = Dict.get? D k
  | [], _, _, _ => rfl
  | o :: os, r, D, h => by
    rw [byId, byId_notin E k os (r + 1) _ (fun o' ho' => h o' (List.mem_cons_of_mem _ ho')), dictGet_insert,
      h o (List.mem_cons_self ..)]
    simp

/-- pairwise different ids: every row finds its own task -/
theorem byId_get (E : Nat → PyLite.Env) : ∀ (os : List Nat) (r : Nat) (D : List (Atom × Atom)),
    (os.map (fun o => slot (E o) "id")).Pairwise (fun a b => a.pyEq b = false) →
    ∀ x ∈ linkRows E r os, Dict.get? (byId E os r D) x.a = some (.ref x.t)
  | [], _, _, _, x, h => by cases h
  | o :: os, r, D, hp, x, h => by
    rw [List.map_cons, List.pairwise_cons] at hp
    rcases List.mem_cons.1 h with rfl | h
    · show Dict.get? (byId E os (r + 1) _) (slot (E o) "id") = some (.ref r)
      rw [byId_notin E _ os (r + 1) _ (fun o' ho' => by
        have h1 := hp.1 _ (List.mem_map_of_mem (f := fun o => slot (E o) "id") ho')
        cases h2 : (slot (E o') "id").pyEq (slot (E o) "id") with
        | false => rfl
        | true =>
          have h3 : (slot (E o) "id").pyEq (slot (E o') "id") = true :=
            (pyEq_iff _ _).2 ((pyEq_iff _ _).1 h2).symm
          rw [h3] at h1; cases h1), dictGet_insert, pyEq_refl, if_pos rfl]
    · exact byId_get E os (r + 1) _ hp.2 x h

/-! ### the second loop: `roots` holds objects, the allocation pointer stays -/

theorem setParent_reads (st : PState) (t q : Nat) : (setParent st t q).reads = st.reads := rfl

theorem linkStep_reads (D : List (Atom × Atom)) (t : Nat) (p : Atom) (s : PState × List Atom) :
    (linkStep D t p s).1.reads = s.1.reads := by
  unfold linkStep
  by_cases hp : p = .none
  · rw [if_pos hp]
  · rw [if_neg hp]
    cases Dict.get? D p with
    | none => rfl
    | some v => cases v <;> rfl

theorem linkStep_refs (D : List (Atom × Atom)) (t : Nat) (p : Atom) (s : PState × List Atom)
    (h : ∀ a ∈ s.2, ∃ i, a = Atom.ref i) : ∀ a ∈ (linkStep D t p s).2, ∃ i, a = Atom.ref i := by
  have happ : ∀ a ∈ s.2 ++ [Atom.ref t], ∃ i, a = Atom.ref i := by
    intro a ha
    rcases List.mem_append.1 ha with ha | ha
    · exact h a ha
    · exact ⟨t, by simpa using ha⟩
  unfold linkStep
  by_cases hp : p = .none
  · rw [if_pos hp]; exact happ
  · rw [if_neg hp]
    cases Dict.get? D p with
    | none => exact happ
    | some v => cases v <;> first | exact happ | exact h

theorem linkFold_reads (D : List (Atom × Atom)) : ∀ (rows : List LinkRow) (s : PState × List Atom),
    (rows.foldl (fun s r => linkStep D r.t r.p s) s).1.reads = s.1.reads
  | [], _ => rfl
  | r :: rows, s => by rw [List.foldl_cons, linkFold_reads D rows, linkStep_reads]

theorem linkFold_refs (D : List (Atom × Atom)) : ∀ (rows : List LinkRow) (s : PState × List Atom),
    (∀ a ∈ s.2, ∃ i, a = Atom.ref i) → ∀ a ∈ (rows.foldl (fun s r => linkStep D r.t r.p s) s).2, ∃ i, a = Atom.ref i
  | [], _, h => h
  | r :: rows, s, h => linkFold_refs D rows _ (linkStep_refs D r.t r.p s h)

theorem linkFold_inv (n : Nat) (E : Nat → PyLite.Env) (D : List (Atom × Atom))
    (hD : ∀ k v, Dict.get? D k = some v → ∃ q, v = .ref q ∧ n ≤ q) :
    ∀ (rows : List LinkRow) (s : PState × List Atom), (∀ r ∈ rows, n ≤ r.t) → LinkInv n E s.1 →
      LinkInv n E (rows.foldl (fun s r => linkStep D r.t r.p s) s).1
  | [], _, _, h => h
  | r :: rows, s, ht, h => linkFold_inv n E D hD rows _ (fun r' hr' => ht r' (List.mem_cons_of_mem _ hr'))
      (linkStep_inv n E D hD r.t (ht r (List.mem_cons_self ..)) r.p s h)

theorem refs_of_all : ∀ (rs : List Atom), (∀ a ∈ rs, ∃ i, a = Atom.ref i) → ∃ ts : List Nat, rs = ts.map Atom.ref
  | [], _ => ⟨[], rfl⟩
  | a :: rs, h => by
    obtain ⟨i, rfl⟩ := h a (List.mem_cons_self ..)
    obtain ⟨ts, rfl⟩ := refs_of_all rs (fun b hb => h b (List.mem_cons_of_mem _ hb))
    exact ⟨i :: ts, rfl⟩

end Pj.CsvSrc
