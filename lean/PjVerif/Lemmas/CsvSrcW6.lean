/-
  Lemmas/CsvSrcW6.lean — CSV I/O, the WRITE side, part 6: the store after `tasks_to_raws`, the rows loop, the task list.
-/
import PjVerif.Lemmas.CsvSrcW5
namespace Pj.CsvSrc
open Pj.PyLite Pj.Extracted.Csv Pj.Csv

/-! ### `wbs.tasks` of a well-formed description -/

theorem refsOf_refs (l : List Nat) : refsOf (refs l) = l := by
  simp only [refs, refsOf, List.filterMap_map]
  induction l with
  | nil => rfl
  | cons a l ih => simp [List.filterMap_cons, ih]

theorem dfs_valid (W : WbsD) (hWF : WF W) : ∀ (f : Nat) (l : List Nat), (∀ i ∈ l, valid W i) →
    ∀ j ∈ dfsHeap (encHeap W) f l, valid W j
  | 0, _, _, j, hj => by simp [dfsHeap] at hj
  | f + 1, l, hl, j, hj => by
    simp only [dfsHeap, List.mem_flatMap, List.mem_cons] at hj
    obtain ⟨i, hi, hj | hj⟩ := hj
    · rw [hj]; exact hl i hi
    · obtain ⟨d, -, h2, h3⟩ := valid_task (hl i hi)
      rw [h2, encTask_children, Option.getD_some, refsOf_refs] at hj
      exact dfs_valid W hWF f d.children (hWF.children d h3) j hj

theorem orderOf_valid (W : WbsD) (hWF : WF W) : ∀ i ∈ orderOf W, valid W i := by
  intro i hi
  have : (((encSt W).heap 0).get? "roots").getD (.list []) = refs W.roots := rfl
  simp only [orderOf, wbsTasks, this, refsOf_refs] at hi
  exact dfs_valid W hWF _ W.roots hWF.roots i hi

theorem prim_tasks (L : IOLib) (st : PState) (w : Nat) :
    ioPrim L "tasks" [.ref w] st = .ok (.list ((wbsTasks st w).map Atom.ref)) := by
  unfold ioPrim
  rw [if_neg (by decide +kernel), if_neg (by decide +kernel), if_neg (by decide +kernel), if_neg (by decide +kernel),
    if_neg (by decide +kernel), if_neg (by decide +kernel), if_neg (by decide +kernel), if_neg (by decide +kernel),
    if_neg (by decide +kernel), if_neg (by decide +kernel), if_neg (by decide +kernel), if_neg (by decide +kernel),
    if_neg (by decide +kernel), if_neg (by decide +kernel), if_neg (by decide +kernel), if_neg (by decide +kernel),
    if_neg (by decide +kernel), if_neg (by decide +kernel), if_neg (by decide +kernel), if_neg (by decide +kernel),
    if_pos (by decide +kernel)]
  rfl

/-! ### the store after `tasks_to_raws` -/

def pairsFrom : Nat → List TaskD → List (Nat × TaskD)
  | _, [] => []
  | o, d :: ds => (o, d) :: pairsFrom (o + 1) ds

theorem pairsFrom_snd : ∀ (o : Nat) (ds : List TaskD), (pairsFrom o ds).map (·.2) = ds
  | _, [] => rfl
  | o, d :: ds => by simp [pairsFrom, pairsFrom_snd (o + 1) ds]

theorem pairsFrom_ge : ∀ (o : Nat) (ds : List TaskD), ∀ p ∈ pairsFrom o ds, o ≤ p.1
  | _, [], _, h => by cases h
  | o, d :: ds, p, h => by
    rcases List.mem_cons.1 h with rfl | h
    · exact Nat.le_refl _
    · have := pairsFrom_ge (o + 1) ds p h; omega

theorem rawsSt_frame (W : WbsD) : ∀ (is : List Nat) (st : PState),
    (rawsSt W st is).boxes = st.boxes ∧ st.reads ≤ (rawsSt W st is).reads ∧
      ∀ j, j < st.reads → (rawsSt W st is).heap j = st.heap j
  | [], st => ⟨rfl, Nat.le_refl _, fun _ _ => rfl⟩
  | i :: is, st => by
    obtain ⟨h1, h2, h3⟩ := rawsSt_frame W is (allocSt st (rawEnvAt W i))
    refine ⟨h1, ?_, fun j hj => ?_⟩
    · have : (allocSt st (rawEnvAt W i)).reads = st.reads + 1 := rfl
      simp only [rawsSt, List.foldl_cons] at h2 ⊢; omega
    · have : (allocSt st (rawEnvAt W i)).reads = st.reads + 1 := rfl
      have hne : j ≠ st.reads := by omega
      simp only [rawsSt, List.foldl_cons] at h3 ⊢
      rw [h3 j (by omega)]
      simp [allocSt, hne]

theorem rawsSt_pairs (W : WbsD) : ∀ (is : List Nat) (ds : List TaskD) (st : PState),
    is.map (taskAt W) = ds.map some →
    (∀ p ∈ pairsFrom st.reads ds, (rawsSt W st is).heap p.1 = rawEnv W p.2) ∧
      rawRefs st.reads is.length = (pairsFrom st.reads ds).map (fun p => Atom.ref p.1)
  | [], [], st, _ => ⟨fun _ h => (by cases h), rfl⟩
  | [], _ :: _, _, h => by simp at h
  | _ :: _, [], _, h => by simp at h
  | i :: is, d :: ds, st, h => by
    simp only [List.map_cons, List.cons.injEq] at h
    obtain ⟨h1, h2⟩ := h
    have hreads : (allocSt st (rawEnvAt W i)).reads = st.reads + 1 := rfl
    obtain ⟨g1, g2⟩ := rawsSt_pairs W is ds (allocSt st (rawEnvAt W i)) h2
    rw [hreads] at g1 g2
    refine ⟨fun p hp => ?_, ?_⟩
    · rcases List.mem_cons.1 hp with rfl | hp
      · have := (rawsSt_frame W is (allocSt st (rawEnvAt W i))).2.2 st.reads (by omega)
        simp only [rawsSt, List.foldl_cons] at this ⊢
        rw [this]
        simp [allocSt, rawEnvAt, h1]
      · exact g1 p hp
    · rw [List.length_cons, rawRefs_succ, g2]; rfl

/-! ### the text of the file -/

theorem textOf_strs (rows : List Str) : textOf (rows.map strA) = rows.flatten := by
  unfold textOf
  rw [List.map_map]
  congr 1
  induction rows with
  | nil => rfl
  | cons a l ih => simpa [strA, strDecode_code] using ih

/-- a comprehension over any iterable whose element does not change the store and never filters -/
theorem listComp_pure' (H : PHandlers) (env : PyLite.Env) (elt it : Expr) (x : String) (st : PState) (itv : Val)
    (vs : List Atom) (g : Atom → Res Atom) (hit : it.evalP H [] env st = .ok (itv, st)) (hvs : iterOf itv = .ok vs)
    (helt : ∀ v ∈ vs, elt.evalP H [] (env.set x v) st = (g v).map (fun a => (Val.atom a, st))) :
    (Expr.listComp elt x it (.bool true)).evalP H [] env st = (vs.mapM g).map (fun out => (Val.list out, st)) := by
  simp only [Expr.evalP, hit, hvs, pure, Except.pure, bind, Except.bind, truthP, if_true]
  rw [compLoopP_pure _ g st vs]
  · cases vs.mapM g <;> rfl
  · intro v hv
    rw [helt v hv]
    cases g v <;> rfl

end Pj.CsvSrc
