/-
  Lemmas/CritPathSrcD.lean — the translated tie for alg/critical_path.py: the theorems (`interpCriticalPath_eq`,
  `interpCriticalPath_set`, `interpCriticalPath_perm`, `interpCriticalPath_grid`) and, at the end, the negative check.
  See Lemmas/CritPathSrc.lean.
-/
import PjVerif.Lemmas.CritPathSrcA
import PjVerif.Lemmas.CritPathSrcC5
import PjVerif.Props.C12
namespace Pj.CritPathSrc
open Pj.PyLite Pj.CPEnv Pj.Extracted.CritPath

/-- Stage 3.  On an acyclic WBS whose member leaves have ids of their own, `wbs.critical_path()` - the interpretation of
    the translated source of `CriticalPathCalculator(wbs.tasks, None).calc()` - returns the leaves of zero float
    (`critOf`: the test of Model/CritPath.lean), in the order `order` in which `__init__` inserted the leaves (a
    depth-first walk along the prerequisites: every leaf after its prerequisites) -/
theorem interpCriticalPath_eq (e : CPEnv) (tid : Uid → Int) (hid : IdInj e tid) (hdesc : DescOK e)
    (hac : acyclicB e = true) (htol : TolExact e) (F : Nat) (hF : 2 * e.n + 9 ≤ F) :
    ∃ (order : List Uid) (len : Rat), projectLen e = some len ∧ order.Nodup ∧ (∀ t, t ∈ order ↔ t ∈ leaves e) ∧
      interpCriticalPath F e tid = .ok (refs (order.filter (critOf e len))) := by
  obtain ⟨done, σ, len, hlen, hdone, hnd, hcp⟩ :=
    cpA_ok e tid e.n hid hdesc hac htol (2 * (e.n + 1) + 2) (Nat.le_refl _)
  refine ⟨done, len, hlen, hnd, hdone, ?_⟩
  unfold interpCriticalPath
  rw [cp_sim e tid e.n _ F _ _ hcp (by omega)]
  rfl

/-- … which is the result of the model as a SET of tasks, each once (the model lists them in WBS order) -/
theorem interpCriticalPath_set (e : CPEnv) (tid : Uid → Int) (hid : IdInj e tid) (hdesc : DescOK e)
    (hac : acyclicB e = true) (htol : TolExact e) (F : Nat) (hF : 2 * e.n + 9 ≤ F) :
    ∃ (r l : List Uid), interpCriticalPath F e tid = .ok (refs r) ∧ criticalPath e = .ok l ∧ r.Nodup ∧
      ∀ t, t ∈ r ↔ t ∈ l := by
  obtain ⟨order, len, hlen, hnd, hord, hrun⟩ := interpCriticalPath_eq e tid hid hdesc hac htol F hF
  obtain ⟨l, hl⟩ := C12_total e hac
  refine ⟨order.filter (critOf e len), l, hrun, hl, List.Nodup.sublist List.filter_sublist hnd, ?_⟩
  intro t
  rw [criticalPath_mem e hlen hl t, List.mem_filter, hord]

/-- … a permutation of it when the WBS lists every member once -/
theorem interpCriticalPath_perm (e : CPEnv) (tid : Uid → Int) (hid : IdInj e tid) (hdesc : DescOK e)
    (hac : acyclicB e = true) (htol : TolExact e) (hmem : e.members.Nodup) (F : Nat) (hF : 2 * e.n + 9 ≤ F) :
    ∃ (r l : List Uid), interpCriticalPath F e tid = .ok (refs r) ∧ criticalPath e = .ok l ∧ r.Perm l := by
  obtain ⟨r, l, hrun, hl, hnd, hrl⟩ := interpCriticalPath_set e tid hid hdesc hac htol F hF
  exact ⟨r, l, hrun, hl, (List.perm_ext_iff_of_nodup hnd (C12_members e l hl hmem).1).mpr hrl⟩

/-- the grid form: every length `max(estimate - spent, 0)` is a multiple of 1/8 and the project is shorter than 10^8 -/
theorem interpCriticalPath_grid (e : CPEnv) (tid : Uid → Int) (hid : IdInj e tid) (hdesc : DescOK e)
    (hac : acyclicB e = true) (hg : OnGrid e) (hlt : ∀ len, projectLen e = some len → len < 100000000)
    (F : Nat) (hF : 2 * e.n + 9 ≤ F) :
    ∃ (r l : List Uid), interpCriticalPath F e tid = .ok (refs r) ∧ criticalPath e = .ok l ∧ r.Nodup ∧
      ∀ t, t ∈ r ↔ t ∈ l :=
  interpCriticalPath_set e tid hid hdesc hac (tolExact_of_grid e hg hlt) F hF

/-- `DescOK` holds in particular when `all_children` is defined for every task (the children lists have no cycle) -/
theorem descOK_of_forall (e : CPEnv) (h : ∀ p, descF e.children (e.n + 1) p ≠ none) : DescOK e :=
  fun _ _ p _ => h p

end Pj.CritPathSrc

/-
  NEGATIVE CHECK (scratch copies of src/pjplan/alg/critical_path.py; for every mutation: tools/extract_critpath.py, then
  the WBSs of Lemmas/CritPathSrcCheck*.lean - `agree` with the model and equality with the list the UNMUTATED Python
  returns - and `lake build PjVerif.Lemmas.CritPathSrcA`, the simulation layer, in a copy of the project; the driver is
  /tmp/leanwork/scratch/negcheck.py).  "examples" = the WBSs on which the mutated program and the model disagree.

  Semantic mutations that change the result - failing examples (and the simulation lemmas fail to build):
    `max` -> `min` in `__forward`                              14 of 16: chain, diamond, ties, zeros, summaries, … order
    `min` -> `max` in `__backward`                             diamond, ties, summaries, eighths, deep
    `if min_end is None: min_end = node.start_units` dropped   15 of 16 (a sink keeps `end_units = None`)
    `min_end = node.start_units` -> `min_end = 0`              14 of 16
    predecessors of ancestors not collected (`for owner in [task]`)           summaries
    `pred.all_children` dropped (summary predecessors not expanded)           summaries, deep
    membership by id (`set([t.id …])`, `p.id in self.__members`)              sharedid
    the membership test dropped                                               outside, sharedid
    zero-length tasks aliased to their start node (`end = … if units > 0 else start`)   zeros, overspent, onlysummary
                                                                              (a self-loop: RecursionError)
    units of the task arc dropped (`__connect(start, end, 0)`)                10 of 16
    `max(estimate - spent, 0)` -> `estimate - spent`                          overspent
    spent ignored (`max(estimate, 0)`)                                        ties, overspent, nolinks, eighths
    `if len(task.children) > 0: return` dropped (summaries inserted)          summaries, onlysummary
    `if task.id in self.__tasks: return` dropped                              ties, summaries, eighths, order
    arrow from the START node of the predecessor (`link.start`)               12 of 16
    float without `- v.units`                                                 14 of 16
  Semantic mutations that do NOT change the result on acyclic WBSs - all examples still check, the LEMMAS fail (the
  simulation layer `CritPathSrcA` does not build: `insertStep` / `calcA` / `resStep` mirror the statements; and the
  network they build violates `Built` / `Wired`):
    de-duplication dropped (`and p.id not in p_ids`)        several arrows between the same nodes: maximum / minimum unchanged
    the begin node connected to every node                  `max_start` starts at 0: an arc of length 0 from time 0 adds nothing
    the end node connected from every node                  every latest time is at most the project length anyway
    tolerance `1e-9` -> `1e-1`                              no example has a float below 0.1 * max(1, length) (the hypothesis
                                                            `TolExact` would be a different one)
  The float test on the grid:
    `abs(r) <= …` -> `r == 0`                               all examples check (the two tests agree on the grid: `TolExact`);
                                                            differs from the unmutated program on `offgrid` only; lemma layer fails
    `1e-9 * max(1.0, length)` -> `1e-9 * length`            all examples on the grid check; differs from the unmutated program on
                                                            an off-grid WBS of length 1/2 with a float of 8e-10; lemma layer fails
  Outside the fragment - a Miss of the translator:
    the loop over `self.__nodes` written as a `while` loop           Miss: While
    the out-of-scope branch of `__init__` edited                     Miss: the branch `end_date is not None` changed
    `_PLink.units` renamed to `estimate` (a Task attribute)          Miss: attribute names shared with Task
    `q = p_ids` (the fresh list aliased)                             Miss: use of the list p_ids
  Harmless rewrites - all examples check (same lists as the unmutated Python):
    docstrings / comments added                                      identical terms; everything builds
    `estimate = 0 if task.estimate is None else task.estimate`       another term; the simulation layer still builds
    a local renamed (`p_ids` -> `pids`); `len(task.children) != 0`; the two dict initialisations of `__init__` swapped;
    `max_start = 0 * 1`                                              other terms: the examples check, the simulation proofs
                                                                     (tied to the names / the shape of the terms) need adapting
-/
