/-
  Lemmas/WbsSrcCheckC.lean — stage 3 of the translated tie for wbs.py, concrete runs (kernel-checked): `WBS.clone()` /
  `WBS.subtree(roots)` with `__clone` / `__clone_tasks` / `link_target` (Extracted/WbsSrc.lean) against `cloneWbs` /
  `cloneSel` (Model/Clone.lean).  Compared: the returned WBS object (its hidden root), the allocation pointer (= the
  model's new universe size) and ALL objects of the final store below it - the source objects, the outside tasks that
  gain mirror links, the clones and the new hidden root.  See Lemmas/WbsSrc.lean.
-/
import PjVerif.Lemmas.WbsSrc
import PjVerif.Lemmas.TaskSrcCheck
namespace Pj.WbsSrc
open Pj.PyLite Pj.Extracted Pj.TaskSrc Pj.TaskSrc.Check

namespace CheckC

/-- WBS 0 (hidden) > 1 > (2, 3), 5; links 3 → 2, 2 → 5 inside; 2 → 7 into ANOTHER WBS (6 hidden > 7, 7 shares its id
    with 2); 4 → 3 from a detached task; 7 → 8 between outside tasks; 9 detached (shares its id with 1) -/
def g5 : G := mk [
  { tid := emptyId, children := [1, 5], owner := some 0 },
  { tid := 10, parent := some 0, children := [2, 3], owner := some 0 },
  { tid := 20, parent := some 1, preds := [3], succs := [5, 7], owner := some 0 },
  { tid := 30, parent := some 1, preds := [4], succs := [2], owner := some 0 },
  { tid := 40, succs := [3] },
  { tid := 50, parent := some 0, preds := [2], owner := some 0 },
  { tid := emptyId, children := [7], owner := some 6 },
  { tid := 20, parent := some 6, preds := [2], succs := [8], owner := some 6 },
  { tid := 80, preds := [7] },
  { tid := 10 }]

def FC : Nat := 60

def observeC (r : Res (Val × PState)) : Res (Val × Nat × List PyLite.Env) :=
  r.map (fun x => (x.1, x.2.reads, view x.2.reads x.2.heap))

def expectClone (r : G × Option Err × Uid) : Res (Val × Nat × List PyLite.Env) :=
  match r with
  | (s', none, nw) => .ok (refV nw, s'.n, view s'.n (encHeap s'))
  | (_, some e, _) => .error e

def runC (s : G) (k : Nat) (args : List Val) : Res (Val × Nat × List PyLite.Env) :=
  observeC (interpW noFilt FC k args (encStN s))

def cloneAgree (s : G) (w : Uid) : Bool := decide (runC s fn_WBS_clone [refV w] = expectClone (cloneWbs s w))

def subtreeAgree (s : G) (w : Uid) (roots : List Uid) : Bool :=
  decide (runC s fn_WBS_subtree [refV w, refs roots] = expectClone (cloneSel s w roots))

-- `clone()`: the whole WBS (links inside are copied, the link into the other WBS / from the detached task is shared)
example : cloneAgree g5 0 = true := by decide +kernel
example : cloneAgree g5 6 = true := by decide +kernel
example : cloneAgree g2 0 = true := by decide +kernel        -- the diamond of links of TaskSrcCheck.g2
example : cloneAgree g1 0 = true := by decide +kernel
/-- the copy succeeds and is new: 4 clones and a root on top of the 10 objects -/
example : (runC g5 fn_WBS_clone [refV 0]).map (·.2.1) = .ok 15 := by decide +kernel

-- `subtree(roots)`: a summary task, a leaf whose links go to members that are not selected (dropped) and outside
-- (shared), nested roots, a repeated root, roots in another order, no root, all of it
example : subtreeAgree g5 0 [1] = true := by decide +kernel
example : subtreeAgree g5 0 [2] = true := by decide +kernel
example : subtreeAgree g5 0 [1, 2] = true := by decide +kernel
example : subtreeAgree g5 0 [2, 1] = true := by decide +kernel
example : subtreeAgree g5 0 [2, 2] = true := by decide +kernel
example : subtreeAgree g5 0 [2, 3] = true := by decide +kernel
example : subtreeAgree g5 0 [5, 1] = true := by decide +kernel
example : subtreeAgree g5 0 [3, 2, 5] = true := by decide +kernel
example : subtreeAgree g5 0 [] = true := by decide +kernel
example : subtreeAgree g2 0 [2, 3] = true := by decide +kernel
example : subtreeAgree g2 0 [4, 5] = true := by decide +kernel
/-- a single task as the argument (`_to_list`) -/
example : runC g5 fn_WBS_subtree [refV 0, refV 1] = expectClone (cloneSel g5 0 [1]) := by decide +kernel
/-- `None`s in the list are skipped (`_to_list`) -/
example : runC g5 fn_WBS_subtree [refV 0, .list [.none, .ref 2, .none]] = expectClone (cloneSel g5 0 [2]) := by
  decide +kernel
-- the hidden root itself / the hidden root of another WBS as a root: RuntimeError on both sides
example : subtreeAgree g5 0 [0] = true := by decide +kernel
example : subtreeAgree g5 0 [6] = true := by decide +kernel
-- roots that are NOT members of the WBS, with ids of their own: agreement (the foreign tasks are copied, their links
-- to members of the WBS are dropped)
example : subtreeAgree g5 0 [8] = true := by decide +kernel
example : subtreeAgree g5 0 [4, 8] = true := by decide +kernel
example : subtreeAgree g5 0 [9, 2] = true := by decide +kernel
/-- a cyclic state (TaskSrcCheck.g3, not well formed): RecursionError on both sides -/
example : subtreeAgree g3 0 [0] = true := by decide +kernel

/-! #### outside the hypotheses of the general theorem: a foreign root that shares an id

  The model identifies tasks by identity (`dedupFirst`, `cloneOf`), the source by id (`all_tasks` / `cloned_tasks` are
  dicts keyed by `task.id`).  Inside one WBS ids are unique (C05), so for roots that are members of the WBS - the
  hypothesis of `interpCloneRec_eq` - both coincide.  For a root that is NOT a member of the WBS and shares its id with
  a selected task, or with a member of the WBS linked to it, they differ: -/

/-- `wbs0.subtree([t7])`, t7 a member of another WBS with the id of t2 (a member of wbs0 and predecessor of t7): the
    model drops the link to the unselected member t2 and succeeds; the source looks `t2.id` up in `cloned_tasks`, finds
    the clone of t7 itself, makes it its own predecessor: RuntimeError -/
example : (expectClone (cloneSel g5 0 [7])).map (·.2.1) = .ok 12 ∧
    runC g5 fn_WBS_subtree [refV 0, refs [7]] = .error .runtime := by decide +kernel

/-- `wbs0.subtree([t1, t9])`, t9 detached with the id of t1: the model copies both and fails when both clones become
    roots of the new WBS (RuntimeError: id intersection); the source's dict keeps ONE task per id (t9, the last one) -
    the subtree of t1 is copied without t1, the clone of t9 is used twice as a root - and succeeds -/
example : (expectClone (cloneSel g5 0 [1, 9])).map (·.2.1) = .error .runtime ∧
    (runC g5 fn_WBS_subtree [refV 0, refs [1, 9]]).map (·.2.1) = .ok 14 := by decide +kernel

end CheckC
end Pj.WbsSrc
