/-
  Lemmas/RenderSrcCheck.lean — stage 1: kernel-checked concrete runs of the translated Mermaid renderers
  (Extracted/RenderSrc.lean) against Model/Render.lean, with the concrete string library `cLib` of Lemmas/PrintSrc.lean.
  This file: the network source; RenderSrcCheckB.lean: the Gantt source.  See Lemmas/RenderSrc.lean.
-/
import PjVerif.Lemmas.RenderSrc
namespace Pj.RenderSrc
open Pj.PyLite Pj.Render Pj.Extracted.Render
open Pj.PrintSrc (Lib cLib enc dec)

deriving instance DecidableEq for Except

namespace Check

def FC : Nat := 10

def S : Lib := cLib

def mk (l : List RTask) : Nat → RTask := fun u => l.getD u default

def i (n : Nat) : Atom := .num ((n : Nat) : Rat)

/-- the clock reads 100.  Tasks 0-6 are the WBS; 7 is a task outside it (a predecessor of 1).
    0 "Plan {draft}"  (nested: the parent) no predecessors, done, section A, a bar style
    1 `Say "hi" {x}`  predecessors 0 and 7 (outside), active, section B
    2 "M: stone"      milestone (and past), predecessors 1, 1 (twice) and 0, no section
    3 "}{"            future, predecessor 2, section "-" (the name of the default section)
    4 ""              no predecessors, ends exactly now (done), section A, a bar style
    5 "a:b:c"         starts exactly now (not active), predecessor 4, no section
    6 `"`             id is a str, section B -/
def w1 : Nat → RTask := mk
  [ { id := i 1, name := "Plan {draft}".toList, milestone := false, start := 10, end_ := 50, preds := [],
      dict := [("gantt_section".toList, cLib.s "A".toList), ("network_bar_style".toList, i 1)] },
    { id := i 2, name := "Say \"hi\" {x}".toList, milestone := false, start := 50, end_ := 150, preds := [0, 7],
      dict := [("other".toList, i 3), ("gantt_section".toList, cLib.s "B".toList)] },
    { id := i 3, name := "M: stone".toList, milestone := true, start := 60, end_ := 60, preds := [1, 1, 0], dict := [] },
    { id := i 4, name := "}{".toList, milestone := false, start := 200, end_ := 300, preds := [2],
      dict := [("gantt_section".toList, cLib.s "-".toList)] },
    { id := i 5, name := [], milestone := false, start := 99, end_ := 100, preds := [],
      dict := [("network_bar_style".toList, i 2), ("gantt_section".toList, cLib.s "A".toList)] },
    { id := i 6, name := "a:b:c".toList, milestone := false, start := 100, end_ := 101, preds := [4], dict := [] },
    { id := cLib.s "x-7".toList, name := "\"".toList, milestone := false, start := 1/2, end_ := 3/2, preds := [5],
      dict := [("gantt_section".toList, cLib.s "B".toList)] },
    { id := i 70, name := "Ext{".toList, milestone := false, start := 0, end_ := 1, preds := [],
      dict := [("network_bar_style".toList, i 1)] } ]

def sty : Atom → Str
  | .num 1 => "fill:#f9f,stroke:#333".toList
  | _ => "fill:red".toList

def V1 : View := { tasks := [0, 1, 2, 3, 4, 5, 6], title := some "My plan".toList, weekends := true,
                   tick := some "1day".toList, now := 100, style := sty }
/-- a sub-plan: one named section only, no title, empty tick interval -/
def V2 : View := { V1 with tasks := [0, 4], title := none, weekends := false, tick := some [] }
/-- no section attribute at all; predecessors outside -/
def V3 : View := { V1 with tasks := [5, 2, 7], title := some [], tick := none }
/-- two sections, unsectioned first -/
def V4 : View := { V1 with tasks := [2, 6, 5, 1], weekends := false }
def V5 : View := { V1 with tasks := [] }
/-- '-' written out and unsectioned tasks: one section -/
def V6 : View := { V1 with tasks := [3, 5, 2] }

def views : List View := [V1, V2, V3, V4, V5, V6]

/-- the text made of the given pieces -/
def txt (l : List String) : Str := (l.map String.toList).flatten

def names : List Str := (List.range 8).map (fun t => (w1 t).name)

/-- the string library round-trips on the texts used -/
example : (names.all (fun f => dec (enc f) == f)) = true := by decide +kernel
example : (views.all (fun V => dec (enc (networkSrc (nAll S V w1) V.tasks)) == networkSrc (nAll S V w1) V.tasks)) = true := by
  decide +kernel

/-! ### `__label` -/

example : (names.all (fun n => decide (interpLabel S V1 w1 FC n = .ok (.atom (S.s (escLabel (n.filter (fun c => c != '"')))))))) = true := by
  decide +kernel
example : interpLabel S V1 w1 FC "Say \"hi\" {x}".toList = .ok (.atom (S.s "Say hi #123;x#125;".toList)) := by decide +kernel
example : interpLabel S V1 w1 FC "}{".toList = .ok (.atom (S.s "#125;#123;".toList)) := by decide +kernel

/-! ### `MermaidNetwork.__src` -/

example : (views.all (fun V => decide (interpNetworkSrc S V w1 FC = .ok (.atom (S.s (networkSrc (nAll S V w1) V.tasks)))))) = true := by
  decide +kernel

/-- the exact text (of the model = of the program, by the example above) -/
example : networkSrc (nAll S V1 w1) V1.tasks = txt
  ["flowchart LR\n",
   "  0((Start)) --> 1{{Plan #123;draft#125;}}\n",
   "  1{{Plan #123;draft#125;}} --> 2{{Say hi #123;x#125;}}\n",
   "  70{{Ext#123;}} --> 2{{Say hi #123;x#125;}}\n",
   "  2{{Say hi #123;x#125;}} --> 3{{M: stone}}\n",
   "  2{{Say hi #123;x#125;}} --> 3{{M: stone}}\n",
   "  1{{Plan #123;draft#125;}} --> 3{{M: stone}}\n",
   "  3{{M: stone}} --> 4{{#125;#123;}}\n",
   "  0((Start)) --> 5{{}}\n",
   "  5{{}} --> 6{{a:b:c}}\n",
   "  6{{a:b:c}} --> x-7{{}}\n",
   "style 1 fill:#f9f,stroke:#333\n",
   "style 5 fill:red\n"] := by decide +kernel

/-- too little fuel: the recursion limit -/
example : interpNetworkSrc S V1 w1 1 = .error (.crash .recursion) := by decide +kernel

end Check
end Pj.RenderSrc
