/-
  Lemmas/CritPathSrcC3.lean — stage 3 of the translated tie for alg/critical_path.py, the arithmetic: on the network of
  `calc` (`Wired`: the network of `__init__` plus the begin and the end node) the longest path into the end node of a
  task is the model's earliest finish (`lp_task`), the longest path into the end node is the project length
  (`lp_end`), the latest time of the end node of a task is the model's latest finish (`lt_task`).
  See Lemmas/CritPathSrc.lean.
-/
import PjVerif.Lemmas.CritPathSrcC2
namespace Pj.CritPathSrc
open Pj.PyLite Pj.CPEnv
set_option linter.unusedSimpArgs false
set_option linter.unusedVariables false

/-! ### maxima and minima of lists -/

theorem foldl_pyMaxR (vs : List Rat) (a : Rat) : vs.foldl pyMaxR a = vs.foldl max a := by
  have : pyMaxR = max := by funext a b; exact pyMaxR_eq_max a b
  rw [this]

theorem foldl_pyMinR (vs : List Rat) (a : Rat) : vs.foldl pyMinR a = vs.foldl min a := by
  have : pyMinR = min := by funext a b; exact pyMinR_eq_min a b
  rw [this]

/-- the maximum of a list (at least 0) is determined by: an upper bound that is 0 or attained -/
theorem foldl_max_char (l : List Rat) (m : Rat) (h0 : 0 ≤ m) (hle : ∀ x ∈ l, x ≤ m) (hat : m = 0 ∨ m ∈ l) :
    l.foldl max 0 = m := by
  have h1 := foldl_max_ge_init l 0
  have h2 : l.foldl max 0 ≤ m := by
    rcases foldl_max_eq_or_mem l 0 with h | h
    · rw [h]; exact h0
    · exact hle _ h
  rcases hat with h | h
  · subst h; grind
  · have := foldl_max_ge_mem l 0 m h
    grind

theorem map_add_zero (l : List Rat) : l.map (fun x => x + 0) = l := by
  induction l with
  | nil => rfl
  | cons x l ih => rw [List.map_cons, ih, Rat.add_zero]

theorem map_sub_zero (l : List Rat) : l.map (fun x => x - 0) = l := by
  induction l with
  | nil => rfl
  | cons x l ih =>
    simp only [List.map_cons, ih]
    congr 1
    grind

theorem foldl_minStep_some (vs : List Rat) (x : Rat) : vs.foldl minStep (some x) = some (vs.foldl min x) := by
  induction vs generalizing x with
  | nil => rfl
  | cons y vs ih =>
    simp only [List.foldl_cons, minStep, pyMinR_eq_min]
    exact ih (min x y)

theorem foldl_minStep_cons (x : Rat) (vs : List Rat) : (x :: vs).foldl minStep none = some (vs.foldl min x) := by
  simp only [List.foldl_cons, minStep]
  exact foldl_minStep_some vs x

theorem foldl_min_mem (l : List Rat) (a : Rat) : l.foldl min a = a ∨ l.foldl min a ∈ l := by
  induction l generalizing a with
  | nil => exact Or.inl rfl
  | cons y ys ih =>
    simp only [List.foldl_cons]
    rcases ih (min a y) with h | h
    · rw [h]
      by_cases hay : a ≤ y
      · left; grind
      · right
        have : min a y = y := by grind
        rw [this]; exact List.mem_cons_self
    · exact Or.inr (List.mem_cons_of_mem _ h)

theorem foldl_min_le_mem (l : List Rat) (a : Rat) : ∀ x ∈ l, l.foldl min a ≤ x := by
  induction l generalizing a with
  | nil => intro x hx; cases hx
  | cons y ys ih =>
    intro x hx
    simp only [List.foldl_cons]
    rcases List.mem_cons.mp hx with rfl | hx
    · have := foldl_min_le_init ys (min a x)
      grind
    · exact ih (min a y) x hx

/-- the minimum of a non-empty list depends on its set of items only -/
theorem min_congr (a a' : Rat) (l l' : List Rat) (h : ∀ x, x ∈ a :: l ↔ x ∈ a' :: l') :
    l.foldl min a = l'.foldl min a' := by
  have hm : l.foldl min a ∈ a :: l := by
    rcases foldl_min_mem l a with h1 | h1
    · rw [h1]; exact List.mem_cons_self
    · exact List.mem_cons_of_mem _ h1
  have hm' : l'.foldl min a' ∈ a' :: l' := by
    rcases foldl_min_mem l' a' with h1 | h1
    · rw [h1]; exact List.mem_cons_self
    · exact List.mem_cons_of_mem _ h1
  have hle : ∀ x ∈ a :: l, l.foldl min a ≤ x := by
    intro x hx
    rcases List.mem_cons.mp hx with rfl | hx
    · exact foldl_min_le_init l x
    · exact foldl_min_le_mem l a x hx
  have hle' : ∀ x ∈ a' :: l', l'.foldl min a' ≤ x := by
    intro x hx
    rcases List.mem_cons.mp hx with rfl | hx
    · exact foldl_min_le_init l' x
    · exact foldl_min_le_mem l' a' x hx
  have h1 := hle _ ((h _).mpr hm')
  have h2 := hle' _ ((h _).mp hm)
  grind

theorem mapM_length {α β : Type} (g : α → Option β) (l : List α) (r : List β) (h : l.mapM g = some r) :
    r.length = l.length := by
  induction l generalizing r with
  | nil =>
    simp only [List.mapM_nil, pure, Option.some.injEq] at h
    subst h; rfl
  | cons x xs ih =>
    obtain ⟨b, bs, _, hbs, rfl⟩ := (mapM_some_cons g x xs r).mp h
    simp [ih bs hbs]

theorem mapM_map {α β γ : Type} (g : β → Option γ) (f : α → β) (l : List α) :
    (l.map f).mapM g = l.mapM (fun x => g (f x)) := by
  induction l with
  | nil => rfl
  | cons x l ih => simp only [List.map_cons, List.mapM_cons, ih]

theorem mapM_append_some {α β : Type} (g : α → Option β) (l1 l2 : List α) (r1 r2 : List β)
    (h1 : l1.mapM g = some r1) (h2 : l2.mapM g = some r2) : (l1 ++ l2).mapM g = some (r1 ++ r2) := by
  simp only [List.mapM_append, h1, h2, bind, Option.bind, pure]

/-! ### the network of `calc` -/

section wired
variable (e : CPEnv) (B : Nat)

/-- the tasks of `done` that wait for `t` -/
def succsIn (done : List Uid) (t : Uid) : List Uid := done.filter (fun s => (prereqs e s).contains t)

/-- the network after `calc` has added the begin node `bg` and the end node `en` -/
structure Wired (σ : Store) (done : List Uid) (S E : Uid → Nat) (bg en : Nat) (sinkNodes : List Nat) : Prop where
  inS : ∀ t ∈ done, inArcs B σ (S t) =
    some ((prereqs e t).map (fun p => (E p, (0 : Rat))) ++ (if prereqs e t = [] then [(bg, 0)] else []))
  inE : ∀ t ∈ done, inArcs B σ (E t) = some [(S t, e.dur t)]
  outS : ∀ t ∈ done, outArcs B σ (S t) = some [(E t, e.dur t)]
  outE : ∀ t ∈ done, outArcs B σ (E t) =
    some ((succsIn e done t).map (fun s => (S s, (0 : Rat))) ++ (if succsIn e done t = [] then [(en, 0)] else []))
  inBg : inArcs B σ bg = some []
  inEn : inArcs B σ en = some (sinkNodes.map (fun n => (n, (0 : Rat))))
  outEn : outArcs B σ en = some []
  sinks : ∀ n, n ∈ sinkNodes ↔ ∃ t ∈ done, n = E t ∧ succsIn e done t = []

variable {σ : Store} {done : List Uid} {S E : Uid → Nat} {bg en : Nat} {sinkNodes : List Nat}

theorem lp_bg (h : Wired e B σ done S E bg en sinkNodes) (k : Nat) : lpF (inArcs B σ) (k + 1) bg = some 0 := by
  simp only [lpF, h.inBg]
  rfl

/-- the forward pass: the longest path into the start / end node of a task -/
theorem lp_task (h : Wired e B σ done S E bg en sinkNodes) (hpre : ∀ t ∈ done, ∀ p ∈ prereqs e t, p ∈ done) :
    ∀ (f : Nat) (t : Uid) (v : Rat), t ∈ done → efF e f t = some v →
      lpF (inArcs B σ) (2 * f) (S t) = some (v - e.dur t) ∧ lpF (inArcs B σ) (2 * f + 1) (E t) = some v := by
  intro f
  induction f with
  | zero => intro t v _ hv; simp [efF] at hv
  | succ f ih =>
    intro t v ht hv
    have hv' := hv
    rw [efF] at hv'
    simp only [Option.map_eq_some_iff] at hv'
    obtain ⟨ll, hll, rfl⟩ := hv'
    -- the start node
    have hS : lpF (inArcs B σ) (2 * f + 2) (S t) = some (ll.foldl max 0) := by
      rw [lpF, h.inS t ht]
      simp only [Option.map_eq_some_iff]
      have hP : ((prereqs e t).map (fun p => (E p, (0 : Rat)))).mapM
          (fun p => (lpF (inArcs B σ) (2 * f + 1) p.1).map (fun x => x + p.2)) = some ll := by
        rw [mapM_map]
        refine mapM_some_congr (efF e f) _ _ _ (fun p hp b hb => ?_) hll
        simp only
        rw [(ih p b (hpre t ht p hp) hb).2]
        simp only [Option.map_some, Rat.add_zero]
      by_cases hnil : prereqs e t = []
      · rw [hnil] at hll hP ⊢
        simp only [List.mapM_nil, pure, Option.some.injEq] at hll
        subst hll
        refine ⟨[0 + 0], ?_, ?_⟩
        · simp only [List.map_nil, List.nil_append, if_true]
          have := lp_bg e B h (2 * f)
          exact (mapM_some_cons _ _ _ _).mpr ⟨0 + 0, [], by rw [this]; rfl, rfl, rfl⟩
        · simp only [List.foldl_cons, List.foldl_nil, pyMaxR_eq_max]; grind
      · refine ⟨ll, ?_, ?_⟩
        · rw [if_neg hnil, List.append_nil]; exact hP
        · exact foldl_pyMaxR ll 0
    have hnn : 0 ≤ ll.foldl max 0 + e.dur t := efF_nonneg e _ t _ hv
    refine ⟨?_, ?_⟩
    · rw [show 2 * (f + 1) = 2 * f + 2 by omega, hS]
      congr 1; grind
    · rw [show 2 * (f + 1) + 1 = (2 * f + 2) + 1 by omega, lpF, h.inE t ht]
      simp only [Option.map_eq_some_iff]
      refine ⟨[ll.foldl max 0 + e.dur t], ?_, ?_⟩
      · exact (mapM_some_cons _ _ _ _).mpr ⟨_, [], by rw [hS]; rfl, rfl, rfl⟩
      · simp only [List.foldl_cons, List.foldl_nil, pyMaxR_eq_max]
        grind

/-- more fuel -/
theorem lp_task_le (h : Wired e B σ done S E bg en sinkNodes) (hpre : ∀ t ∈ done, ∀ p ∈ prereqs e t, p ∈ done)
    {f : Nat} {t : Uid} {v : Rat} (ht : t ∈ done) (hv : efF e f t = some v) {k : Nat} (hk : 2 * f + 1 ≤ k) :
    lpF (inArcs B σ) k (S t) = some (v - e.dur t) ∧ lpF (inArcs B σ) k (E t) = some v := by
  obtain ⟨h1, h2⟩ := lp_task e B h hpre f t v ht hv
  exact ⟨lpF_mono_le _ _ _ (by omega) _ _ h1, lpF_mono_le _ _ _ hk _ _ h2⟩

end wired

/-! ### sinks -/

/-- from every leaf a leaf without successors is reached along which the earliest finish does not decrease -/
theorem sink_reach (e : CPEnv) (len : Rat) (hall : ∀ x ∈ leaves e, ∃ u, ef e x = some u) :
    ∀ (k : Nat) (t : Uid) (v w : Rat), t ∈ leaves e → lfF e len k t = some v → ef e t = some w →
      ∃ s ∈ leaves e, succsOf e s = [] ∧ ∃ u, ef e s = some u ∧ w ≤ u := by
  intro k
  induction k with
  | zero => intro t v w _ h; simp [lfF] at h
  | succ k ih =>
    intro t v w ht h hw
    rcases lfF_succ_some e len k t v h with ⟨hnil, _⟩ | ⟨s0, ss, b, bs, hcons, hll, _⟩
    · exact ⟨t, ht, hnil, w, hw, Rat.le_refl⟩
    · obtain ⟨b0, bs0, hb0, _, _⟩ := (mapM_some_cons _ s0 ss _).mp hll
      simp only [Option.map_eq_some_iff] at hb0
      obtain ⟨l0, hl0, _⟩ := hb0
      have hs0 : s0 ∈ succsOf e t := by rw [hcons]; exact List.mem_cons_self
      obtain ⟨hs0l, hts0⟩ := (mem_succsOf e t s0).mp hs0
      obtain ⟨u0, hu0⟩ := hall s0 hs0l
      have h1 := ef_step e s0 t hts0 u0 w hu0 hw
      have h2 := dur_nonneg e s0
      obtain ⟨s, hs, hnil, u, hu, hle⟩ := ih s0 l0 u0 hs0l hl0 hu0
      exact ⟨s, hs, hnil, u, hu, by grind⟩

section wired2
variable (e : CPEnv) (B : Nat)
variable {σ : Store} {done : List Uid} {S E : Uid → Nat} {bg en : Nat} {sinkNodes : List Nat}

theorem succsIn_nil_iff (hdone : ∀ t, t ∈ done ↔ t ∈ leaves e) (t : Uid) :
    succsIn e done t = [] ↔ succsOf e t = [] := by
  unfold succsIn succsOf
  simp only [List.filter_eq_nil_iff]
  constructor
  · intro h x hx; exact h x ((hdone x).mpr hx)
  · intro h x hx; exact h x ((hdone x).mp hx)

theorem mem_succsIn (hdone : ∀ t, t ∈ done ↔ t ∈ leaves e) (t s : Uid) : s ∈ succsIn e done t ↔ s ∈ succsOf e t := by
  unfold succsIn succsOf
  simp only [List.mem_filter, hdone]

/-- the longest path into the end node is the project length -/
theorem lp_end (h : Wired e B σ done S E bg en sinkNodes) (hpre : ∀ t ∈ done, ∀ p ∈ prereqs e t, p ∈ done)
    (hdone : ∀ t, t ∈ done ↔ t ∈ leaves e) (hac : acyclicB e = true) {len : Rat} (hlen : projectLen e = some len) :
    lpF (inArcs B σ) (2 * (e.n + 1) + 2) en = some len := by
  have hall : ∀ x ∈ leaves e, ∃ u, ef e x = some u := fun x hx => ef_of_acyclic e hac hx
  obtain ⟨hle, hat⟩ := projectLen_spec e len hlen
  -- every sink node carries the earliest finish of its task
  have hval : ∀ n ∈ sinkNodes, ∃ t ∈ leaves e, succsOf e t = [] ∧ n = E t ∧ ∃ u, ef e t = some u ∧
      lpF (inArcs B σ) (2 * (e.n + 1) + 1) n = some u := by
    intro n hn
    obtain ⟨t, ht, rfl, hs⟩ := (h.sinks n).mp hn
    obtain ⟨u, hu⟩ := hall t ((hdone t).mp ht)
    exact ⟨t, (hdone t).mp ht, (succsIn_nil_iff e hdone t).mp hs, rfl, u, hu,
      (lp_task_le e B h hpre ht hu (Nat.le_refl _)).2⟩
  obtain ⟨vs, hvs⟩ := mapM_total (fun p : Nat × Rat => (lpF (inArcs B σ) (2 * (e.n + 1) + 1) p.1).map (fun x => x + p.2))
    (sinkNodes.map (fun n => (n, (0 : Rat)))) (by
      intro p hp
      obtain ⟨n, hn, rfl⟩ := List.mem_map.mp hp
      obtain ⟨t, _, _, _, u, _, hlp⟩ := hval n hn
      exact ⟨u + 0, by simp only [hlp, Option.map_some]⟩)
  have hlen0 : 0 ≤ len := by
    unfold projectLen at hlen
    simp only [Option.map_eq_some_iff] at hlen
    obtain ⟨ll, _, rfl⟩ := hlen
    exact foldl_max_ge_init ll 0
  rw [show 2 * (e.n + 1) + 2 = (2 * (e.n + 1) + 1) + 1 by omega, lpF, h.inEn]
  simp only [hvs, Option.map_some, Option.some.injEq]
  rw [foldl_pyMaxR]
  apply foldl_max_char _ _ hlen0
  · intro x hx
    obtain ⟨p, hp, hg⟩ := mapM_some_mem_inv _ _ _ hvs x hx
    obtain ⟨n, hn, rfl⟩ := List.mem_map.mp hp
    obtain ⟨t, htl, _, _, u, hu, hlp⟩ := hval n hn
    simp only [hlp, Option.map_some, Option.some.injEq] at hg
    obtain ⟨w, hw, hwl⟩ := hle t htl
    rw [hu] at hw; cases hw
    grind
  · by_cases hne : leaves e = []
    · left
      unfold projectLen at hlen
      rw [hne] at hlen
      simp only [List.mapM_nil, pure, Option.map_some, List.foldl_nil, Option.some.injEq] at hlen
      exact hlen.symm
    · right
      obtain ⟨t, ht, heft⟩ := hat hne
      obtain ⟨v, hv⟩ := lfF_total e len hac t ht
      obtain ⟨s, hs, hnil, u, hu, hlu⟩ := sink_reach e len hall _ t v len ht hv heft
      obtain ⟨w, hw, hwl⟩ := hle s hs
      rw [hu] at hw; cases hw
      have hul : u = len := by grind
      subst hul
      have hsn : E s ∈ sinkNodes :=
        (h.sinks (E s)).mpr ⟨s, (hdone s).mpr hs, rfl, (succsIn_nil_iff e hdone s).mpr hnil⟩
      obtain ⟨b, hb, hg⟩ := mapM_some_mem _ _ _ hvs (E s, 0) (List.mem_map.mpr ⟨E s, hsn, rfl⟩)
      have := (lp_task_le e B h hpre ((hdone s).mpr hs) hu (Nat.le_refl (2 * (e.n + 1) + 1))).2
      simp only [this, Option.map_some, Option.some.injEq] at hg
      rw [← hg, Rat.add_zero] at hb
      exact hb

/-- the network seen from another store with the same arcs -/
theorem Wired.of_same {σ' : Store} (h : Wired e B σ done S E bg en sinkNodes) (hs : SameF B σ σ') :
    Wired e B σ' done S E bg en sinkNodes := by
  refine ⟨?_, ?_, ?_, ?_, ?_, ?_, ?_, h.sinks⟩
  · intro t ht; rw [← hs.inArcs_eq B]; exact h.inS t ht
  · intro t ht; rw [← hs.inArcs_eq B]; exact h.inE t ht
  · intro t ht; rw [← hs.outArcs_eq B]; exact h.outS t ht
  · intro t ht; rw [← hs.outArcs_eq B]; exact h.outE t ht
  · rw [← hs.inArcs_eq B]; exact h.inBg
  · rw [← hs.inArcs_eq B]; exact h.inEn
  · rw [← hs.outArcs_eq B]; exact h.outEn

theorem lt_en (h : Wired e B σ done S E bg en sinkNodes) (su0 : Nat → Option Rat) (k : Nat) :
    ltF (outArcs B σ) su0 (k + 1) en = su0 en := by
  simp only [ltF, h.outEn]
  rfl

/-- the backward pass: the latest time of the end / start node of a task -/
theorem lt_task (h : Wired e B σ done S E bg en sinkNodes) (hdone : ∀ t, t ∈ done ↔ t ∈ leaves e)
    (su0 : Nat → Option Rat) {len : Rat} (hsu : su0 en = some len) :
    ∀ (f : Nat) (t : Uid) (v : Rat), t ∈ done → lfF e len f t = some v →
      ltF (outArcs B σ) su0 (2 * f) (E t) = some v ∧ ltF (outArcs B σ) su0 (2 * f + 1) (S t) = some (v - e.dur t) := by
  intro f
  induction f with
  | zero => intro t v _ hv; simp [lfF] at hv
  | succ f ih =>
    intro t v ht hv
    have hE : ltF (outArcs B σ) su0 (2 * f + 2) (E t) = some v := by
      rw [ltF, h.outE t ht]
      dsimp only
      rcases lfF_succ_some e len f t v hv with ⟨hnil, rfl⟩ | ⟨s0, ss, b, bs, hcons, hll, rfl⟩
      · have hnil' : succsIn e done t = [] := (succsIn_nil_iff e hdone t).mpr hnil
        rw [hnil']
        simp only [List.map_nil, List.nil_append, if_true]
        have h1 : [(en, (0 : Rat))].mapM (fun p => (ltF (outArcs B σ) su0 (2 * f + 1) p.1).map (fun x => x - p.2)) =
            some [v - 0] := by
          refine (mapM_some_cons _ _ _ _).mpr ⟨v - 0, [], ?_, rfl, rfl⟩
          simp only [lt_en e B h su0 (2 * f), hsu, Option.map_some]
        rw [h1]
        simp only [foldl_minStep_cons, List.foldl_nil, Option.some.injEq]
        grind
      · have hne : succsIn e done t ≠ [] := by
          intro hx
          have := (succsIn_nil_iff e hdone t).mp hx
          rw [this] at hcons; cases hcons
        rw [if_neg hne, List.append_nil, mapM_map]
        -- the model's values, enumerated in the order of `done`
        have hg : ∀ s ∈ succsIn e done t,
            (ltF (outArcs B σ) su0 (2 * f + 1) (S s)).map (fun x => x - 0) =
              (lfF e len f s).map (fun l => l - e.dur s) ∧ ∃ b', (lfF e len f s).map (fun l => l - e.dur s) = some b' := by
          intro s hs
          have hs' : s ∈ s0 :: ss := by rw [← hcons]; exact (mem_succsIn e hdone t s).mp hs
          obtain ⟨b', _, hb'⟩ := mapM_some_mem _ _ _ hll s hs'
          have hb'' := hb'
          simp only [Option.map_eq_some_iff] at hb''
          obtain ⟨l', hl', rfl⟩ := hb''
          have hsd : s ∈ done := (List.mem_filter.mp hs).1
          refine ⟨?_, _, hb'⟩
          rw [(ih s l' hsd hl').2, hl']
          simp only [Option.map_some, Option.some.injEq]
          grind
        obtain ⟨r, hr⟩ := mapM_total (fun s => (lfF e len f s).map (fun l => l - e.dur s)) (succsIn e done t)
          (fun s hs => (hg s hs).2)
        have hr' : (succsIn e done t).mapM (fun s => (ltF (outArcs B σ) su0 (2 * f + 1) (S s)).map (fun x => x - 0)) =
            some r := by
          refine mapM_some_congr _ _ _ _ (fun s hs b' hb' => ?_) hr
          rw [(hg s hs).1]; exact hb'
        rw [hr']
        -- the two enumerations have the same items
        have hmem : ∀ x, x ∈ r ↔ x ∈ b :: bs := by
          intro x
          constructor
          · intro hx
            obtain ⟨s, hs, hgs⟩ := mapM_some_mem_inv _ _ _ hr x hx
            have hs' : s ∈ s0 :: ss := by rw [← hcons]; exact (mem_succsIn e hdone t s).mp hs
            obtain ⟨b', hb', hgs'⟩ := mapM_some_mem _ _ _ hll s hs'
            rw [hgs] at hgs'; cases hgs'; exact hb'
          · intro hx
            obtain ⟨s, hs, hgs⟩ := mapM_some_mem_inv _ _ _ hll x hx
            have hs' : s ∈ succsIn e done t := (mem_succsIn e hdone t s).mpr (by rw [hcons]; exact hs)
            obtain ⟨b', hb', hgs'⟩ := mapM_some_mem _ _ _ hr s hs'
            rw [hgs] at hgs'; cases hgs'; exact hb'
        cases r with
        | nil =>
          have := (hmem b).mpr List.mem_cons_self
          cases this
        | cons c cs =>
          simp only [foldl_minStep_cons, Option.some.injEq]
          exact min_congr c b cs bs hmem
    refine ⟨by rw [show 2 * (f + 1) = 2 * f + 2 by omega]; exact hE, ?_⟩
    rw [show 2 * (f + 1) + 1 = (2 * f + 2) + 1 by omega, ltF, h.outS t ht]
    dsimp only
    have h1 : [(E t, e.dur t)].mapM (fun p => (ltF (outArcs B σ) su0 (2 * f + 2) p.1).map (fun x => x - p.2)) =
        some [v - e.dur t] := by
      refine (mapM_some_cons _ _ _ _).mpr ⟨v - e.dur t, [], ?_, rfl, rfl⟩
      simp only [hE, Option.map_some]
    rw [h1]
    simp only [foldl_minStep_cons, List.foldl_nil]

theorem lt_task_le (h : Wired e B σ done S E bg en sinkNodes) (hdone : ∀ t, t ∈ done ↔ t ∈ leaves e)
    (su0 : Nat → Option Rat) {len : Rat} (hsu : su0 en = some len) {f : Nat} {t : Uid} {v : Rat} (ht : t ∈ done)
    (hv : lfF e len f t = some v) {k : Nat} (hk : 2 * f + 1 ≤ k) :
    ltF (outArcs B σ) su0 k (E t) = some v ∧ ltF (outArcs B σ) su0 k (S t) = some (v - e.dur t) := by
  obtain ⟨h1, h2⟩ := lt_task e B h hdone su0 hsu f t v ht hv
  exact ⟨ltF_mono_le _ _ _ _ (by omega) _ _ h1, ltF_mono_le _ _ _ _ hk _ _ h2⟩

end wired2

end Pj.CritPathSrc
