/-
  Lemmas/CsvSrcT6.lean — CSV I/O, READ side: `wbs[k]` on the store `raws_to_wbs` builds is `tasks_by_id.get(k)`
  (`wbsFind_tree`), when the parent ids are acyclic (a rank `dep` bounded by the number of rows that grows from a parent
  to its child): the depth-first enumeration of `wbs.tasks` reaches every task and only tasks, the ids are pairwise
  different.  With it `raws_to_wbs_run` loses its hypothesis on the lookups (`raws_to_wbs_run'`).
-/
import PjVerif.Lemmas.CsvSrcT5
namespace Pj.CsvSrc
open Pj.PyLite Pj.Extracted.Csv Pj.Csv

/-! ### depth first -/

def kidsRefs (h : Nat → PyLite.Env) (i : Nat) : List Nat := refsOf (((h i).get? "children").getD (.list []))

theorem kidsRefs_eq (h : Nat → PyLite.Env) (i : Nat) : kidsRefs h i = refsOf (.list (kids h i)) := by
  unfold kidsRefs kids listSlot
  cases (h i).get? "children" with
  | none => rfl
  | some v => cases v <;> rfl

theorem mem_refsOf (l : List Atom) (i : Nat) : i ∈ refsOf (.list l) ↔ Atom.ref i ∈ l := by
  simp only [refsOf, List.mem_filterMap]
  constructor
  · rintro ⟨a, ha, h⟩
    cases a <;> cases h <;> exact ha
  · intro h
    exact ⟨_, h, rfl⟩

theorem mem_dfs_succ (h : Nat → PyLite.Env) (f : Nat) (l : List Nat) (x : Nat) :
    x ∈ dfsHeap h (f + 1) l ↔ ∃ i ∈ l, x = i ∨ x ∈ dfsHeap h f (kidsRefs h i) := by
  simp only [dfsHeap, List.mem_flatMap, List.mem_cons, kidsRefs]

theorem dfs_mem_self (h : Nat → PyLite.Env) (f : Nat) (l : List Nat) (i : Nat) (hi : i ∈ l) : i ∈ dfsHeap h (f + 1) l :=
  (mem_dfs_succ h f l i).2 ⟨i, hi, .inl rfl⟩

theorem dfs_step (h : Nat → PyLite.Env) : ∀ (f : Nat) (l : List Nat) (q c : Nat), q ∈ dfsHeap h f l → c ∈ kidsRefs h q →
    c ∈ dfsHeap h (f + 1) l
  | 0, _, _, _, hq, _ => by simp [dfsHeap] at hq
  | f + 1, l, q, c, hq, hc => by
    obtain ⟨i, hi, h1⟩ := (mem_dfs_succ h f l q).1 hq
    refine (mem_dfs_succ h (f + 1) l c).2 ⟨i, hi, .inr ?_⟩
    rcases h1 with rfl | h1
    · exact dfs_mem_self h f _ c hc
    · exact dfs_step h f _ q c h1 hc

theorem dfs_only (h : Nat → PyLite.Env) (P : Nat → Prop) (hP : ∀ i, P i → ∀ c ∈ kidsRefs h i, P c) :
    ∀ (f : Nat) (l : List Nat), (∀ i ∈ l, P i) → ∀ x ∈ dfsHeap h f l, P x
  | 0, _, _, x, hx => by simp [dfsHeap] at hx
  | f + 1, l, hl, x, hx => by
    obtain ⟨i, hi, h1⟩ := (mem_dfs_succ h f l x).1 hx
    rcases h1 with rfl | h1
    · exact hl x hi
    · exact dfs_only h P hP f _ (hP i (hl i hi)) x h1

theorem find_unique (p : Nat → Bool) (t : Nat) : ∀ (l : List Nat), t ∈ l → p t = true → (∀ x ∈ l, p x = true → x = t) →
    l.find? p = some t
  | [], h, _, _ => by cases h
  | a :: l, ht, hp, hu => by
    cases ha : p a with
    | true =>
      simp only [List.find?_cons, ha]
      rw [hu a (List.mem_cons_self ..) ha]
    | false =>
      simp only [List.find?_cons, ha]
      rcases List.mem_cons.1 ht with rfl | ht
      · rw [ha] at hp; cases hp
      · exact find_unique p t l ht hp (fun x hx => hu x (List.mem_cons_of_mem _ hx))

theorem kids_congr (h h' : Nat → PyLite.Env) (j : Nat) (e : h j = h' j) : kids h j = kids h' j := by
  unfold kids listSlot; rw [e]

/-! ### the rows -/

theorem linkRows_lt (E : Nat → PyLite.Env) : ∀ (r : Nat) (os : List Nat), ∀ x ∈ linkRows E r os, x.t < r + os.length
  | _, [], x, h => by cases h
  | r, o :: os, x, h => by
    rcases List.mem_cons.1 h with rfl | h
    · show r < r + (os.length + 1); omega
    · have := linkRows_lt E (r + 1) os x h
      rw [List.length_cons]; omega

theorem linkRows_pairwise (E : Nat → PyLite.Env) : ∀ (r : Nat) (os : List Nat),
    (linkRows E r os).Pairwise (fun x y => x.t ≠ y.t)
  | _, [] => List.Pairwise.nil
  | r, o :: os => by
    refine List.pairwise_cons.2 ⟨fun y hy => ?_, linkRows_pairwise E (r + 1) os⟩
    have := (linkRows_spec E (r + 1) os y hy).2.2.2
    show r ≠ y.t; omega

theorem linkRows_of_mem (E : Nat → PyLite.Env) : ∀ (r : Nat) (os : List Nat), ∀ o ∈ os, ∃ x ∈ linkRows E r os, x.o = o
  | _, [], o, h => by cases h
  | r, o' :: os, o, h => by
    rcases List.mem_cons.1 h with rfl | h
    · exact ⟨_, List.mem_cons_self .., rfl⟩
    · obtain ⟨x, hx, e⟩ := linkRows_of_mem E (r + 1) os o h
      exact ⟨x, List.mem_cons_of_mem _ hx, e⟩

theorem allocFold_at (E : Nat → PyLite.Env) : ∀ (os : List Nat) (r : Nat) (st : PState), st.reads = r →
    ∀ x ∈ linkRows E r os, (os.foldl (fun s o => allocSt s (mkTask (E o))) st).heap x.t = mkTask (E x.o)
  | [], _, _, _, x, h => by cases h
  | o :: os, r, st, hr, x, h => by
    rcases List.mem_cons.1 h with rfl | h
    · show (os.foldl _ (allocSt st (mkTask (E o)))).heap r = mkTask (E o)
      rw [allocFold_low _ r os _ (by show r < st.reads + 1; omega)]
      simp [allocSt, hr]
    · exact allocFold_at E os (r + 1) _ (by show st.reads + 1 = r + 1; omega) x h

theorem byId_vals_gen (E : Nat → PyLite.Env) (Q : Atom → Prop) : ∀ (os : List Nat) (r : Nat) (D : List (Atom × Atom)),
    (∀ k v, Dict.get? D k = some v → Q v) → (∀ x ∈ linkRows E r os, Q (.ref x.t)) →
    ∀ k v, Dict.get? (byId E os r D) k = some v → Q v
  | [], _, _, hD, _ => hD
  | o :: os, r, D, hD, hQ => by
    refine byId_vals_gen E Q os (r + 1) _ (fun k v hv => ?_) (fun x hx => hQ x (List.mem_cons_of_mem _ hx))
    rw [dictGet_insert] at hv
    by_cases hk : (slot (E o) "id").pyEq k = true
    · rw [if_pos hk] at hv
      injection hv with hv
      rw [← hv]; exact hQ _ (List.mem_cons_self ..)
    · rw [if_neg hk] at hv
      exact hD k v hv

theorem dictGet_congr (D : List (Atom × Atom)) (a k : Atom) (h : a.pyEq k = true) : Dict.get? D k = Dict.get? D a := by
  have hn := (pyEq_iff _ _).1 h
  unfold Dict.get?
  simp only [Atom.pyEq, hn]

/-! ### the store `raws_to_wbs` builds -/

section tree
variable (st : PState) (os : List Nat)

theorem treeSt_reads : (treeSt st os).reads = wbsRef st os + 1 := by
  unfold treeSt
  rw [addRoots_reads]
  show (linked st os).1.reads + 1 = _
  rw [linked_reads]

theorem treeSt_other (j : Nat) (hj : j ≠ wbsRef st os) : (treeSt st os).heap j = (linked st os).1.heap j := by
  unfold treeSt
  rw [addRoots_other _ j hj]
  simp only [allocSt, linked_reads, if_neg hj]

theorem treeSt_wbs : (treeSt st os).heap (wbsRef st os) = wbsEnv (linked st os).2 := by
  unfold treeSt
  rw [addRoots_wbs _ _ _ [] (by simp only [allocSt, linked_reads, if_true])]
  rfl

theorem treeSt_roots : refsOf ((((treeSt st os).heap (wbsRef st os)).get? "roots").getD (.list [])) =
    refsOf (.list (linked st os).2) := by
  rw [treeSt_wbs]; rfl

theorem row_ne_wbs (x : LinkRow) (hx : x ∈ linkRows st.heap st.reads os) : x.t ≠ wbsRef st os := by
  have := linkRows_lt st.heap st.reads os x hx
  unfold wbsRef; omega

theorem tasksSt_at (x : LinkRow) (hx : x ∈ linkRows st.heap st.reads os) :
    (tasksSt st os).heap x.t = mkTask (st.heap x.o) := allocFold_at st.heap os st.reads st rfl x hx

theorem idDict_refs : ∀ k v, Dict.get? (idDict st os) k = some v → ∃ q, v = .ref q :=
  fun k v h => by obtain ⟨q, hq, _⟩ := idDict_vals st os k v h; exact ⟨q, hq⟩

theorem idDict_rows (k : Atom) (q : Nat) (h : dictRef (idDict st os) k = some q) :
    ∃ x ∈ linkRows st.heap st.reads os, x.t = q := by
  obtain ⟨x, hx, e⟩ := byId_vals_gen st.heap (fun v => ∃ x ∈ linkRows st.heap st.reads os, v = .ref x.t) os st.reads []
    (fun k v h => by simp [Dict.get?] at h) (fun x hx => ⟨x, hx, rfl⟩) k _ (dictRef_some h)
  injection e with e
  exact ⟨x, hx, e.symm⟩

theorem parOf_some {D : List (Atom × Atom)} {p : Atom} {q : Nat} (h : parOf D p = some q) : dictRef D p = some q := by
  unfold parOf at h
  by_cases hp : p = .none
  · rw [if_pos hp] at h; cases h
  · rw [if_neg hp] at h; exact h

/-- the `children` of a task in the final store: tasks of rows only -/
theorem tree_kids_only (x : LinkRow) (hx : x ∈ linkRows st.heap st.reads os) (a : Atom)
    (ha : a ∈ kids (treeSt st os).heap x.t) : ∃ y ∈ linkRows st.heap st.reads os, a = .ref y.t := by
  rw [kids_congr _ _ _ (treeSt_other st os _ (row_ne_wbs st os x hx))] at ha
  rcases fold_kids_only (idDict st os) (idDict_refs st os) _ _ x.t a ha with h | h
  · exfalso
    have h0 : kids (tasksSt st os).heap x.t = [] := by
      unfold kids listSlot
      rw [tasksSt_at st os x hx, mkTask_get _ "children" (.list []) (by simp [taskEnvOf, envGet_cons])]
    rw [h0] at h; cases h
  · exact h

theorem tree_roots_only (a : Atom) (ha : a ∈ (linked st os).2) : ∃ y ∈ linkRows st.heap st.reads os, a = .ref y.t := by
  rcases fold_roots_only (idDict st os) (idDict_refs st os) _ _ a ha with h | h
  · cases h
  · exact h

theorem tree_id (x : LinkRow) (hx : x ∈ linkRows st.heap st.reads os) :
    ((treeSt st os).heap x.t).get? "id" = some (.atom x.a) := by
  rw [treeSt_other st os _ (row_ne_wbs st os x hx)]
  unfold linked
  rw [fold_id (idDict st os) (idDict_refs st os), tasksSt_at st os x hx, (linkRows_spec _ _ _ x hx).2.1]
  exact mkTask_get _ "id" _ (by simp [taskEnvOf, envGet_cons])

theorem tree_idIs (k : Atom) (x : LinkRow) (hx : x ∈ linkRows st.heap st.reads os) :
    idIs (treeSt st os) k x.t = x.a.pyEq k := by
  unfold idIs
  rw [tree_id st os x hx]

/-- every element of `wbs.tasks` is the task of a row -/
theorem tree_tasks_only : ∀ i ∈ wbsTasks (treeSt st os) (wbsRef st os), ∃ x ∈ linkRows st.heap st.reads os, x.t = i := by
  unfold wbsTasks
  rw [treeSt_roots]
  refine dfs_only _ (fun i => ∃ x ∈ linkRows st.heap st.reads os, x.t = i) ?_ _ _ ?_
  · rintro i ⟨x, hx, rfl⟩ c hc
    rw [kidsRefs_eq, mem_refsOf] at hc
    obtain ⟨y, hy, e⟩ := tree_kids_only st os x hx _ hc
    injection e with e
    exact ⟨y, hy, e.symm⟩
  · intro i hi
    rw [mem_refsOf] at hi
    obtain ⟨y, hy, e⟩ := tree_roots_only st os _ hi
    injection e with e
    exact ⟨y, hy, e.symm⟩

/-- the parent ids are acyclic: a rank, at most the number of rows, that grows from a parent to its child -/
def Acyclic : Prop :=
  ∃ dep : Nat → Nat, (∀ x ∈ linkRows st.heap st.reads os, dep x.t ≤ os.length) ∧
    ∀ x ∈ linkRows st.heap st.reads os, ∀ q, parOf (idDict st os) x.p = some q → dep q < dep x.t

theorem tree_reach (dep : Nat → Nat)
    (hdep : ∀ x ∈ linkRows st.heap st.reads os, ∀ q, parOf (idDict st os) x.p = some q → dep q < dep x.t) :
    ∀ (d f : Nat), d < f → ∀ x ∈ linkRows st.heap st.reads os, dep x.t ≤ d →
      x.t ∈ dfsHeap (treeSt st os).heap f (refsOf (.list (linked st os).2))
  | d, 0, h, _, _, _ => by omega
  | d, f + 1, hdf, x, hx, hd => by
    have hnew := fold_new (idDict st os) (idDict_refs st os) _ (tasksSt st os, [])
      (linkRows_pairwise st.heap st.reads os) x hx
    cases hq : parOf (idDict st os) x.p with
    | none =>
      rw [hq] at hnew
      exact dfs_mem_self _ f _ _ ((mem_refsOf _ _).2 hnew)
    | some q =>
      rw [hq] at hnew
      have hlt := hdep x hx q hq
      obtain ⟨y, hy, rfl⟩ := idDict_rows st os _ _ (parOf_some hq)
      cases d with
      | zero => omega
      | succ d =>
        have hy' := tree_reach dep hdep d f (by omega) y hy (by omega)
        refine dfs_step _ f _ y.t x.t hy' ?_
        rw [kidsRefs_eq, mem_refsOf]
        rw [kids_congr _ _ _ (treeSt_other st os _ (row_ne_wbs st os y hy))]
        exact hnew

/-- every task of a row is in `wbs.tasks` -/
theorem tree_tasks_all (hac : Acyclic st os) :
    ∀ x ∈ linkRows st.heap st.reads os, x.t ∈ wbsTasks (treeSt st os) (wbsRef st os) := by
  obtain ⟨dep, hb, hdep⟩ := hac
  intro x hx
  unfold wbsTasks
  rw [treeSt_roots, treeSt_reads]
  exact tree_reach st os dep hdep os.length _ (by unfold wbsRef; omega) x hx (hb x hx)

/-- `wbs[k]` on the store `raws_to_wbs` builds = `tasks_by_id.get(k)` -/
theorem wbsFind_tree (hids : (os.map (fun o => slot (st.heap o) "id")).Pairwise (fun a b => a.pyEq b = false))
    (hac : Acyclic st os) (k : Atom) :
    wbsFind (treeSt st os) (wbsRef st os) k = dictRef (idDict st os) k := by
  have hget := byId_get st.heap os st.reads [] hids
  by_cases h : ∃ x ∈ linkRows st.heap st.reads os, x.a.pyEq k = true
  · obtain ⟨x, hx, hk⟩ := h
    have hgk : Dict.get? (idDict st os) k = some (.ref x.t) := (dictGet_congr _ _ _ hk).trans (hget x hx)
    rw [dictRef_of_get hgk]
    unfold wbsFind
    refine find_unique _ _ _ (tree_tasks_all st os hac x hx) ((tree_idIs st os k x hx).trans hk) (fun i hi hp => ?_)
    obtain ⟨y, hy, rfl⟩ := tree_tasks_only st os i hi
    rw [tree_idIs st os k y hy] at hp
    have h1 : Dict.get? (idDict st os) k = some (.ref y.t) := (dictGet_congr _ _ _ hp).trans (hget y hy)
    rw [hgk] at h1
    injection h1 with h1; injection h1 with h1
    exact h1.symm
  · have hno : ∀ x ∈ linkRows st.heap st.reads os, x.a.pyEq k = false := fun x hx => by
      cases hc : x.a.pyEq k with
      | false => rfl
      | true => exact absurd ⟨x, hx, hc⟩ h
    have hnone : Dict.get? (idDict st os) k = none := by
      unfold idDict
      rw [byId_notin st.heap k os st.reads [] (fun o ho => by
        obtain ⟨x, hx, e⟩ := linkRows_of_mem st.heap st.reads os o ho
        have := hno x hx
        rw [(linkRows_spec _ _ _ x hx).2.1, e] at this
        exact this)]
      simp [Dict.get?]
    have : dictRef (idDict st os) k = none := by unfold dictRef; rw [hnone]
    rw [this]
    unfold wbsFind
    rw [List.find?_eq_none]
    intro i hi
    obtain ⟨y, hy, rfl⟩ := tree_tasks_only st os i hi
    rw [tree_idIs st os k y hy, hno y hy]
    decide

end tree

/-- a run of `raws_to_wbs` on the raw objects `os`: `RawOK2`, pairwise different ids, every predecessor id names a row,
    the parent ids acyclic -/
theorem raws_to_wbs_run' (L : IOLib) (F : Nat) (st : PState) (os : List Nat)
    (hos : ∀ o ∈ os, o < st.reads ∧ RawOK2 (st.heap o)) (hpar : ParInv st.reads st)
    (hids : (os.map (fun o => slot (st.heap o) "id")).Pairwise (fun a b => a.pyEq b = false))
    (hpreds : ∀ o ∈ os, ∀ k ∈ predsOf (st.heap o), (dictRef (idDict st os) k).isSome)
    (hac : Acyclic st os) :
    runIO L csvFuns (F + 2) fn_raws_to_wbs [.list (os.map Atom.ref)] st =
      .ok (.atom (.ref (wbsRef st os)), predAll (predRows st os) (treeSt st os)) :=
  raws_to_wbs_run L F st os hos hpar hids hpreds (wbsFind_tree st os hids hac)

end Pj.CsvSrc
