/-
  Lemmas/TaskSrcD.lean — stage D of the translated tie for task.py: the `children` setter (general theorem).
  See Lemmas/TaskSrc.lean for the setting and the list of results.
-/
import PjVerif.Lemmas.TaskSrcC
namespace Pj.TaskSrc
open Pj.PyLite Pj.Extracted
set_option linter.unusedSimpArgs false
set_option linter.unusedVariables false

/-! ### stage D: the `children` setter -/

/-- a `for` loop simulated by a fold that may raise; the model may run out of fuel: only the steps up to the first
    error matter -/
theorem forLoopP_foldM' {σ : Type} (x : String) (body : PyLite.Env → PState → OutcomeP)
    (R : σ → PyLite.Env → PState → Prop) (m : σ → Atom → Except Err σ) :
    ∀ (vs : List Atom),
      (∀ a v ρ st, v ∈ vs → R a ρ st → m a v ≠ .error (.crash .recursion) →
        match m a v with
        | .ok a' => ∃ ρ' st', body (ρ.set x v) st = .normal ρ' st' ∧ R a' ρ' st'
        | .error e => body (ρ.set x v) st = .raise e) →
      ∀ a ρ st, R a ρ st → vs.foldlM m a ≠ .error (.crash .recursion) →
        match vs.foldlM m a with
        | .ok a' => ∃ ρ' st', forLoopP x body vs ρ st = .normal ρ' st' ∧ R a' ρ' st'
        | .error e => forLoopP x body vs ρ st = .raise e := by
  intro vs
  induction vs with
  | nil => intro _ a ρ st hR _; exact ⟨ρ, st, rfl, hR⟩
  | cons v vs ih =>
    intro hb a ρ st hR hne
    simp only [List.foldlM_cons, bind, Except.bind] at hne ⊢
    cases hm : m a v with
    | error e =>
      rw [hm] at hne
      have h1 := hb a v ρ st List.mem_cons_self hR (by rw [hm]; exact hne)
      rw [hm] at h1
      simp only [forLoopP, h1]
    | ok a' =>
      rw [hm] at hne
      have h1 := hb a v ρ st List.mem_cons_self hR (by rw [hm]; simp)
      rw [hm] at h1
      obtain ⟨ρ', st', hbody, hR'⟩ := h1
      have h2 := ih (fun a v ρ st hv => hb a v ρ st (List.mem_cons_of_mem _ hv)) a' ρ' st' hR' hne
      simp only [forLoopP, hbody]
      exact h2

theorem tf_children_set : taskFuns fn_Task_children_set =
    some (src_Task_children_set_params, src_Task_children_set) := rfl

def csS3 : Stmt := match src_Task_children_set with | _ :: _ :: s :: _ => s | _ => .pass
def csLA : Stmt := match src_Task_children_set with | _ :: _ :: _ :: l :: _ => l | _ => .pass
def csLB : Stmt := match src_Task_children_set with | _ :: _ :: _ :: _ :: l :: _ => l | _ => .pass
def csLC : Stmt := match src_Task_children_set with | _ :: _ :: _ :: _ :: _ :: _ :: l :: _ => l | _ => .pass
def csBA : List Stmt := match csLA with | .forIn _ _ b => b | _ => []
def csBB : List Stmt := match csLB with | .forIn _ _ b => b | _ => []
def csBC : List Stmt := match csLC with | .forIn _ _ b => b | _ => []

theorem cs_set_shape : src_Task_children_set =
    [.assign "value" (.callFn fn_to_list (.listCons (.var "value") .listNil)),
     .expr (.callFn fn_check_no_nones_in_list (.listCons (.var "value") .listNil)),
     csS3, csLA, csLB, .attrClear (.var "self") "children", csLC] := rfl
theorem csLA_eq : csLA = .forIn "ch" (.var "value") csBA := rfl
theorem csLB_eq : csLB = .forIn "v" (.attr (.var "self") "children") csBB := rfl
theorem csLC_eq : csLC = .forIn "v" (.var "value") csBC := rfl

/-- the local environment of the `children` setter after its first two statements -/
structure ChEnv (ρ : PyLite.Env) (h : Uid) (l : List Uid) : Prop where
  self : ρ.get? "self" = some (.atom (.ref h))
  value : ρ.get? "value" = some (refs l)

theorem ChEnv.set {ρ : PyLite.Env} {h : Uid} {l : List Uid} (hρ : ChEnv ρ h l) (x : String) (v : Val)
    (h1 : x ≠ "self") (h2 : x ≠ "value") : ChEnv (Env.set ρ x v) h l :=
  ⟨by rw [Env.get?_set, if_neg h1]; exact hρ.self, by rw [Env.get?_set, if_neg h2]; exact hρ.value⟩

/-- one step of `foldSetParent` -/
def spStep (h : Uid) (s' : G) : Atom → Except Err G
  | .ref v => match setParent s' v (some h) with
    | (s'', none) => .ok s''
    | (_, some e) => .error e
  | _ => .ok s'

theorem foldSetParent_eq (h : Uid) (l : List Uid) (s0 : G) :
    (match foldSetParent s0 l h with
     | (s', none) => (.ok s' : Except Err G)
     | (_, some e) => .error e) = (l.map Atom.ref).foldlM (spStep h) s0 := by
  induction l generalizing s0 with
  | nil => rfl
  | cons a l ih =>
    simp only [List.map_cons, List.foldlM_cons, bind, Except.bind, spStep, foldSetParent]
    cases hr : setParent s0 a (some h) with
    | mk s' e =>
      cases e with
      | none => simp only []; exact ih s'
      | some e => rfl

/-- `for v in value: v.parent = self` = `foldSetParent` -/
theorem cs_lc (s0 : G) (st : PState) (h : Uid) (l : List Uid) (F : Nat) (hF : s0.fuel + 3 ≤ F)
    (hrec : (foldSetParent s0 l h).2 ≠ some (.crash .recursion)) (ρ : PyLite.Env) (hρ : ChEnv ρ h l) :
    match foldSetParent s0 l h with
    | (s', none) => ∃ ρ', csLC.execP (Hd F) [] noRec ρ (withG st s0) = .normal ρ' (withG st s')
    | (_, some e) => csLC.execP (Hd F) [] noRec ρ (withG st s0) = .raise e := by
  rw [csLC_eq, execP_forIn (vs := l.map Atom.ref) (st' := withG st s0) (hit := evalP_var _ _ _ _ _ _ hρ.value)]
  have hfold := foldSetParent_eq h l s0
  have hne : (l.map Atom.ref).foldlM (spStep h) s0 ≠ .error (.crash .recursion) := by
    rw [← hfold]
    cases hr : foldSetParent s0 l h with
    | mk s' e =>
      rw [hr] at hrec
      cases e with
      | none => simp
      | some e => intro hc; apply hrec; simp only [] at hc ⊢; cases hc; rfl
  have := forLoopP_foldM' "v" (fun ρ st => execBlockP (Hd F) [] noRec csBC ρ st)
    (fun (s' : G) ρ st' => st' = withG st s' ∧ s'.n = s0.n ∧ ChEnv ρ h l)
    (spStep h) (l.map Atom.ref)
    (by
      intro s' v ρ st' hv hR hnr
      obtain ⟨rfl, hn, hP⟩ := hR
      obtain ⟨c, _, rfl⟩ := List.mem_map.1 hv
      have hP' := hP.set "v" (.atom (.ref c)) (by decide) (by decide)
      have hv' : (Env.set ρ "v" (.atom (.ref c))).get? "v" = some (.atom (.ref c)) := by rw [Env.get?_set, if_pos rfl]
      simp only [spStep] at hnr ⊢
      have hcall := parent_set_some s' (withG st s') rfl c h F (by unfold G.fuel at hF ⊢; omega)
        (by
          intro hc; apply hnr
          cases hr : setParent s' c (some h) with
          | mk s'' e =>
            have : (setParentSome s' c h) = (s'', e) := hr
            rw [this] at hc
            simp only [] at hc
            subst hc; rfl)
      have hn2 := setParent_n s' c (some h)
      cases hr : setParent s' c (some h) with
      | mk s'' e =>
        have hr' : setParentSome s' c h = (s'', e) := hr
        rw [hr] at hn2
        rw [hr'] at hcall
        cases e with
        | none =>
          simp only [setterResult, withG_withG] at hcall ⊢
          refine ⟨Env.set ρ "v" (.atom (.ref c)), withG st s'', ?_, rfl, by rw [← hn]; exact hn2, hP'⟩
          unfold csBC csLC
          simp only [src_Task_children_set]
          rw [execBlockP_cons, execP_expr (he := by
            rw [evalP_callFn2 (ha := evalP_var _ _ _ _ _ _ hv') (hb := evalP_var _ _ _ _ _ _ hP'.self)]
            exact hcall)]
          simp only [execBlockP_nil]
        | some e =>
          simp only [setterResult] at hcall ⊢
          unfold csBC csLC
          simp only [src_Task_children_set]
          rw [execBlockP_cons, execP_expr_err (he := by
            rw [evalP_callFn2 (ha := evalP_var _ _ _ _ _ _ hv') (hb := evalP_var _ _ _ _ _ _ hP'.self)]
            exact hcall)])
    s0 ρ (withG st s0) ⟨rfl, rfl, hρ⟩ hne
  rw [← hfold] at this
  cases hr : foldSetParent s0 l h with
  | mk s' e =>
    rw [hr] at this
    cases e with
    | none =>
      simp only [] at this ⊢
      obtain ⟨ρ', st', hl, rfl, -, -⟩ := this
      exact ⟨ρ', hl⟩
    | some e =>
      simp only [] at this ⊢
      exact this

/-! the validations -/

def chC1 (s : G) (h : Uid) (l : List Uid) : Option Err :=
  match s.owner h with
  | none => if l.any (fun v => (s.owner v).isSome) then some .runtime else none
  | some w => if l.any (fun v => (s.owner v).isSome && s.owner v != some w) then some .runtime else none

def chLoop (s : G) (h : Uid) (anc : List Uid) (ch : Uid) : Option Err :=
  match descF s.children s.fuel ch with
  | none => some (.crash .recursion)
  | some desc =>
    if ch = h ∨ desc.contains h then some .runtime
    else if linkedWithAny s (ch :: desc) (h :: anc) then some .runtime
    else none

theorem chkChildren_eq (s : G) (h : Uid) (l : List Uid) :
    chkChildren s h l =
      match chC1 s h l with
      | some e => some e
      | none =>
        match hasIdIntersection s h l with
        | none => some (.crash .recursion)
        | some true => some .runtime
        | some false =>
          match ancF s s.fuel (s.parent h) with
          | none => some (.crash .recursion)
          | some anc => l.findSome? (chLoop s h anc) := rfl

theorem len_filter_pos (p : Uid → Bool) (l : List Uid) :
    decide ((0 : Rat) < (((l.filter p).map Atom.ref).length : Nat)) = l.any p := by
  rw [Bool.eq_iff_iff]
  simp only [decide_eq_true_eq, Rat.natCast_pos, List.length_map, List.length_pos_iff_exists_mem, List.mem_filter,
    List.any_eq_true]

/-- the third statement of the `children` setter: the WBS check and the id check -/
theorem cs_s3 (s : G) (st : PState) (hh : st.heap = encHeap s) (h : Uid) (l : List Uid) (F : Nat)
    (hF : s.fuel + 2 ≤ F) (b : Bool) (hid : chC1 s h l = none → hasIdIntersection s h l = some b)
    (ρ : PyLite.Env) (hρ : ChEnv ρ h l) :
    csS3.execP (Hd F) [] noRec ρ st =
      match chC1 s h l with
      | some e => .raise e
      | none => if b then .raise .runtime else .normal ρ st := by
  have hhas : chC1 s h l = none →
      (Expr.callFn fn_has_id_intersection (.listCons (.var "self") (.listCons (.var "value") .listNil))).evalP
      (Hd F) [] ρ st = .ok (.atom (.bool b), st) := by
    intro hc
    rw [evalP_callFn2 (ha := evalP_var _ _ _ _ _ _ hρ.self) (hb := evalP_var _ _ _ _ _ _ hρ.value)]
    exact has_id_intersection_spec s st hh h l b (hid hc) F hF
  unfold csS3
  unfold chC1 at hhas ⊢
  simp only [src_Task_children_set]
  cases how : s.owner h with
  | none =>
    simp only [how] at hhas ⊢
    have hcomp : (Expr.listComp (.var "v") "v" (.var "value") (.isNotNone (.attr (.var "v") "wbs"))).evalP (Hd F) [] ρ st =
        .ok (refs (l.filter (fun v => (s.owner v).isSome)), st) := by
      rw [evalP_listComp_pure (vs := l.map Atom.ref) (st := st) (p := refP (fun v => (s.owner v).isSome))
        (e := fun v => v) (hit := evalP_var _ _ _ _ _ _ hρ.value)
        (hc := by
          intro v hv
          obtain ⟨c, _, rfl⟩ := List.mem_map.1 hv
          cases hoc : s.owner c <;> pyl [hh, hoc, refP])
        (he := by intro v _ _; simp [Expr.evalP, Env.get?_set, pure, Except.pure])]
      rw [List.map_id', filter_refP, refs]
    have hcond := evalP_cmp _ _ _ _ _ _ _ _ _ _ _ _ (evalP_len _ _ _ _ _ _ _ hcomp) (evalP_num (Hd F) [] ρ st 0)
      (compare_gt_num _ _)
    rw [len_filter_pos] at hcond
    rw [execP_ifElse (v := .atom (.bool true)) (b := true) (st' := st) (hc := by pyl [hρ.self, hh, how]) (hb := rfl)]
    simp only [if_true]
    rw [execBlockP_cons, execP_ifElse (hc := hcond) (hb := rfl)]
    cases hany : l.any (fun v => (s.owner v).isSome) with
    | true => simp only [if_true, execBlockP_cons, execP_raise]
    | false =>
      simp only [Bool.false_eq_true, if_false, execBlockP_nil]
      rw [execBlockP_cons, execP_ifElse (hc := hhas (by simp only [hany, Bool.false_eq_true, if_false])) (hb := rfl)]
      cases b <;> simp only [if_true, Bool.false_eq_true, if_false, execBlockP_cons, execP_raise, execBlockP_nil]
  | some w =>
    simp only [how] at hhas ⊢
    have hcomp : (Expr.listComp (.var "v") "v" (.var "value")
          (.and (.isNotNone (.attr (.var "v") "wbs")) (.cmp .ne (.attr (.var "v") "wbs") (.attr (.var "self") "wbs")))).evalP
          (Hd F) [] ρ st =
        .ok (refs (l.filter (fun v => (s.owner v).isSome && s.owner v != some w)), st) := by
      rw [evalP_listComp_pure (vs := l.map Atom.ref) (st := st)
        (p := refP (fun v => (s.owner v).isSome && s.owner v != some w))
        (e := fun v => v) (hit := evalP_var _ _ _ _ _ _ hρ.value)
        (hc := by
          intro v hv
          obtain ⟨c, _, rfl⟩ := List.mem_map.1 hv
          have hse : (Env.set ρ "v" (.atom (.ref c))).get? "self" = some (.atom (.ref h)) :=
            (hρ.set "v" _ (by decide) (by decide)).self
          cases hoc : s.owner c with
          | none => pyl [hh, hoc, refP, hse, how]
          | some w' =>
            by_cases hw : w' = w
            · subst hw; pyl [hh, hoc, refP, hse, how, pyEq_ref]
            · pyl [hh, hoc, refP, hse, how, pyEq_ref, hw])
        (he := by intro v _ _; simp [Expr.evalP, Env.get?_set, pure, Except.pure])]
      rw [List.map_id', filter_refP, refs]
    have hcond := evalP_cmp _ _ _ _ _ _ _ _ _ _ _ _ (evalP_len _ _ _ _ _ _ _ hcomp) (evalP_num (Hd F) [] ρ st 0)
      (compare_gt_num _ _)
    rw [len_filter_pos] at hcond
    rw [execP_ifElse (v := .atom (.bool false)) (b := false) (st' := st) (hc := by pyl [hρ.self, hh, how]) (hb := rfl)]
    simp only [Bool.false_eq_true, if_false]
    rw [execBlockP_cons, execP_ifElse (hc := hcond) (hb := rfl)]
    cases hany : l.any (fun v => (s.owner v).isSome && s.owner v != some w) with
    | true => simp only [if_true, execBlockP_cons, execP_raise]
    | false =>
      simp only [Bool.false_eq_true, if_false, execBlockP_nil]
      rw [execBlockP_cons, execP_ifElse (hc := hhas (by simp only [hany, Bool.false_eq_true, if_false])) (hb := rfl)]
      cases b <;> simp only [if_true, Bool.false_eq_true, if_false, execBlockP_cons, execP_raise, execBlockP_nil]

def chLoopA (s : G) (h : Uid) (anc : List Uid) : Atom → Option Err
  | .ref ch => chLoop s h anc ch
  | _ => none

theorem findSome_chLoopA (s : G) (h : Uid) (anc l : List Uid) :
    (l.map Atom.ref).findSome? (chLoopA s h anc) = l.findSome? (chLoop s h anc) := by
  induction l with
  | nil => rfl
  | cons a l ih => simp only [List.map_cons, List.findSome?_cons, chLoopA, ih]

/-- `for ch in value:` the two validations of every new child -/
theorem cs_la (s : G) (st : PState) (hh : st.heap = encHeap s) (h : Uid) (l anc : List Uid) (F : Nat)
    (hF : s.fuel + 3 ≤ F) (ha : ancF s s.fuel (s.parent h) = some anc)
    (hrec : l.findSome? (chLoop s h anc) ≠ some (.crash .recursion)) (ρ : PyLite.Env) (hρ : ChEnv ρ h l) :
    match l.findSome? (chLoop s h anc) with
    | none => ∃ ρ', ChEnv ρ' h l ∧ csLA.execP (Hd F) [] noRec ρ st = .normal ρ' st
    | some e => csLA.execP (Hd F) [] noRec ρ st = .raise e := by
  obtain ⟨F, rfl⟩ : ∃ F', F = F' + 1 := ⟨F - 1, by omega⟩
  rw [csLA_eq, execP_forIn (vs := l.map Atom.ref) (st' := st) (hit := evalP_var _ _ _ _ _ _ hρ.value)]
  rw [← findSome_chLoopA] at hrec ⊢
  refine forLoopP_check' "ch" (fun ρ st => execBlockP (Hd (F + 1)) [] noRec csBA ρ st)
    (fun ρ => ChEnv ρ h l) (chLoopA s h anc) st (l.map Atom.ref) ?_ hrec ρ hρ
  intro ρ v hv hP hne
  obtain ⟨c, _, rfl⟩ := List.mem_map.1 hv
  have hP' := hP.set "ch" (.atom (.ref c)) (by decide) (by decide)
  have hse := hP'.self
  have hcv : (Env.set ρ "ch" (.atom (.ref c))).get? "ch" = some (.atom (.ref c)) := by rw [Env.get?_set, if_pos rfl]
  simp only [chLoopA, chLoop] at hne ⊢
  cases hd : descF s.children s.fuel c with
  | none => simp [hd] at hne
  | some desc =>
    simp only [hd] at hne ⊢
    have hac := get_all_children_spec s st hh _ c desc hd (F + 1) (by omega)
    have hany := any_ref_pyEq desc h
    simp only [refs] at hac
    generalize hD : desc.map Atom.ref = D at hac hany
    by_cases hch : c = h
    · subst hch
      simp only [true_or, if_true]
      pyl [csBA, csLA, src_Task_children_set, hse, hcv]
    · cases hdc : desc.contains h with
      | true =>
        rw [hdc] at hany
        simp only [hch, false_or, if_true]
        pyl [csBA, csLA, src_Task_children_set, hse, hcv, hch, hac, hany]
      | false =>
        rw [hdc] at hany
        simp only [hch, false_or, Bool.false_eq_true, if_false]
        have hcs := collect_subtree_spec s st hh _ c desc hd (F + 1) (by omega)
        have hap := get_all_parents_spec s st hh _ h anc ha (F + 1) (by omega)
        have hlw := linked_with_any_spec s st hh F (c :: desc) (h :: anc)
        simp only [refs_cons] at hcs hlw
        simp only [refs] at hap
        rw [hD] at hcs hlw
        generalize hA : anc.map Atom.ref = A at hap hlw
        cases hl : linkedWithAny s (c :: desc) (h :: anc) with
        | true =>
          rw [hl] at hlw
          simp only [if_true]
          pyl [csBA, csLA, src_Task_children_set, hse, hcv, hch, hac, hany, hcs, hap, hlw]
        | false =>
          rw [hl] at hlw
          simp only [Bool.false_eq_true, if_false]
          refine ⟨Env.set ρ "ch" (.atom (.ref c)), hP', ?_⟩
          pyl [csBA, csLA, src_Task_children_set, hse, hcv, hch, hac, hany, hcs, hap, hlw]

/-! the release of the old children -/

theorem G.ext' {a b : G} (h1 : a.n = b.n) (h2 : a.tid = b.tid) (h3 : a.parent = b.parent)
    (h4 : a.children = b.children) (h5 : a.preds = b.preds) (h6 : a.succs = b.succs) (h7 : a.owner = b.owner) :
    a = b := by
  cases a; cases b; simp_all

/-- one iteration of `for v in self.__children: v.__parent = None; if v not in value: v._detach()` -/
def relStep (next : Uid → List Uid) (f : Nat) (l : List Uid) (s' : G) (v : Uid) : G :=
  if l.contains v then { s' with parent := upd s'.parent v none }
  else setOwners { s' with parent := upd s'.parent v none } (v :: dsc next f v) none

def relStepA (next : Uid → List Uid) (f : Nat) (l : List Uid) (s' : G) : Atom → G
  | .ref v => relStep next f l s' v
  | _ => s'

theorem foldl_relStepA (next : Uid → List Uid) (f : Nat) (l old : List Uid) (s0 : G) :
    (old.map Atom.ref).foldl (relStepA next f l) s0 =
      setOwners { s0 with parent := fun x => if old.contains x then none else s0.parent x }
        (((old.filter (fun v => !l.contains v)).map (fun v => v :: dsc next f v)).flatten) none := by
  induction old generalizing s0 with
  | nil => unfold setOwners; simp
  | cons a old ih =>
    simp only [List.map_cons, List.foldl_cons, relStepA, ih]
    unfold relStep
    cases hc : l.contains a with
    | true =>
      simp only [if_true, List.filter_cons, hc, Bool.not_true, Bool.false_eq_true, if_false]
      unfold setOwners
      apply G.ext' <;> try rfl
      funext x
      simp only [List.contains_cons]
      by_cases hx : x = a
      · subst hx; simp [upd]
      · have hb : (x == a) = false := by simpa using hx
        simp [upd, hx, hb]
    | false =>
      simp only [Bool.false_eq_true, if_false, List.filter_cons, hc, Bool.not_false, if_true, List.map_cons,
        List.flatten_cons]
      unfold setOwners
      apply G.ext' <;> try rfl
      · funext x
        simp only [List.contains_cons]
        by_cases hx : x = a
        · subst hx; simp [upd]
        · have hb : (x == a) = false := by simpa using hx
          simp [upd, hx, hb]
      · funext x
        simp only [List.contains_append]
        cases h1 : (a :: dsc next f a).contains x <;>
          cases h2 : ((List.map (fun v => v :: dsc next f v) (List.filter (fun v => !l.contains v) old)).flatten).contains x <;>
          simp [h1, h2]

theorem releaseChildren_eq (s : G) (h : Uid) (l : List Uid)
    (hsub : ∀ c ∈ (s.children h).filter (fun v => !l.contains v),
      descF s.children s.fuel c = some (dsc s.children s.fuel c)) :
    releaseChildren s h l =
      (let s2 := ((s.children h).map Atom.ref).foldl (relStepA s.children s.fuel l) s
       ({ s2 with children := upd s2.children h [] }, none)) := by
  unfold releaseChildren
  have hm : ((s.children h).filter (fun v => !l.contains v)).mapM (subtreeF s.children s.fuel) =
      some (((s.children h).filter (fun v => !l.contains v)).map (fun v => v :: dsc s.children s.fuel v)) := by
    apply mapM_eq_some_map
    intro c hc
    simp only [subtreeF, hsub c hc, Option.map_some]
  simp only [hm, foldl_relStepA]

theorem releaseChildren_sub (s : G) (h : Uid) (l : List Uid) (hne : (releaseChildren s h l).2 ≠ some (.crash .recursion)) :
    ∀ c ∈ (s.children h).filter (fun v => !l.contains v),
      descF s.children s.fuel c = some (dsc s.children s.fuel c) := by
  intro c hc
  unfold releaseChildren at hne
  cases hm : ((s.children h).filter (fun v => !l.contains v)).mapM (subtreeF s.children s.fuel) with
  | none =>
    simp only [hm] at hne
    exact absurd rfl hne
  | some subs =>
    obtain ⟨b, _, hb⟩ := mapM_some_mem _ _ _ hm c hc
    simp only [subtreeF, Option.map_eq_some_iff] at hb
    obtain ⟨d, hd, _⟩ := hb
    simp [dsc, hd]

def csBBdef : List Stmt := csBB

/-- the loop that releases the old children -/
theorem cs_lb (s : G) (st : PState) (hh : st.heap = encHeap s) (h : Uid) (l : List Uid) (F : Nat)
    (hF : s.fuel + 1 ≤ F)
    (hsub : ∀ c ∈ (s.children h).filter (fun v => !l.contains v),
      descF s.children s.fuel c = some (dsc s.children s.fuel c))
    (ρ : PyLite.Env) (hρ : ChEnv ρ h l) :
    ∃ ρ', ChEnv ρ' h l ∧ csLB.execP (Hd F) [] noRec ρ st =
      .normal ρ' (withG st (((s.children h).map Atom.ref).foldl (relStepA s.children s.fuel l) s)) := by
  obtain ⟨F, rfl⟩ : ∃ F', F = F' + 1 := ⟨F - 1, by omega⟩
  rw [csLB_eq, execP_forIn (vs := (s.children h).map Atom.ref) (st' := st) (hit := by pyl [hρ.self, hh, refs])]
  have := forLoopP_foldM' "v" (fun ρ st => execBlockP (Hd (F + 1)) [] noRec csBB ρ st)
    (fun (s' : G) ρ st' => st' = withG st s' ∧ s'.children = s.children ∧ ChEnv ρ h l)
    (fun s' v => if v ∈ (s.children h).map Atom.ref then .ok (relStepA s.children s.fuel l s' v)
                 else .error (.crash .recursion))
    ((s.children h).map Atom.ref)
    (by
      intro s' v ρ st' hv hR _
      obtain ⟨rfl, hc', hP⟩ := hR
      simp only [hv, if_true]
      obtain ⟨c, hc, rfl⟩ := List.mem_map.1 hv
      have hP' := hP.set "v" (.atom (.ref c)) (by decide) (by decide)
      have hcv : (Env.set ρ "v" (.atom (.ref c))).get? "v" = some (.atom (.ref c)) := by rw [Env.get?_set, if_pos rfl]
      have hset := heapSet_parent s' c none
      simp only [optRef_none] at hset
      generalize hs2 : ({ s' with parent := upd s'.parent c none } : G) = s2 at hset
      have hc2 : s2.children = s.children := by rw [← hs2]; exact hc'
      have hany := any_ref_pyEq l c
      have hval := hP'.value
      simp only [refs] at hval
      generalize l.map Atom.ref = L at hany hval
      simp only [relStepA, relStep, hs2]
      cases hlc : l.contains c with
      | true =>
        rw [hlc] at hany
        simp only [if_true]
        refine ⟨Env.set ρ "v" (.atom (.ref c)), withG st s2, ?_, rfl, hc2, hP'⟩
        pyl [csBB, csLB, src_Task_children_set, hcv, hval, hany, hset, mk_withG]
      | false =>
        rw [hlc] at hany
        simp only [Bool.false_eq_true, if_false]
        have hmem : c ∈ (s.children h).filter (fun v => !l.contains v) := by
          simp only [List.mem_filter, hlc, Bool.not_false, and_true]; exact hc
        have hdet := detach_spec s.fuel s2 (withG st s2) rfl c _ (by rw [hc2]; exact hsub c hmem) (F + 1) (by omega)
        refine ⟨Env.set ρ "v" (.atom (.ref c)), withG st (setOwners s2 (c :: dsc s.children s.fuel c) none),
          ?_, rfl, by rw [setOwners_children]; exact hc2, hP'⟩
        pyl [csBB, csLB, src_Task_children_set, hcv, hval, hany, hset, mk_withG, hdet, withG_withG])
    s ρ st ⟨(withG_self st s hh).symm, rfl, hρ⟩
  have hfold : ∀ (vs : List Atom) (s0 : G), (∀ v ∈ vs, v ∈ (s.children h).map Atom.ref) →
      vs.foldlM (fun s' v => if v ∈ (s.children h).map Atom.ref then
          (Except.ok (relStepA s.children s.fuel l s' v) : Except Err G) else .error (.crash .recursion)) s0 =
        .ok (vs.foldl (relStepA s.children s.fuel l) s0) := by
    intro vs
    induction vs with
    | nil => intro s0 _; rfl
    | cons v vs ih =>
      intro s0 hv
      simp only [List.foldlM_cons, hv v List.mem_cons_self, if_true, bind, Except.bind, List.foldl_cons]
      exact ih _ (fun w hw => hv w (List.mem_cons_of_mem _ hw))
  rw [hfold _ _ (fun v hv => hv)] at this
  obtain ⟨ρ', st', hl, rfl, -, hP'⟩ := this (by simp)
  exact ⟨ρ', hP', hl⟩

theorem foldl_relStepA_n (next : Uid → List Uid) (f : Nat) (l old : List Uid) (s0 : G) :
    ((old.map Atom.ref).foldl (relStepA next f l) s0).n = s0.n := by
  rw [foldl_relStepA]; rfl

/-- STAGE D.  `h.children = l` = `setChildren`, for EVERY state `s` -/
theorem children_set_spec (s : G) (st : PState) (hh : st.heap = encHeap s) (h : Uid) (l : List Uid) (F : Nat)
    (v : Val) (hv : ValueOf v l) (hF : s.fuel + 5 ≤ F) (hrec : (setChildren s h l).2 ≠ some (.crash .recursion)) :
    (Hd F).fnV fn_Task_children_set [.atom (.ref h), v] st = setterResult st (setChildren s h l) := by
  obtain ⟨F, rfl⟩ : ∃ F', F = F' + 2 := ⟨F - 2, by omega⟩
  rw [fnV_succ _ _ _ _ tf_children_set, callPV_eq]
  simp only [src_Task_children_set_params, bindParamsV, pure, Except.pure, bind, Except.bind, cs_set_shape]
  rw [execBlockP_cons, execP_assign (he := by
    rw [evalP_callFn1 (ha := evalP_var _ _ _ _ _ _ rfl)]; exact hv st F)]
  simp only []
  rw [execBlockP_cons, execP_expr (he := by
    rw [evalP_callFn1 (ha := evalP_var _ _ _ _ _ _ (by rw [Env.get?_set, if_pos rfl]))]
    exact check_no_nones_spec st F l)]
  simp only []
  have hρ2 : ChEnv (Env.set [("self", Val.atom (Atom.ref h)), ("value", v)] "value" (refs l)) h l :=
    ⟨by simp [Env.get?_set, Env.get?_cons], by simp [Env.get?_set, Env.get?_cons]⟩
  generalize Env.set [("self", Val.atom (Atom.ref h)), ("value", v)] "value" (refs l) = ρ2 at hρ2
  unfold setChildren at hrec ⊢
  rw [chkChildren_eq] at hrec ⊢
  -- the WBS check and the id check
  have hid : chC1 s h l = none → hasIdIntersection s h l = some ((hasIdIntersection s h l).getD false) := by
    intro hc
    cases hhi : hasIdIntersection s h l with
    | none => simp [hc, hhi] at hrec
    | some b => rfl
  rw [execBlockP_cons, cs_s3 s st hh h l (F + 1) (by omega) _ hid ρ2 hρ2]
  cases hc1 : chC1 s h l with
  | some e => simp only [setterResult]
  | none =>
    simp only [hc1] at hrec ⊢
    cases hhi : hasIdIntersection s h l with
    | none => simp [hhi] at hrec
    | some b =>
      cases b with
      | true => simp only [Option.getD_some, if_true, setterResult]
      | false =>
        simp only [hhi, Option.getD_some, Bool.false_eq_true, if_false] at hrec ⊢
        cases ha : ancF s s.fuel (s.parent h) with
        | none => simp [ha] at hrec
        | some anc =>
          simp only [ha] at hrec ⊢
          -- the validations of the new children
          have hla := cs_la s st hh h l anc (F + 1) (by omega) ha
            (by intro hc; apply hrec; simp only [hc]) ρ2 hρ2
          rw [execBlockP_cons]
          cases hf : l.findSome? (chLoop s h anc) with
          | some e =>
            rw [hf] at hla
            simp only [hla, setterResult]
          | none =>
            rw [hf] at hla hrec
            obtain ⟨ρ3, hρ3, hla⟩ := hla
            simp only [hla] at hrec ⊢
            -- the release of the old children
            have hsub := releaseChildren_sub s h l (by
              intro hc; apply hrec
              cases hr : releaseChildren s h l with
              | mk s1 e => rw [hr] at hc; simp only [] at hc; subst hc; rfl)
            obtain ⟨ρ4, hρ4, hlb⟩ := cs_lb s st hh h l (F + 1) (by omega) hsub ρ3 hρ3
            rw [releaseChildren_eq s h l hsub] at hrec ⊢
            simp only [] at hrec ⊢
            rw [execBlockP_cons, hlb]
            simp only []
            generalize hs2 : ((s.children h).map Atom.ref).foldl (relStepA s.children s.fuel l) s = s2 at hrec ⊢
            have hn2 : s2.n = s.n := by rw [← hs2]; exact foldl_relStepA_n _ _ _ _ _
            -- self.__children.clear()
            have hclr : (Stmt.attrClear (.var "self") "children").execP (Hd (F + 1)) [] noRec ρ4 (withG st s2) =
                .normal ρ4 (withG st { s2 with children := upd s2.children h [] }) := by
              have hset := heapSet_children s2 h []
              simp only [refs, List.map_nil] at hset
              pyl [hρ4.self, refs, hset, mk_withG]
            rw [execBlockP_cons, hclr]
            simp only []
            -- for v in value: v.parent = self
            have hlc := cs_lc { s2 with children := upd s2.children h [] } st h l (F + 1)
              (by unfold G.fuel at hF ⊢; simp only [hn2]; omega) hrec ρ4 hρ4
            rw [execBlockP_cons]
            cases hr : foldSetParent { s2 with children := upd s2.children h [] } l h with
            | mk s' e =>
              rw [hr] at hlc
              cases e with
              | none =>
                obtain ⟨ρ5, hlc⟩ := hlc
                simp only [hlc, execBlockP_nil, setterResult]
              | some e =>
                simp only [] at hlc
                simp only [hlc, setterResult]

/-- STAGE D.  For every graph state `s`, every Python state `st` whose store is the encoding of `s`, every task `h`,
    every admissible value `v` standing for the list of tasks `l` (`ValueOf`) and every recursion limit
    `F ≥ s.n + 6`: unless the model ends in RecursionError, running the translated `children` setter gives `None` and
    the encoding of the model's new state when the model accepts, and raises the model's error when it rejects (also
    when one of the assignments `v.parent = h` of the last loop does).  No well-formedness is needed. -/
theorem interpSetChildren_eq (s : G) (st : PState) (hh : st.heap = encHeap s) (h : Uid) (v : Val) (l : List Uid)
    (hv : ValueOf v l) (F : Nat) (hF : s.n + 6 ≤ F) (hrec : (setChildren s h l).2 ≠ some (.crash .recursion)) :
    interpSetChildren F h v st = setterResult st (setChildren s h l) :=
  children_set_spec s st hh h l F v hv (by unfold G.fuel; omega) hrec

section axioms
#print axioms interpSetParent_eq
#print axioms interpSetParent_eq_wf
#print axioms interpSetPreds_eq
#print axioms interpSetSuccs_eq
#print axioms interpSetChildren_eq
#print axioms has_id_intersection_spec
#print axioms linked_with_any_spec
end axioms

/-
  NEGATIVE SANITY CHECK (not compiled; performed 2026-09-27 with /tmp/leanwork/mut/task_mut.py: one textual edit of a
  scratch copy of the snapshot task.py, the translator run on the mutated text; unless it answers Miss its output is
  written to Extracted/TaskSrc.lean of a scratch copy of the Lean project and Lemmas/TaskSrcA … TaskSrcD plus a reduced
  set of the kernel-checked examples - the ones listed one by one in TaskSrcCheck*.lean, `helpersAgree`, `parentAgree g2
  / g3`, `linksAgree g3`, `childrenAgree g3`, the graphs `g4`, `g5` - are built; afterwards the generated file was
  restored and everything built again).  First failing lemma(s) per file; `Check:` = failing examples.
  Every semantic mutation is a Miss of the translator or breaks a lemma (and, where the outcome of a run on the example
  graphs changes, an example):

    `id(self.parent) != id(parent)` -> `self.parent.id != parent.id`     MISS (receiver)
       the same through a local `cur = self.parent; … cur.id != parent.id`   ps_s1 FAILS; Check: g5 `7.parent = 8`
    `_find_root` through the public `parent` (stops below the hidden root)   find_root_spec FAILS; Check: helpersAgree g1 g2, `3.children = [5]`
    `_unique_objects` de-duplicates by `t.id`                            unique_objects_spec FAILS; Check: helpersAgree g5, `2.predecessors = [0]`
    descendant check on `self.children` instead of `self.all_children`   ps_s2 FAILS; Check: parentAgree g2 g3, g4
    `_linked_with_any([self], …)` instead of the whole subtree           ps_s2 FAILS; Check: parentAgree g2
    `[parent] + parent.__get_all_parents()` without `[parent]`           ps_s2 FAILS; Check: parentAgree g2, `2.parent = 3`
    the unlink loop of the `predecessors` setter moved before the validations   pd_shape, pd_l1, pd_l2, pd_l3 FAIL
       (no example can fail: a rejected call has no state in PyLite - limitation (1) of Lemmas/TaskSrc.lean)
    `_detach` two levels only (`ch.__wbs = None` instead of `ch._detach()`)   detach_spec FAILS; Check: `_detach` on g3
    `is not self` -> `.id != self.id` in the mirror update               pd_l3 FAILS; Check: g5 `4.predecessors = []`
    `if parent and self not in parent.__children` -> `if parent` (always append)   ps_s4_some FAILS; Check: g4
    `self.__parent.__children.remove(self)` without the membership guard  ps_s3 FAILS; Check: parentAgree g2, `2.parent = None`, g4
    `self.__wbs._root().children.append(self)` -> `self.__parent = self.__wbs._root()`   ps_s4_none_member FAILS; Check: parentAgree g2, …
    `self.__parent = parent` after `self._attach(…)`                     ps_s4_some FAILS (same final state: the proof fixes the order)
    `parent.__wbs != self.__wbs` check dropped                            ps_s1 FAILS; Check: `9.parent = 1`
    `len(… .intersection(…)) > 0` -> `>= 0`                               hiTail_ok FAILS; Check: `10.parent = 3`, `1.children = [2, 10, 11]`, …
    the duplicate-id test of `_has_id_intersection` dropped              hiTail_ok FAILS; Check: g5 `10.parent = 13`
    `_collect_subtree` without the task itself                           cs_shape FAILS; Check: helpersAgree, parentAgree g2, …
    `get_parent` without the `t.id != EMPTY_TASK_ID` test                 get_parent_spec FAILS; Check: helpersAgree g1 g2, `1.predecessors = [0]`
    the `parent` getter with `!= EMPTY_TASK_ID`                          parent_get_spec FAILS; Check: helpersAgree
    `_attach` without `if wbs is None: return`                           at_shape, attach_spec FAIL
    `v in parents or v in children` -> `v in parents`                    pd_l1 FAILS; Check: `1.predecessors = [2]`
    `self in v.all_predecessors` -> `self in v.predecessors`             pd_l2 FAILS; Check: g2 `4.predecessors = [6]`
    `if self not in v.__predecessors` dropped (successors setter)        sd_l4 FAILS; Check: linksAgree g3, `2.successors = [6, 6]`
    the mirror loop `v.__successors.append(self)` removed                pd_shape, pd_l4 FAIL; Check: `10.predecessors = [11, 6]`, …
    children setter: `v.__wbs != self.__wbs` -> `==`                     cs_s3 FAILS; Check: `1.children = [3]`, …
    children setter: `if v not in value: v._detach()` -> always          cs_lb FAILS (on well-formed states the re-attachment restores the owner)
    children setter: `v.__parent = None` dropped                         cs_lb FAILS; Check: `1.children = [3]`, `1.children = None`
    children setter: `self.__children.clear()` removed                   cs_set_shape, cs_lc FAIL; Check: `1.children = [3]`, …
    `_to_list` returns its argument for a list (aliasing)                MISS (a parameter is returned)
    `self.__predecessors = value` (a shared list object)                 MISS
    `for v in self.__children: self.__children.remove(v) …`              MISS (for over an attribute its body may change)
    `parent.__wbs is not self.__wbs`                                     MISS (`is` on a WBS)
    `return list(get_children(self))`                                    MISS (generator consumed by something else)
    `Task.__eq__` defined                                                MISS
    `EMPTY_TASK_ID = -1`                                                 MISS

  Harmless rewrites that give the same term (everything still builds): comments, docstrings, the text of the error
  messages, `return None` for `return`, `not (self in l)` for `self not in l`, changed / removed type annotations
  (except `task: 'Task'` of `_find_root`, which licenses `return task`: Miss without it).  Harmless rewrites that break
  a proof (the proofs fix the shape of the term and the names of the locals): `if … if … if` for `if … elif … elif` in
  `_to_list` (to_list_list), `0 == len(new_tasks)` (hiTail_ok), the local `res` of `_collect_subtree` renamed
  (cs_shape), `self is parent` for `parent is self` (ps_s2).
-/

end Pj.TaskSrc
