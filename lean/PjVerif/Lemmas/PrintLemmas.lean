/- Lemmas/PrintLemmas.lean — helper lemmas for Props/C20.lean -/
import PjVerif.Model.Print
namespace Pj.Print

/-! ### `foldl max` -/

theorem le_foldl_max_init (l : List Nat) (a : Nat) : a ≤ l.foldl max a := by
  induction l generalizing a with
  | nil => simp
  | cons y ys ih =>
    simp only [List.foldl_cons]
    exact Nat.le_trans (Nat.le_max_left a y) (ih _)

theorem le_foldl_max_of_mem (l : List Nat) (a x : Nat) (h : x ∈ l) : x ≤ l.foldl max a := by
  induction l generalizing a with
  | nil => cases h
  | cons y ys ih =>
    simp only [List.foldl_cons]
    rcases List.mem_cons.1 h with rfl | h
    · exact Nat.le_trans (Nat.le_max_right a x) (le_foldl_max_init _ _)
    · exact ih _ h

/-! ### `widths` -/

theorem widths_length (rows : List (List Cell)) : (widths rows).length = (rows.map List.length).foldl max 0 := by
  simp [widths]

theorem length_le_widths_length (rows : List (List Cell)) (r : List Cell) (hr : r ∈ rows) :
    r.length ≤ (widths rows).length := by
  rw [widths_length]
  exact le_foldl_max_of_mem _ _ _ (List.mem_map.2 ⟨r, hr, rfl⟩)

theorem widths_getD (rows : List (List Cell)) (i : Nat) (hi : i < (rows.map List.length).foldl max 0) :
    (widths rows).getD i 0 =
      (rows.map (fun r => match r[i]? with | some c => c.text.length | none => 0)).foldl max 0 := by
  simp only [widths, List.getD_eq_getElem?_getD, List.getElem?_map, List.getElem?_range hi, Option.map_some,
    Option.getD_some]
  rfl

theorem text_le_widths (rows : List (List Cell)) (r : List Cell) (hr : r ∈ rows) (i : Nat) (c : Cell)
    (hc : r[i]? = some c) : c.text.length ≤ (widths rows).getD i 0 := by
  have hi : i < r.length := by
    rcases List.getElem?_eq_some_iff.1 hc with ⟨h, _⟩
    exact h
  have hn : i < (rows.map List.length).foldl max 0 :=
    Nat.lt_of_lt_of_le hi (le_foldl_max_of_mem _ _ _ (List.mem_map.2 ⟨r, hr, rfl⟩))
  rw [widths_getD rows i hn]
  apply le_foldl_max_of_mem
  refine List.mem_map.2 ⟨r, hr, ?_⟩
  simp [hc]

/-! ### `visibleAux`: a two-state machine -/

theorem visibleAux_plain (p rest : Str) (h : esc ∉ p) :
    visibleAux false (p ++ rest) = p ++ visibleAux false rest := by
  induction p with
  | nil => rfl
  | cons c cs ih =>
    have hc : c ≠ esc := fun e => h (by simp [e])
    have hcs : esc ∉ cs := fun e => h (List.mem_cons_of_mem _ e)
    simp [visibleAux, hc, ih hcs]

theorem visibleAux_body (b rest : Str) (h : 'm' ∉ b) :
    visibleAux true (b ++ rest) = visibleAux true rest := by
  induction b with
  | nil => rfl
  | cons c cs ih =>
    have hc : c ≠ 'm' := fun e => h (by simp [e])
    have hcs : 'm' ∉ cs := fun e => h (List.mem_cons_of_mem _ e)
    simp [visibleAux, hc, ih hcs]

/-- a colour sequence `ESC [ body m` is invisible -/
theorem visibleAux_colorSeq (body rest : Str) (h : 'm' ∉ body) :
    visibleAux false ([esc, '['] ++ (body ++ ['m']) ++ rest) = visibleAux false rest := by
  have := visibleAux_body body ('m' :: rest) h
  simp only [List.cons_append, List.nil_append, List.append_assoc] at this ⊢
  have hne : ('[' == 'm') = false := by decide
  simp [visibleAux, this, hne]

theorem visibleAux_resetSeq (rest : Str) : visibleAux false (resetSeq ++ rest) = visibleAux false rest := by
  have := visibleAux_colorSeq ['0'] rest (by decide)
  simpa [resetSeq] using this

/-- the colour condition used by the lemmas: no colour, or a code whose only `m` is its last character -/
def ColorSeq (k : Str) : Prop := k = [] ∨ ∃ body, k = body ++ ['m'] ∧ 'm' ∉ body

def padded (text : Str) (width : Nat) : Str := text ++ List.replicate (width - text.length) ' '

theorem esc_not_mem_padded (text : Str) (width : Nat) (h : esc ∉ text) : esc ∉ padded text width := by
  intro e
  rcases List.mem_append.1 e with e | e
  · exact h e
  · have := (List.mem_replicate.1 e).2
    exact absurd this (by decide)

theorem length_padded (text : Str) (width : Nat) (h : text.length ≤ width) : (padded text width).length = width := by
  simp [padded]; omega

/-- what a cell shows is its padded text, whatever follows -/
theorem visibleAux_coloredText (text : Str) (width : Nat) (color : Option Str) (rest : Str)
    (hp : esc ∉ text) (hc : ∀ k, color = some k → ColorSeq k) :
    visibleAux false (coloredText text width color ++ rest) = padded text width ++ visibleAux false rest := by
  have hpad := esc_not_mem_padded text width hp
  cases color with
  | none => exact visibleAux_plain _ _ hpad
  | some k =>
    rcases hc k rfl with rfl | ⟨body, rfl, hb⟩
    · exact visibleAux_plain _ _ hpad
    · have hne : (body ++ ['m']).isEmpty = false := by cases body <;> rfl
      show visibleAux false ((if (body ++ ['m']).isEmpty then padded text width
          else [esc, '['] ++ (body ++ ['m']) ++ padded text width ++ resetSeq) ++ rest) = _
      rw [hne]
      simp only [Bool.false_eq_true, if_false]
      have e : [esc, '['] ++ (body ++ ['m']) ++ padded text width ++ resetSeq ++ rest
          = [esc, '['] ++ (body ++ ['m']) ++ (padded text width ++ (resetSeq ++ rest)) := by
        simp [List.append_assoc]
      rw [e, visibleAux_colorSeq _ _ hb, visibleAux_plain _ _ hpad, visibleAux_resetSeq]

theorem visible_coloredText (text : Str) (width : Nat) (color : Option Str)
    (hp : esc ∉ text) (hc : ∀ k, color = some k → ColorSeq k) :
    visible (coloredText text width color) = padded text width := by
  have := visibleAux_coloredText text width color [] hp hc
  simpa [visible, visibleAux] using this

/-- strings after which the machine is back in its start state -/
def Closed (s : Str) : Prop := ∀ rest, visibleAux false (s ++ rest) = visible s ++ visibleAux false rest

theorem closed_coloredText (text : Str) (width : Nat) (color : Option Str)
    (hp : esc ∉ text) (hc : ∀ k, color = some k → ColorSeq k) : Closed (coloredText text width color) := by
  intro rest
  rw [visibleAux_coloredText text width color rest hp hc, visible_coloredText text width color hp hc]

theorem visible_flatten_length (l : List Str) (h : ∀ s ∈ l, Closed s) :
    (visible l.flatten).length = (l.map (fun s => (visible s).length)).sum := by
  induction l with
  | nil => simp [visible, visibleAux]
  | cons s ss ih =>
    have hs := h s (by simp)
    have hss : ∀ x ∈ ss, Closed x := fun x hx => h x (List.mem_cons_of_mem _ hx)
    have := ih hss
    simp only [List.flatten_cons, List.map_cons, List.sum_cons]
    show (visibleAux false (s ++ ss.flatten)).length = _
    rw [hs, List.length_append]
    exact congrArg _ this

theorem map_add_two_eq_range (ws : List Nat) :
    ws.map (· + 2) = (List.range ws.length).map (fun i => ws.getD i 0 + 2) := by
  apply List.ext_getElem
  · simp
  · intro i h1 h2
    have hi : i < ws.length := by simpa using h1
    simp [List.getD_eq_getElem?_getD, List.getElem?_eq_getElem hi]

/-- ignoring colour codes, a row has the width of the table -/
theorem row_width (ws : List Nat) (rowColor : Option Str) (cells : List Cell)
    (hfit : ∀ i c, cells[i]? = some c → c.text.length ≤ ws.getD i 0)
    (hp : ∀ c ∈ cells, esc ∉ c.text) (hcol : ∀ c ∈ cells, ∀ k, c.color = some k → ColorSeq k)
    (hrc : ∀ k, rowColor = some k → ColorSeq k) :
    (visible (renderRow ws rowColor cells)).length = (ws.map (· + 2)).sum := by
  have key : ∀ i, Closed (match cells[i]? with
        | some c => coloredText (' ' :: c.text ++ [' ']) (ws.getD i 0 + 2) c.color
        | none => coloredText [' ', ' '] (ws.getD i 0 + 2) rowColor) ∧
      (visible (match cells[i]? with
        | some c => coloredText (' ' :: c.text ++ [' ']) (ws.getD i 0 + 2) c.color
        | none => coloredText [' ', ' '] (ws.getD i 0 + 2) rowColor)).length = ws.getD i 0 + 2 := by
    intro i
    cases hci : cells[i]? with
    | none =>
      have hpl : esc ∉ [' ', ' '] := by decide
      refine ⟨closed_coloredText _ _ _ hpl hrc, ?_⟩
      show (visible (coloredText [' ', ' '] (ws.getD i 0 + 2) rowColor)).length = _
      rw [visible_coloredText _ _ _ hpl hrc, length_padded]
      simp
    | some c =>
      have hmem : c ∈ cells := List.mem_of_getElem? hci
      have hpl : esc ∉ ' ' :: c.text ++ [' '] := by
        intro e
        simp only [List.cons_append, List.mem_cons, List.mem_append, List.not_mem_nil, or_false] at e
        rcases e with e | e | e
        · exact absurd e (by decide)
        · exact hp c hmem e
        · exact absurd e (by decide)
      refine ⟨closed_coloredText _ _ _ hpl (hcol c hmem), ?_⟩
      show (visible (coloredText (' ' :: c.text ++ [' ']) (ws.getD i 0 + 2) c.color)).length = _
      rw [visible_coloredText _ _ _ hpl (hcol c hmem), length_padded]
      have := hfit i c hci
      have hl : (' ' :: c.text ++ [' ']).length = c.text.length + 2 := by simp
      rw [hl]; omega
  unfold renderRow
  rw [visible_flatten_length]
  · rw [List.map_map, map_add_two_eq_range]
    congr 1
    apply List.map_congr_left
    intro i _
    exact (key i).2
  · intro s hs
    rcases List.mem_map.1 hs with ⟨i, _, rfl⟩
    exact (key i).1

/-! ### `render` -/

theorem coloredText_ne_nil (text : Str) (width : Nat) (color : Option Str) (h : text ≠ []) :
    coloredText text width color ≠ [] := by
  cases text with
  | nil => exact absurd rfl h
  | cons a as =>
    cases color with
    | none => simp [coloredText]
    | some k =>
      simp only [coloredText]
      split <;> simp

theorem renderRow_ne_nil (ws : List Nat) (rowColor : Option Str) (cells : List Cell) (h : ws ≠ []) :
    renderRow ws rowColor cells ≠ [] := by
  cases ws with
  | nil => exact absurd rfl h
  | cons w ws' =>
    intro e
    unfold renderRow at e
    rw [List.flatten_eq_nil_iff] at e
    have h0 : (0 : Nat) ∈ List.range (w :: ws').length := by simp
    have := e _ (List.mem_map.2 ⟨0, h0, rfl⟩)
    revert this
    cases cells[0]? with
    | none => exact coloredText_ne_nil _ _ _ (by simp)
    | some c => exact coloredText_ne_nil _ _ _ (by simp)

theorem flatten_intersperse_cons (sep x : Str) (xs : List Str) :
    ((x :: xs).intersperse sep).flatten = x ++ (xs.map (fun y => sep ++ y)).flatten := by
  induction xs generalizing x with
  | nil => simp
  | cons y ys ih =>
    rw [List.intersperse_cons_cons, List.flatten_cons, List.flatten_cons, ih]
    simp

theorem foldl_sep {α : Type} (g : α → Str) (rows : List α) (acc : Str) (hacc : acc ≠ []) :
    rows.foldl (fun acc r => (if acc.isEmpty then acc else acc ++ ['\n']) ++ g r) acc
      = acc ++ (rows.map (fun r => ['\n'] ++ g r)).flatten := by
  induction rows generalizing acc with
  | nil => simp
  | cons r rs ih =>
    have hne : acc.isEmpty = false := by cases acc with
      | nil => exact absurd rfl hacc
      | cons _ _ => rfl
    simp only [List.foldl_cons, hne, Bool.false_eq_true, if_false]
    rw [ih]
    · simp [List.append_assoc]
    · cases acc with
      | nil => exact absurd rfl hacc
      | cons _ _ => simp

theorem foldl_lines {α : Type} (g : α → Str) (rows : List α) (hg : ∀ r ∈ rows, g r ≠ []) :
    rows.foldl (fun acc r => (if acc.isEmpty then acc else acc ++ ['\n']) ++ g r) []
      = ((rows.map g).intersperse ['\n']).flatten := by
  cases rows with
  | nil => simp
  | cons r rs =>
    rw [List.map_cons, flatten_intersperse_cons, List.foldl_cons]
    simp only [List.isEmpty_nil, if_true, List.nil_append]
    rw [foldl_sep g rs (g r) (hg r (by simp)), List.map_map]
    rfl

/-! ### `_Repr` -/

theorem subtreeRows_length (ts : Nat → PTask) (fields : List Str) (children : Bool) (theme : Theme)
    (fuel level t : Nat) :
    (subtreeRows ts fields children theme fuel level t).length = shownCount ts children fuel t := by
  induction fuel generalizing level t with
  | zero => simp [subtreeRows, shownCount]
  | succ n ih =>
    simp only [subtreeRows, shownCount, List.length_cons]
    cases children with
    | false => simp
    | true =>
      simp only [if_true, List.length_flatten, List.map_map]
      have : (List.length ∘ subtreeRows ts fields true theme n (level + 1)) = shownCount ts true n := by
        funext x; exact ih (level + 1) x
      rw [this]; omega

end Pj.Print
