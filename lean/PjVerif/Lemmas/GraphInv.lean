/-
  Lemmas/GraphInv.lean — the full invariant (well-formed, truthful owners, unique ids, bounded) is preserved by
  the parent setter and by the children setter, and the children setter is atomic: once its up-front validation
  has passed, none of the inner parent-setter calls can raise (C05, C11, C15).
-/
import PjVerif.Lemmas.GraphPerm
import PjVerif.Lemmas.GraphBounded
import PjVerif.Lemmas.Fuel
namespace Pj
/-! ### tops of parent chains, trees -/

theorem RTC_of_parent_none (s : G) {r y : Uid} (hr : s.parent r = none) (h : RTC (par s) r y) : y = r := by
  rcases h.cases_eq_or_TC with e | e
  · exact e.symm
  · exact (par_TC_none s hr e).elim

/-- every task has a top of its parent chain -/
theorem top_exists (s : G) (hw : WF s) (hb : Bounded s) (x : Uid) :
    ∃ r, RTC (par s) x r ∧ s.parent r = none := by
  obtain ⟨r, hr⟩ := rootF_total s hw hb x
  exact ⟨r, rootF_spec s _ x r hr⟩

theorem top_unique (s : G) {x r r' : Uid} (h1 : RTC (par s) x r) (h2 : s.parent r = none)
    (h3 : RTC (par s) x r') (h4 : s.parent r' = none) : r = r' := by
  rcases par_chain s h1 h3 with h | h
  · exact (RTC_of_parent_none s h2 h).symm
  · exact RTC_of_parent_none s h4 h

/-- below a top: same tree as `b` iff the chain reaches the top of `b` -/
theorem sameTree_iff_top (s : G) {a b r : Uid} (hb : RTC (par s) b r) (hr : s.parent r = none) :
    SameTree s a b ↔ RTC (par s) a r := by
  constructor
  · rintro ⟨r0, h1, h2⟩
    rcases par_chain s h2 hb with h | h
    · exact RTC.trans h1 h
    · have := RTC_of_parent_none s hr h
      subst this; exact h1
  · intro h; exact ⟨r, h, hb⟩

theorem SameTree.symm {s : G} {a b : Uid} (h : SameTree s a b) : SameTree s b a := by
  obtain ⟨r, h1, h2⟩ := h; exact ⟨r, h2, h1⟩

theorem sameTree_of_RTC (s : G) {a b : Uid} (h : RTC (par s) a b) : SameTree s a b := ⟨b, h, RTC.refl⟩

theorem sameTree_trans_RTC (s : G) {a b c : Uid} (h : RTC (par s) a b) (h2 : SameTree s b c) : SameTree s a c := by
  obtain ⟨r, h3, h4⟩ := h2; exact ⟨r, RTC.trans h h3, h4⟩

/-- the owner is constant along parent chains (only `OwnerOK.inherit` is needed) -/
theorem owner_of_RTC (s : G) (hin : ∀ t p, s.parent t = some p → s.owner t = s.owner p) {x y : Uid}
    (h : RTC (par s) x y) : s.owner x = s.owner y := by
  induction h with
  | refl => rfl
  | tail _ hstep ih => exact ih.trans (hin _ _ hstep)

/-- the owner is the hidden root at the top of the parent chain (C11, global form) -/
theorem owner_iff_root (s : G) (hi : Inv s) (x w : Uid) :
    s.owner x = some w ↔ (RTC (par s) x w ∧ s.hidden w = true) := by
  constructor
  · intro h
    obtain ⟨r, hr, hp⟩ := top_exists s hi.wf hi.bnd x
    have ho := owner_of_RTC s hi.own.inherit hr
    cases hh : s.hidden r with
    | true =>
      have := hi.own.root r hh
      rw [ho, this] at h
      cases h
      exact ⟨hr, hh⟩
    | false =>
      have := hi.own.free r hp hh
      rw [ho, this] at h
      cases h
  · rintro ⟨h1, h2⟩
    rw [owner_of_RTC s hi.own.inherit h1]
    exact hi.own.root w h2

/-- a task without owner sits in a detached tree: the top of its parent chain is an ordinary task -/
theorem owner_none_iff (s : G) (hi : Inv s) (x : Uid) :
    s.owner x = none ↔ ∃ r, RTC (par s) x r ∧ s.parent r = none ∧ s.hidden r = false := by
  constructor
  · intro h
    obtain ⟨r, hr, hp⟩ := top_exists s hi.wf hi.bnd x
    refine ⟨r, hr, hp, ?_⟩
    cases hh : s.hidden r with
    | false => rfl
    | true =>
      have := hi.own.root r hh
      rw [← owner_of_RTC s hi.own.inherit hr, h] at this
      cases this
  · rintro ⟨r, h1, h2, h3⟩
    rw [owner_of_RTC s hi.own.inherit h1]
    exact hi.own.free r h2 h3

/-! ### `eraseDups` -/

theorem eraseDups_facts {α : Type} [BEq α] [LawfulBEq α] (n : Nat) : ∀ l : List α, l.length ≤ n →
    l.eraseDups.Nodup ∧ l.eraseDups.length ≤ l.length ∧ (l.eraseDups.length = l.length → l.Nodup) ∧
    (l.Nodup → l.eraseDups = l) := by
  induction n with
  | zero =>
    intro l hl
    have : l = [] := List.eq_nil_of_length_eq_zero (Nat.le_zero.mp hl)
    subst this
    simp
  | succ n ih =>
    intro l hl
    cases l with
    | nil => simp
    | cons a as =>
      rw [List.eraseDups_cons]
      have hfl : (as.filter fun b => !b == a).length ≤ as.length := List.length_filter_le _ _
      have hl' : as.length ≤ n := Nat.le_of_succ_le_succ hl
      obtain ⟨i1, i2, i3, i4⟩ := ih (as.filter fun b => !b == a) (Nat.le_trans hfl hl')
      refine ⟨?_, ?_, ?_, ?_⟩
      · refine List.nodup_cons.mpr ⟨?_, i1⟩
        intro hm
        have := List.mem_eraseDups.mp hm
        simp at this
      · simp only [List.length_cons]; omega
      · intro he
        simp only [List.length_cons] at he
        have h1 : (as.filter fun b => !b == a).length = as.length := by omega
        have h2 : as.filter (fun b => !b == a) = as := List.length_filter_eq_length_iff.mp h1 |> List.filter_eq_self.mpr
        rw [h2] at i3 he
        refine List.nodup_cons.mpr ⟨?_, i3 (by omega)⟩
        intro hm
        have := List.filter_eq_self.mp h2 a hm
        simp at this
      · intro hn
        obtain ⟨h1, h2⟩ := List.nodup_cons.mp hn
        have h3 : as.filter (fun b => !b == a) = as := by
          apply List.filter_eq_self.mpr
          intro b hb
          have : b ≠ a := fun e => h1 (e ▸ hb)
          simp [this]
        rw [h3] at i4 ⊢
        rw [i4 h2]

theorem nodup_eraseDups {α : Type} [BEq α] [LawfulBEq α] (l : List α) : l.eraseDups.Nodup :=
  (eraseDups_facts l.length l (Nat.le_refl _)).1

theorem nodup_of_eraseDups_length {α : Type} [BEq α] [LawfulBEq α] (l : List α)
    (h : l.eraseDups.length = l.length) : l.Nodup :=
  (eraseDups_facts l.length l (Nat.le_refl _)).2.2.1 h

theorem eraseDups_eq_self_of_nodup {α : Type} [BEq α] [LawfulBEq α] (l : List α) (h : l.Nodup) : l.eraseDups = l :=
  (eraseDups_facts l.length l (Nat.le_refl _)).2.2.2 h

theorem pairwise_sym_mem {α : Type} {R : α → α → Prop} (hs : ∀ a b, R a b → R b a) {l : List α}
    (h : l.Pairwise R) : ∀ a ∈ l, ∀ b ∈ l, a ≠ b → R a b := by
  induction h with
  | nil => intro a ha; cases ha
  | cons hx _ ih =>
    intro a ha b hb hab
    rcases List.mem_cons.mp ha with e1 | ha'
    · rcases List.mem_cons.mp hb with e2 | hb'
      · exact absurd (e1.trans e2.symm) hab
      · rw [e1]; exact hx b hb'
    · rcases List.mem_cons.mp hb with e2 | hb'
      · rw [e2]; exact hs _ _ (hx a ha')
      · exact ih a ha' b hb' hab

/-! ### the id test, semantically -/

/-- the Boolean computed by `_has_id_intersection` from the enumerated receiving tree and incoming subtrees -/
def idClash (tid : Uid → Int) (tree fl : List Uid) : Bool :=
  let new := (fl.filter (fun t => !tree.contains t)).eraseDups
  if new.isEmpty then false
  else
    let newIds := new.map tid
    if newIds.eraseDups.length != newIds.length then true
    else newIds.any (fun i => (tree.map tid).contains i)

theorem hasIdIntersection_eq (s : G) (p : Uid) (chs : List Uid) :
    hasIdIntersection s p chs =
      (rootF s s.fuel p).bind (fun root => (subtreeF s.children s.fuel root).bind (fun tree =>
        (chs.mapM (subtreeF s.children s.fuel)).bind (fun subs => some (idClash s.tid tree subs.flatten)))) := by
  unfold hasIdIntersection idClash
  cases h1 : rootF s s.fuel p with
  | none => rfl
  | some root =>
    simp only [bind, Option.bind]
    cases h2 : subtreeF s.children s.fuel root with
    | none => rfl
    | some tree =>
      simp only []
      cases h3 : List.mapM (subtreeF s.children s.fuel) chs with
      | none => rfl
      | some subs =>
        simp only [pure]
        split
        · rfl
        · split <;> rfl

theorem idClash_false_iff (tid : Uid → Int) (tree fl : List Uid) :
    idClash tid tree fl = false ↔
      (∀ a ∈ fl, a ∉ tree → ∀ b ∈ tree, tid a ≠ tid b) ∧
      (∀ a ∈ fl, ∀ a' ∈ fl, a ∉ tree → a' ∉ tree → a ≠ a' → tid a ≠ tid a') := by
  have hmem : ∀ a, a ∈ (fl.filter (fun t => !tree.contains t)).eraseDups ↔ a ∈ fl ∧ a ∉ tree := by
    intro a; simp [List.mem_eraseDups]
  have hnd := nodup_eraseDups (fl.filter (fun t => !tree.contains t))
  unfold idClash
  generalize (fl.filter (fun t => !tree.contains t)).eraseDups = new at hmem hnd
  simp only
  constructor
  · intro h
    split at h
    · rename_i he
      have he' : new = [] := by simpa using he
      subst he'
      constructor
      · intro a ha hat; exact absurd ((hmem a).mpr ⟨ha, hat⟩) (by simp)
      · intro a ha _ _ hat; exact absurd ((hmem a).mpr ⟨ha, hat⟩) (by simp)
    · split at h
      · cases h
      · rename_i hlen
        have hlen' : (new.map tid).eraseDups.length = (new.map tid).length := by simpa using hlen
        have hnd2 := nodup_of_eraseDups_length _ hlen'
        have hpw : new.Pairwise (fun a b => tid a ≠ tid b) := List.pairwise_map.mp hnd2
        constructor
        · intro a ha hat b hb hab
          rw [List.any_eq_false] at h
          have := h (tid a) (List.mem_map.mpr ⟨a, (hmem a).mpr ⟨ha, hat⟩, rfl⟩)
          simp only [List.contains_iff_mem, List.mem_map, not_exists, not_and] at this
          exact this b hb hab.symm
        · intro a ha a' ha' hat hat' hne
          exact pairwise_sym_mem (fun _ _ h => Ne.symm h) hpw a ((hmem a).mpr ⟨ha, hat⟩) a'
            ((hmem a').mpr ⟨ha', hat'⟩) hne
  · rintro ⟨hA, hB⟩
    split
    · rfl
    · have hpw : new.Pairwise (fun a b => tid a ≠ tid b) := by
        refine List.Pairwise.imp_of_mem ?_ hnd
        intro a b ha hb hab
        exact hB a ((hmem a).mp ha).1 b ((hmem b).mp hb).1 ((hmem a).mp ha).2 ((hmem b).mp hb).2 hab
      have hnd2 : (new.map tid).Nodup := List.pairwise_map.mpr hpw
      rw [eraseDups_eq_self_of_nodup _ hnd2]
      simp only [bne_self_eq_false, Bool.false_eq_true, if_false]
      rw [List.any_eq_false]
      intro i hi
      obtain ⟨a, ha, rfl⟩ := List.mem_map.mp hi
      simp only [List.contains_iff_mem, List.mem_map, not_exists, not_and]
      intro b hb hab
      exact hA a ((hmem a).mp ha).1 ((hmem a).mp ha).2 b hb hab.symm

/-! ### the enumerations as sets -/

theorem descF_mem (s : G) (hl : ∀ t p, s.parent t = some p ↔ t ∈ s.children p) (f : Nat) (t : Uid)
    (l : List Uid) (h : descF s.children f t = some l) (x : Uid) : x ∈ l ↔ TC (par s) x t :=
  ⟨fun hx => (TC_child_iff s hl t x).mp (descF_sound _ _ _ _ h x hx),
   fun hx => descF_complete _ _ _ _ h x ((TC_child_iff s hl t x).mpr hx)⟩

theorem subtreeF_mem (s : G) (hl : ∀ t p, s.parent t = some p ↔ t ∈ s.children p) (f : Nat) (t : Uid)
    (l : List Uid) (h : subtreeF s.children f t = some l) (x : Uid) : x ∈ l ↔ RTC (par s) x t := by
  simp only [subtreeF, Option.map_eq_some_iff] at h
  obtain ⟨r, hr, rfl⟩ := h
  constructor
  · intro hx
    rcases List.mem_cons.mp hx with rfl | hx
    · exact RTC.refl
    · exact ((descF_mem s hl f t r hr x).mp hx).toRTC
  · intro hx
    rcases hx.cases_eq_or_TC with rfl | e
    · exact List.mem_cons_self
    · exact List.mem_cons_of_mem _ ((descF_mem s hl f t r hr x).mpr e)

theorem subtreeF_flatten_mem (s : G) (hl : ∀ t p, s.parent t = some p ↔ t ∈ s.children p) (f : Nat)
    (chs : List Uid) (subs : List (List Uid)) (h : chs.mapM (subtreeF s.children f) = some subs) (x : Uid) :
    x ∈ subs.flatten ↔ ∃ c ∈ chs, RTC (par s) x c := by
  constructor
  · intro hx
    obtain ⟨b, hb, hxb⟩ := List.mem_flatten.mp hx
    obtain ⟨c, hc, hg⟩ := mapM_some_mem_inv _ _ _ h b hb
    exact ⟨c, hc, (subtreeF_mem s hl f c b hg x).mp hxb⟩
  · rintro ⟨c, hc, hx⟩
    obtain ⟨b, hb, hg⟩ := mapM_some_mem _ _ _ h c hc
    exact List.mem_flatten.mpr ⟨b, hb, (subtreeF_mem s hl f c b hg x).mpr hx⟩

/-- what the id test establishes: with `T` = the tree of `p` and `N` = the nodes below the listed children
    that are not in `T`, no id of `N` occurs in `T` and the ids inside `N` are pairwise different -/
def IdsOK (s : G) (p : Uid) (chs : List Uid) : Prop :=
  (∀ a, (∃ c ∈ chs, RTC (par s) a c) → ¬ SameTree s a p → ∀ b, SameTree s b p → s.tid a ≠ s.tid b) ∧
  (∀ a a', (∃ c ∈ chs, RTC (par s) a c) → (∃ c ∈ chs, RTC (par s) a' c) → ¬ SameTree s a p → ¬ SameTree s a' p →
    a ≠ a' → s.tid a ≠ s.tid a')

theorem hasId_spec (s : G) (hw : WF s) (p : Uid) (chs : List Uid) (b : Bool)
    (h : hasIdIntersection s p chs = some b) :
    ∃ tree fl, (∀ x, x ∈ tree ↔ SameTree s x p) ∧ (∀ x, x ∈ fl ↔ ∃ c ∈ chs, RTC (par s) x c) ∧
      b = idClash s.tid tree fl := by
  rw [hasIdIntersection_eq] at h
  simp only [Option.bind_eq_some_iff, Option.some.injEq] at h
  obtain ⟨root, hroot, tree, htree, subs, hsubs, rfl⟩ := h
  obtain ⟨r1, r2⟩ := rootF_spec s _ p root hroot
  refine ⟨tree, subs.flatten, ?_, subtreeF_flatten_mem s hw.listed _ chs subs hsubs, rfl⟩
  intro x
  rw [subtreeF_mem s hw.listed _ root tree htree x, sameTree_iff_top s r1 r2]

theorem hasId_false_iff (s : G) (hw : WF s) (hb : Bounded s) (p : Uid) (chs : List Uid) :
    hasIdIntersection s p chs = some false ↔ IdsOK s p chs := by
  obtain ⟨b, hbb⟩ := hasIdIntersection_total s hw hb p chs
  obtain ⟨tree, fl, h1, h2, h3⟩ := hasId_spec s hw p chs b hbb
  rw [hbb, h3, Option.some.injEq, idClash_false_iff]
  unfold IdsOK
  constructor
  · rintro ⟨hA, hB⟩
    constructor
    · intro a ha hat b' hb'
      exact hA a ((h2 a).mpr ha) (fun hx => hat ((h1 a).mp hx)) b' ((h1 b').mpr hb')
    · intro a a' ha ha' hat hat' hne
      exact hB a ((h2 a).mpr ha) a' ((h2 a').mpr ha') (fun hx => hat ((h1 a).mp hx))
        (fun hx => hat' ((h1 a').mp hx)) hne
  · rintro ⟨hA, hB⟩
    constructor
    · intro a ha hat b' hb'
      exact hA a ((h2 a).mp ha) (fun hx => hat ((h1 a).mpr hx)) b' ((h1 b').mp hb')
    · intro a ha a' ha' hat hat' hne
      exact hB a a' ((h2 a).mp ha) ((h2 a').mp ha') (fun hx => hat ((h1 a).mpr hx))
        (fun hx => hat' ((h1 a').mpr hx)) hne

/-! ### the effect of an accepted `t.parent = p` -/

/-- effect of an accepted `t.parent = p` on the fields the invariant talks about -/
structure Moved (s s' : G) (t p : Uid) : Prop where
  parent : s'.parent = upd s.parent t (some p)
  ownIn : ∀ x w, s.owner p = some w → RTC (par s) x t → s'.owner x = some w
  ownOut : ∀ x, (s.owner p = none ∨ ¬ RTC (par s) x t) → s'.owner x = s.owner x
  tid : s'.tid = s.tid
  preds : s'.preds = s.preds
  succs : s'.succs = s.succs
  n : s'.n = s.n
  ne : p ≠ t
  notBelow : ¬ TC (par s) p t

theorem detachOld_n' (s : G) (t : Uid) : (detachOld s t).n = s.n := by
  unfold detachOld
  split
  · split <;> rfl
  · rfl

theorem appStep_owner_n (s3 : G) (t p : Uid) : (appStep s3 t p).owner = s3.owner ∧ (appStep s3 t p).n = s3.n := by
  unfold appStep
  split <;> exact ⟨rfl, rfl⟩

theorem ownStep_n (s2 : G) (sub : List Uid) (p : Uid) : (ownStep s2 sub p).n = s2.n := by
  unfold ownStep
  split <;> rfl

theorem ownStep_owner (s2 : G) (sub : List Uid) (p x : Uid) :
    (ownStep s2 sub p).owner x =
      match s2.owner p with
      | none => s2.owner x
      | some w => if sub.contains x then some w else s2.owner x := by
  unfold ownStep
  split <;> simp_all [setOwners]

theorem setParentSome_Moved (s : G) (t p : Uid) (hw : WF s) (hc : chkParentSome s t p = none) :
    Moved s (setParentSome s t p).1 t p ∧ (setParentSome s t p).2 = none := by
  obtain ⟨desc, anc, hdesc, hne, hnc, hanc, hl⟩ := chkParentSome_none s t p hc
  have hsub : subtreeF s.children s.fuel t = some (t :: desc) := by simp [subtreeF, hdesc]
  have e : setParentSome s t p = (appStep (ownStep (parStep (detachOld s t) t p) (t :: desc) p) t p, none) := by
    unfold setParentSome
    rw [hc, mutParentSome_eq, hsub]
  rw [e]
  refine ⟨?_, rfl⟩
  obtain ⟨d1, d2, d3, d4, d5⟩ := detachOld_fields s t
  obtain ⟨o1, o2, o3, o4, o5⟩ := ownStep_fields (parStep (detachOld s t) t p) (t :: desc) p
  obtain ⟨a1, a2, a3, a4⟩ := appStep_fields (ownStep (parStep (detachOld s t) t p) (t :: desc) p) t p
  obtain ⟨a5, a6⟩ := appStep_owner_n (ownStep (parStep (detachOld s t) t p) (t :: desc) p) t p
  obtain ⟨p1, p2, p3, p4, p5⟩ := parStep_fields (detachOld s t) t p
  have hown : ∀ x, (appStep (ownStep (parStep (detachOld s t) t p) (t :: desc) p) t p).owner x =
      match s.owner p with
      | none => s.owner x
      | some w => if (t :: desc).contains x then some w else s.owner x := by
    intro x
    simp only [a5]
    rw [ownStep_owner]
    show (match (detachOld s t).owner p with
      | none => (detachOld s t).owner x
      | some w => if (t :: desc).contains x then some w else (detachOld s t).owner x) = _
    rw [d5]
  have hmem : ∀ x, (t :: desc).contains x = true ↔ RTC (par s) x t := by
    intro x
    rw [List.contains_iff_mem]
    exact subtreeF_mem s hw.listed _ t _ hsub x
  refine ⟨?_, ?_, ?_, ?_, ?_, ?_, ?_, hne, ?_⟩
  · simp only [a1, o1, p1, d1]
  · intro x w hpw hx
    rw [hown, hpw]
    simp only [(hmem x).mpr hx, if_true]
  · intro x hx
    rw [hown]
    rcases hx with hx | hx
    · rw [hx]
    · split
      · rfl
      · have : (t :: desc).contains x = false := by
          cases hh : (t :: desc).contains x
          · rfl
          · exact absurd ((hmem x).mp hh) hx
        simp only [this, Bool.false_eq_true, if_false]
  · simp only [a4, o5, p5, d4]
  · simp only [a2, o3, p3, d2]
  · simp only [a3, o4, p4, d3]
  · rw [a6, ownStep_n]
    show (detachOld s t).n = s.n
    exact detachOld_n' s t
  · intro hx
    have := (descF_mem s hw.listed _ t desc hdesc p).mpr hx
    simp [this] at hnc

/-- the owner / id part of the validation -/
theorem chkParentSome_c1 (s : G) (t p : Uid) (hc : chkParentSome s t p = none) :
    (∀ w, s.owner t = some w → s.owner p = some w) ∧
    (s.owner t = none → s.pubParent t = some p ∨ hasIdIntersection s p [t] = some false) := by
  unfold chkParentSome at hc
  simp only at hc
  cases ho : s.owner t with
  | none =>
    refine ⟨fun w h => (by cases h), fun _ => ?_⟩
    rw [ho] at hc
    simp only at hc
    by_cases hpp : s.pubParent t = none ∨ s.pubParent t ≠ some p
    · rw [if_pos hpp] at hc
      cases hid : hasIdIntersection s p [t] with
      | none => rw [hid] at hc; simp at hc
      | some b =>
        cases b with
        | true => rw [hid] at hc; simp at hc
        | false => exact Or.inr rfl
    · left
      apply Classical.byContradiction
      intro hx
      exact hpp (Or.inr hx)
  | some w =>
    refine ⟨fun w' h => ?_, fun h => (by cases h)⟩
    cases h
    rw [ho] at hc
    simp only at hc
    by_cases hpw : s.owner p = some w
    · exact hpw
    · rw [if_pos hpw] at hc
      simp at hc

/-! ### consequences of `Moved` -/

theorem sameTree_trans (s : G) {a b p : Uid} (h1 : SameTree s a p) (h2 : SameTree s b p) : SameTree s a b := by
  obtain ⟨r1, ha, hp1⟩ := h1
  obtain ⟨r2, hb, hp2⟩ := h2
  rcases par_chain s hp1 hp2 with h | h
  · exact ⟨r2, RTC.trans ha h, hb⟩
  · exact ⟨r1, ha, RTC.trans hb h⟩

theorem Moved.par_cases {s s' : G} {t p : Uid} (m : Moved s s' t p) {a b : Uid} (h : par s' a b) :
    (a ≠ t ∧ par s a b) ∨ (a = t ∧ b = p) := by
  unfold par at h
  rw [m.parent] at h
  by_cases hat : a = t
  · subst hat
    rw [upd_same] at h
    exact Or.inr ⟨rfl, (Option.some.inj h).symm⟩
  · rw [upd_other _ _ _ _ hat] at h
    exact Or.inl ⟨hat, h⟩

theorem Moved.par_old {s s' : G} {t p : Uid} (m : Moved s s' t p) {a b : Uid} (hat : a ≠ t) (h : par s a b) :
    par s' a b := by
  unfold par
  rw [m.parent, upd_other _ _ _ _ hat]
  exact h

theorem Moved.par_new {s s' : G} {t p : Uid} (m : Moved s s' t p) : par s' t p := by
  unfold par
  rw [m.parent, upd_same]

theorem Moved.hidden {s s' : G} {t p : Uid} (m : Moved s s' t p) (u : Uid) : s'.hidden u = s.hidden u :=
  hidden_of_tid s s' m.tid u

/-- a chain of the new state is a chain of the old one, or enters the moved subtree and continues above `p` -/
theorem Moved.RTC_cases {s s' : G} {t p : Uid} (m : Moved s s' t p) {x y : Uid} (h : RTC (par s') x y) :
    RTC (par s) x y ∨ (RTC (par s) x t ∧ RTC (par s) p y) := by
  induction h with
  | refl => exact Or.inl RTC.refl
  | tail _ hstep ih =>
    rcases m.par_cases hstep with ⟨_, hs⟩ | ⟨rfl, rfl⟩
    · rcases ih with ih | ⟨h1, h2⟩
      · exact Or.inl (RTC.tail ih hs)
      · exact Or.inr ⟨h1, RTC.tail h2 hs⟩
    · rcases ih with ih | ⟨h1, _⟩
      · exact Or.inr ⟨ih, RTC.refl⟩
      · exact Or.inr ⟨h1, RTC.refl⟩

theorem Moved.not_RTC_p_t {s s' : G} {t p : Uid} (m : Moved s s' t p) : ¬ RTC (par s) p t := by
  intro h
  rcases h.cases_eq_or_TC with e | e
  · exact m.ne e
  · exact m.notBelow e

/-- the chain above `p` is untouched -/
theorem Moved.RTC_from_p {s s' : G} {t p : Uid} (m : Moved s s' t p) {y : Uid} (h : RTC (par s') p y) :
    RTC (par s) p y := by
  rcases m.RTC_cases h with h | ⟨h, _⟩
  · exact h
  · exact absurd h m.not_RTC_p_t

theorem Moved.RTC_to_new {s s' : G} {t p : Uid} (m : Moved s s' t p) {y : Uid} (h : RTC (par s) p y) :
    RTC (par s') p y := by
  induction h with
  | refl => exact RTC.refl
  | tail h1 hstep ih =>
    refine RTC.tail ih (m.par_old ?_ hstep)
    intro e; subst e
    exact m.not_RTC_p_t h1

theorem Moved.sameTree_cases {s s' : G} {t p : Uid} (m : Moved s s' t p) {a b : Uid} (h : SameTree s' a b) :
    SameTree s a b ∨ (RTC (par s) a t ∧ SameTree s b p) ∨ (RTC (par s) b t ∧ SameTree s a p) := by
  obtain ⟨r, ha, hb⟩ := h
  rcases m.RTC_cases ha with ha | ⟨ha1, ha2⟩
  · rcases m.RTC_cases hb with hb | ⟨hb1, hb2⟩
    · exact Or.inl ⟨r, ha, hb⟩
    · exact Or.inr (Or.inr ⟨hb1, r, ha, hb2⟩)
  · rcases m.RTC_cases hb with hb | ⟨hb1, hb2⟩
    · exact Or.inr (Or.inl ⟨ha1, r, hb, ha2⟩)
    · exact Or.inl ⟨t, ha1, hb1⟩

/-- the tree of `p` after the move: its old tree plus the moved subtree -/
theorem Moved.sameTree_p {s s' : G} {t p : Uid} (m : Moved s s' t p) {x : Uid} (h : SameTree s' x p) :
    SameTree s x p ∨ RTC (par s) x t := by
  rcases m.sameTree_cases h with h | ⟨h, _⟩ | ⟨h, _⟩
  · exact Or.inl h
  · exact Or.inr h
  · exact absurd h m.not_RTC_p_t

theorem Moved.uniqueIds {s s' : G} {t p : Uid} (m : Moved s s' t p) (hu : UniqueIds s)
    (hid : SameTree s t p ∨ IdsOK s p [t]) : UniqueIds s' := by
  have key : ∀ a b, a ≠ b → s.hidden a = false → s.hidden b = false → RTC (par s) a t → SameTree s b p →
      s.tid a ≠ s.tid b := by
    intro a b hab hha hhb hat hbp
    by_cases hap : SameTree s a p
    · exact hu a b hab hha hhb (sameTree_trans s hap hbp)
    · rcases hid with h | h
      · exact absurd (sameTree_trans_RTC s hat h) hap
      · exact h.1 a ⟨t, List.mem_singleton.mpr rfl, hat⟩ hap b hbp
  intro a b hab hha hhb hst
  rw [m.hidden] at hha hhb
  rw [m.tid]
  rcases m.sameTree_cases hst with h | ⟨h1, h2⟩ | ⟨h1, h2⟩
  · exact hu a b hab hha hhb h
  · exact key a b hab hha hhb h1 h2
  · exact (key b a (Ne.symm hab) hhb hha h1 h2).symm

/-! ### truthful owners, with pending exceptions -/

/-- `OwnerOK`, except that parentless tasks satisfying `P` may still carry an owner -/
structure OwnW (s : G) (P : Uid → Prop) : Prop where
  inherit : ∀ t p, s.parent t = some p → s.owner t = s.owner p
  root    : ∀ r, s.hidden r = true → s.owner r = some r
  free    : ∀ t, s.parent t = none → s.hidden t = false → s.owner t = none ∨ P t
  isRoot  : ∀ t w, s.owner t = some w → s.hidden w = true

theorem OwnerOK.toW {s : G} (h : OwnerOK s) (P : Uid → Prop) : OwnW s P :=
  ⟨h.inherit, h.root, fun t h1 h2 => Or.inl (h.free t h1 h2), h.isRoot⟩

theorem OwnW.toOK {s : G} {P : Uid → Prop} (h : OwnW s P)
    (hP : ∀ t, P t → s.parent t = none → s.hidden t = false → s.owner t = none) : OwnerOK s :=
  ⟨h.inherit, h.root, fun t h1 h2 => (h.free t h1 h2).elim id (fun hp => hP t hp h1 h2), h.isRoot⟩

theorem Moved.ownW {s s' : G} {t p : Uid} (m : Moved s s' t p) (hw : WF s) (ht : s.hidden t = false)
    {P : Uid → Prop} (ho : OwnW s P) (hc : ∀ w, s.owner t = some w → s.owner p = some w) : OwnW s' P := by
  have hpout : s'.owner p = s.owner p := m.ownOut p (Or.inr m.not_RTC_p_t)
  refine ⟨?_, ?_, ?_, ?_⟩
  · intro a b hab
    rcases m.par_cases hab with ⟨hat, hs⟩ | ⟨rfl, rfl⟩
    · cases hop : s.owner p with
      | none =>
        rw [m.ownOut a (Or.inl hop), m.ownOut b (Or.inl hop)]
        exact ho.inherit a b hs
      | some w =>
        by_cases hx : RTC (par s) a t
        · have hb : RTC (par s) b t := by
            rcases hx.cases_eq_or_TC with e | e
            · exact absurd e hat
            · rcases par_TC_cases s hs e with e' | e'
              · rw [e']; exact RTC.refl
              · exact e'.toRTC
          rw [m.ownIn a w hop hx, m.ownIn b w hop hb]
        · have hb : ¬ RTC (par s) b t := fun hb => hx (RTC.head (r := par s) hs hb)
          rw [m.ownOut a (Or.inr hx), m.ownOut b (Or.inr hb)]
          exact ho.inherit a b hs
    · rw [hpout]
      cases hop : s.owner b with
      | none =>
        rw [m.ownOut a (Or.inl hop)]
        cases hoa : s.owner a with
        | none => rfl
        | some w => have := hc w hoa; rw [hop] at this; cases this
      | some w => exact m.ownIn a w hop RTC.refl
  · intro r hr
    rw [m.hidden] at hr
    have hnot : ¬ RTC (par s) r t := by
      intro h
      have := RTC_of_parent_none s (hw.rootsTop r hr).1 h
      subst this
      rw [hr] at ht; cases ht
    rw [m.ownOut r (Or.inr hnot)]
    exact ho.root r hr
  · intro x hx hh
    rw [m.hidden] at hh
    have hxt : x ≠ t := by
      intro e; subst e
      have := m.par_new
      unfold par at this
      rw [hx] at this; cases this
    have hx' : s.parent x = none := by
      rw [m.parent, upd_other _ _ _ _ hxt] at hx; exact hx
    have hnot : ¬ RTC (par s) x t := fun h => hxt (RTC_of_parent_none s hx' h).symm
    rw [m.ownOut x (Or.inr hnot)]
    exact ho.free x hx' hh
  · intro x w hxw
    rw [m.hidden]
    cases hop : s.owner p with
    | none =>
      rw [m.ownOut x (Or.inl hop)] at hxw
      exact ho.isRoot x w hxw
    | some w' =>
      by_cases hx : RTC (par s) x t
      · rw [m.ownIn x w' hop hx] at hxw
        cases hxw
        exact ho.isRoot p w hop
      · rw [m.ownOut x (Or.inr hx)] at hxw
        exact ho.isRoot x w hxw

/-! ### the parent setter preserves the invariant -/

theorem pubParent_some (s : G) (t p : Uid) (h : s.pubParent t = some p) : s.parent t = some p := by
  unfold G.pubParent at h
  split at h
  · split at h
    · cases h
    · rename_i q hq _; cases h; exact hq
  · cases h

theorem setParentSome_Inv (s : G) (t p : Uid) (hi : Inv s) (ht : s.hidden t = false) (htn : t < s.n)
    (hpn : p < s.n) : Inv (setParentSome s t p).1 := by
  cases hc : chkParentSome s t p with
  | some e =>
    unfold setParentSome
    rw [hc]; exact hi
  | none =>
    obtain ⟨m, _⟩ := setParentSome_Moved s t p hi.wf hc
    obtain ⟨c1, c2⟩ := chkParentSome_c1 s t p hc
    refine ⟨setParentSome_WF s t p hi.wf ht, ?_, ?_, ?_⟩
    · exact (m.ownW hi.wf ht (hi.own.toW (fun _ => False)) c1).toOK (fun _ h => h.elim)
    · apply m.uniqueIds hi.ids
      cases ho : s.owner t with
      | some w =>
        have h1 := (owner_iff_root s hi t w).mp ho
        have h2 := (owner_iff_root s hi p w).mp (c1 w ho)
        exact Or.inl ⟨w, h1.1, h2.1⟩
      | none =>
        rcases c2 ho with h | h
        · exact Or.inl (sameTree_of_RTC s (RTC.tail RTC.refl (pubParent_some s t p h)))
        · exact Or.inr ((hasId_false_iff s hi.wf hi.bnd p [t]).mp h)
    · exact setParent_Bounded s t (some p) hi.bnd htn (fun q hq => by cases hq; exact hpn)

theorem setParentNone_Inv (s : G) (t : Uid) (hi : Inv s) (ht : s.hidden t = false) (htn : t < s.n) :
    Inv (setParentNone s t).1 := by
  have hB := setParent_Bounded s t none hi.bnd htn (fun q hq => by cases hq)
  have hW := setParentNone_WF s t hi.wf ht
  cases ho : s.owner t with
  | some w =>
    unfold setParentNone
    rw [ho]
    exact setParentSome_Inv s t w hi ht htn (hi.bnd.owner t w ho).2
  | none =>
    refine ⟨hW, ?_, ?_, hB⟩
    all_goals
      unfold setParentNone
      rw [ho]
      obtain ⟨d1, d2, d3, d4, d5⟩ := detachOld_fields s t
    · have hpar : ∀ a b, upd (detachOld s t).parent t none a = some b → s.parent a = some b := by
        intro a b hab
        by_cases hat : a = t
        · subst hat; rw [upd_same] at hab; cases hab
        · rw [upd_other _ _ _ _ hat, d1] at hab; exact hab
      refine ⟨?_, ?_, ?_, ?_⟩
      · intro a b hab
        show (detachOld s t).owner a = (detachOld s t).owner b
        rw [d5]
        exact hi.own.inherit a b (hpar a b hab)
      · intro r hr
        show (detachOld s t).owner r = some r
        rw [d5]
        exact hi.own.root r (by simpa [G.hidden, d4] using hr)
      · intro x hx hh
        show (detachOld s t).owner x = none
        rw [d5]
        have hh' : s.hidden x = false := by simpa [G.hidden, d4] using hh
        by_cases hxt : x = t
        · subst hxt; exact ho
        · have hx' : upd (detachOld s t).parent t none x = none := hx
          rw [upd_other _ _ _ _ hxt, d1] at hx'
          exact hi.own.free x hx' hh'
      · intro x w hxw
        have hxw' : (detachOld s t).owner x = some w := hxw
        rw [d5] at hxw'
        have := hi.own.isRoot x w hxw'
        simpa [G.hidden, d4] using this
    · intro a b hab hha hhb hst
      have hha' : s.hidden a = false := by simpa [G.hidden, d4] using hha
      have hhb' : s.hidden b = false := by simpa [G.hidden, d4] using hhb
      show (detachOld s t).tid a ≠ (detachOld s t).tid b
      rw [d4]
      refine hi.ids a b hab hha' hhb' ?_
      obtain ⟨r, h1, h2⟩ := hst
      have hm : ∀ x y, par { detachOld s t with parent := upd (detachOld s t).parent t none } x y → par s x y := by
        intro x y hxy
        unfold par at hxy
        simp only at hxy
        by_cases hxt : x = t
        · subst hxt; rw [upd_same] at hxy; cases hxy
        · rw [upd_other _ _ _ _ hxt, d1] at hxy; exact hxy
      exact ⟨r, RTC.mono hm h1, RTC.mono hm h2⟩

/-- `t.parent = p` (any p, also None) preserves the invariant, accepted or rejected -/
theorem setParent_Inv (s : G) (t : Uid) (p : Option Uid) (hi : Inv s) (ht : s.hidden t = false)
    (htn : t < s.n) (hpn : ∀ q, p = some q → q < s.n) : Inv (setParent s t p).1 := by
  cases p with
  | none => exact setParentNone_Inv s t hi ht htn
  | some q => exact setParentSome_Inv s t q hi ht htn (hpn q rfl)

/-! ### the validation of the children setter, read as a proposition -/

/-- the owner part of the validation -/
def chkC1 (s : G) (h : Uid) (l : List Uid) : Option Err :=
  match s.owner h with
  | none => if l.any (fun v => (s.owner v).isSome) then some .runtime else none
  | some w => if l.any (fun v => (s.owner v).isSome && s.owner v != some w) then some .runtime else none

theorem chkChildren_eq (s : G) (h : Uid) (l : List Uid) : chkChildren s h l =
    match chkC1 s h l with
    | some e => some e
    | none =>
      match hasIdIntersection s h l with
      | none => some (.crash .recursion)
      | some true => some .runtime
      | some false =>
        match ancF s s.fuel (s.parent h) with
        | none => some (.crash .recursion)
        | some anc =>
          l.findSome? (fun ch =>
            match descF s.children s.fuel ch with
            | none => some (.crash .recursion)
            | some desc =>
              if ch = h ∨ desc.contains h then some .runtime
              else if linkedWithAny s (ch :: desc) (h :: anc) then some .runtime
              else none) := rfl

theorem chkC1_iff (s : G) (h : Uid) (l : List Uid) :
    chkC1 s h l = none ↔ (∀ v ∈ l, s.owner v = none ∨ s.owner v = s.owner h) := by
  unfold chkC1
  cases ho : s.owner h with
  | none =>
    simp only [ite_eq_right_iff, reduceCtorEq, imp_false, List.any_eq_true, not_exists, not_and, or_self]
    constructor
    · intro hx v hv
      have := hx v hv
      cases hov : s.owner v with
      | none => rfl
      | some w => rw [hov] at this; simp at this
    · intro hx v hv; simp [hx v hv]
  | some w =>
    simp only [ite_eq_right_iff, reduceCtorEq, imp_false, List.any_eq_true, not_exists, not_and]
    constructor
    · intro hx v hv
      have := hx v hv
      cases hov : s.owner v with
      | none => exact Or.inl rfl
      | some w' =>
        rw [hov] at this
        right
        simpa using this
    · intro hx v hv
      rcases hx v hv with e | e <;> simp [e]

theorem chkChildren_none_iff (s : G) (h : Uid) (l : List Uid) :
    chkChildren s h l = none ↔
      (∀ v ∈ l, s.owner v = none ∨ s.owner v = s.owner h) ∧
      hasIdIntersection s h l = some false ∧
      ∃ anc, ancF s s.fuel (s.parent h) = some anc ∧
        ∀ ch ∈ l, ∃ desc, descF s.children s.fuel ch = some desc ∧ ch ≠ h ∧ desc.contains h = false ∧
          linkedWithAny s (ch :: desc) (h :: anc) = false := by
  have hc1 := chkC1_iff s h l
  rw [chkChildren_eq]
  generalize chkC1 s h l = c1 at hc1 ⊢
  cases c1 with
  | some e =>
    simp only [reduceCtorEq, false_iff]
    rintro ⟨h1, _⟩
    have := hc1.mpr h1
    cases this
  | none =>
    have h1 := hc1.mp rfl
    simp only
    cases hid : hasIdIntersection s h l with
    | none => simp
    | some b =>
      cases b with
      | true => simp
      | false =>
        simp only
        cases hanc : ancF s s.fuel (s.parent h) with
        | none => simp
        | some anc =>
          simp only [List.findSome?_eq_none_iff, true_and, Option.some.injEq, exists_eq_left']
          constructor
          · intro hx
            refine ⟨h1, ?_⟩
            intro ch hch
            have := hx ch hch
            split at this
            · cases this
            · rename_i desc hdesc
              split at this
              · cases this
              · rename_i hcond
                split at this
                · cases this
                · rename_i hlk
                  refine ⟨desc, hdesc, fun e => hcond (Or.inl e), ?_, by simpa using hlk⟩
                  cases hd : desc.contains h
                  · rfl
                  · exact absurd (Or.inr hd) hcond
          · rintro ⟨_, hx⟩ ch hch
            obtain ⟨desc, hdesc, hne, hnc, hlk⟩ := hx ch hch
            rw [hdesc]
            simp only
            rw [if_neg (by rintro (e | e); exact hne e; rw [hnc] at e; cases e), if_neg (by rw [hlk]; simp)]

/-! ### sufficient conditions for the parent setter to accept -/

theorem linkedWithAny_true (s : G) (ts os : List Uid) (hl : linkedWithAny s ts os = true) :
    ∃ x ∈ ts, ∃ y ∈ os, y ∈ s.preds x ∨ y ∈ s.succs x := by
  simp only [linkedWithAny, List.any_eq_true, List.mem_append, List.contains_iff_mem] at hl
  obtain ⟨x, hx, y, hy, hyo⟩ := hl
  exact ⟨x, hx, y, hyo, hy⟩

theorem chkParentSome_ok (s : G) (t p : Uid) (hw : WF s) (hb : Bounded s)
    (h1 : ∀ w, s.owner t = some w → s.owner p = some w)
    (h2 : s.owner t = none → hasIdIntersection s p [t] = some false)
    (hne : p ≠ t) (hnd : ¬ TC (par s) p t)
    (hlink : ∀ x y, RTC (par s) x t → RTC (par s) p y → ¬ lnk s x y) : chkParentSome s t p = none := by
  obtain ⟨desc, hdesc⟩ := descF_children_total s hw hb t
  obtain ⟨anc, hanc⟩ := ancF_parent_total s hw hb p
  have hcont : ¬ (p = t ∨ desc.contains p = true) := by
    rintro (e | e)
    · exact hne e
    · exact hnd ((descF_mem s hw.listed _ t desc hdesc p).mp (by simpa using e))
  have hlk : ¬ (linkedWithAny s (t :: desc) (p :: anc) = true) := by
    intro hl
    obtain ⟨x, hx, y, hy, hxy⟩ := linkedWithAny_true s _ _ hl
    have hxt : RTC (par s) x t := by
      rcases List.mem_cons.mp hx with rfl | hx
      · exact RTC.refl
      · exact ((descF_mem s hw.listed _ t desc hdesc x).mp hx).toRTC
    have hpy : RTC (par s) p y := by
      rcases List.mem_cons.mp hy with rfl | hy
      · exact RTC.refl
      · exact (ancF_sound s _ p anc hanc y hy).1.toRTC
    refine hlink x y hxt hpy ?_
    rcases hxy with e | e
    · exact Or.inr e
    · exact Or.inl ((hw.sym x y).mpr e)
  unfold chkParentSome
  simp only
  cases ho : s.owner t with
  | none =>
    simp only [h2 ho, hdesc, hanc, if_neg hcont, if_neg hlk, ite_self]
  | some w =>
    have : ¬ (s.owner p ≠ some w) := fun hx => hx (h1 w ho)
    simp only [if_neg this, hdesc, hanc, if_neg hcont, if_neg hlk]

/-! ### the children setter: what the validation provides, and the loop invariant -/

/-- the receiving tree together with the incoming subtrees, all read in the pre-state -/
def InU (s0 : G) (h : Uid) (l : List Uid) (x : Uid) : Prop :=
  SameTree s0 x h ∨ ∃ c ∈ l, RTC (par s0) x c

/-- everything the proof uses about the pre-state of an accepted `h.children = l` -/
structure Pre (s0 : G) (h : Uid) (l : List Uid) : Prop where
  inv : Inv s0
  vis : ∀ v ∈ l, s0.hidden v = false
  hn : h < s0.n
  ln : ∀ v ∈ l, v < s0.n
  own : ∀ v ∈ l, s0.owner v = none ∨ s0.owner v = s0.owner h
  ids : IdsOK s0 h l
  ne : ∀ ch ∈ l, ch ≠ h
  notBelow : ∀ ch ∈ l, ¬ TC (par s0) h ch
  nolink : ∀ ch ∈ l, ∀ x y, RTC (par s0) x ch → RTC (par s0) h y → ¬ lnk s0 x y

theorem Pre.of_chk (s : G) (h : Uid) (l : List Uid) (hi : Inv s)
    (hv : ∀ v ∈ l, s.hidden v = false) (hh : h < s.n) (hl : ∀ v ∈ l, v < s.n)
    (hc : chkChildren s h l = none) : Pre s h l := by
  obtain ⟨h1, h2, anc, hanc, h3⟩ := (chkChildren_none_iff s h l).mp hc
  refine ⟨hi, hv, hh, hl, h1, (hasId_false_iff s hi.wf hi.bnd h l).mp h2, ?_, ?_, ?_⟩
  · intro ch hch
    obtain ⟨_, _, hne, _⟩ := h3 ch hch
    exact hne
  · intro ch hch hx
    obtain ⟨desc, hdesc, _, hnc, _⟩ := h3 ch hch
    have := (descF_mem s hi.wf.listed _ ch desc hdesc h).mpr hx
    simp [this] at hnc
  · intro ch hch
    obtain ⟨desc, hdesc, _, _, hlk⟩ := h3 ch hch
    exact accepted_no_link s ch h hi.wf desc anc hdesc hanc hlk

theorem Pre.not_RTC {s0 : G} {h : Uid} {l : List Uid} (pre : Pre s0 h l) {v : Uid} (hv : v ∈ l) :
    ¬ RTC (par s0) h v := by
  intro hx
  rcases hx.cases_eq_or_TC with e | e
  · exact pre.ne v hv e.symm
  · exact pre.notBelow v hv e

/-- a task below an ordinary task is ordinary -/
theorem below_not_hidden (s : G) (hw : WF s) {x v : Uid} (hv : s.hidden v = false) (h : RTC (par s) x v) :
    s.hidden x = false := by
  rcases h.cases_eq_or_TC with e | e
  · rw [e]; exact hv
  · cases hh : s.hidden x with
    | false => rfl
    | true => exact (par_TC_none s (hw.rootsTop x hh).1 e).elim

theorem tid_ne_of_hidden (s : G) {a b : Uid} (ha : s.hidden a = false) (hb : s.hidden b = true) :
    s.tid a ≠ s.tid b := by
  intro e
  unfold G.hidden at ha hb
  rw [e, hb] at ha
  cases ha

/-- ids are injective on the receiving tree plus the incoming subtrees -/
theorem Pre.inj {s0 : G} {h : Uid} {l : List Uid} (pre : Pre s0 h l) (a b : Uid)
    (ha : InU s0 h l a) (hb : InU s0 h l b) (hab : a ≠ b) (hha : s0.hidden a = false) :
    s0.tid a ≠ s0.tid b := by
  cases hhb : s0.hidden b with
  | true => exact tid_ne_of_hidden s0 hha hhb
  | false =>
    by_cases hta : SameTree s0 a h
    · by_cases htb : SameTree s0 b h
      · exact pre.inv.ids a b hab hha hhb (sameTree_trans s0 hta htb)
      · rcases hb with hb | hb
        · exact absurd hb htb
        · exact (pre.ids.1 b hb htb a hta).symm
    · rcases ha with ha | ha
      · exact absurd ha hta
      · by_cases htb : SameTree s0 b h
        · exact pre.ids.1 a ha hta b htb
        · rcases hb with hb | hb
          · exact absurd hb htb
          · exact pre.ids.2 a b ha hb hta htb hab

/-- the invariant of the re-parenting loop; `D` = the children already (re-)adopted -/
structure Loop (s0 : G) (h : Uid) (l : List Uid) (D : Uid → Prop) (s : G) : Prop where
  wf : WF s
  bnd : Bounded s
  n : s.n = s0.n
  tid : s.tid = s0.tid
  preds : s.preds = s0.preds
  succs : s.succs = s0.succs
  edges : ∀ x y, s.parent x = some y → s0.parent x = some y ∨ y = h
  anc : ∀ a, RTC (par s0) h a → s.parent a = s0.parent a
  ownh : s.owner h = s0.owner h
  owns : ∀ x, s.owner x = s0.owner x ∨ s.owner x = none ∨ s.owner x = s0.owner h
  ownw : OwnW s (fun x => x ∈ l)
  tree : ∀ x, SameTree s x h → InU s0 h l x
  done : ∀ v, D v → s.parent v = some h

theorem Loop.mono {s0 : G} {h : Uid} {l : List Uid} {D D' : Uid → Prop} {s : G} (L : Loop s0 h l D s)
    (hD : ∀ v, D' v → D v) : Loop s0 h l D' s :=
  ⟨L.wf, L.bnd, L.n, L.tid, L.preds, L.succs, L.edges, L.anc, L.ownh, L.owns, L.ownw, L.tree,
    fun v hv => L.done v (hD v hv)⟩

theorem Loop.hidden {s0 : G} {h : Uid} {l : List Uid} {D : Uid → Prop} {s : G} (L : Loop s0 h l D s) (u : Uid) :
    s.hidden u = s0.hidden u := hidden_of_tid s0 s L.tid u

/-- a chain of the current state is a chain of the pre-state or ends on the ancestor line of `h` -/
theorem Loop.rtc {s0 : G} {h : Uid} {l : List Uid} {D : Uid → Prop} {s : G} (L : Loop s0 h l D s) {x y : Uid}
    (hxy : RTC (par s) x y) : RTC (par s0) x y ∨ RTC (par s) h y := by
  induction hxy with
  | refl => exact Or.inl RTC.refl
  | tail _ hstep ih =>
    rcases L.edges _ _ hstep with e | e
    · rcases ih with ih | ih
      · exact Or.inl (RTC.tail ih e)
      · exact Or.inr (RTC.tail ih hstep)
    · rw [e]; exact Or.inr RTC.refl

/-- the ancestor line of `h` is the one of the pre-state -/
theorem Loop.rtc_h {s0 : G} {h : Uid} {l : List Uid} {D : Uid → Prop} {s : G} (L : Loop s0 h l D s) {y : Uid}
    (hy : RTC (par s) h y) : RTC (par s0) h y := by
  induction hy with
  | refl => exact RTC.refl
  | tail _ hstep ih =>
    refine RTC.tail ih ?_
    unfold par at hstep ⊢
    rw [← L.anc _ ih]; exact hstep

/-- subtrees of the listed children only shrink -/
theorem Loop.rtc_v {s0 : G} {h : Uid} {l : List Uid} {D : Uid → Prop} {s : G} (L : Loop s0 h l D s)
    (pre : Pre s0 h l) {x v : Uid} (hv : v ∈ l) (hx : RTC (par s) x v) : RTC (par s0) x v := by
  rcases L.rtc hx with e | e
  · exact e
  · exact absurd (L.rtc_h e) (pre.not_RTC hv)

/-! ### one iteration of the loop -/

theorem lnk_congr {s s' : G} (hp : s'.preds = s.preds) (x y : Uid) : lnk s' x y ↔ lnk s x y := by
  unfold lnk; rw [hp]

theorem Loop.step_ok {s0 : G} {h : Uid} {l : List Uid} {D : Uid → Prop} {s : G} (L : Loop s0 h l D s)
    (pre : Pre s0 h l) {v : Uid} (hv : v ∈ l) : chkParentSome s v h = none := by
  have hvh : s.hidden v = false := by rw [L.hidden]; exact pre.vis v hv
  have hbelow : ∀ a, RTC (par s) a v → InU s0 h l a ∧ s0.hidden a = false := by
    intro a ha
    have ha0 := L.rtc_v pre hv ha
    exact ⟨Or.inr ⟨v, hv, ha0⟩, below_not_hidden s0 pre.inv.wf (pre.vis v hv) ha0⟩
  apply chkParentSome_ok s v h L.wf L.bnd
  · intro w hw
    rw [L.ownh]
    rcases L.owns v with e | e | e
    · rcases pre.own v hv with e' | e'
      · rw [e, e'] at hw; cases hw
      · rw [← e', ← e]; exact hw
    · rw [e] at hw; cases hw
    · rw [← e]; exact hw
  · intro _
    rw [hasId_false_iff s L.wf L.bnd]
    constructor
    · intro a ha hat b hb
      obtain ⟨c, hc, hac⟩ := ha
      cases List.mem_singleton.mp hc
      obtain ⟨haU, hah⟩ := hbelow a hac
      rw [L.tid]
      refine pre.inj a b haU (L.tree b hb) ?_ hah
      intro e; subst e; exact hat hb
    · intro a a' ha ha' _ _ hne
      obtain ⟨c, hc, hac⟩ := ha
      cases List.mem_singleton.mp hc
      obtain ⟨c', hc', hac'⟩ := ha'
      cases List.mem_singleton.mp hc'
      obtain ⟨haU, hah⟩ := hbelow a hac
      rw [L.tid]
      exact pre.inj a a' haU (hbelow a' hac').1 hne hah
  · exact fun e => pre.ne v hv e.symm
  · intro hx
    exact pre.not_RTC hv (L.rtc_h hx.toRTC)
  · intro x y hx hy
    rw [lnk_congr L.preds]
    exact pre.nolink v hv x y (L.rtc_v pre hv hx) (L.rtc_h hy)

theorem Loop.step {s0 : G} {h : Uid} {l : List Uid} {D : Uid → Prop} {s : G} (L : Loop s0 h l D s)
    (pre : Pre s0 h l) {v : Uid} (hv : v ∈ l) :
    (setParentSome s v h).2 = none ∧ Loop s0 h l (fun x => D x ∨ x = v) (setParentSome s v h).1 := by
  have hc := L.step_ok pre hv
  obtain ⟨m, he⟩ := setParentSome_Moved s v h L.wf hc
  obtain ⟨c1, _⟩ := chkParentSome_c1 s v h hc
  have hvh : s.hidden v = false := by rw [L.hidden]; exact pre.vis v hv
  refine ⟨he, ?_⟩
  refine ⟨setParentSome_WF s v h L.wf hvh, ?_, m.n.trans L.n, m.tid.trans L.tid, m.preds.trans L.preds,
    m.succs.trans L.succs, ?_, ?_, ?_, ?_, m.ownW L.wf hvh L.ownw c1, ?_, ?_⟩
  · exact setParent_Bounded s v (some h) L.bnd (by rw [L.n]; exact pre.ln v hv)
      (fun q hq => by cases hq; rw [L.n]; exact pre.hn)
  · intro x y hxy
    rcases m.par_cases hxy with ⟨_, e⟩ | ⟨_, e⟩
    · exact L.edges x y e
    · exact Or.inr e
  · intro a ha
    have hav : a ≠ v := by
      intro e; subst e; exact pre.not_RTC hv ha
    rw [m.parent, upd_other _ _ _ _ hav]
    exact L.anc a ha
  · rw [m.ownOut h (Or.inr m.not_RTC_p_t)]; exact L.ownh
  · intro x
    cases hoh : s.owner h with
    | none => rw [m.ownOut x (Or.inl hoh)]; exact L.owns x
    | some w =>
      by_cases hx : RTC (par s) x v
      · rw [m.ownIn x w hoh hx, ← L.ownh, hoh]
        exact Or.inr (Or.inr rfl)
      · rw [m.ownOut x (Or.inr hx)]; exact L.owns x
  · intro x hx
    rcases m.sameTree_p hx with e | e
    · exact L.tree x e
    · exact Or.inr ⟨v, hv, L.rtc_v pre hv e⟩
  · intro u hu
    by_cases huv : u = v
    · subst huv; exact m.par_new
    · rcases hu with hu | hu
      · rw [m.parent, upd_other _ _ _ _ huv]; exact L.done u hu
      · exact absurd hu huv

theorem Loop.fold {s0 : G} {h : Uid} {l : List Uid} (pre : Pre s0 h l) :
    ∀ (rest : List Uid) (D : Uid → Prop) (s : G), (∀ v ∈ rest, v ∈ l) → Loop s0 h l D s →
      (foldSetParent s rest h).2 = none ∧ Loop s0 h l (fun x => D x ∨ x ∈ rest) (foldSetParent s rest h).1 := by
  intro rest
  induction rest with
  | nil =>
    intro D s _ L
    exact ⟨rfl, L.mono (fun v hv => hv.elim id (fun h => by cases h))⟩
  | cons v vs ih =>
    intro D s hsub L
    obtain ⟨h1, h2⟩ := L.step pre (hsub v List.mem_cons_self)
    unfold foldSetParent
    have e : setParent s v (some h) = setParentSome s v h := rfl
    rw [e]
    split
    · rename_i s' err heq
      rw [heq] at h1; cases h1
    · rename_i s' heq
      rw [heq] at h2
      obtain ⟨i1, i2⟩ := ih _ s' (fun u hu => hsub u (List.mem_cons_of_mem _ hu)) h2
      refine ⟨i1, i2.mono ?_⟩
      intro u hu
      rcases hu with hu | hu
      · exact Or.inl (Or.inl hu)
      · rcases List.mem_cons.mp hu with e | e
        · exact Or.inl (Or.inr e)
        · exact Or.inr e

/-- at the end of the loop the full invariant holds again -/
theorem Loop.inv {s0 : G} {h : Uid} {l : List Uid} {s : G} (L : Loop s0 h l (fun x => x ∈ l) s)
    (pre : Pre s0 h l) : Inv s := by
  refine ⟨L.wf, ?_, ?_, L.bnd⟩
  · apply L.ownw.toOK
    intro t ht hp _
    rw [L.done t ht] at hp; cases hp
  · intro a b hab hha hhb hst
    rw [L.hidden] at hha hhb
    rw [L.tid]
    obtain ⟨r, ha, hb⟩ := hst
    rcases L.rtc ha with ha0 | hhr
    · rcases L.rtc hb with hb0 | hhr
      · exact pre.inv.ids a b hab hha hhb ⟨r, ha0, hb0⟩
      · exact pre.inj a b (L.tree a ⟨r, ha, hhr⟩) (L.tree b ⟨r, hb, hhr⟩) hab hha
    · exact pre.inj a b (L.tree a ⟨r, ha, hhr⟩) (L.tree b ⟨r, hb, hhr⟩) hab hha

/-! ### releasing the old children -/

/-- `x` lies in the subtree of an old child of `h` that is not kept -/
def Dropped (s : G) (h : Uid) (l : List Uid) (x : Uid) : Prop :=
  ∃ c ∈ s.children h, c ∉ l ∧ RTC (par s) x c

theorem releaseChildren_spec (s : G) (h : Uid) (l : List Uid) (hw : WF s) (hb : Bounded s) :
    ∃ s1, releaseChildren s h l = (s1, none) ∧
      (∀ x, s1.parent x = if x ∈ s.children h then none else s.parent x) ∧
      s1.children = upd s.children h [] ∧
      (∀ x, Dropped s h l x → s1.owner x = none) ∧
      (∀ x, ¬ Dropped s h l x → s1.owner x = s.owner x) ∧
      s1.tid = s.tid ∧ s1.preds = s.preds ∧ s1.succs = s.succs ∧ s1.n = s.n := by
  obtain ⟨subs, hsubs⟩ := mapM_total (subtreeF s.children s.fuel) ((s.children h).filter (fun v => !l.contains v))
    (fun a _ => subtreeF_children_total s hw hb a)
  have hmem : ∀ x, subs.flatten.contains x = true ↔ Dropped s h l x := by
    intro x
    rw [List.contains_iff_mem, subtreeF_flatten_mem s hw.listed _ _ subs hsubs x]
    unfold Dropped
    constructor
    · rintro ⟨c, hc, hx⟩
      have := List.mem_filter.mp hc
      exact ⟨c, this.1, by simpa using this.2, hx⟩
    · rintro ⟨c, hc, hcl, hx⟩
      exact ⟨c, List.mem_filter.mpr ⟨hc, by simpa using hcl⟩, hx⟩
  have he : releaseChildren s h l =
      (⟨s.n, s.tid, fun x => if (s.children h).contains x then none else s.parent x, upd s.children h [],
        s.preds, s.succs, fun x => if subs.flatten.contains x then none else s.owner x⟩, none) := by
    unfold releaseChildren
    simp only [hsubs]
    rfl
  refine ⟨_, he, ?_, ?_, ?_, ?_, ?_, ?_, ?_, ?_⟩
  · intro x
    show (if (s.children h).contains x then none else s.parent x) = _
    simp only [List.contains_iff_mem]
  · rfl
  · intro x hx
    show (if subs.flatten.contains x then none else s.owner x) = none
    rw [if_pos ((hmem x).mpr hx)]
  · intro x hx
    show (if subs.flatten.contains x then none else s.owner x) = s.owner x
    rw [if_neg (fun e => hx ((hmem x).mp e))]
  · rfl
  · rfl
  · rfl
  · rfl

theorem Loop.init {s0 : G} {h : Uid} {l : List Uid} (pre : Pre s0 h l) :
    ∃ s1, releaseChildren s0 h l = (s1, none) ∧ Loop s0 h l (fun _ => False) s1 := by
  have hw := pre.inv.wf
  obtain ⟨s1, he, hpar, hch, hdrop, hkeep, htid, hpr, hsu, hn⟩ :=
    releaseChildren_spec s0 h l hw pre.inv.bnd
  have hparS : ∀ x y, s1.parent x = some y → x ∉ s0.children h ∧ s0.parent x = some y := by
    intro x y hxy
    rw [hpar] at hxy
    split at hxy
    · cases hxy
    · rename_i hx; exact ⟨hx, hxy⟩
  have hnotch : ∀ a, RTC (par s0) h a → a ∉ s0.children h := by
    intro a ha hc
    exact hw.forest h (TC.of_RTC_step ha ((hw.listed a h).mpr hc))
  have hown : ∀ x, s1.owner x = s0.owner x ∨ s1.owner x = none := by
    intro x
    by_cases hx : Dropped s0 h l x
    · exact Or.inr (hdrop x hx)
    · exact Or.inl (hkeep x hx)
  have hhid : ∀ u, s1.hidden u = s0.hidden u := hidden_of_tid s0 s1 htid
  have hW1 : WF s1 := by
    have := releaseChildren_WF s0 h l hw
    rw [he] at this; exact this
  refine ⟨s1, he, hW1, ?_, hn, htid, hpr, hsu, ?_, ?_, ?_, ?_, ?_, ?_, ?_⟩
  · refine ⟨?_, ?_, ?_, ?_, ?_⟩
    · intro u p hp
      rw [hn]; exact pre.inv.bnd.parent u p (hparS u p hp).2
    · intro u c hc
      rw [hch] at hc
      by_cases huh : u = h
      · subst huh; rw [upd_same] at hc; cases hc
      · rw [upd_other _ _ _ _ huh] at hc
        rw [hn]; exact pre.inv.bnd.children u c hc
    · intro u v hv; rw [hpr] at hv; rw [hn]; exact pre.inv.bnd.preds u v hv
    · intro u v hv; rw [hsu] at hv; rw [hn]; exact pre.inv.bnd.succs u v hv
    · intro u w huw
      rcases hown u with e | e
      · rw [e] at huw; rw [hn]; exact pre.inv.bnd.owner u w huw
      · rw [e] at huw; cases huw
  · intro x y hxy
    exact Or.inl (hparS x y hxy).2
  · intro a ha
    rw [hpar, if_neg (hnotch a ha)]
  · apply hkeep
    rintro ⟨c, hc, _, hx⟩
    exact hnotch c hx hc
  · intro x
    rcases hown x with e | e
    · exact Or.inl e
    · exact Or.inr (Or.inl e)
  · refine ⟨?_, ?_, ?_, ?_⟩
    · intro a b hab
      obtain ⟨hac, hab0⟩ := hparS a b hab
      by_cases ha : Dropped s0 h l a
      · have hb : Dropped s0 h l b := by
          obtain ⟨c, hc, hcl, hx⟩ := ha
          refine ⟨c, hc, hcl, ?_⟩
          rcases hx.cases_eq_or_TC with e | e
          · subst e; exact absurd hc hac
          · rcases par_TC_cases s0 hab0 e with e' | e'
            · rw [e']; exact RTC.refl
            · exact e'.toRTC
        rw [hdrop a ha, hdrop b hb]
      · have hb : ¬ Dropped s0 h l b := by
          rintro ⟨c, hc, hcl, hx⟩
          exact ha ⟨c, hc, hcl, RTC.head (r := par s0) hab0 hx⟩
        rw [hkeep a ha, hkeep b hb]
        exact pre.inv.own.inherit a b hab0
    · intro r hr
      rw [hhid] at hr
      rw [hkeep]
      · exact pre.inv.own.root r hr
      · rintro ⟨c, hc, _, hx⟩
        have := RTC_of_parent_none s0 (hw.rootsTop r hr).1 hx
        subst this
        have := child_not_hidden s0 hw h c hc
        rw [hr] at this; cases this
    · intro t ht hh
      rw [hhid] at hh
      rw [hpar] at ht
      by_cases htc : t ∈ s0.children h
      · by_cases htl : t ∈ l
        · exact Or.inr htl
        · exact Or.inl (hdrop t ⟨t, htc, htl, RTC.refl⟩)
      · rw [if_neg htc] at ht
        left
        rcases hown t with e | e
        · rw [e]; exact pre.inv.own.free t ht hh
        · exact e
    · intro t w htw
      rw [hhid]
      rcases hown t with e | e
      · rw [e] at htw; exact pre.inv.own.isRoot t w htw
      · rw [e] at htw; cases htw
  · intro x hx
    obtain ⟨r, h1, h2⟩ := hx
    have hm : ∀ a b, par s1 a b → par s0 a b := fun a b hab => (hparS a b hab).2
    exact Or.inl ⟨r, RTC.mono hm h1, RTC.mono hm h2⟩
  · intro v hv; exact hv.elim

/-! ### the children setter: the theorems -/

theorem setChildren_accept (s : G) (h : Uid) (l : List Uid) (pre : Pre s h l) (hc : chkChildren s h l = none) :
    (setChildren s h l).2 = none ∧ Inv (setChildren s h l).1 := by
  obtain ⟨s1, he, L⟩ := Loop.init pre
  obtain ⟨f1, f2⟩ := Loop.fold pre l _ s1 (fun v hv => hv) L
  have e : setChildren s h l = foldSetParent s1 l h := by
    unfold setChildren
    rw [hc]
    simp only [he]
  rw [e]
  exact ⟨f1, (f2.mono (fun v hv => Or.inr hv)).inv pre⟩

/-- atomicity of the children setter (the real content of C15): validated ⇒ no inner raise -/
theorem setChildren_atomic (s : G) (h : Uid) (l : List Uid) (hi : Inv s)
    (hv : ∀ v ∈ l, s.hidden v = false) (hh : h < s.n) (hl : ∀ v ∈ l, v < s.n)
    (hc : chkChildren s h l = none) : (setChildren s h l).2 = none :=
  (setChildren_accept s h l (Pre.of_chk s h l hi hv hh hl hc) hc).1

/-- a rejected children assignment is rejected by the up-front validation, i.e. before anything is touched -/
theorem setChildren_err_unchanged (s : G) (h : Uid) (l : List Uid) (hi : Inv s)
    (hv : ∀ v ∈ l, s.hidden v = false) (hh : h < s.n) (hl : ∀ v ∈ l, v < s.n)
    (he : (setChildren s h l).2 ≠ none) : (setChildren s h l).1 = s := by
  cases hc : chkChildren s h l with
  | none => exact absurd (setChildren_atomic s h l hi hv hh hl hc) he
  | some e =>
    unfold setChildren
    rw [hc]

/-- `h.children = l` (also `WBS.roots = l`) preserves the invariant, accepted or rejected -/
theorem setChildren_Inv (s : G) (h : Uid) (l : List Uid) (hi : Inv s)
    (hv : ∀ v ∈ l, s.hidden v = false) (hh : h < s.n) (hl : ∀ v ∈ l, v < s.n) :
    Inv (setChildren s h l).1 := by
  cases hc : chkChildren s h l with
  | none => exact (setChildren_accept s h l (Pre.of_chk s h l hi hv hh hl hc) hc).2
  | some e =>
    unfold setChildren
    rw [hc]
    exact hi

/-- re-assigning a sub-list of the current children always passes the validation -/
theorem chkChildren_sublist (s : G) (h : Uid) (l : List Uid) (hi : Inv s) (hsub : ∀ v ∈ l, v ∈ s.children h) :
    chkChildren s h l = none := by
  have hw := hi.wf
  have hpar : ∀ v ∈ l, par s v h := fun v hv => (hw.listed v h).mpr (hsub v hv)
  obtain ⟨anc, hanc⟩ := ancF_parent_total s hw hi.bnd h
  rw [chkChildren_none_iff]
  refine ⟨?_, ?_, anc, hanc, ?_⟩
  · intro v hv
    exact Or.inr (hi.own.inherit v h (hpar v hv))
  · rw [hasId_false_iff s hw hi.bnd]
    have hin : ∀ a, (∃ c ∈ l, RTC (par s) a c) → SameTree s a h := by
      rintro a ⟨c, hc, hac⟩
      exact sameTree_of_RTC s (RTC.tail hac (hpar c hc))
    exact ⟨fun a ha hna => absurd (hin a ha) hna, fun a _ ha _ hna => absurd (hin a ha) hna⟩
  · intro ch hch
    obtain ⟨desc, hdesc⟩ := descF_children_total s hw hi.bnd ch
    refine ⟨desc, hdesc, ?_, ?_, ?_⟩
    · intro e
      have := hpar ch hch
      rw [e] at this
      exact hw.forest h (TC.single this)
    · cases hd : desc.contains h with
      | false => rfl
      | true =>
        have := (descF_mem s hw.listed _ ch desc hdesc h).mp (by simpa using hd)
        exact (hw.forest h (TC.tail this (hpar ch hch))).elim
    · cases hlk : linkedWithAny s (ch :: desc) (h :: anc) with
      | false => rfl
      | true =>
        obtain ⟨x, hx, y, hy, hxy⟩ := linkedWithAny_true s _ _ hlk
        have hxc : RTC (par s) x ch := by
          rcases List.mem_cons.mp hx with rfl | hx
          · exact RTC.refl
          · exact ((descF_mem s hw.listed _ ch desc hdesc x).mp hx).toRTC
        have hhy : RTC (par s) h y := by
          rcases List.mem_cons.mp hy with rfl | hy
          · exact RTC.refl
          · exact (ancF_sound s _ h anc hanc y hy).1.toRTC
        have hxy' : TC (par s) x y := by
          rcases hhy.cases_eq_or_TC with e | e
          · rw [← e]; exact TC.of_RTC_step hxc (hpar ch hch)
          · exact TC.trans (TC.of_RTC_step hxc (hpar ch hch)) e
        rcases hxy with e | e
        · exact ((hw.noAncDep y x e).2 hxy').elim
        · exact ((hw.noAncDep x y ((hw.sym x y).mpr e)).1 hxy').elim

/-- removing a child through the list façade is always accepted on a reachable state -/
theorem chRemove_ok (s : G) (h t : Uid) (hi : Inv s) (hh : h < s.n) : (chRemove s h t).2 = none := by
  unfold chRemove
  split
  · have hsub : ∀ v ∈ (s.children h).filter (fun x => x != t), v ∈ s.children h :=
      fun v hv => (List.mem_filter.mp hv).1
    exact setChildren_atomic s h _ hi (fun v hv => child_not_hidden s hi.wf h v (hsub v hv)) hh
      (fun v hv => (hi.bnd.children h v (hsub v hv)).2) (chkChildren_sublist s h _ hi hsub)
  · rfl

end Pj
