/-
  Lemmas/CsvSrcR5.lean — CSV I/O, towards the READ side: the keyword-argument loop of `read_csv`, well-formed dicts.
-/
import PjVerif.Lemmas.CsvSrcR4
namespace Pj.CsvSrc
open Pj.PyLite Pj.Extracted.Csv Pj.Csv

def kwFold (L : IOLib) (hdr row : List Str) : List Str → List (Atom × Atom) → Option (List (Atom × Atom))
  | [], D => some D
  | c :: cs, D =>
    match kwStep L hdr row D c with
    | some D1 => kwFold L hdr row cs D1
    | none => none

theorem RowCtx.frame {hdr row : List Str} {rb : Nat} {env env' : PyLite.Env} {st : PState} {xs : List String}
    (hc : RowCtx hdr row rb env st) (hf : Frame xs env env') (h1 : "row" ∉ xs) (h2 : "header" ∉ xs) :
    RowCtx hdr row rb env' st :=
  ⟨(hf "row" h1).trans hc.hrow, hc.hbox, (hf "header" h2).trans hc.hheader⟩

theorem kw_read_loop (L : IOLib) (F : Nat) (rec) {hdr row : List Str} {rb : Nat} {st : PState} :
    ∀ (cs : List Str) (env : PyLite.Env) (D D' : List (Atom × Atom)), RowCtx hdr row rb env st →
      env.get? "kwargs" = some (.dict D) → (∀ c ∈ cs, ∃ i, headerIndex hdr c = some i) →
      kwFold L hdr row cs D = some D' →
      ∃ env', forLoopP "k" (fun e s => execBlockP (HH L (F + 1)) [] rec kwReadBody e s) (cs.map strA) env st =
          .normal env' st ∧ env'.get? "kwargs" = some (.dict D') ∧ Frame ["k", "v", "kwargs"] env env'
  | [], env, D, D', _, hkw, _, hf => by
    simp only [kwFold, Option.some.injEq] at hf
    subst hf
    exact ⟨env, rfl, hkw, Frame.refl _ _⟩
  | c :: cs, env, D, D', hc, hkw, hcs, hf => by
    obtain ⟨i, hi⟩ := hcs c (List.mem_cons_self ..)
    unfold kwFold at hf
    cases hs : kwStep L hdr row D c with
    | none => simp [hs] at hf
    | some D1 =>
      simp only [hs] at hf
      let env0 := env.set "k" (.atom (strA c))
      have hfr0 : Frame ["k", "v", "kwargs"] env env0 := Frame.set env "k" _ (by simp)
      have hc0 : RowCtx hdr row rb env0 st := hc.frame hfr0 (by decide) (by decide)
      obtain ⟨env1, h1, h2, h3⟩ := kw_read_body L F rec hc0 c i D D1 (by rw [envGet_set, if_pos rfl])
        (by rw [envGet_set, if_neg (by decide)]; exact hkw) hi hs
      have h3' : Frame ["k", "v", "kwargs"] env0 env1 := fun x hx => h3 x (fun hm => hx (List.mem_cons_of_mem _ hm))
      obtain ⟨env2, h4, h5, h6⟩ := kw_read_loop L F rec cs env1 D1 D' (hc0.frame h3 (by decide) (by decide)) h2
        (fun c' hc' => hcs c' (List.mem_cons_of_mem _ hc')) hf
      refine ⟨env2, ?_, h5, (hfr0.trans h3').trans h6⟩
      rw [List.map_cons, forLoopP, h1]
      dsimp only
      rw [h4]

/-! ### dicts with distinct `str` keys as keyword arguments -/

def DictOK (D : List (Atom × Atom)) : Prop := ∃ cols : List Str, keysOf D cols ∧ cols.Nodup

theorem dictOK_nil : DictOK [] := ⟨[], rfl, List.nodup_nil⟩

theorem addKey_nodup {cols : List Str} (h : cols.Nodup) (s : Str) : (addKey cols s).Nodup := by
  unfold addKey
  by_cases hc : cols.contains s = true
  · rw [if_pos hc]; exact h
  · rw [if_neg hc]
    have : s ∉ cols := by simpa using hc
    rw [List.nodup_append]
    exact ⟨h, by simp, fun a ha b hb => by
      rw [List.mem_singleton] at hb; subst hb; exact fun e => this (e ▸ ha)⟩

theorem dictOK_insert {D : List (Atom × Atom)} (h : DictOK D) (s : Str) (v : Atom) :
    DictOK (Dict.insert D (strA s) v) := by
  obtain ⟨cols, h1, h2⟩ := h
  exact ⟨addKey cols s, keysOf_insert D cols s v h1, addKey_nodup h2 s⟩

theorem dictOK_get : ∀ (D : List (Atom × Atom)) (cols : List Str), keysOf D cols → cols.Nodup →
    ∀ p ∈ D, ∃ n, p.1 = .str n ∧ Dict.get? D p.1 = some p.2
  | [], _, _, _, p, hp => by cases hp
  | _ :: _, [], h, _, _, _ => by simp [keysOf] at h
  | q :: D, c :: cols, h, hnd, p, hp => by
    simp only [keysOf, List.map_cons, List.cons.injEq] at h
    obtain ⟨h1, h2⟩ := h
    rw [List.nodup_cons] at hnd
    rcases List.mem_cons.1 hp with rfl | hp
    · exact ⟨strCode c, h1, by rw [dictGet_cons, h1, pyEq_strA]; simp⟩
    · obtain ⟨n, g1, g2⟩ := dictOK_get D cols h2 hnd.2 p hp
      have hmem : p.1 ∈ cols.map strA := by rw [← h2]; exact List.mem_map_of_mem hp
      obtain ⟨c', hc', e⟩ := List.mem_map.1 hmem
      have hne : ¬ c = c' := fun e' => hnd.1 (e' ▸ hc')
      refine ⟨n, g1, ?_⟩
      rw [dictGet_cons, h1, ← e, pyEq_strA, decide_eq_false hne]
      simp only [Bool.false_eq_true, if_false]
      rw [e]; exact g2

theorem kwStep_ok {L : IOLib} {hdr row : List Str} {D D' : List (Atom × Atom)} {c : Str}
    (h : kwStep L hdr row D c = some D') (hD : DictOK D) : DictOK D' := by
  unfold kwStep at h
  by_cases hms : c = "min_start".toList
  · rw [if_pos hms] at h
    cases hcell : cellAt hdr row c with
    | none => simp [hcell] at h
    | some cell =>
      simp only [hcell] at h
      cases hp : cellParse L.strptime Atom.time cell with
      | error e => simp [hp] at h
      | ok v =>
        obtain ⟨a, rfl⟩ := cellParse_atom hp
        simp only [hp, Option.some.injEq] at h
        subst h; exact dictOK_insert hD c a
  · rw [if_neg hms] at h
    cases hd : defaultFields.contains c with
    | true =>
      rw [hd, if_pos rfl] at h
      simp only [Option.some.injEq] at h
      subst h; exact hD
    | false =>
      rw [hd, if_neg (by simp)] at h
      cases hcell : cellAt hdr row c with
      | none => simp [hcell] at h
      | some cell =>
        simp only [hcell, Option.map_some, Option.some.injEq] at h
        subst h; exact dictOK_insert hD c _

theorem kwFold_ok {L : IOLib} {hdr row : List Str} : ∀ {cs : List Str} {D D' : List (Atom × Atom)},
    kwFold L hdr row cs D = some D' → DictOK D → DictOK D'
  | [], D, D', h, hD => by simp only [kwFold, Option.some.injEq] at h; subst h; exact hD
  | c :: cs, D, D', h, hD => by
    unfold kwFold at h
    cases hs : kwStep L hdr row D c with
    | none => simp [hs] at h
    | some D1 =>
      simp only [hs] at h
      exact kwFold_ok h (kwStep_ok hs hD)

end Pj.CsvSrc
