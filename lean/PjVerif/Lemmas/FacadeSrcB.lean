/-
  Lemmas/FacadeSrcB.lean — stage 2 of the translated tie for the list facades of task.py (general theorems):
  `_ChildrenList.move` = `chMove` / `moveOne`, `_ChildrenList.reorder` = `chReorder` / `reorderLoop`.
  See Lemmas/FacadeSrc.lean for the setting and Lemmas/FacadeSrcD.lean for the list of results.
-/
import PjVerif.Lemmas.FacadeSrcA
namespace Pj.FacadeSrc
open Pj.PyLite Pj.Extracted Pj.Extracted.Facade Pj.TaskSrc
set_option linter.unusedSimpArgs false
set_option linter.unusedVariables false

/-! ### lists -/

theorem asInt?_nat (n : Nat) : (Atom.num ((n : Nat) : Rat)).asInt? = some (n : Int) := by
  simp [Atom.asInt?]

theorem natCast_succ_rat (n : Nat) : ((n : Nat) : Rat) + 1 = ((n + 1 : Nat) : Rat) := by
  rw [Rat.natCast_add]; rfl

/-- `list.insert(i, x)` for an index inside the list -/
theorem pyInsertA_nat (l : List Atom) (n : Nat) (x : Atom) (hn : n ≤ l.length) :
    pyInsertA l (n : Int) x = l.take n ++ [x] ++ l.drop n := by
  unfold pyInsertA
  have h1 : ¬ ((n : Int) < 0) := by omega
  have h2 : ¬ ((n : Int) > (l.length : Int)) := by omega
  simp only [h1, h2, if_false, Int.toNat_natCast]

theorem pyIndexOf_refs (l : List Uid) (x : Uid) :
    pyIndexOf (l.map Atom.ref) (.ref x) = if l.contains x then some (l.idxOf x) else none := by
  induction l with
  | nil => rfl
  | cons a l ih =>
    simp only [List.map_cons, pyIndexOf, pyEq_ref, ih, List.contains_cons, List.idxOf_cons]
    by_cases h : a = x
    · subst h; simp
    · have h' : ¬ x = a := fun e => h e.symm
      have hb : (a == x) = false := by simpa using h
      have hb' : (x == a) = false := by simpa using h'
      simp only [h, decide_false, Bool.false_eq_true, if_false, hb', hb, Bool.false_or, cond_false]
      cases l.contains x <;> simp

theorem any_ref_pyEq_none (l : List Uid) : (l.map Atom.ref).any (fun v => v.pyEq Atom.none) = false := by
  induction l with
  | nil => rfl
  | cons a l ih => simp [pyEq_ref_none, ih]

theorem upd_upd {β : Type} (f : Uid → β) (k : Uid) (v w : β) : upd (upd f k v) k w = upd f k w := by
  funext x; by_cases h : x = k <;> simp [upd, h]

/-- the state with the children list of `h` replaced -/
def sw (s : G) (h : Uid) (l : List Uid) : G := { s with children := upd s.children h l }

theorem sw_children (s : G) (h : Uid) (l : List Uid) : (sw s h l).children h = l := by simp [sw]
theorem sw_sw (s : G) (h : Uid) (l l' : List Uid) : sw (sw s h l) h l' = sw s h l' := by
  simp only [sw, upd_upd]
theorem sw_self (s : G) (h : Uid) : sw s h (s.children h) = s := by
  have : upd s.children h (s.children h) = s.children := by
    funext x; by_cases hx : x = h <;> simp [upd, hx]
  simp only [sw, this]

theorem heapSet_sw (s : G) (h : Uid) (l l' : List Uid) :
    heapSet (encHeap (sw s h l)) h "children" (refs l') = encHeap (sw s h l') := by
  rw [heapSet_children]
  exact congrArg encHeap (sw_sw s h l l')

/-! ### `Task.__set_children` -/

theorem tf_set_children : facadeFuns fn_Task_set_children = some (src_Task_set_children_params, src_Task_set_children) :=
  rfl

/-- `h.__set_children(l)`: `h.__children = l` -/
theorem set_children_spec (L : Lib) (s : G) (st : PState) (hh : st.heap = encHeap s) (F : Nat) (h : Uid) (l : List Uid) :
    (Hf L (F + 1)).fnV fn_Task_set_children [.atom (.ref h), refs l] st =
      .ok (.atom .none, withG st (sw s h l)) := by
  rw [fnVf_succ _ _ _ _ _ tf_set_children]
  unfold sw
  have hset := heapSet_children s h l
  pyl [src_Task_set_children_params, src_Task_set_children, hh, hset, mk_withG]

/-! ### `_ChildrenList.move` -/

theorem tf_ch_move : facadeFuns fn_ChildrenList_move = some (src_ChildrenList_move_params, src_ChildrenList_move) := rfl

def mvL1 : Stmt := match src_ChildrenList_move with | _ :: l :: _ => l | _ => .pass
def mvB1 : List Stmt := match mvL1 with | .forIn _ _ b => b | _ => []
def mvChecks : List Stmt := (src_ChildrenList_move.drop 2).take 5
def mvL2 : Stmt := match src_ChildrenList_move.drop 7 with | l :: _ => l | _ => .pass
def mvB2 : List Stmt := match mvL2 with | .forIn _ _ b => b | _ => []
def mvLast : Stmt := match src_ChildrenList_move.drop 8 with | l :: _ => l | _ => .pass

theorem mv_shape : src_ChildrenList_move =
    .assign "tasks" (.callFn fn_to_list (.listCons (.var "tasks") .listNil)) :: mvL1 :: (mvChecks ++ [mvL2, mvLast]) := rfl
theorem mvL1_eq : mvL1 = .forIn "task" (.var "tasks") mvB1 := rfl
theorem mvL2_eq : mvL2 = .forIn "task" (.var "tasks") mvB2 := rfl

/-- the local environment of `move` after `tasks = _to_list(tasks)` -/
structure MvEnv (ρ : PyLite.Env) (h : Uid) (ts : List Uid) (b a : Option Uid) : Prop where
  owner : ρ.get? "_facade_parent" = some (.atom (.ref h))
  tasks : ρ.get? "tasks" = some (refs ts)
  before : ρ.get? "before" = some (.atom (optRef b))
  after : ρ.get? "after" = some (.atom (optRef a))

theorem MvEnv.set {ρ : PyLite.Env} {h : Uid} {ts : List Uid} {b a : Option Uid} (hρ : MvEnv ρ h ts b a) (v : Val) :
    MvEnv (ρ.set "task" v) h ts b a :=
  ⟨by rw [Env.get?_set, if_neg (by decide)]; exact hρ.owner, by rw [Env.get?_set, if_neg (by decide)]; exact hρ.tasks,
   by rw [Env.get?_set, if_neg (by decide)]; exact hρ.before, by rw [Env.get?_set, if_neg (by decide)]; exact hρ.after⟩

def mvChk (l : List Uid) : Atom → Option Err
  | .ref c => if l.contains c then none else some .runtime
  | _ => none

theorem findSome_mvChk (l ts : List Uid) :
    (ts.map Atom.ref).findSome? (mvChk l) = if ts.any (fun t => !l.contains t) then some .runtime else none := by
  induction ts with
  | nil => rfl
  | cons t ts ih =>
    simp only [List.map_cons, List.findSome?_cons, mvChk, List.any_cons, ih]
    by_cases hc : t ∈ l <;> simp [hc]

/-- `pyl` without the lemmas that read the encoded store (the caller supplies the reads) -/
syntax "pyl0" (" [" Lean.Parser.Tactic.simpLemma,* "]")? : tactic
macro_rules
  | `(tactic| pyl0) => `(tactic| pyl0 [])
  | `(tactic| pyl0 [$ls,*]) => `(tactic|
      simp [callPV_eq, bindParamsV, execBlockP, Stmt.execP, Expr.evalP, Expr.evalArgsP, iterOf, truthP, arithP, arith, arithTime,
        PyLite.compare, cmpRat, Atom.asNum?, pure, Except.pure, bind, Except.bind,
        throw, throwThe, MonadExceptOf.throw, Env.get?_set, Env.get?_cons, Env.get?_nil, encHeap_apply, $ls,*])

section move
variable (L : Lib) (s : G) (st : PState) (hh : st.heap = encHeap s) (h : Uid) (ts : List Uid) (b a : Option Uid) (F : Nat)
include hh

/-- the first loop: every task to move is a child -/
theorem mv_l1 (ρ : PyLite.Env) (hρ : MvEnv ρ h ts b a) :
    if ts.any (fun t => !(s.children h).contains t) then mvL1.execP (Hf L F) [] noRec ρ st = .raise .runtime
    else ∃ ρ', MvEnv ρ' h ts b a ∧ mvL1.execP (Hf L F) [] noRec ρ st = .normal ρ' st := by
  rw [mvL1_eq, execP_forIn (vs := ts.map Atom.ref) (st' := st) (hit := by pyl [hρ.tasks, refs])]
  have := forLoopP_check "task" (fun ρ st => execBlockP (Hf L F) [] noRec mvB1 ρ st) (fun ρ => MvEnv ρ h ts b a)
    (mvChk (s.children h)) st (ts.map Atom.ref)
    (by
      intro ρ v hv hP
      obtain ⟨c, _, rfl⟩ := List.mem_map.1 hv
      have hP' := hP.set (.atom (.ref c))
      have hcv : (Env.set ρ "task" (.atom (.ref c))).get? "task" = some (.atom (.ref c)) := by rw [Env.get?_set, if_pos rfl]
      have hany := any_ref_pyEq (s.children h) c
      simp only [mvChk]
      cases hc : (s.children h).contains c with
      | true =>
        rw [hc] at hany
        refine ⟨_, hP', ?_⟩
        pyl [mvB1, mvL1, src_ChildrenList_move, hcv, hP'.owner, hh, refs, hany]
      | false =>
        rw [hc] at hany
        simp only [Bool.false_eq_true, if_false]
        pyl [mvB1, mvL1, src_ChildrenList_move, hcv, hP'.owner, hh, refs, hany])
    ρ hρ
  rw [findSome_mvChk] at this
  split
  · rename_i hc; rw [if_pos hc] at this; exact this
  · rename_i hc; rw [if_neg hc] at this; exact this

/-- what the five `if` statements of `move` reject -/
def mvBad (l ts : List Uid) (b a : Option Uid) : Bool :=
  (match b with | some x => !l.contains x | none => false) ||
  (match a with | some x => !l.contains x | none => false) ||
  (b.isSome && a.isSome) || (b.isNone && a.isNone) ||
  ((match b with | some x => ts.contains x | none => false) || (match a with | some x => ts.contains x | none => false))

theorem mv_checks (ρ : PyLite.Env) (hρ : MvEnv ρ h ts b a) :
    execBlockP (Hf L F) [] noRec mvChecks ρ st =
      if mvBad (s.children h) ts b a then .raise .runtime else .normal ρ st := by
  have ho := hρ.owner
  have ht := hρ.tasks
  have hb := hρ.before
  have ha := hρ.after
  have hchild := encTask_children s h
  simp only [refs] at ht hchild
  have e1 := fun x => any_ref_pyEq (s.children h) x
  have e2 := fun x => any_ref_pyEq ts x
  have e3 := any_ref_pyEq_none ts
  generalize (s.children h).map Atom.ref = Lc at hchild e1
  generalize ts.map Atom.ref = Lt at ht e2 e3
  unfold mvChecks mvBad
  simp only [src_ChildrenList_move, List.drop, List.take]
  cases b with
  | none =>
    cases a with
    | none => pyl0 [ho, ht, hb, ha, hh, hchild, e1, e2, e3]
    | some y =>
      by_cases h1 : y ∈ s.children h <;> by_cases h2 : y ∈ ts <;>
        pyl0 [ho, ht, hb, ha, hh, hchild, e1, e2, e3, h1, h2]
  | some x =>
    cases a with
    | none =>
      by_cases h1 : x ∈ s.children h <;> by_cases h2 : x ∈ ts <;>
        pyl0 [ho, ht, hb, ha, hh, hchild, e1, e2, e3, h1, h2]
    | some y =>
      by_cases h1 : x ∈ s.children h <;> by_cases h3 : y ∈ s.children h <;>
        pyl0 [ho, ht, hb, ha, hh, hchild, e1, e2, e3, h1, h3]

end move

/-- the anchor of a validated `move`: `before` if given, else `after` -/
def anchorOf (b a : Option Uid) : Option Uid :=
  match b with
  | some x => some x
  | none => a

theorem mem_take_drop {α : Type} (l : List α) (i : Nat) (t y : α) :
    y ∈ l.take i ++ [t] ++ l.drop i ↔ y ∈ l ∨ y = t := by
  have h : y ∈ l ↔ y ∈ l.take i ∨ y ∈ l.drop i := by
    rw [← List.mem_append, List.take_append_drop]
  simp only [List.mem_append, List.mem_singleton, h]
  constructor
  · rintro ((h1 | h1) | h1)
    · exact Or.inl (Or.inl h1)
    · exact Or.inr h1
    · exact Or.inl (Or.inr h1)
  · rintro ((h1 | h1) | h1)
    · exact Or.inl (Or.inl h1)
    · exact Or.inr h1
    · exact Or.inl (Or.inr h1)

theorem mem_erase_or (l : List Uid) (t y : Uid) (ht : t ∈ l) : (y ∈ l.erase t ∨ y = t) ↔ y ∈ l := by
  by_cases hy : y = t
  · subst hy; simp [ht]
  · simp [hy, List.mem_erase_of_ne hy]

/-- a step of the move loop keeps the members of the list -/
theorem mem_moveOne (l : List Uid) (t : Uid) (b a : Option Uid) (x : Uid) (ht : t ∈ l) (hx : anchorOf b a = some x)
    (y : Uid) : y ∈ moveOne l t b a ↔ y ∈ l := by
  unfold moveOne
  cases b with
  | some b' => simp only [mem_take_drop, mem_erase_or l t y ht]
  | none =>
    cases a with
    | some a' => simp only [mem_take_drop, mem_erase_or l t y ht]
    | none => simp [anchorOf] at hx

section moveLoop
variable (L : Lib) (s : G) (st : PState) (h : Uid) (ts : List Uid) (b a : Option Uid) (F : Nat)

theorem withG_setHeap (st : PState) (g g' : G) (X : Nat → PyLite.Env) (e : X = encHeap g') :
    ({ (withG st g) with heap := X } : PState) = withG st g' := by subst e; rfl

theorem withG_setHeap2 (st : PState) (g g' : G) (i : Nat) (f : String) (v : Val)
    (e : heapSet (encHeap g) i f v = encHeap g') :
    ({ (withG st g) with heap := heapSet (withG st g).heap i f v } : PState) = withG st g' := by
  simp only [withG_heap, e]; rfl

theorem evalP_isNotNone_var (H : PHandlers) (self ρ : PyLite.Env) (st : PState) (x : String) (v : Val)
    (hx : ρ.get? x = some v) :
    (Expr.isNotNone (.var x)).evalP H self ρ st = .ok (.atom (.bool (!decide (v = .atom .none))), st) := by
  simp only [Expr.evalP, hx, bind, Except.bind, pure, Except.pure]

theorem arithP_add_num (x y : Rat) :
    arithP .add (.atom (.num x)) (.atom (.num y)) = .ok (.atom (.num (x + y))) := by
  simp [arithP, arith, arithTime, Atom.asNum?, pure, Except.pure]

theorem evalP_bin (H : PHandlers) (self ρ : PyLite.Env) (st st' st'' : PState) (op : BinOp) (a b : Expr) (x y r : Val)
    (ha : a.evalP H self ρ st = .ok (x, st')) (hb : b.evalP H self ρ st' = .ok (y, st''))
    (hr : arithP op x y = .ok r) :
    (Expr.bin op a b).evalP H self ρ st = .ok (r, st'') := by
  simp only [Expr.evalP, ha, hb, hr, bind, Except.bind, pure, Except.pure]

theorem evalP_indexOf (H : PHandlers) (self ρ : PyLite.Env) (st st1 st2 : PState) (l e : Expr) (vs : List Atom) (a : Atom)
    (n : Nat) (hl : l.evalP H self ρ st = .ok (.list vs, st1)) (he : e.evalP H self ρ st1 = .ok (.atom a, st2))
    (hi : pyIndexOf vs a = some n) :
    (Expr.indexOf l e).evalP H self ρ st = .ok (.atom (.num ((n : Nat) : Rat)), st2) := by
  simp only [Expr.evalP, hl, he, hi, bind, Except.bind, pure, Except.pure]

theorem evalP_listInsert (H : PHandlers) (self ρ : PyLite.Env) (st st1 st2 st3 : PState) (l i e : Expr) (vs : List Atom)
    (a x : Atom) (j : Int) (hl : l.evalP H self ρ st = .ok (.list vs, st1)) (hi : i.evalP H self ρ st1 = .ok (.atom a, st2))
    (he : e.evalP H self ρ st2 = .ok (.atom x, st3)) (hj : a.asInt? = some j) :
    (Expr.listInsert l i e).evalP H self ρ st = .ok (.list (pyInsertA vs j x), st3) := by
  simp only [Expr.evalP, hl, hi, he, hj, bind, Except.bind, pure, Except.pure]

/-- one iteration of the move loop: `self._list.remove(task)`, then `insert` before / after the anchor -/
theorem mv_body (ρ : PyLite.Env) (hρ : MvEnv ρ h ts b a) (cur : List Uid) (t x : Uid) (ht : t ∈ cur)
    (hx : anchorOf b a = some x) (hxc : x ∈ cur) (hxt : x ≠ t) :
    execBlockP (Hf L F) [] noRec mvB2 (ρ.set "task" (.atom (.ref t))) (withG st (sw s h cur)) =
      .normal (ρ.set "task" (.atom (.ref t))) (withG st (sw s h (moveOne cur t b a))) := by
  have hP := hρ.set (.atom (.ref t))
  have ho := hP.owner
  have hb := hP.before
  have ha := hP.after
  have hcv : (Env.set ρ "task" (.atom (.ref t))).get? "task" = some (.atom (.ref t)) := by rw [Env.get?_set, if_pos rfl]
  generalize Env.set ρ "task" (.atom (.ref t)) = ρ' at ho hb ha hcv
  have hchild : (encTask (sw s h cur) h).get? "children" = some (.list (cur.map Atom.ref)) := by
    rw [encTask_children, sw_children]; rfl
  have her : pyErase (cur.map Atom.ref) (.ref t) = some ((cur.erase t).map Atom.ref) := by
    rw [pyErase_refs]; simp [ht]
  have hset1 : heapSet (encHeap (sw s h cur)) h "children" (.list ((cur.erase t).map Atom.ref)) =
      encHeap (sw s h (cur.erase t)) := heapSet_sw s h cur (cur.erase t)
  have hx1 : x ∈ cur.erase t := (List.mem_erase_of_ne hxt).2 hxc
  have hidx : pyIndexOf ((cur.erase t).map Atom.ref) (.ref x) = some ((cur.erase t).idxOf x) := by
    rw [pyIndexOf_refs]; simp [hx1]
  have hlt : (cur.erase t).idxOf x < (cur.erase t).length := List.idxOf_lt_length_of_mem hx1
  -- self._list.remove(task)
  have hrem : (Stmt.attrRemove (.var "_facade_parent") "children" (.var "task")).execP (Hf L F) [] noRec ρ'
      (withG st (sw s h cur)) = .normal ρ' (withG st (sw s h (cur.erase t))) := by
    simp only [Stmt.execP, Expr.evalP, ho, hcv, bind, Except.bind, pure, Except.pure, withG_heap, encHeap_apply, hchild, her]
    rw [withG_setHeap st _ _ _ hset1]
  generalize hl1 : cur.erase t = l1 at hrem hx1 hidx hlt
  generalize hst1 : withG st (sw s h l1) = st1 at hrem
  have hheap1 : st1.heap = encHeap (sw s h l1) := by rw [← hst1]; rfl
  have hlist : (Expr.attr (.var "_facade_parent") "children").evalP (Hf L F) [] ρ' st1 = .ok (.list (l1.map Atom.ref), st1) := by
    have := evalP_attr_children (Hf L F) [] ρ' (sw s h l1) st1 hheap1 "_facade_parent" h ho
    rw [sw_children] at this; exact this
  have hfin : ∀ (e : Expr) (l2 : List Uid), e.evalP (Hf L F) [] ρ' st1 = .ok (.list (l2.map Atom.ref), st1) →
      (Stmt.setAttr (.var "_facade_parent") "children" e).execP (Hf L F) [] noRec ρ' st1 =
        .normal ρ' (withG st (sw s h l2)) := by
    intro e l2 he
    rw [execP_setAttr (he := he) (ho := evalP_var _ _ _ _ _ _ ho)]
    subst hst1
    exact congrArg (OutcomeP.normal ρ') (withG_setHeap2 st _ _ _ _ _ (heapSet_sw s h l1 l2))
  unfold moveOne
  simp only [hl1]
  unfold mvB2 mvL2
  simp only [src_ChildrenList_move, List.drop]
  rw [execBlockP_cons, hrem]
  simp only []
  cases b with
  | some b' =>
    have hbx : b' = x := by simpa [anchorOf] using hx
    subst hbx
    simp only [optRef_some] at hb
    have hi := evalP_indexOf (Hf L F) [] ρ' st1 st1 st1 _ (.var "before") _ _ _ hlist (evalP_var _ _ _ _ _ _ hb) hidx
    have hins := evalP_listInsert (Hf L F) [] ρ' st1 st1 st1 st1 _ _ (.var "task") _ _ _ _ hlist hi
      (evalP_var _ _ _ _ _ _ hcv) (asInt?_nat _)
    rw [pyInsertA_nat _ _ _ (by simpa using Nat.le_of_lt hlt)] at hins
    have hmap : List.take (l1.idxOf b') (l1.map Atom.ref) ++ [Atom.ref t] ++ List.drop (l1.idxOf b') (l1.map Atom.ref) =
        (l1.take (l1.idxOf b') ++ [t] ++ l1.drop (l1.idxOf b')).map Atom.ref := by
      simp [List.map_take, List.map_drop]
    rw [hmap] at hins
    have hfin' := hfin _ _ hins
    rw [execBlockP_cons, execP_ifElse (hc := evalP_isNotNone_var _ _ _ _ _ _ hb) (hb := rfl)]
    simp [execBlockP_cons, hfin', execBlockP_nil]
  | none =>
    have hax : a = some x := by simpa [anchorOf] using hx
    subst hax
    simp only [optRef_some, optRef_none] at hb ha
    have hi := evalP_indexOf (Hf L F) [] ρ' st1 st1 st1 _ (.var "after") _ _ _ hlist (evalP_var _ _ _ _ _ _ ha) hidx
    have hi1 : (Expr.bin .add (.indexOf (.attr (.var "_facade_parent") "children") (.var "after")) (.num 1)).evalP
        (Hf L F) [] ρ' st1 = .ok (.atom (.num ((l1.idxOf x + 1 : Nat) : Rat)), st1) := by
      rw [evalP_bin (ha := hi) (hb := evalP_num _ _ _ _ _) (hr := arithP_add_num _ _), natCast_succ_rat]
    have hins := evalP_listInsert (Hf L F) [] ρ' st1 st1 st1 st1 _ _ (.var "task") _ _ _ _ hlist hi1
      (evalP_var _ _ _ _ _ _ hcv) (asInt?_nat _)
    rw [pyInsertA_nat _ _ _ (by simp only [List.length_map]; exact hlt)] at hins
    have hmap : List.take (l1.idxOf x + 1) (l1.map Atom.ref) ++ [Atom.ref t] ++ List.drop (l1.idxOf x + 1) (l1.map Atom.ref) =
        (l1.take (l1.idxOf x + 1) ++ [t] ++ l1.drop (l1.idxOf x + 1)).map Atom.ref := by
      simp [List.map_take, List.map_drop]
    rw [hmap] at hins
    have hfin' := hfin _ _ hins
    rw [execBlockP_cons, execP_ifElse (hc := evalP_isNotNone_var _ _ _ _ _ _ hb) (hb := rfl)]
    simp only [decide_true, Bool.not_true, Bool.false_eq_true, if_false]
    rw [execBlockP_cons, execP_ifElse (hc := evalP_isNotNone_var _ _ _ _ _ _ ha) (hb := rfl)]
    simp [execBlockP_cons, hfin', execBlockP_nil]

/-- the move loop = the fold of `moveOne` -/
theorem mv_loop (x : Uid) (hx : anchorOf b a = some x) :
    ∀ (ts' cur : List Uid), (∀ t ∈ ts', t ∈ cur) → x ∈ cur → x ∉ ts' → ∀ ρ, MvEnv ρ h ts b a →
      ∃ ρ', MvEnv ρ' h ts b a ∧
        forLoopP "task" (fun ρ st => execBlockP (Hf L F) [] noRec mvB2 ρ st) (ts'.map Atom.ref) ρ (withG st (sw s h cur)) =
          .normal ρ' (withG st (sw s h (ts'.foldl (fun acc t => moveOne acc t b a) cur))) := by
  intro ts'
  induction ts' with
  | nil => intro cur _ _ _ ρ hρ; exact ⟨ρ, hρ, rfl⟩
  | cons t ts' ih =>
    intro cur hmem hxc hxn ρ hρ
    have ht : t ∈ cur := hmem t List.mem_cons_self
    have hxt : x ≠ t := fun e => hxn (by rw [e]; exact List.mem_cons_self)
    have hbody := mv_body L s st h ts b a F ρ hρ cur t x ht hx hxc hxt
    obtain ⟨ρ', hρ', hl⟩ := ih (moveOne cur t b a)
      (fun t' ht' => (mem_moveOne cur t b a x ht hx t').2 (hmem t' (List.mem_cons_of_mem _ ht')))
      ((mem_moveOne cur t b a x ht hx x).2 hxc) (fun hc => hxn (List.mem_cons_of_mem _ hc))
      (ρ.set "task" (.atom (.ref t))) (hρ.set _)
    refine ⟨ρ', hρ', ?_⟩
    simp only [List.map_cons, forLoopP, hbody, List.foldl_cons]
    exact hl

end moveLoop

theorem chMove_eq (s : G) (h : Uid) (ts : List Uid) (b a : Option Uid) :
    chMove s h ts b a =
      if ts.any (fun t => !(s.children h).contains t) then (s, some .runtime)
      else if mvBad (s.children h) ts b a then (s, some .runtime)
      else (sw s h (ts.foldl (fun acc t => moveOne acc t b a) (s.children h)), none) := by
  unfold chMove mvBad sw
  dsimp only
  by_cases h0 : (ts.any fun t => !(s.children h).contains t) = true
  · simp only [h0, if_true]
  · simp only [h0, if_false]
    cases b <;> cases a <;> simp <;> (repeat' split) <;> simp_all

theorem mvBad_anchor (l ts : List Uid) (b a : Option Uid) (hb : mvBad l ts b a = false) :
    ∃ x, anchorOf b a = some x ∧ x ∈ l ∧ x ∉ ts := by
  cases b <;> cases a <;> simp [mvBad, anchorOf] at hb ⊢
  · exact hb
  · exact hb

theorem tf_mvLast : mvLast = .expr (.callFn fn_Task_set_children
    (.listCons (.var "_facade_parent") (.listCons (.attr (.var "_facade_parent") "children") .listNil))) := rfl

/-- STAGE 2.  `h.children.move(v, before=b, after=a)` = `chMove`, for EVERY state `s`: no recursion is involved, any
    limit `F ≥ 3` will do -/
theorem ch_move_spec (L : Lib) (s : G) (st : PState) (hh : st.heap = encHeap s) (h : Uid) (v : Val) (ts : List Uid)
    (hv : ValueOf v ts) (b a : Option Uid) (F : Nat) (hF : 3 ≤ F) :
    (Hf L F).fnV fn_ChildrenList_move [.atom (.ref h), v, .atom (optRef b), .atom (optRef a)] st =
      opResult st (.atom .none) (chMove s h ts b a) := by
  obtain ⟨F, rfl⟩ : ∃ F', F = F' + 3 := ⟨F - 3, by omega⟩
  rw [fnVf_succ _ _ _ _ _ tf_ch_move, callPV_eq]
  simp only [src_ChildrenList_move_params, bindParamsV, pure, Except.pure, bind, Except.bind, mv_shape]
  rw [execBlockP_cons, execP_assign (he := by
    rw [evalP_callFn1 (ha := evalP_var _ _ _ _ _ _ rfl)]; exact to_list_f L hv st (F + 1))]
  simp only []
  have hρ : MvEnv (Env.set [("_facade_parent", Val.atom (Atom.ref h)), ("tasks", v), ("before", Val.atom (optRef b)),
      ("after", Val.atom (optRef a))] "tasks" (refs ts)) h ts b a :=
    ⟨by simp [Env.get?_set, Env.get?_cons], by simp [Env.get?_set, Env.get?_cons],
     by simp [Env.get?_set, Env.get?_cons], by simp [Env.get?_set, Env.get?_cons]⟩
  generalize Env.set [("_facade_parent", Val.atom (Atom.ref h)), ("tasks", v), ("before", Val.atom (optRef b)),
      ("after", Val.atom (optRef a))] "tasks" (refs ts) = ρ at hρ
  rw [chMove_eq]
  have h1 := mv_l1 L s st hh h ts b a (F + 2) ρ hρ
  rw [execBlockP_cons]
  by_cases c0 : (ts.any fun t => !(s.children h).contains t) = true
  · rw [if_pos c0] at h1 ⊢
    simp only [h1, opResult]
  · rw [if_neg c0] at h1 ⊢
    obtain ⟨ρ1, hρ1, h1⟩ := h1
    simp only [h1]
    rw [execBlockP_append, mv_checks L s st hh h ts b a (F + 2) ρ1 hρ1]
    cases hbad : mvBad (s.children h) ts b a with
    | true => simp only [if_true, opResult]
    | false =>
      simp only [Bool.false_eq_true, if_false]
      obtain ⟨x, hx, hxl, hxt⟩ := mvBad_anchor _ _ _ _ hbad
      have hmem : ∀ t ∈ ts, t ∈ s.children h := by
        intro t ht
        have := c0
        simp only [List.any_eq_true, not_exists, not_and] at this
        have := this t ht
        simpa using this
      obtain ⟨ρ2, hρ2, hl⟩ := mv_loop L s st h ts b a (F + 2) x hx ts (s.children h) hmem hxl hxt ρ1 hρ1
      rw [sw_self, withG_self st s hh] at hl
      rw [execBlockP_cons, mvL2_eq, execP_forIn (vs := ts.map Atom.ref) (st' := st)
        (hit := by pyl [hρ1.tasks, refs]), hl]
      simp only []
      generalize hfin : ts.foldl (fun acc t => moveOne acc t b a) (s.children h) = fin
      have hset := set_children_spec L (sw s h fin) (withG st (sw s h fin)) rfl (F + 1) h fin
      rw [sw_sw, withG_withG] at hset
      have hlist := evalP_attr_children (Hf L (F + 2)) [] ρ2 (sw s h fin) (withG st (sw s h fin)) rfl "_facade_parent" h
        hρ2.owner
      rw [sw_children] at hlist
      rw [execBlockP_cons, tf_mvLast, execP_expr (he := by
        rw [evalP_callFn2 (ha := evalP_var _ _ _ _ _ _ hρ2.owner) (hb := hlist)]; exact hset)]
      simp only [execBlockP_nil, opResult]

/-! ### `_ChildrenList.reorder` -/

theorem nextLoopP_pure (f : Atom → PState → Res (Option Atom × PState)) (g : Atom → Option Atom) (st : PState)
    (vs : List Atom) (h : ∀ v ∈ vs, f v st = .ok (g v, st)) :
    nextLoopP f vs st = .ok (vs.findSome? g, st) := by
  induction vs with
  | nil => rfl
  | cons v vs ih =>
    have h1 := h v List.mem_cons_self
    have h2 := ih (fun w hw => h w (List.mem_cons_of_mem _ hw))
    simp only [nextLoopP, h1, bind, Except.bind, List.findSome?_cons]
    cases g v with
    | some a => rfl
    | none => simpa using h2

/-- `next(elt for x in it if cond)` whose condition and element only read -/
theorem evalP_nextComp_pure (H : PHandlers) (self ρ : PyLite.Env) (st0 st : PState) (elt cond it : Expr) (x : String)
    (vs : List Atom) (p : Atom → Bool) (e : Atom → Atom)
    (hit : it.evalP H self ρ st0 = .ok (.list vs, st))
    (hc : ∀ v ∈ vs, cond.evalP H self (ρ.set x v) st = .ok (.atom (.bool (p v)), st))
    (he : ∀ v ∈ vs, p v = true → elt.evalP H self (ρ.set x v) st = .ok (.atom (e v), st)) :
    (Expr.nextComp elt x it cond).evalP H self ρ st0 =
      match vs.find? p with
      | some v => .ok (.atom (e v), st)
      | none => .error (.crash .stopIteration) := by
  simp only [Expr.evalP, hit, bind, Except.bind, pure, Except.pure, iterOf]
  rw [nextLoopP_pure (g := fun v => if p v then some (e v) else none)]
  · have key : vs.findSome? (fun v => if p v then some (e v) else none) = (vs.find? p).map e := by
      clear hc he hit
      induction vs with
      | nil => rfl
      | cons v vs ih => cases hp : p v <;> simp [hp, ih]
    rw [key]
    cases vs.find? p <;> rfl
  · intro v hv
    cases hp : p v with
    | false => simp [hc v hv, hp, truthP, pure, Except.pure]
    | true => simp [hc v hv, he v hv hp, hp, truthP, pure, Except.pure]

def hasId (s : G) (i : Int) : Atom → Bool
  | .ref c => s.tid c == i
  | _ => false

theorem find?_hasId (s : G) (i : Int) (l : List Uid) :
    (l.map Atom.ref).find? (hasId s i) = (l.find? (fun t => s.tid t == i)).map Atom.ref := by
  induction l with
  | nil => rfl
  | cons a l ih =>
    simp only [List.map_cons, List.find?_cons, hasId, ih]
    cases s.tid a == i <;> rfl

theorem tf_ch_reorder : facadeFuns fn_ChildrenList_reorder =
    some (src_ChildrenList_reorder_params, src_ChildrenList_reorder) := rfl

def roLoop : Stmt := match src_ChildrenList_reorder.drop 3 with | l :: _ => l | _ => .pass
def roBody : List Stmt := match roLoop with | .forIn _ _ b => b | _ => []
def roTail : List Stmt := src_ChildrenList_reorder.drop 4
theorem ro_shape : src_ChildrenList_reorder =
    [.ifElse (.isNone (.fnRef fn_Task_set_children)) [.raiseRuntime] [],
     .assign "_all" (.listOf (.attr (.var "_facade_parent") "children")),
     .assign "new_list" .listNil, roLoop] ++ roTail := rfl
theorem roLoop_eq : roLoop = .forIn "_id" (.var "ids") roBody := rfl

/-- the local environment of `reorder` inside its loop -/
structure RoEnv (ρ : PyLite.Env) (h : Uid) (new rest : List Uid) : Prop where
  owner : ρ.get? "_facade_parent" = some (.atom (.ref h))
  all : ρ.get? "_all" = some (refs rest)
  new : ρ.get? "new_list" = some (refs new)

section reorder
variable (L : Lib) (s : G) (st : PState) (hh : st.heap = encHeap s) (h : Uid) (F : Nat)
include hh

/-- one iteration: the first child with the id, appended to `new_list`, removed from `_all` -/
theorem ro_body (ρ : PyLite.Env) (new rest : List Uid) (hρ : RoEnv ρ h new rest) (i : Int) :
    match (s.children h).find? (fun t => s.tid t == i) with
    | none => execBlockP (Hf L F) [] noRec roBody (ρ.set "_id" (.atom (idA i))) st = .raise (.crash .stopIteration)
    | some ch =>
      if rest.contains ch then
        ∃ ρ', RoEnv ρ' h (new ++ [ch]) (rest.erase ch) ∧
          execBlockP (Hf L F) [] noRec roBody (ρ.set "_id" (.atom (idA i))) st = .normal ρ' st
      else execBlockP (Hf L F) [] noRec roBody (ρ.set "_id" (.atom (idA i))) st = .raise (.crash .value) := by
  have ho : (Env.set ρ "_id" (.atom (idA i))).get? "_facade_parent" = some (.atom (.ref h)) := by
    rw [Env.get?_set, if_neg (by decide)]; exact hρ.owner
  have hall : (Env.set ρ "_id" (.atom (idA i))).get? "_all" = some (refs rest) := by
    rw [Env.get?_set, if_neg (by decide)]; exact hρ.all
  have hnew : (Env.set ρ "_id" (.atom (idA i))).get? "new_list" = some (refs new) := by
    rw [Env.get?_set, if_neg (by decide)]; exact hρ.new
  have hid : (Env.set ρ "_id" (.atom (idA i))).get? "_id" = some (.atom (idA i)) := by rw [Env.get?_set, if_pos rfl]
  generalize Env.set ρ "_id" (.atom (idA i)) = ρ1 at ho hall hnew hid
  have hnext := evalP_nextComp_pure (Hf L F) [] ρ1 st st (.var "t") (.cmp .eq (.attr (.var "t") "id") (.var "_id"))
    (.attr (.var "_facade_parent") "children") "t" ((s.children h).map Atom.ref) (hasId s i) (fun a => a)
    (evalP_attr_children _ _ _ s st hh _ h ho)
    (by
      intro v hv
      obtain ⟨c, _, rfl⟩ := List.mem_map.1 hv
      pyl [hid, hh, pyEq_idA, hasId] <;> rfl)
    (by
      intro v _ _
      simp [Expr.evalP, Env.get?_set, pure, Except.pure])
  rw [find?_hasId] at hnext
  unfold roBody roLoop
  simp only [src_ChildrenList_reorder, List.drop]
  cases hf : (s.children h).find? (fun t => s.tid t == i) with
  | none =>
    rw [hf] at hnext
    simp only [Option.map_none] at hnext
    simp only [execBlockP, Stmt.execP, hnext]
  | some ch =>
    rw [hf] at hnext
    simp only [Option.map_some] at hnext
    have her := pyErase_refs rest ch
    simp only [refs] at hall hnew
    cases hc : rest.contains ch with
    | true =>
      rw [hc] at her
      simp only [if_true] at her
      simp only [hc, if_true]
      refine ⟨Env.set (Env.set (Env.set ρ1 "ch" (.atom (.ref ch))) "new_list" (refs (new ++ [ch]))) "_all"
        (refs (rest.erase ch)), ⟨?_, ?_, ?_⟩, ?_⟩
      · simp [Env.get?_set, ho]
      · simp [Env.get?_set]
      · simp [Env.get?_set]
      · pyl0 [↓hnext, hall, hnew, her, refs]
    | false =>
      rw [hc] at her
      simp only [Bool.false_eq_true, if_false] at her
      simp only [hc, Bool.false_eq_true, if_false]
      pyl0 [↓hnext, hall, hnew, her, refs]

/-- the loop of `reorder` = `reorderLoop` -/
theorem ro_loop : ∀ (ids : List Int) (new rest : List Uid) (ρ : PyLite.Env), RoEnv ρ h new rest →
    match reorderLoop s (s.children h) ids new rest with
    | .ok fin => ∃ ρ' new' rest', RoEnv ρ' h new' rest' ∧ new' ++ rest' = fin ∧
        forLoopP "_id" (fun ρ st => execBlockP (Hf L F) [] noRec roBody ρ st) (ids.map idA) ρ st = .normal ρ' st
    | .error e =>
        forLoopP "_id" (fun ρ st => execBlockP (Hf L F) [] noRec roBody ρ st) (ids.map idA) ρ st = .raise e := by
  intro ids
  induction ids with
  | nil => intro new rest ρ hρ; exact ⟨ρ, new, rest, hρ, rfl, rfl⟩
  | cons i ids ih =>
    intro new rest ρ hρ
    have hb := ro_body L s st hh h F ρ new rest hρ i
    simp only [reorderLoop, List.map_cons, forLoopP]
    cases hf : (s.children h).find? (fun t => s.tid t == i) with
    | none =>
      rw [hf] at hb
      simp only [] at hb
      simp only [hb]
      rfl
    | some ch =>
      rw [hf] at hb
      simp only [] at hb
      cases hc : rest.contains ch with
      | false =>
        simp only [hc, Bool.false_eq_true, if_false] at hb ⊢
        simp only [hb]
        rfl
      | true =>
        simp only [hc, if_true] at hb ⊢
        obtain ⟨ρ', hρ', hbody⟩ := hb
        simp only [hbody]
        exact ih _ _ ρ' hρ'

end reorder

/-- STAGE 2.  `h.children.reorder(ids)` = `chReorder`, for EVERY state `s`: an unknown id ends in StopIteration, a
    repeated one in ValueError (`_all.remove(ch)`), on both sides; any limit `F ≥ 2` will do -/
theorem ch_reorder_spec (L : Lib) (s : G) (st : PState) (hh : st.heap = encHeap s) (h : Uid) (ids : List Int) (F : Nat)
    (hF : 2 ≤ F) :
    (Hf L F).fnV fn_ChildrenList_reorder [.atom (.ref h), .list (ids.map idA)] st =
      opResult st (.atom .none) (chReorder s h ids) := by
  obtain ⟨F, rfl⟩ : ∃ F', F = F' + 2 := ⟨F - 2, by omega⟩
  rw [fnVf_succ _ _ _ _ _ tf_ch_reorder, callPV_eq]
  simp only [src_ChildrenList_reorder_params, bindParamsV, pure, Except.pure, bind, Except.bind, ro_shape]
  rw [execBlockP_append]
  have hpre : execBlockP (Hf L (F + 1)) [] noRec
      [.ifElse (.isNone (.fnRef fn_Task_set_children)) [.raiseRuntime] [],
       .assign "_all" (.listOf (.attr (.var "_facade_parent") "children")),
       .assign "new_list" .listNil]
      [("_facade_parent", Val.atom (Atom.ref h)), ("ids", Val.list (ids.map idA))] st =
      .normal (Env.set (Env.set [("_facade_parent", Val.atom (Atom.ref h)), ("ids", Val.list (ids.map idA))] "_all"
        (refs (s.children h))) "new_list" (refs [])) st := by
    pyl [hh, refs]
  have hρ : RoEnv (Env.set (Env.set [("_facade_parent", Val.atom (Atom.ref h)), ("ids", Val.list (ids.map idA))] "_all"
      (refs (s.children h))) "new_list" (refs [])) h [] (s.children h) :=
    ⟨by simp [Env.get?_set, Env.get?_cons], by simp [Env.get?_set, Env.get?_cons], by simp [Env.get?_set, Env.get?_cons]⟩
  have hids : (Env.set (Env.set [("_facade_parent", Val.atom (Atom.ref h)), ("ids", Val.list (ids.map idA))] "_all"
      (refs (s.children h))) "new_list" (refs [])).get? "ids" = some (.list (ids.map idA)) := by
    simp [Env.get?_set, Env.get?_cons]
  generalize Env.set (Env.set [("_facade_parent", Val.atom (Atom.ref h)), ("ids", Val.list (ids.map idA))] "_all"
      (refs (s.children h))) "new_list" (refs []) = ρ at hpre hρ hids
  have hpre' : execBlockP (Hf L (F + 1)) [] noRec
      [.ifElse (.isNone (.fnRef fn_Task_set_children)) [.raiseRuntime] [],
       .assign "_all" (.listOf (.attr (.var "_facade_parent") "children")),
       .assign "new_list" .listNil, roLoop]
      [("_facade_parent", Val.atom (Atom.ref h)), ("ids", Val.list (ids.map idA))] st =
      roLoop.execP (Hf L (F + 1)) [] noRec ρ st := by
    have := execBlockP_append (Hf L (F + 1)) [] noRec
      [.ifElse (.isNone (.fnRef fn_Task_set_children)) [.raiseRuntime] [],
       .assign "_all" (.listOf (.attr (.var "_facade_parent") "children")),
       .assign "new_list" .listNil] [roLoop]
      [("_facade_parent", Val.atom (Atom.ref h)), ("ids", Val.list (ids.map idA))] st
    simp only [List.cons_append, List.nil_append, hpre] at this
    rw [this, execBlockP_cons]
    cases roLoop.execP (Hf L (F + 1)) [] noRec ρ st <;> simp [execBlockP_nil]
  rw [hpre', roLoop_eq, execP_forIn (vs := ids.map idA) (st' := st) (hit := evalP_var _ _ _ _ _ _ hids)]
  have hl := ro_loop L s st hh h (F + 1) ids [] (s.children h) ρ hρ
  unfold chReorder
  cases hr : reorderLoop s (s.children h) ids [] (s.children h) with
  | error e =>
    rw [hr] at hl
    simp only [hl, opResult]
  | ok fin =>
    rw [hr] at hl
    obtain ⟨ρ', new', rest', hρ', hfin, hl⟩ := hl
    simp only [hl, opResult]
    have hnew := hρ'.new
    have hall := hρ'.all
    have ho := hρ'.owner
    have hset1 := heapSet_sw s h (s.children h) fin
    rw [sw_self] at hset1
    have hset := set_children_spec L (sw s h fin) (withG st (sw s h fin)) rfl F h fin
    rw [sw_sw, withG_withG] at hset
    have hchild : (encTask (sw s h fin) h).get? "children" = some (.list (fin.map Atom.ref)) := by
      rw [encTask_children, sw_children]; rfl
    simp only [refs] at hnew hall hset1 hset
    subst hfin
    simp only [List.map_append] at hset1 hset hchild
    unfold roTail
    simp only [src_ChildrenList_reorder, List.drop]
    change _ = Except.ok (Val.atom Atom.none, withG st (sw s h (new' ++ rest')))
    pyl0 [hnew, hall, ho, hh, hset1, mk_withG, hchild, hset]

end Pj.FacadeSrc
