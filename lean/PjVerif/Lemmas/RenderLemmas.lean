/- Lemmas/RenderLemmas.lean — helper lemmas for Props/C19.lean -/
import PjVerif.Spec.Render
namespace Pj.Render

/-! ### `splitFirst`, `splitAt?` on concatenations -/

theorem splitFirst_append (c : Char) (a b : Str) (h : c ∉ a) : splitFirst c (a ++ c :: b) = some (a, b) := by
  induction a with
  | nil => simp [splitFirst]
  | cons x xs ih =>
    have hx : x ≠ c := fun e => h (by simp [e])
    have hxs : c ∉ xs := fun e => h (by simp [e])
    simp [splitFirst, hx, ih hxs]

theorem splitAt?_prefix (pat b : Str) (hp : pat ≠ []) : splitAt? pat (pat ++ b) = some ([], b) := by
  cases pat with
  | nil => exact absurd rfl hp
  | cons p ps =>
    have h : (p :: ps).isPrefixOf (p :: (ps ++ b)) = true := by
      rw [← List.cons_append, List.isPrefixOf_iff_prefix]; exact List.prefix_append _ _
    simp only [List.cons_append, splitAt?, h, if_true]
    simp

theorem splitAt?_cons_ne (p : Char) (ps : Str) (x : Char) (xs : Str) (h : x ≠ p) :
    splitAt? (p :: ps) (x :: xs) = (splitAt? (p :: ps) xs).map (fun q => (x :: q.1, q.2)) := by
  have : (p :: ps).isPrefixOf (x :: xs) = false := by
    rw [List.isPrefixOf_cons_cons]; simp [Ne.symm h]
  simp only [splitAt?, this]; rfl

/-- the pattern is found at its first occurrence when its first character does not occur before it -/
theorem splitAt?_append (pat a b : Str) (p : Char) (hp : pat.head? = some p) (h : p ∉ a) :
    splitAt? pat (a ++ pat ++ b) = some (a, b) := by
  cases pat with
  | nil => simp at hp
  | cons p' ps =>
    simp at hp; subst hp
    induction a with
    | nil => simpa using splitAt?_prefix (p' :: ps) b (by simp)
    | cons x xs ih =>
      have hx : x ≠ p' := fun e => h (by simp [e])
      have hxs : p' ∉ xs := fun e => h (by simp [e])
      have := ih hxs
      simp only [List.cons_append, List.append_assoc] at this ⊢
      rw [splitAt?_cons_ne _ _ _ _ hx, this]; rfl

theorem splitAt?_of_eq {pat s a b : Str} (p : Char) (hs : s = a ++ pat ++ b) (hp : pat.head? = some p) (h : p ∉ a) :
    splitAt? pat s = some (a, b) := hs ▸ splitAt?_append pat a b p hp h

/-! ### `linesOf` -/

def rawLines (s : Str) : List Str :=
  s.foldr (fun c (acc : List Str) => if c == '\n' then [] :: acc else match acc with
    | [] => [[c]]
    | x :: xs => (c :: x) :: xs) [[]]

theorem linesOf_eq (s : Str) : linesOf s = match (rawLines s).getLast? with
    | some [] => (rawLines s).dropLast
    | _ => rawLines s := rfl

theorem rawLines_ne_nil (s : Str) : rawLines s ≠ [] := by
  cases s with
  | nil => simp [rawLines]
  | cons c s =>
    simp only [rawLines, List.foldr_cons]
    split
    · simp
    · split <;> simp

theorem rawLines_line (a rest : Str) (h : '\n' ∉ a) : rawLines (a ++ '\n' :: rest) = a :: rawLines rest := by
  induction a with
  | nil => simp [rawLines]
  | cons x xs ih =>
    have hx : x ≠ '\n' := fun e => h (by simp [e])
    have hxs : '\n' ∉ xs := fun e => h (by simp [e])
    have := ih hxs
    unfold rawLines at this ⊢
    simp only [List.cons_append, List.foldr_cons, this]
    simp [hx]

theorem linesOf_nil : linesOf [] = [] := by decide

theorem linesOf_line (a rest : Str) (h : '\n' ∉ a) : linesOf (a ++ '\n' :: rest) = a :: linesOf rest := by
  rw [linesOf_eq, linesOf_eq, rawLines_line a rest h]
  have hne := rawLines_ne_nil rest
  cases hr : rawLines rest with
  | nil => exact absurd hr hne
  | cons y ys =>
    rw [List.getLast?_cons_cons, List.dropLast_cons_cons]
    split <;> rfl

theorem linesOf_flatten (ls : List Str) (h : ∀ l ∈ ls, '\n' ∉ l) :
    linesOf ((ls.map (· ++ ['\n'])).flatten) = ls := by
  induction ls with
  | nil => exact linesOf_nil
  | cons l ls ih =>
    simp only [List.map_cons, List.flatten_cons, List.append_assoc, List.singleton_append]
    rw [linesOf_line _ _ (h l (by simp)), ih (fun l hl => h l (by simp [hl]))]

/-! ### one Gantt task line -/

/-- the task line without its line break -/
def ganttBody (t : GTask) : Str :=
  lit "    " ++ t.name.filter (fun c => c != ':') ++ lit ": " ++ stateOf t ++ lit " id_" ++ t.idText ++ lit ", " ++ t.start ++ lit ", " ++ t.end_

theorem ganttLine_eq (t : GTask) : ganttLine t = ganttBody t ++ ['\n'] := by
  simp [ganttLine, ganttBody]

theorem ganttLine_dropLast (t : GTask) : (ganttLine t).dropLast = ganttBody t := by
  rw [ganttLine_eq]; simp

theorem stateOf_cases (t : GTask) :
    stateOf t = lit "milestone," ∨ stateOf t = lit "done," ∨ stateOf t = lit "active," ∨ stateOf t = [] := by
  unfold stateOf; cases t.milestone <;> cases t.done <;> cases t.active <;> simp

theorem blank_notin_stateOf (t : GTask) : ' ' ∉ stateOf t := by
  rcases stateOf_cases t with h | h | h | h <;> rw [h] <;> decide

theorem nul_notin_stateOf (t : GTask) : '\x00' ∉ stateOf t := by
  rcases stateOf_cases t with h | h | h | h <;> rw [h] <;> decide

theorem nl_notin_stateOf (t : GTask) : '\n' ∉ stateOf t := by
  rcases stateOf_cases t with h | h | h | h <;> rw [h] <;> decide

/-- the comma that ends the state is followed by the boundary mark, not by a blank -/
theorem splitAt?_comma_state (t : GTask) (r : Str) :
    splitAt? (lit ", ") (stateOf t ++ '\x00' :: r) =
      (splitAt? (lit ", ") r).map (fun q => (stateOf t ++ '\x00' :: q.1, q.2)) := by
  have hl : lit ", " = [',', ' '] := rfl
  rw [hl]
  rcases stateOf_cases t with h | h | h | h <;> rw [h] <;>
    cases hq : splitAt? [',', ' '] r <;> simp [lit, splitAt?, List.isPrefixOf, hq]

theorem readGanttLine_body (t : GTask) (hid : ',' ∉ t.idText) (hs : ',' ∉ t.start) :
    readGanttLine (ganttBody t) = some (expectedGantt t) := by
  have hcolon : ':' ∉ t.name.filter (fun c => c != ':') := by simp
  have h1 : startsWith (lit "    ") (ganttBody t) = true := by simp [startsWith, ganttBody, lit]
  have h2 : (ganttBody t).drop 4 = t.name.filter (fun c => c != ':') ++ ':' ::
      (' ' :: (stateOf t ++ lit " id_" ++ (t.idText ++ lit ", " ++ (t.start ++ lit ", " ++ t.end_)))) := by
    simp [ganttBody, lit]
  have h3 := splitFirst_append ':' _ (' ' :: (stateOf t ++ lit " id_" ++ (t.idText ++ lit ", " ++ (t.start ++ lit ", " ++ t.end_)))) hcolon
  have h4 := splitAt?_append (lit " id_") (stateOf t) (t.idText ++ lit ", " ++ (t.start ++ lit ", " ++ t.end_)) ' ' rfl
    (blank_notin_stateOf t)
  have h5 := splitAt?_append (lit ", ") t.idText (t.start ++ lit ", " ++ t.end_) ',' rfl hid
  have h6 := splitAt?_append (lit ", ") t.start t.end_ ',' rfl hs
  have h7 := splitFirst_append '\x00' (stateOf t) t.idText (nul_notin_stateOf t)
  have h8 : lit "\x00" = ['\x00'] := rfl
  simp only [List.append_assoc] at h4 h5 h6
  simp only [readGanttLine, h1, h2, h3]
  simp [startsWith, h8, h4, splitAt?_comma_state, h5, h6, h7, expectedGantt]


/-! ### the Gantt source as a list of lines -/

def ganttHeader (title : Option Str) (weekends : Bool) (tick : Option Str) : List Str :=
  [lit "gantt", lit "  dateFormat DD.MM.YYYY HH:mm"] ++
  (match title with | some t => [lit "  title " ++ t] | none => []) ++
  (if weekends then [lit "  excludes weekends"] else []) ++
  (match tick with | some t => if t.isEmpty then [] else [lit "  tickInterval " ++ t] | none => [])

def withNl (ls : List Str) : Str := (ls.map (· ++ ['\n'])).flatten

theorem withNl_append (a b : List Str) : withNl (a ++ b) = withNl a ++ withNl b := by simp [withNl]
theorem withNl_cons (a : Str) (b : List Str) : withNl (a :: b) = a ++ '\n' :: withNl b := by simp [withNl]
theorem withNl_nil : withNl [] = [] := rfl

theorem linesOf_withNl (ls : List Str) (h : ∀ l ∈ ls, '\n' ∉ l) : linesOf (withNl ls) = ls := linesOf_flatten ls h

theorem withNl_ganttBody (tasks : List GTask) : (tasks.map ganttLine).flatten = withNl (tasks.map ganttBody) := by
  induction tasks with
  | nil => rfl
  | cons t ts ih => simp [withNl_cons, ganttLine_eq, ih]

def sectionLine (k : Str) : Str := lit "  section " ++ k

def sectionBlock (tasks : List GTask) (k : Str) : List Str :=
  sectionLine k :: (tasks.filter (fun t => sectionOf t == k)).map ganttBody

theorem withNl_sections (tasks : List GTask) (secs : List Str) :
    (secs.map (fun k => lit "  section " ++ k ++ ['\n'] ++ ((tasks.filter (fun t => sectionOf t == k)).map ganttLine).flatten)).flatten
      = withNl (secs.flatMap (sectionBlock tasks)) := by
  induction secs with
  | nil => rfl
  | cons k ks ih =>
    rw [List.map_cons, List.flatten_cons, ih, List.flatMap_cons, withNl_append, sectionBlock, withNl_cons,
      withNl_ganttBody, sectionLine]
    simp

theorem ganttSrc_eq (title : Option Str) (weekends : Bool) (tick : Option Str) (tasks : List GTask) :
    ganttSrc title weekends tick tasks =
      if ((tasks.map sectionOf).eraseDups.length == 1 || (tasks.map sectionOf).eraseDups.isEmpty) = true then
        withNl (ganttHeader title weekends tick ++ tasks.map ganttBody)
      else withNl (ganttHeader title weekends tick ++ (tasks.map sectionOf).eraseDups.flatMap (sectionBlock tasks)) := by
  have key : ∀ (H H' A A' B B' : Str) (c : Prop) [Decidable c], H = H' → A = A' → B = B' →
      (if c then H ++ A else H ++ B) = (if c then H' ++ A' else H' ++ B') := by
    intro H H' A A' B B' c _ h1 h2 h3; subst h1 h2 h3; rfl
  unfold ganttSrc
  simp only [withNl_append]
  refine key _ _ _ _ _ _ _ ?_ (withNl_ganttBody tasks) (withNl_sections tasks _)
  cases title <;> cases weekends <;> cases tick <;> simp [ganttHeader, withNl, lit] <;> split <;> simp

/-! ### reading the Gantt lines -/

abbrev GAcc := Option Str × List (Option Str × GEntry)

def gstep (acc : GAcc) (l : Str) : GAcc :=
  if startsWith (lit "  section ") l then (some (l.drop 10), acc.2)
  else match readGanttLine l with
    | some e => (acc.1, acc.2 ++ [(acc.1, e)])
    | none => acc

theorem readGantt_eq (src : Str) : readGantt src = ((linesOf src).foldl gstep (none, [])).2 := rfl

/-- the conditions on a task under which its line is a single line that reads back -/
def GOk (t : GTask) : Prop := '\n' ∉ t.name ∧ ',' ∉ t.idText ∧ '\n' ∉ t.idText ∧ ',' ∉ t.start ∧ '\n' ∉ t.start ∧ '\n' ∉ t.end_

theorem ganttBody_oneLine (t : GTask) (h : GOk t) : '\n' ∉ ganttBody t := by
  obtain ⟨h1, h2, h3, h4, h5, h6⟩ := h
  have := nl_notin_stateOf t
  simp [ganttBody, lit, *]

theorem ganttHeader_oneLine (title : Option Str) (weekends : Bool) (tick : Option Str)
    (ht : ∀ x, title = some x → '\n' ∉ x) (hk : ∀ x, tick = some x → '\n' ∉ x) :
    ∀ l ∈ ganttHeader title weekends tick, '\n' ∉ l := by
  intro l hl
  simp only [ganttHeader, List.mem_append] at hl
  rcases hl with ((hl | hl) | hl) | hl
  · simp at hl; rcases hl with rfl | rfl <;> decide
  · cases title with
    | none => simp at hl
    | some x => simp at hl; subst hl; have := ht x rfl; simp [lit, this]
  · cases weekends <;> simp at hl; subst hl; decide
  · cases tick with
    | none => simp at hl
    | some x =>
      simp at hl; obtain ⟨_, rfl⟩ := hl
      have := hk x rfl; simp [lit, this]

theorem gstep_header (title : Option Str) (weekends : Bool) (tick : Option Str) (acc : GAcc) :
    ∀ l ∈ ganttHeader title weekends tick, gstep acc l = acc := by
  intro l hl
  have key : startsWith (lit "  section ") l = false ∧ startsWith (lit "    ") l = false := by
    simp only [ganttHeader, List.mem_append] at hl
    rcases hl with ((hl | hl) | hl) | hl
    · simp at hl; rcases hl with rfl | rfl <;> decide
    · cases title with
      | none => simp at hl
      | some x => simp at hl; subst hl; simp [lit, startsWith, List.isPrefixOf]
    · cases weekends <;> simp at hl; subst hl; decide
    · cases tick with
      | none => simp at hl
      | some x => simp at hl; obtain ⟨_, rfl⟩ := hl; simp [lit, startsWith, List.isPrefixOf]
  simp [gstep, key.1, readGanttLine, key.2]

theorem gstep_section (acc : GAcc) (k : Str) : gstep acc (sectionLine k) = (some k, acc.2) := by
  simp [gstep, sectionLine, lit, startsWith]

theorem gstep_task (acc : GAcc) (t : GTask) (h : GOk t) :
    gstep acc (ganttBody t) = (acc.1, acc.2 ++ [(acc.1, expectedGantt t)]) := by
  have h1 : startsWith (lit "  section ") (ganttBody t) = false := by simp [ganttBody, lit, startsWith, List.isPrefixOf]
  simp [gstep, h1, readGanttLine_body t h.2.1 h.2.2.2.1]

theorem foldl_gstep_header (title : Option Str) (weekends : Bool) (tick : Option Str) (acc : GAcc) (ls : List Str)
    (h : ∀ l ∈ ls, l ∈ ganttHeader title weekends tick) : ls.foldl gstep acc = acc := by
  induction ls with
  | nil => rfl
  | cons l ls ih =>
    rw [List.foldl_cons, gstep_header title weekends tick acc l (h l (by simp))]
    exact ih (fun l hl => h l (by simp [hl]))

theorem foldl_gstep_tasks (acc : GAcc) (ts : List GTask) (h : ∀ t ∈ ts, GOk t) :
    (ts.map ganttBody).foldl gstep acc = (acc.1, acc.2 ++ ts.map (fun t => (acc.1, expectedGantt t))) := by
  induction ts generalizing acc with
  | nil => simp
  | cons t ts ih =>
    rw [List.map_cons, List.foldl_cons, gstep_task acc t (h t (by simp)), ih _ (fun t ht => h t (by simp [ht]))]
    simp

theorem foldl_gstep_sections (tasks : List GTask) (h : ∀ t ∈ tasks, GOk t) (acc : GAcc) (ks : List Str) :
    (((ks.flatMap (sectionBlock tasks)).foldl gstep acc).2).map (·.2) =
      acc.2.map (·.2) ++ ks.flatMap (fun k => (tasks.filter (fun t => sectionOf t == k)).map expectedGantt) := by
  induction ks generalizing acc with
  | nil => simp
  | cons k ks ih =>
    rw [List.flatMap_cons, List.foldl_append, sectionBlock, List.foldl_cons, gstep_section,
      foldl_gstep_tasks _ _ (fun t ht => h t (List.mem_filter.1 ht).1), ih]
    simp [Function.comp_def]

/-! ### grouping by `eraseDups` keys is a permutation -/

theorem flatMap_congr_mem {α β} (l : List α) (f g : α → List β) (h : ∀ a ∈ l, f a = g a) :
    l.flatMap f = l.flatMap g := by
  induction l with
  | nil => rfl
  | cons a l ih =>
    rw [List.flatMap_cons, List.flatMap_cons, h a (by simp), ih (fun a ha => h a (by simp [ha]))]

theorem eraseDups_groups_perm {α β} [BEq β] [LawfulBEq β] (f : α → β) :
    ∀ (n : Nat) (l : List α), l.length ≤ n →
      ((l.map f).eraseDups.flatMap (fun k => l.filter (fun t => f t == k))).Perm l := by
  intro n
  induction n with
  | zero =>
    intro l hl
    have : l = [] := List.length_eq_zero_iff.1 (by omega)
    subst this; simp
  | succ n ih =>
    intro l hl
    cases l with
    | nil => simp
    | cons a l =>
      have hlen : (l.filter (fun t => !(f t == f a))).length ≤ n := by
        have := List.length_filter_le (fun t => !(f t == f a)) l
        simp at hl; omega
      have hih := ih _ hlen
      rw [List.map_cons, List.eraseDups_cons, List.flatMap_cons, List.filter_map]
      have hfirst : (a :: l).filter (fun t => f t == f a) = a :: l.filter (fun t => f t == f a) := by simp
      have hsecond : ((l.filter ((fun b => !(b == f a)) ∘ f)).map f).eraseDups.flatMap
            (fun k => (a :: l).filter (fun t => f t == k)) =
          ((l.filter (fun t => !(f t == f a))).map f).eraseDups.flatMap
            (fun k => (l.filter (fun t => !(f t == f a))).filter (fun t => f t == k)) := by
        apply flatMap_congr_mem
        intro k hk
        rw [List.mem_eraseDups, List.mem_map] at hk
        obtain ⟨t, ht, rfl⟩ := hk
        have hne : (f t == f a) = false := by simpa using (List.mem_filter.1 ht).2
        have hne' : (f a == f t) = false := by
          rw [beq_eq_false_iff_ne] at hne ⊢; exact Ne.symm hne
        rw [List.filter_cons, hne', List.filter_filter]
        simp only [Bool.false_eq_true, if_false]
        apply List.filter_congr
        intro x _
        by_cases hx : f x == f t
        · have : f x = f t := by simpa using hx
          simp [this, hne]
        · simp [hx]
      rw [hfirst, hsecond]
      refine (List.Perm.cons a ?_)
      refine (List.Perm.append (List.Perm.refl _) hih).trans ?_
      exact List.filter_append_perm _ l

theorem eraseDups_const {α} [BEq α] [LawfulBEq α] (a : α) (l : List α) (h : ∀ x ∈ l, x = a) :
    l.eraseDups = [] ∨ l.eraseDups = [a] := by
  cases l with
  | nil => simp
  | cons x xs =>
    right
    have hx := h x (by simp)
    subst hx
    have : xs.filter (fun b => !(b == x)) = [] := by
      rw [List.filter_eq_nil_iff]; intro y hy; simp [h y (by simp [hy])]
    rw [List.eraseDups_cons, this]; simp

/-! ### reading the whole Gantt source -/

theorem sectionLine_oneLine (k : Str) (h : '\n' ∉ k) : '\n' ∉ sectionLine k := by
  simp [sectionLine, lit, h]

theorem readGantt_flat (title : Option Str) (weekends : Bool) (tick : Option Str) (tasks : List GTask)
    (ht : ∀ x, title = some x → '\n' ∉ x) (hk : ∀ x, tick = some x → '\n' ∉ x) (h : ∀ t ∈ tasks, GOk t) :
    (readGantt (withNl (ganttHeader title weekends tick ++ tasks.map ganttBody))).map (·.2) = tasks.map expectedGantt := by
  rw [readGantt_eq, linesOf_withNl, List.foldl_append, foldl_gstep_header title weekends tick _ _ (fun l hl => hl),
    foldl_gstep_tasks _ _ h]
  · simp [Function.comp_def]
  · intro l hl
    rcases List.mem_append.1 hl with hl | hl
    · exact ganttHeader_oneLine title weekends tick ht hk l hl
    · obtain ⟨t, ht', rfl⟩ := List.mem_map.1 hl
      exact ganttBody_oneLine t (h t ht')

theorem readGantt_sections (title : Option Str) (weekends : Bool) (tick : Option Str) (tasks : List GTask) (secs : List Str)
    (ht : ∀ x, title = some x → '\n' ∉ x) (hk : ∀ x, tick = some x → '\n' ∉ x) (h : ∀ t ∈ tasks, GOk t)
    (hsecs : ∀ k ∈ secs, '\n' ∉ k) :
    (readGantt (withNl (ganttHeader title weekends tick ++ secs.flatMap (sectionBlock tasks)))).map (·.2) =
      secs.flatMap (fun k => (tasks.filter (fun t => sectionOf t == k)).map expectedGantt) := by
  rw [readGantt_eq, linesOf_withNl, List.foldl_append, foldl_gstep_header title weekends tick _ _ (fun l hl => hl),
    foldl_gstep_sections tasks h]
  · simp
  · intro l hl
    rcases List.mem_append.1 hl with hl | hl
    · exact ganttHeader_oneLine title weekends tick ht hk l hl
    · obtain ⟨k, hk', hl⟩ := List.mem_flatMap.1 hl
      rw [sectionBlock, List.mem_cons] at hl
      rcases hl with rfl | hl
      · exact sectionLine_oneLine k (hsecs k hk')
      · obtain ⟨t, ht', rfl⟩ := List.mem_map.1 hl
        exact ganttBody_oneLine t (h t (List.mem_filter.1 ht').1)

theorem readGantt_perm (title : Option Str) (weekends : Bool) (tick : Option Str) (tasks : List GTask)
    (ht : ∀ x, title = some x → '\n' ∉ x) (hk : ∀ x, tick = some x → '\n' ∉ x) (h : ∀ t ∈ tasks, GOk t)
    (hsecs : ∀ t ∈ tasks, '\n' ∉ sectionOf t) :
    ((readGantt (ganttSrc title weekends tick tasks)).map (·.2)).Perm (tasks.map expectedGantt) := by
  rw [ganttSrc_eq]
  split
  · rw [readGantt_flat title weekends tick tasks ht hk h]
  · rw [readGantt_sections title weekends tick tasks _ ht hk h]
    · have := (eraseDups_groups_perm sectionOf tasks.length tasks (Nat.le_refl _)).map expectedGantt
      rw [List.map_flatMap] at this
      exact this
    · intro k hk'
      rw [List.mem_eraseDups, List.mem_map] at hk'
      obtain ⟨t, ht', rfl⟩ := hk'
      exact hsecs t ht'

theorem readGantt_noSections (title : Option Str) (weekends : Bool) (tick : Option Str) (tasks : List GTask)
    (hsec : ∀ t ∈ tasks, t.sect = none)
    (ht : ∀ x, title = some x → '\n' ∉ x) (hk : ∀ x, tick = some x → '\n' ∉ x) (h : ∀ t ∈ tasks, GOk t) :
    (readGantt (ganttSrc title weekends tick tasks)).map (·.2) = tasks.map expectedGantt := by
  have hc := eraseDups_const ['-'] (tasks.map sectionOf) (by
    intro x hx
    obtain ⟨t, ht', rfl⟩ := List.mem_map.1 hx
    simp [sectionOf, hsec t ht'])
  rw [ganttSrc_eq, if_pos (by rcases hc with hc | hc <;> simp [hc])]
  exact readGantt_flat title weekends tick tasks ht hk h

/-! ### the network source -/

def qname (s : Str) : Str := escLabel (s.filter (fun c => c != '"'))

theorem nodeLabel_eq (idt name : Str) : nodeLabel idt name = idt ++ lit "{{" ++ (qname name ++ lit "}}") := by
  simp [nodeLabel, qname]

/-- ids made of digits and '-' contain no brace, bracket, blank or line break -/
def IdOk (s : Str) : Prop := (∀ c ∈ s, c.isDigit ∨ c = '-') ∧ s ≠ []

theorem IdOk.notin {s : Str} (h : IdOk s) (c : Char) (hc : c.isDigit = false) (hc' : c ≠ '-') : c ∉ s := by
  intro hm
  rcases h.1 c hm with h1 | h1
  · rw [hc] at h1; cases h1
  · exact hc' h1

/-- a character of the escaped label is a character of the text or one of `#123;`, `#125;` -/
theorem mem_escLabel {s : Str} {c : Char} (h : c ∈ escLabel s) :
    (c ∈ s ∧ c ≠ '{' ∧ c ≠ '}') ∨ c ∈ lit "#123;" ∨ c ∈ lit "#125;" := by
  simp only [escLabel, List.mem_flatMap] at h
  obtain ⟨x, hx, hc⟩ := h
  split at hc
  · exact Or.inr (Or.inl hc)
  · split at hc
    · exact Or.inr (Or.inr hc)
    · rename_i h1 h2
      have : c = x := by simpa using hc
      subst this
      exact Or.inl ⟨hx, by simpa using h1, by simpa using h2⟩

/-- the escaped label never contains an opening brace -/
theorem lbrace_notin_escLabel (s : Str) : '{' ∉ escLabel s := by
  intro h
  rcases mem_escLabel h with h | h | h
  · exact h.2.1 rfl
  · revert h; decide
  · revert h; decide

/-- the escaped label never contains a closing brace -/
theorem rbrace_notin_escLabel (s : Str) : '}' ∉ escLabel s := by
  intro h
  rcases mem_escLabel h with h | h | h
  · exact h.2.2 rfl
  · revert h; decide
  · revert h; decide

/-- the escaped label contains a line break only if the text does -/
theorem nl_notin_escLabel {s : Str} (hs : '\n' ∉ s) : '\n' ∉ escLabel s := by
  intro h
  rcases mem_escLabel h with h | h | h
  · exact hs h.1
  · revert h; decide
  · revert h; decide

/-- single-line names: the only condition left on a name (braces are escaped by the renderer) -/
def NameOk (s : Str) : Prop := '\n' ∉ s

theorem NameOk.qname {s : Str} (h : NameOk s) : '\n' ∉ qname s ∧ '{' ∉ qname s ∧ '}' ∉ qname s := by
  refine ⟨nl_notin_escLabel ?_, lbrace_notin_escLabel _, rbrace_notin_escLabel _⟩
  intro hm
  exact h (List.mem_filter.1 hm).1

theorem readNode_label (idt name : Str) (hi : IdOk idt) (hn : NameOk name) :
    readNode (nodeLabel idt name) = some (.task idt (qname name)) := by
  have hq := hn.qname
  have h0 : (nodeLabel idt name == lit "0((Start))") = false := by
    rw [beq_eq_false_iff_ne]
    intro he
    have : '{' ∈ nodeLabel idt name := by simp [nodeLabel, lit]
    rw [he] at this
    revert this; decide
  have h1 := splitAt?_append (lit "{{") idt (qname name ++ lit "}}") '{' rfl (hi.notin '{' (by decide) (by decide))
  have h2 := splitAt?_append (lit "}}") (qname name) [] '}' rfl hq.2.2
  rw [List.append_nil] at h2
  rw [← nodeLabel_eq] at h1
  simp [readNode, h0, h1, h2]

/-- the lines written for one task -/
def edgeLines (all : Nat → NTask) (i : Nat) : List Str :=
  if (all i).preds.isEmpty then [lit "  0((Start)) --> " ++ nodeLabel (all i).idText (all i).name]
  else (all i).preds.map (fun p => lit "  " ++ nodeLabel (all p).idText (all p).name ++ lit " --> " ++ nodeLabel (all i).idText (all i).name)

theorem networkSrc_eq (all : Nat → NTask) (tasks : List Nat) (hst : ∀ i ∈ tasks, (all i).style = none) :
    networkSrc all tasks = withNl (lit "flowchart LR" :: tasks.flatMap (edgeLines all)) := by
  have h2 : ∀ ts : List Nat, (ts.map (fun i =>
      let t := all i
      if t.preds.isEmpty then lit "  0((Start)) --> " ++ nodeLabel t.idText t.name ++ ['\n']
      else (t.preds.map (fun p => lit "  " ++ nodeLabel (all p).idText (all p).name ++ lit " --> " ++ nodeLabel t.idText t.name ++ ['\n'])).flatten)).flatten
      = withNl (ts.flatMap (edgeLines all)) := by
    intro ts
    induction ts with
    | nil => rfl
    | cons i ts ih =>
      rw [List.map_cons, List.flatten_cons, ih, List.flatMap_cons, withNl_append]
      congr 1
      simp only [edgeLines]
      split
      · simp [withNl]
      · simp [withNl, Function.comp_def]
  have key : ∀ B C B' : Str, C = [] → B = B' → lit "flowchart LR\n" ++ B ++ C = lit "flowchart LR" ++ '\n' :: B' := by
    intro B C B' h1 h2; subst h1 h2; simp [lit]
  unfold networkSrc
  rw [withNl_cons]
  refine key _ _ _ ?_ (h2 tasks)
  rw [List.flatten_eq_nil_iff]
  intro l hl
  obtain ⟨i, hi, rfl⟩ := List.mem_map.1 hl
  simp only [hst i hi]

/-! ### reading the network lines -/

theorem nodeLabel_oneLine (idt name : Str) (hi : IdOk idt) (hn : NameOk name) : '\n' ∉ nodeLabel idt name := by
  have h1 := hi.notin '\n' (by decide) (by decide)
  have h2 := hn.qname.1
  simp [nodeLabel_eq, lit, h1, h2]

theorem readEdge_start (idt name : Str) (hi : IdOk idt) (hn : NameOk name) :
    readEdge (lit "  0((Start)) --> " ++ nodeLabel idt name) = some (.start, .task idt (qname name)) := by
  have h1 : startsWith (lit "  ") (lit "  0((Start)) --> " ++ nodeLabel idt name) = true := by
    simp [startsWith, lit, List.isPrefixOf]
  have h2 : startsWith (lit "0((Start)) --> ") ((lit "  0((Start)) --> " ++ nodeLabel idt name).drop 2) = true := by
    simp [startsWith, lit, List.isPrefixOf]
  have h3 : ((lit "  0((Start)) --> " ++ nodeLabel idt name).drop 2).drop 15 = nodeLabel idt name := by
    simp [lit]
  simp only [readEdge, h1, h2, h3, readNode_label idt name hi hn]
  rfl

theorem not_start_prefix (idt rest : Str) (hi : IdOk idt) :
    startsWith (lit "0((Start)) --> ") (idt ++ lit "{{" ++ rest) = false := by
  obtain ⟨h1, h2⟩ := hi
  cases idt with
  | nil => exact absurd rfl h2
  | cons c cs =>
    cases cs with
    | nil => simp [startsWith, lit, List.isPrefixOf]
    | cons d ds =>
      have hd : d ≠ '(' := by
        intro e; subst e
        rcases h1 '(' (by simp) with h | h
        · revert h; decide
        · revert h; decide
      simp [startsWith, lit, List.isPrefixOf, Ne.symm hd]

theorem readEdge_dep (ip np it nt : Str) (hip : IdOk ip) (hnp : NameOk np) (hit : IdOk it) (hnt : NameOk nt) :
    readEdge (lit "  " ++ nodeLabel ip np ++ lit " --> " ++ nodeLabel it nt) =
      some (.task ip (qname np), .task it (qname nt)) := by
  have h1 : startsWith (lit "  ") (lit "  " ++ nodeLabel ip np ++ lit " --> " ++ nodeLabel it nt) = true := by
    simp [startsWith, lit, List.isPrefixOf]
  have h2 : (lit "  " ++ nodeLabel ip np ++ lit " --> " ++ nodeLabel it nt).drop 2 =
      ip ++ lit "{{" ++ (qname np ++ lit "}} --> " ++ nodeLabel it nt) := by
    simp [lit, nodeLabel_eq]
  have h3 := not_start_prefix ip (qname np ++ lit "}} --> " ++ nodeLabel it nt) hip
  have h4 : splitAt? (lit "}} --> ") (ip ++ lit "{{" ++ (qname np ++ lit "}} --> " ++ nodeLabel it nt)) =
      some (ip ++ lit "{{" ++ qname np, nodeLabel it nt) := by
    apply splitAt?_of_eq '}' (by simp) rfl
    have := hip.notin '}' (by decide) (by decide)
    have := hnp.qname.2.2
    simp [lit, *]
  have h5 : ip ++ lit "{{" ++ qname np ++ lit "}}" = nodeLabel ip np := by simp [nodeLabel_eq]
  simp only [readEdge, h1, h2, h3, h4]
  simp [-List.append_assoc, h5, readNode_label ip np hip hnp, readNode_label it nt hit hnt]

theorem readEdge_flowchart : readEdge (lit "flowchart LR") = none := by decide

theorem filterMap_readEdge_edgeLines (all : Nat → NTask) (hn : ∀ i, NameOk (all i).name) (hid : ∀ i, IdOk (all i).idText)
    (i : Nat) : (edgeLines all i).filterMap readEdge =
      (if (all i).preds.isEmpty then [(NNode.start, NNode.task (all i).idText (qname (all i).name))]
       else (all i).preds.map (fun p => (NNode.task (all p).idText (qname (all p).name), NNode.task (all i).idText (qname (all i).name)))) := by
  unfold edgeLines
  split
  · simp [readEdge_start _ _ (hid i) (hn i)]
  · rw [List.filterMap_map]
    generalize (all i).preds = ps
    induction ps with
    | nil => rfl
    | cons p ps ih =>
      rw [List.filterMap_cons, List.map_cons, ← ih]
      simp only [Function.comp_apply]
      rw [readEdge_dep _ _ _ _ (hid p) (hn p) (hid i) (hn i)]

theorem edgeLines_oneLine (all : Nat → NTask) (hn : ∀ i, NameOk (all i).name) (hid : ∀ i, IdOk (all i).idText)
    (i : Nat) : ∀ l ∈ edgeLines all i, '\n' ∉ l := by
  intro l hl
  unfold edgeLines at hl
  split at hl
  · simp at hl; subst hl
    have := nodeLabel_oneLine _ _ (hid i) (hn i)
    simp [lit, this]
  · obtain ⟨p, _, rfl⟩ := List.mem_map.1 hl
    have h1 := nodeLabel_oneLine _ _ (hid i) (hn i)
    have h2 := nodeLabel_oneLine _ _ (hid p) (hn p)
    simp [lit, h1, h2]

theorem readNetwork_ok (all : Nat → NTask) (tasks : List Nat)
    (hn : ∀ i, NameOk (all i).name) (hid : ∀ i, IdOk (all i).idText) (hst : ∀ i ∈ tasks, (all i).style = none) :
    readNetwork (networkSrc all tasks) = expectedEdges all tasks := by
  rw [networkSrc_eq all tasks hst, readNetwork, linesOf_withNl]
  · rw [List.filterMap_cons, readEdge_flowchart]
    simp only [expectedEdges]
    clear hst
    induction tasks with
    | nil => rfl
    | cons i ts ih =>
      rw [List.flatMap_cons, List.filterMap_append, ih, List.flatMap_cons, filterMap_readEdge_edgeLines all hn hid i]
      rfl
  · intro l hl
    rcases List.mem_cons.1 hl with rfl | hl
    · decide
    · obtain ⟨i, _, hl⟩ := List.mem_flatMap.1 hl
      exact edgeLines_oneLine all hn hid i l hl

/-! ### DHTMLX progress arithmetic -/

theorem rat_div_unit (x e : Rat) (h0 : 0 ≤ x) (h1 : x ≤ e) (he : 0 < e) : 0 ≤ x / e ∧ x / e ≤ 1 := by
  have hi : 0 < e⁻¹ := Rat.inv_pos.2 he
  have h2 := Rat.mul_nonneg h0 (Rat.le_of_lt hi)
  have h3 := Rat.mul_le_mul_of_nonneg_right h1 (Rat.le_of_lt hi)
  have h4 : e * e⁻¹ = 1 := Rat.mul_inv_cancel e (by grind)
  rw [Rat.div_def]
  grind

end Pj.Render
