/- Lemmas/RenderLemmas.lean — helper lemmas for Props/C19.lean -/
import PjVerif.Spec.Render
namespace Pj.Render

end Pj.Render
