/-
  Lemmas/CritPathSrcC1.lean — what `__new_node` / `__connect` do to the arcs of a store (`inArcs` / `outArcs`,
  Lemmas/CritPathSrcB.lean), and the structural invariant `Net` of the network under construction: tasks with their two
  nodes and their arc, and the zero-length arrows between them.  See Lemmas/CritPathSrc.lean.
-/
import PjVerif.Lemmas.CritPathSrcB
namespace Pj.CritPathSrc
open Pj.PyLite
set_option linter.unusedSimpArgs false
set_option linter.unusedVariables false

section ops
variable (B : Nat)

/-- the link objects of `σ` are link objects of `σ'` -/
def LinkStable (σ σ' : Store) : Prop :=
  ∀ l s e u, getO B σ l = some (.link s e u) → getO B σ' l = some (.link s e u)

theorem LinkStable.resolveIn {σ σ' : Store} (h : LinkStable B σ σ') {l : Nat} {p : Nat × Rat}
    (hp : resolveIn B σ l = some p) : resolveIn B σ' l = some p := by
  obtain ⟨e, hg⟩ := resolveIn_some B hp
  simp only [CritPathSrc.resolveIn, h l _ _ _ hg]

theorem LinkStable.resolveOut {σ σ' : Store} (h : LinkStable B σ σ') {l : Nat} {p : Nat × Rat}
    (hp : resolveOut B σ l = some p) : resolveOut B σ' l = some p := by
  obtain ⟨s, hg⟩ := resolveOut_some B hp
  simp only [CritPathSrc.resolveOut, h l _ _ _ hg]

theorem LinkStable.mapM_in {σ σ' : Store} (h : LinkStable B σ σ') {bw : List Nat} {L : List (Nat × Rat)}
    (hL : bw.mapM (CritPathSrc.resolveIn B σ) = some L) : bw.mapM (CritPathSrc.resolveIn B σ') = some L :=
  mapM_some_congr _ _ _ _ (fun l _ p hp => h.resolveIn B hp) hL

theorem LinkStable.mapM_out {σ σ' : Store} (h : LinkStable B σ σ') {fw : List Nat} {L : List (Nat × Rat)}
    (hL : fw.mapM (CritPathSrc.resolveOut B σ) = some L) : fw.mapM (CritPathSrc.resolveOut B σ') = some L :=
  mapM_some_congr _ _ _ _ (fun l _ p hp => h.resolveOut B hp) hL

/-- the arcs of a node whose object did not change -/
theorem inArcs_stable {σ σ' : Store} (h : LinkStable B σ σ') {b : Nat} (hb : getO B σ' b = getO B σ b)
    {L : List (Nat × Rat)} (hL : inArcs B σ b = some L) : inArcs B σ' b = some L := by
  obtain ⟨fw, bw, su, eu, hg, hm⟩ := inArcs_some B hL
  simp only [inArcs, hb, hg]
  exact h.mapM_in B hm

theorem outArcs_stable {σ σ' : Store} (h : LinkStable B σ σ') {b : Nat} (hb : getO B σ' b = getO B σ b)
    {L : List (Nat × Rat)} (hL : outArcs B σ b = some L) : outArcs B σ' b = some L := by
  obtain ⟨fw, bw, su, eu, hg, hm⟩ := outArcs_some B hL
  simp only [outArcs, hb, hg]
  exact h.mapM_out B hm

theorem mapM_append_one {α β : Type} (g : α → Option β) (l : List α) (a : α) (L : List β) (b : β)
    (hl : l.mapM g = some L) (ha : g a = some b) : (l ++ [a]).mapM g = some (L ++ [b]) := by
  induction l generalizing L with
  | nil =>
    simp only [List.mapM_nil, pure, Option.some.injEq] at hl
    subst hl
    exact (mapM_some_cons g a [] _).mpr ⟨b, [], ha, rfl, rfl⟩
  | cons x xs ih =>
    obtain ⟨y, ys, hy, hys, rfl⟩ := (mapM_some_cons g x xs L).mp hl
    exact (mapM_some_cons g x (xs ++ [a]) _).mpr ⟨y, ys ++ [b], hy, ih ys hys, rfl⟩

/-! #### `__new_node` -/

/-- what `self.__new_node()` does -/
structure NewNodeSpec (σ σ' : Store) (a : Nat) : Prop where
  addr : a = B + σ.length
  len : σ'.length = σ.length + 1
  isCalc : ∃ nodes links tasks ed mem, getO B σ B = some (.calc nodes links tasks ed mem)
  calcObj : ∀ nodes links tasks ed mem, getO B σ B = some (.calc nodes links tasks ed mem) →
    getO B σ' B = some (.calc (nodes ++ [a]) links tasks ed mem)
  new : getO B σ' a = some (.node [] [] none none)
  old : ∀ b, b ≠ B → b ≠ a → getO B σ' b = getO B σ b
  stable : LinkStable B σ σ'

theorem newNodeA_spec {σ : Store} {nodes : List Nat} {links tasks : List (Atom × Atom)} {ed : Atom} {mem : List Atom}
    (hc : getO B σ B = some (.calc nodes links tasks ed mem)) :
    ∃ σ', newNodeA B σ = some (B + σ.length, σ') ∧ NewNodeSpec B σ σ' (B + σ.length) := by
  have hlen := (getO_some_lt B hc).2
  have hc1 : getO B (σ ++ [Obj.node [] [] none none]) B = some (.calc nodes links tasks ed mem) :=
    getO_append_old B _ hc
  have hneB : B + σ.length ≠ B := by omega
  refine ⟨setO B (σ ++ [Obj.node [] [] none none]) B (.calc (nodes ++ [B + σ.length]) links tasks ed mem),
    by simp only [newNodeA, newPNode, hc1], ⟨rfl, ?_, ⟨_, _, _, _, _, hc⟩, ?_, ?_, ?_, ?_⟩⟩
  · simp [length_setO]
  · intro nodes' links' tasks' ed' mem' hc'
    rw [hc] at hc'
    cases hc'
    exact getO_setO_same B _ hc1
  · rw [getO_setO_ne B _ (Nat.le_refl B) (Ne.symm hneB)]
    exact getO_append_new B σ _
  · intro b hbB hba
    rw [getO_setO_ne B _ (Nat.le_refl B) (Ne.symm hbB)]
    by_cases hlt : b < B + σ.length
    · exact getO_append_lt B σ _ hlt
    · rw [getO_ge_none B (by omega : B + σ.length ≤ b)]
      exact getO_ge_none B (by simp; omega)
  · intro l s e u hl
    have hlB : l ≠ B := by
      intro h; subst h; rw [hc] at hl; cases hl
    rw [getO_setO_ne B _ (Nat.le_refl B) (Ne.symm hlB)]
    exact getO_append_old B _ hl

theorem NewNodeSpec.node_old {σ σ' : Store} {a : Nat} (h : NewNodeSpec B σ σ' a) {b : Nat} {fw bw : List Nat}
    {su eu : Option Rat} (hg : getO B σ b = some (.node fw bw su eu)) : getO B σ' b = some (.node fw bw su eu) := by
  rw [h.old b ?_ ?_, hg]
  · intro hb; subst hb
    obtain ⟨_, _, _, _, _, hc⟩ := h.isCalc
    rw [hc] at hg; cases hg
  · intro hb; subst hb
    have h1 := (getO_some_lt B hg).2
    have := h.addr
    omega

theorem NewNodeSpec.inArcs_old {σ σ' : Store} {a : Nat} (h : NewNodeSpec B σ σ' a) {b : Nat} {L : List (Nat × Rat)}
    (hL : inArcs B σ b = some L) : inArcs B σ' b = some L := by
  obtain ⟨fw, bw, su, eu, hg, _⟩ := inArcs_some B hL
  exact inArcs_stable B h.stable (by rw [h.node_old B hg, hg]) hL

theorem NewNodeSpec.outArcs_old {σ σ' : Store} {a : Nat} (h : NewNodeSpec B σ σ' a) {b : Nat} {L : List (Nat × Rat)}
    (hL : outArcs B σ b = some L) : outArcs B σ' b = some L := by
  obtain ⟨fw, bw, su, eu, hg, _⟩ := outArcs_some B hL
  exact outArcs_stable B h.stable (by rw [h.node_old B hg, hg]) hL

theorem NewNodeSpec.inArcs_new {σ σ' : Store} {a : Nat} (h : NewNodeSpec B σ σ' a) : inArcs B σ' a = some [] := by
  simp only [inArcs, h.new]; rfl

theorem NewNodeSpec.outArcs_new {σ σ' : Store} {a : Nat} (h : NewNodeSpec B σ σ' a) : outArcs B σ' a = some [] := by
  simp only [outArcs, h.new]; rfl

/-! #### `__connect` -/

/-- what `self.__connect(start, end, units)` does (for two different nodes) -/
structure ConnSpec (σ σ' : Store) (s e : Nat) (u : Rat) (l : Nat) : Prop where
  addr : l = B + σ.length
  len : σ'.length = σ.length + 1
  link : getO B σ' l = some (.link s e u)
  start : ∀ fw bw su eu, getO B σ s = some (.node fw bw su eu) → getO B σ' s = some (.node (fw ++ [l]) bw su eu)
  end_ : ∀ fw bw su eu, getO B σ e = some (.node fw bw su eu) → getO B σ' e = some (.node fw (bw ++ [l]) su eu)
  old : ∀ b, b ≠ s → b ≠ e → b ≠ l → getO B σ' b = getO B σ b
  sNode : ∃ fw bw su eu, getO B σ s = some (.node fw bw su eu)
  eNode : ∃ fw bw su eu, getO B σ e = some (.node fw bw su eu)
  ne : s ≠ e

theorem connectA_spec {σ : Store} {s e : Nat} (u : Rat) {fs bs fe be : List Nat} {sus eus sue eue : Option Rat}
    (hs : getO B σ s = some (.node fs bs sus eus)) (he : getO B σ e = some (.node fe be sue eue)) (hne : s ≠ e) :
    ∃ σ', connectA B σ s e u = some (B + σ.length, σ') ∧ ConnSpec B σ σ' s e u (B + σ.length) := by
  have hsl := getO_some_lt B hs
  have hel := getO_some_lt B he
  have hs1 : getO B (σ ++ [Obj.link s e u]) s = some (.node fs bs sus eus) := getO_append_old B _ hs
  have he1 : getO B (σ ++ [Obj.link s e u]) e = some (.node fe be sue eue) := getO_append_old B _ he
  have he2 : getO B (setO B (σ ++ [Obj.link s e u]) s (.node (fs ++ [B + σ.length]) bs sus eus)) e =
      some (.node fe be sue eue) := by
    rw [getO_setO_ne B _ hsl.1 hne]; exact he1
  have hls : s ≠ B + σ.length := by omega
  have hle : e ≠ B + σ.length := by omega
  refine ⟨setO B (setO B (σ ++ [Obj.link s e u]) s (.node (fs ++ [B + σ.length]) bs sus eus)) e
      (.node fe (be ++ [B + σ.length]) sue eue),
    by simp only [connectA, newPLink, hs1, he2], ⟨rfl, ?_, ?_, ?_, ?_, ?_, ⟨_, _, _, _, hs⟩, ⟨_, _, _, _, he⟩, hne⟩⟩
  · simp [length_setO]
  · rw [getO_setO_ne B _ hel.1 hle, getO_setO_ne B _ hsl.1 hls]
    exact getO_append_new B σ _
  · intro fw bw su eu hs'
    rw [hs] at hs'; cases hs'
    rw [getO_setO_ne B _ hel.1 (Ne.symm hne)]
    exact getO_setO_same B _ hs1
  · intro fw bw su eu he'
    rw [he] at he'; cases he'
    exact getO_setO_same B _ he2
  · intro b hbs hbe hbl
    rw [getO_setO_ne B _ hel.1 (Ne.symm hbe), getO_setO_ne B _ hsl.1 (Ne.symm hbs)]
    by_cases hlt : b < B + σ.length
    · exact getO_append_lt B σ _ hlt
    · rw [getO_ge_none B (by omega : B + σ.length ≤ b)]
      exact getO_ge_none B (by simp; omega)

theorem ConnSpec.stable {σ σ' : Store} {s e : Nat} {u : Rat} {l : Nat} (h : ConnSpec B σ σ' s e u l) :
    LinkStable B σ σ' := by
  intro l' s' e' u' hl'
  obtain ⟨_, _, _, _, hs⟩ := h.sNode
  obtain ⟨_, _, _, _, he⟩ := h.eNode
  rw [h.old l' ?_ ?_ ?_, hl']
  · intro hx; subst hx; rw [hs] at hl'; cases hl'
  · intro hx; subst hx; rw [he] at hl'; cases hl'
  · intro hx; subst hx
    have := (getO_some_lt B hl').2
    have := h.addr
    omega

/-- nodes stay nodes, with the same memo fields -/
theorem ConnSpec.node {σ σ' : Store} {s e : Nat} {u : Rat} {l : Nat} (h : ConnSpec B σ σ' s e u l) {b : Nat}
    {fw bw : List Nat} {su eu : Option Rat} (hg : getO B σ b = some (.node fw bw su eu)) :
    ∃ fw' bw', getO B σ' b = some (.node fw' bw' su eu) := by
  by_cases hbs : b = s
  · subst hbs; exact ⟨_, _, h.start _ _ _ _ hg⟩
  · by_cases hbe : b = e
    · subst hbe; exact ⟨_, _, h.end_ _ _ _ _ hg⟩
    · refine ⟨fw, bw, ?_⟩
      rw [h.old b hbs hbe ?_, hg]
      intro hx; subst hx
      have := (getO_some_lt B hg).2
      have := h.addr
      omega

theorem ConnSpec.not_link {σ σ' : Store} {s e : Nat} {u : Rat} {l : Nat} (h : ConnSpec B σ σ' s e u l) {b : Nat}
    {fw bw : List Nat} {su eu : Option Rat} (hg : getO B σ b = some (.node fw bw su eu)) : b ≠ l := by
  intro hx; subst hx
  have := (getO_some_lt B hg).2
  have := h.addr
  omega

theorem ConnSpec.resolveIn_new {σ σ' : Store} {s e : Nat} {u : Rat} {l : Nat} (h : ConnSpec B σ σ' s e u l) :
    resolveIn B σ' l = some (s, u) := by simp only [resolveIn, h.link]

theorem ConnSpec.resolveOut_new {σ σ' : Store} {s e : Nat} {u : Rat} {l : Nat} (h : ConnSpec B σ σ' s e u l) :
    resolveOut B σ' l = some (e, u) := by simp only [resolveOut, h.link]

theorem ConnSpec.inArcs {σ σ' : Store} {s e : Nat} {u : Rat} {l : Nat} (h : ConnSpec B σ σ' s e u l) {b : Nat}
    {L : List (Nat × Rat)} (hL : inArcs B σ b = some L) :
    inArcs B σ' b = some (if b = e then L ++ [(s, u)] else L) := by
  obtain ⟨fw, bw, su, eu, hg, hm⟩ := inArcs_some B hL
  by_cases hbe : b = e
  · subst hbe
    simp only [CritPathSrc.inArcs, h.end_ _ _ _ _ hg, if_true]
    exact mapM_append_one _ _ _ _ _ (h.stable.mapM_in B hm) h.resolveIn_new
  · rw [if_neg hbe]
    by_cases hbs : b = s
    · subst hbs
      simp only [CritPathSrc.inArcs, h.start _ _ _ _ hg]
      exact h.stable.mapM_in B hm
    · exact inArcs_stable B h.stable (h.old b hbs hbe (h.not_link B hg)) hL

theorem ConnSpec.outArcs {σ σ' : Store} {s e : Nat} {u : Rat} {l : Nat} (h : ConnSpec B σ σ' s e u l) {b : Nat}
    {L : List (Nat × Rat)} (hL : outArcs B σ b = some L) :
    outArcs B σ' b = some (if b = s then L ++ [(e, u)] else L) := by
  obtain ⟨fw, bw, su, eu, hg, hm⟩ := outArcs_some B hL
  by_cases hbs : b = s
  · subst hbs
    simp only [CritPathSrc.outArcs, h.start _ _ _ _ hg, if_true]
    exact mapM_append_one _ _ _ _ _ (h.stable.mapM_out B hm) h.resolveOut_new
  · rw [if_neg hbs]
    by_cases hbe : b = e
    · subst hbe
      simp only [CritPathSrc.outArcs, h.end_ _ _ _ _ hg]
      exact h.stable.mapM_out B hm
    · exact outArcs_stable B h.stable (h.old b hbs hbe (h.not_link B hg)) hL

/-- objects that are not nodes (the calculator, the links) stay -/
theorem ConnSpec.other {σ σ' : Store} {s e : Nat} {u : Rat} {l : Nat} (h : ConnSpec B σ σ' s e u l) {b : Nat} {o : Obj}
    (hg : getO B σ b = some o) (hn : ∀ fw bw su eu, o ≠ .node fw bw su eu) : getO B σ' b = some o := by
  obtain ⟨_, _, _, _, hs⟩ := h.sNode
  obtain ⟨_, _, _, _, he⟩ := h.eNode
  rw [h.old b ?_ ?_ ?_, hg]
  · intro hx; subst hx; rw [hs] at hg; cases hg; exact hn _ _ _ _ rfl
  · intro hx; subst hx; rw [he] at hg; cases hg; exact hn _ _ _ _ rfl
  · intro hx; subst hx
    have := (getO_some_lt B hg).2
    have := h.addr
    omega

theorem ConnSpec.suOf {σ σ' : Store} {s e : Nat} {u : Rat} {l : Nat} (h : ConnSpec B σ σ' s e u l) (b : Nat) :
    suOf B σ' b = suOf B σ b := by
  cases hg : getO B σ b with
  | none =>
    by_cases hbl : b = l
    · subst hbl; simp only [CritPathSrc.suOf, h.link, hg]
    · obtain ⟨_, _, _, _, hs⟩ := h.sNode
      obtain ⟨_, _, _, _, he⟩ := h.eNode
      have hbs : b ≠ s := by intro hx; subst hx; rw [hs] at hg; cases hg
      have hbe : b ≠ e := by intro hx; subst hx; rw [he] at hg; cases hg
      simp only [CritPathSrc.suOf, h.old b hbs hbe hbl, hg]
  | some o =>
    cases o with
    | node fw bw su eu =>
      obtain ⟨fw', bw', hg'⟩ := h.node B hg
      simp only [CritPathSrc.suOf, hg, hg']
    | link s' e' u' =>
      simp only [CritPathSrc.suOf, hg, h.other B hg (by intro _ _ _ _ hx; cases hx)]
    | «calc» n l' t ed m =>
      simp only [CritPathSrc.suOf, hg, h.other B hg (by intro _ _ _ _ hx; cases hx)]

theorem ConnSpec.euOf {σ σ' : Store} {s e : Nat} {u : Rat} {l : Nat} (h : ConnSpec B σ σ' s e u l) (b : Nat) :
    euOf B σ' b = euOf B σ b := by
  cases hg : getO B σ b with
  | none =>
    by_cases hbl : b = l
    · subst hbl; simp only [CritPathSrc.euOf, h.link, hg]
    · obtain ⟨_, _, _, _, hs⟩ := h.sNode
      obtain ⟨_, _, _, _, he⟩ := h.eNode
      have hbs : b ≠ s := by intro hx; subst hx; rw [hs] at hg; cases hg
      have hbe : b ≠ e := by intro hx; subst hx; rw [he] at hg; cases hg
      simp only [CritPathSrc.euOf, h.old b hbs hbe hbl, hg]
  | some o =>
    cases o with
    | node fw bw su eu =>
      obtain ⟨fw', bw', hg'⟩ := h.node B hg
      simp only [CritPathSrc.euOf, hg, hg']
    | link s' e' u' =>
      simp only [CritPathSrc.euOf, hg, h.other B hg (by intro _ _ _ _ hx; cases hx)]
    | «calc» n l' t ed m =>
      simp only [CritPathSrc.euOf, hg, h.other B hg (by intro _ _ _ _ hx; cases hx)]


theorem NewNodeSpec.suOf {σ σ' : Store} {a : Nat} (h : NewNodeSpec B σ σ' a) (b : Nat) : suOf B σ' b = suOf B σ b := by
  obtain ⟨nodes, links, tasks, ed, mem, hc⟩ := h.isCalc
  by_cases hbB : b = B
  · subst hbB; simp only [CritPathSrc.suOf, hc, h.calcObj _ _ _ _ _ hc]
  · by_cases hba : b = a
    · subst hba
      have : getO B σ b = none := getO_ge_none B (by have := h.addr; omega)
      simp only [CritPathSrc.suOf, h.new, this]
    · simp only [CritPathSrc.suOf, h.old b hbB hba]

theorem NewNodeSpec.euOf {σ σ' : Store} {a : Nat} (h : NewNodeSpec B σ σ' a) (b : Nat) : euOf B σ' b = euOf B σ b := by
  obtain ⟨nodes, links, tasks, ed, mem, hc⟩ := h.isCalc
  by_cases hbB : b = B
  · subst hbB; simp only [CritPathSrc.euOf, hc, h.calcObj _ _ _ _ _ hc]
  · by_cases hba : b = a
    · subst hba
      have : getO B σ b = none := getO_ge_none B (by have := h.addr; omega)
      simp only [CritPathSrc.euOf, h.new, this]
    · simp only [CritPathSrc.euOf, h.old b hbB hba]

theorem NewNodeSpec.link_old {σ σ' : Store} {a : Nat} (h : NewNodeSpec B σ σ' a) {l s e : Nat} {u : Rat}
    (hl : getO B σ l = some (.link s e u)) : getO B σ' l = some (.link s e u) := h.stable l s e u hl

end ops

/-! ### the network under construction -/

section net
variable (e : CPEnv) (B : Nat)

def upd (f : Uid → Nat) (t : Uid) (v : Nat) : Uid → Nat := fun x => if x = t then v else f x

theorem upd_same (f : Uid → Nat) (t : Uid) (v : Nat) : upd f t v t = v := by simp [upd]
theorem upd_ne (f : Uid → Nat) {t x : Uid} (v : Nat) (h : x ≠ t) : upd f t v x = f x := by simp [upd, h]

/-- the tasks `ts` have their two nodes `S t`, `E t` and their arc `L t`; `arrows` = the pairs (p, s) for which a
    zero-length arrow from the end of `p` to the start of `s` exists, in the order of their creation; nothing else
    touches these nodes; no memo field is set -/
structure Net (σ : Store) (ts : List Uid) (arrows : List (Uid × Uid)) (S E L : Uid → Nat) : Prop where
  link : ∀ t ∈ ts, getO B σ (L t) = some (.link (S t) (E t) (e.dur t))
  inS : ∀ t ∈ ts, inArcs B σ (S t) =
    some ((arrows.filter (fun a => decide (a.2 = t))).map (fun a => (E a.1, (0 : Rat))))
  outS : ∀ t ∈ ts, outArcs B σ (S t) = some [(E t, e.dur t)]
  inE : ∀ t ∈ ts, inArcs B σ (E t) = some [(S t, e.dur t)]
  outE : ∀ t ∈ ts, outArcs B σ (E t) =
    some ((arrows.filter (fun a => decide (a.1 = t))).map (fun a => (S a.2, (0 : Rat))))
  inj : ∀ t ∈ ts, ∀ t' ∈ ts, (S t = S t' → t = t') ∧ (E t = E t' → t = t') ∧ S t ≠ E t'
  arr : ∀ a ∈ arrows, a.1 ∈ ts ∧ a.2 ∈ ts
  fresh : ∀ a, suOf B σ a = none ∧ euOf B σ a = none

/-- an arrow from the end of `p` to the start of `s` -/
theorem Net.arrow {σ : Store} {ts : List Uid} {arrows : List (Uid × Uid)} {S E L : Uid → Nat}
    (h : Net e B σ ts arrows S E L) {p s : Uid} (hp : p ∈ ts) (hs : s ∈ ts) :
    ∃ σ', connectA B σ (E p) (S s) 0 = some (B + σ.length, σ') ∧ Net e B σ' ts (arrows ++ [(p, s)]) S E L ∧
      (∀ b o, getO B σ b = some o → (∀ fw bw su eu, o ≠ .node fw bw su eu) → getO B σ' b = some o) ∧
      σ'.length = σ.length + 1 := by
  obtain ⟨_, _, _, _, hgE, _⟩ := inArcs_some B (h.inE p hp)
  obtain ⟨_, _, _, _, hgS, _⟩ := inArcs_some B (h.inS s hs)
  have hne : E p ≠ S s := fun hx => (h.inj s hs p hp).2.2 hx.symm
  obtain ⟨σ', hrun, hc⟩ := connectA_spec B 0 hgE hgS hne
  refine ⟨σ', hrun, ⟨?_, ?_, ?_, ?_, ?_, h.inj, ?_, ?_⟩, fun b o hb hn => hc.other B hb hn, hc.len⟩
  · intro t ht
    exact hc.other B (h.link t ht) (by intro _ _ _ _ hx; cases hx)
  · intro t ht
    rw [hc.inArcs B (h.inS t ht), List.filter_append, List.map_append]
    by_cases hts : t = s
    · subst hts
      simp
    · have h1 : S t ≠ S s := fun hx => hts ((h.inj t ht s hs).1 hx)
      have h2 : s ≠ t := fun hx => hts hx.symm
      simp [h1, h2]
  · intro t ht
    rw [hc.outArcs B (h.outS t ht)]
    have h1 : S t ≠ E p := (h.inj t ht p hp).2.2
    simp [h1]
  · intro t ht
    rw [hc.inArcs B (h.inE t ht)]
    have h1 : E t ≠ S s := fun hx => (h.inj s hs t ht).2.2 hx.symm
    simp [h1]
  · intro t ht
    rw [hc.outArcs B (h.outE t ht), List.filter_append, List.map_append]
    by_cases htp : t = p
    · subst htp
      simp
    · have h1 : E t ≠ E p := fun hx => htp ((h.inj t ht p hp).2.1 hx)
      have h2 : p ≠ t := fun hx => htp hx.symm
      simp [h1, h2]
  · intro a ha
    rcases List.mem_append.mp ha with ha | ha
    · exact h.arr a ha
    · simp only [List.mem_singleton] at ha
      subst ha
      exact ⟨hp, hs⟩
  · intro a
    rw [hc.suOf B, hc.euOf B]
    exact h.fresh a

/-- the two nodes and the arc of a new task (the first three statements of `__add_work`) -/
theorem Net.newTask {σ : Store} {ts : List Uid} {arrows : List (Uid × Uid)} {S E L : Uid → Nat}
    (h : Net e B σ ts arrows S E L) {t : Uid} (ht : t ∉ ts)
    {nodes : List Nat} {links tasks : List (Atom × Atom)} {ed : Atom} {mem : List Atom}
    (hcalc : getO B σ B = some (.calc nodes links tasks ed mem)) :
    ∃ σ1 σ2 σ3, newNodeA B σ = some (B + σ.length, σ1) ∧ newNodeA B σ1 = some (B + σ.length + 1, σ2) ∧
      connectA B σ2 (B + σ.length) (B + σ.length + 1) (e.dur t) = some (B + σ.length + 2, σ3) ∧
      Net e B σ3 (ts ++ [t]) arrows (upd S t (B + σ.length)) (upd E t (B + σ.length + 1)) (upd L t (B + σ.length + 2)) ∧
      getO B σ3 B = some (.calc (nodes ++ [B + σ.length] ++ [B + σ.length + 1]) links tasks ed mem) ∧
      σ3.length = σ.length + 3 ∧
      (∀ l s' e' u, getO B σ l = some (.link s' e' u) → getO B σ3 l = some (.link s' e' u)) := by
  obtain ⟨σ1, hr1, hn1⟩ := newNodeA_spec B hcalc
  have hc1 := hn1.calcObj _ _ _ _ _ hcalc
  obtain ⟨σ2, hr2, hn2⟩ := newNodeA_spec B hc1
  have hc2 := hn2.calcObj _ _ _ _ _ hc1
  have hl1 : σ1.length = σ.length + 1 := hn1.len
  have hl2 : σ2.length = σ.length + 2 := by rw [hn2.len, hl1]
  rw [hl1] at hr2 hn2 hc2
  have hs2 : getO B σ2 (B + σ.length) = some (.node [] [] none none) := hn2.node_old B hn1.new
  have he2 : getO B σ2 (B + σ.length + 1) = some (.node [] [] none none) := by
    have := hn2.new
    rw [show B + (σ.length + 1) = B + σ.length + 1 by omega] at this
    exact this
  obtain ⟨σ3, hr3, hc⟩ := connectA_spec B (e.dur t) hs2 he2 (by omega)
  rw [hl2] at hr3 hc
  have hadd : B + (σ.length + 2) = B + σ.length + 2 := by omega
  have hadd1 : B + (σ.length + 1) = B + σ.length + 1 := by omega
  rw [hadd] at hr3 hc
  rw [hadd1] at hr2 hn2 hc2
  -- old nodes are below the new addresses
  have hlt : ∀ {b : Nat} {L' : List (Nat × Rat)}, inArcs B σ b = some L' → b < B + σ.length := by
    intro b L' hL'
    obtain ⟨_, _, _, _, hg, _⟩ := inArcs_some B hL'
    have := getO_some_lt B hg
    omega
  have hin : ∀ {b : Nat} {L' : List (Nat × Rat)}, inArcs B σ b = some L' → inArcs B σ3 b = some L' := by
    intro b L' hL'
    have hb := hlt hL'
    rw [hc.inArcs B (hn2.inArcs_old B (hn1.inArcs_old B hL'))]
    rw [if_neg (by omega)]
  have hout : ∀ {b : Nat} {L' : List (Nat × Rat)}, outArcs B σ b = some L' → outArcs B σ3 b = some L' := by
    intro b L' hL'
    obtain ⟨_, _, _, _, hg, _⟩ := outArcs_some B hL'
    have hb := getO_some_lt B hg
    rw [hc.outArcs B (hn2.outArcs_old B (hn1.outArcs_old B hL'))]
    rw [if_neg (by omega)]
  have hfil1 : arrows.filter (fun a => decide (a.2 = t)) = [] := by
    apply List.filter_eq_nil_iff.mpr
    intro a ha
    have := (h.arr a ha).2
    simp only [decide_eq_true_eq]
    intro hx; rw [hx] at this; exact ht this
  have hfil2 : arrows.filter (fun a => decide (a.1 = t)) = [] := by
    apply List.filter_eq_nil_iff.mpr
    intro a ha
    have := (h.arr a ha).1
    simp only [decide_eq_true_eq]
    intro hx; rw [hx] at this; exact ht this
  have hmapE : ∀ (l : List (Uid × Uid)), (∀ a ∈ l, a.1 ∈ ts) →
      l.map (fun a => (upd E t (B + σ.length + 1) a.1, (0 : Rat))) = l.map (fun a => (E a.1, (0 : Rat))) := by
    intro l hl
    apply List.map_congr_left
    intro a ha
    rw [upd_ne]
    intro hx; exact ht (hx ▸ hl a ha)
  have hmapS : ∀ (l : List (Uid × Uid)), (∀ a ∈ l, a.2 ∈ ts) →
      l.map (fun a => (upd S t (B + σ.length) a.2, (0 : Rat))) = l.map (fun a => (S a.2, (0 : Rat))) := by
    intro l hl
    apply List.map_congr_left
    intro a ha
    rw [upd_ne]
    intro hx; exact ht (hx ▸ hl a ha)
  refine ⟨σ1, σ2, σ3, hr1, hr2, hr3, ⟨?_, ?_, ?_, ?_, ?_, ?_, ?_, ?_⟩, ?_, ?_, ?_⟩
  · intro x hx
    rcases List.mem_append.mp hx with hx | hx
    · have hxt : x ≠ t := fun hh => ht (hh ▸ hx)
      rw [upd_ne _ _ hxt, upd_ne _ _ hxt, upd_ne _ _ hxt]
      exact hc.other B (hn2.link_old B (hn1.link_old B (h.link x hx))) (by intro _ _ _ _ hh; cases hh)
    · simp only [List.mem_singleton] at hx
      subst hx
      rw [upd_same, upd_same, upd_same]
      exact hc.link
  · intro x hx
    rcases List.mem_append.mp hx with hx | hx
    · have hxt : x ≠ t := fun hh => ht (hh ▸ hx)
      rw [upd_ne _ _ hxt, hin (h.inS x hx)]
      congr 1
      exact (hmapE _ (fun a ha => (h.arr a (List.mem_filter.mp ha).1).1)).symm
    · simp only [List.mem_singleton] at hx
      subst hx
      rw [upd_same, hfil1]
      have := hc.inArcs B (hn2.inArcs_old B hn1.inArcs_new)
      rw [this, if_neg (by omega)]
      rfl
  · intro x hx
    rcases List.mem_append.mp hx with hx | hx
    · have hxt : x ≠ t := fun hh => ht (hh ▸ hx)
      rw [upd_ne _ _ hxt, upd_ne _ _ hxt, hout (h.outS x hx)]
    · simp only [List.mem_singleton] at hx
      subst hx
      rw [upd_same, upd_same]
      have := hc.outArcs B (hn2.outArcs_old B hn1.outArcs_new)
      rw [this, if_pos rfl]
      rfl
  · intro x hx
    rcases List.mem_append.mp hx with hx | hx
    · have hxt : x ≠ t := fun hh => ht (hh ▸ hx)
      rw [upd_ne _ _ hxt, upd_ne _ _ hxt, hin (h.inE x hx)]
    · simp only [List.mem_singleton] at hx
      subst hx
      rw [upd_same, upd_same]
      have := hc.inArcs B hn2.inArcs_new
      rw [this, if_pos rfl]
      rfl
  · intro x hx
    rcases List.mem_append.mp hx with hx | hx
    · have hxt : x ≠ t := fun hh => ht (hh ▸ hx)
      rw [upd_ne _ _ hxt, hout (h.outE x hx)]
      congr 1
      exact (hmapS _ (fun a ha => (h.arr a (List.mem_filter.mp ha).1).2)).symm
    · simp only [List.mem_singleton] at hx
      subst hx
      rw [upd_same, hfil2]
      have := hc.outArcs B hn2.outArcs_new
      rw [this, if_neg (by omega)]
      rfl
  · -- injectivity
    have hSlt : ∀ x ∈ ts, S x < B + σ.length := fun x hx => hlt (h.inS x hx)
    have hElt : ∀ x ∈ ts, E x < B + σ.length := fun x hx => hlt (h.inE x hx)
    intro x hx0 y hy0
    rcases List.mem_append.mp hx0 with hx | hx <;> rcases List.mem_append.mp hy0 with hy | hy
    · have hxt : x ≠ t := fun hh => ht (hh ▸ hx)
      have hyt : y ≠ t := fun hh => ht (hh ▸ hy)
      rw [upd_ne _ _ hxt, upd_ne _ _ hyt, upd_ne _ _ hxt, upd_ne _ _ hyt]
      exact h.inj x hx y hy
    · have hxt : x ≠ t := fun hh => ht (hh ▸ hx)
      simp only [List.mem_singleton] at hy
      subst hy
      rw [upd_ne _ _ hxt, upd_ne _ _ hxt, upd_same, upd_same]
      have := hSlt x hx
      have := hElt x hx
      refine ⟨fun hh => by omega, fun hh => by omega, by omega⟩
    · have hyt : y ≠ t := fun hh => ht (hh ▸ hy)
      simp only [List.mem_singleton] at hx
      subst hx
      rw [upd_ne _ _ hyt, upd_ne _ _ hyt, upd_same, upd_same]
      have := hSlt y hy
      have := hElt y hy
      refine ⟨fun hh => by omega, fun hh => by omega, by omega⟩
    · simp only [List.mem_singleton] at hx hy
      subst hx; subst hy
      rw [upd_same, upd_same]
      refine ⟨fun _ => rfl, fun _ => rfl, by omega⟩
  · intro a ha
    obtain ⟨h1, h2⟩ := h.arr a ha
    exact ⟨List.mem_append_left _ h1, List.mem_append_left _ h2⟩
  · intro a
    rw [hc.suOf B, hc.euOf B, hn2.suOf B, hn2.euOf B, hn1.suOf B, hn1.euOf B]
    exact h.fresh a
  · exact hc.other B hc2 (by intro _ _ _ _ hh; cases hh)
  · rw [hc.len, hl2]
  · intro l s' e' u hl
    exact hc.other B (hn2.link_old B (hn1.link_old B hl)) (by intro _ _ _ _ hh; cases hh)

end net

end Pj.CritPathSrc
