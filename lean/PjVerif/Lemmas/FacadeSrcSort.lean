/-
  Lemmas/FacadeSrcSort.lean — stable sorting: the insertion sort of PyLite (`insSort`, the meaning of Python's `sorted` in
  `pySorted`) is `List.mergeSort` for a total preorder, hence the model's `sortBy` (Model/GraphOps.lean).  Used by
  Lemmas/FacadeSrcC.lean (stage 3 of the tie for the list facades of task.py) and by Lemmas/FacadeSrcCheckC.lean
  (`List.mergeSort` is defined by well-founded recursion and does not reduce in the kernel; `insSort` does).
-/
import PjVerif.Model.PyLite
import PjVerif.Model.GraphOps
namespace Pj.FacadeSrc
open Pj.PyLite

/-! ### stable sorting: insertion = `List.mergeSort` -/

theorem insLe_append {α : Type} (le : α → α → Bool) (a : α) (l₂ : List α) (h2 : ∀ c ∈ l₂.head?, le a c = true) :
    ∀ (l₁ : List α), (∀ b ∈ l₁, le a b = false) → insLe le a (l₁ ++ l₂) = l₁ ++ a :: l₂ := by
  intro l₁
  induction l₁ with
  | nil =>
    intro _
    cases l₂ with
    | nil => rfl
    | cons c l₂ => simp only [List.nil_append, insLe, h2 c (by simp), if_true]
  | cons b l₁ ih =>
    intro h1
    have hb := h1 b List.mem_cons_self
    simp only [List.cons_append, insLe, hb, Bool.false_eq_true, if_false]
    rw [ih (fun c hc => h1 c (List.mem_cons_of_mem _ hc))]

theorem insSort_eq_mergeSort {α : Type} (le : α → α → Bool) (htr : ∀ a b c, le a b = true → le b c = true → le a c = true)
    (htot : ∀ a b, (le a b || le b a) = true) : ∀ (l : List α), insSort le l = l.mergeSort le := by
  intro l
  induction l with
  | nil => simp [insSort]
  | cons a l ih =>
    obtain ⟨l₁, l₂, h1, h2, h3⟩ := List.mergeSort_cons htr htot a l
    have hs := List.pairwise_mergeSort htr htot (a :: l)
    rw [h1] at hs
    have ha2 : ∀ c ∈ l₂, le a c = true := by
      have := (List.pairwise_append.1 hs).2.1
      exact fun c hc => (List.pairwise_cons.1 this).1 c hc
    simp only [insSort, ih, h2, h1]
    apply insLe_append
    · intro c hc
      cases l₂ with
      | nil => simp at hc
      | cons d l₂ => simp at hc; subst hc; exact ha2 _ List.mem_cons_self
    · intro b hb
      have := h3 b hb
      simpa using this

theorem mem_insLe {α : Type} (le : α → α → Bool) (a b : α) : ∀ (l : List α), b ∈ insLe le a l ↔ b = a ∨ b ∈ l := by
  intro l
  induction l with
  | nil => simp [insLe]
  | cons c l ih =>
    simp only [insLe]
    split
    · simp
    · simp only [List.mem_cons, ih]
      constructor
      · rintro (h | h | h)
        · exact Or.inr (Or.inl h)
        · exact Or.inl h
        · exact Or.inr (Or.inr h)
      · rintro (h | h | h)
        · exact Or.inr (Or.inl h)
        · exact Or.inl h
        · exact Or.inr (Or.inr h)

theorem mem_insSort {α : Type} (le : α → α → Bool) (b : α) : ∀ (l : List α), b ∈ insSort le l ↔ b ∈ l := by
  intro l
  induction l with
  | nil => simp [insSort]
  | cons a l ih => simp only [insSort, mem_insLe, ih, List.mem_cons]

theorem insLe_map {α β : Type} (f : α → β) (le : β → β → Bool) (le' : α → α → Bool) (a : α) :
    ∀ (l : List α), (∀ b ∈ l, le' a b = le (f a) (f b)) → insLe le (f a) (l.map f) = (insLe le' a l).map f := by
  intro l
  induction l with
  | nil => intro _; rfl
  | cons c l ih =>
    intro h
    have hc := h c List.mem_cons_self
    simp only [List.map_cons, insLe, ← hc]
    split
    · rfl
    · simp only [List.map_cons, ih (fun b hb => h b (List.mem_cons_of_mem _ hb))]

theorem insSort_map {α β : Type} (f : α → β) (le : β → β → Bool) (le' : α → α → Bool) :
    ∀ (l : List α), (∀ a ∈ l, ∀ b ∈ l, le' a b = le (f a) (f b)) → insSort le (l.map f) = (insSort le' l).map f := by
  intro l
  induction l with
  | nil => intro _; rfl
  | cons a l ih =>
    intro h
    simp only [List.map_cons, insSort]
    rw [ih (fun x hx y hy => h x (List.mem_cons_of_mem _ hx) y (List.mem_cons_of_mem _ hy))]
    apply insLe_map
    intro b hb
    exact h a List.mem_cons_self b (List.mem_cons_of_mem _ ((mem_insSort le' b l).1 hb))

/-- the model's `sortBy` (`List.mergeSort`) is the stable insertion sort -/
theorem sortBy_eq_insSort (key : Uid → Int) (r : Bool) (l : List Uid) :
    sortBy key r l = insSort (fun a b => if r then decide (key b ≤ key a) else decide (key a ≤ key b)) l := by
  unfold sortBy
  cases r
  · simp only [Bool.false_eq_true, if_false]
    symm
    apply insSort_eq_mergeSort
    · intro a b c h1 h2
      simp only [decide_eq_true_eq] at h1 h2 ⊢
      exact Int.le_trans h1 h2
    · intro a b
      simp only [Bool.or_eq_true, decide_eq_true_eq]
      exact Int.le_total _ _
  · simp only [if_true]
    symm
    apply insSort_eq_mergeSort
    · intro a b c h1 h2
      simp only [decide_eq_true_eq] at h1 h2 ⊢
      exact Int.le_trans h2 h1
    · intro a b
      simp only [Bool.or_eq_true, decide_eq_true_eq]
      exact Int.le_total _ _

end Pj.FacadeSrc
