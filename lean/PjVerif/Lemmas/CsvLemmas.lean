/- Lemmas/CsvLemmas.lean — helper lemmas for Props/C13.lean -/
import PjVerif.Model.CsvRec
namespace Pj.Csv

/-! ### text layer: the reader undoes the writer -/

/-- explicit reader state, no error -/
abbrev S (st : St) (fld : List Char) (fs : List (List Char)) (rs : List (List (List Char))) : P :=
  { st := st, field := fld, fields := fs, recs := rs, err := false }

/-- a character that never forces quoting -/
def plain (c : Char) : Prop := (c == delim) = false ∧ (c == quote) = false ∧ (c == '\r') = false ∧ (c == '\n') = false

theorem needsQuote_false {f : List Char} (h : needsQuote f = false) : ∀ c ∈ f, plain c := by
  intro c hc
  have := (List.any_eq_false.mp h) c hc
  simp only [Bool.or_eq_true, not_or, Bool.not_eq_true] at this
  exact ⟨this.1.1.1, this.1.1.2, this.1.2, this.2⟩

theorem feed_cons (p : P) (b : Bool) (c : Char) (cs : List Char) :
    feed p b (c :: cs) = if c == '\n' then feed (endLine (stepChar p (some c))) true cs
      else feed (stepChar p (some c)) false cs := by
  simp only [feed]

theorem feed_cons_nl (p : P) (b : Bool) (cs : List Char) :
    feed p b ('\n' :: cs) = feed (endLine (stepChar p (some '\n'))) true cs := by
  simp [feed_cons]

theorem feed_cons_ne (p : P) (b : Bool) (c : Char) (cs : List Char) (h : (c == '\n') = false) :
    feed p b (c :: cs) = feed (stepChar p (some c)) false cs := by
  simp [feed_cons, h]

theorem feed_flag (p : P) (b b' : Bool) (c : Char) (cs : List Char) : feed p b (c :: cs) = feed p b' (c :: cs) := by
  simp only [feed]

/-! #### single steps -/
section steps
variable (fld : List Char) (fs : List (List Char)) (rs : List (List (List Char)))

theorem step_plain_inField {c : Char} (h : plain c) :
    stepChar (S .inField fld fs rs) (some c) = S .inField (c :: fld) fs rs := by
  obtain ⟨h1, h2, h3, h4⟩ := h; simp [stepChar, h1, h3, h4]
theorem step_plain_startField {c : Char} (h : plain c) :
    stepChar (S .startField fld fs rs) (some c) = S .inField (c :: fld) fs rs := by
  obtain ⟨h1, h2, h3, h4⟩ := h; simp [stepChar, h1, h2, h3, h4]
theorem step_plain_startRecord {c : Char} (h : plain c) :
    stepChar (S .startRecord fld fs rs) (some c) = S .inField (c :: fld) fs rs := by
  obtain ⟨h1, h2, h3, h4⟩ := h; simp [stepChar, h1, h2, h3, h4]

theorem step_quote_startField : stepChar (S .startField fld fs rs) (some quote) = S .inQuoted fld fs rs := by
  simp [stepChar, quote]
theorem step_quote_startRecord : stepChar (S .startRecord fld fs rs) (some quote) = S .inQuoted fld fs rs := by
  simp [stepChar, quote]
theorem step_quote_inQuoted : stepChar (S .inQuoted fld fs rs) (some quote) = S .quoteInQuoted fld fs rs := by
  simp [stepChar]
theorem step_quote_quoteInQuoted :
    stepChar (S .quoteInQuoted fld fs rs) (some quote) = S .inQuoted (quote :: fld) fs rs := by
  simp [stepChar, quote]
theorem step_other_inQuoted {c : Char} (h : (c == quote) = false) :
    stepChar (S .inQuoted fld fs rs) (some c) = S .inQuoted (c :: fld) fs rs := by
  simp [stepChar, h]
theorem endLine_inQuoted : endLine (S .inQuoted fld fs rs) = S .inQuoted fld fs rs := by
  simp [endLine, stepChar]

theorem step_delim_startField :
    stepChar (S .startField fld fs rs) (some delim) = S .startField [] (fld.reverse :: fs) rs := by
  simp [stepChar, delim, quote, P.saveField]
theorem step_delim_startRecord :
    stepChar (S .startRecord fld fs rs) (some delim) = S .startField [] (fld.reverse :: fs) rs := by
  simp [stepChar, delim, quote, P.saveField]
theorem step_delim_inField :
    stepChar (S .inField fld fs rs) (some delim) = S .startField [] (fld.reverse :: fs) rs := by
  simp [stepChar, delim, P.saveField]
theorem step_delim_quoteInQuoted :
    stepChar (S .quoteInQuoted fld fs rs) (some delim) = S .startField [] (fld.reverse :: fs) rs := by
  simp [stepChar, delim, quote, P.saveField]

theorem step_cr_startField :
    stepChar (S .startField fld fs rs) (some '\r') = S .eatCrnl [] (fld.reverse :: fs) rs := by
  simp [stepChar, P.saveField]
theorem step_cr_inField :
    stepChar (S .inField fld fs rs) (some '\r') = S .eatCrnl [] (fld.reverse :: fs) rs := by
  simp [stepChar, P.saveField]
theorem step_cr_quoteInQuoted :
    stepChar (S .quoteInQuoted fld fs rs) (some '\r') = S .eatCrnl [] (fld.reverse :: fs) rs := by
  simp [stepChar, P.saveField]
theorem step_cr_startRecord :
    stepChar (S .startRecord fld fs rs) (some '\r') = S .eatCrnl fld fs rs := by
  simp [stepChar]
theorem step_nl_eatCrnl : stepChar (S .eatCrnl fld fs rs) (some '\n') = S .eatCrnl fld fs rs := by
  simp [stepChar]
theorem endLine_eatCrnl : endLine (S .eatCrnl fld fs rs) = S .startRecord fld [] (fs.reverse :: rs) := by
  simp [endLine, stepChar]
end steps

/-- "\r\n" in state `eatCrnl`-bound situations: the line ends, the record is emitted -/
theorem feed_nl_eatCrnl (fld fs rs b rest) :
    feed (S .eatCrnl fld fs rs) b ('\n' :: rest) = feed (S .startRecord fld [] (fs.reverse :: rs)) true rest := by
  rw [feed_cons_nl, step_nl_eatCrnl, endLine_eatCrnl]

theorem feed_plain (fs : List (List Char)) (rs) (t : Char) (rest : List Char) :
    ∀ (f fld : List Char) (b : Bool), (∀ c ∈ f, plain c) →
      feed (S .inField fld fs rs) b (f ++ t :: rest) = feed (S .inField (f.reverse ++ fld) fs rs) false (t :: rest)
  | [], fld, b, _ => by simpa using feed_flag _ _ _ _ _
  | c :: cs, fld, b, h => by
    have hc := h c (by simp)
    have ih := feed_plain fs rs t rest cs (c :: fld) false (fun d hd => h d (by simp [hd]))
    rw [List.cons_append, feed_cons_ne _ _ _ _ hc.2.2.2, step_plain_inField _ _ _ hc, ih]
    simp

theorem feed_quoted (fs : List (List Char)) (rs) (rest : List Char) :
    ∀ (f fld : List Char) (b : Bool),
      feed (S .inQuoted fld fs rs) b (escapeQuotes f ++ quote :: rest) =
        feed (S .quoteInQuoted (f.reverse ++ fld) fs rs) false rest
  | [], fld, b => by
    rw [escapeQuotes, List.nil_append, feed_cons_ne _ _ _ _ (by simp [quote]), step_quote_inQuoted]; simp
  | c :: cs, fld, b => by
    have ih := feed_quoted fs rs rest cs (c :: fld) 
    by_cases hq : c == quote
    · have : c = quote := by simpa using hq
      subst this
      rw [escapeQuotes, if_pos hq, List.cons_append, List.cons_append,
        feed_cons_ne _ _ _ _ (by simp [quote]), step_quote_inQuoted,
        feed_cons_ne _ _ _ _ (by simp [quote]), step_quote_quoteInQuoted, ih]
      simp
    · have hq' : (c == quote) = false := by simpa using hq
      rw [escapeQuotes, if_neg hq, List.cons_append, feed_cons, step_other_inQuoted _ _ _ hq', endLine_inQuoted]
      split <;> (rw [ih]; simp)

/-- reading one encoded field up to (not including) its terminator `t` -/
theorem feed_field (st : St) (hst : st = .startField ∨ st = .startRecord) (f : List Char) (fs rs) (b : Bool)
    (t : Char) (rest : List Char) :
    ∃ st', ((st' = st ∧ f = []) ∨ st' = .inField ∨ st' = .quoteInQuoted) ∧
      feed (S st [] fs rs) b (encodeField f ++ t :: rest) = feed (S st' f.reverse fs rs) false (t :: rest) := by
  unfold encodeField
  by_cases hq : needsQuote f
  · refine ⟨.quoteInQuoted, Or.inr (Or.inr rfl), ?_⟩
    rw [if_pos hq]
    simp only [List.cons_append, List.append_assoc]
    rw [feed_cons_ne _ _ _ _ (by simp [quote])]
    rcases hst with rfl | rfl
    · rw [step_quote_startField, feed_quoted]; simp
    · rw [step_quote_startRecord, feed_quoted]; simp
  · have hq' : needsQuote f = false := by simpa using hq
    have hp := needsQuote_false hq'
    rw [if_neg hq]
    cases f with
    | nil => exact ⟨st, Or.inl ⟨rfl, rfl⟩, by simpa using feed_flag _ _ _ _ _⟩
    | cons c cs =>
      refine ⟨.inField, Or.inr (Or.inl rfl), ?_⟩
      have hc := hp c (by simp)
      rw [List.cons_append, feed_cons_ne _ _ _ _ hc.2.2.2]
      rcases hst with rfl | rfl
      · rw [step_plain_startField _ _ _ hc, feed_plain _ _ _ _ _ _ _ (fun d hd => hp d (by simp [hd]))]; simp
      · rw [step_plain_startRecord _ _ _ hc, feed_plain _ _ _ _ _ _ _ (fun d hd => hp d (by simp [hd]))]; simp

theorem feed_field_delim (st : St) (hst : st = .startField ∨ st = .startRecord) (f : List Char) (fs rs) (b : Bool)
    (rest : List Char) :
    feed (S st [] fs rs) b (encodeField f ++ delim :: rest) = feed (S .startField [] (f :: fs) rs) false rest := by
  obtain ⟨st', h, e⟩ := feed_field st hst f fs rs b delim rest
  rw [e, feed_cons_ne _ _ _ _ (by simp [delim])]
  rcases h with ⟨rfl, rfl⟩ | rfl | rfl
  · rcases hst with rfl | rfl
    · rw [step_delim_startField]; simp
    · rw [step_delim_startRecord]; simp
  · rw [step_delim_inField]; simp
  · rw [step_delim_quoteInQuoted]; simp

theorem feed_field_crnl (st : St) (f : List Char) (hst : st = .startField ∨ (st = .startRecord ∧ f ≠ []))
    (fs rs) (b : Bool) (rest : List Char) :
    feed (S st [] fs rs) b (encodeField f ++ '\r' :: '\n' :: rest) =
      feed (S .startRecord [] [] ((f :: fs).reverse :: rs)) true rest := by
  obtain ⟨st', h, e⟩ := feed_field st (hst.imp id And.left) f fs rs b '\r' ('\n' :: rest)
  rw [e, feed_cons_ne _ _ _ _ (by simp)]
  rcases h with ⟨rfl, rfl⟩ | rfl | rfl
  · rcases hst with rfl | ⟨_, h⟩
    · rw [step_cr_startField, feed_nl_eatCrnl]; simp
    · exact absurd rfl h
  · rw [step_cr_inField, feed_nl_eatCrnl]; simp
  · rw [step_cr_quoteInQuoted, feed_nl_eatCrnl]; simp

theorem joinFields_cons_cons (f g : List Char) (more : List (List Char)) :
    joinFields (f :: g :: more) = f ++ delim :: joinFields (g :: more) := by
  simp [joinFields]

/-- the fields of a record from the second one on -/
theorem feed_fields (rs) (rest : List Char) :
    ∀ (row : List (List Char)) (fs : List (List Char)) (b : Bool), row ≠ [] →
      feed (S .startField [] fs rs) b (joinFields (row.map encodeField) ++ '\r' :: '\n' :: rest) =
        feed (S .startRecord [] [] ((row.reverse ++ fs).reverse :: rs)) true rest
  | [], _, _, h => absurd rfl h
  | [f], fs, b, _ => by
    simpa [joinFields] using feed_field_crnl .startField f (Or.inl rfl) fs rs b rest
  | f :: g :: more, fs, b, _ => by
    have ih := feed_fields rs rest (g :: more) (f :: fs) false (by simp)
    rw [List.map_cons, List.map_cons, joinFields_cons_cons, List.append_assoc, List.cons_append,
      feed_field_delim _ (Or.inl rfl), ← List.map_cons, ih]
    simp

theorem feed_row (row : List (List Char)) (rs) (b : Bool) (rest : List Char) :
    feed (S .startRecord [] [] rs) b (encodeRow row ++ rest) = feed (S .startRecord [] [] (row :: rs)) true rest := by
  unfold encodeRow
  by_cases h : row = [[]]
  · subst h
    rw [if_pos (by simp)]
    show feed _ b (quote :: quote :: '\r' :: '\n' :: rest) = _
    rw [feed_cons_ne _ _ _ _ (by simp [quote]), step_quote_startRecord,
      feed_cons_ne _ _ _ _ (by simp [quote]), step_quote_inQuoted,
      feed_cons_ne _ _ _ _ (by simp), step_cr_quoteInQuoted, feed_nl_eatCrnl]
    simp
  · rw [if_neg (by simpa using h)]
    match row, h with
    | [], _ =>
      show feed _ b ('\r' :: '\n' :: rest) = _
      rw [feed_cons_ne _ _ _ _ (by simp), step_cr_startRecord, feed_nl_eatCrnl]
      simp
    | [f], h =>
      have hf : f ≠ [] := by intro e; subst e; exact h rfl
      simpa [joinFields] using feed_field_crnl .startRecord f (Or.inr ⟨rfl, hf⟩) [] rs b rest
    | f :: g :: more, _ =>
      have := feed_fields rs rest (g :: more) [f] false (by simp)
      rw [List.map_cons, List.map_cons, joinFields_cons_cons, List.append_assoc, List.append_assoc, List.cons_append,
        feed_field_delim _ (Or.inr rfl), ← List.map_cons, ← List.append_assoc]
      simpa using this

theorem feed_file : ∀ (rows : List (List (List Char))) (rs),
    feed (S .startRecord [] [] rs) true (encodeFile rows) = S .startRecord [] [] (rows.reverse ++ rs)
  | [], rs => by simp [encodeFile, feed, endInput]
  | row :: more, rs => by
    have ih := feed_file more (row :: rs)
    have : encodeFile (row :: more) = encodeRow row ++ encodeFile more := by simp [encodeFile]
    rw [this, feed_row, ih]; simp

theorem parse_encodeFile (rows : List (List (List Char))) : parse (encodeFile rows) = some rows := by
  unfold parse
  have := feed_file rows []
  simp only [S] at this
  simp [this]

/-! ### field layer -/

def stripBom (h : Str) : Str := h.filter (fun c => c != '﻿')

theorem headerIndex_def (hdr : List Str) (name : Str) : headerIndex hdr name =
   (List.range (hdr.map stripBom).length).foldl (fun acc i => if (hdr.map stripBom).getD i [] == name then some i else acc) none := rfl

theorem readRow_def (hdr row : List Str) : readRow hdr row =
  (cellAt hdr row "id".toList).bind fun id =>
  (cellAt hdr row "name".toList).bind fun name =>
  (cellAt hdr row "resource".toList).bind fun resource =>
  (cellAt hdr row "start".toList).bind fun start =>
  (cellAt hdr row "end".toList).bind fun end_ =>
  (cellAt hdr row "estimate".toList).bind fun est =>
  (cellAt hdr row "spent".toList).bind fun spent =>
  (cellAt hdr row "milestone".toList).bind fun ms =>
  (cellAt hdr row "parent_id".toList).bind fun pid =>
  (cellAt hdr row "predecessor_ids".toList).bind fun preds =>
  ((((hdr.map stripBom).eraseDups.filter (fun c => !defaultFields.contains c))).mapM
      (fun c => (cellAt hdr row c).map (fun v => (c, nonEmpty v)))).bind fun custom =>
  some { id := id, name := nonEmpty name, resource := nonEmpty resource, start := nonEmpty start, end_ := nonEmpty end_,
         estimate := nonEmpty est, spent := nonEmpty spent, milestone := ms == "True".toList, parentId := nonEmpty pid,
         predIds := if preds.isEmpty then [] else splitOn ';' preds, custom := custom } := rfl

theorem cellAt_def (hdr row : List Str) (name : Str) :
    cellAt hdr row name = (headerIndex hdr name).bind (fun i => row[i]?) := rfl

/-! #### header lookup -/

theorem headerIndex_aux (clean : List Str) (name : Str) (i : Nat) (hnd : clean.Nodup) (hi : clean[i]? = some name) :
    ∀ n, n ≤ clean.length →
      (List.range n).foldl (fun acc k => if clean.getD k [] == name then some k else acc) none =
        if i < n then some i else none
  | 0, _ => by simp
  | n + 1, hn => by
    have ih := headerIndex_aux clean name i hnd hi n (by omega)
    rw [List.range_succ, List.foldl_append, ih]
    simp only [List.foldl_cons, List.foldl_nil]
    have hil : i < clean.length := (List.getElem?_eq_some_iff.mp hi).1
    have hie : clean[i] = name := (List.getElem?_eq_some_iff.mp hi).2
    by_cases hni : n = i
    · subst hni
      simp [List.getD_eq_getElem?_getD, hi]
    · have hne : (clean.getD n [] == name) = false := by
        have hnl : n < clean.length := by omega
        simp only [List.getD_eq_getElem?_getD, List.getElem?_eq_getElem hnl, Option.getD_some,
          beq_eq_false_iff_ne, ne_eq]
        intro e
        exact hni ((List.getElem_inj hnd).mp (e.trans hie.symm))
      rw [hne]
      by_cases h1 : i < n
      · simp [h1, Nat.lt_succ_of_lt h1]
      · have : ¬ i < n + 1 := by omega
        simp [h1, this]

theorem headerIndex_eq (hdr : List Str) (name : Str) (i : Nat) (hnd : (hdr.map stripBom).Nodup)
    (hi : (hdr.map stripBom)[i]? = some name) : headerIndex hdr name = some i := by
  rw [headerIndex_def, headerIndex_aux _ name i hnd hi _ (Nat.le_refl _)]
  have := (List.getElem?_eq_some_iff.mp hi).1
  simp only [List.length_map] at this ⊢
  simp [this]

theorem cellAt_eq (hdr row : List Str) (name : Str) (i : Nat) (hclean : hdr.map stripBom = hdr) (hnd : hdr.Nodup)
    (hi : hdr[i]? = some name) : cellAt hdr row name = row[i]? := by
  rw [cellAt_def, headerIndex_eq hdr name i (by rw [hclean]; exact hnd) (by rw [hclean]; exact hi)]
  rfl

/-! #### `eraseDups` -/

theorem nodup_eraseDups {α} [BEq α] [LawfulBEq α] : ∀ l : List α, l.eraseDups.Nodup
  | [] => by simp
  | a :: as => by
    have : (as.filter fun b => !b == a).length < as.length + 1 :=
      Nat.lt_succ_of_le (List.length_filter_le _ as)
    rw [List.eraseDups_cons, List.nodup_cons]
    refine ⟨?_, nodup_eraseDups _⟩
    rw [List.mem_eraseDups, List.mem_filter]
    simp
termination_by l => l.length

theorem eraseDups_of_nodup {α} [BEq α] [LawfulBEq α] : ∀ {l : List α}, l.Nodup → l.eraseDups = l
  | [], _ => by simp
  | a :: as, h => by
    rw [List.nodup_cons] at h
    rw [List.eraseDups_cons]
    have : as.filter (fun b => !b == a) = as := by
      rw [List.filter_eq_self]; intro b hb; simp; intro e; subst e; exact h.1 hb
    rw [this, eraseDups_of_nodup h.2]

theorem eraseDups_append_of_subset {α} [BEq α] [LawfulBEq α] {l m : List α} (hl : l.Nodup) (hm : ∀ x ∈ m, x ∈ l) :
    (l ++ m).eraseDups = l := by
  rw [List.eraseDups_append, eraseDups_of_nodup hl]
  have : m.removeAll l = [] := by
    simp only [List.removeAll, List.filter_eq_nil_iff]
    intro a ha; simpa using hm a ha
  rw [this]; simp

/-! #### small facts about cells -/

theorem mapM_map_some {α β γ} (h : α → β) (f : β → Option γ) (g : α → γ) :
    ∀ l : List α, (∀ a ∈ l, f (h a) = some (g a)) → (l.map h).mapM f = some (l.map g)
  | [], _ => by simp
  | a :: as, H => by
    have ih := mapM_map_some h f g as (fun x hx => H x (by simp [hx]))
    simp [List.mapM_cons, H a (by simp), ih]

theorem nonEmpty_orEmpty (x : Option Str) : nonEmpty (orEmpty x) = x.bind nonEmpty := by
  cases x with
  | none => simp [orEmpty, nonEmpty]
  | some s => simp [orEmpty]

theorem nonEmpty_orEmpty_of_ne {x : Option Str} (h : x ≠ some []) : nonEmpty (orEmpty x) = x := by
  cases x with
  | none => simp [orEmpty, nonEmpty]
  | some s =>
    have : s ≠ [] := fun e => h (by rw [e])
    simp [orEmpty, nonEmpty, this]

theorem orEmpty_nonEmpty (s : Str) : orEmpty (nonEmpty s) = s := by
  cases s <;> simp [orEmpty, nonEmpty]

theorem milestone_cell (b : Bool) : ((if b then "True".toList else "False".toList) == "True".toList) = b := by
  cases b <;> decide

/-! #### `splitOn` undoes `joinWith` -/

def splitStep (sep : Char) (c : Char) (acc : List Str) : List Str :=
  if c == sep then [] :: acc else match acc with
    | [] => [[c]]
    | x :: xs => (c :: x) :: xs

theorem splitOn_def (sep : Char) (s : Str) : splitOn sep s = s.foldr (splitStep sep) [[]] := rfl

theorem splitOn_step_noSep (sep : Char) : ∀ (x : Str) (y : Str) (ys : List Str), sep ∉ x →
    x.foldr (splitStep sep) (y :: ys) = (x ++ y) :: ys
  | [], _, _, _ => rfl
  | c :: cs, y, ys, h => by
    simp only [List.mem_cons, not_or] at h
    have hc : (c == sep) = false := by simp; exact fun e => h.1 e.symm
    rw [List.foldr_cons, splitOn_step_noSep sep cs y ys h.2]
    simp [splitStep, hc]

theorem splitOn_joinWith (sep : Char) : ∀ l : List Str, l ≠ [] → (∀ x ∈ l, sep ∉ x) →
    splitOn sep (joinWith sep l) = l
  | [], h, _ => absurd rfl h
  | [x], _, hx => by
    rw [joinWith, splitOn_def, splitOn_step_noSep sep x [] [] (hx x (by simp))]; simp
  | x :: y :: l, _, hx => by
    have ih := splitOn_joinWith sep (y :: l) (by simp) (fun z hz => hx z (by simp [hz]))
    have : joinWith sep (x :: y :: l) = x ++ sep :: joinWith sep (y :: l) := by simp [joinWith]
    rw [this]
    rw [splitOn_def] at ih ⊢
    rw [List.foldr_append, List.foldr_cons, ih]
    have : splitStep sep sep (y :: l) = [] :: y :: l := by simp [splitStep]
    rw [this, splitOn_step_noSep sep x [] _ (hx x (by simp))]; simp

theorem joinWith_eq_nil {sep : Char} : ∀ {l : List Str}, (∀ x ∈ l, x ≠ []) → joinWith sep l = [] → l = []
  | [], _, _ => rfl
  | [x], h, e => by simp [joinWith] at e; exact absurd e (h x (by simp))
  | x :: y :: l, h, e => by
    have : joinWith sep (x :: y :: l) = x ++ sep :: joinWith sep (y :: l) := by simp [joinWith]
    rw [this] at e; simp at e

theorem preds_cell (l : List Str) (h : ∀ p ∈ l, p ≠ [] ∧ ';' ∉ p) :
    (if (joinWith ';' l).isEmpty then [] else splitOn ';' (joinWith ';' l)) = l := by
  by_cases hl : l = []
  · subst hl; simp [joinWith]
  · have : (joinWith ';' l).isEmpty = false := by
      cases hj : (joinWith ';' l).isEmpty with
      | false => rfl
      | true => exact absurd (joinWith_eq_nil (fun x hx => (h x hx).1) (List.isEmpty_iff.mp hj)) hl
    rw [this]
    simpa using splitOn_joinWith ';' l hl (fun x hx => (h x hx).2)

/-! #### the header written by `writeCsv` -/

/-- custom columns the writer can handle: distinct, no clash with the standard names, no byte-order mark -/
def GoodCols (cols : List Str) : Prop := cols.Nodup ∧ ∀ c ∈ cols, c ∉ defaultFields ∧ '﻿' ∉ c

theorem stripBom_of_notMem {c : Str} (h : '﻿' ∉ c) : stripBom c = c := by
  unfold stripBom
  rw [List.filter_eq_self]
  intro a ha
  simp only [bne_iff_ne, ne_eq]
  intro e; subst e; exact h ha

theorem hdr_clean {cols : List Str} (h : GoodCols cols) :
    (defaultFields ++ cols).map stripBom = defaultFields ++ cols := by
  rw [List.map_append]
  have h1 : defaultFields.map stripBom = defaultFields := by decide
  have h2 : cols.map stripBom = cols := by
    conv => rhs; rw [← List.map_id cols]
    exact List.map_congr_left (fun c hc => stripBom_of_notMem (h.2 c hc).2)
  rw [h1, h2]

theorem hdr_nodup {cols : List Str} (h : GoodCols cols) : (defaultFields ++ cols).Nodup := by
  rw [List.nodup_append]
  refine ⟨by decide, h.1, ?_⟩
  intro a ha b hb e
  subst e
  exact (h.2 a hb).1 ha

theorem hdr_customs {cols : List Str} (h : GoodCols cols) :
    (((defaultFields ++ cols).map stripBom).eraseDups.filter (fun c => !defaultFields.contains c)) = cols := by
  rw [hdr_clean h, eraseDups_of_nodup (hdr_nodup h), List.filter_append]
  have h1 : defaultFields.filter (fun c => !defaultFields.contains c) = [] := by decide
  have h2 : cols.filter (fun c => !defaultFields.contains c) = cols := by
    rw [List.filter_eq_self]; intro c hc; simpa using (h.2 c hc).1
  rw [h1, h2]; rfl

theorem cellAt_custom {cols : List Str} (h : GoodCols cols) (r : Rec) (c : Str) (hc : c ∈ cols) :
    cellAt (defaultFields ++ cols) (rowCells cols r) c = some (customCell r c) := by
  obtain ⟨j, hj⟩ := List.mem_iff_getElem?.mp hc
  have hlen : defaultFields.length = 10 := by decide
  rw [cellAt_eq _ _ c (10 + j) (hdr_clean h) (hdr_nodup h)
    (by rw [List.getElem?_append_right (by omega), hlen]; simpa using hj)]
  unfold rowCells
  rw [List.getElem?_append_right (by simp)]
  simp [hj]

theorem cellAt_std {cols : List Str} (h : GoodCols cols) (r : Rec) (i : Nat) (name v : Str)
    (h1 : (defaultFields ++ cols)[i]? = some name) (h2 : (rowCells cols r)[i]? = some v) :
    cellAt (defaultFields ++ cols) (rowCells cols r) name = some v := by
  rw [cellAt_eq _ _ name i (hdr_clean h) (hdr_nodup h) h1, h2]

/-- a written row read back under the written header -/
theorem readRow_rowCells {cols : List Str} (h : GoodCols cols) (r : Rec) :
    readRow (defaultFields ++ cols) (rowCells cols r) = some
      { id := r.id, name := r.name.bind nonEmpty, resource := r.resource.bind nonEmpty,
        start := r.start.bind nonEmpty, end_ := r.end_.bind nonEmpty, estimate := r.estimate.bind nonEmpty,
        spent := r.spent.bind nonEmpty, milestone := r.milestone, parentId := r.parentId.bind nonEmpty,
        predIds := if (joinWith ';' r.predIds).isEmpty then [] else splitOn ';' (joinWith ';' r.predIds),
        custom := cols.map (fun c => (c, nonEmpty (customCell r c))) } := by
  rw [readRow_def, hdr_customs h,
    cellAt_std h r 0 _ r.id rfl rfl,
    cellAt_std h r 1 _ (orEmpty r.name) rfl rfl,
    cellAt_std h r 2 _ (orEmpty r.resource) rfl rfl,
    cellAt_std h r 3 _ (orEmpty r.start) rfl rfl,
    cellAt_std h r 4 _ (orEmpty r.end_) rfl rfl,
    cellAt_std h r 5 _ (orEmpty r.estimate) rfl rfl,
    cellAt_std h r 6 _ (orEmpty r.spent) rfl rfl,
    cellAt_std h r 7 _ (if r.milestone then "True".toList else "False".toList) rfl rfl,
    cellAt_std h r 8 _ (orEmpty r.parentId) rfl rfl,
    cellAt_std h r 9 _ (joinWith ';' r.predIds) rfl rfl]
  have hm : cols.mapM (fun c => (cellAt (defaultFields ++ cols) (rowCells cols r) c).map (fun v => (c, nonEmpty v))) =
      some (cols.map (fun c => (c, nonEmpty (customCell r c)))) := by
    have := mapM_map_some (fun c : Str => c)
      (fun c => (cellAt (defaultFields ++ cols) (rowCells cols r) c).map (fun v => (c, nonEmpty v)))
      (fun c => (c, nonEmpty (customCell r c))) cols (fun c hc => by rw [cellAt_custom h r c hc]; rfl)
    simpa using this
  rw [hm]
  simp only [Option.bind_some, nonEmpty_orEmpty, milestone_cell]

theorem bind_nonEmpty_of_ne {x : Option Str} (h : x ≠ some []) : x.bind nonEmpty = x := by
  rw [← nonEmpty_orEmpty, nonEmpty_orEmpty_of_ne h]

theorem readRow_rowCells_normalise {cols : List Str} (h : GoodCols cols) (r : Rec)
    (hs : r.start ≠ some []) (he : r.end_ ≠ some []) (hest : r.estimate ≠ some []) (hsp : r.spent ≠ some [])
    (hpid : r.parentId ≠ some []) (hp : ∀ p ∈ r.predIds, p ≠ [] ∧ ';' ∉ p) :
    readRow (defaultFields ++ cols) (rowCells cols r) = some (normalise cols r) := by
  rw [readRow_rowCells h, preds_cell _ hp, bind_nonEmpty_of_ne hs, bind_nonEmpty_of_ne he, bind_nonEmpty_of_ne hest,
    bind_nonEmpty_of_ne hsp, bind_nonEmpty_of_ne hpid]
  rfl

/-- the whole file: if every row is read back as `g r`, the file is read back as `recs.map g` -/
theorem readCsv_writeCsv (recs : List Rec) (g : Rec → Rec)
    (H : ∀ r ∈ recs, readRow (defaultFields ++ customColumns recs) (rowCells (customColumns recs) r) = some (g r)) :
    readCsv (writeCsv recs) = some (recs.map g) := by
  unfold readCsv writeCsv
  rw [parse_encodeFile]
  simp only [fileRows]
  exact mapM_map_some _ _ _ recs H

theorem goodCols_customColumns (recs : List Rec)
    (H : ∀ r ∈ recs, ∀ c ∈ r.custom.map (·.1), c ∉ defaultFields ∧ '﻿' ∉ c) : GoodCols (customColumns recs) := by
  refine ⟨nodup_eraseDups _, ?_⟩
  intro c hc
  simp only [customColumns, List.mem_eraseDups, List.mem_flatMap] at hc
  obtain ⟨r, hr, hc⟩ := hc
  exact H r hr c hc

/-! #### a second round trip -/

theorem find?_map_pair {β} (g : Str → β) (c : Str) : ∀ cols : List Str, c ∈ cols →
    (cols.map (fun c' => (c', g c'))).find? (fun p => p.1 == c) = some (c, g c)
  | [], h => by cases h
  | d :: ds, h => by
    by_cases hd : d = c
    · subst hd; simp
    · have : c ∈ ds := by
        cases h with
        | head => exact absurd rfl hd
        | tail _ h => exact h
      have ih := find?_map_pair g c ds this
      simp only [List.map_cons, List.find?_cons]
      have : (d == c) = false := by simpa using hd
      simp only [this]
      exact ih

theorem customCell_normalise (cols : List Str) (r : Rec) (c : Str) (hc : c ∈ cols) :
    customCell (normalise cols r) c = customCell r c := by
  have h1 : (normalise cols r).custom.find? (fun p => p.1 == c) = some (c, nonEmpty (customCell r c)) :=
    find?_map_pair (fun c => nonEmpty (customCell r c)) c cols hc
  have h2 : customCell (normalise cols r) c = orEmpty (nonEmpty (customCell r c)) := by
    show (match (normalise cols r).custom.find? (fun p => p.1 == c) with
      | some p => orEmpty p.2
      | none => []) = _
    rw [h1]
  rw [h2, orEmpty_nonEmpty]

theorem bind_nonEmpty_idem (x : Option Str) : (x.bind nonEmpty).bind nonEmpty = x.bind nonEmpty := by
  cases x with
  | none => rfl
  | some s => cases s <;> simp [nonEmpty]

theorem normalise_idem (cols : List Str) (r : Rec) : normalise cols (normalise cols r) = normalise cols r := by
  have : cols.map (fun c => (c, nonEmpty (customCell (normalise cols r) c))) =
      cols.map (fun c => (c, nonEmpty (customCell r c))) :=
    List.map_congr_left (fun c hc => by rw [customCell_normalise cols r c hc])
  unfold normalise at this ⊢
  simp only [bind_nonEmpty_idem, this]

theorem custom_names_normalise (cols : List Str) (r : Rec) : (normalise cols r).custom.map (·.1) = cols := by
  simp [normalise, List.map_map, Function.comp_def]

theorem customColumns_normalise (cols : List Str) (hc : cols.Nodup) :
    ∀ recs : List Rec, recs ≠ [] → customColumns (recs.map (normalise cols)) = cols
  | [], h => absurd rfl h
  | r :: rs, _ => by
    unfold customColumns
    rw [List.map_cons, List.flatMap_cons, custom_names_normalise]
    apply eraseDups_append_of_subset hc
    intro x hx
    obtain ⟨r', hr', hx⟩ := List.mem_flatMap.mp hx
    obtain ⟨r'', _, rfl⟩ := List.mem_map.mp hr'
    rw [custom_names_normalise] at hx
    exact hx

/-! #### byte-order mark -/

theorem stripBom_bom (h : Str) : stripBom ('﻿' :: h) = stripBom h := by
  simp [stripBom]

theorem headerIndex_bom (hdr : List Str) (h0 name : Str) :
    headerIndex (('﻿' :: h0) :: hdr) name = headerIndex (h0 :: hdr) name := by
  rw [headerIndex_def, headerIndex_def, List.map_cons, List.map_cons, stripBom_bom]

theorem cellAt_bom (hdr : List Str) (h0 : Str) (row : List Str) (name : Str) :
    cellAt (('﻿' :: h0) :: hdr) row name = cellAt (h0 :: hdr) row name := by
  rw [cellAt_def, cellAt_def, headerIndex_bom]

theorem readRow_bom (hdr : List Str) (h0 : Str) (row : List Str) :
    readRow (('﻿' :: h0) :: hdr) row = readRow (h0 :: hdr) row := by
  rw [readRow_def, readRow_def]
  simp only [cellAt_bom, List.map_cons, stripBom_bom]

/-! ### structure layer -/

def Tree.rootId : Tree → Str
  | .node id _ => id

/-- rows whose parent is `x` -/
abbrev kidsOf (x : Str) (R : List (Str × Option Str)) : List (Str × Option Str) := R.filter (fun r => r.2 == some x)

theorem rowsList_cons (p : Option Str) (t : Tree) (ts : List Tree) :
    Tree.rowsList p (t :: ts) = Tree.rows p t ++ Tree.rowsList p ts := by simp [Tree.rowsList]
theorem rows_node (p : Option Str) (id : Str) (ch : List Tree) :
    Tree.rows p (.node id ch) = (id, p) :: Tree.rowsList (some id) ch := by simp [Tree.rows]

mutual
  /-- a tree that does not contain the id `x` contributes at most its root row to the rows with parent `x` -/
  theorem kidsOf_rows_notMem (x : Str) : ∀ (t : Tree) (p : Option Str), x ∉ (Tree.rows p t).map (·.1) →
      kidsOf x (Tree.rows p t) = if p == some x then [(t.rootId, p)] else []
    | .node id ch, p, h => by
      rw [rows_node] at h ⊢
      simp only [List.map_cons, List.mem_cons, not_or] at h
      have ih := kidsOf_rowsList_notMem x ch (some id) h.2
      have hne : (some id == some x) = false := by
        simp only [beq_eq_false_iff_ne, ne_eq, Option.some.injEq]; exact fun e => h.1 e.symm
      rw [hne] at ih
      simp only [kidsOf, List.filter_cons] at ih ⊢
      rw [ih]
      by_cases hp : p == some x <;> simp [hp, Tree.rootId]
  theorem kidsOf_rowsList_notMem (x : Str) : ∀ (ts : List Tree) (p : Option Str),
      x ∉ (Tree.rowsList p ts).map (·.1) →
      kidsOf x (Tree.rowsList p ts) = if p == some x then ts.map (fun c => (c.rootId, p)) else []
    | [], p, _ => by simp [Tree.rowsList]
    | t :: ts, p, h => by
      rw [rowsList_cons] at h ⊢
      simp only [List.map_append, List.mem_append, not_or] at h
      have h1 := kidsOf_rows_notMem x t p h.1
      have h2 := kidsOf_rowsList_notMem x ts p h.2
      simp only [kidsOf, List.filter_append] at h1 h2 ⊢
      rw [h1, h2]
      by_cases hp : p == some x <;> simp [hp]
end

theorem rows_ne_nil (p : Option Str) : ∀ t : Tree, Tree.rows p t ≠ []
  | .node id ch => by simp [rows_node]

theorem rowsList_eq_nil {p : Option Str} : ∀ {ts : List Tree}, Tree.rowsList p ts = [] → ts = []
  | [], _ => rfl
  | t :: ts, h => by
    rw [rowsList_cons] at h
    exact absurd (List.append_eq_nil_iff.mp h).1 (rows_ne_nil p t)

theorem buildTree_succ (R : List (Str × Option Str)) (f : Nat) (id : Str) :
    buildTree R (f + 1) id = .node id ((kidsOf id R).map (fun r => buildTree R f r.1)) := by
  simp [buildTree, kidsOf]

mutual
  theorem buildTree_rows (R : List (Str × Option Str)) : ∀ (t : Tree) (p : Option Str) (fuel : Nat),
      ((Tree.rows p t).map (·.1)).Nodup → (∀ x, p = some x → x ∉ (Tree.rows p t).map (·.1)) →
      (∀ x ∈ (Tree.rows p t).map (·.1), kidsOf x R = kidsOf x (Tree.rows p t)) →
      (Tree.rows p t).length ≤ fuel + 1 → buildTree R fuel t.rootId = t
    | .node id ch, p, fuel, hnd, hp, hk, hlen => by
      rw [rows_node] at hnd hp hk hlen
      simp only [List.map_cons, List.nodup_cons] at hnd
      simp only [List.length_cons, Nat.add_le_add_iff_right] at hlen
      have hpid : (p == some id) = false := by
        simp only [beq_eq_false_iff_ne, ne_eq]; intro e; exact hp id e (by simp)
      cases fuel with
      | zero =>
        have : ch = [] := rowsList_eq_nil (List.eq_nil_of_length_eq_zero (Nat.le_zero.mp hlen))
        subst this; simp [buildTree, Tree.rootId]
      | succ f =>
        have hkid : kidsOf id R = ch.map (fun c => (c.rootId, some id)) := by
          rw [hk id (by simp)]
          have := kidsOf_rowsList_notMem id ch (some id) hnd.1
          simp only [kidsOf, List.filter_cons] at this ⊢
          simp [hpid, this]
        have ih := buildTree_rowsList R ch (some id) f hnd.2
          (by intro x hx; cases hx; exact hnd.1)
          (by
            intro x hx
            have hpx : (p == some x) = false := by
              simp only [beq_eq_false_iff_ne, ne_eq]; intro e; exact hp x e (by simp [hx])
            rw [hk x (by simp [hx])]
            simp [kidsOf, hpx])
          hlen
        simp only [Tree.rootId]
        rw [buildTree_succ, hkid, List.map_map]
        exact congrArg _ ih
  theorem buildTree_rowsList (R : List (Str × Option Str)) : ∀ (ts : List Tree) (p : Option Str) (fuel : Nat),
      ((Tree.rowsList p ts).map (·.1)).Nodup → (∀ x, p = some x → x ∉ (Tree.rowsList p ts).map (·.1)) →
      (∀ x ∈ (Tree.rowsList p ts).map (·.1), kidsOf x R = kidsOf x (Tree.rowsList p ts)) →
      (Tree.rowsList p ts).length ≤ fuel + 1 → ts.map (fun c => buildTree R fuel c.rootId) = ts
    | [], _, _, _, _, _, _ => rfl
    | t :: ts, p, fuel, hnd, hp, hk, hlen => by
      rw [rowsList_cons] at hnd hp hk hlen
      simp only [List.map_append, List.nodup_append] at hnd
      obtain ⟨hnd1, hnd2, hdisj⟩ := hnd
      simp only [List.length_append] at hlen
      have h1 := buildTree_rows R t p fuel hnd1
        (fun x hx hm => hp x hx (by simp only [List.map_append, List.mem_append]; exact Or.inl hm))
        (by
          intro x hx
          have hpx : (p == some x) = false := by
            simp only [beq_eq_false_iff_ne, ne_eq]; intro e
            exact hp x e (by simp only [List.map_append, List.mem_append]; exact Or.inl hx)
          have hnot : x ∉ (Tree.rowsList p ts).map (·.1) := fun hm => hdisj x hx x hm rfl
          rw [hk x (by simp only [List.map_append, List.mem_append]; exact Or.inl hx)]
          have := kidsOf_rowsList_notMem x ts p hnot
          simp only [kidsOf, List.filter_append] at this ⊢
          rw [this, hpx]; simp)
        (by omega)
      have h2 := buildTree_rowsList R ts p fuel hnd2
        (fun x hx hm => hp x hx (by simp only [List.map_append, List.mem_append]; exact Or.inr hm))
        (by
          intro x hx
          have hpx : (p == some x) = false := by
            simp only [beq_eq_false_iff_ne, ne_eq]; intro e
            exact hp x e (by simp only [List.map_append, List.mem_append]; exact Or.inr hx)
          have hnot : x ∉ (Tree.rows p t).map (·.1) := fun hm => hdisj x hm x hx rfl
          rw [hk x (by simp only [List.map_append, List.mem_append]; exact Or.inr hx)]
          have := kidsOf_rows_notMem x t p hnot
          simp only [kidsOf, List.filter_append] at this ⊢
          rw [this, hpx]; simp)
        (by omega)
      rw [List.map_cons, h1, h2]
end

/-- the root filter of `rebuildForest` -/
abbrev isRootRow (K : List Str) (r : Str × Option Str) : Bool :=
  match r.2 with | none => true | some p => !K.contains p

mutual
  theorem roots_rows (K : List Str) : ∀ (t : Tree) (p : Option Str), (∀ x ∈ (Tree.rows p t).map (·.1), x ∈ K) →
      (Tree.rows p t).filter (isRootRow K) = if isRootRow K (t.rootId, p) then [(t.rootId, p)] else []
    | .node id ch, p, h => by
      rw [rows_node] at h ⊢
      have ih := roots_rowsList K ch (some id) (fun x hx => h x (by simp at hx ⊢; exact Or.inr hx)) id
      have hid : id ∈ K := h id (by simp)
      have : isRootRow K (id, some id) = false := by simp [isRootRow, hid]
      rw [this] at ih
      rw [List.filter_cons, ih]
      simp [Tree.rootId, isRootRow]
  theorem roots_rowsList (K : List Str) : ∀ (ts : List Tree) (p : Option Str),
      (∀ x ∈ (Tree.rowsList p ts).map (·.1), x ∈ K) → ∀ d : Str,
      (Tree.rowsList p ts).filter (isRootRow K) = if isRootRow K (d, p) then ts.map (fun c => (c.rootId, p)) else []
    | [], p, _, d => by simp [Tree.rowsList]
    | t :: ts, p, h, d => by
      rw [rowsList_cons] at h ⊢
      have h1 := roots_rows K t p (fun x hx => h x (by simp at hx ⊢; exact Or.inl hx))
      have h2 := roots_rowsList K ts p (fun x hx => h x (by simp at hx ⊢; exact Or.inr hx)) d
      rw [List.filter_append, h1, h2]
      have : isRootRow K (t.rootId, p) = isRootRow K (d, p) := rfl
      rw [this]
      split <;> simp
end

theorem rebuildForest_rows (f : List Tree) (hn : ((Tree.rowsList none f).map (·.1)).Nodup) :
    rebuildForest (Tree.rowsList none f) = f := by
  have h := roots_rowsList ((Tree.rowsList none f).map (·.1)) f none (fun _ hx => hx) []
  rw [if_pos rfl] at h
  rw [show rebuildForest (Tree.rowsList none f) =
      List.map (fun r => buildTree (Tree.rowsList none f) (Tree.rowsList none f).length r.1)
        ((Tree.rowsList none f).filter (isRootRow ((Tree.rowsList none f).map (·.1)))) from rfl, h, List.map_map]
  exact buildTree_rowsList _ f none _ hn (fun x hx => by cases hx) (fun _ _ => rfl) (Nat.le_succ _)

end Pj.Csv
