/- Lemmas/CsvLemmas.lean — helper lemmas for Props/C13.lean -/
import PjVerif.Model.CsvRec
namespace Pj.Csv

/-! ### text layer: the reader undoes the writer -/

/-- explicit reader state, no error -/
abbrev S (st : St) (fld : List Char) (fs : List (List Char)) (rs : List (List (List Char))) : P :=
  { st := st, field := fld, fields := fs, recs := rs, err := false }

/-- a character that never forces quoting -/
def plain (c : Char) : Prop := (c == delim) = false ∧ (c == quote) = false ∧ (c == '\r') = false ∧ (c == '\n') = false

theorem needsQuote_false {f : List Char} (h : needsQuote f = false) : ∀ c ∈ f, plain c := by
  intro c hc
  have := (List.any_eq_false.mp h) c hc
  simp only [Bool.or_eq_true, not_or, Bool.not_eq_true] at this
  exact ⟨this.1.1.1, this.1.1.2, this.1.2, this.2⟩

theorem feed_cons (p : P) (b : Bool) (c : Char) (cs : List Char) :
    feed p b (c :: cs) = if c == '\n' then feed (endLine (stepChar p (some c))) true cs
      else feed (stepChar p (some c)) false cs := by
  simp only [feed]

theorem feed_cons_nl (p : P) (b : Bool) (cs : List Char) :
    feed p b ('\n' :: cs) = feed (endLine (stepChar p (some '\n'))) true cs := by
  simp [feed_cons]

theorem feed_cons_ne (p : P) (b : Bool) (c : Char) (cs : List Char) (h : (c == '\n') = false) :
    feed p b (c :: cs) = feed (stepChar p (some c)) false cs := by
  simp [feed_cons, h]

theorem feed_flag (p : P) (b b' : Bool) (c : Char) (cs : List Char) : feed p b (c :: cs) = feed p b' (c :: cs) := by
  simp only [feed]

/-! #### single steps -/
section steps
variable (fld : List Char) (fs : List (List Char)) (rs : List (List (List Char)))

theorem step_plain_inField {c : Char} (h : plain c) :
    stepChar (S .inField fld fs rs) (some c) = S .inField (c :: fld) fs rs := by
  obtain ⟨h1, h2, h3, h4⟩ := h; simp [stepChar, h1, h3, h4]
theorem step_plain_startField {c : Char} (h : plain c) :
    stepChar (S .startField fld fs rs) (some c) = S .inField (c :: fld) fs rs := by
  obtain ⟨h1, h2, h3, h4⟩ := h; simp [stepChar, h1, h2, h3, h4]
theorem step_plain_startRecord {c : Char} (h : plain c) :
    stepChar (S .startRecord fld fs rs) (some c) = S .inField (c :: fld) fs rs := by
  obtain ⟨h1, h2, h3, h4⟩ := h; simp [stepChar, h1, h2, h3, h4]

theorem step_quote_startField : stepChar (S .startField fld fs rs) (some quote) = S .inQuoted fld fs rs := by
  simp [stepChar, quote]
theorem step_quote_startRecord : stepChar (S .startRecord fld fs rs) (some quote) = S .inQuoted fld fs rs := by
  simp [stepChar, quote]
theorem step_quote_inQuoted : stepChar (S .inQuoted fld fs rs) (some quote) = S .quoteInQuoted fld fs rs := by
  simp [stepChar]
theorem step_quote_quoteInQuoted :
    stepChar (S .quoteInQuoted fld fs rs) (some quote) = S .inQuoted (quote :: fld) fs rs := by
  simp [stepChar, quote]
theorem step_other_inQuoted {c : Char} (h : (c == quote) = false) :
    stepChar (S .inQuoted fld fs rs) (some c) = S .inQuoted (c :: fld) fs rs := by
  simp [stepChar, h]
theorem endLine_inQuoted : endLine (S .inQuoted fld fs rs) = S .inQuoted fld fs rs := by
  simp [endLine, stepChar]

theorem step_delim_startField :
    stepChar (S .startField fld fs rs) (some delim) = S .startField [] (fld.reverse :: fs) rs := by
  simp [stepChar, delim, quote, P.saveField]
theorem step_delim_startRecord :
    stepChar (S .startRecord fld fs rs) (some delim) = S .startField [] (fld.reverse :: fs) rs := by
  simp [stepChar, delim, quote, P.saveField]
theorem step_delim_inField :
    stepChar (S .inField fld fs rs) (some delim) = S .startField [] (fld.reverse :: fs) rs := by
  simp [stepChar, delim, P.saveField]
theorem step_delim_quoteInQuoted :
    stepChar (S .quoteInQuoted fld fs rs) (some delim) = S .startField [] (fld.reverse :: fs) rs := by
  simp [stepChar, delim, quote, P.saveField]

theorem step_cr_startField :
    stepChar (S .startField fld fs rs) (some '\r') = S .eatCrnl [] (fld.reverse :: fs) rs := by
  simp [stepChar, P.saveField]
theorem step_cr_inField :
    stepChar (S .inField fld fs rs) (some '\r') = S .eatCrnl [] (fld.reverse :: fs) rs := by
  simp [stepChar, P.saveField]
theorem step_cr_quoteInQuoted :
    stepChar (S .quoteInQuoted fld fs rs) (some '\r') = S .eatCrnl [] (fld.reverse :: fs) rs := by
  simp [stepChar, P.saveField]
theorem step_cr_startRecord :
    stepChar (S .startRecord fld fs rs) (some '\r') = S .eatCrnl fld fs rs := by
  simp [stepChar]
theorem step_nl_eatCrnl : stepChar (S .eatCrnl fld fs rs) (some '\n') = S .eatCrnl fld fs rs := by
  simp [stepChar]
theorem endLine_eatCrnl : endLine (S .eatCrnl fld fs rs) = S .startRecord fld [] (fs.reverse :: rs) := by
  simp [endLine, stepChar]
end steps

/-- "\r\n" in state `eatCrnl`-bound situations: the line ends, the record is emitted -/
theorem feed_nl_eatCrnl (fld fs rs b rest) :
    feed (S .eatCrnl fld fs rs) b ('\n' :: rest) = feed (S .startRecord fld [] (fs.reverse :: rs)) true rest := by
  rw [feed_cons_nl, step_nl_eatCrnl, endLine_eatCrnl]

theorem feed_plain (fs : List (List Char)) (rs) (t : Char) (rest : List Char) :
    ∀ (f fld : List Char) (b : Bool), (∀ c ∈ f, plain c) →
      feed (S .inField fld fs rs) b (f ++ t :: rest) = feed (S .inField (f.reverse ++ fld) fs rs) false (t :: rest)
  | [], fld, b, _ => by simpa using feed_flag _ _ _ _ _
  | c :: cs, fld, b, h => by
    have hc := h c (by simp)
    have ih := feed_plain fs rs t rest cs (c :: fld) false (fun d hd => h d (by simp [hd]))
    rw [List.cons_append, feed_cons_ne _ _ _ _ hc.2.2.2, step_plain_inField _ _ _ hc, ih]
    simp

theorem feed_quoted (fs : List (List Char)) (rs) (rest : List Char) :
    ∀ (f fld : List Char) (b : Bool),
      feed (S .inQuoted fld fs rs) b (escapeQuotes f ++ quote :: rest) =
        feed (S .quoteInQuoted (f.reverse ++ fld) fs rs) false rest
  | [], fld, b => by
    rw [escapeQuotes, List.nil_append, feed_cons_ne _ _ _ _ (by simp [quote]), step_quote_inQuoted]; simp
  | c :: cs, fld, b => by
    have ih := feed_quoted fs rs rest cs (c :: fld) 
    by_cases hq : c == quote
    · have : c = quote := by simpa using hq
      subst this
      rw [escapeQuotes, if_pos hq, List.cons_append, List.cons_append,
        feed_cons_ne _ _ _ _ (by simp [quote]), step_quote_inQuoted,
        feed_cons_ne _ _ _ _ (by simp [quote]), step_quote_quoteInQuoted, ih]
      simp
    · have hq' : (c == quote) = false := by simpa using hq
      rw [escapeQuotes, if_neg hq, List.cons_append, feed_cons, step_other_inQuoted _ _ _ hq', endLine_inQuoted]
      split <;> (rw [ih]; simp)

/-- reading one encoded field up to (not including) its terminator `t` -/
theorem feed_field (st : St) (hst : st = .startField ∨ st = .startRecord) (f : List Char) (fs rs) (b : Bool)
    (t : Char) (rest : List Char) :
    ∃ st', ((st' = st ∧ f = []) ∨ st' = .inField ∨ st' = .quoteInQuoted) ∧
      feed (S st [] fs rs) b (encodeField f ++ t :: rest) = feed (S st' f.reverse fs rs) false (t :: rest) := by
  unfold encodeField
  by_cases hq : needsQuote f
  · refine ⟨.quoteInQuoted, Or.inr (Or.inr rfl), ?_⟩
    rw [if_pos hq]
    simp only [List.cons_append, List.append_assoc]
    rw [feed_cons_ne _ _ _ _ (by simp [quote])]
    rcases hst with rfl | rfl
    · rw [step_quote_startField, feed_quoted]; simp
    · rw [step_quote_startRecord, feed_quoted]; simp
  · have hq' : needsQuote f = false := by simpa using hq
    have hp := needsQuote_false hq'
    rw [if_neg hq]
    cases f with
    | nil => exact ⟨st, Or.inl ⟨rfl, rfl⟩, by simpa using feed_flag _ _ _ _ _⟩
    | cons c cs =>
      refine ⟨.inField, Or.inr (Or.inl rfl), ?_⟩
      have hc := hp c (by simp)
      rw [List.cons_append, feed_cons_ne _ _ _ _ hc.2.2.2]
      rcases hst with rfl | rfl
      · rw [step_plain_startField _ _ _ hc, feed_plain _ _ _ _ _ _ _ (fun d hd => hp d (by simp [hd]))]; simp
      · rw [step_plain_startRecord _ _ _ hc, feed_plain _ _ _ _ _ _ _ (fun d hd => hp d (by simp [hd]))]; simp

theorem feed_field_delim (st : St) (hst : st = .startField ∨ st = .startRecord) (f : List Char) (fs rs) (b : Bool)
    (rest : List Char) :
    feed (S st [] fs rs) b (encodeField f ++ delim :: rest) = feed (S .startField [] (f :: fs) rs) false rest := by
  obtain ⟨st', h, e⟩ := feed_field st hst f fs rs b delim rest
  rw [e, feed_cons_ne _ _ _ _ (by simp [delim])]
  rcases h with ⟨rfl, rfl⟩ | rfl | rfl
  · rcases hst with rfl | rfl
    · rw [step_delim_startField]; simp
    · rw [step_delim_startRecord]; simp
  · rw [step_delim_inField]; simp
  · rw [step_delim_quoteInQuoted]; simp

theorem feed_field_crnl (st : St) (f : List Char) (hst : st = .startField ∨ (st = .startRecord ∧ f ≠ []))
    (fs rs) (b : Bool) (rest : List Char) :
    feed (S st [] fs rs) b (encodeField f ++ '\r' :: '\n' :: rest) =
      feed (S .startRecord [] [] ((f :: fs).reverse :: rs)) true rest := by
  obtain ⟨st', h, e⟩ := feed_field st (hst.imp id And.left) f fs rs b '\r' ('\n' :: rest)
  rw [e, feed_cons_ne _ _ _ _ (by simp)]
  rcases h with ⟨rfl, rfl⟩ | rfl | rfl
  · rcases hst with rfl | ⟨_, h⟩
    · rw [step_cr_startField, feed_nl_eatCrnl]; simp
    · exact absurd rfl h
  · rw [step_cr_inField, feed_nl_eatCrnl]; simp
  · rw [step_cr_quoteInQuoted, feed_nl_eatCrnl]; simp

theorem joinFields_cons_cons (f g : List Char) (more : List (List Char)) :
    joinFields (f :: g :: more) = f ++ delim :: joinFields (g :: more) := by
  simp [joinFields]

/-- the fields of a record from the second one on -/
theorem feed_fields (rs) (rest : List Char) :
    ∀ (row : List (List Char)) (fs : List (List Char)) (b : Bool), row ≠ [] →
      feed (S .startField [] fs rs) b (joinFields (row.map encodeField) ++ '\r' :: '\n' :: rest) =
        feed (S .startRecord [] [] ((row.reverse ++ fs).reverse :: rs)) true rest
  | [], _, _, h => absurd rfl h
  | [f], fs, b, _ => by
    simpa [joinFields] using feed_field_crnl .startField f (Or.inl rfl) fs rs b rest
  | f :: g :: more, fs, b, _ => by
    have ih := feed_fields rs rest (g :: more) (f :: fs) false (by simp)
    rw [List.map_cons, List.map_cons, joinFields_cons_cons, List.append_assoc, List.cons_append,
      feed_field_delim _ (Or.inl rfl), ← List.map_cons, ih]
    simp

theorem feed_row (row : List (List Char)) (rs) (b : Bool) (rest : List Char) :
    feed (S .startRecord [] [] rs) b (encodeRow row ++ rest) = feed (S .startRecord [] [] (row :: rs)) true rest := by
  unfold encodeRow
  by_cases h : row = [[]]
  · subst h
    rw [if_pos (by simp)]
    show feed _ b (quote :: quote :: '\r' :: '\n' :: rest) = _
    rw [feed_cons_ne _ _ _ _ (by simp [quote]), step_quote_startRecord,
      feed_cons_ne _ _ _ _ (by simp [quote]), step_quote_inQuoted,
      feed_cons_ne _ _ _ _ (by simp), step_cr_quoteInQuoted, feed_nl_eatCrnl]
    simp
  · rw [if_neg (by simpa using h)]
    match row, h with
    | [], _ =>
      show feed _ b ('\r' :: '\n' :: rest) = _
      rw [feed_cons_ne _ _ _ _ (by simp), step_cr_startRecord, feed_nl_eatCrnl]
      simp
    | [f], h =>
      have hf : f ≠ [] := by intro e; subst e; exact h rfl
      simpa [joinFields] using feed_field_crnl .startRecord f (Or.inr ⟨rfl, hf⟩) [] rs b rest
    | f :: g :: more, _ =>
      have := feed_fields rs rest (g :: more) [f] false (by simp)
      rw [List.map_cons, List.map_cons, joinFields_cons_cons, List.append_assoc, List.append_assoc, List.cons_append,
        feed_field_delim _ (Or.inr rfl), ← List.map_cons, ← List.append_assoc]
      simpa using this

theorem feed_file : ∀ (rows : List (List (List Char))) (rs),
    feed (S .startRecord [] [] rs) true (encodeFile rows) = S .startRecord [] [] (rows.reverse ++ rs)
  | [], rs => by simp [encodeFile, feed, endInput]
  | row :: more, rs => by
    have ih := feed_file more (row :: rs)
    have : encodeFile (row :: more) = encodeRow row ++ encodeFile more := by simp [encodeFile]
    rw [this, feed_row, ih]; simp

theorem parse_encodeFile (rows : List (List (List Char))) : parse (encodeFile rows) = some rows := by
  unfold parse
  have := feed_file rows []
  simp only [S] at this
  simp [this]

end Pj.Csv
