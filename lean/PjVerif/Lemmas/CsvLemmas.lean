/- Lemmas/CsvLemmas.lean — helper lemmas for Props/C13.lean -/
import PjVerif.Model.CsvRec
namespace Pj.Csv

end Pj.Csv
