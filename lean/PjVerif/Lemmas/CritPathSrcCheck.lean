/-
  Lemmas/CritPathSrcCheck.lean — stage 1 of the translated tie for alg/critical_path.py: kernel-checked concrete runs of
  `wbs.critical_path()` (Extracted/CritPathSrc.lean) against Model/CritPath.lean.  See Lemmas/CritPathSrc.lean.
  Every example states (a) the exact list the translated program returns - it is the list the real Python returns on
  the same WBS (scratch run of src/pjplan, insertion order of `__links`) - and (b) `agree`: that list and the model's
  `criticalPath` are the same SET of tasks, each once.
-/
import PjVerif.Lemmas.CritPathSrc
namespace Pj.CritPathSrc
open Pj.PyLite Pj.Extracted.CritPath

deriving instance DecidableEq for Except

namespace Check

/-- a row of a WBS description: parent, children, predecessors, estimate, spent (as in Drive/CritPath.lean) -/
abbrev Row := Option Uid × List Uid × List Uid × Option Rat × Option Rat

def mkEnv (rows : List Row) (members : List Uid) : CPEnv :=
  let row (u : Nat) : Row := rows.getD u (none, [], [], none, none)
  { n := rows.length, members := members,
    children := fun u => (row u).2.1, parent := fun u => (row u).1, preds := fun u => (row u).2.2.1,
    est := fun u => (row u).2.2.2.1, spent := fun u => (row u).2.2.2.2 }

/-- the fuel of the runs: the depth of nested calls -/
def FC : Nat := 60

def sameSet (a b : List Atom) : Bool := a.all b.contains && b.all a.contains

/-- the run returns the model's critical tasks (as a set, each once), or both fail with the same error -/
def agree (e : CPEnv) (tid : Uid → Int) : Bool :=
  match interpCriticalPath FC e tid, e.criticalPath with
  | .ok (.list l), .ok m => sameSet l (m.map Atom.ref) && decide (l.eraseDups.length = l.length)
  | .error a, .error b => decide (a = b)
  | _, _ => false

/-- ids of their own -/
def tidOf (u : Uid) : Int := 100 + u

/-- a chain 0 -> 1 -> 2 -/
def chain : CPEnv := mkEnv
  [(none, [], [], some 2, none),
   (none, [], [0], some 3, some 1),
   (none, [], [1], some 1, none)]
  [0, 1, 2]
example : interpCriticalPath FC chain tidOf = .ok (refs [0, 1, 2]) := by decide +kernel   -- Python: the same list
example : agree chain tidOf = true := by decide +kernel

/-- a diamond 0 -> {1, 2} -> 3, the branch through 2 is longer -/
def diamond : CPEnv := mkEnv
  [(none, [], [], some 1, none),
   (none, [], [0], some 3, none),
   (none, [], [0], some 5, none),
   (none, [], [1, 2], some 2, none)]
  [0, 1, 2, 3]
example : interpCriticalPath FC diamond tidOf = .ok (refs [0, 2, 3]) := by decide +kernel   -- Python: the same list
example : agree diamond tidOf = true := by decide +kernel

/-- parallel branches with a tie (1 and 2), a shorter branch (4), an independent chain of the same total length (5), a short one (6) -/
def ties : CPEnv := mkEnv
  [(none, [], [], some 1, none),
   (none, [], [0], some 4, none),
   (none, [], [0], some 6, some 2),
   (none, [], [1, 2], some 2, none),
   (none, [], [0], some 3, none),
   (none, [], [], some 7, none),
   (none, [], [], some 1, none)]
  [0, 1, 2, 3, 4, 5, 6]
example : interpCriticalPath FC ties tidOf = .ok (refs [0, 1, 2, 3, 5]) := by decide +kernel   -- Python: the same list
example : agree ties tidOf = true := by decide +kernel

/-- zero-length tasks on the longest chain (1 in the middle, 6 at its end) and off it (3, 7 alone, 5 after 4) -/
def zeros : CPEnv := mkEnv
  [(none, [], [], some 2, none),
   (none, [], [0], some 0, none),
   (none, [], [1], some 3, none),
   (none, [], [], some 0, none),
   (none, [], [], some 1, none),
   (none, [], [4], some 0, none),
   (none, [], [2], some 0, none),
   (none, [], [], none, none)]
  [0, 1, 2, 3, 4, 5, 6, 7]
example : interpCriticalPath FC zeros tidOf = .ok (refs [0, 1, 2, 6]) := by decide +kernel   -- Python: the same list
example : agree zeros tidOf = true := by decide +kernel

/-- a single task -/
def single : CPEnv := mkEnv
  [(none, [], [], some 3, none)]
  [0]
example : interpCriticalPath FC single tidOf = .ok (refs [0]) := by decide +kernel   -- Python: the same list
example : agree single tidOf = true := by decide +kernel

/-- no links at all: the longest tasks are critical -/
def nolinks : CPEnv := mkEnv
  [(none, [], [], some 3, none),
   (none, [], [], some 5, none),
   (some 4, [], [], some 5, some 1),
   (some 4, [], [], some 5, none),
   (none, [2, 3], [], none, none)]
  [0, 1, 2, 3, 4]
example : interpCriticalPath FC nolinks tidOf = .ok (refs [1, 3]) := by decide +kernel   -- Python: the same list
example : agree nolinks tidOf = true := by decide +kernel

/-- no tasks -/
def empty : CPEnv := mkEnv
  []
  []
example : interpCriticalPath FC empty tidOf = .ok (refs []) := by decide +kernel   -- Python: the same list
example : agree empty tidOf = true := by decide +kernel

/-- nested summaries over one leaf without estimate -/
def onlysummary : CPEnv := mkEnv
  [(none, [1], [], some 3, none),
   (some 0, [2], [], some 1, none),
   (some 1, [], [], none, none)]
  [0, 1, 2]
example : interpCriticalPath FC onlysummary tidOf = .ok (refs [2]) := by decide +kernel   -- Python: the same list
example : agree onlysummary tidOf = true := by decide +kernel

end Check
end Pj.CritPathSrc
