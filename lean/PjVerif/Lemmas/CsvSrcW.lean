/-
  Lemmas/CsvSrcW.lean — CSV I/O, the WRITE side, general lemmas (every library `L`): `TaskRaw(...)` builds the raw object,
  `tasks_to_raws` copies the public attributes.
-/
import PjVerif.Lemmas.CsvSrcB1
namespace Pj.CsvSrc
open Pj.PyLite Pj.Extracted.Csv Pj.Csv

/-! ### `TaskRaw.__init__` -/

section stmts
variable {H : PHandlers} {self : PyLite.Env} {rec : List Atom → PState → Res (Val × PState)}

theorem exec_setAttr_var {o f x : String} {env : PyLite.Env} {st : PState} {v : Val} {i : Nat}
    (hx : env.get? x = some v) (ho : env.get? o = some (.atom (.ref i))) :
    (Stmt.setAttr (.var o) f (.var x)).execP H self rec env st =
      .normal env { st with heap := heapSet st.heap i f v } := by
  simp only [Stmt.execP, Expr.evalP, hx, ho, bind, Except.bind, pure, Except.pure]

end stmts

/-- the ten slots `TaskRaw.__init__` sets, in order -/
def rawBase (a : List Val) : PyLite.Env :=
  [("id", a.getD 0 (.atom .none)), ("name", a.getD 1 (.atom .none)), ("resource", a.getD 2 (.atom .none)),
   ("start", a.getD 3 (.atom .none)), ("end", a.getD 4 (.atom .none)), ("milestone", a.getD 5 (.atom .none)),
   ("estimate", a.getD 6 (.atom .none)), ("spent", a.getD 7 (.atom .none)), ("parent_id", a.getD 8 (.atom .none)),
   ("predecessor_ids", a.getD 9 (.atom .none))]

/-- `TaskRaw.__init__(self, id, …, predecessor_ids, {})` on a fresh object -/
theorem taskRaw_init (L : IOLib) (F o : Nat) (a0 a1 a2 a3 a4 a5 a6 a7 a8 a9 : Val) (st : PState) (ho : st.heap o = []) :
    callPV (HH L F) src_TaskRaw_init_params src_TaskRaw_init
      [.atom (.ref o), a0, a1, a2, a3, a4, a5, a6, a7, a8, a9, .dict []] st =
    .ok (.atom .none, { st with heap := fun j => if j = o then rawBase [a0, a1, a2, a3, a4, a5, a6, a7, a8, a9]
                                                  else st.heap j }) := by
  simp only [callPV, bindParamsV, src_TaskRaw_init_params, src_TaskRaw_init, pure, Except.pure, bind, Except.bind]
  rw [block_cons_normal (exec_setAttr_var (i := o) (v := a0) (by simp [PyLite.Env.get?]) (by simp [PyLite.Env.get?])),
    block_cons_normal (exec_setAttr_var (i := o) (v := a1) (by simp [PyLite.Env.get?]) (by simp [PyLite.Env.get?])),
    block_cons_normal (exec_setAttr_var (i := o) (v := a2) (by simp [PyLite.Env.get?]) (by simp [PyLite.Env.get?])),
    block_cons_normal (exec_setAttr_var (i := o) (v := a3) (by simp [PyLite.Env.get?]) (by simp [PyLite.Env.get?])),
    block_cons_normal (exec_setAttr_var (i := o) (v := a4) (by simp [PyLite.Env.get?]) (by simp [PyLite.Env.get?])),
    block_cons_normal (exec_setAttr_var (i := o) (v := a5) (by simp [PyLite.Env.get?]) (by simp [PyLite.Env.get?])),
    block_cons_normal (exec_setAttr_var (i := o) (v := a6) (by simp [PyLite.Env.get?]) (by simp [PyLite.Env.get?])),
    block_cons_normal (exec_setAttr_var (i := o) (v := a7) (by simp [PyLite.Env.get?]) (by simp [PyLite.Env.get?])),
    block_cons_normal (exec_setAttr_var (i := o) (v := a8) (by simp [PyLite.Env.get?]) (by simp [PyLite.Env.get?])),
    block_cons_normal (exec_setAttr_var (i := o) (v := a9) (by simp [PyLite.Env.get?]) (by simp [PyLite.Env.get?])),
    block_cons_normal (exec_forIn (v := .dict []) (vs := []) (by simp [Expr.evalP, PyLite.Env.get?]; rfl) rfl)]
  simp only [forLoopP, execBlockP]
  congr 3
  funext j
  by_cases hj : j = o
  · subst hj
    simp [heapSet, ho, PyLite.Env.set, rawBase]
  · simp [heapSet, hj]

/-! ### expressions, one at a time -/

section exprs
variable {H : PHandlers} {self : PyLite.Env}

theorem eval_var {x : String} {env : PyLite.Env} {st : PState} {v : Val} (hx : env.get? x = some v) :
    (Expr.var x).evalP H self env st = .ok (v, st) := by
  simp only [Expr.evalP, hx, pure, Except.pure]

theorem eval_attr {e : Expr} {f : String} {env : PyLite.Env} {st st' : PState} {i : Nat} {v : Val}
    (he : e.evalP H self env st = .ok (.atom (.ref i), st')) (hf : (st'.heap i).get? f = some v) :
    (Expr.attr e f).evalP H self env st = .ok (v, st') := by
  simp only [Expr.evalP, he, hf, bind, Except.bind, pure, Except.pure]

theorem evalArgs_nil {env : PyLite.Env} {st : PState} : Expr.listNil.evalArgsP H self env st = .ok ([], st) := by
  simp only [Expr.evalArgsP, pure, Except.pure]

theorem evalArgs_cons {a l : Expr} {env : PyLite.Env} {st st' st'' : PState} {v : Val} {vs : List Val}
    (ha : a.evalP H self env st = .ok (v, st')) (hl : l.evalArgsP H self env st' = .ok (vs, st'')) :
    (Expr.listCons a l).evalArgsP H self env st = .ok (v :: vs, st'') := by
  simp only [Expr.evalArgsP, ha, hl, bind, Except.bind, pure, Except.pure]

theorem eval_construct {k : Nat} {args : Expr} {env : PyLite.Env} {st st1 st2 : PState} {vs : List Val} {r : Val}
    (ha : args.evalArgsP H self env st = .ok (vs, st1))
    (hc : H.fnV k (Val.atom (Atom.ref st1.reads) :: vs)
      { st1 with heap := fun j => if j = st1.reads then [] else st1.heap j, reads := st1.reads + 1 } = .ok (r, st2)) :
    (Expr.construct k args).evalP H self env st = .ok (.atom (.ref st1.reads), st2) := by
  simp only [Expr.evalP, ha, hc, bind, Except.bind, pure, Except.pure]

theorem eval_callFn {k : Nat} {args : Expr} {env : PyLite.Env} {st st1 : PState} {vs : List Val}
    (ha : args.evalArgsP H self env st = .ok (vs, st1)) :
    (Expr.callFn k args).evalP H self env st = H.fnV k vs st1 := by
  simp only [Expr.evalP, ha, bind, Except.bind]

theorem eval_ite {c a b : Expr} {env : PyLite.Env} {st st' : PState} {x : Val} {t : Bool}
    (hc : c.evalP H self env st = .ok (x, st')) (ht : truthP x = .ok t) :
    (Expr.ite c a b).evalP H self env st = if t then a.evalP H self env st' else b.evalP H self env st' := by
  simp only [Expr.evalP, hc, ht, bind, Except.bind]

theorem eval_prim {name : String} {args : Expr} {env : PyLite.Env} {st st' : PState} {as : List Atom} {v : Val}
    (ha : args.evalP H self env st = .ok (.list as, st')) (hp : H.prim name as st' = .ok v) :
    (Expr.prim name args).evalP H self env st = .ok (v, st') := by
  simp only [Expr.evalP, ha, hp, bind, Except.bind, pure, Except.pure]

theorem eval_nil {env : PyLite.Env} {st : PState} : Expr.listNil.evalP H self env st = .ok (.list [], st) := by
  simp only [Expr.evalP, pure, Except.pure]

theorem eval_cons {a l : Expr} {env : PyLite.Env} {st st' st'' : PState} {x : Atom} {xs : List Atom}
    (ha : a.evalP H self env st = .ok (.atom x, st')) (hl : l.evalP H self env st' = .ok (.list xs, st'')) :
    (Expr.listCons a l).evalP H self env st = .ok (.list (x :: xs), st'') := by
  simp only [Expr.evalP, ha, hl, bind, Except.bind, pure, Except.pure]

theorem eval_not {a : Expr} {env : PyLite.Env} {st st' : PState} {x : Val} {t : Bool}
    (ha : a.evalP H self env st = .ok (x, st')) (ht : truthP x = .ok t) :
    (Expr.not a).evalP H self env st = .ok (.atom (.bool (!t)), st') := by
  simp only [Expr.evalP, ha, ht, bind, Except.bind, pure, Except.pure]

theorem eval_and {a b : Expr} {env : PyLite.Env} {st st' : PState} {x : Val} {t : Bool}
    (ha : a.evalP H self env st = .ok (x, st')) (ht : truthP x = .ok t) :
    (Expr.and a b).evalP H self env st = if t then b.evalP H self env st' else .ok (x, st') := by
  simp only [Expr.evalP, ha, ht, bind, Except.bind, pure, Except.pure]

theorem eval_isIn {k d : Expr} {env : PyLite.Env} {st st' st'' : PState} {a : Atom} {vs : List Atom}
    (hk : k.evalP H self env st = .ok (.atom a, st')) (hd : d.evalP H self env st' = .ok (.list vs, st'')) :
    (Expr.isIn k d).evalP H self env st = .ok (.atom (.bool (vs.any (fun v => v.pyEq a))), st'') := by
  simp only [Expr.evalP, hk, hd, bind, Except.bind, pure, Except.pure]

theorem eval_bin {op : BinOp} {a b : Expr} {env : PyLite.Env} {st st' st'' : PState} {x y r : Val}
    (ha : a.evalP H self env st = .ok (x, st')) (hb : b.evalP H self env st' = .ok (y, st''))
    (hr : arithP op x y = .ok r) :
    (Expr.bin op a b).evalP H self env st = .ok (r, st'') := by
  simp only [Expr.evalP, ha, hb, hr, bind, Except.bind, pure, Except.pure]

end exprs

theorem HH_fnV (L : IOLib) (F k : Nat) (params : List String) (body : List Stmt) (args : List Val) (st : PState)
    (h : csvFuns k = some (params, body)) :
    (HH L (F + 1)).fnV k args st = callPV (HH L F) params body args st := by
  simp only [HH, progIO, h]

theorem HH_fnV_lib (L : IOLib) (F k : Nat) (args : List Val) (st : PState) (h : csvFuns k = none) :
    (HH L (F + 1)).fnV k args st = ioFn L k args st := by
  simp only [HH, progIO, h]

/-! ### well-formed descriptions -/

def valid (W : WbsD) (i : Nat) : Prop := 1 ≤ i ∧ i ≤ W.tasks.length

def cellOK : Atom → Prop
  | .none | .num _ | .bool _ | .str _ | .time _ => True
  | _ => False

def reserved : List String := "parent_id" :: "predecessor_ids" :: stdSlots

structure CustomOK (cs : List (String × Atom)) : Prop where
  nodup : (cs.map (·.1)).Nodup
  fresh : ∀ p ∈ cs, p.1 ∉ reserved ∧ ['_'].isPrefixOf p.1.toList = false ∧ cellOK p.2

structure WF (W : WbsD) : Prop where
  roots : ∀ i ∈ W.roots, valid W i
  children : ∀ d ∈ W.tasks, ∀ c ∈ d.children, valid W c
  preds : ∀ d ∈ W.tasks, ∀ p ∈ d.preds, valid W p
  parent : ∀ d ∈ W.tasks, ∀ p, d.parent = some p → valid W p
  custom : ∀ d ∈ W.tasks, CustomOK d.custom

theorem valid_task {W : WbsD} {i : Nat} (h : valid W i) :
    ∃ d, taskAt W i = some d ∧ encHeap W i = encTask d ∧ d ∈ W.tasks := by
  obtain ⟨h1, h2⟩ := h
  have hlt : i - 1 < W.tasks.length := by omega
  refine ⟨W.tasks[i - 1], ?_, ?_, List.getElem_mem hlt⟩
  · simp [taskAt, List.getElem?_eq_getElem hlt]
  · have : i ≠ 0 := by omega
    simp [encHeap, this, List.getElem?_eq_getElem hlt]

/-- the store holds the tasks of `W`; everything from `reads` on is free -/
structure Agree (W : WbsD) (st : PState) : Prop where
  heap : ∀ j, j ≤ W.tasks.length → st.heap j = encHeap W j
  reads : W.tasks.length < st.reads

theorem Agree.task {W : WbsD} {st : PState} (h : Agree W st) {i : Nat} (hv : valid W i) :
    ∃ d, taskAt W i = some d ∧ st.heap i = encTask d ∧ d ∈ W.tasks := by
  obtain ⟨d, h1, h2, h3⟩ := valid_task hv
  exact ⟨d, h1, (h.heap i hv.2).trans h2, h3⟩

/-! ### the slots of an encoded task -/

section enc
variable (d : TaskD)
theorem encTask_id : (encTask d).get? "id" = some (.atom (.num (d.id : Rat))) := by simp [encTask, PyLite.Env.get?]
theorem encTask_name : (encTask d).get? "name" = some (.atom (optStr d.name)) := by simp [encTask, PyLite.Env.get?]
theorem encTask_resource : (encTask d).get? "resource" = some (.atom (optStr d.resource)) := by
  simp [encTask, PyLite.Env.get?]
theorem encTask_start : (encTask d).get? "start" = some (.atom (optTime d.start)) := by simp [encTask, PyLite.Env.get?]
theorem encTask_end : (encTask d).get? "end" = some (.atom (optTime d.end_)) := by simp [encTask, PyLite.Env.get?]
theorem encTask_milestone : (encTask d).get? "milestone" = some (.atom (.bool d.milestone)) := by
  simp [encTask, PyLite.Env.get?]
theorem encTask_estimate : (encTask d).get? "estimate" = some (.atom (optNum d.estimate)) := by
  simp [encTask, PyLite.Env.get?]
theorem encTask_spent : (encTask d).get? "spent" = some (.atom (optNum d.spent)) := by simp [encTask, PyLite.Env.get?]
theorem encTask_parent : (encTask d).get? "parent" = some (.atom (optRef d.parent)) := by simp [encTask, PyLite.Env.get?]
theorem encTask_preds : (encTask d).get? "predecessors" = some (refs d.preds) := by simp [encTask, PyLite.Env.get?]
theorem encTask_children : (encTask d).get? "children" = some (refs d.children) := by simp [encTask, PyLite.Env.get?]
theorem encTask_min_start : (encTask d).get? "min_start" = some (.atom (optTime d.minStart)) := by
  simp [encTask, PyLite.Env.get?]
end enc

/-- the id of the task `p` as the program reads it -/
def idA (W : WbsD) (p : Nat) : Atom :=
  match taskAt W p with
  | some dp => .num (dp.id : Rat)
  | none => .none

def parentIdA (W : WbsD) (d : TaskD) : Atom :=
  match d.parent with
  | none => .none
  | some p => idA W p

/-- the arguments of `TaskRaw(...)` for the task `d` -/
def rawArgs (W : WbsD) (d : TaskD) : List Val :=
  [.atom (.num (d.id : Rat)), .atom (optStr d.name), .atom (optStr d.resource), .atom (optTime d.start),
   .atom (optTime d.end_), .atom (.bool d.milestone), .atom (optNum d.estimate), .atom (optNum d.spent),
   .atom (parentIdA W d), .list (d.preds.map (idA W))]

/-- the raw object of the task `d` -/
def rawEnv (W : WbsD) (d : TaskD) : PyLite.Env :=
  rawBase (rawArgs W d) ++ ("min_start", .atom (optTime d.minStart)) :: d.custom.map (fun p => (p.1, Val.atom p.2))

def allocSt (st : PState) (e : PyLite.Env) : PState :=
  { st with heap := fun j => if j = st.reads then e else st.heap j, reads := st.reads + 1 }

theorem Agree.alloc {W : WbsD} {st : PState} (h : Agree W st) (e : PyLite.Env) : Agree W (allocSt st e) := by
  refine ⟨fun j hj => ?_, ?_⟩
  · have := h.reads
    have hne : j ≠ st.reads := by omega
    simp only [allocSt, hne, if_false]; exact h.heap j hj
  · have := h.reads
    simp only [allocSt]; omega

/-! ### `tasks_to_raws`: the raw object of one task -/

theorem prim_bool (L : IOLib) (st : PState) (a : Atom) :
    ioPrim L "bool" [a] st =
      match a with
      | .none => .ok (.atom (.bool false))
      | .bool b => .ok (.atom (.bool b))
      | .num q => .ok (.atom (.bool (!decide (q = 0))))
      | .str k => .ok (.atom (.bool (!decide (k = 0))))
      | .ref _ => .ok (.atom (.bool true))
      | .time _ => .ok (.atom (.bool true))
      | _ => .error stuck := by
  unfold ioPrim
  rw [if_neg (by decide +kernel), if_pos (by decide +kernel)]
  cases a <;> rfl

theorem mapM_ok {α β} (f : α → β) : ∀ l : List α, l.mapM (fun a => (Except.ok (f a) : Res β)) = .ok (l.map f)
  | [] => rfl
  | a :: l => by rw [mapM_cons_res, mapM_ok f l]; rfl

def rawCons : Expr :=
  .construct fn_TaskRaw_init (.listCons (.attr (.var "t") "id") (.listCons (.attr (.var "t") "name") (.listCons (.attr (.var "t") "resource") (.listCons (.attr (.var "t") "start") (.listCons (.attr (.var "t") "end") (.listCons (.attr (.var "t") "milestone") (.listCons (.attr (.var "t") "estimate") (.listCons (.attr (.var "t") "spent") (.listCons (.ite (.prim "bool" (.listCons (.attr (.var "t") "parent") .listNil)) (.attr (.attr (.var "t") "parent") "id") .none) (.listCons (.listComp (.attr (.var "p") "id") "p" (.attr (.var "t") "predecessors") (.bool true)) (.listCons .dictNil .listNil)))))))))))

theorem eval_parentId (L : IOLib) (F : Nat) (W : WbsD) (hWF : WF W) (st : PState) (hA : Agree W st) (env : PyLite.Env)
    (i : Nat) (d : TaskD) (hd : st.heap i = encTask d) (hdm : d ∈ W.tasks) (ht : env.get? "t" = some (.atom (.ref i))) :
    (Expr.ite (.prim "bool" (.listCons (.attr (.var "t") "parent") .listNil)) (.attr (.attr (.var "t") "parent") "id")
      .none).evalP (HH L F) [] env st = .ok (.atom (parentIdA W d), st) := by
  have hpar : (Expr.attr (.var "t") "parent").evalP (HH L F) [] env st = .ok (.atom (optRef d.parent), st) :=
    eval_attr (eval_var ht) (by rw [hd]; exact encTask_parent d)
  cases hp : d.parent with
  | none =>
    rw [hp] at hpar
    rw [eval_ite (t := false) (eval_prim (eval_cons hpar eval_nil) (by rw [HH_prim, prim_bool]; rfl)) rfl]
    simp only [Bool.false_eq_true, if_false, Expr.evalP, pure, Except.pure, parentIdA, hp]
  | some p =>
    rw [hp] at hpar
    obtain ⟨dp, h1, h2, -⟩ := hA.task (hWF.parent d hdm p hp)
    rw [eval_ite (t := true) (eval_prim (eval_cons hpar eval_nil) (by rw [HH_prim, prim_bool]; rfl)) rfl]
    simp only [if_true]
    rw [eval_attr hpar (by rw [h2]; exact encTask_id dp)]
    simp only [parentIdA, hp, idA, h1]

theorem eval_predIds (L : IOLib) (F : Nat) (W : WbsD) (hWF : WF W) (st : PState) (hA : Agree W st) (env : PyLite.Env)
    (i : Nat) (d : TaskD) (hd : st.heap i = encTask d) (hdm : d ∈ W.tasks) (ht : env.get? "t" = some (.atom (.ref i))) :
    (Expr.listComp (.attr (.var "p") "id") "p" (.attr (.var "t") "predecessors") (.bool true)).evalP (HH L F) [] env st
      = .ok (.list (d.preds.map (idA W)), st) := by
  rw [listComp_pure (HH L F) env _ _ "p" st (d.preds.map Atom.ref)
    (fun a => .ok (match a with | .ref p => idA W p | _ => .none))
    (eval_attr (eval_var ht) (by rw [hd]; exact encTask_preds d))]
  · rw [mapM_ok, List.map_map]; rfl
  · intro v hv
    obtain ⟨p, hp, rfl⟩ := List.mem_map.1 hv
    obtain ⟨dp, h1, h2, -⟩ := hA.task (hWF.preds d hdm p hp)
    rw [eval_attr (eval_var (by rw [envGet_set, if_pos rfl])) (by rw [h2]; exact encTask_id dp)]
    simp only [idA, h1, Except.map]

theorem eval_rawCons (L : IOLib) (F : Nat) (W : WbsD) (hWF : WF W) (st : PState) (hA : Agree W st) (env : PyLite.Env)
    (i : Nat) (d : TaskD) (hd : st.heap i = encTask d) (hdm : d ∈ W.tasks) (ht : env.get? "t" = some (.atom (.ref i))) :
    rawCons.evalP (HH L (F + 1)) [] env st = .ok (.atom (.ref st.reads), allocSt st (rawBase (rawArgs W d))) := by
  have hat : ∀ f v, (encTask d).get? f = some v → (Expr.attr (.var "t") f).evalP (HH L (F + 1)) [] env st = .ok (v, st) :=
    fun f v h => eval_attr (eval_var ht) (by rw [hd]; exact h)
  refine eval_construct (st1 := st) (r := .atom .none) (vs := rawArgs W d ++ [.dict []])
    (evalArgs_cons (hat _ _ (encTask_id d)) (evalArgs_cons (hat _ _ (encTask_name d))
      (evalArgs_cons (hat _ _ (encTask_resource d)) (evalArgs_cons (hat _ _ (encTask_start d))
      (evalArgs_cons (hat _ _ (encTask_end d)) (evalArgs_cons (hat _ _ (encTask_milestone d))
      (evalArgs_cons (hat _ _ (encTask_estimate d)) (evalArgs_cons (hat _ _ (encTask_spent d))
      (evalArgs_cons (eval_parentId L (F + 1) W hWF st hA env i d hd hdm ht)
      (evalArgs_cons (eval_predIds L (F + 1) W hWF st hA env i d hd hdm ht)
      (evalArgs_cons (v := .dict []) (st' := st) rfl evalArgs_nil))))))))))) ?_
  rw [HH_fnV L F fn_TaskRaw_init _ _ _ _ rfl]
  simp only [rawArgs, List.cons_append, List.nil_append]
  rw [taskRaw_init L F st.reads _ _ _ _ _ _ _ _ _ _ _ (by simp)]
  congr 3
  funext j
  by_cases hj : j = st.reads <;> simp [hj]

/-! ### `tasks_to_raws`: copying the public attributes -/

theorem prim_lit_us (L : IOLib) (st : PState) : ioPrim L "lit:_" [] st = .ok (.atom (strA ['_'])) := by
  unfold ioPrim; rw [if_pos (by decide +kernel)]; rfl

theorem prim_startswith (L : IOLib) (st : PState) (s t : List Char) :
    ioPrim L "startswith" [strA s, strA t] st = .ok (.atom (.bool (t.isPrefixOf s))) := by
  unfold ioPrim
  rw [if_neg (by decide +kernel), if_neg (by decide +kernel), if_neg (by decide +kernel), if_neg (by decide +kernel),
    if_neg (by decide +kernel), if_neg (by decide +kernel), if_pos (by decide +kernel)]
  simp only [strA, strDecode_code]; rfl

theorem prim_dict (L : IOLib) (st : PState) (i : Nat) :
    ioPrim L "__dict__" [.ref i] st = .ok (.list ((dictNames (st.heap i)).map nameA)) := by
  unfold ioPrim
  rw [if_neg (by decide +kernel), if_neg (by decide +kernel), if_neg (by decide +kernel), if_neg (by decide +kernel),
    if_neg (by decide +kernel), if_neg (by decide +kernel), if_neg (by decide +kernel), if_neg (by decide +kernel),
    if_neg (by decide +kernel), if_neg (by decide +kernel), if_neg (by decide +kernel), if_neg (by decide +kernel),
    if_neg (by decide +kernel), if_neg (by decide +kernel), if_neg (by decide +kernel), if_neg (by decide +kernel),
    if_neg (by decide +kernel), if_pos (by decide +kernel)]
  rfl

theorem prim_getattr (L : IOLib) (st : PState) (i : Nat) (k : String) :
    ioPrim L "__getattribute__" [.ref i, nameA k] st =
      match (st.heap i).get? k with
      | some v => .ok v
      | none => .error (.crash .attribute) := by
  unfold ioPrim
  rw [if_neg (by decide +kernel), if_neg (by decide +kernel), if_neg (by decide +kernel), if_neg (by decide +kernel),
    if_neg (by decide +kernel), if_neg (by decide +kernel), if_neg (by decide +kernel), if_neg (by decide +kernel),
    if_neg (by decide +kernel), if_neg (by decide +kernel), if_neg (by decide +kernel), if_neg (by decide +kernel),
    if_neg (by decide +kernel), if_neg (by decide +kernel), if_neg (by decide +kernel), if_neg (by decide +kernel),
    if_neg (by decide +kernel), if_neg (by decide +kernel), if_pos (by decide +kernel)]
  simp only [nameA, strA, strDecode_code, String.ofList_toList]
  cases (st.heap i).get? k <;> rfl

theorem ioFn_setattr (L : IOLib) (st : PState) (i : Nat) (k : String) (v : Val) :
    ioFn L 100 [.atom (.ref i), .atom (nameA k), v] st =
      .ok (.atom .none, { st with heap := heapSet st.heap i k v }) := by
  unfold ioFn
  rw [if_pos rfl]
  simp only [nameA, strA, strDecode_code, String.ofList_toList]; rfl

def hasKey (e : PyLite.Env) (k : String) : Bool := e.any (fun p => p.1 == k)

theorem names_any (e : PyLite.Env) (k : String) (he : isTask e = false) :
    ((dictNames e).map nameA).any (fun v => v.pyEq (nameA k)) = hasKey e k := by
  unfold dictNames hasKey
  rw [he]
  simp only [Bool.false_eq_true, if_false, List.any_map]
  congr 1
  funext p
  simp only [Function.comp, nameA, pyEq_strA]
  by_cases h : p.1 = k
  · subst h; simp
  · have : ¬ p.1.toList = k.toList := fun e => h (String.toList_inj.1 e)
    simp [h, this]

def skipKey (e : PyLite.Env) (k : String) : Bool := ['_'].isPrefixOf k.toList || hasKey e k

def copyStep (T : PyLite.Env) (e : PyLite.Env) (k : String) : PyLite.Env :=
  if skipKey e k then e else
    match T.get? k with
    | some v => e.set k v
    | none => e

def copyCond : Expr :=
  .and (.not (.prim "startswith" (.listCons (.var "k") (.listCons (.prim "lit:_" .listNil) .listNil)))) (.not (.isIn (.var "k") (.prim "__dict__" (.listCons (.var "raw") .listNil))))

def copyBody : List Stmt :=
  [.ifElse copyCond
     [.expr (.callFn 100 (.listCons (.var "raw") (.listCons (.var "k") (.listCons (.prim "__getattribute__" (.listCons (.var "t") (.listCons (.var "k") .listNil))) .listNil))))]
     []]

theorem eval_copyCond (L : IOLib) (F : Nat) (env : PyLite.Env) (st : PState) (o : Nat) (k : String)
    (hraw : env.get? "raw" = some (.atom (.ref o))) (hk : env.get? "k" = some (.atom (nameA k)))
    (he : isTask (st.heap o) = false) :
    copyCond.evalP (HH L F) [] env st = .ok (.atom (.bool (!skipKey (st.heap o) k)), st) := by
  have hsw : (Expr.prim "startswith" (.listCons (.var "k") (.listCons (.prim "lit:_" .listNil) .listNil))).evalP
      (HH L F) [] env st = .ok (.atom (.bool (['_'].isPrefixOf k.toList)), st) :=
    eval_prim (eval_cons (eval_var hk) (eval_cons (eval_prim eval_nil (by rw [HH_prim, prim_lit_us])) eval_nil))
      (by rw [HH_prim, nameA, prim_startswith])
  have hin : (Expr.isIn (.var "k") (.prim "__dict__" (.listCons (.var "raw") .listNil))).evalP (HH L F) [] env st =
      .ok (.atom (.bool (hasKey (st.heap o) k)), st) := by
    rw [eval_isIn (eval_var hk) (eval_prim (eval_cons (eval_var hraw) eval_nil) (by rw [HH_prim, prim_dict])),
      names_any _ k he]
  unfold copyCond
  rw [eval_and (eval_not hsw rfl) rfl]
  cases hp : ['_'].isPrefixOf k.toList with
  | true => simp [skipKey, hp]
  | false =>
    simp only [Bool.not_false, if_true]
    rw [eval_not hin rfl]
    simp [skipKey, hp]

theorem copy_body (L : IOLib) (F : Nat) (rec) (env : PyLite.Env) (st : PState) (o i : Nat) (k : String) (T : PyLite.Env)
    (hraw : env.get? "raw" = some (.atom (.ref o))) (ht : env.get? "t" = some (.atom (.ref i)))
    (hk : env.get? "k" = some (.atom (nameA k))) (he : isTask (st.heap o) = false) (hT : st.heap i = T)
    (hget : skipKey (st.heap o) k = false → (T.get? k).isSome) :
    execBlockP (HH L (F + 1)) [] rec copyBody env st =
      .normal env { st with heap := fun j => if j = o then copyStep T (st.heap o) k else st.heap j } := by
  have hc := eval_copyCond L (F + 1) env st o k hraw hk he
  unfold copyBody
  rw [execBlockP, Stmt.execP, hc]
  simp only [bind, Except.bind, truthP, pure, Except.pure]
  cases hs : skipKey (st.heap o) k with
  | true =>
    simp only [Bool.not_true, Bool.false_eq_true, if_false, execBlockP]
    have hh : (fun j => if j = o then copyStep T (st.heap o) k else st.heap j) = st.heap := by
      funext j
      by_cases hj : j = o
      · subst hj; simp [copyStep, hs]
      · simp [hj]
    rw [hh]
  | false =>
    obtain ⟨v, hv⟩ := Option.isSome_iff_exists.1 (hget hs)
    have hga : (Expr.prim "__getattribute__" (.listCons (.var "t") (.listCons (.var "k") .listNil))).evalP
        (HH L (F + 1)) [] env st = .ok (v, st) :=
      eval_prim (eval_cons (eval_var ht) (eval_cons (eval_var hk) eval_nil))
        (by rw [HH_prim, prim_getattr, hT, hv])
    simp only [Bool.not_false, if_true]
    rw [block_cons_normal (exec_expr (v := .atom .none)
      ((eval_callFn (evalArgs_cons (eval_var hraw) (evalArgs_cons (eval_var hk) (evalArgs_cons hga evalArgs_nil)))).trans
        ((HH_fnV_lib L F 100 _ _ rfl).trans (ioFn_setattr L st o k v))))]
    simp only [execBlockP]
    congr 2
    funext j
    by_cases hj : j = o
    · subst hj; simp [copyStep, hs, hv, heapSet]
    · simp [hj, heapSet]

theorem isTask_copyStep (T e : PyLite.Env) (k : String) : isTask (copyStep T e k) = isTask e := by
  unfold copyStep
  cases hs : skipKey e k with
  | true => simp
  | false =>
    simp only [Bool.false_eq_true, if_false]
    cases hT : T.get? k with
    | none => rfl
    | some v =>
      have hne : k ≠ "__task__" := by
        intro h; subst h
        simp [skipKey] at hs
      simp only [isTask, envGet_set, if_neg hne]

theorem copy_loop (L : IOLib) (F : Nat) (rec) (o i : Nat) (T : PyLite.Env) (hio : i ≠ o) :
    ∀ (ks : List String) (env : PyLite.Env) (st : PState),
      env.get? "raw" = some (.atom (.ref o)) → env.get? "t" = some (.atom (.ref i)) →
      isTask (st.heap o) = false → st.heap i = T →
      (∀ k ∈ ks, ['_'].isPrefixOf k.toList = false → (T.get? k).isSome) →
      ∃ env', forLoopP "k" (fun e s => execBlockP (HH L (F + 1)) [] rec copyBody e s) (ks.map nameA) env st =
          .normal env' { st with heap := fun j => if j = o then ks.foldl (copyStep T) (st.heap o) else st.heap j } ∧
        (∀ x, x ≠ "k" → env'.get? x = env.get? x)
  | [], env, st, _, _, _, _, _ => by
    refine ⟨env, ?_, fun _ _ => rfl⟩
    have hh : (fun j => if j = o then st.heap o else st.heap j) = st.heap := by
      funext j; by_cases hj : j = o <;> simp [hj]
    simp only [List.map_nil, forLoopP, List.foldl_nil, hh]
  | k :: ks, env, st, hraw, ht, he, hT, hget => by
    have hb := copy_body L F rec (env.set "k" (.atom (nameA k))) st o i k T
      (by rw [envGet_set, if_neg (by decide)]; exact hraw) (by rw [envGet_set, if_neg (by decide)]; exact ht)
      (by rw [envGet_set, if_pos rfl]) he hT
      (fun hs => hget k (List.mem_cons_self ..) (by simp [skipKey] at hs; exact hs.1))
    obtain ⟨env', h1, h2⟩ := copy_loop L F rec o i T hio ks (env.set "k" (.atom (nameA k)))
      { st with heap := fun j => if j = o then copyStep T (st.heap o) k else st.heap j }
      (by rw [envGet_set, if_neg (by decide)]; exact hraw) (by rw [envGet_set, if_neg (by decide)]; exact ht)
      (by simp only [if_true]; rw [isTask_copyStep]; exact he) (by simp only [if_neg hio]; exact hT)
      (fun k' hk' => hget k' (List.mem_cons_of_mem _ hk'))
    refine ⟨env', ?_, fun x hx => (h2 x hx).trans (by rw [envGet_set, if_neg (Ne.symm hx)])⟩
    rw [List.map_cons, forLoopP, hb]
    dsimp only
    rw [h1]
    congr 2
    funext j
    by_cases hj : j = o <;> simp [hj]

/-! the attribute names of an encoded task, and what the copy makes of them -/

def std13 : List String :=
  ["_Task__id", "name", "resource", "start", "end", "milestone", "_Task__estimate", "_Task__spent", "_Task__parent",
   "_Task__children", "_Task__predecessors", "_Task__successors", "min_start"]

theorem notReserved {k : String} (h : k ∉ reserved) :
    k ≠ "parent_id" ∧ k ≠ "predecessor_ids" ∧ k ≠ "__task__" ∧ k ≠ "id" ∧ k ≠ "name" ∧ k ≠ "resource" ∧ k ≠ "start" ∧
    k ≠ "end" ∧ k ≠ "milestone" ∧ k ≠ "estimate" ∧ k ≠ "spent" ∧ k ≠ "parent" ∧ k ≠ "children" ∧ k ≠ "predecessors" ∧
    k ≠ "successors" ∧ k ≠ "min_start" := by
  simpa [reserved, stdSlots] using h

theorem dictNames_encTask (d : TaskD) (hc : CustomOK d.custom) :
    dictNames (encTask d) = std13 ++ d.custom.map (·.1) := by
  have h1 : isTask (encTask d) = true := by simp [isTask, encTask, PyLite.Env.get?]
  unfold dictNames
  rw [h1]
  simp only [if_true, encTask, List.filter_append, List.map_append]
  congr 1
  rw [List.filter_map, List.map_map]
  have : ∀ p ∈ d.custom, (((fun p : String × Val => p.1 != "__task__") ∘ fun p : String × Atom => (p.1, Val.atom p.2)) p) = true := by
    intro p hp
    have := (notReserved (hc.fresh p hp).1).2.2.1
    simp [this]
  rw [List.filter_eq_self.2 this]
  apply List.map_congr_left
  intro p hp
  have hn := notReserved (hc.fresh p hp).1
  have : ¬ p.1 ∈ hiddenSlots := by
    simp [hiddenSlots, hn]
  simp [this]

theorem copyStep_skip {T e : PyLite.Env} {k : String} (h : skipKey e k = true) : copyStep T e k = e := by
  simp [copyStep, h]

theorem set_absent : ∀ (e : PyLite.Env) (k : String) (v : Val), hasKey e k = false → e.set k v = e ++ [(k, v)]
  | [], _, _, _ => rfl
  | p :: e, k, v, h => by
    simp only [hasKey, List.any_cons, Bool.or_eq_false_iff] at h
    simp only [PyLite.Env.set, h.1, Bool.false_eq_true, if_false, List.cons_append]
    rw [set_absent e k v h.2]

theorem copyStep_new {T e : PyLite.Env} {k : String} {v : Val} (h1 : ['_'].isPrefixOf k.toList = false)
    (h2 : hasKey e k = false) (h3 : T.get? k = some v) : copyStep T e k = e ++ [(k, v)] := by
  simp [copyStep, skipKey, h1, h2, h3, set_absent e k v h2]

theorem std_fold (d : TaskD) (a : List Val) :
    std13.foldl (copyStep (encTask d)) (rawBase a) = rawBase a ++ [("min_start", .atom (optTime d.minStart))] := by
  simp only [std13, List.foldl_cons, List.foldl_nil]
  rw [copyStep_skip (T := encTask d) (e := rawBase a) (k := "_Task__id") (by simp [skipKey] <;> decide),
    copyStep_skip (T := encTask d) (e := rawBase a) (k := "name") (by simp [skipKey, hasKey, rawBase]),
    copyStep_skip (T := encTask d) (e := rawBase a) (k := "resource") (by simp [skipKey, hasKey, rawBase]),
    copyStep_skip (T := encTask d) (e := rawBase a) (k := "start") (by simp [skipKey, hasKey, rawBase]),
    copyStep_skip (T := encTask d) (e := rawBase a) (k := "end") (by simp [skipKey, hasKey, rawBase]),
    copyStep_skip (T := encTask d) (e := rawBase a) (k := "milestone") (by simp [skipKey, hasKey, rawBase]),
    copyStep_skip (T := encTask d) (e := rawBase a) (k := "_Task__estimate") (by simp [skipKey] <;> decide),
    copyStep_skip (T := encTask d) (e := rawBase a) (k := "_Task__spent") (by simp [skipKey] <;> decide),
    copyStep_skip (T := encTask d) (e := rawBase a) (k := "_Task__parent") (by simp [skipKey] <;> decide),
    copyStep_skip (T := encTask d) (e := rawBase a) (k := "_Task__children") (by simp [skipKey] <;> decide),
    copyStep_skip (T := encTask d) (e := rawBase a) (k := "_Task__predecessors") (by simp [skipKey] <;> decide),
    copyStep_skip (T := encTask d) (e := rawBase a) (k := "_Task__successors") (by simp [skipKey] <;> decide),
    copyStep_new (by decide) (by simp [hasKey, rawBase]) (encTask_min_start d)]

theorem envGet_append (e1 e2 : PyLite.Env) (k : String) :
    (e1 ++ e2).get? k = match e1.get? k with
      | some v => some v
      | none => e2.get? k := by
  induction e1 with
  | nil => rfl
  | cons p e1 ih =>
    rw [List.cons_append, envGet_cons, envGet_cons, ih]
    by_cases h : p.1 = k <;> simp [h]

theorem hasKey_append (e1 e2 : PyLite.Env) (k : String) : hasKey (e1 ++ e2) k = (hasKey e1 k || hasKey e2 k) := by
  simp [hasKey, List.any_append]

theorem custom_get : ∀ (cs : List (String × Atom)), (cs.map (·.1)).Nodup → ∀ p ∈ cs,
    PyLite.Env.get? (cs.map (fun p => (p.1, Val.atom p.2))) p.1 = some (.atom p.2)
  | [], _, p, hp => by cases hp
  | q :: cs, hnd, p, hp => by
    rw [List.map_cons, List.nodup_cons] at hnd
    rw [List.map_cons, envGet_cons]
    rcases List.mem_cons.1 hp with rfl | hp'
    · simp
    · have : q.1 ≠ p.1 := fun e => hnd.1 (e ▸ List.mem_map_of_mem hp')
      simp only [this, if_false]
      exact custom_get cs hnd.2 p hp'

theorem encTask_custom (d : TaskD) (hc : CustomOK d.custom) (p : String × Atom) (hp : p ∈ d.custom) :
    (encTask d).get? p.1 = some (.atom p.2) := by
  have hn := notReserved (hc.fresh p hp).1
  obtain ⟨-, -, h0, h1, h2, h3, h4, h5, h6, h7, h8, h9, h10, h11, h12, h13⟩ := hn
  unfold encTask
  rw [envGet_append]
  have : PyLite.Env.get? [("__task__", Val.atom (Atom.bool true)), ("id", Val.atom (Atom.num (d.id : Rat))), ("name", Val.atom (optStr d.name)),
   ("resource", Val.atom (optStr d.resource)), ("start", Val.atom (optTime d.start)), ("end", Val.atom (optTime d.end_)),
   ("milestone", Val.atom (Atom.bool d.milestone)), ("estimate", Val.atom (optNum d.estimate)), ("spent", Val.atom (optNum d.spent)),
   ("parent", Val.atom (optRef d.parent)), ("children", refs d.children), ("predecessors", refs d.preds),
   ("successors", Val.list []), ("min_start", Val.atom (optTime d.minStart))] p.1 = none := by
    simp only [envGet_cons, Ne.symm h0, Ne.symm h1, Ne.symm h2, Ne.symm h3, Ne.symm h4, Ne.symm h5, Ne.symm h6,
      Ne.symm h7, Ne.symm h8, Ne.symm h9, Ne.symm h10, Ne.symm h11, Ne.symm h12, Ne.symm h13, if_false]
    rfl
  rw [this]
  exact custom_get d.custom hc.nodup p hp

theorem custom_fold (T : PyLite.Env) : ∀ (cs : List (String × Atom)) (e : PyLite.Env), (cs.map (·.1)).Nodup →
    (∀ p ∈ cs, ['_'].isPrefixOf p.1.toList = false ∧ hasKey e p.1 = false ∧ T.get? p.1 = some (.atom p.2)) →
    (cs.map (·.1)).foldl (copyStep T) e = e ++ cs.map (fun p => (p.1, Val.atom p.2))
  | [], e, _, _ => by simp
  | q :: cs, e, hnd, h => by
    rw [List.map_cons, List.nodup_cons] at hnd
    obtain ⟨h1, h2, h3⟩ := h q (List.mem_cons_self ..)
    rw [List.map_cons, List.foldl_cons, copyStep_new h1 h2 h3,
      custom_fold T cs (e ++ [(q.1, Val.atom q.2)]) hnd.2 (fun p hp => by
        obtain ⟨a, b, c⟩ := h p (List.mem_cons_of_mem _ hp)
        refine ⟨a, ?_, c⟩
        rw [hasKey_append, b]
        have : q.1 ≠ p.1 := fun e => hnd.1 (e ▸ List.mem_map_of_mem hp)
        simp [hasKey, this])]
    simp

/-- what the copy loop of `tasks_to_raws` makes of the fresh raw object -/
theorem copy_fold (W : WbsD) (d : TaskD) (hc : CustomOK d.custom) :
    (dictNames (encTask d)).foldl (copyStep (encTask d)) (rawBase (rawArgs W d)) = rawEnv W d := by
  rw [dictNames_encTask d hc, List.foldl_append, std_fold, custom_fold _ d.custom _ hc.nodup]
  · simp [rawEnv]
  · intro p hp
    obtain ⟨hr, hu, -⟩ := hc.fresh p hp
    refine ⟨hu, ?_, encTask_custom d hc p hp⟩
    obtain ⟨a, b, -, h1, h2, h3, h4, h5, h6, h7, h8, -, -, -, -, h13⟩ := notReserved hr
    simp [hasKey, rawBase, Ne.symm a, Ne.symm b, Ne.symm h1, Ne.symm h2, Ne.symm h3, Ne.symm h4, Ne.symm h5, Ne.symm h6,
      Ne.symm h7, Ne.symm h8, Ne.symm h13]

/-! ### `tasks_to_raws` -/

def rawsBody : List Stmt :=
  [.assign "raw" rawCons,
   .forIn "k" (.prim "__dict__" (.listCons (.var "t") .listNil)) copyBody,
   .assign "raws" (.bin .add (.var "raws") (.listCons (.var "raw") .listNil))]

theorem src_tasks_to_raws_shape :
    src_tasks_to_raws = [.assign "raws" .listNil, .forIn "t" (.var "tasks") rawsBody, .ret (.var "raws")] := rfl

theorem raws_body (L : IOLib) (F : Nat) (rec) (W : WbsD) (hWF : WF W) (st : PState) (hA : Agree W st) (env : PyLite.Env)
    (i : Nat) (d : TaskD) (hi : i ≤ W.tasks.length) (hd : st.heap i = encTask d) (hdm : d ∈ W.tasks) (rs : List Atom)
    (ht : env.get? "t" = some (.atom (.ref i))) (hrs : env.get? "raws" = some (.list rs)) :
    ∃ env', execBlockP (HH L (F + 1)) [] rec rawsBody env st = .normal env' (allocSt st (rawEnv W d)) ∧
      env'.get? "raws" = some (.list (rs ++ [.ref st.reads])) := by
  have hc := hWF.custom d hdm
  have hio : i ≠ st.reads := by have := hA.reads; omega
  let env1 := env.set "raw" (.atom (.ref st.reads))
  let st1 := allocSt st (rawBase (rawArgs W d))
  have ht1 : env1.get? "t" = some (.atom (.ref i)) := by rw [envGet_set, if_neg (by decide)]; exact ht
  have hraw1 : env1.get? "raw" = some (.atom (.ref st.reads)) := by rw [envGet_set, if_pos rfl]
  have hi1 : st1.heap i = encTask d := by simp only [st1, allocSt, if_neg hio]; exact hd
  have ho1 : st1.heap st.reads = rawBase (rawArgs W d) := by simp only [st1, allocSt, if_true]
  have hget : ∀ k ∈ dictNames (encTask d), ['_'].isPrefixOf k.toList = false → ((encTask d).get? k).isSome := by
    intro k hk hu
    rw [dictNames_encTask d hc, List.mem_append] at hk
    rcases hk with hk | hk
    · simp only [std13, List.mem_cons, List.not_mem_nil, or_false] at hk
      rcases hk with rfl | rfl | rfl | rfl | rfl | rfl | rfl | rfl | rfl | rfl | rfl | rfl | rfl
      · exact absurd hu (by decide)
      · rw [encTask_name]; rfl
      · rw [encTask_resource]; rfl
      · rw [encTask_start]; rfl
      · rw [encTask_end]; rfl
      · rw [encTask_milestone]; rfl
      · exact absurd hu (by decide)
      · exact absurd hu (by decide)
      · exact absurd hu (by decide)
      · exact absurd hu (by decide)
      · exact absurd hu (by decide)
      · exact absurd hu (by decide)
      · rw [encTask_min_start]; rfl
    · obtain ⟨p, hp, rfl⟩ := List.mem_map.1 hk
      rw [encTask_custom d hc p hp]; rfl
  obtain ⟨env2, h1, h2⟩ := copy_loop L F rec st.reads i (encTask d) hio (dictNames (encTask d)) env1 st1 hraw1 ht1
    (by rw [ho1]; simp [isTask, rawBase, PyLite.Env.get?]) hi1 hget
  have hst2 : ({ st1 with heap := fun j =>
      if j = st.reads then List.foldl (copyStep (encTask d)) (st1.heap st.reads) (dictNames (encTask d)) else st1.heap j }
        : PState) = allocSt st (rawEnv W d) := by
    rw [ho1, copy_fold W d hc]
    simp only [st1, allocSt]
    congr 1
    funext j
    by_cases hj : j = st.reads <;> simp [hj]
  rw [hst2] at h1
  have hdict : (Expr.prim "__dict__" (.listCons (.var "t") .listNil)).evalP (HH L (F + 1)) [] env1 st1 =
      .ok (.list ((dictNames (encTask d)).map nameA), st1) :=
    eval_prim (eval_cons (eval_var ht1) eval_nil) (by rw [HH_prim, prim_dict, hi1])
  refine ⟨env2.set "raws" (.list (rs ++ [.ref st.reads])), ?_, by rw [envGet_set, if_pos rfl]⟩
  unfold rawsBody
  rw [block_cons_normal (exec_assign (eval_rawCons L F W hWF st hA env i d hd hdm ht)),
    block_cons_normal ((exec_forIn hdict rfl).trans h1),
    block_cons_normal (exec_assign (eval_bin (op := .add)
      (eval_var (v := .list rs) (by rw [h2 _ (by decide), envGet_set, if_neg (by decide)]; exact hrs))
      (eval_cons (eval_var (v := .atom (.ref st.reads)) (by rw [h2 _ (by decide)]; exact hraw1)) eval_nil) rfl))]
  rfl

def rawEnvAt (W : WbsD) (i : Nat) : PyLite.Env :=
  match taskAt W i with
  | some d => rawEnv W d
  | none => []

/-- the store after `tasks_to_raws`: one raw object per task, allocated in order -/
def rawsSt (W : WbsD) (st : PState) (is : List Nat) : PState := is.foldl (fun s i => allocSt s (rawEnvAt W i)) st

def rawRefs (o n : Nat) : List Atom := (List.range n).map (fun k => Atom.ref (o + k))

theorem rawRefs_succ (o n : Nat) : rawRefs o (n + 1) = .ref o :: rawRefs (o + 1) n := by
  simp only [rawRefs, List.range_succ_eq_map, List.map_cons, List.map_map, Nat.add_zero]
  congr 1
  apply List.map_congr_left
  intro k _
  simp only [Function.comp]; congr 1; omega

theorem raws_loop (L : IOLib) (F : Nat) (rec) (W : WbsD) (hWF : WF W) :
    ∀ (is : List Nat) (env : PyLite.Env) (st : PState) (rs : List Atom), Agree W st → (∀ i ∈ is, valid W i) →
      env.get? "raws" = some (.list rs) →
      ∃ env', forLoopP "t" (fun e s => execBlockP (HH L (F + 1)) [] rec rawsBody e s) (is.map Atom.ref) env st =
          .normal env' (rawsSt W st is) ∧ env'.get? "raws" = some (.list (rs ++ rawRefs st.reads is.length))
  | [], env, st, rs, _, _, hrs => ⟨env, rfl, by simpa [rawRefs] using hrs⟩
  | i :: is, env, st, rs, hA, hv, hrs => by
    obtain ⟨d, hd1, hd2, hd3⟩ := hA.task (hv i (List.mem_cons_self ..))
    obtain ⟨env1, h1, h2⟩ := raws_body L F rec W hWF st hA (env.set "t" (.atom (.ref i))) i d
      (hv i (List.mem_cons_self ..)).2 hd2 hd3 rs (by rw [envGet_set, if_pos rfl])
      (by rw [envGet_set, if_neg (by decide)]; exact hrs)
    obtain ⟨env2, h3, h4⟩ := raws_loop L F rec W hWF is env1 (allocSt st (rawEnv W d)) (rs ++ [.ref st.reads])
      (hA.alloc _) (fun j hj => hv j (List.mem_cons_of_mem _ hj)) h2
    refine ⟨env2, ?_, ?_⟩
    · rw [List.map_cons, forLoopP, h1]
      dsimp only
      rw [h3]
      simp only [rawsSt, List.foldl_cons, rawEnvAt, hd1]
    · rw [h4, List.length_cons, rawRefs_succ, List.append_assoc]; rfl

/-- `tasks_to_raws(tasks)` on valid tasks of a well-formed `W`: the list of the new raw objects, the store `rawsSt` -/
theorem tasks_to_raws_run (L : IOLib) (F : Nat) (W : WbsD) (hWF : WF W) (st : PState) (hA : Agree W st) (is : List Nat)
    (hv : ∀ i ∈ is, valid W i) :
    runIO L csvFuns (F + 2) fn_tasks_to_raws [.list (is.map Atom.ref)] st =
      .ok (.list (rawRefs st.reads is.length), rawsSt W st is) := by
  rw [runIO_fn L (F + 1) fn_tasks_to_raws _ _ _ _ rfl, src_tasks_to_raws_shape]
  obtain ⟨env', h1, h2⟩ := raws_loop L F (fun _ _ => throw stuck) W hWF is
    (PyLite.Env.set [("tasks", .list (is.map Atom.ref))] "raws" (.list [])) st [] hA hv (by rw [envGet_set, if_pos rfl])
  simp only [callPV, bindParamsV, src_tasks_to_raws_params, pure, Except.pure, bind, Except.bind]
  rw [block_cons_normal (exec_assign (v := .list []) (st' := st) rfl),
    block_cons_normal ((exec_forIn (v := .list (is.map Atom.ref)) (st' := st)
      (eval_var (by rw [envGet_set, if_neg (by decide)]; rfl)) rfl).trans h1),
    block_ret (eval_var h2)]
  simp

end Pj.CsvSrc
