/-
  Lemmas/FacadeSrcCheckD.lean — stage 4 of the translated tie for the list facades of task.py: kernel-checked concrete
  runs of `_ImmutableTaskList.__lshift__ / __rshift__` and of the bulk assignment `tasks.parent = p`
  (`_ImmutableTaskList.__setattr__` for the key `parent`; Extracted/FacadeSrc.lean) against `step s (.listLshift …)`,
  `(.listRshift …)`, `(.listSetParent …)` (Model/GraphOps.lean).  See Lemmas/FacadeSrcCheck.lean / Lemmas/FacadeSrc.lean.
-/
import PjVerif.Lemmas.FacadeSrcCheck
namespace Pj.FacadeSrc
open Pj.PyLite Pj.Extracted Pj.Extracted.Facade Pj.TaskSrc Pj.TaskSrc.Check
namespace Check

def agreeListOps (s : G) (ts : List Uid) (v : Val) (l : List Uid) : Bool :=
  decide (runE s (interpListLshift FF ts v) = expectR s.n v (step s (.listLshift ts l))) &&
  decide (runE s (interpListRshift FF ts v) = expectR s.n v (step s (.listRshift ts l)))

/-- lists of two / three tasks (also with a repetition), every task / a fixed pair as the other side -/
example : allU g2 (fun a => allU g2 (fun x => agreeListOps g2 [a, 1] (refV x) [x])) = true := by decide +kernel
example : allU g1 (fun a => agreeListOps g1 [a, 10, a] (refs [6, 11]) [6, 11] && agreeListOps g1 [12, a] (refV 3) [3]) = true := by
  decide +kernel
example : allU g3 (fun a => allU g3 (fun x => agreeListOps g3 [a, 2] (refV x) [x])) = true := by decide +kernel
example : agreeListOps g1 [] (refV 3) [3] = true ∧ agreeListOps g1 [10, 11] noneV [] = true := by decide +kernel
example : (step g1 (.listLshift [10, 11] [6])).2 = none ∧ (step g1 (.listLshift [10, 11] [6])).1.succs 6 = [7, 10, 11] ∧
    (step g1 (.listLshift [10, 11] [6])).1.preds 11 = [6] := by decide +kernel
/-- not atomic: the first task is linked, the second is rejected (it would be its own predecessor) -/
example : (step g1 (.listLshift [10, 11] [11])).2 = some .runtime ∧ (step g1 (.listLshift [10, 11] [11])).1.preds 10 = [11] := by
  decide +kernel

def agreeSetParent (s : G) (ts : List Uid) (p : Option Uid) : Prop :=
  runE s (interpListSetParent FF ts p) = expectR s.n noneV (step s (.listSetParent ts p))
instance (s ts p) : Decidable (agreeSetParent s ts p) := by unfold agreeSetParent; infer_instance

example : allU g2 (fun a => (anchorsOpt g2).all (fun p => decide (agreeSetParent g2 [a, 4] p))) = true := by decide +kernel
example : allU g1 (fun a => [none, some 3, some 10, some 8].all (fun p => decide (agreeSetParent g1 [a, 10] p))) = true := by
  decide +kernel
example : allU g3 (fun a => (anchorsOpt g3).all (fun p => decide (agreeSetParent g3 [a, 2] p))) = true := by decide +kernel
example : (step g1 (.listSetParent [10, 11] (some 3))).2 = none ∧
    (step g1 (.listSetParent [10, 11] (some 3))).1.children 3 = [10, 11] ∧
    (step g1 (.listSetParent [10, 11] (some 3))).1.owner 11 = some 0 := by decide +kernel
/-- not atomic: 10 has moved when 2 (linked with 3) is rejected -/
example : (step g1 (.listSetParent [10, 2, 11] (some 3))).2 = some .runtime ∧
    (step g1 (.listSetParent [10, 2, 11] (some 3))).1.children 3 = [10] ∧ agreeSetParent g1 [10, 2, 11] (some 3) := by
  decide +kernel
example : (step g1 (.listSetParent [2, 5] none)).2 = none ∧ (step g1 (.listSetParent [2, 5] none)).1.children 0 = [1, 3, 2] ∧
    (step g1 (.listSetParent [2, 5] none)).1.parent 5 = none := by decide +kernel

end Check
end Pj.FacadeSrc
