/-
  Lemmas/SchedC08Removal.lean — C08, last clause: "with balancing off a task's dates do not change when unrelated tasks
  are removed".

  Formalisation: two scheduling environments `env`, `env'` (the WBS before and after removing, adding or re-ordering
  other tasks) that agree on the project start, the clock (constant during the calc), the default estimate and have
  balancing off; a task `t` of `env` and a task `t'` of `env'` that carry the same data (resource, milestone flag,
  min_start, user fields), are leaves, take part in no dependency (neither themselves nor through an ancestor:
  `freeLeaf`), and whose resource resolves to the same calendar in both resource tables.  Then both forward schedules
  give them the same start, end, estimate and spent, and the same (day, units) usage rows.

  Everything in namespace `Pj.C08R` to avoid clashes with the other lemma files.

  Proof: `alone` is a closed form of what one placement computes for a leaf that has no rows yet, with balancing off
  and a constant clock; it mentions only the leaf's own data, its calendar, the bound handed down, the clock and the
  default estimate (`fwdPlace_alone`).  The invariant `RemI` carried through the run says: the ledger facts of
  `C08.Base` (in particular a leaf that is not done still has its original fields and no rows), every resource key
  still resolves to the calendar it resolved to in the supplied table, and once the free leaf is done its fields and
  (day, units) rows are the ones `alone` computes from the project start (`alone_run`).  The bound handed down to a
  free leaf is the project start because nobody above it has predecessors, and nobody reaches it or one of its
  ancestors through a predecessor edge (links are stored on both ends and they have no successors).
-/
import PjVerif.Lemmas.SchedC08
namespace Pj
namespace C08R

/-- the calendar a resource key resolves to (`self.__resources.setdefault(name, Resource(name))`) -/
def calOf (res : List (Option Nat × Cal)) (k : Option Nat) : Cal := (resLookup res k).2

/-- the usage rows of a task as (day, units) -/
def dayUnits (rows : List Row) (t : Uid) : List (Int × Rat) := (rowsOf rows t).map (fun r => (r.day, r.units))

/-- `t` (in `env`) and `t'` (in `env'`) carry the same own data -/
def SameOwn (env env' : Env) (f0 f0' : Uid → Fields) (t t' : Uid) : Prop :=
  (env.info t).resource = (env'.info t').resource ∧ (env.info t).milestone = (env'.info t').milestone ∧
  (env.info t).minStart = (env'.info t').minStart ∧ f0 t = f0' t'

/-! ### the placement of a leaf, on its own -/

/-- `fwdStart` for a leaf that sees an empty ledger -/
def aloneStart (cal : Cal) (bound clk : Time) (minStart : Option Time) (g : Fields) : Res Fields :=
  match g.start with
  | some _ => pure g
  | none => do
    let s ← nearestFwd cal (fun _ => 0) (maxT (maxT bound clk) (minStart.getD epoch))
    pure { g with start := some s }

/-- `fillEst` for a leaf -/
def aloneEst (dflt : Rat) (g : Fields) : Fields :=
  { g with est := some (g.est.getD dflt), spent := some (g.spent.getD 0) }

/-- `leftOf` on the fields -/
def leftG (g : Fields) : Rat :=
  let est := (g.est).getD 0
  let sp := (g.spent).getD 0
  if est - sp < 0 then 0 else est - sp

/-- `fwdEnd` for a leaf that sees an empty ledger: the new fields and the (day, units) pairs reserved; `pstart` is the
    project start (the clock clamps the end only once it is later than that) -/
def aloneEnd (cal : Cal) (pstart clk : Time) (g : Fields) : Res (Fields × List (Int × Rat)) :=
  match g.end_ with
  | some _ => pure (g, [])
  | none => do
    let st := (g.start).getD epoch
    let (e, rows) ← shiftFwd cal (fun _ => 0) (maxT st clk) (leftG g)
    pure ({ g with end_ := some (maxT (if pstart < clk then maxT e clk else e) st) }, rows)

/-- what `fwdPlace` computes for a leaf with fields `g0` that has no rows yet, with balancing off, the clock
    constantly `clk`, the bound `bound` handed down and the project start `pstart` -/
def alone (cal : Cal) (bound pstart clk : Time) (dflt : Rat) (ms : Bool) (minStart : Option Time) (g0 : Fields) :
    Res (Fields × List (Int × Rat)) :=
  if ms then pure ({ start := some bound, end_ := some bound, est := some 0, spent := some 0 }, [])
  else do
    let g1 ← aloneStart cal bound clk minStart g0
    aloneEnd cal pstart clk (aloneEst dflt g1)

theorem fwdStart_alone (env : Env) (cal : Cal) (t : Uid) (v clk : Time) (σ σ' : SS)
    (hl : (env.info t).children.isEmpty = true) (hclk : ∀ k, env.clock k = clk)
    (h : fwdStart env cal (fun _ => 0) t v σ = .ok σ') :
    aloneStart cal v clk (env.info t).minStart (σ.f t) = .ok (σ'.f t) := by
  unfold fwdStart at h
  unfold aloneStart
  simp only at h
  split at h
  · rename_i x hx
    cases h
    simp only [hx]; rfl
  · rename_i hx
    simp only [hl, if_true, bind, Except.bind, now, hclk] at h
    split at h
    · cases h
    · rename_i s hs
      cases h
      simp only [hx, bind, Except.bind, hs, C08.setF_f_self]; rfl

theorem fillEst_alone (env : Env) (t : Uid) (σ σ' : SS) (hl : (env.info t).children.isEmpty = true)
    (h : fillEst env t σ = .ok σ') : σ'.f t = aloneEst env.defaultEst (σ.f t) := by
  unfold fillEst at h
  simp only [hl, if_true, bind, Except.bind] at h
  unfold aloneEst
  split at h
  · cases h
  · rename_i σ1 h1
    have s1 : σ1.f t = { σ.f t with est := some ((σ.f t).est.getD env.defaultEst) } := by
      split at h1
      · rename_i e he
        cases h1
        have : (σ.f t).est.getD env.defaultEst = e := by rw [he]; rfl
        rw [this, ← he]
      · rename_i he
        cases h1
        simp [C08.setF_f_self, he]
    split at h
    · rename_i e he
      cases h
      rw [s1] at he ⊢
      simp only at he
      simp [he]
    · rename_i he
      cases h
      rw [C08.setF_f_self, s1]
      rw [s1] at he
      simp only at he
      simp [he]

theorem map_dayUnits_mk (key : Option Nat) (t : Uid) (new : List (Int × Rat)) :
    (new.map (mkRow key t)).map (fun r => (r.day, r.units)) = new := by
  simp [List.map_map, Function.comp_def, mkRow]

theorem fwdEnd_alone (env : Env) (cal : Cal) (t : Uid) (clk : Time) (σ σ' : SS)
    (hl : (env.info t).children.isEmpty = true) (hclk : ∀ k, env.clock k = clk)
    (h : fwdEnd env cal (fun _ => 0) t σ = .ok σ') :
    ∃ new, aloneEnd cal env.bound clk (σ.f t) = .ok (σ'.f t, new) ∧
      σ'.rows = σ.rows ++ new.map (mkRow (env.info t).resource t) := by
  unfold fwdEnd at h
  unfold aloneEnd
  simp only at h
  split at h
  · rename_i x hx
    cases h
    refine ⟨[], ?_, by simp⟩
    simp only [hx]; rfl
  · rename_i hx
    simp only [hl, if_true, bind, Except.bind, now, hclk] at h
    split at h
    · cases h
    · rename_i p hp
      obtain ⟨e, rows⟩ := p
      cases h
      refine ⟨rows, ?_, ?_⟩
      · have hp' : shiftFwd cal (fun _ => 0) (maxT ((σ.f t).start.getD epoch) clk) (leftG (σ.f t)) = .ok (e, rows) := hp
        simp only [hx, bind, Except.bind, hp', C08.setF_f_self]
        rfl
      · simp [setF, addRows, mkRow]

/-- one placement of a leaf that has no rows yet, balancing off, constant clock: the new fields of the leaf and the
    rows appended are the ones `alone` computes -/
theorem fwdPlace_alone (env : Env) (σ σ' : SS) (t : Uid) (v clk : Time)
    (hl : (env.info t).children.isEmpty = true) (hclk : ∀ k, env.clock k = clk) (hb : env.balance = false)
    (hnr : ∀ r ∈ σ.rows, r.task ≠ t) (h : fwdPlace env σ t v = .ok σ') :
    ∃ new, alone (calOf σ.res (env.info t).resource) v env.bound clk env.defaultEst (env.info t).milestone
        (env.info t).minStart (σ.f t) = .ok (σ'.f t, new) ∧
      σ'.rows = σ.rows ++ new.map (mkRow (env.info t).resource t) := by
  have hu : usedBy env σ.rows (env.info t).resource t = fun _ => 0 := by
    funext d
    unfold usedBy
    simp only [hb]
    exact C08.reserved_none_task σ.rows t hnr _ d
  unfold fwdPlace at h
  unfold alone calOf
  rcases hr : resLookup σ.res (env.info t).resource with ⟨res', cal⟩
  simp only [hr, bind, Except.bind, pure, Except.pure, hu] at h ⊢
  split at h
  · rename_i hm
    cases h
    refine ⟨[], ?_, by simp [markDone, setF]⟩
    simp [hm, markDone, C08.setF_f_self]
  · rename_i hm
    split at h
    · cases h
    · rename_i σ1 h1
      split at h
      · cases h
      · rename_i σ2 h2
        split at h
        · cases h
        · rename_i σ3 h3
          cases h
          have a1 := fwdStart_alone env cal t v clk _ σ1 hl hclk h1
          have a2 := fillEst_alone env t σ1 σ2 hl h2
          obtain ⟨new, a3, r3⟩ := fwdEnd_alone env cal t clk σ2 σ3 hl hclk h3
          have r1 := (fwdStart_stage _ _ _ _ _ _ _ h1).rows
          have r2 := (fillEst_stage _ _ _ _ h2).rows
          refine ⟨new, ?_, ?_⟩
          · simp only [hm] at a1 ⊢
            simp only [a1, ← a2]
            exact a3
          · show σ3.rows = _
            rw [r3, r2, r1]
            simp

/-! ### the resource table -/

/-- `setdefault` of one key does not change what any key resolves to -/
theorem calOf_resLookup (res : List (Option Nat × Cal)) (k' k : Option Nat) :
    calOf (resLookup res k').1 k = calOf res k := by
  unfold calOf
  cases hf' : res.find? (fun p => p.1 == k') with
  | some p => simp [resLookup, hf']
  | none =>
    have e1 : (resLookup res k').1 = res ++ [(k', defaultCal)] := by simp [resLookup, hf']
    rw [e1]
    cases hf : res.find? (fun p => p.1 == k) with
    | some q => simp [resLookup, List.find?_append, hf]
    | none =>
      by_cases hk : k' = k
      · subst hk
        simp [resLookup, List.find?_append, hf]
      · have hbk : (k' == k) = false := by simpa using hk
        simp [resLookup, List.find?_append, hf, hbk]

theorem fwdPlace_res (env : Env) (σ σ' : SS) (t : Uid) (m : Time) (h : fwdPlace env σ t m = .ok σ') :
    σ'.res = (resLookup σ.res (env.info t).resource).1 := by
  obtain ⟨new, σm, hs, rfl, _⟩ := fwdPlace_stage env σ σ' t m h
  exact hs.res

/-! ### the invariant of the run -/

/-- what the run keeps, for the free leaf `y` and the constant clock value `clk` -/
structure RemI (env : Env) (f0 : Uid → Fields) (res0 : List (Option Nat × Cal)) (clk : Time) (y : Uid) (σ : SS) :
    Prop where
  base : C08.Base env f0 σ
  cal : ∀ k, calOf σ.res k = calOf res0 k
  got : y ∈ σ.done →
    alone (calOf res0 (env.info y).resource) env.bound env.bound clk env.defaultEst (env.info y).milestone
      (env.info y).minStart (f0 y) = .ok (σ.f y, dayUnits σ.rows y)

theorem dayUnits_frozen {σ σ' : SS} (he : Ext σ σ') {y : Uid} (hy : y ∈ σ.done) :
    dayUnits σ'.rows y = dayUnits σ.rows y := by
  obtain ⟨r, hr, hq⟩ := he.rows
  unfold dayUnits
  rw [hr, C08.rowsOf_append, C08.rowsOf_none r y (fun x hx hc => (hq x hx).2 (hc ▸ hy))]
  simp

theorem RemI.place {env : Env} {f0 : Uid → Fields} {res0 : List (Option Nat × Cal)} {clk : Time} {y : Uid}
    {σ σ' : SS} {t : Uid} {v : Time}
    (hclk : ∀ k, env.clock k = clk) (hb : env.balance = false) (hyl : (env.info y).children.isEmpty = true)
    (hv : t = y → v = env.bound) (hi : RemI env f0 res0 clk y σ) (ht : t ∉ σ.done)
    (h : fwdPlace env σ t v = .ok σ') : RemI env f0 res0 clk y σ' := by
  obtain ⟨he, hd⟩ := fwdPlace_ext env σ σ' t v ht h
  refine ⟨hi.base.place ht h, ?_, ?_⟩
  · intro k
    rw [fwdPlace_res env σ σ' t v h, calOf_resLookup]
    exact hi.cal k
  · intro hy
    rw [hd] at hy
    rcases List.mem_append.1 hy with hy | hy
    · rw [he.frozen y hy, dayUnits_frozen he hy]
      exact hi.got hy
    · simp only [List.mem_singleton] at hy
      subst hy
      have hv' := hv rfl
      subst hv'
      obtain ⟨new, ha, hr⟩ := fwdPlace_alone env σ σ' y env.bound clk hyl hclk hb (hi.base.noRows ht) h
      rw [hi.cal, hi.base.leafF y ht hyl] at ha
      have hdu : dayUnits σ'.rows y = new := by
        unfold dayUnits
        rw [hr, C08.rowsOf_append, C08.rowsOf_none σ.rows y (hi.base.noRows ht), C08.rowsOf_mk]
        rw [List.nil_append, map_dayUnits_mk]
      rw [hdu]
      exact ha

/-- in one forward schedule the fields and the (day, units) rows of a free leaf are the ones `alone` computes from
    its own data, the calendar its resource resolves to in the supplied table, the project start, the (constant)
    clock and the default estimate -/
theorem alone_run (env : Env) (f0 : Uid → Fields) (res0 : List (Option Nat × Cal)) (o : Output) (clk : Time) (y : Uid)
    (hf : env.flagsOK) (hl : env.linksSym) (hch : env.childrenOK) (hb : env.balance = false)
    (hclk : ∀ k, env.clock k = clk) (hy : y ∈ memberList env) (hfree : freeLeaf env y = true)
    (h : forwardCalc env f0 res0 = .ok o) :
    alone (calOf res0 (env.info y).resource) env.bound env.bound clk env.defaultEst (env.info y).milestone
      (env.info y).minStart (f0 y) = .ok (o.f y, dayUnits o.rows y) := by
  obtain ⟨mem, σ, hm, hp, hout⟩ := fwdRun_ok env f0 res0 o (forwardCalc_run env f0 res0 o h)
  have hml := memberList_eq env mem hm
  have hmemb : ∀ t, (env.info t).member = true ↔ t ∈ mem := fun t => by rw [← hml]; exact hf t
  have hch' : ∀ t c, t ∈ mem → c ∈ (env.info t).children → (env.info c).parent = some t := by
    intro t c ht hc; exact hch t c (by rw [hml]; exact ht) hc
  have hyl : (env.info y).children.isEmpty = true := by
    simp only [freeLeaf, isLeaf, Bool.and_eq_true] at hfree
    exact hfree.1
  have hI : RemI env f0 res0 clk y σ := by
    refine passList_inv (RemI env f0 res0 clk y) _ _ ?_ _ _
      ⟨C08.Base.init env f0 mem res0 1, fun _ => rfl, fun hc => by cases hc⟩ hp
    intro a x b hx ha hh
    refine C08.fwdPass_inv2 env (RemI env f0 res0 clk y)
      (fun t m => t ∈ mem ∧ (RTC (fun a b => b ∈ (env.info a).children) t y → m = env.bound))
      ?_ ?_ ?_ _ _ _ _ _ _ ⟨members_root env mem hm x hx, fun _ => rfl⟩ ha hh
    · intro σ1 σ2 σ' t m hq hi _ _ ht _ hpl
      refine RemI.place hclk hb hyl ?_ hi ht hpl
      intro hty
      subst hty
      have hpreds := (C08.free_anc env mem hm hch' t hfree t hq.1 RTC.refl).1
      rw [hpreds, C08.maxEnds_nil]
      exact hq.2 RTC.refl
    · intro t c σ1 m hq hc
      refine ⟨members_children env mem hm t hq.1 c hc, fun hr => ?_⟩
      have hrt : RTC (fun a b => b ∈ (env.info a).children) t y := RTC.head hc hr
      have hpreds := (C08.free_anc env mem hm hch' y hfree t hq.1 hrt).1
      rw [hpreds, C08.maxEnds_nil]
      exact hq.2 hrt
    · intro t p m hq hp' hpm
      have hpmem : p ∈ mem := (hmemb p).1 (hpm.trans ((hmemb t).2 hq.1))
      refine ⟨hpmem, fun hr => ?_⟩
      have hsuccs := (C08.free_anc env mem hm hch' y hfree p hpmem hr).2
      have hts := (hl p t).1 hp'
      rw [hsuccs] at hts
      cases hts
  have hdone := C08.fwdRun_all_done env mem hm _ σ rfl hp
  subst hout
  exact hI.got (hdone y (by rw [← hml]; exact hy))

set_option linter.unusedVariables false in
theorem removal_free (env env' : Env) (f0 f0' : Uid → Fields) (res0 res0' : List (Option Nat × Cal)) (o o' : Output)
    (t t' : Uid)
    (hf : env.flagsOK) (hf' : env'.flagsOK)
    (hl : env.linksSym) (hl' : env'.linksSym) (hp : env.parentsOK) (hp' : env'.parentsOK)
    (hch : env.childrenOK) (hch' : env'.childrenOK) (hn : env.membersNodup) (hn' : env'.membersNodup)
    (hb : env.balance = false) (hb' : env'.balance = false)
    (hclk : ∀ k, env.clock k = env.clock 0) (hclk' : ∀ k, env'.clock k = env.clock 0)
    (hbound : env'.bound = env.bound) (hde : env'.defaultEst = env.defaultEst)
    (ht : t ∈ memberList env) (ht' : t' ∈ memberList env')
    (hfree : freeLeaf env t = true) (hfree' : freeLeaf env' t' = true)
    (hown : SameOwn env env' f0 f0' t t')
    (hcal : calOf res0 (env.info t).resource = calOf res0' (env'.info t').resource)
    (h : forwardCalc env f0 res0 = .ok o) (h' : forwardCalc env' f0' res0' = .ok o') :
    o.f t = o'.f t' ∧ dayUnits o.rows t = dayUnits o'.rows t' := by
  have a := alone_run env f0 res0 o (env.clock 0) t hf hl hch hb hclk ht hfree h
  have a' := alone_run env' f0' res0' o' (env.clock 0) t' hf' hl' hch' hb' hclk' ht' hfree' h'
  obtain ⟨_, hms, hmin, hf0⟩ := hown
  rw [← hcal, hbound, hde, ← hms, ← hmin, ← hf0, a] at a'
  have := Except.ok.inj a'
  exact ⟨congrArg Prod.fst this, congrArg Prod.snd this⟩

end C08R
end Pj
