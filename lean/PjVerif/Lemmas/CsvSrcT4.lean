/-
  Lemmas/CsvSrcT4.lean — CSV I/O, READ side: a run of the translated `raws_to_wbs` = the composition of the four folds
  (`raws_to_wbs_run`).  The lookups `wbs[id]` of the third loop are tied to the dict `tasks_by_id` by the hypothesis
  `hfind` (on the store after the `roots` loop, `treeSt`); CsvSrcT5 derives it for flat inputs.
-/
import PjVerif.Lemmas.CsvSrcT3
namespace Pj.CsvSrc
open Pj.PyLite Pj.Extracted.Csv Pj.Csv

theorem src_raws_to_wbs_shape : src_raws_to_wbs =
    [.assign "tasks_by_id" .dictNil,
     .forIn "raw" (.var "raws") mkBody,
     .assign "roots" .listNil,
     .forIn "raw" (.var "raws") linkBody,
     wbsAssign,
     .forIn "r" (.var "roots") rootBody,
     .forIn "raw" (.var "raws") predBody,
     .ret (.var "wbs")] := rfl

/-- `tasks_by_id.get(k)` as an object number -/
def dictRef (D : List (Atom × Atom)) (k : Atom) : Option Nat :=
  match Dict.get? D k with
  | some (.ref q) => some q
  | _ => none

def predsOf (e : PyLite.Env) : List Atom :=
  match e.get? "predecessor_ids" with
  | some (.list l) => l
  | _ => []

/-- a raw object as `read_csv` builds it: `RawOK`, a scalar `parent_id`, a list `predecessor_ids` -/
structure RawOK2 (e : PyLite.Env) : Prop where
  ok : RawOK e
  pid : ∃ a, e.get? "parent_id" = some (.atom a)
  preds : ∃ l, e.get? "predecessor_ids" = some (.list l)

/-- the store after the first loop: one task per raw object, from `st.reads` on -/
def tasksSt (st : PState) (os : List Nat) : PState := os.foldl (fun s o => allocSt s (mkTask (st.heap o))) st
/-- the dict `tasks_by_id` -/
def idDict (st : PState) (os : List Nat) : List (Atom × Atom) := byId st.heap os st.reads []
/-- the store and the list `roots` after the second loop -/
def linked (st : PState) (os : List Nat) : PState × List Atom :=
  (linkRows st.heap st.reads os).foldl (fun s r => linkStep (idDict st os) r.t r.p s) (tasksSt st os, [])
/-- the object `WBS()` -/
def wbsRef (st : PState) (os : List Nat) : Nat := st.reads + os.length
/-- the store after the `roots` loop -/
def treeSt (st : PState) (os : List Nat) : PState :=
  (linked st os).2.foldl (addRoot (wbsRef st os)) (allocSt (linked st os).1 (wbsEnv []))
/-- the rows of the third loop -/
def predRows (st : PState) (os : List Nat) : List PredRow :=
  (linkRows st.heap st.reads os).map (fun r => ⟨r.o, r.a, r.t, predsOf (st.heap r.o),
    (predsOf (st.heap r.o)).filterMap (dictRef (idDict st os))⟩)

theorem map_filterMap_some {α β} (G : α → Option β) : ∀ (ks : List α), (∀ k ∈ ks, (G k).isSome) →
    ks.map G = (ks.filterMap G).map some
  | [], _ => rfl
  | k :: ks, h => by
    obtain ⟨q, hq⟩ := Option.isSome_iff_exists.1 (h k (List.mem_cons_self ..))
    rw [List.map_cons, List.filterMap_cons, hq, List.map_cons,
      map_filterMap_some G ks (fun k' hk' => h k' (List.mem_cons_of_mem _ hk'))]

theorem dictRef_some {D : List (Atom × Atom)} {k : Atom} {q : Nat} (h : dictRef D k = some q) :
    Dict.get? D k = some (.ref q) := by
  unfold dictRef at h
  cases hg : Dict.get? D k with
  | none => rw [hg] at h; cases h
  | some v =>
    rw [hg] at h
    cases v <;> cases h <;> rfl

theorem dictRef_of_get {D : List (Atom × Atom)} {k : Atom} {q : Nat} (h : Dict.get? D k = some (.ref q)) :
    dictRef D k = some q := by
  unfold dictRef; rw [h]

theorem linked_reads (st : PState) (os : List Nat) : (linked st os).1.reads = wbsRef st os := by
  unfold linked
  rw [linkFold_reads]
  exact allocFold_reads _ os st

theorem idDict_vals (st : PState) (os : List Nat) :
    ∀ k v, Dict.get? (idDict st os) k = some v → ∃ q, v = .ref q ∧ st.reads ≤ q :=
  byId_vals st.heap st.reads os st.reads [] (Nat.le_refl _) (fun k v h => by simp [Dict.get?] at h)

theorem tasksSt_inv (st : PState) (os : List Nat) (hpar : ParInv st.reads st) :
    LinkInv st.reads st.heap (tasksSt st os) :=
  ⟨fun j hj => allocFold_low _ j os st hj, allocFold_par st.reads _ (fun _ => mkTask_parent _) os st hpar⟩

theorem linked_inv (st : PState) (os : List Nat) (hpar : ParInv st.reads st) :
    LinkInv st.reads st.heap (linked st os).1 :=
  linkFold_inv st.reads st.heap _ (idDict_vals st os) _ _
    (fun r hr => (linkRows_spec st.heap st.reads os r hr).2.2.2) (tasksSt_inv st os hpar)

theorem treeSt_low (st : PState) (os : List Nat) (hpar : ParInv st.reads st) (j : Nat) (hj : j < st.reads) :
    (treeSt st os).heap j = st.heap j := by
  unfold treeSt
  rw [addRoots_other _ j (by unfold wbsRef; omega)]
  have hne : j ≠ (linked st os).1.reads := by rw [linked_reads]; unfold wbsRef; omega
  simp only [allocSt, if_neg hne]
  exact (linked_inv st os hpar).low j hj

/-- a run of `raws_to_wbs` on the raw objects `os` (below the allocation pointer; `RawOK2`; pairwise different ids; every
    predecessor id names a row): the task objects `mkTask`, linked by `linkStep`, the roots in `WBS()`, the predecessor
    links `predStep` between the tasks `tasks_by_id` holds -/
theorem raws_to_wbs_run (L : IOLib) (F : Nat) (st : PState) (os : List Nat)
    (hos : ∀ o ∈ os, o < st.reads ∧ RawOK2 (st.heap o)) (hpar : ParInv st.reads st)
    (hids : (os.map (fun o => slot (st.heap o) "id")).Pairwise (fun a b => a.pyEq b = false))
    (hpreds : ∀ o ∈ os, ∀ k ∈ predsOf (st.heap o), (dictRef (idDict st os) k).isSome)
    (hfind : ∀ k, wbsFind (treeSt st os) (wbsRef st os) k = dictRef (idDict st os) k) :
    runIO L csvFuns (F + 2) fn_raws_to_wbs [.list (os.map Atom.ref)] st =
      .ok (.atom (.ref (wbsRef st os)), predAll (predRows st os) (treeSt st os)) := by
  let n := st.reads
  let E := st.heap
  let D := idDict st os
  let w := wbsRef st os
  let rows := linkRows E n os
  let H := HH L (F + 1)
  let rec_ : List Atom → PState → Res (Val × PState) := fun _ _ => throw stuck
  let env0 : PyLite.Env := [("raws", .list (os.map Atom.ref))]
  let env1 := env0.set "tasks_by_id" (.dict [])
  have hD := idDict_vals st os
  have h1 : (Stmt.assign "tasks_by_id" .dictNil).execP H [] rec_ env0 st = .normal env1 st := exec_assign rfl
  have hraws1 : env1.get? "raws" = some (.list (os.map Atom.ref)) := by rw [envGet_set, if_neg (by decide)]; rfl
  -- first loop
  obtain ⟨env2, g1, g2, g3⟩ := mk_loop L F rec_ E os env1 st [] (by rw [envGet_set, if_pos rfl])
    (fun o ho => ⟨(hos o ho).1, rfl, (hos o ho).2.ok⟩)
  have h2 : (Stmt.forIn "raw" (.var "raws") mkBody).execP H [] rec_ env1 st = .normal env2 (tasksSt st os) := by
    rw [exec_forIn (eval_var hraws1) rfl]; exact g1
  have hraws2 : env2.get? "raws" = some (.list (os.map Atom.ref)) := by rw [g3 "raws" (by decide)]; exact hraws1
  let env3 := env2.set "roots" (.list [])
  have h3 : (Stmt.assign "roots" .listNil).execP H [] rec_ env2 (tasksSt st os) = .normal env3 (tasksSt st os) :=
    exec_assign rfl
  have hraws3 : env3.get? "raws" = some (.list (os.map Atom.ref)) := by rw [envGet_set, if_neg (by decide)]; exact hraws2
  -- second loop
  have hget := byId_get E os n [] hids
  obtain ⟨env4, g4, g5, g6⟩ := link_loop L F rec_ n E D hD rows env3 (tasksSt st os) []
    (by rw [envGet_set, if_neg (by decide)]; exact g2) (by rw [envGet_set, if_pos rfl]) (tasksSt_inv st os hpar)
    (fun x hx => by
      obtain ⟨a, b, c, _⟩ := linkRows_spec E n os x hx
      obtain ⟨ho, hok⟩ := hos _ a
      refine ⟨ho, by rw [b]; exact hok.ok.get "id" (by decide), ?_, hget x hx⟩
      obtain ⟨p, hp⟩ := hok.pid
      rw [c]; simp only [slot, E, hp])
  have h4 : (Stmt.forIn "raw" (.var "raws") linkBody).execP H [] rec_ env3 (tasksSt st os) =
      .normal env4 (linked st os).1 := by
    rw [exec_forIn (eval_var hraws3) rfl, ← linkRows_map E n os]; exact g4
  have hraws4 : env4.get? "raws" = some (.list (os.map Atom.ref)) := by rw [g6 "raws" (by decide)]; exact hraws3
  -- WBS()
  let env5 := env4.set "wbs" (.atom (.ref w))
  have h5 : wbsAssign.execP H [] rec_ env4 (linked st os).1 = .normal env5 (allocSt (linked st os).1 (wbsEnv [])) := by
    rw [exec_wbsAssign, linked_reads]
  have hw5 : env5.get? "wbs" = some (.atom (.ref w)) := by rw [envGet_set, if_pos rfl]
  have hroots5 : env5.get? "roots" = some (.list (linked st os).2) := by
    rw [envGet_set, if_neg (by decide)]; exact g5
  -- the roots
  obtain ⟨ts, hts⟩ := refs_of_all (linked st os).2 (linkFold_refs D rows _ (fun a ha => by cases ha))
  obtain ⟨env6, g7, g8⟩ := root_loop L F rec_ w ts env5 (allocSt (linked st os).1 (wbsEnv [])) hw5
  rw [← hts] at g7
  have h6 : (Stmt.forIn "r" (.var "roots") rootBody).execP H [] rec_ env5 (allocSt (linked st os).1 (wbsEnv [])) =
      .normal env6 (treeSt st os) := by
    rw [exec_forIn (eval_var hroots5) rfl]; exact g7
  have hw6 : env6.get? "wbs" = some (.atom (.ref w)) := by rw [g8 "wbs" (by decide)]; exact hw5
  have hraws6 : env6.get? "raws" = some (.list (os.map Atom.ref)) := by
    rw [g8 "raws" (by decide), envGet_set, if_neg (by decide)]; exact hraws4
  -- third loop
  have hfun : wbsFind (treeSt st os) w = dictRef D := funext hfind
  obtain ⟨env7, g9, g10⟩ := pred_loop L F rec_ n w E (treeSt st os)
    (fun k q hq => by
      rw [hfind] at hq
      obtain ⟨q', h1, h2⟩ := hD k _ (dictRef_some hq)
      injection h1 with h1; omega)
    (predRows st os) env6 (treeSt st os) hw6 (SameTree.refl _) (treeSt_low st os hpar)
    (fun r hr => by
      obtain ⟨x, hx, rfl⟩ := List.mem_map.1 hr
      obtain ⟨a, b, c, _⟩ := linkRows_spec E n os x hx
      obtain ⟨ho, hok⟩ := hos _ a
      obtain ⟨l, hl⟩ := hok.preds
      refine ⟨ho, by rw [b]; exact hok.ok.get "id" (by decide), ?_, ?_, ?_⟩
      · show (E x.o).get? "predecessor_ids" = some (Val.list (predsOf (st.heap x.o)))
        simp only [predsOf, E, hl]
      · show wbsFind (treeSt st os) w x.a = some x.t
        rw [hfind]; exact dictRef_of_get (hget x hx)
      · show (predsOf (st.heap x.o)).map (wbsFind (treeSt st os) w) = _
        rw [hfun]; exact map_filterMap_some _ _ (hpreds _ a))
  have hmap : (predRows st os).map (fun r => Atom.ref r.o) = os.map Atom.ref := by
    unfold predRows
    rw [List.map_map]; exact linkRows_map E n os
  have h7 : (Stmt.forIn "raw" (.var "raws") predBody).execP H [] rec_ env6 (treeSt st os) =
      .normal env7 (predAll (predRows st os) (treeSt st os)) := by
    rw [exec_forIn (eval_var hraws6) rfl, ← hmap]; exact g9
  have hw7 : env7.get? "wbs" = some (.atom (.ref w)) := by rw [g10 "wbs" (by decide)]; exact hw6
  rw [runIO_fn L (F + 1) fn_raws_to_wbs _ _ _ _ rfl, src_raws_to_wbs_shape]
  simp only [callPV, bindParamsV, src_raws_to_wbs_params, pure, Except.pure, bind, Except.bind]
  rw [block_cons_normal h1, block_cons_normal h2, block_cons_normal h3, block_cons_normal h4, block_cons_normal h5,
    block_cons_normal h6, block_cons_normal h7, execBlockP, exec_ret (eval_var hw7)]

end Pj.CsvSrc
