/-
  Lemmas/PrintSrc.lean — THE SHEET PRINTER OF task.py (class `_Repr`): the hand-written model of the printed sheets
  (Model/Print.lean: `linkedId`, `fieldValue`, `subtreeRows`, `sheet`) equals the interpretation of the CURRENT SOURCE of

    _Repr.__calc_max_title_len   __get_linked_task_id   __get_linked_tasks_id   __get_field_value   __max_field_len
    __print_task_subtree   repr

  (Extracted/PrintSrc.lean, regenerated from src/pjplan/task.py and utils.py by tools/extract_print.py on every check).
  The seven functions form a PROGRAM (`printFuns`), run by `progH (printPrim S pts th) printFuns F` (Model/PyLite.lean: every
  call costs one unit of the fuel `F`, which bounds the DEPTH of nested calls as Python's recursion limit does).
  Model/PyLite.lean is NOT changed: every string operation is a library primitive (`prim`) with the meaning stated below.

  Files.  This file: the encoding, the primitives, the entry points, the specifications of the layout numbers.
  PrintSrcA.lean: stage 1, general theorems (`linked_id_spec`, `linked_ids_spec`, `field_value_std`, `interp…_eq`); the
  summary of the results and the NEGATIVE CHECK (comment block at its end).  PrintSrcCheck.lean (stages 1, 2),
  PrintSrcCheckB.lean (stage 3): the kernel-checked concrete runs.

  Setting.
  * STRINGS are atoms `.str k`; a string library `S : Lib` relates keys and texts: `S.I : Str → Nat` (the key of a text),
    `S.D : Nat → Str` (the text of a key) with the hypothesis `S.OK : ∀ s, S.D (S.I s) = s` (so equal keys = equal texts:
    Python's `==` on strs is `==` on keys).  `S.strOf a` is Python's `str(a)` for a value that is not a str (ints,
    floats, … - numbers are rationals in PyLite, so the decimal text of a float is NOT determined: it is a parameter),
    `S.fmt t` is `t.strftime('%d.%m.%Y %H:%M')`, `S.emptyId` is the value of EMPTY_TASK_ID.  The theorems hold for EVERY
    such library; the Check files use the concrete one of this file (`cLib`: `enc` / `dec`; its round trip is checked on the texts used, not proved in general).
  * A TASK object is `ref t`; its library attributes are primitives read from a Python-level description
    `pts : Nat → PyTask` (`id`: any value; `name`: None or a str; `estimate`, `spent`: None or a value; `dict`: the entries
    of `__dict__` (name ↦ value); `children`, `preds`, `succs`: the raw lists; `parent`: the PUBLIC parent; `wbs`: the
    identity of the owning WBS or None).  `toPTask S` derives what the model needs to know (`PTask`: the texts).
    `x.__getattribute__(k)` for a key of `__dict__` is the value stored there (no data descriptor of the class shadows a
    key of the instance dict).
  * The THEME is an opaque dict object; `th : PyTheme` gives `theme['level_colors']` (a list of strs) and
    `theme['header_color']` (`header = none`: the key is missing, `some none`: the value None).  `toTheme` is the model's.
  * The TABLE (`TextTable`, stage 4 - not translated) is the LOG of the calls made on it, the box `box 0`:
    `new_row(c)` appends the marker `True` and `c`, `new_cell(v)` appends `v`; `logOfRows` writes the model's rows as such
    a log, `rowsOfLog` reads it back; `table.text_repr()` is the primitive "text_repr" = the model's `render` of the rows.
  * `lower()` / `upper()` are the model's ASCII maps (`asciiLower` / `asciiUpper`): field names are ASCII.
-/
import PjVerif.Extracted.PrintSrc
import PjVerif.Model.Print
namespace Pj.PrintSrc
open Pj.PyLite Pj.Print Pj.Extracted.Print

/-! ### the string library -/

structure Lib where
  I : Str → Nat
  D : Nat → Str
  strOf : Atom → Str
  fmt : Time → Str
  emptyId : Atom

def Lib.OK (S : Lib) : Prop := ∀ s, S.D (S.I s) = s

def Lib.s (S : Lib) (x : Str) : Atom := .str (S.I x)

def Lib.os (S : Lib) : Option Str → Atom
  | none => .none
  | some x => S.s x

/-- Python's `str(a)` -/
def Lib.text (S : Lib) : Atom → Str
  | .str k => S.D k
  | a => S.strOf a

/-! ### tasks and themes -/

structure PyTask where
  id : Atom
  name : Option Str
  estimate : Atom
  spent : Atom
  dict : List (Str × Atom)
  children : List Nat
  preds : List Nat
  succs : List Nat
  parent : Option Nat
  wbs : Option Nat
  deriving Inhabited

/-- the text of a value of `__dict__` as the model sees it: None, a formatted datetime, `str(v)` -/
def valText (S : Lib) : Atom → Option Str
  | .none => none
  | .time t => some (S.fmt t)
  | a => some (S.text a)

def optText (S : Lib) (a : Atom) : Option Str := if a = .none then none else some (S.text a)

def toPTask (S : Lib) (p : PyTask) : PTask :=
  { idText := S.text p.id, isRoot := p.id.pyEq S.emptyId, name := p.name,
    estimate := optText S p.estimate, spent := optText S p.spent,
    dict := p.dict.map (fun kv => (kv.1, valText S kv.2)),
    children := p.children, preds := p.preds, succs := p.succs, parent := p.parent, owner := p.wbs }

structure PyTheme where
  header : Option (Option Str)
  levels : List Str

def toTheme (th : PyTheme) : Theme :=
  { header := match th.header with | none => some grey | some h => h, levels := th.levels }

def refsA (l : List Nat) : Val := .list (l.map Atom.ref)

def optRefA : Option Nat → Atom
  | none => .none
  | some i => .ref i

def lookupA (d : List (Str × Atom)) (k : Str) : Option Atom := (d.find? (fun p => p.1 == k)).map (·.2)

def keysOfStrs : List Atom → Option (List Nat)
  | [] => some []
  | .str k :: l => (keysOfStrs l).map (k :: ·)
  | _ :: _ => none

/-! ### the table as a log -/

def mkRow (S : Lib) (c : Atom) (cells : List Atom) : Option (Option Str × List Cell) :=
  match (match c with | .none => some none | .str k => some (some (S.D k)) | _ => none), keysOfStrs cells with
  | some col, some ks => some (col, ks.map (fun k => { text := S.D k, color := col }))
  | _, _ => none

/-- read a log from the right: the items not yet attributed to a row, the rows -/
def parseLog (S : Lib) : List Atom → Option (List Atom × List (Option Str × List Cell))
  | [] => some ([], [])
  | .bool true :: rest =>
    match parseLog S rest with
    | some (c :: cells, rows) => (mkRow S c cells).map (fun r => ([], r :: rows))
    | _ => none
  | a :: rest => (parseLog S rest).map (fun p => (a :: p.1, p.2))

def rowsOfLog (S : Lib) (log : List Atom) : Option (List (Option Str × List Cell)) :=
  match parseLog S log with
  | some ([], rows) => some rows
  | _ => none

/-- the calls `new_row(colour)`, `new_cell(text)…` that produce the rows -/
def logOfRow (S : Lib) (r : Option Str × List Cell) : List Atom :=
  .bool true :: S.os r.1 :: r.2.map (fun c => S.s c.text)

def logOfRows (S : Lib) (rows : List (Option Str × List Cell)) : List Atom := (rows.map (logOfRow S)).flatten

/-! ### the primitives -/

def isTimeA : Atom → Bool
  | .time _ => true
  | _ => false

def one (args : List Atom) (f : Atom → Res Val) : Res Val :=
  match args with
  | [a] => f a
  | _ => throw stuck

def oneTask (args : List Atom) (f : Nat → Val) : Res Val :=
  match args with
  | [.ref t] => pure (f t)
  | _ => throw stuck

def oneStr (args : List Atom) (f : Nat → Val) : Res Val :=
  match args with
  | [.str k] => pure (f k)
  | _ => throw stuck

def printPrim (S : Lib) (pts : Nat → PyTask) (th : PyTheme) : String → List Atom → PState → Res Val := fun name args _ =>
  if name.startsWith "lit:" then
    (match args with
     | [] => pure (S.s (name.drop 4).toString.toList)
     | _ => throw stuck)
  else if name = "EMPTY_TASK_ID" then (match args with | [] => pure S.emptyId | _ => throw stuck)
  else if name = "name" then oneTask args (fun t => S.os (pts t).name)
  else if name = "id" then oneTask args (fun t => (pts t).id)
  else if name = "wbs" then oneTask args (fun t => optRefA (pts t).wbs)
  else if name = "parent" then oneTask args (fun t => optRefA (pts t).parent)
  else if name = "children" then oneTask args (fun t => refsA (pts t).children)
  else if name = "predecessors" then oneTask args (fun t => refsA (pts t).preds)
  else if name = "successors" then oneTask args (fun t => refsA (pts t).succs)
  else if name = "estimate" then oneTask args (fun t => (pts t).estimate)
  else if name = "spent" then oneTask args (fun t => (pts t).spent)
  else if name = "__dict__" then oneTask args (fun t => .list ((pts t).dict.map (fun p => S.s p.1)))
  else if name = "__getattribute__" then
    (match args with
     | [.ref t, .str k] =>
       match lookupA (pts t).dict (S.D k) with
       | some v => pure v
       | none => throw (.crash .attribute)
     | _ => throw stuck)
  else if name = "str" then one args (fun a => pure (S.s (S.text a)))
  else if name = "strlen" then oneStr args (fun k => Atom.num (((S.D k).length : Nat) : Rat))
  else if name = "lower" then oneStr args (fun k => S.s ((S.D k).map asciiLower))
  else if name = "upper" then oneStr args (fun k => S.s ((S.D k).map asciiUpper))
  else if name = "concat" then
    (match args with
     | [.str a, .str b] => pure (S.s (S.D a ++ S.D b))
     | _ => throw stuck)
  else if name = "repeat" then
    (match args with
     | [.str a, n] =>
       match n.asInt? with
       | some i => pure (S.s (List.replicate i.toNat (S.D a)).flatten)
       | none => throw stuck
     | _ => throw stuck)
  else if name = "join:," then
    (match keysOfStrs args with
     | some ks => pure (S.s (joinComma (ks.map S.D)))
     | none => throw stuck)
  else if name = "isinstance:datetime" then
    one args (fun a => pure (Atom.bool (isTimeA a)))
  else if name = "strftime:%d.%m.%Y %H:%M" then
    (match args with
     | [.time t] => pure (S.s (S.fmt t))
     | _ => throw stuck)
  else if name = "getitem" then
    (match args with
     | [_, .str k] =>
       if S.D k = "level_colors".toList then pure (.list (th.levels.map S.s))
       else if S.D k = "header_color".toList then
         (match th.header with
          | some h => pure (S.os h)
          | none => throw (.crash .key))
       else throw (.crash .key)
     | _ => throw stuck)
  else if name = "contains" then
    (match args with
     | [_, .str k] =>
       pure (Atom.bool (decide (S.D k = "level_colors".toList) || (decide (S.D k = "header_color".toList) && th.header.isSome)))
     | _ => throw stuck)
  else if name = "text_repr" then
    (match rowsOfLog S args with
     | some rows => pure (S.s (render rows))
     | none => throw stuck)
  else throw stuck

/-! ### entry points -/

def st0 : PState := { L := [], heap := fun _ => [], done := [], res := [], reads := 0, boxes := [] }

abbrev Hp (S : Lib) (pts : Nat → PyTask) (th : PyTheme) (F : Nat) : PHandlers := progH (printPrim S pts th) printFuns F

def interp (S : Lib) (pts : Nat → PyTask) (th : PyTheme) (F k : Nat) (args : List Val) (st : PState) : Res (Val × PState) :=
  runProg (printPrim S pts th) printFuns F k args st

def noTheme : PyTheme := { header := none, levels := [] }

/-- `_Repr.__get_linked_task_id(t, l)` (`l = none`: None) -/
def interpLinkedId (S : Lib) (pts : Nat → PyTask) (F : Nat) (t : Nat) (l : Option Nat) : Res Val :=
  (interp S pts noTheme F fn_get_linked_task_id [.atom (.ref t), .atom (optRefA l)] st0).map (·.1)

/-- `_Repr.__get_linked_tasks_id(t, ls)` -/
def interpLinkedIds (S : Lib) (pts : Nat → PyTask) (F : Nat) (t : Nat) (ls : List Nat) : Res Val :=
  (interp S pts noTheme F fn_get_linked_tasks_id [.atom (.ref t), refsA ls] st0).map (·.1)

/-- `_Repr.__get_field_value(t, field)` -/
def interpFieldValue (S : Lib) (pts : Nat → PyTask) (F : Nat) (t : Nat) (field : Str) : Res Val :=
  (interp S pts noTheme F fn_get_field_value [.atom (.ref t), .atom (S.s field)] st0).map (·.1)

/-- `_Repr.__calc_max_title_len(t, level, cur)` -/
def interpTitleLen (S : Lib) (pts : Nat → PyTask) (F : Nat) (t level cur : Nat) : Res Val :=
  (interp S pts noTheme F fn_calc_max_title_len
    [.atom (.ref t), .atom (.num ((level : Nat) : Rat)), .atom (.num ((cur : Nat) : Rat))] st0).map (·.1)

/-- `_Repr.__max_field_len(tasks, field)` -/
def interpMaxFieldLen (S : Lib) (pts : Nat → PyTask) (F : Nat) (tasks : List Nat) (field : Str) : Res Val :=
  (interp S pts noTheme F fn_max_field_len [refsA tasks, .atom (S.s field)] st0).map (·.1)

/-- the state in which the table `box 0` has received the calls `log` -/
def stLog (log : List Atom) : PState := { st0 with boxes := [log] }

/-- `_Repr.__print_task_subtree(t, fields, level, table, children, theme)`: the log of the table afterwards -/
def interpSubtree (S : Lib) (pts : Nat → PyTask) (th : PyTheme) (F : Nat) (t : Nat) (fields : List Str) (level : Nat)
    (children : Bool) (log : List Atom) : Res (List Atom) :=
  (interp S pts th F fn_print_task_subtree
    [.atom (.ref t), .list (fields.map S.s), .atom (.num ((level : Nat) : Rat)), .atom (.box 0), .atom (.bool children),
     .atom (.ref 0)] (stLog log)).map (fun r => r.2.boxes.getD 0 [])

/-- `_Repr.repr(tasks, fields, children, theme)`: the value (the text) and the log of the table -/
def interpRepr (S : Lib) (pts : Nat → PyTask) (th : PyTheme) (F : Nat) (tasks : List Nat) (fields : List Str)
    (children : Bool) : Res (Val × List Atom) :=
  (interp S pts th F fn_repr [refsA tasks, .list (fields.map S.s), .atom (.bool children), .atom (.ref 0)] st0).map
    (fun r => (r.1, r.2.boxes.getD 0 []))

/-! ### the layout numbers (the model file has no counterpart: these are the specifications of stage 2) -/

/-- `__calc_max_title_len(t, level, cur)`: the longest indented title in the subtree of `t`, at least `cur` -/
def titleLen (ts : Nat → PTask) : Nat → Nat → Nat → Nat → Nat
  | 0, _, _, cur => cur
  | fuel + 1, level, t, cur =>
    (ts t).children.foldl (fun m ch => titleLen ts fuel (level + 1) ch m)
      (max cur (3 * level + ((ts t).name.map List.length).getD 0))

/-- `__max_field_len(tasks, field)`: the longest cell text of the column `field` over the subtrees, at least the
    header and one blank -/
def maxFieldLen (ts : Nat → PTask) (field : Str) : Nat → List Nat → Nat
  | 0, _ => field.length + 1
  | fuel + 1, tasks =>
    tasks.foldl (fun m t => max (max m (fieldValue ts t field).length) (maxFieldLen ts field fuel (ts t).children))
      (field.length + 1)

/-! ### a concrete string library (used by the Check files) -/

def B : Nat := 1114113

/-- the key of a text: its characters as the digits 1 … 1114112 of a number in base `B` -/
def enc : Str → Nat
  | [] => 0
  | c :: cs => c.toNat + 1 + B * enc cs

/-- (the patterns `m + 1` make the kernel evaluate the key once, to a literal) -/
def decF : Nat → Nat → Str
  | 0, _ => []
  | _, 0 => []
  | f + 1, m + 1 => Char.ofNat (m % B) :: decF f ((m + 1) / B)

def dec : Nat → Str
  | 0 => []
  | m + 1 => decF (m + 1) (m + 1)

/-- `str` of an int / a fraction (the Check files' stand-in for Python's `str` on numbers), '?' otherwise -/
def cStr : Atom → Str
  | .num q => (if q.num < 0 then ['-'] else []) ++ Nat.toDigits 10 q.num.natAbs ++
      (if q.den = 1 then [] else '/' :: Nat.toDigits 10 q.den)
  | .bool b => if b then "True".toList else "False".toList
  | _ => ['?']

/-- a stand-in for `strftime`: '@' and the day number -/
def cFmt (t : Time) : Str := '@' :: Nat.toDigits 10 t.floor.natAbs

def cLib : Lib := { I := enc, D := dec, strOf := cStr, fmt := cFmt, emptyId := .num 9223372036854775807 }

end Pj.PrintSrc
