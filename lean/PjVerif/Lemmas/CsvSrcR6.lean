/-
  Lemmas/CsvSrcR6.lean — CSV I/O, towards the READ side: `TaskRaw(...)` for one data row of `read_csv`, the row loop.
-/
import PjVerif.Lemmas.CsvSrcR5
namespace Pj.CsvSrc
open Pj.PyLite Pj.Extracted.Csv Pj.Csv

def cellCallE (k : Nat) (lit : String) : Expr := .callFn k (.listCons (rowCellE lit) .listNil)

def rowConsE : Expr :=
  .construct fn_TaskRaw_init (.listCons (.prim "int" (.listCons (rowCellE "lit:id") .listNil)) (.listCons (cellCallE fn_parse_str "lit:name") (.listCons (cellCallE fn_parse_str "lit:resource") (.listCons (cellCallE fn_parse_date "lit:start") (.listCons (cellCallE fn_parse_date "lit:end") (.listCons (cellCallE fn_parse_bool "lit:milestone") (.listCons (cellCallE fn_parse_float "lit:estimate") (.listCons (cellCallE fn_parse_float "lit:spent") (.listCons (cellCallE fn_parse_int "lit:parent_id") (.listCons (cellCallE fn_parse_predecessors "lit:predecessor_ids") (.listCons (.var "kwargs") .listNil)))))))))))

def rowBody : List Stmt :=
  [.assign "kwargs" .dictNil,
   .forIn "k" (.var "header") kwReadBody,
   .assign "raws" (.bin .add (.var "raws") (.listCons rowConsE .listNil))]

theorem src_read_csv_shape : src_read_csv =
    [.assign "raws" .listNil,
     .assign "input_file" (.prim "open" (.listCons (.var "path") .listNil)),
     .assign "csvfile" (.callFn 103 (.listCons (.var "input_file") (.listCons (.var "delimiter") .listNil))),
     .assign "header" (.callFn fn_parse_header (.listCons (.nextComp (.var "_r") "_r" (.var "csvfile") (.bool true)) .listNil)),
     .forIn "row" (.prim "rest" (.var "csvfile")) rowBody,
     .ret (.callFn fn_raws_to_wbs (.listCons (.var "raws") .listNil))] := rfl

/-- the parsed standard cells of a data row: the arguments of `TaskRaw(...)` -/
def RowOK (L : IOLib) (hdr row : List Str) (a : List Val) : Prop :=
  ∃ (c0 c1 c2 c3 c4 c5 c6 c7 c8 c9 : Str) (q0 : Rat) (v3 v4 v6 v7 v8 v9 : Val),
    cellAt hdr row "id".toList = some c0 ∧ cellAt hdr row "name".toList = some c1 ∧
    cellAt hdr row "resource".toList = some c2 ∧ cellAt hdr row "start".toList = some c3 ∧
    cellAt hdr row "end".toList = some c4 ∧ cellAt hdr row "milestone".toList = some c5 ∧
    cellAt hdr row "estimate".toList = some c6 ∧ cellAt hdr row "spent".toList = some c7 ∧
    cellAt hdr row "parent_id".toList = some c8 ∧ cellAt hdr row "predecessor_ids".toList = some c9 ∧
    L.toInt c0 = .ok q0 ∧ cellParse L.strptime Atom.time c3 = .ok v3 ∧ cellParse L.strptime Atom.time c4 = .ok v4 ∧
    cellParse L.toFloat Atom.num c6 = .ok v6 ∧ cellParse L.toFloat Atom.num c7 = .ok v7 ∧
    cellParse L.toInt Atom.num c8 = .ok v8 ∧
    (if c9 = [] then .ok (.list []) else ((splitOn ';' c9).mapM L.toInt).map (fun qs => Val.list (qs.map Atom.num))) = .ok v9 ∧
    a = [.atom (.num q0), .atom (optStr (nonEmpty c1)), .atom (optStr (nonEmpty c2)), v3, v4,
         .atom (.bool (c5 == "True".toList)), v6, v7, v8, v9]

theorem eval_rowCons (L : IOLib) (F : Nat) {hdr row : List Str} {rb : Nat} {env : PyLite.Env} {st : PState}
    (hc : RowCtx hdr row rb env st) (a : List Val) (ha : RowOK L hdr row a) (kvs : List (Atom × Atom))
    (hkw : env.get? "kwargs" = some (.dict kvs)) (hD : DictOK kvs) :
    rowConsE.evalP (HH L (F + 2)) [] env st =
      .ok (.atom (.ref st.reads), allocSt st (kvs.foldl setKw (rawBase a))) := by
  obtain ⟨c0, c1, c2, c3, c4, c5, c6, c7, c8, c9, q0, v3, v4, v6, v7, v8, v9, h0, h1, h2, h3, h4, h5, h6, h7, h8, h9,
    hq0, hv3, hv4, hv6, hv7, hv8, hv9, rfl⟩ := ha
  obtain ⟨cols, hk1, hk2⟩ := hD
  have e0 : (Expr.prim "int" (.listCons (rowCellE "lit:id") .listNil)).evalP (HH L (F + 2)) [] env st =
      .ok (.atom (.num q0), st) :=
    eval_prim (eval_cons (eval_rowCell L (F + 2) hc "lit:id" _ c0 (prim_lit_id L) h0) eval_nil)
      (by rw [HH_prim, prim_int, hq0]; rfl)
  have e1 : (cellCallE fn_parse_str "lit:name").evalP (HH L (F + 2)) [] env st = .ok (.atom (optStr (nonEmpty c1)), st) :=
    (eval_cellCall L (F + 1) fn_parse_str hc "lit:name" _ c1 (prim_lit_name L) h1).trans (parse_str_run L (F + 1) c1 st)
  have e2 : (cellCallE fn_parse_str "lit:resource").evalP (HH L (F + 2)) [] env st =
      .ok (.atom (optStr (nonEmpty c2)), st) :=
    (eval_cellCall L (F + 1) fn_parse_str hc "lit:resource" _ c2 (prim_lit_resource L) h2).trans
      (parse_str_run L (F + 1) c2 st)
  have e3 : (cellCallE fn_parse_date "lit:start").evalP (HH L (F + 2)) [] env st = .ok (v3, st) :=
    (eval_cellCall L (F + 1) fn_parse_date hc "lit:start" _ c3 (prim_lit_start L) h3).trans
      (by rw [parse_date_run, hv3]; rfl)
  have e4 : (cellCallE fn_parse_date "lit:end").evalP (HH L (F + 2)) [] env st = .ok (v4, st) :=
    (eval_cellCall L (F + 1) fn_parse_date hc "lit:end" _ c4 (prim_lit_end L) h4).trans
      (by rw [parse_date_run, hv4]; rfl)
  have e5 : (cellCallE fn_parse_bool "lit:milestone").evalP (HH L (F + 2)) [] env st =
      .ok (.atom (.bool (c5 == "True".toList)), st) :=
    (eval_cellCall L (F + 1) fn_parse_bool hc "lit:milestone" _ c5 (prim_lit_milestone L) h5).trans
      (parse_bool_run L (F + 1) c5 st)
  have e6 : (cellCallE fn_parse_float "lit:estimate").evalP (HH L (F + 2)) [] env st = .ok (v6, st) :=
    (eval_cellCall L (F + 1) fn_parse_float hc "lit:estimate" _ c6 (prim_lit_estimate L) h6).trans
      (by rw [parse_float_run, hv6]; rfl)
  have e7 : (cellCallE fn_parse_float "lit:spent").evalP (HH L (F + 2)) [] env st = .ok (v7, st) :=
    (eval_cellCall L (F + 1) fn_parse_float hc "lit:spent" _ c7 (prim_lit_spent L) h7).trans
      (by rw [parse_float_run, hv7]; rfl)
  have e8 : (cellCallE fn_parse_int "lit:parent_id").evalP (HH L (F + 2)) [] env st = .ok (v8, st) :=
    (eval_cellCall L (F + 1) fn_parse_int hc "lit:parent_id" _ c8 (prim_lit_parent_id L) h8).trans
      (by rw [parse_int_run, hv8]; rfl)
  have e9 : (cellCallE fn_parse_predecessors "lit:predecessor_ids").evalP (HH L (F + 2)) [] env st = .ok (v9, st) :=
    (eval_cellCall L (F + 1) fn_parse_predecessors hc "lit:predecessor_ids" _ c9 (prim_lit_predecessor_ids L) h9).trans
      (by rw [parse_predecessors_run, hv9]; rfl)
  refine eval_construct (st1 := st) (r := .atom .none)
    (evalArgs_cons e0 (evalArgs_cons e1 (evalArgs_cons e2 (evalArgs_cons e3 (evalArgs_cons e4 (evalArgs_cons e5
      (evalArgs_cons e6 (evalArgs_cons e7 (evalArgs_cons e8 (evalArgs_cons e9
      (evalArgs_cons (eval_var hkw) evalArgs_nil))))))))))) ?_
  rw [HH_fnV L (F + 1) fn_TaskRaw_init _ _ _ _ rfl,
    taskRaw_init_kw L F st.reads _ _ _ _ _ _ _ _ _ _ kvs _ (by simp) (dictOK_get kvs cols hk1 hk2)]
  congr 3
  funext j
  by_cases hj : j = st.reads <;> simp [hj]

end Pj.CsvSrc
