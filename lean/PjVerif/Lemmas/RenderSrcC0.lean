/-
  Lemmas/RenderSrcC0.lean — pure lemmas for the dict-of-boxes idiom (`d.setdefault(k, []).append(x)` / `for k, v in
  d.items()`): first occurrences (`eraseDupsBy` as a left fold), the groups built by the loop (`groupsOf` = `grpSpec`:
  keys in the order of their first occurrence, each group holds its members in order), the dict of box references
  (`dictOf`) and the store.  Used by Lemmas/RenderSrcC.lean.
-/
import PjVerif.Lemmas.RenderSrcB
namespace Pj.RenderSrc
open Pj.PyLite
set_option linter.unusedSimpArgs false
set_option linter.unusedVariables false

/-! ### first occurrences as a left fold -/

section ded
variable {α β : Type}

def ded (r : α → α → Bool) (l : List α) : List α := l.foldl (fun acc a => if acc.any (r a) then acc else acc ++ [a]) []

theorem loop_eq (r : α → α → Bool) : ∀ as bs : List α,
    List.eraseDupsBy.loop r as bs = as.foldl (fun acc a => if acc.any (r a) then acc else acc ++ [a]) bs.reverse := by
  intro as
  induction as with
  | nil => intro bs; simp [List.eraseDupsBy.loop]
  | cons a as ih =>
    intro bs
    unfold List.eraseDupsBy.loop
    cases h : bs.any (r a) <;>
      simp only [h, ih, List.foldl_cons, List.reverse_cons, List.any_reverse, if_true, Bool.false_eq_true, if_false]

theorem eraseDupsBy_eq_ded (r : α → α → Bool) (l : List α) : l.eraseDupsBy r = ded r l := by
  simp [List.eraseDupsBy, loop_eq, ded]

theorem ded_snoc (r : α → α → Bool) (l : List α) (a : α) :
    ded r (l ++ [a]) = if (ded r l).any (r a) then ded r l else ded r l ++ [a] := by
  simp [ded, List.foldl_append]

theorem snoc_ind {P : List α → Prop} (h0 : P []) (h1 : ∀ l a, P l → P (l ++ [a])) : ∀ l, P l := by
  have : ∀ l : List α, P l.reverse := by
    intro l
    induction l with
    | nil => exact h0
    | cons a l ih => rw [List.reverse_cons]; exact h1 _ _ ih
  intro l
  have := this l.reverse
  rwa [List.reverse_reverse] at this

theorem ded_sub (r : α → α → Bool) : ∀ l : List α, ∀ x ∈ ded r l, x ∈ l := by
  intro l
  induction l using snoc_ind with
  | h0 => intro x h; simp [ded] at h
  | h1 l a ih =>
    intro x h
    rw [ded_snoc] at h
    split at h
    · exact List.mem_append_left _ (ih x h)
    · rcases List.mem_append.1 h with h | h
      · exact List.mem_append_left _ (ih x h)
      · exact List.mem_append_right _ h

theorem ded_pairwise (r : α → α → Bool) : ∀ l : List α, (ded r l).Pairwise (fun x y => r y x = false) := by
  intro l
  induction l using snoc_ind with
  | h0 => simp [ded]
  | h1 l a ih =>
    rw [ded_snoc]
    split
    · exact ih
    · rename_i h
      rw [List.pairwise_append]
      refine ⟨ih, by simp, ?_⟩
      intro x hx y hy
      simp only [List.mem_singleton] at hy
      subst hy
      simp only [Bool.not_eq_true, List.any_eq_false] at h
      simpa using h x hx

/-- first occurrences commute with a map that reflects the relation on the items of the list -/
theorem ded_map (r : α → α → Bool) (r' : β → β → Bool) (f : α → β) : ∀ l : List α,
    (∀ a ∈ l, ∀ b ∈ l, r a b = r' (f a) (f b)) → (ded r l).map f = ded r' (l.map f) := by
  intro l
  induction l using snoc_ind with
  | h0 => intro _; rfl
  | h1 l a ih =>
    intro h
    have ih' := ih (fun x hx y hy => h x (List.mem_append_left _ hx) y (List.mem_append_left _ hy))
    rw [List.map_append, List.map_singleton, ded_snoc, ded_snoc, ← ih']
    have e : (ded r l).any (r a) = ((ded r l).map f).any (r' (f a)) := by
      rw [List.any_map, Bool.eq_iff_iff]
      simp only [List.any_eq_true, Function.comp]
      constructor
      · rintro ⟨x, hx, hr⟩
        exact ⟨x, hx, by rw [← h a (by simp) x (List.mem_append_left _ (ded_sub r l x hx))]; exact hr⟩
      · rintro ⟨x, hx, hr⟩
        exact ⟨x, hx, by rw [h a (by simp) x (List.mem_append_left _ (ded_sub r l x hx))]; exact hr⟩
    rw [← e]
    split <;> simp

/-- every item has a representative among the first occurrences -/
theorem ded_rep (r : α → α → Bool) (hr : ∀ a, r a a = true) : ∀ l : List α, ∀ x ∈ l, ∃ y ∈ ded r l, r x y = true := by
  intro l
  induction l using snoc_ind with
  | h0 => intro x h; simp at h
  | h1 l a ih =>
    intro x hx
    rw [ded_snoc]
    rcases List.mem_append.1 hx with h | h
    · obtain ⟨y, hy, hxy⟩ := ih x h
      split
      · exact ⟨y, hy, hxy⟩
      · exact ⟨y, List.mem_append_left _ hy, hxy⟩
    · simp only [List.mem_singleton] at h
      subst h
      split
      · rename_i h'
        simpa [List.any_eq_true] using h'
      · exact ⟨x, by simp, hr x⟩

end ded

/-! ### `==` on scalars -/

theorem pyEq_refl (a : Atom) : a.pyEq a = true := by simp [Atom.pyEq]
theorem pyEq_symm (a b : Atom) : a.pyEq b = b.pyEq a := by
  simp only [Atom.pyEq]; exact decide_eq_decide.2 ⟨Eq.symm, Eq.symm⟩
theorem pyEq_trans {a b c : Atom} (h1 : a.pyEq b = true) (h2 : b.pyEq c = true) : a.pyEq c = true := by
  simp only [Atom.pyEq, decide_eq_true_eq] at *; exact h1.trans h2

theorem pyDedup_eq (l : List Atom) : pyDedup l = ded (fun a b => a.pyEq b) l := eraseDupsBy_eq_ded _ l

/-! ### the groups built by the loop -/

abbrev Grp := List (Atom × List Atom)

def hasKey (G : Grp) (k : Atom) : Bool := G.any (fun p => p.1.pyEq k)
def addAll (G : Grp) (k x : Atom) : Grp := G.map (fun p => if p.1.pyEq k then (p.1, p.2 ++ [x]) else p)
/-- one round of `if k not in d: d[k] = []` / `d[k].append(x)` -/
def gstep (G : Grp) (k x : Atom) : Grp := addAll (if hasKey G k then G else G ++ [(k, [])]) k x
def groupsOf (key : Nat → Atom) (ts : List Nat) : Grp := ts.foldl (fun G t => gstep G (key t) (.ref t)) []
/-- keys in the order of their first occurrence; each group holds its members in order -/
def grpSpec (key : Nat → Atom) (ts : List Nat) : Grp :=
  (pyDedup (ts.map key)).map (fun k => (k, (ts.filter (fun t => k.pyEq (key t))).map Atom.ref))

def KP (G : Grp) : Prop := (G.map (·.1)).Pairwise (fun x y => y.pyEq x = false)

theorem addAll_keys (G : Grp) (k x : Atom) : (addAll G k x).map (·.1) = G.map (·.1) := by
  simp only [addAll, List.map_map]
  apply List.map_congr_left
  intro p _
  simp only [Function.comp]
  split <;> rfl

theorem addAll_none (G : Grp) (k x : Atom) (h : hasKey G k = false) : addAll G k x = G := by
  simp only [hasKey, List.any_eq_false] at h
  simp only [addAll]
  conv => rhs; rw [← List.map_id G]
  apply List.map_congr_left
  intro p hp
  simp [h p hp]

theorem gstep_KP (G : Grp) (k x : Atom) (h : KP G) : KP (gstep G k x) := by
  simp only [KP, gstep, addAll_keys]
  cases hk : hasKey G k
  · simp only [Bool.false_eq_true, if_false, List.map_append, List.map_cons, List.map_nil]
    rw [List.pairwise_append]
    refine ⟨h, by simp, ?_⟩
    intro a ha b hb
    simp only [List.mem_singleton] at hb
    subst hb
    simp only [hasKey, List.any_eq_false] at hk
    obtain ⟨p, hp, rfl⟩ := List.mem_map.1 ha
    rw [pyEq_symm]
    simpa using hk p hp
  · simp only [if_true]; exact h

theorem groupsOf_snoc (key : Nat → Atom) (ts : List Nat) (t : Nat) :
    groupsOf key (ts ++ [t]) = gstep (groupsOf key ts) (key t) (.ref t) := by
  simp [groupsOf, List.foldl_append]

theorem groupsOf_eq (key : Nat → Atom) : ∀ ts, groupsOf key ts = grpSpec key ts := by
  intro ts
  induction ts using snoc_ind with
  | h0 => rfl
  | h1 ts t ih =>
    rw [groupsOf_snoc, ih]
    simp only [grpSpec, gstep, pyDedup_eq, List.map_append, List.map_singleton, ded_snoc]
    have e : hasKey (List.map (fun k => (k, List.map Atom.ref (List.filter (fun t => k.pyEq (key t)) ts)))
        (ded (fun a b => a.pyEq b) (List.map key ts))) (key t) =
        (ded (fun a b => a.pyEq b) (List.map key ts)).any (fun b => (key t).pyEq b) := by
      simp only [hasKey, List.any_map, Function.comp]
      congr 1; funext b; exact pyEq_symm _ _
    rw [e]
    cases hk : (ded (fun a b => a.pyEq b) (List.map key ts)).any (fun b => (key t).pyEq b)
    · simp only [Bool.false_eq_true, if_false, addAll, List.map_append, List.map_map, List.map_cons, List.map_nil,
        pyEq_refl, if_true, List.nil_append, List.filter_append, List.filter_cons, List.filter_nil]
      congr 1
      · apply List.map_congr_left
        intro k hk'
        simp only [Function.comp]
        split <;> simp
      · simp only [pyEq_refl, List.cons.injEq, Prod.mk.injEq, true_and, and_true]
        have : List.filter (fun t_1 => (key t).pyEq (key t_1)) ts = [] := by
          rw [List.filter_eq_nil_iff]
          intro a ha h
          obtain ⟨y, hy, hay⟩ := ded_rep (fun a b : Atom => a.pyEq b) pyEq_refl (ts.map key) (key a)
            (List.mem_map.2 ⟨a, ha, rfl⟩)
          simp only [List.any_eq_false] at hk
          exact hk y hy (pyEq_trans h hay)
        simp [this]
    · simp only [if_true, addAll, List.map_map, List.filter_append, List.filter_cons, List.filter_nil, List.map_append]
      apply List.map_congr_left
      intro k hk'
      simp only [Function.comp]
      split <;> simp

theorem keys_map (l : List Atom) (f : Atom → List Atom) : (l.map (fun k => (k, f k))).map (·.1) = l := by
  induction l <;> simp [*]

theorem grpSpec_KP (key : Nat → Atom) (ts : List Nat) : KP (grpSpec key ts) := by
  simp only [KP, grpSpec, pyDedup_eq, keys_map]
  exact ded_pairwise (fun a b : Atom => a.pyEq b) (ts.map key)

/-! ### the dict of box references and the store -/

def dictOf : Nat → Grp → List (Atom × Atom)
  | _, [] => []
  | n, p :: G => (p.1, .box n) :: dictOf (n + 1) G

theorem dictOf_addAll (G : Grp) (k x : Atom) : ∀ n, dictOf n (addAll G k x) = dictOf n G := by
  induction G with
  | nil => intro n; rfl
  | cons p G ih =>
    intro n
    have := ih (n + 1)
    simp only [addAll] at this
    simp only [addAll, List.map_cons, dictOf, this]
    split <;> rfl

theorem dictOf_keys (G : Grp) : ∀ n, (dictOf n G).map (·.1) = G.map (·.1) := by
  induction G with
  | nil => intro n; rfl
  | cons p G ih => intro n; simp [dictOf, ih]

theorem dict_has (G : Grp) (k : Atom) : ∀ n, (Dict.get? (dictOf n G) k).isSome = hasKey G k := by
  induction G with
  | nil => intro n; rfl
  | cons p G ih =>
    intro n
    have := ih (n + 1)
    simp only [Dict.get?, hasKey] at this
    simp only [Dict.get?, dictOf, hasKey, List.find?_cons, List.any_cons]
    cases h : p.1.pyEq k
    · simpa using this
    · simp

theorem dict_insert_new (G : Grp) (k : Atom) : ∀ n, hasKey G k = false →
    Dict.insert (dictOf n G) k (.box (n + G.length)) = dictOf n (G ++ [(k, [])]) := by
  induction G with
  | nil => intro n _; simp [Dict.insert, dictOf]
  | cons p G ih =>
    intro n h
    simp only [hasKey, List.any_cons, Bool.or_eq_false_iff] at h
    have := ih (n + 1) h.2
    simp only [dictOf, Dict.insert, h.1, Bool.false_eq_true, if_false, List.cons_append, List.length_cons]
    rw [← this]
    congr 3
    omega

/-- the entry of a group: its key is bound to a box of the store that holds the group; appending to that box appends to
    the group (and to no other: the keys are pairwise different) -/
theorem dict_lookup (k x : Atom) : ∀ (G : Grp) (b0 : List (List Atom)) (p : Atom × List Atom), KP G → p ∈ G →
    p.1.pyEq k = true →
    ∃ i, Dict.get? (dictOf b0.length G) k = some (.box i) ∧ (b0 ++ G.map (·.2))[i]? = some p.2 ∧
      (b0 ++ G.map (·.2)).set i (p.2 ++ [x]) = b0 ++ (addAll G k x).map (·.2) := by
  intro G
  induction G with
  | nil => intro b0 p _ hp; simp at hp
  | cons q G ih =>
    intro b0 p hkp hp hpk
    simp only [KP, List.map_cons, List.pairwise_cons] at hkp
    cases hq : q.1.pyEq k
    · have hne : p ≠ q := fun e => by rw [e, hq] at hpk; simp at hpk
      have hpG : p ∈ G := by
        rcases List.mem_cons.1 hp with h | h
        · exact absurd h hne
        · exact h
      obtain ⟨i, h1, h2, h3⟩ := ih (b0 ++ [q.2]) p hkp.2 hpG hpk
      refine ⟨i, ?_, ?_, ?_⟩
      · simp only [List.length_append, List.length_cons, List.length_nil] at h1
        simpa [Dict.get?, dictOf, List.find?_cons, hq] using h1
      · simpa [List.append_assoc] using h2
      · simp only [addAll, List.map_cons, hq, Bool.false_eq_true, if_false]
        simpa [List.append_assoc, addAll] using h3
    · have hpq : p = q := by
        rcases List.mem_cons.1 hp with h | h
        · exact h
        · have h1 := hkp.1 p.1 (List.mem_map.2 ⟨p, h, rfl⟩)
          have h2 : p.1.pyEq q.1 = true := pyEq_trans hpk (by rw [pyEq_symm]; exact hq)
          rw [h2] at h1; simp at h1
      subst hpq
      have hno : hasKey G k = false := by
        simp only [hasKey, List.any_eq_false]
        intro r hr
        have h1 := hkp.1 r.1 (List.mem_map.2 ⟨r, hr, rfl⟩)
        intro h2
        have : r.1.pyEq p.1 = true := pyEq_trans h2 (by rw [pyEq_symm]; exact hq)
        rw [this] at h1; simp at h1
      refine ⟨b0.length, ?_, ?_, ?_⟩
      · simp [Dict.get?, dictOf, List.find?_cons, hq]
      · simp
      · simp only [addAll, List.map_cons, hq, if_true]
        have := addAll_none G k x hno
        simp only [addAll] at this
        rw [this]
        simp

end Pj.RenderSrc
