/-
  Lemmas/CritPathSrcA1.lean — the simulation layer of the translated tie for alg/critical_path.py, part 1: the generic
  lemmas about the typed store (`getO` / `setO` / `encHeap` / `mkSt`), allocation, and the small functions
  (`_PNode()`, `_PLink()`, `__new_node`, `__connect`, `__add_work`).
-/
import PjVerif.Lemmas.CritPathSrcNet
import PjVerif.Lemmas.TaskSrcA
namespace Pj.CritPathSrc
open Pj.PyLite Pj.Extracted.CritPath
open Pj.TaskSrc (callPV_eq execBlockP_cons execBlockP_nil execP_forIn noRec Env.get?_set Env.get?_cons Env.get?_nil)
set_option linter.unusedSimpArgs false
set_option linter.unusedVariables false

/-! ### the program and its handlers -/

theorem fnV_succ (e : CPEnv) (tid : Uid → Int) (F k : Nat) (params : List String) (body : List Stmt)
    (h : cpFuns k = some (params, body)) (args : List Val) (st : PState) :
    (Hc e tid (F + 1)).fnV k args st = callPV (Hc e tid F) params body args st := by
  simp only [Hc, progH, h]

theorem Hc_prim (e : CPEnv) (tid : Uid → Int) (F : Nat) : (Hc e tid F).prim = cpPrim e tid := by cases F <;> rfl

theorem cf_PNode : cpFuns fn_PNode_init = some (src_PNode_init_params, src_PNode_init) := rfl
theorem cf_PLink : cpFuns fn_PLink_init = some (src_PLink_init_params, src_PLink_init) := rfl
theorem cf_init : cpFuns fn_CPC_init = some (src_CPC_init_params, src_CPC_init) := rfl
theorem cf_insert : cpFuns fn_CPC_insert_task = some (src_CPC_insert_task_params, src_CPC_insert_task) := rfl
theorem cf_new_node : cpFuns fn_CPC_new_node = some (src_CPC_new_node_params, src_CPC_new_node) := rfl
theorem cf_connect : cpFuns fn_CPC_connect = some (src_CPC_connect_params, src_CPC_connect) := rfl
theorem cf_add_work : cpFuns fn_CPC_add_work = some (src_CPC_add_work_params, src_CPC_add_work) := rfl
theorem cf_forward : cpFuns fn_CPC_forward = some (src_CPC_forward_params, src_CPC_forward) := rfl
theorem cf_backward : cpFuns fn_CPC_backward = some (src_CPC_backward_params, src_CPC_backward) := rfl
theorem cf_calc : cpFuns fn_CPC_calc = some (src_CPC_calc_params, src_CPC_calc) := rfl
theorem cf_cp : cpFuns fn_WBS_critical_path = some (src_WBS_critical_path_params, src_WBS_critical_path) := rfl

/-! ### the store -/

section store
variable (B : Nat)

theorem getO_lt {σ : Store} {a : Nat} {o : Obj} (h : getO B σ a = some o) : B ≤ a ∧ a - B < σ.length := by
  unfold getO at h
  by_cases hlt : a < B
  · simp [hlt] at h
  · simp only [hlt, if_false] at h
    have := (List.getElem?_eq_some_iff.1 h).1
    omega

theorem getO_idx {σ : Store} {a : Nat} {o : Obj} (h : getO B σ a = some o) : σ[a - B]? = some o := by
  unfold getO at h
  by_cases hlt : a < B
  · simp [hlt] at h
  · simpa only [hlt, if_false] using h

theorem encHeap_get {σ : Store} {a : Nat} {o : Obj} (h : getO B σ a = some o) : encHeap B σ a = encObj o := by
  simp only [encHeap, h]

theorem setO_length (σ : Store) (a : Nat) (o : Obj) : (setO B σ a o).length = σ.length := by
  simp [setO]

theorem getO_setO (σ : Store) (a j : Nat) (o o' : Obj) (h : getO B σ a = some o) :
    getO B (setO B σ a o') j = if j = a then some o' else getO B σ j := by
  have ⟨h1, h2⟩ := getO_lt B h
  unfold getO setO
  by_cases hj : j = a
  · subst hj
    have : ¬ j < B := by omega
    simp [this, h2]
  · by_cases hlt : j < B
    · simp [hlt, hj]
    · have : a - B ≠ j - B := by omega
      simp [hlt, hj, List.getElem?_set_ne this]

theorem getO_append (σ : Store) (o : Obj) (j : Nat) :
    getO B (σ ++ [o]) j = if j = B + σ.length then some o else getO B σ j := by
  unfold getO
  by_cases hlt : j < B
  · have : j ≠ B + σ.length := by omega
    simp [hlt, this]
  · by_cases hj : j = B + σ.length
    · subst hj; simp
    · simp only [hlt, hj, if_false]
      by_cases hl : j - B < σ.length
      · rw [List.getElem?_append_left hl]
      · have h1 : (σ ++ [o]).length ≤ j - B := by simp; omega
        rw [List.getElem?_eq_none h1, List.getElem?_eq_none (by omega)]

/-- writing an attribute of an object of the store -/
theorem heapSet_enc {σ : Store} {a : Nat} {o o' : Obj} {f : String} {v : Val} (h : getO B σ a = some o)
    (h' : (encObj o).set f v = encObj o') : heapSet (encHeap B σ) a f v = encHeap B (setO B σ a o') := by
  funext j
  simp only [heapSet, encHeap, getO_setO B σ a j o o' h]
  by_cases hj : j = a
  · subst hj; simp only [if_true, h, h']
  · simp only [hj, if_false]

/-- the new object behind the store -/
theorem alloc_enc (σ : Store) (o : Obj) (inst : ∀ j, Decidable (j = B + σ.length)) :
    (fun j => @ite _ (j = B + σ.length) (inst j) (encObj o) (encHeap B σ j)) = encHeap B (σ ++ [o]) := by
  funext j
  simp only [encHeap, getO_append]
  by_cases hj : j = B + σ.length <;> simp [hj]

theorem heapSet_new (h : Nat → PyLite.Env) (a : Nat) (E : PyLite.Env) (f : String) (v : Val)
    (inst : ∀ j, Decidable (j = a)) :
    heapSet (fun j => @ite _ (j = a) (inst j) E (h j)) a f v = fun j => @ite _ (j = a) (inst j) (E.set f v) (h j) := by
  funext j
  by_cases hj : j = a <;> simp [heapSet, hj]

theorem initSt_eq : initSt B = mkSt B [] := by
  simp only [initSt, mkSt, List.length_nil, Nat.add_zero]
  congr 1
  funext j
  simp [encHeap, getO]

theorem mkSt_eq (σ : Store) :
    mkSt B σ = { L := [], heap := encHeap B σ, done := [], res := [], reads := B + σ.length, boxes := [] } := rfl

@[simp] theorem mkSt_heap (σ : Store) : (mkSt B σ).heap = encHeap B σ := rfl
@[simp] theorem mkSt_reads (σ : Store) : (mkSt B σ).reads = B + σ.length := rfl
@[simp] theorem mkSt_L (σ : Store) : (mkSt B σ).L = [] := rfl
@[simp] theorem mkSt_done (σ : Store) : (mkSt B σ).done = [] := rfl
@[simp] theorem mkSt_res (σ : Store) : (mkSt B σ).res = [] := rfl
@[simp] theorem mkSt_boxes (σ : Store) : (mkSt B σ).boxes = [] := rfl

/-- the state after writing an attribute of an object of the store (`r`: the allocation pointer, in any form) -/
theorem mkSt_set {σ : Store} {a : Nat} {o o' : Obj} {f : String} {v : Val} (h : getO B σ a = some o)
    (h' : (encObj o).set f v = encObj o') (r : Nat) (hr : r = B + σ.length) :
    ({ L := [], heap := heapSet (encHeap B σ) a f v, done := [], res := [], reads := r, boxes := [] } : PState)
      = mkSt B (setO B σ a o') := by
  rw [mkSt_eq, heapSet_enc B h h', setO_length, hr]

end store

/-- symbolic execution of a translated body on a typed store -/
syntax "cpl" (" [" Lean.Parser.Tactic.simpLemma,* "]")? : tactic
macro_rules
  | `(tactic| cpl) => `(tactic| cpl [])
  | `(tactic| cpl [$ls,*]) => `(tactic|
      simp [callPV_eq, bindParamsV, execBlockP, Stmt.execP, Expr.evalP, Expr.evalArgsP, iterOf, truthP, arithP, arith, arithTime,
        PyLite.compare, cmpRat, Atom.asNum?, pure, Except.pure, bind, Except.bind,
        throw, throwThe, MonadExceptOf.throw, Env.get?_set, Env.get?_cons, Env.get?_nil,
        mkSt_heap, mkSt_reads, mkSt_L, mkSt_done, mkSt_res, mkSt_boxes, setO_length, encObj, refsN, $ls,*])

/-! ### numbers -/

theorem pyMax_num (a b : Rat) : pyMax (.atom (.num a)) (.atom (.num b)) = .ok (.atom (.num (pyMaxR a b))) := by
  by_cases h : a < b <;>
    simp [pyMax, PyLite.compare, cmpRat, pyMaxR, Atom.asNum?, h, bind, Except.bind, pure, Except.pure]

theorem pyMin_num (a b : Rat) : pyMin (.atom (.num a)) (.atom (.num b)) = .ok (.atom (.num (pyMinR a b))) := by
  by_cases h : b < a <;>
    simp [pyMin, PyLite.compare, cmpRat, pyMinR, Atom.asNum?, h, bind, Except.bind, pure, Except.pure]

/-! ### blocks and loops -/

theorem execBlockP_append (H : PHandlers) (self : PyLite.Env) (rec : List Atom → PState → Res (Val × PState))
    (ss1 ss2 : List Stmt) : ∀ (ρ : PyLite.Env) (st : PState),
    execBlockP H self rec (ss1 ++ ss2) ρ st =
      match execBlockP H self rec ss1 ρ st with
      | .normal ρ' st' => execBlockP H self rec ss2 ρ' st'
      | r => r := by
  induction ss1 with
  | nil => intro ρ st; simp [execBlockP_nil]
  | cons s ss ih =>
    intro ρ st
    rw [List.cons_append, execBlockP_cons, execBlockP_cons]
    cases hs : s.execP H self rec ρ st <;> simp [ih]

/-- a `for` loop over `l.map g` simulated by a fold in `Option` (the `some` case): `stOf a` is the state that belongs
    to the accumulator `a`, `P a ρ` what the local environment satisfies -/
theorem forLoopP_foldO {α β : Type} (x : String) (body : PyLite.Env → PState → OutcomeP)
    (stOf : α → PState) (P : α → PyLite.Env → Prop) (m : α → β → Option α) (g : β → Atom) :
    ∀ (l : List β),
      (∀ a b ρ a', b ∈ l → P a ρ → m a b = some a' →
        ∃ ρ', body (ρ.set x (.atom (g b))) (stOf a) = .normal ρ' (stOf a') ∧ P a' ρ') →
      ∀ a ρ a', P a ρ → l.foldlM m a = some a' →
        ∃ ρ', forLoopP x body (l.map g) ρ (stOf a) = .normal ρ' (stOf a') ∧ P a' ρ' := by
  intro l
  induction l with
  | nil =>
    intro _ a ρ a' hR h
    simp only [List.foldlM_nil, pure, Option.some.injEq] at h
    subst h
    exact ⟨ρ, rfl, hR⟩
  | cons b l ih =>
    intro hb a ρ a' hR h
    simp only [List.foldlM_cons, bind, Option.bind] at h
    cases hm : m a b with
    | none => simp [hm] at h
    | some a1 =>
      simp only [hm] at h
      obtain ⟨ρ1, hbody, hR1⟩ := hb a b ρ a1 List.mem_cons_self hR hm
      obtain ⟨ρ2, hl, hR2⟩ := ih (fun a b ρ a' hv => hb a b ρ a' (List.mem_cons_of_mem _ hv)) a1 ρ1 a' hR1 h
      refine ⟨ρ2, ?_, hR2⟩
      simp only [List.map_cons, forLoopP, hbody]
      exact hl

/-! ### `_PNode()`, `_PLink(units, start, end)` -/

theorem construct_PNode (e : CPEnv) (tid : Uid → Int) (F B : Nat) (self ρ : PyLite.Env) (σ : Store) :
    (Expr.construct fn_PNode_init .listNil).evalP (Hc e tid (F + 1)) self ρ (mkSt B σ)
      = .ok (.atom (.ref (B + σ.length)), mkSt B (σ ++ [.node [] [] none none])) := by
  simp only [mkSt_eq, Expr.evalP, Expr.evalArgsP, bind, Except.bind, pure, Except.pure]
  rw [fnV_succ _ _ _ _ _ _ cf_PNode]
  cpl [src_PNode_init_params, src_PNode_init, mkSt_eq]
  refine ⟨?_, by omega⟩
  simp only [heapSet_new]
  rw [← alloc_enc B σ _ (fun j => instDecidableEqNat j _)]
  simp [Env.set, encObj, refsN, optNum]

theorem construct_PLink (e : CPEnv) (tid : Uid → Int) (F B : Nat) (self ρ : PyLite.Env) (σ : Store) (eu es ee : Expr)
    (u : Rat) (s t : Nat)
    (hu : eu.evalP (Hc e tid (F + 1)) self ρ (mkSt B σ) = .ok (.atom (.num u), mkSt B σ))
    (hs : es.evalP (Hc e tid (F + 1)) self ρ (mkSt B σ) = .ok (.atom (.ref s), mkSt B σ))
    (ht : ee.evalP (Hc e tid (F + 1)) self ρ (mkSt B σ) = .ok (.atom (.ref t), mkSt B σ)) :
    (Expr.construct fn_PLink_init (.listCons eu (.listCons es (.listCons ee .listNil)))).evalP (Hc e tid (F + 1)) self ρ
        (mkSt B σ)
      = .ok (.atom (.ref (B + σ.length)), mkSt B (σ ++ [.link s t u])) := by
  simp only [mkSt_eq] at hu hs ht ⊢
  simp only [Expr.evalP, Expr.evalArgsP, bind, Except.bind, pure, Except.pure, hu, hs, ht]
  rw [fnV_succ _ _ _ _ _ _ cf_PLink]
  cpl [src_PLink_init_params, src_PLink_init, mkSt_eq]
  refine ⟨?_, by omega⟩
  simp only [heapSet_new]
  rw [← alloc_enc B σ _ (fun j => instDecidableEqNat j _)]
  simp [Env.set, encObj, refsN, optNum]

/-! ### `__new_node`, `__connect`, `__add_work` -/

theorem new_node_sim (e : CPEnv) (tid : Uid → Int) (B : Nat) (σ σ' : Store) (r : Nat)
    (h : newNodeA B σ = some (r, σ')) (F : Nat) :
    (Hc e tid (F + 2)).fnV fn_CPC_new_node [.atom (.ref B)] (mkSt B σ) = .ok (.atom (.ref r), mkSt B σ') := by
  unfold newNodeA at h
  simp only [newPNode] at h
  split at h
  next nodes links tasks ed mem hg =>
    cases h
    rw [fnV_succ _ _ _ _ _ _ cf_new_node]
    have hc := fun ρ => construct_PNode e tid F B [] ρ σ
    have hr := encHeap_get B hg
    have hw := mkSt_set B (f := "__nodes") (v := .list (nodes.map Atom.ref ++ [Atom.ref (B + σ.length)])) hg
      (o' := .calc (nodes ++ [B + σ.length]) links tasks ed mem) (by simp [encObj, Env.set, refsN])
    cpl [src_CPC_new_node_params, src_CPC_new_node, ↓hc, hr, hw]
  next => simp at h

theorem connect_sim (e : CPEnv) (tid : Uid → Int) (B : Nat) (σ σ' : Store) (s t : Nat) (u : Rat) (r : Nat)
    (h : connectA B σ s t u = some (r, σ')) (F : Nat) :
    (Hc e tid (F + 2)).fnV fn_CPC_connect [.atom (.ref s), .atom (.ref t), .atom (.num u)] (mkSt B σ)
      = .ok (.atom (.ref r), mkSt B σ') := by
  unfold connectA at h
  simp only [newPLink] at h
  split at h
  next fw bw su eu hg1 =>
    split at h
    next fw' bw' su' eu' hg2 =>
      cases h
      rw [fnV_succ _ _ _ _ _ _ cf_connect]
      have hc := fun ρ hu hs ht => construct_PLink e tid F B [] ρ σ (.var "units") (.var "start") (.var "end") u s t hu hs ht
      have hr1 := encHeap_get B hg1
      have hr2 := encHeap_get B hg2
      have hw1 := mkSt_set B (f := "forward_links") (v := .list (fw.map Atom.ref ++ [Atom.ref (B + σ.length)])) hg1
        (o' := .node (fw ++ [B + σ.length]) bw su eu) (by simp [encObj, Env.set, refsN])
      have hw2 := mkSt_set B (f := "backward_links") (v := .list (bw'.map Atom.ref ++ [Atom.ref (B + σ.length)])) hg2
        (o' := .node fw' (bw' ++ [B + σ.length]) su' eu') (by simp [encObj, Env.set, refsN])
      cpl [src_CPC_connect_params, src_CPC_connect, ↓hc, hr1, hr2, hw1, hw2]
    next => simp at h
  next => simp at h
def awPre : List Stmt := src_CPC_add_work.take 4
def awLoop : Stmt := src_CPC_add_work.getD 4 .pass
def awBody : List Stmt := match awLoop with | .forIn _ _ b => b | _ => []
theorem aw_shape : src_CPC_add_work = awPre ++ [awLoop] := rfl
theorem awLoop_eq : awLoop = .forIn "p" (.var "predecessors") awBody := rfl

theorem add_work_sim (e : CPEnv) (tid : Uid → Int) (B : Nat) (σ σ' : Store) (ida : Atom) (u : Rat) (preds : List Atom)
    (h : addWorkA B σ ida u preds = some σ') (F : Nat) :
    (Hc e tid (F + 3)).fnV fn_CPC_add_work [.atom (.ref B), .atom ida, .atom (.num u), .list preds] (mkSt B σ)
      = .ok (.atom .none, mkSt B σ') := by
  unfold addWorkA at h
  split at h
  next => simp at h
  next s σ1 h1 =>
    split at h
    next => simp at h
    next t σ2 h2 =>
      split at h
      next => simp at h
      next l σ3 h3 =>
        split at h
        next nodes links tasks ed mem hg =>
          rw [fnV_succ _ _ _ _ _ _ cf_add_work, callPV_eq, aw_shape]
          simp only [execBlockP_append]
          have hn1 := new_node_sim e tid B σ σ1 s h1 F
          have hn2 := new_node_sim e tid B σ1 σ2 t h2 F
          have hcn := connect_sim e tid B σ2 σ3 s t u l h3 F
          have hr := encHeap_get B hg
          have hw := mkSt_set B (f := "__links") (v := .dict (Dict.insert links ida (.ref l))) hg
            (o' := .calc nodes (Dict.insert links ida (.ref l)) tasks ed mem) (by simp [encObj, Env.set, refsN])
          obtain ⟨ρ4, hpre, hself, hstart, hpreds⟩ : ∃ ρ4, execBlockP (Hc e tid (F + 2)) [] noRec awPre
              [("self", .atom (.ref B)), ("id", .atom ida), ("units", .atom (.num u)), ("predecessors", .list preds)]
              (mkSt B σ) = .normal ρ4 (mkSt B (setO B σ3 B (.calc nodes (Dict.insert links ida (.ref l)) tasks ed mem))) ∧
              ρ4.get? "self" = some (.atom (.ref B)) ∧ ρ4.get? "start" = some (.atom (.ref s)) ∧
              ρ4.get? "predecessors" = some (.list preds) := by
            cpl [awPre, src_CPC_add_work, hn1, hn2, hcn, hr, hw]
          simp only [src_CPC_add_work_params, bindParamsV, bind, Except.bind, pure, Except.pure]
          rw [hpre]
          simp only [execBlockP_cons, execBlockP_nil, awLoop_eq]
          have hit : ∀ st, (Expr.var "predecessors").evalP (Hc e tid (F + 2)) [] ρ4 st = .ok (.list preds, st) := by
            intro st; cpl [hpreds]
          rw [execP_forIn (hit := hit _)]
          obtain ⟨ρ', hl, -⟩ := forLoopP_foldO "p"
            (fun ρ st => execBlockP (Hc e tid (F + 2)) [] noRec awBody ρ st) (mkSt B)
            (fun _ ρ => ρ.get? "self" = some (.atom (.ref B)) ∧ ρ.get? "start" = some (.atom (.ref s)))
            (addWorkStep B s) (fun a => a) preds
            (by
              rintro a p ρ a' - ⟨hs, hst⟩ hstep
              unfold addWorkStep at hstep
              split at hstep
              next lk _ _ _ hgc =>
                split at hstep
                next lp hd =>
                  split at hstep
                  next ep _ hgl =>
                    cases hc : connectA B a ep s 0 with
                    | none => simp [hc] at hstep
                    | some r =>
                      obtain ⟨r, a2⟩ := r
                      simp only [hc, Option.map_some, Option.some.injEq] at hstep
                      subst hstep
                      have hcn := connect_sim e tid B a a2 ep s 0 r hc F
                      have hr1 := encHeap_get B hgc
                      have hr2 := encHeap_get B hgl
                      cpl [awBody, awLoop, src_CPC_add_work, hs, hst, hr1, hr2, hd, hcn]
                  next => simp at hstep
                next => simp at hstep
              next => simp at hstep)
            _ ρ4 σ' ⟨hself, hstart⟩ h
          simp only [List.map_id'] at hl
          rw [hl]
        next => simp at h
end Pj.CritPathSrc
