/-
  Lemmas/GraphTasks.lean — helper lemmas about `WBS.tasks`, `wbs[id]` and membership for Props/C05.lean and
  Props/C11.lean.
-/
import PjVerif.Lemmas.GraphInvStep
namespace Pj

/-! ### the shape of a successful `descF` enumeration -/

/-- the enumeration below `c` with fuel `f`, `[]` when the fuel runs out -/
def dsc (next : Uid → List Uid) (f : Nat) (c : Uid) : List Uid := (descF next f c).getD []

theorem descF_mono_le (next : Uid → List Uid) (f f' : Nat) (hle : f ≤ f') (t : Uid) (l : List Uid)
    (h : descF next f t = some l) : descF next f' t = some l := by
  induction hle with
  | refl => exact h
  | step _ ih => exact descF_mono next _ t l ih

/-- two successful enumerations of the same node agree, whatever the fuels -/
theorem descF_unique (next : Uid → List Uid) (f f' : Nat) (t : Uid) (l l' : List Uid)
    (h : descF next f t = some l) (h' : descF next f' t = some l') : l = l' := by
  rcases Nat.le_total f f' with hle | hle
  · have := descF_mono_le next f f' hle t l h
    rw [h'] at this; exact (Option.some.inj this).symm
  · have := descF_mono_le next f' f hle t l' h'
    rw [h] at this; exact Option.some.inj this

theorem mapM_some_eq_map {β γ : Type} (g : β → Option γ) (g' : β → γ) (l : List β) (r : List γ)
    (h : l.mapM g = some r) (hg : ∀ a ∈ l, ∀ b, g a = some b → b = g' a) : r = l.map g' := by
  induction l generalizing r with
  | nil => simpa using h.symm
  | cons x xs ih =>
    obtain ⟨b, bs, hb, hbs, rfl⟩ := (mapM_some_cons g x xs r).mp h
    rw [List.map_cons, hg x List.mem_cons_self b hb,
      ih bs hbs (fun a ha => hg a (List.mem_cons_of_mem _ ha))]

/-- a successful enumeration is the concatenation of `c :: (enumeration below c)` over the `next`-list -/
theorem descF_succ_eq (next : Uid → List Uid) (f : Nat) (t : Uid) (l : List Uid)
    (h : descF next (f + 1) t = some l) :
    (∀ c ∈ next t, descF next f c = some (dsc next f c)) ∧
    l = ((next t).map (fun c => c :: dsc next f c)).flatten := by
  simp only [descF, Option.map_eq_some_iff] at h
  obtain ⟨ll, hll, rfl⟩ := h
  have h1 : ∀ c ∈ next t, descF next f c = some (dsc next f c) := by
    intro c hc
    obtain ⟨b, _, hg⟩ := mapM_some_mem _ _ _ hll c hc
    simp only [Option.map_eq_some_iff] at hg
    obtain ⟨r', hr', _⟩ := hg
    simp [dsc, hr']
  refine ⟨h1, ?_⟩
  congr 1
  refine mapM_some_eq_map _ _ _ _ hll ?_
  intro c hc b hb
  rw [h1 c hc] at hb
  simpa using hb.symm

/-- the same with one fuel everywhere -/
theorem descF_eq_flatten (next : Uid → List Uid) (f : Nat) (t : Uid) (l : List Uid)
    (h : descF next f t = some l) :
    (∀ c ∈ next t, descF next f c = some (dsc next f c)) ∧
    l = ((next t).map (fun c => c :: dsc next f c)).flatten := by
  cases f with
  | zero => simp [descF] at h
  | succ f =>
    obtain ⟨h1, h2⟩ := descF_succ_eq next f t l h
    have h3 : ∀ c ∈ next t, descF next (f + 1) c = some (dsc next f c) :=
      fun c hc => descF_mono next f c _ (h1 c hc)
    have h4 : ∀ c ∈ next t, dsc next (f + 1) c = dsc next f c := by
      intro c hc; simp [dsc, h3 c hc]
    refine ⟨fun c hc => by rw [h4 c hc]; exact h3 c hc, ?_⟩
    rw [h2]
    congr 1
    apply List.map_congr_left
    intro c hc
    rw [h4 c hc]

/-- every node reachable from a successfully enumerated node is successfully enumerated with the same fuel -/
theorem descF_total_below (next : Uid → List Uid) (f : Nat) (t : Uid) (l : List Uid)
    (h : descF next f t = some l) : ∀ x ∈ l, ∃ d, descF next f x = some d := by
  intro x hx
  have hr := descF_sound next f t l h x hx
  clear hx
  induction hr with
  | single hc => exact ⟨_, (descF_eq_flatten next f t l h).1 _ hc⟩
  | tail _ hc ih =>
    obtain ⟨d, hd⟩ := ih
    exact ⟨_, (descF_eq_flatten next f _ d hd).1 _ hc⟩

/-! ### depth-first order: every listed node is directly followed by its own enumeration -/

theorem flatten_map_split {γ : Type} (g : Uid → List γ) (cs1 cs2 : List Uid) (c : Uid) :
    ((cs1 ++ c :: cs2).map g).flatten = (cs1.map g).flatten ++ g c ++ (cs2.map g).flatten := by
  simp [List.append_assoc]

theorem descF_segment (next : Uid → List Uid) (f : Nat) (t0 : Uid) (l : List Uid)
    (h : descF next f t0 = some l) :
    ∀ t, t ∈ l → ∃ pre post d, descF next f t = some d ∧ l = pre ++ t :: d ++ post := by
  induction f generalizing t0 l with
  | zero => simp [descF] at h
  | succ f ih =>
    intro t ht
    obtain ⟨h1, h2⟩ := descF_succ_eq next f t0 l h
    rw [h2] at ht
    obtain ⟨b, hb, htb⟩ := List.mem_flatten.mp ht
    obtain ⟨c, hc, rfl⟩ := List.mem_map.mp hb
    obtain ⟨cs1, cs2, hsplit⟩ := List.append_of_mem hc
    have hl : l = ((cs1.map (fun c => c :: dsc next f c)).flatten) ++ (c :: dsc next f c) ++
        ((cs2.map (fun c => c :: dsc next f c)).flatten) := by
      rw [h2, hsplit, flatten_map_split]
    rcases List.mem_cons.mp htb with rfl | htd
    · exact ⟨_, _, dsc next f t, descF_mono next f t _ (h1 t hc), hl⟩
    · obtain ⟨pre, post, d, hd, hsplit'⟩ := ih c _ (h1 c hc) t htd
      refine ⟨(cs1.map (fun c => c :: dsc next f c)).flatten ++ c :: pre,
        post ++ (cs2.map (fun c => c :: dsc next f c)).flatten, d, descF_mono next f t d hd, ?_⟩
      rw [hl, hsplit']
      simp [List.append_assoc]

/-! ### no repetitions on a forest -/

theorem flatten_map_nodup (g : Uid → List Uid) (cs : List Uid) (hn : cs.Nodup)
    (h1 : ∀ c ∈ cs, (g c).Nodup)
    (h2 : ∀ c ∈ cs, ∀ c' ∈ cs, c ≠ c' → ∀ x, x ∈ g c → x ∈ g c' → False) :
    ((cs.map g).flatten).Nodup := by
  induction cs with
  | nil => simp
  | cons c cs ih =>
    rw [List.map_cons, List.flatten_cons, List.nodup_append]
    obtain ⟨hc, hn'⟩ := List.nodup_cons.mp hn
    refine ⟨h1 c List.mem_cons_self, ?_, ?_⟩
    · exact ih hn' (fun c' hc' => h1 c' (List.mem_cons_of_mem _ hc'))
        (fun a ha b hb => h2 a (List.mem_cons_of_mem _ ha) b (List.mem_cons_of_mem _ hb))
    · intro a ha b hb hab
      subst hab
      obtain ⟨lb, hlb, hbl⟩ := List.mem_flatten.mp hb
      obtain ⟨c', hc', rfl⟩ := List.mem_map.mp hlb
      refine h2 c List.mem_cons_self c' (List.mem_cons_of_mem _ hc') ?_ a ha hbl
      intro e; subst e; exact hc hc'

/-- membership in a children enumeration, in terms of the parent relation -/
theorem mem_descF_children (s : G) (hw : WF s) (f : Nat) (t : Uid) (l : List Uid)
    (h : descF s.children f t = some l) (x : Uid) : x ∈ l ↔ TC (par s) x t :=
  ⟨fun hx => (TC_child_iff s hw.listed t x).mp (descF_sound _ f t l h x hx),
   fun hx => descF_complete _ f t l h x ((TC_child_iff s hw.listed t x).mpr hx)⟩

/-- two different children of one node have disjoint subtrees -/
theorem siblings_disjoint (s : G) (hw : WF s) (t c c' x : Uid) (hc : s.parent c = some t)
    (hc' : s.parent c' = some t) (hne : c ≠ c') (hx : RTC (par s) x c) (hx' : RTC (par s) x c') : False := by
  have key : ∀ a b, s.parent a = some t → s.parent b = some t → a ≠ b → RTC (par s) a b → False := by
    intro a b ha hb hab hr
    rcases hr.cases_eq_or_TC with e | e
    · exact hab e
    · rcases par_TC_cases s ha e with rfl | e'
      · exact hw.forest b (TC.single hb)
      · exact hw.forest b (TC.head (r := par s) hb e')
  rcases par_chain s hx hx' with h | h
  · exact key c c' hc hc' hne h
  · exact key c' c hc' hc (Ne.symm hne) h

theorem descF_children_nodup (s : G) (hw : WF s) (f : Nat) (t : Uid) (l : List Uid)
    (h : descF s.children f t = some l) : l.Nodup := by
  induction f generalizing t l with
  | zero => simp [descF] at h
  | succ f ih =>
    obtain ⟨h1, h2⟩ := descF_succ_eq s.children f t l h
    rw [h2]
    have hmem : ∀ c ∈ s.children t, ∀ x, x ∈ c :: dsc s.children f c → RTC (par s) x c := by
      intro c hc x hx
      rcases List.mem_cons.mp hx with rfl | hx
      · exact RTC.refl
      · exact ((mem_descF_children s hw f c _ (h1 c hc) x).mp hx).toRTC
    refine flatten_map_nodup _ _ (hw.once t) ?_ ?_
    · intro c hc
      refine List.nodup_cons.mpr ⟨?_, ih c _ (h1 c hc)⟩
      intro hcc
      exact hw.forest c ((mem_descF_children s hw f c _ (h1 c hc) c).mp hcc)
    · intro c hc c' hc' hne x hx hx'
      exact siblings_disjoint s hw t c c' x ((hw.listed c t).mpr hc) ((hw.listed c' t).mpr hc') hne
        (hmem c hc x hx) (hmem c' hc' x hx')

/-! ### sibling order -/

theorem idxOf_mid (pre M post : List Uid) (x : Uid) (hn : (pre ++ M ++ post).Nodup) (hx : x ∈ M) :
    (pre ++ M ++ post).idxOf x = M.idxOf x + pre.length := by
  have hn' := (List.nodup_append.mp hn).1
  have hxp : x ∉ pre := fun hp => (List.nodup_append.mp hn').2.2 x hp x hx rfl
  rw [List.idxOf_append, if_pos (List.mem_append_right _ hx), List.idxOf_append, if_neg hxp]

/-- inside one enumeration, children of the enumerated node appear in list order -/
theorem descF_sibling_order (s : G) (hw : WF s) (f : Nat) (p : Uid) (D : List Uid)
    (h : descF s.children f p = some D) (a b : Uid) (hab : a ≠ b)
    (hidx : (s.children p).idxOf a < (s.children p).idxOf b) (hb : b ∈ s.children p) :
    D.idxOf a < D.idxOf b := by
  have hD := descF_children_nodup s hw f p D h
  obtain ⟨_, h2⟩ := descF_eq_flatten s.children f p D h
  have ha : a ∈ s.children p :=
    List.idxOf_lt_length_iff.mp (Nat.lt_of_lt_of_le hidx List.idxOf_le_length)
  obtain ⟨cs1, cs2, hsplit⟩ := List.append_of_mem ha
  have hnd := hw.once p
  rw [hsplit] at hnd hidx hb
  have ha1 : a ∉ cs1 := fun h1 => (List.nodup_append.mp hnd).2.2 a h1 a List.mem_cons_self rfl
  have hb2 : b ∈ cs2 := by
    rcases List.mem_append.mp hb with hb1 | hb1
    · exfalso
      rw [List.idxOf_append, if_neg ha1, List.idxOf_append, if_pos hb1] at hidx
      have := List.idxOf_lt_length_iff.mpr hb1
      omega
    · rcases List.mem_cons.mp hb1 with e | e
      · exact absurd e.symm hab
      · exact e
  let g : Uid → List Uid := fun c => c :: dsc s.children f c
  have hl : D = (cs1.map g).flatten ++ g a ++ (cs2.map g).flatten := by
    rw [h2, hsplit, flatten_map_split]
  have hbB : b ∈ (cs2.map g).flatten :=
    List.mem_flatten.mpr ⟨g b, List.mem_map.mpr ⟨b, hb2, rfl⟩, List.mem_cons_self⟩
  rw [hl] at hD ⊢
  have hbn : b ∉ (cs1.map g).flatten ++ g a :=
    fun hm => (List.nodup_append.mp hD).2.2 b hm b hbB rfl
  have h1 : ((cs1.map g).flatten ++ g a ++ (cs2.map g).flatten).idxOf b
      = ((cs2.map g).flatten).idxOf b + ((cs1.map g).flatten ++ g a).length := by
    rw [List.idxOf_append, if_neg hbn]
  have h3 : ((cs1.map g).flatten ++ g a ++ (cs2.map g).flatten).idxOf a ≤ ((cs1.map g).flatten).length := by
    have ham : a ∈ (cs1.map g).flatten ++ g a := List.mem_append_right _ List.mem_cons_self
    rw [List.idxOf_append, if_pos ham, List.idxOf_append]
    split
    · rename_i hin; exact Nat.le_of_lt (List.idxOf_lt_length_iff.mpr hin)
    · simp [g]
  rw [h1, List.length_append]
  have : (g a).length ≥ 1 := by simp [g]
  omega

/-- the enumeration of a node lists the children of every listed node (and of the node itself) in list order -/
theorem descF_order (s : G) (hw : WF s) (f : Nat) (w : Uid) (l : List Uid)
    (h : descF s.children f w = some l) (p a b : Uid) (hp : p = w ∨ p ∈ l) (hab : a ≠ b)
    (hidx : (s.children p).idxOf a < (s.children p).idxOf b) (hb : b ∈ s.children p) :
    l.idxOf a < l.idxOf b := by
  rcases hp with rfl | hp
  · exact descF_sibling_order s hw f p l h a b hab hidx hb
  · obtain ⟨pre, post, D, hD, hsplit⟩ := descF_segment s.children f w l h p hp
    have hlt := descF_sibling_order s hw f p D hD a b hab hidx hb
    have ha : a ∈ s.children p :=
      List.idxOf_lt_length_iff.mp (Nat.lt_of_lt_of_le hidx List.idxOf_le_length)
    have haD : a ∈ D := (mem_descF_children s hw f p D hD a).mpr (TC.single ((hw.listed a p).mpr ha))
    have hbD : b ∈ D := (mem_descF_children s hw f p D hD b).mpr (TC.single ((hw.listed b p).mpr hb))
    have hn := descF_children_nodup s hw f w l h
    have hl : l = (pre ++ [p]) ++ D ++ post := by rw [hsplit]; simp [List.append_assoc]
    rw [hl] at hn ⊢
    rw [idxOf_mid _ _ _ a hn haD, idxOf_mid _ _ _ b hn hbD]
    omega

/-! ### `WBS.tasks` and `wbs[id]` -/

theorem wbsTasks_spec (s : G) (w : Uid) (hi : Inv s) :
    ∃ l, wbsTasks s w = some l ∧ l.Nodup ∧ ∀ t, t ∈ l ↔ TC (par s) t w := by
  obtain ⟨l, hl⟩ := descF_children_total s hi.wf hi.bnd w
  exact ⟨l, hl, descF_children_nodup s hi.wf _ w l hl, mem_descF_children s hi.wf _ w l hl⟩

/-- a task with a parent is no WBS root -/
theorem not_hidden_of_parent (s : G) (hw : WF s) (t p : Uid) (h : s.parent t = some p) : s.hidden t = false := by
  cases hh : s.hidden t
  · rfl
  · rw [(hw.rootsTop t hh).1] at h; cases h

theorem not_hidden_of_TC (s : G) (hw : WF s) (t w : Uid) (h : TC (par s) t w) : s.hidden t = false := by
  rcases TC.head_cases h with h | ⟨b, h, _⟩
  · exact not_hidden_of_parent s hw t _ h
  · exact not_hidden_of_parent s hw t _ h

/-- two members of one tree with the same id are the same task -/
theorem member_unique (s : G) (hi : Inv s) (w t t' : Uid) (ht : TC (par s) t w) (ht' : TC (par s) t' w)
    (hid : s.tid t = s.tid t') : t = t' := by
  apply Classical.byContradiction
  intro hne
  exact hi.ids t t' hne (not_hidden_of_TC s hi.wf t w ht) (not_hidden_of_TC s hi.wf t' w ht')
    ⟨w, ht.toRTC, ht'.toRTC⟩ hid

theorem wbsGet_ok_iff (s : G) (w : Uid) (i : Int) (t : Uid) (hi : Inv s) :
    wbsGet s w i = .ok t ↔ (TC (par s) t w ∧ s.tid t = i) := by
  obtain ⟨l, hl, _, hmem⟩ := wbsTasks_spec s w hi
  simp only [wbsGet, hl]
  constructor
  · intro h
    split at h
    · rename_i t' hf
      cases h
      exact ⟨(hmem t).mp (List.mem_of_find?_eq_some hf), by simpa using List.find?_some hf⟩
    · cases h
  · rintro ⟨ht, hid⟩
    split
    · rename_i t' hf
      have h1 := (hmem t').mp (List.mem_of_find?_eq_some hf)
      have h2 : s.tid t' = i := by simpa using List.find?_some hf
      rw [member_unique s hi w t t' ht h1 (by rw [hid, h2])]
    · rename_i hf
      exact absurd (by simpa using hid) (List.find?_eq_none.mp hf t ((hmem t).mpr ht))

theorem wbsGet_error_iff (s : G) (w : Uid) (i : Int) (hi : Inv s) :
    wbsGet s w i = .error .runtime ↔ ¬ ∃ t, TC (par s) t w ∧ s.tid t = i := by
  obtain ⟨l, hl, _, hmem⟩ := wbsTasks_spec s w hi
  simp only [wbsGet, hl]
  constructor
  · intro h
    split at h
    · cases h
    · rename_i hf
      rintro ⟨t, ht, hid⟩
      exact List.find?_eq_none.mp hf t ((hmem t).mpr ht) (by simpa using hid)
  · intro h
    split
    · rename_i t' hf
      exact absurd ⟨t', (hmem t').mp (List.mem_of_find?_eq_some hf), by simpa using List.find?_some hf⟩ h
    · rfl

/-- the id-intersection test of the children setter fires ⇒ RuntimeError, nothing changes -/
theorem setChildren_clash (s : G) (h : Uid) (l : List Uid)
    (hown : ∀ e, (match s.owner h with
                  | none => if l.any (fun v => (s.owner v).isSome) then some Err.runtime else none
                  | some w => if l.any (fun v => (s.owner v).isSome && s.owner v != some w) then some Err.runtime else none) = some e
              → e = .runtime)
    (hclash : hasIdIntersection s h l = some true) : setChildren s h l = (s, some .runtime) := by
  have hc : chkChildren s h l = some .runtime := by
    unfold chkChildren
    simp only
    split
    · rename_i e he
      rw [hown e he]
    · rw [hclash]
  unfold setChildren
  rw [hc]

/-! ### owners and membership (C11) -/

theorem owner_member_iff (s : G) (w t : Uid) (hi : Inv s) (hw : s.hidden w = true) (ht : s.hidden t = false) :
    s.owner t = some w ↔ ∃ l, wbsTasks s w = some l ∧ t ∈ l := by
  obtain ⟨l, hl, _, hmem⟩ := wbsTasks_spec s w hi
  rw [owner_iff_root s hi t w]
  constructor
  · rintro ⟨hr, _⟩
    refine ⟨l, hl, (hmem t).mpr ?_⟩
    rcases hr.cases_eq_or_TC with e | e
    · subst e; rw [hw] at ht; cases ht
    · exact e
  · rintro ⟨l', hl', htl⟩
    rw [hl] at hl'; cases hl'
    exact ⟨((hmem t).mp htl).toRTC, hw⟩

theorem owner_none_iff_noWbs (s : G) (t : Uid) (hi : Inv s) :
    s.owner t = none ↔ ∀ w, s.hidden w = true → ¬ RTC (par s) t w := by
  constructor
  · intro h w hw hr
    rw [(owner_iff_root s hi t w).mpr ⟨hr, hw⟩] at h; cases h
  · intro h
    cases ho : s.owner t with
    | none => rfl
    | some w =>
      obtain ⟨hr, hw⟩ := (owner_iff_root s hi t w).mp ho
      exact absurd hr (h w hw)

/-! ### re-attaching a detached tree to a WBS (C11) -/

theorem eraseDups_of_nodup (l : List Uid) (h : l.Nodup) : l.eraseDups = l := by
  induction l with
  | nil => simp
  | cons a as ih =>
    obtain ⟨ha, has⟩ := List.nodup_cons.mp h
    rw [List.eraseDups_cons]
    have : as.filter (fun b => !b == a) = as := by
      rw [List.filter_eq_self]
      intro b hb
      have : b ≠ a := fun e => ha (e ▸ hb)
      simpa using this
    rw [this, ih has]

theorem eraseDups_of_nodup_int (l : List Int) (h : l.Nodup) : l.eraseDups = l := by
  induction l with
  | nil => simp
  | cons a as ih =>
    obtain ⟨ha, has⟩ := List.nodup_cons.mp h
    rw [List.eraseDups_cons]
    have : as.filter (fun b => !b == a) = as := by
      rw [List.filter_eq_self]
      intro b hb
      have : b ≠ a := fun e => ha (e ▸ hb)
      simpa using this
    rw [this, ih has]

theorem nodup_map_of_inj_on {β γ : Type} (f : β → γ) (l : List β) (h : l.Nodup)
    (hinj : ∀ a ∈ l, ∀ b ∈ l, f a = f b → a = b) : (l.map f).Nodup := by
  induction l with
  | nil => simp
  | cons a as ih =>
    obtain ⟨ha, has⟩ := List.nodup_cons.mp h
    rw [List.map_cons, List.nodup_cons]
    refine ⟨?_, ih has (fun x hx y hy => hinj x (List.mem_cons_of_mem _ hx) y (List.mem_cons_of_mem _ hy))⟩
    intro hm
    obtain ⟨b, hb, hfb⟩ := List.mem_map.mp hm
    have := hinj b (List.mem_cons_of_mem _ hb) a List.mem_cons_self hfb
    exact ha (this ▸ hb)

theorem rootF_of_parent_none (s : G) (w : Uid) (h : s.parent w = none) : rootF s s.fuel w = some w := by
  simp [G.fuel, rootF, h]

/-- semantic reading of the id-intersection test for one incoming tree: no clash when the ids inside the
    incoming tree are pairwise different and different from every id of the receiving tree -/
theorem hasIdIntersection_single_false (s : G) (w t : Uid) (lw lt : List Uid)
    (hroot : rootF s s.fuel w = some w)
    (hlw : descF s.children s.fuel w = some lw) (hlt : descF s.children s.fuel t = some lt)
    (hnd : (t :: lt).Nodup)
    (hinj : ∀ a ∈ t :: lt, ∀ b ∈ t :: lt, s.tid a = s.tid b → a = b)
    (hdis : ∀ x ∈ t :: lt, ∀ y ∈ w :: lw, s.tid x ≠ s.tid y) :
    hasIdIntersection s w [t] = some false := by
  have htree : subtreeF s.children s.fuel w = some (w :: lw) := by simp [subtreeF, hlw]
  have hsubs : [t].mapM (subtreeF s.children s.fuel) = some [t :: lt] := by
    refine (mapM_some_cons _ _ _ _).mpr ⟨t :: lt, [], by simp [subtreeF, hlt], by simp, rfl⟩
  unfold hasIdIntersection
  simp only [hroot, htree, hsubs, bind, Option.bind, pure, List.flatten_cons, List.flatten_nil, List.append_nil]
  have hX : ((t :: lt).filter (fun x => !(w :: lw).contains x)).Nodup := hnd.filter _
  have hXsub : ∀ x ∈ (t :: lt).filter (fun x => !(w :: lw).contains x), x ∈ t :: lt :=
    fun x hx => (List.mem_filter.mp hx).1
  rw [eraseDups_of_nodup _ hX]
  generalize (t :: lt).filter (fun x => !(w :: lw).contains x) = X at hX hXsub
  have hids : (X.map s.tid).Nodup :=
    nodup_map_of_inj_on s.tid X hX (fun a ha b hb => hinj a (hXsub a ha) b (hXsub b hb))
  rw [eraseDups_of_nodup_int _ hids]
  split
  · rfl
  · simp only [bne_self_eq_false, Bool.false_eq_true, if_false, Option.some.injEq]
    rw [List.any_eq_false]
    intro i hi
    obtain ⟨x, hx, rfl⟩ := List.mem_map.mp hi
    intro hc
    rw [List.contains_iff_mem] at hc
    obtain ⟨y, hy, hxy⟩ := List.mem_map.mp hc
    exact hdis x (hXsub x hx) y hy hxy.symm

theorem linkedWithAny_eq_false (s : G) (ts os : List Uid)
    (h : ∀ x ∈ ts, ∀ y ∈ os, y ∉ s.preds x ∧ y ∉ s.succs x) : linkedWithAny s ts os = false := by
  simp only [linkedWithAny, List.any_eq_false, List.any_eq_true, not_exists, not_and, List.mem_append,
    List.contains_iff_mem]
  intro x hx y hy hyo
  rcases hy with hy | hy
  · exact (h x hx y hyo).1 hy
  · exact (h x hx y hyo).2 hy

theorem appStep_owner (s3 : G) (t p : Uid) : (appStep s3 t p).owner = s3.owner := by
  unfold appStep; split <;> rfl

/-- a released (detached, parentless) subtree whose ids do not clash can be attached to a WBS -/
theorem reattach (s : G) (w t : Uid) (hi : Inv s) (hw : s.hidden w = true) (ht : s.hidden t = false)
    (hdet : s.owner t = none) (hpar : s.parent t = none)
    (hids : ∀ x y, RTC (par s) x t → TC (par s) y w → s.tid x ≠ s.tid y) :
    ∃ s', chAppend s w t = (s', none) ∧ s'.owner t = some w := by
  have hwf := hi.wf
  obtain ⟨hwp, hwpr, hwsu⟩ := hwf.rootsTop w hw
  obtain ⟨lw, hlw⟩ := descF_children_total s hwf hi.bnd w
  obtain ⟨lt, hlt⟩ := descF_children_total s hwf hi.bnd t
  have hmt := mem_descF_children s hwf _ t lt hlt
  have hmw := mem_descF_children s hwf _ w lw hlw
  have hsubt : ∀ x ∈ t :: lt, RTC (par s) x t := by
    intro x hx
    rcases List.mem_cons.mp hx with rfl | hx
    · exact RTC.refl
    · exact ((hmt x).mp hx).toRTC
  have hnh : ∀ x ∈ t :: lt, s.hidden x = false := by
    intro x hx
    rcases List.mem_cons.mp hx with rfl | hx
    · exact ht
    · exact not_hidden_of_TC s hwf x t ((hmt x).mp hx)
  have hnd : (t :: lt).Nodup :=
    List.nodup_cons.mpr ⟨fun h => hwf.forest t ((hmt t).mp h), descF_children_nodup s hwf _ t lt hlt⟩
  have hwt : w ≠ t := by intro e; subst e; rw [hw] at ht; cases ht
  have hwl : w ∉ lt := fun hc => par_TC_none s hwp ((hmt w).mp hc)
  have hii : hasIdIntersection s w [t] = some false := by
    refine hasIdIntersection_single_false s w t lw lt (rootF_of_parent_none s w hwp) hlw hlt hnd ?_ ?_
    · intro a ha b hb hab
      apply Classical.byContradiction
      intro hne
      exact hi.ids a b hne (hnh a ha) (hnh b hb) ⟨t, hsubt a ha, hsubt b hb⟩ hab
    · intro x hx y hy
      rcases List.mem_cons.mp hy with rfl | hy
      · intro e
        have : s.hidden x = true := by
          have hy' : s.tid y = emptyId := by simpa [G.hidden] using hw
          simp [G.hidden, e, hy']
        rw [hnh x hx] at this; cases this
      · exact hids x y (hsubt x hx) ((hmw y).mp hy)
  have hanc : ancF s s.fuel (s.parent w) = some [] := by rw [hwp]; simp [G.fuel, ancF]
  have hlink : linkedWithAny s (t :: lt) [w] = false := by
    refine linkedWithAny_eq_false s _ _ ?_
    intro x _ y hy
    have hyw : y = w := by simpa using hy
    subst hyw
    constructor
    · intro h1
      have := (hwf.sym y x).mp h1
      rw [hwsu] at this; cases this
    · intro h1
      have := (hwf.sym x y).mpr h1
      rw [hwpr] at this; cases this
  have hpp : s.pubParent t = none := by simp [G.pubParent, hpar]
  have hchk : chkParentSome s t w = none := by
    unfold chkParentSome
    simp [hdet, hpp, hii, hlt, hwt, hwl, hanc, hlink]
  have hsub : subtreeF s.children s.fuel t = some (t :: lt) := by simp [subtreeF, hlt]
  have hown : (parStep (detachOld s t) t w).owner w = some w := by
    show (detachOld s t).owner w = some w
    rw [(detachOld_fields s t).2.2.2.2]; exact hi.own.root w hw
  refine ⟨(mutParentSome s t w).1, ?_, ?_⟩
  · show setParentSome s t w = _
    unfold setParentSome
    rw [hchk]
    show mutParentSome s t w = _
    rw [mutParentSome_eq, hsub]
  · rw [mutParentSome_eq, hsub]
    show (appStep _ t w).owner t = some w
    rw [appStep_owner]
    unfold ownStep
    rw [hown]
    simp [setOwners]

/-! ### released subtrees (C11) -/

/-- frame of an accepted `v.parent = p`: only the parent of `v` and the owners inside the subtree of `v` change -/
theorem setParentSome_frame (s s' : G) (v p : Uid) (h : setParentSome s v p = (s', none)) :
    s'.parent = upd s.parent v (some p) ∧
    ∀ x, ¬ RTC (fun a b => b ∈ s.children a) v x → s'.owner x = s.owner x := by
  unfold setParentSome at h
  split at h
  · cases h
  · rw [mutParentSome_eq] at h
    split at h
    · cases h
    · rename_i sub hsub
      cases h
      refine ⟨?_, ?_⟩
      · rw [(appStep_fields _ _ _).1, (ownStep_fields _ _ _).1, (parStep_fields _ _ _).1,
          (detachOld_fields s v).1]
      · intro x hx
        rw [appStep_owner]
        have hbase : (parStep (detachOld s v) v p).owner = s.owner := (detachOld_fields s v).2.2.2.2
        unfold ownStep
        split
        · rw [hbase]
        · have hxs : x ∉ sub := by
            intro hm
            simp only [subtreeF, Option.map_eq_some_iff] at hsub
            obtain ⟨d, hd, rfl⟩ := hsub
            rcases List.mem_cons.mp hm with rfl | hm
            · exact hx RTC.refl
            · exact hx (descF_sound _ _ _ _ hd x hm).toRTC
          simp only [setOwners]
          rw [hbase]
          simp [hxs]

theorem RTC_child_iff (s : G) (hl : ∀ t p, s.parent t = some p ↔ t ∈ s.children p) (a b : Uid) :
    RTC (fun x y => y ∈ s.children x) a b ↔ RTC (par s) b a := by
  constructor
  · intro h
    exact RTC.flip (RTC.mono (r' := fun x y => par s y x) (fun x y hxy => (child_iff_par s hl x y).mp hxy) h)
  · intro h
    exact RTC.mono (fun x y hxy => (child_iff_par s hl x y).mpr hxy) (RTC.unflip h)

/-- what "the subtree of `c` (as it was in `s`) is released in `cur`" means -/
structure Released (s cur : G) (c : Uid) : Prop where
  keep : ∀ x, TC (par s) x c → cur.parent x = s.parent x
  top : cur.parent c = none
  own : ∀ x, RTC (par s) x c → cur.owner x = none

/-- the parent chains that start inside a released subtree stay inside it -/
theorem Released.closed {s cur : G} {c : Uid} (hr : Released s cur c) {x y : Uid}
    (hx : RTC (par s) x c) (hxy : RTC (par cur) x y) : RTC (par s) y c := by
  induction hxy with
  | refl => exact hx
  | @tail b y _ hstep ih =>
    rcases ih.cases_eq_or_TC with e | e
    · subst e
      have : cur.parent b = some y := hstep
      rw [hr.top] at this; cases this
    · have h1 : cur.parent b = some y := hstep
      rw [hr.keep b e] at h1
      rcases par_TC_cases s h1 e with e' | e'
      · subst e'; exact RTC.refl
      · exact e'.toRTC

theorem foldSetParent_released (s : G) (c h : Uid) (vs : List Uid) :
    ∀ (cur s' : G), WF cur → (∀ v ∈ vs, cur.hidden v = false) → (∀ v ∈ vs, ¬ RTC (par s) v c) →
      Released s cur c → foldSetParent cur vs h = (s', none) → Released s s' c := by
  induction vs with
  | nil =>
    intro cur s' _ _ _ hr hf
    simp only [foldSetParent] at hf
    cases hf; exact hr
  | cons v vs ih =>
    intro cur s' hw hv hno hr hf
    rw [foldSetParent] at hf
    have hwf1 := setParentSome_WF cur v h hw (hv v List.mem_cons_self)
    have htid := setParentSome_tid cur v h
    split at hf
    · cases hf
    · rename_i s1 he
      have he' : setParentSome cur v h = (s1, none) := he
      rw [he'] at hwf1 htid
      obtain ⟨fp, fo⟩ := setParentSome_frame cur s1 v h he'
      have hvc : ¬ RTC (par s) v c := hno v List.mem_cons_self
      refine ih s1 s' hwf1 ?_ (fun u hu => hno u (List.mem_cons_of_mem _ hu)) ?_ hf
      · intro u hu
        rw [hidden_of_tid cur s1 htid u]
        exact hv u (List.mem_cons_of_mem _ hu)
      · refine ⟨?_, ?_, ?_⟩
        · intro x hx
          have : x ≠ v := fun e => hvc (e ▸ hx.toRTC)
          rw [fp, upd_other _ _ _ _ this]; exact hr.keep x hx
        · have : c ≠ v := fun e => hvc (e ▸ RTC.refl)
          rw [fp, upd_other _ _ _ _ this]; exact hr.top
        · intro x hx
          rw [fo x ?_]
          · exact hr.own x hx
          · intro hreach
            exact hvc (hr.closed hx ((RTC_child_iff cur hw.listed v x).mp hreach))

theorem releaseChildren_released (s s1 : G) (h : Uid) (l : List Uid) (hw : WF s)
    (hrel : releaseChildren s h l = (s1, none)) (c : Uid) (hc : c ∈ s.children h) (hcl : c ∉ l) :
    Released s s1 c := by
  unfold releaseChildren at hrel
  simp only at hrel
  split at hrel
  · cases hrel
  · rename_i subs hsubs
    cases hrel
    have hpc : s.parent c = some h := (hw.listed c h).mpr hc
    refine ⟨?_, ?_, ?_⟩
    · intro x hx
      show (if (s.children h).contains x then none else s.parent x) = s.parent x
      have hxo : x ∉ s.children h := by
        intro hm
        have hpx : s.parent x = some h := (hw.listed x h).mpr hm
        rcases par_TC_cases s hpx hx with e | e
        · subst e; exact hw.forest c (TC.single hpc)
        · exact hw.forest h (TC.tail e hpc)
      simp [hxo]
    · show (if (s.children h).contains c then none else s.parent c) = none
      simp [hc]
    · intro x hx
      show (if subs.flatten.contains x then none else s.owner x) = none
      have hgone : c ∈ (s.children h).filter (fun v => !l.contains v) := by
        simp [List.mem_filter, hc, hcl]
      obtain ⟨b, hb, hsb⟩ := mapM_some_mem _ _ _ hsubs c hgone
      simp only [subtreeF, Option.map_eq_some_iff] at hsb
      obtain ⟨d, hd, rfl⟩ := hsb
      have hxb : x ∈ c :: d := by
        rcases hx.cases_eq_or_TC with e | e
        · simp [e]
        · exact List.mem_cons_of_mem _ ((mem_descF_children s hw _ c d hd x).mpr e)
      have : x ∈ subs.flatten := List.mem_flatten.mpr ⟨_, hb, hxb⟩
      simp [this]

/-- tasks left out of an accepted children assignment end up parentless and, together with their whole
    subtree, ownerless, unless part of that subtree is adopted by the same call -/
theorem setChildren_released (s s' : G) (h : Uid) (l : List Uid) (hw : WF s)
    (hv : ∀ v ∈ l, s.hidden v = false)
    (hok : setChildren s h l = (s', none)) (c : Uid) (hc : c ∈ s.children h)
    (hno : ∀ y ∈ l, ¬ RTC (par s) y c) : Released s s' c := by
  have hcl : c ∉ l := fun hm => hno c hm RTC.refl
  unfold setChildren at hok
  split at hok
  · cases hok
  · have hw1 := releaseChildren_WF s h l hw
    have ht1 := releaseChildren_tid s h l
    split at hok
    · cases hok
    · rename_i s1 he
      rw [he] at hw1 ht1
      refine foldSetParent_released s c h l s1 s' hw1 ?_ hno
        (releaseChildren_released s s1 h l hw he c hc hcl) hok
      intro u hu
      rw [hidden_of_tid s s1 ht1 u]
      exact hv u hu

end Pj
