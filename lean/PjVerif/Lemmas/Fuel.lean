/-
  Lemmas/Fuel.lean — on a well-formed state over a universe of `n` objects the fuel `n + 1` never runs out:
  Python's RecursionError cannot occur in any of the graph walks (pigeonhole on a duplicate-free chain).
-/
import PjVerif.Lemmas.Rel
namespace Pj

/-- generic: a walk along an acyclic `next` relation whose targets are all `< n` needs at most `n + 1` levels -/
theorem descF_total_of_acyclic (next : Uid → List Uid) (n : Nat)
    (hac : ∀ x, ¬ TC (fun a b => b ∈ next a) x x) (hb : ∀ a b, b ∈ next a → b < n) (t : Uid) :
    ∃ l, descF next (n + 1) t = some l := by
  sorry

theorem descF_children_total (s : G) (hw : WF s) (hb : Bounded s) (t : Uid) :
    ∃ l, descF s.children s.fuel t = some l := by
  sorry

theorem subtreeF_children_total (s : G) (hw : WF s) (hb : Bounded s) (t : Uid) :
    ∃ l, subtreeF s.children s.fuel t = some l := by
  sorry

theorem descF_preds_total (s : G) (hw : WF s) (hb : Bounded s) (t : Uid) :
    ∃ l, descF s.preds s.fuel t = some l := by
  sorry

theorem descF_succs_total (s : G) (hw : WF s) (hb : Bounded s) (t : Uid) :
    ∃ l, descF s.succs s.fuel t = some l := by
  sorry

theorem rootF_total (s : G) (hw : WF s) (hb : Bounded s) (t : Uid) :
    ∃ r, rootF s s.fuel t = some r := by
  sorry

theorem ancF_total (s : G) (hw : WF s) (hb : Bounded s) (p : Option Uid) :
    ∃ l, ancF s s.fuel p = some l := by
  sorry

theorem hasIdIntersection_total (s : G) (hw : WF s) (hb : Bounded s) (p : Uid) (chs : List Uid) :
    ∃ b, hasIdIntersection s p chs = some b := by
  sorry

end Pj
