/-
  Lemmas/Fuel.lean — on a well-formed state over a universe of `n` objects the fuel `n + 1` never runs out:
  Python's RecursionError cannot occur in any of the graph walks (pigeonhole on a duplicate-free chain).
-/
import PjVerif.Lemmas.Rel
namespace Pj

/-! ### pigeonhole and chains -/

/-- a duplicate-free list of naturals `< n` has at most `n` elements -/
theorem nodup_lt_length_le (n : Nat) (l : List Nat) (hn : l.Nodup) (hlt : ∀ x ∈ l, x < n) : l.length ≤ n := by
  induction n generalizing l with
  | zero =>
    cases l with
    | nil => exact Nat.le_refl 0
    | cons x xs => exact absurd (hlt x List.mem_cons_self) (Nat.not_lt_zero x)
  | succ n ih =>
    have h1 : (l.erase n).length ≤ n := by
      refine ih (l.erase n) (hn.erase n) ?_
      intro x hx
      obtain ⟨hne, hxl⟩ := (List.Nodup.mem_erase_iff hn).mp hx
      have := hlt x hxl
      omega
    have h2 : (l.erase n).length = if n ∈ l then l.length - 1 else l.length := List.length_erase
    split at h2 <;> omega

/-- `l` is a walk `t → l[0] → l[1] → …` along `next` -/
def IsPath (next : Uid → List Uid) : Uid → List Uid → Prop
  | _, [] => True
  | a, b :: l => b ∈ next a ∧ IsPath next b l

theorem IsPath.reach {next : Uid → List Uid} {t : Uid} {l : List Uid} (h : IsPath next t l) :
    ∀ x ∈ l, TC (fun a b => b ∈ next a) t x := by
  induction l generalizing t with
  | nil => intro x hx; cases hx
  | cons b l ih =>
    obtain ⟨hb, hl⟩ := h
    intro x hx
    rcases List.mem_cons.mp hx with rfl | hx
    · exact TC.single hb
    · exact TC.head (r := fun a b => b ∈ next a) hb (ih hl x hx)

theorem IsPath.nodup {next : Uid → List Uid} (hac : ∀ x, ¬ TC (fun a b => b ∈ next a) x x)
    {t : Uid} {l : List Uid} (h : IsPath next t l) : (t :: l).Nodup := by
  induction l generalizing t with
  | nil => exact List.nodup_cons.mpr ⟨List.not_mem_nil, List.nodup_nil⟩
  | cons b l ih =>
    refine List.nodup_cons.mpr ⟨?_, ih h.2⟩
    intro ht
    exact hac t (h.reach t ht)

theorem IsPath.lt {next : Uid → List Uid} {n : Nat} (hb : ∀ a b, b ∈ next a → b < n)
    {t : Uid} {l : List Uid} (h : IsPath next t l) : ∀ x ∈ l, x < n := by
  induction l generalizing t with
  | nil => intro x hx; cases hx
  | cons b l ih =>
    intro x hx
    rcases List.mem_cons.mp hx with rfl | hx
    · exact hb _ _ h.1
    · exact ih h.2 x hx

/-- a walk along an acyclic relation with targets `< n` has at most `n` steps -/
theorem IsPath.length_le {next : Uid → List Uid} {n : Nat}
    (hac : ∀ x, ¬ TC (fun a b => b ∈ next a) x x) (hb : ∀ a b, b ∈ next a → b < n)
    {t : Uid} {l : List Uid} (h : IsPath next t l) : l.length ≤ n :=
  nodup_lt_length_le n l (List.nodup_cons.mp (h.nodup hac)).2 (h.lt hb)

/-- … and at most `n - 1` steps when it starts inside the universe -/
theorem IsPath.length_succ_le {next : Uid → List Uid} {n : Nat}
    (hac : ∀ x, ¬ TC (fun a b => b ∈ next a) x x) (hb : ∀ a b, b ∈ next a → b < n)
    {t : Uid} (ht : t < n) {l : List Uid} (h : IsPath next t l) : l.length + 1 ≤ n := by
  refine nodup_lt_length_le n (t :: l) (h.nodup hac) ?_
  intro x hx
  rcases List.mem_cons.mp hx with rfl | hx
  · exact ht
  · exact h.lt hb x hx

/-- `mapM` succeeds when the function succeeds on every element -/
theorem mapM_total {β γ : Type} (g : β → Option γ) (l : List β) (h : ∀ a ∈ l, ∃ b, g a = some b) :
    ∃ r, l.mapM g = some r := by
  induction l with
  | nil => exact ⟨[], by simp⟩
  | cons x xs ih =>
    obtain ⟨b, hb⟩ := h x List.mem_cons_self
    obtain ⟨bs, hbs⟩ := ih (fun a ha => h a (List.mem_cons_of_mem _ ha))
    exact ⟨b :: bs, (mapM_some_cons g x xs _).mpr ⟨b, bs, hb, hbs, rfl⟩⟩

/-- `descF` succeeds when the fuel exceeds the length of every walk from `t` -/
theorem descF_total_of_paths (next : Uid → List Uid) (f : Nat) (t : Uid)
    (h : ∀ l, IsPath next t l → l.length < f) : ∃ r, descF next f t = some r := by
  induction f generalizing t with
  | zero => exact absurd (h [] trivial) (Nat.lt_irrefl 0)
  | succ f ih =>
    have hm : ∃ ll, (next t).mapM (fun c => (descF next f c).map (fun r => c :: r)) = some ll := by
      refine mapM_total _ _ ?_
      intro c hc
      obtain ⟨r, hr⟩ := ih c (fun l hl => Nat.lt_of_succ_lt_succ (h (c :: l) ⟨hc, hl⟩))
      exact ⟨c :: r, by rw [hr]; rfl⟩
    obtain ⟨ll, hll⟩ := hm
    exact ⟨ll.flatten, by rw [descF, hll]; rfl⟩

/-- generic: a walk along an acyclic `next` relation whose targets are all `< n` needs at most `n + 1` levels -/
theorem descF_total_of_acyclic (next : Uid → List Uid) (n : Nat)
    (hac : ∀ x, ¬ TC (fun a b => b ∈ next a) x x) (hb : ∀ a b, b ∈ next a → b < n) (t : Uid) :
    ∃ l, descF next (n + 1) t = some l :=
  descF_total_of_paths next (n + 1) t (fun _ hl => Nat.lt_succ_of_le (hl.length_le hac hb))

theorem descF_children_total (s : G) (hw : WF s) (hb : Bounded s) (t : Uid) :
    ∃ l, descF s.children s.fuel t = some l := by
  refine descF_total_of_acyclic s.children s.n ?_ (fun a b h => (hb.children a b h).2) t
  intro x hx
  exact hw.forest x ((TC_child_iff s hw.listed x x).mp hx)

theorem subtreeF_children_total (s : G) (hw : WF s) (hb : Bounded s) (t : Uid) :
    ∃ l, subtreeF s.children s.fuel t = some l := by
  obtain ⟨l, hl⟩ := descF_children_total s hw hb t
  exact ⟨t :: l, by rw [subtreeF, hl]; rfl⟩

theorem descF_preds_total (s : G) (hw : WF s) (hb : Bounded s) (t : Uid) :
    ∃ l, descF s.preds s.fuel t = some l := by
  refine descF_total_of_acyclic s.preds s.n ?_ (fun a b h => (hb.preds a b h).2) t
  intro x hx
  exact hw.dag x (TC.flip (r := dep s) hx)

theorem descF_succs_total (s : G) (hw : WF s) (hb : Bounded s) (t : Uid) :
    ∃ l, descF s.succs s.fuel t = some l := by
  refine descF_total_of_acyclic s.succs s.n ?_ (fun a b h => (hb.succs a b h).2) t
  intro x hx
  exact hw.dag x (TC.mono (r' := dep s) (fun a b h => (hw.sym a b).mpr h) hx)

/-! ### the parent walks -/

/-- the parent function as a `next` relation -/
def parNext (s : G) : Uid → List Uid := fun x => (s.parent x).toList

theorem mem_parNext (s : G) (a b : Uid) : b ∈ parNext s a ↔ s.parent a = some b := by
  unfold parNext; exact Option.mem_toList

theorem parNext_acyclic (s : G) (hw : WF s) : ∀ x, ¬ TC (fun a b => b ∈ parNext s a) x x := by
  intro x hx
  exact hw.forest x (TC.mono (r' := par s) (fun a b h => (mem_parNext s a b).mp h) hx)

theorem parNext_lt (s : G) (hb : Bounded s) : ∀ a b, b ∈ parNext s a → b < s.n :=
  fun a b h => (hb.parent a b ((mem_parNext s a b).mp h)).2

theorem rootF_total_of_paths (s : G) (f : Nat) (t : Uid)
    (h : ∀ l, IsPath (parNext s) t l → l.length < f) : ∃ r, rootF s f t = some r := by
  induction f generalizing t with
  | zero => exact absurd (h [] trivial) (Nat.lt_irrefl 0)
  | succ f ih =>
    rw [rootF]
    cases hp : s.parent t with
    | none => exact ⟨t, rfl⟩
    | some p =>
      exact ih p (fun l hl => Nat.lt_of_succ_lt_succ (h (p :: l) ⟨(mem_parNext s t p).mpr hp, hl⟩))

theorem rootF_total (s : G) (hw : WF s) (hb : Bounded s) (t : Uid) :
    ∃ r, rootF s s.fuel t = some r :=
  rootF_total_of_paths s (s.n + 1) t
    (fun _ hl => Nat.lt_succ_of_le (hl.length_le (parNext_acyclic s hw) (parNext_lt s hb)))

theorem ancF_total_of_paths (s : G) (f : Nat) (o : Option Uid)
    (h : ∀ p, o = some p → ∀ l, IsPath (parNext s) p l → l.length + 1 ≤ f) :
    ∃ r, ancF s (f + 1) o = some r := by
  induction f generalizing o with
  | zero =>
    cases o with
    | none => exact ⟨[], rfl⟩
    | some p => exact absurd (h p rfl [] trivial) (by decide)
  | succ f ih =>
    cases o with
    | none => exact ⟨[], rfl⟩
    | some p =>
      rw [ancF]
      cases hh : s.hidden p with
      | true => exact ⟨[], by simp⟩
      | false =>
        rw [ancF_pubParent]
        obtain ⟨r, hr⟩ := ih (s.parent p) (fun q hq l hl =>
          Nat.le_of_succ_le_succ (h p rfl (q :: l) ⟨(mem_parNext s p q).mpr hq, hl⟩))
        exact ⟨p :: r, by rw [hr]; simp⟩

/-- corrected form of `ancF_total`: the start of the walk is an object of the universe (or `none`) -/
theorem ancF_total_of_lt (s : G) (hw : WF s) (hb : Bounded s) (p : Option Uid)
    (hp : ∀ u, p = some u → u < s.n) : ∃ l, ancF s s.fuel p = some l :=
  ancF_total_of_paths s s.n p
    (fun u hu _ hl => hl.length_succ_le (parNext_acyclic s hw) (parNext_lt s hb) (hp u hu))

/-- the form in which the model calls `ancF`: started at the raw parent of a task -/
theorem ancF_parent_total (s : G) (hw : WF s) (hb : Bounded s) (q : Uid) :
    ∃ l, ancF s s.fuel (s.parent q) = some l :=
  ancF_total_of_lt s hw hb (s.parent q) (fun u hu => (hb.parent q u hu).2)

theorem hasIdIntersection_total (s : G) (hw : WF s) (hb : Bounded s) (p : Uid) (chs : List Uid) :
    ∃ b, hasIdIntersection s p chs = some b := by
  obtain ⟨root, hroot⟩ := rootF_total s hw hb p
  obtain ⟨tree, htree⟩ := subtreeF_children_total s hw hb root
  obtain ⟨subs, hsubs⟩ := mapM_total (subtreeF s.children s.fuel) chs
    (fun a _ => subtreeF_children_total s hw hb a)
  unfold hasIdIntersection
  simp only [hroot, htree, hsubs, bind, Option.bind, pure]
  split
  · exact ⟨_, rfl⟩
  · split
    · exact ⟨_, rfl⟩
    · exact ⟨_, rfl⟩

end Pj
