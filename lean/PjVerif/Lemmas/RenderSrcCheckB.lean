/-
  Lemmas/RenderSrcCheckB.lean — stage 1, continued: kernel-checked concrete runs of the translated Gantt source
  (`MermaidGantt.__mermaid_task_state`, `__mermaid_task`, `__src`) against Model/Render.lean.  See Lemmas/RenderSrc.lean
  and RenderSrcCheck.lean (the WBS `w1`, the views `V1` … `V6`, the clock reads 100).
-/
import PjVerif.Lemmas.RenderSrcCheck
namespace Pj.RenderSrc
open Pj.PyLite Pj.Render Pj.Extracted.Render
open Pj.PrintSrc (Lib cLib enc dec)
namespace Check

def gSrc (V : View) : Str := ganttSrc V.title V.weekends V.tick (gTasks S V w1)

example : (views.all (fun V => dec (enc (gSrc V)) == gSrc V)) = true := by decide +kernel

/-! ### `__mermaid_task_state`, `__mermaid_task` -/

example : ((List.range 8).all (fun t => decide (interpTaskState S V1 w1 FC t = .ok (.atom (S.s (stateOf (toGTask S V1 (w1 t)))))))) = true := by
  decide +kernel
example : ((List.range 8).map (fun t => stateOf (toGTask S V1 (w1 t)))) =
    ["done,", "active,", "milestone,", "", "done,", "", "done,", "done,"].map String.toList := by decide +kernel

example : ((List.range 8).all (fun t => decide (interpGanttLine S V1 w1 FC t = .ok (.atom (S.s (ganttLine (toGTask S V1 (w1 t)))))))) = true := by
  decide +kernel

/-! ### `MermaidGantt.__src` -/

example : (views.all (fun V => decide (interpGanttSrc S V w1 FC = .ok (.atom (S.s (gSrc V)))))) = true := by decide +kernel

/-- the exact texts (of the model = of the program, by the example above; `@n` stands for the formatted date) -/
example : gSrc V1 = txt
  ["gantt\n", "  dateFormat DD.MM.YYYY HH:mm\n", "  title My plan\n", "  excludes weekends\n", "  tickInterval 1day\n",
   "  section A\n",
   "    Plan {draft}: done, id_1, @10, @50\n",
   "    : done, id_5, @99, @100\n",
   "  section B\n",
   "    Say \"hi\" {x}: active, id_2, @50, @150\n",
   "    \": done, id_x-7, @0, @1\n",
   "  section -\n",
   "    M stone: milestone, id_3, @60, @60\n",
   "    }{:  id_4, @200, @300\n",
   "    abc:  id_6, @100, @101\n"] := by decide +kernel

/-- one named section only: no section line; no title; an empty tick interval is not written -/
example : gSrc V2 = txt
  ["gantt\n", "  dateFormat DD.MM.YYYY HH:mm\n",
   "    Plan {draft}: done, id_1, @10, @50\n",
   "    : done, id_5, @99, @100\n"] := by decide +kernel

/-- no section attribute at all; an empty title is written (the constructor turns '' into None: `self.title` is never '') -/
example : gSrc V3 = txt
  ["gantt\n", "  dateFormat DD.MM.YYYY HH:mm\n", "  title \n", "  excludes weekends\n",
   "    abc:  id_6, @100, @101\n",
   "    M stone: milestone, id_3, @60, @60\n",
   "    Ext{: done, id_70, @0, @1\n"] := by decide +kernel

/-- sections in the order of their first task -/
example : gSrc V4 = txt
  ["gantt\n", "  dateFormat DD.MM.YYYY HH:mm\n", "  title My plan\n", "  tickInterval 1day\n",
   "  section -\n",
   "    M stone: milestone, id_3, @60, @60\n",
   "    abc:  id_6, @100, @101\n",
   "  section B\n",
   "    \": done, id_x-7, @0, @1\n",
   "    Say \"hi\" {x}: active, id_2, @50, @150\n"] := by decide +kernel

example : gSrc V5 = txt
  ["gantt\n", "  dateFormat DD.MM.YYYY HH:mm\n", "  title My plan\n", "  excludes weekends\n", "  tickInterval 1day\n"] := by
  decide +kernel

/-- the section '-' written out and unsectioned tasks are one section: no section line -/
example : gSrc V6 = txt
  ["gantt\n", "  dateFormat DD.MM.YYYY HH:mm\n", "  title My plan\n", "  excludes weekends\n", "  tickInterval 1day\n",
   "    }{:  id_4, @200, @300\n",
   "    abc:  id_6, @100, @101\n",
   "    M stone: milestone, id_3, @60, @60\n"] := by decide +kernel

end Check
end Pj.RenderSrc
