/-
  Lemmas/TaskSrcCheck.lean — stage 1 of the translated tie for task.py: kernel-checked concrete runs of the translated
  helpers and setters (Extracted/TaskSrc.lean) against the graph model.  See Lemmas/TaskSrc.lean.
-/
import PjVerif.Lemmas.TaskSrc
namespace Pj.TaskSrc
open Pj.PyLite Pj.Extracted

/-! ### stage 1: concrete runs (kernel-checked)

  Every example runs the translated source on the encoding of a concrete graph state and compares the result with the
  model: the returned value, and the objects `0 … n-1` of the final store with the encoding of the model's new state
  (`view`; the encoding is injective, so this is the comparison of the decoded state); errors must coincide. -/
deriving instance DecidableEq for Except

namespace Check

structure Nd where
  tid : Int
  parent : Option Uid := none
  children : List Uid := []
  preds : List Uid := []
  succs : List Uid := []
  owner : Option Uid := none

def dflt : Nd := { tid := 0 }

def mk (l : List Nd) : G :=
  { n := l.length
    tid := fun u => (l.getD u dflt).tid
    parent := fun u => (l.getD u dflt).parent
    children := fun u => (l.getD u dflt).children
    preds := fun u => (l.getD u dflt).preds
    succs := fun u => (l.getD u dflt).succs
    owner := fun u => (l.getD u dflt).owner }

/-- the objects `0 … n-1` of a store -/
def view (n : Nat) (h : Nat → PyLite.Env) : List PyLite.Env := (List.range n).map h

def observe (n : Nat) (r : Res (Val × PState)) : Res (Val × List PyLite.Env) :=
  r.map (fun x => (x.1, view n x.2.heap))

/-- what the run of a setter is compared with: `None` and the encoding of the model's new state, or the model's error -/
def expect (n : Nat) (r : G × Option Err) : Res (Val × List PyLite.Env) :=
  match r with
  | (s', none) => .ok (.atom .none, view n (encHeap s'))
  | (_, some e) => .error e

/-- what the run of a helper that only reads is compared with: the model's value and the unchanged store; `none`
    (the model ran out of fuel) = RecursionError -/
def expectV (s : G) (o : Option Val) : Res (Val × List PyLite.Env) :=
  match o with
  | some v => .ok (v, view s.n (encHeap s))
  | none => .error (.crash .recursion)

def F : Nat := 24

def runV (s : G) (k : Nat) (args : List Val) : Res (Val × List PyLite.Env) := observe s.n (interp F k args (encSt s))

def allU (s : G) (p : Uid → Bool) : Bool := (List.range s.n).all p

def boolV (b : Bool) : Val := .atom (.bool b)
def refV (u : Uid) : Val := .atom (.ref u)

/-- a WBS (hidden root 0: 1 > 2, 3; link 3 → 2), a detached tree 4 > 5 (5 shares its id with 1), detached tasks 6 → 7
    (linked; 7 shares its id with 2), a second WBS (hidden root 8 > 9, 9 shares its id with 1), detached 10, 11, and
    12 (shares its id with 2 and 7) -/
def g1 : G := mk [
  { tid := emptyId, children := [1, 3], owner := some 0 },
  { tid := 10, parent := some 0, children := [2], owner := some 0 },
  { tid := 20, parent := some 1, preds := [3], owner := some 0 },
  { tid := 30, parent := some 0, succs := [2], owner := some 0 },
  { tid := 40, children := [5] },
  { tid := 10, parent := some 4 },
  { tid := 60, succs := [7] },
  { tid := 20, preds := [6] },
  { tid := emptyId, children := [9], owner := some 8 },
  { tid := 10, parent := some 8, owner := some 8 },
  { tid := 100 },
  { tid := 110 },
  { tid := 20 }]

/-- a deeper WBS with a diamond of links: 0 (hidden) > 1 > (2 > 4, 3 > 5), links 4 → 5, 4 → 3, 5 → 6, 6 = root task -/
def g2 : G := mk [
  { tid := emptyId, children := [1, 6], owner := some 0 },
  { tid := 1, parent := some 0, children := [2, 3], owner := some 0 },
  { tid := 2, parent := some 1, children := [4], owner := some 0 },
  { tid := 3, parent := some 1, children := [5], preds := [4], owner := some 0 },
  { tid := 4, parent := some 2, succs := [5, 3], owner := some 0 },
  { tid := 5, parent := some 3, preds := [4], succs := [6], owner := some 0 },
  { tid := 6, parent := some 0, preds := [5], owner := some 0 }]

/-- a state that is NOT well formed: 0 and 1 are each other's parent (a cycle) -/
def g3 : G := mk [
  { tid := 1, parent := some 1, children := [1] },
  { tid := 2, parent := some 0, children := [0] },
  { tid := 3 }]

/-! #### stage A: the helpers -/

-- `_find_root` = `rootF`, `_collect_subtree` = `subtreeF`, `__get_all_children` = `descF`, `__get_all_parents` = `ancF`,
-- the `parent` getter = `pubParent`, `_raw_parent` = the raw parent: for every task of the three graphs
def helpersAgree (s : G) : Bool :=
  allU s (fun t =>
    decide (runV s fn_find_root [refV t] = expectV s ((rootF s s.fuel t).map refV)) &&
    decide (runV s fn_collect_subtree [refV t] = expectV s ((subtreeF s.children s.fuel t).map refs)) &&
    decide (runV s fn_Task_get_all_children [refV t] = expectV s ((descF s.children s.fuel t).map refs)) &&
    decide (runV s fn_Task_get_all_parents [refV t] = expectV s ((ancF s s.fuel (s.parent t)).map refs)) &&
    decide (runV s fn_Task_get_all_predecessors [refV t] =
      expectV s ((descF s.preds s.fuel t).map (fun l => refs l.eraseDups))) &&
    decide (runV s fn_Task_get_all_successors [refV t] =
      expectV s ((descF s.succs s.fuel t).map (fun l => refs l.eraseDups))) &&
    decide (runV s fn_Task_parent_get [refV t] = expectV s (some (.atom (optRef (s.pubParent t))))) &&
    decide (runV s fn_Task_raw_parent [refV t] = expectV s (some (.atom (optRef (s.parent t))))))

example : helpersAgree g1 = true := by decide +kernel
example : helpersAgree g2 = true := by decide +kernel
/-- on the cyclic state the recursions end in RecursionError on both sides (the interpreter has more fuel than the
    model: both run out) -/
example : helpersAgree g3 = true := by decide +kernel

-- `_has_id_intersection(parent, children)` = `hasIdIntersection`: every parent, with one child and with two children
def idsAgree (s : G) : Bool :=
  allU s (fun p => allU s (fun c =>
    decide (runV s fn_has_id_intersection [refV p, refs [c]] = expectV s ((hasIdIntersection s p [c]).map boolV)) &&
    decide (runV s fn_has_id_intersection [refV p, refs [c, 12]] =
      expectV s ((hasIdIntersection s p [c, 12]).map boolV))))

example : idsAgree g1 = true := by decide +kernel

-- `_linked_with_any(tasks, others)` = `linkedWithAny`, `_unique_objects` = `eraseDups`
def linkedAgree (s : G) : Bool :=
  allU s (fun a => allU s (fun b =>
    decide (runV s fn_linked_with_any [refs [a, 1], refs [b, 6]] = expectV s (some (boolV (linkedWithAny s [a, 1] [b, 6])))) &&
    decide (runV s fn_unique_objects [refs [a, b, 2, a, b]] = expectV s (some (refs [a, b, 2, a, b].eraseDups)))))

example : linkedAgree g1 = true := by decide +kernel
example : linkedAgree g2 = true := by decide +kernel

-- `_to_list`: `None`, a task, a list with `None`s
example : runV g1 fn_to_list [.atom .none] = expectV g1 (some (refs [])) := by decide +kernel
example : runV g1 fn_to_list [refV 3] = expectV g1 (some (refs [3])) := by decide +kernel
example : runV g1 fn_to_list [.list [.ref 3, .none, .ref 1, .none]] = expectV g1 (some (refs [3, 1])) := by decide +kernel
/-- something else (an `int`): outside the encoding, the run is stuck -/
example : runV g1 fn_to_list [.atom (.num 5)] = .error stuck := by decide +kernel

-- `_attach(wbs)` / `_detach()` = `setOwners` on the subtree
example : runV g1 fn_Task_attach [refV 4, refV 8] = expect g1.n (setOwners g1 [4, 5] (some 8), none) := by decide +kernel
example : runV g1 fn_Task_attach [refV 4, .atom .none] = expect g1.n (g1, none) := by decide +kernel
example : runV g1 fn_Task_detach [refV 1] = expect g1.n (setOwners g1 [1, 2] none, none) := by decide +kernel
example : runV g3 fn_Task_detach [refV 0] = .error (.crash .recursion) := by decide +kernel

end Check
end Pj.TaskSrc
