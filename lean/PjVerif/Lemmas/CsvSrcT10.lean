/-
  Lemmas/CsvSrcT10.lean — CSV I/O, READ side: `wbs.tasks` of the WBS `raws_to_wbs` returns, without the store: the
  depth-first enumeration over the table of the rows (`final_tasks`: roots = the rows without a parent among the rows,
  the children of a task = the rows whose parent id names it, both in row order) - the order `flattenTree` of
  `rebuildForest` has.
-/
import PjVerif.Lemmas.CsvSrcT9
namespace Pj.CsvSrc
open Pj.PyLite Pj.Extracted.Csv Pj.Csv

/-- the tasks of the rows whose parent is the task `q`, in row order -/
def kidsT (D : List (Atom × Atom)) (rows : List LinkRow) (q : Nat) : List Nat :=
  (rows.filter (fun r => parOf D r.p == some q)).map (·.t)

/-- the tasks of the rows without a parent, in row order -/
def rootsT (D : List (Atom × Atom)) (rows : List LinkRow) : List Nat :=
  (rows.filter (fun r => parOf D r.p == none)).map (·.t)

/-- depth first over a table of children -/
def dfsT (K : Nat → List Nat) : Nat → List Nat → List Nat
  | 0, _ => []
  | f + 1, l => l.flatMap (fun i => i :: dfsT K f (K i))

theorem refsOf_map_ref : ∀ (l : List Nat), refsOf (.list (l.map Atom.ref)) = l
  | [] => rfl
  | i :: l => by
    have := refsOf_map_ref l
    simp only [refsOf] at this ⊢
    rw [List.map_cons, List.filterMap_cons, this]

theorem refsOf_map {α} (g : α → Nat) (l : List α) :
    refsOf (.list (l.map (fun r => Atom.ref (g r)))) = l.map g := by
  have h := refsOf_map_ref (l.map g)
  rw [List.map_map] at h
  exact h

theorem dfs_congr_on (h : Nat → PyLite.Env) (K : Nat → List Nat) (P : Nat → Prop)
    (hP : ∀ i, P i → kidsRefs h i = K i ∧ ∀ c ∈ K i, P c) :
    ∀ (f : Nat) (l : List Nat), (∀ i ∈ l, P i) → dfsHeap h f l = dfsT K f l
  | 0, _, _ => rfl
  | f + 1, l, hl => by
    have hstep : ∀ i, P i → dfsHeap h f (kidsRefs h i) = dfsT K f (K i) := fun i hi => by
      rw [(hP i hi).1]; exact dfs_congr_on h K P hP f _ (hP i hi).2
    show l.flatMap (fun i => i :: dfsHeap h f (kidsRefs h i)) = l.flatMap (fun i => i :: dfsT K f (K i))
    induction l with
    | nil => rfl
    | cons a l ih =>
      rw [List.flatMap_cons, List.flatMap_cons, hstep a (hl a (List.mem_cons_self ..)),
        ih (fun i hi => hl i (List.mem_cons_of_mem _ hi))]

section final
variable (st : PState) (os : List Nat)

theorem final_kidsRefs (x : LinkRow) (hx : x ∈ linkRows st.heap st.reads os) :
    kidsRefs (finalSt st os).heap x.t = kidsT (idDict st os) (linkRows st.heap st.reads os) x.t := by
  rw [kidsRefs_eq, final_kids st os x hx]
  exact refsOf_map LinkRow.t _

/-- `wbs.tasks` of the WBS object the run returns -/
theorem final_tasks : wbsTasks (finalSt st os) (wbsRef st os) =
    dfsT (kidsT (idDict st os) (linkRows st.heap st.reads os)) (wbsRef st os + 2)
      (rootsT (idDict st os) (linkRows st.heap st.reads os)) := by
  unfold wbsTasks
  rw [(final_same st os).reads, treeSt_reads, final_roots]
  have hr : refsOf ((some (Val.list (((linkRows st.heap st.reads os).filter
      (fun r => parOf (idDict st os) r.p == none)).map (fun r => Atom.ref r.t)))).getD (.list [])) =
      rootsT (idDict st os) (linkRows st.heap st.reads os) := by
    exact refsOf_map LinkRow.t _
  rw [hr]
  refine dfs_congr_on _ _ (fun i => ∃ x ∈ linkRows st.heap st.reads os, x.t = i) ?_ _ _ ?_
  · rintro i ⟨x, hx, rfl⟩
    refine ⟨final_kidsRefs st os x hx, fun c hc => ?_⟩
    obtain ⟨r, hr, e⟩ := List.mem_map.1 hc
    exact ⟨r, (List.mem_filter.1 hr).1, e⟩
  · intro i hi
    obtain ⟨r, hr, e⟩ := List.mem_map.1 hi
    exact ⟨r, (List.mem_filter.1 hr).1, e⟩

end final

end Pj.CsvSrc
