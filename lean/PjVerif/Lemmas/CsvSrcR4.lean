/-
  Lemmas/CsvSrcR4.lean — CSV I/O, towards the READ side: the keyword arguments `read_csv` collects for a data row.
-/
import PjVerif.Lemmas.CsvSrcR3
namespace Pj.CsvSrc
open Pj.PyLite Pj.Extracted.Csv Pj.Csv

theorem prim_lit_min_start (L : IOLib) (st : PState) :
    ioPrim L "lit:min_start" [] st = .ok (.atom (strA "min_start".toList)) := by
  unfold ioPrim; rw [if_pos (by decide +kernel)]; rfl

theorem cellParse_atom {α} {f : Str → Res α} {g : α → Atom} {s : Str} {v : Val} (h : cellParse f g s = .ok v) :
    ∃ a, v = .atom a := by
  unfold cellParse at h
  cases hn : nonEmpty s with
  | none =>
    simp only [hn] at h
    exact ⟨.none, by injection h with h; exact h.symm⟩
  | some t =>
    simp only [hn] at h
    cases hf : f t with
    | error e => simp [hf, Except.map] at h
    | ok a =>
      simp only [hf, Except.map] at h
      exact ⟨g a, by injection h with h; exact h.symm⟩

def kwReadBody : List Stmt :=
  [.assign "v" (.dictIndex (.var "header") (.var "k")),
   .ifElse (.cmp .eq (.var "k") (.prim "lit:min_start" .listNil))
     [.assign "kwargs" (.dictSet (.var "kwargs") (.var "k") (.callFn fn_parse_date (.listCons (.listIndex (.items (.var "row")) (.var "v")) .listNil)))]
     [.ifElse (.not (.isIn (.var "k") tenLits))
        [.assign "kwargs" (.dictSet (.var "kwargs") (.var "k") (.listIndex (.items (.var "row")) (.var "v")))]
        []]]

/-- what one column adds to the keyword arguments (`none`: IndexError / ValueError) -/
def kwStep (L : IOLib) (hdr row : List Str) (D : List (Atom × Atom)) (c : Str) : Option (List (Atom × Atom)) :=
  if c = "min_start".toList then
    match cellAt hdr row c with
    | some cell =>
      match cellParse L.strptime Atom.time cell with
      | .ok (.atom a) => some (Dict.insert D (strA c) a)
      | _ => none
    | none => none
  else if defaultFields.contains c then some D
  else (cellAt hdr row c).map (fun cell => Dict.insert D (strA c) (strA cell))

theorem kw_read_body (L : IOLib) (F : Nat) (rec) {hdr row : List Str} {rb : Nat} {env : PyLite.Env} {st : PState}
    (hc : RowCtx hdr row rb env st) (c : Str) (i : Nat) (D D' : List (Atom × Atom))
    (hk : env.get? "k" = some (.atom (strA c))) (hkw : env.get? "kwargs" = some (.dict D))
    (hi : headerIndex hdr c = some i) (hstep : kwStep L hdr row D c = some D') :
    ∃ env', execBlockP (HH L (F + 1)) [] rec kwReadBody env st = .normal env' st ∧
      env'.get? "kwargs" = some (.dict D') ∧ Frame ["v", "kwargs"] env env' := by
  let env1 := env.set "v" (.atom (numI i))
  have hfr1 : Frame ["v", "kwargs"] env env1 := Frame.set env "v" _ (by simp)
  have hk1 : env1.get? "k" = some (.atom (strA c)) := by rw [envGet_set, if_neg (by decide)]; exact hk
  have hkw1 : env1.get? "kwargs" = some (.dict D) := by rw [envGet_set, if_neg (by decide)]; exact hkw
  have hv1 : env1.get? "v" = some (.atom (numI i)) := by rw [envGet_set, if_pos rfl]
  have hrow1 : env1.get? "row" = some (.atom (.box rb)) := by rw [envGet_set, if_neg (by decide)]; exact hc.hrow
  have hv : (Expr.dictIndex (.var "header") (.var "k")).evalP (HH L (F + 1)) [] env st = .ok (.atom (numI i), st) :=
    eval_dictIndex (eval_var hc.hheader) (eval_var hk) (by rw [hdrDict_get, hi]; rfl)
  have hcmp : (Expr.cmp .eq (.var "k") (.prim "lit:min_start" .listNil)).evalP (HH L (F + 1)) [] env1 st =
      .ok (.atom (.bool (decide (c = "min_start".toList))), st) := by
    have h2 := eval_prim (H := HH L (F + 1)) (self := []) (env := env1) (st := st) (name := "lit:min_start") eval_nil
      (by rw [HH_prim, prim_lit_min_start])
    simp only [Expr.evalP, hk1, bind, Except.bind, pure, Except.pure, PyLite.compare, pyEq_strA] at h2 ⊢
    rw [HH_prim, prim_lit_min_start]
    simp only [pyEq_strA]
  have hcellE : ∀ cell, row[i]? = some cell →
      (Expr.listIndex (.items (.var "row")) (.var "v")).evalP (HH L (F + 1)) [] env1 st = .ok (.atom (strA cell), st) :=
    fun cell h => eval_listIndex (eval_items (eval_var hrow1) hc.hbox) (eval_var hv1)
      (by simp [atomsOf, List.getElem?_map, h])
  have hcellAt : cellAt hdr row c = row[i]? := by simp [cellAt, hi]
  unfold kwReadBody
  rw [block_cons_normal (exec_assign hv), execBlockP, exec_ifElse hcmp rfl]
  unfold kwStep at hstep
  by_cases hms : c = "min_start".toList
  · rw [if_pos hms, hcellAt] at hstep
    cases hcell : row[i]? with
    | none => simp [hcell] at hstep
    | some cell =>
      simp only [hcell] at hstep
      cases hp : cellParse L.strptime Atom.time cell with
      | error e => simp [hp] at hstep
      | ok v =>
        obtain ⟨a, rfl⟩ := cellParse_atom hp
        simp only [hp, Option.some.injEq] at hstep
        subst hstep
        refine ⟨env1.set "kwargs" (.dict (Dict.insert D (strA c) a)), ?_, by rw [envGet_set, if_pos rfl],
          hfr1.trans (Frame.set env1 "kwargs" _ (by simp))⟩
        have hcall : (Expr.callFn fn_parse_date (.listCons (.listIndex (.items (.var "row")) (.var "v")) .listNil)).evalP
            (HH L (F + 1)) [] env1 st = .ok (.atom a, st) := by
          rw [eval_callFn (evalArgs_cons (hcellE cell hcell) evalArgs_nil)]
          show runIO L csvFuns (F + 1) fn_parse_date [.atom (strA cell)] st = _
          rw [parse_date_run, hp]; rfl
        simp only [hms, decide_true, if_true]
        rw [← hms, block_cons_normal (exec_assign (eval_dictSet hcall (eval_var hkw1) (eval_var hk1)))]
        simp [execBlockP]
  · rw [if_neg hms] at hstep
    simp only [hms, decide_false, Bool.false_eq_true, if_false]
    have hcond : (Expr.not (.isIn (.var "k") tenLits)).evalP (HH L (F + 1)) [] env1 st =
        .ok (.atom (.bool (!defaultFields.contains c)), st) := by
      rw [eval_not (eval_isIn (eval_var hk1) (eval_tenLits L (F + 1) env1 st)) rfl, any_strA]
    rw [execBlockP, exec_ifElse hcond rfl]
    cases hd : defaultFields.contains c with
    | true =>
      rw [hd, if_pos rfl] at hstep
      simp only [Option.some.injEq] at hstep
      subst hstep
      exact ⟨env1, by simp [execBlockP], hkw1, hfr1⟩
    | false =>
      rw [hd, if_neg (by simp), hcellAt] at hstep
      cases hcell : row[i]? with
      | none => simp [hcell] at hstep
      | some cell =>
        simp only [hcell, Option.map_some, Option.some.injEq] at hstep
        subst hstep
        refine ⟨env1.set "kwargs" (.dict (Dict.insert D (strA c) (strA cell))), ?_, by rw [envGet_set, if_pos rfl],
          hfr1.trans (Frame.set env1 "kwargs" _ (by simp))⟩
        simp only [Bool.not_false, if_true]
        rw [block_cons_normal (exec_assign (eval_dictSet (hcellE cell hcell) (eval_var hkw1) (eval_var hk1)))]
        simp [execBlockP]

end Pj.CsvSrc
