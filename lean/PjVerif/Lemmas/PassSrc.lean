/-
  Lemmas/PassSrc.lean — the hand-written model of the recursive forward pass (Model/Sched.lean: `fwdPass`,
  `fwdPlace`, `fwdStart`, `fillEst`, `fwdEnd`, `maxEnds`, `resLookup`, `now`, …) equals the interpretation of the
  CURRENT SOURCE of

    ForwardScheduler.__forward_pass(self, _task, min_date, resource_usage, calculated)

  (Extracted/PassSrc.lean, regenerated from src/pjplan/schedule.py by tools/extract_pass.py on every check), run by
  the pass layer of PyLite (`callP` / `Stmt.execP` / `Expr.evalP`: a heap of task objects, the list `calculated`,
  the scheduler's resource table, a scripted clock, handlers for calls of other methods, fuel for the recursion).

  Setting.
  * `encS env ms σ` is the Python state of the model state `σ : SS`: the task `u` is the object `ref u` with the
    attributes `encTask` (predecessors / children = lists of references, `wbs` = the one WBS object for members and
    `None` for outside tasks, `milestone` = the task's OWN flag `ms u`, `resource` = its name, `min_start`, and the
    mutable `start`, `end`, `estimate`, `spent`); the ledger rows are `encRow` of Lemmas/ScheduleSrc.lean;
    `calculated` = `σ.done`; `self.__resources` = `σ.res` (name ↦ the resource object `ref (resRef name)`); the
    clock has been read `σ.reads` times.  `decS` reads a Python state back (`decS_encS`).
  * the model's `milestone` is the effective one: `hms : (env.info u).milestone = (ms u && children.isEmpty)`.
  * handlers `passH env wfuel calR`: `datetime.now()` = `env.clock`; the calls
    `self.__get_resource_nearest_available_date(…)` / `self.__shift_by_resource_usage_and_calendar(…)` are
    interpreted BY RUNNING THEIR TRANSLATED SOURCE (`interpNearestFwd` / `interpShiftFwd` of Lemmas/ScheduleSrc.lean,
    whose theorems turn them into the model's `nearestFwd` / `shiftFwd`) on the calendar `calR r` of the resource
    object `ref r`; `Resource(name)` constructs the object `ref (resRef name)`, whose calendar is the default one
    (`calRef res0`: the calendars of the table `res0`, `defaultCal` for every other name).
  * `self` = `passSelf env` (`__default_estimate`, `__balance_resources`, `__start` = the project start `env.bound`).

  Results.
    Stage 1  `Check.*` (end of the file): on 6 concrete environments (a leaf; a summary with two leaves, with and
             without balancing; a predecessor chain leaving the WBS, also with too little fuel; a milestone and a
             flagged summary; min_start / user-fixed start / user-fixed start and end; TypeError and ValueError runs)
             `decide +kernel` checks  (interpFwdPass … (encS σ0) t m).map (view n ∘ decS) = (fwdPass env fuel [] σ0 t m).map (view n).
    Stage 2  `fwdTail_eq`: the statements after the two recursion loops (`fwdTail`: from `resource = …setdefault…` to
             `calculated.append(id(_task))`), run on `encS env ms σ` in ANY local environment `ρ` that binds `_task`
             to `ref t` and `max_predecessor_ends` to `mp`, end in `encS env ms σ'` if `fwdPlace env σ t mp = ok σ'`
             and raise `e` if it is `error e`.  Hypotheses: `hms`; `fwdShiftMaxSteps < wfuel` (fuel of the `while`
             loop inside the shift call); `calR (resRef k) = (resLookup σ.res k).2` for the task's resource name `k`.
    Stage 3  `interpFwdPass_eq`: for every env, fuel ≤ fuel', stk, σ, t, minDate with
                 fwdPass env fuel stk σ t minDate ≠ error (crash recursion)
             interpFwdPass env wfuel (calRef σ.res) fuel' (encS env ms σ) t minDate
                 = (fwdPass env fuel stk σ t minDate).map (encS env ms)
             (`interpFwdPass_eq'`: the same relative to an initial table `res0` with `calOf σ.res = calOf res0`;
             `callP_fwdPass`: the form used in the induction; `interpFwdPass_ok`: successful runs).
             The proviso is exactly the case the model adds to the source: `.crash .recursion` arises in the model
             only from fuel 0 and from the in-progress check `stk.contains t`; Python has no such check and would
             recurse up to its recursion limit, which the fuel of the interpreter plays.  The `member` filter of
             the model (`(env.info p).member == info.member`) is `pred.wbs is _task.wbs` on `encWbs`.
  No disagreement between the model and the translated method was found.  One disagreement between the model and
  the PROGRAM lies outside the translated method and outside PyLite (attributes are plain slots): the property
  setters `Task.estimate` / `Task.spent` (task.py) raise RuntimeError on a negative value, so with
  `default_estimate < 0` a leaf without estimate makes Python raise RuntimeError("Estimate < 0") where `fillEst`
  stores the negative estimate (checked on the snapshot: `ForwardScheduler(default_estimate=-1).calc(wbs)` with one
  task).  The theorems are about the slot semantics.

  A semantic edit of the method makes a `*_ok` / `*_shape` lemma (and usually some `Check` example) fail to compile
  or is a Miss of the translator: see the negative check at the end.
-/
import PjVerif.Extracted.PassSrc
import PjVerif.Lemmas.ScheduleSrc
import PjVerif.Lemmas.SchedPass
namespace Pj.PassSrc
open Pj.PyLite Pj.Extracted Pj.SchedSrc
set_option linter.unusedSimpArgs false

/-! ### the model's state as a Python state -/

/-- a resource name: `None` or a string (abstracted to its key) -/
def encKey : Option Nat → Atom
  | none => .none
  | some n => .str n

def optTime : Option Time → Val
  | none => .atom .none
  | some t => .atom (.time t)

def optNum : Option Rat → Val
  | none => .atom .none
  | some q => .atom (.num q)

/-- `task.wbs`: the WBS being scheduled (one object, `ref 0`) for its members, `None` for outside tasks -/
def encWbs (member : Bool) : Val := if member then .atom (.ref 0) else .atom .none

/-- the attributes of a task object; `flag` is the task's own `milestone` attribute (the model's `milestone` is
    the effective one: flagged and childless) -/
def encTask (info : TaskInfo) (flag : Bool) (fl : Fields) : PyLite.Env :=
  [("predecessors", .list (info.preds.map Atom.ref)), ("children", .list (info.children.map Atom.ref)),
   ("wbs", encWbs info.member), ("milestone", .atom (.bool flag)), ("resource", .atom (encKey info.resource)),
   ("min_start", optTime info.minStart), ("start", optTime fl.start), ("end", optTime fl.end_),
   ("estimate", optNum fl.est), ("spent", optNum fl.spent)]

/-- the state of a run (`encS`): ledger rows as in Lemmas/ScheduleSrc (`encRow`), the task `u` is the object `ref u`, the
    resource named `k` is the object `ref (resRef k)` -/
def encHeap (env : Pj.Env) (ms : Uid → Bool) (f : Uid → Fields) : Nat → PyLite.Env :=
  fun u => encTask (env.info u) (ms u) (f u)

def encS (env : Pj.Env) (ms : Uid → Bool) (σ : SS) : PState :=
  { L := σ.rows.map encRow
    heap := encHeap env ms σ.f
    done := σ.done
    res := σ.res.map (fun p => (encKey p.1, resRef p.1))
    reads := σ.reads }

/-- the scheduler object: `__default_estimate`, `__balance_resources` and - read by the forward pass only, the
    translator accepts `self.__start` in `ForwardScheduler` only - the project start `__start` = `env.bound` -/
def passSelf (env : Pj.Env) : PyLite.Env :=
  [("default_estimate", .atom (.num env.defaultEst)), ("balance_resources", .atom (.bool env.balance)),
   ("start", .atom (.time env.bound))]

/-- the name of the resource object `ref r` -/
def keyOfRef (r : Nat) : Option Nat := if r = 0 then none else some (r - 1)

theorem keyOfRef_resRef (k : Option Nat) : keyOfRef (resRef k) = k := by
  cases k <;> simp [keyOfRef, resRef]

/-- the handlers: the clock of the environment; the two inner loops of the scheduler are interpreted BY RUNNING
    THEIR TRANSLATED SOURCE (`interpNearestFwd`, `interpShiftFwd` of Lemmas/ScheduleSrc.lean) on the calendar
    `calR r` of the resource object `ref r`; `Resource(name)` is the object `ref (resRef name)` -/
def passH (env : Pj.Env) (wfuel : Nat) (calR : Nat → Cal) : PHandlers :=
  { clock := env.clock
    call := fun m args L =>
      if m = "get_resource_nearest_available_date" then
        match args with
        | [.ref r, .time s, .ref t] =>
          (interpNearestFwd (calR r) env.balance r t L s).map (fun p => (Val.atom (.time p.1), p.2))
        | _ => throw stuck
      else if m = "shift_by_resource_usage_and_calendar" then
        match args with
        | [.ref r, .time s, .ref t, .num left] =>
          (interpShiftFwd wfuel (calR r) env.balance r t L s left).map (fun p => (Val.atom (.time p.1), p.2))
        | _ => throw stuck
      else throw stuck
    newResource := fun a =>
      match a with
      | .none => pure 0
      | .str n => pure (n + 1)
      | _ => throw stuck }

/-- the calendars of the resource objects: those of the table `res0`, the default calendar for every other name -/
def calRef (res0 : List (Option Nat × Cal)) (r : Nat) : Cal := calOf res0 (keyOfRef r)

/-- run the translated `__forward_pass(ref t, minDate, <ledger>, <calculated>)` with at most `fuel` nested
    activations; `wfuel` bounds the `while` loop of `__shift_by_resource_usage_and_calendar` -/
def interpFwdPass (env : Pj.Env) (wfuel : Nat) (calR : Nat → Cal) (fuel : Nat) (st : PState) (t : Uid)
    (minDate : Time) : Res PState :=
  (callP (passH env wfuel calR) (passSelf env) src_Fwd_pass_params src_Fwd_pass fuel
    [.ref t, .time minDate] st).map (·.2)

/-! ### reading a Python state back -/

def decTime : Option Val → Option Time
  | some (.atom (.time t)) => some t
  | _ => none

def decNum : Option Val → Option Rat
  | some (.atom (.num q)) => some q
  | _ => none

def decFields (o : PyLite.Env) : Fields :=
  { start := decTime (o.get? "start"), end_ := decTime (o.get? "end"), est := decNum (o.get? "estimate"),
    spent := decNum (o.get? "spent") }

def decRow (x : LRow) : Row := { res := keyOfRef x.res, day := dayOf x.date, task := x.task, units := x.units }

def decS (calR : Nat → Cal) (st : PState) : SS :=
  { f := fun u => decFields (st.heap u)
    rows := st.L.map decRow
    done := st.done
    res := st.res.map (fun p => (keyOfRef p.2, calR p.2))
    reads := st.reads }

deriving instance DecidableEq for Fields
deriving instance DecidableEq for Row
deriving instance DecidableEq for Cal

deriving instance DecidableEq for Except

/-- what can be observed of a state: the fields of the tasks `0 … n-1`, the ledger, `calculated`, the resource
    table and the number of clock reads -/
structure View where
  fields : List Fields
  rows : List Row
  done : List Uid
  res : List (Option Nat × Cal)
  reads : Nat
  deriving DecidableEq, Repr

def view (n : Nat) (σ : SS) : View :=
  { fields := (List.range n).map σ.f, rows := σ.rows, done := σ.done, res := σ.res, reads := σ.reads }

/-! ### basic facts about environments, encoded tasks and the heap -/

theorem Env.get?_cons (p : String × Val) (ρ : PyLite.Env) (y : String) :
    Env.get? (p :: ρ) y = if p.1 = y then some p.2 else Env.get? ρ y := by
  by_cases h : p.1 = y <;> simp [Env.get?, h]

theorem Env.get?_set (ρ : PyLite.Env) (x y : String) (v : Val) :
    (Env.set ρ x v).get? y = if x = y then some v else ρ.get? y := by
  induction ρ with
  | nil => by_cases h : x = y <;> simp [Env.set, Env.get?, h]
  | cons p ρ ih =>
    unfold Env.set
    by_cases hp : p.1 = x
    · simp only [hp, beq_self_eq_true, if_true, Env.get?_cons]
      by_cases h : x = y <;> simp [h]
    · have hp' : (p.1 == x) = false := by simpa using hp
      simp only [hp', Bool.false_eq_true, if_false, Env.get?_cons, ih]
      by_cases h : x = y
      · subst h; simp [hp]
      · simp [h]

/-! attributes of an encoded task -/
section attrs
variable (info : TaskInfo) (flag : Bool) (fl : Fields)
theorem encTask_preds : (encTask info flag fl).get? "predecessors" = some (.list (info.preds.map Atom.ref)) := rfl
theorem encTask_children : (encTask info flag fl).get? "children" = some (.list (info.children.map Atom.ref)) := by
  simp [encTask, Env.get?]
theorem encTask_wbs : (encTask info flag fl).get? "wbs" = some (encWbs info.member) := by simp [encTask, Env.get?]
theorem encTask_milestone : (encTask info flag fl).get? "milestone" = some (.atom (.bool flag)) := by simp [encTask, Env.get?]
theorem encTask_resource : (encTask info flag fl).get? "resource" = some (.atom (encKey info.resource)) := by simp [encTask, Env.get?]
theorem encTask_min_start : (encTask info flag fl).get? "min_start" = some (optTime info.minStart) := by simp [encTask, Env.get?]
theorem encTask_start : (encTask info flag fl).get? "start" = some (optTime fl.start) := by simp [encTask, Env.get?]
theorem encTask_end : (encTask info flag fl).get? "end" = some (optTime fl.end_) := by simp [encTask, Env.get?]
theorem encTask_estimate : (encTask info flag fl).get? "estimate" = some (optNum fl.est) := by simp [encTask, Env.get?]
theorem encTask_spent : (encTask info flag fl).get? "spent" = some (optNum fl.spent) := by simp [encTask, Env.get?]

theorem encTask_set_start (v : Option Time) :
    Env.set (encTask info flag fl) "start" (optTime v) = encTask info flag { fl with start := v } := by
  simp [encTask, Env.set]
theorem encTask_set_end (v : Option Time) :
    Env.set (encTask info flag fl) "end" (optTime v) = encTask info flag { fl with end_ := v } := by
  simp [encTask, Env.set]
theorem encTask_set_estimate (v : Option Rat) :
    Env.set (encTask info flag fl) "estimate" (optNum v) = encTask info flag { fl with est := v } := by
  simp [encTask, Env.set]
theorem encTask_set_spent (v : Option Rat) :
    Env.set (encTask info flag fl) "spent" (optNum v) = encTask info flag { fl with spent := v } := by
  simp [encTask, Env.set]
end attrs

theorem heapSet_enc (env : Pj.Env) (ms : Uid → Bool) (f : Uid → Fields) (t : Uid) (a : String) (v : Val) (g : Fields)
    (h : Env.set (encTask (env.info t) (ms t) (f t)) a v = encTask (env.info t) (ms t) g) :
    heapSet (encHeap env ms f) t a v = encHeap env ms (upd f t g) := by
  funext j
  by_cases hj : j = t
  · subst hj; simp [heapSet, encHeap, h]
  · simp [heapSet, encHeap, upd, hj]

theorem heapSet_start (env : Pj.Env) (ms : Uid → Bool) (f : Uid → Fields) (t : Uid) (v : Time) :
    heapSet (encHeap env ms f) t "start" (.atom (.time v)) = encHeap env ms (upd f t { f t with start := some v }) :=
  heapSet_enc env ms f t _ _ _ (encTask_set_start _ _ _ (some v))
theorem heapSet_end (env : Pj.Env) (ms : Uid → Bool) (f : Uid → Fields) (t : Uid) (v : Time) :
    heapSet (encHeap env ms f) t "end" (.atom (.time v)) = encHeap env ms (upd f t { f t with end_ := some v }) :=
  heapSet_enc env ms f t _ _ _ (encTask_set_end _ _ _ (some v))
theorem heapSet_estimate (env : Pj.Env) (ms : Uid → Bool) (f : Uid → Fields) (t : Uid) (v : Rat) :
    heapSet (encHeap env ms f) t "estimate" (.atom (.num v)) = encHeap env ms (upd f t { f t with est := some v }) :=
  heapSet_enc env ms f t _ _ _ (encTask_set_estimate _ _ _ (some v))
theorem heapSet_spent (env : Pj.Env) (ms : Uid → Bool) (f : Uid → Fields) (t : Uid) (v : Rat) :
    heapSet (encHeap env ms f) t "spent" (.atom (.num v)) = encHeap env ms (upd f t { f t with spent := some v }) :=
  heapSet_enc env ms f t _ _ _ (encTask_set_spent _ _ _ (some v))

/-! ### the parts of the method -/

/-- the statements up to and including the loop over the children / after it -/
def fwdHead : List Stmt := src_Fwd_pass.take 4
def fwdTail : List Stmt := src_Fwd_pass.drop 4

structure TailParts where
  g0 : List Stmt
  msCond : Expr
  msThen : List Stmt
  iStart : Stmt
  iEst : Stmt
  iSpent : Stmt
  iEnd : Stmt
  fin : Stmt

def tailParts : TailParts :=
  match fwdTail with
  | [a, b, .ifElse c th [s1, s2, s3, s4], f] => ⟨[a, b], c, th, s1, s2, s3, s4, f⟩
  | _ => ⟨[], .none, [], .pass, .pass, .pass, .pass, .pass⟩

theorem fwdTail_shape : fwdTail = tailParts.g0 ++ [.ifElse tailParts.msCond tailParts.msThen
    [tailParts.iStart, tailParts.iEst, tailParts.iSpent, tailParts.iEnd], tailParts.fin] := rfl

theorem encHeap_apply (env : Pj.Env) (ms : Uid → Bool) (f : Uid → Fields) (u : Uid) :
    encHeap env ms f u = encTask (env.info u) (ms u) (f u) := rfl

/-- `max` / `min` on datetimes and numbers -/
theorem pyMax_time (a b : Time) : pyMax (.atom (.time a)) (.atom (.time b)) = .ok (.atom (.time (maxT a b))) := by
  by_cases h : a < b <;> simp [pyMax, PyLite.compare, cmpRat, maxT, h, bind, Except.bind, pure, Except.pure]
theorem pyMin_time (a b : Time) : pyMin (.atom (.time a)) (.atom (.time b)) = .ok (.atom (.time (minT a b))) := by
  by_cases h : b < a <;> simp [pyMin, PyLite.compare, cmpRat, minT, h, bind, Except.bind, pure, Except.pure]
theorem pyMax_num (a b : Rat) : pyMax (.atom (.num a)) (.atom (.num b)) = .ok (.atom (.num (if a < b then b else a))) := by
  by_cases h : a < b <;> simp [pyMax, PyLite.compare, cmpRat, Atom.asNum?, h, bind, Except.bind, pure, Except.pure]

theorem passH_call_nearest (env : Pj.Env) (wfuel : Nat) (calR : Nat → Cal) (rows : List Row) (k : Option Nat) (t : Uid)
    (s : Time) :
    (passH env wfuel calR).call "get_resource_nearest_available_date" [.ref (resRef k), .time s, .ref t] (rows.map encRow) =
      (nearestFwd (calR (resRef k)) (usedBy env rows k t) s).map (fun e => (Val.atom (.time e), rows.map encRow)) := by
  simp only [passH, if_true, interpNearestFwd_eq, usedOf_usedBy]
  cases nearestFwd (calR (resRef k)) (usedBy env rows k t) s <;> rfl

theorem passH_call_shift (env : Pj.Env) (wfuel : Nat) (hw : Extracted.fwdShiftMaxSteps < wfuel) (calR : Nat → Cal)
    (rows : List Row) (k : Option Nat) (t : Uid) (s : Time) (left : Rat) :
    (passH env wfuel calR).call "shift_by_resource_usage_and_calendar" [.ref (resRef k), .time s, .ref t, .num left]
        (rows.map encRow) =
      (shiftFwd (calR (resRef k)) (usedBy env rows k t) s left).map
        (fun p => (Val.atom (.time p.1), (rows ++ p.2.map (SchedSrc.mkRow k t)).map encRow)) := by
  have : ("shift_by_resource_usage_and_calendar" = "get_resource_nearest_available_date") = False := by decide
  simp only [passH, this, if_false, if_true, interpShiftFwd_eq _ _ _ _ _ _ _ _ hw, usedOf_usedBy]
  cases shiftFwd (calR (resRef k)) (usedBy env rows k t) s left <;> rfl

theorem upd_upd {β : Type} (f : Uid → β) (k : Uid) (a b : β) : upd (upd f k a) k b = upd f k b := by
  funext x; by_cases h : x = k <;> simp [upd, h]

theorem passH_clock (env : Pj.Env) (wfuel : Nat) (calR : Nat → Cal) : (passH env wfuel calR).clock = env.clock := rfl

/-- the locals the statements after the loops rely on -/
structure TailEnv (ρ : PyLite.Env) (t : Uid) (mp : Time) (r : Nat) (leaf : Bool) : Prop where
  task : ρ.get? "_task" = some (.atom (.ref t))
  mp : ρ.get? "max_predecessor_ends" = some (.atom (.time mp))
  res : ρ.get? "resource" = some (.atom (.ref r))
  leaf : ρ.get? "is_leaf" = some (.atom (.bool leaf))

theorem TailEnv.set {ρ : PyLite.Env} {t : Uid} {mp : Time} {r : Nat} {leaf : Bool} (h : TailEnv ρ t mp r leaf)
    (x : String) (v : Val) (h1 : x ≠ "_task") (h2 : x ≠ "max_predecessor_ends") (h3 : x ≠ "resource")
    (h4 : x ≠ "is_leaf") : TailEnv (Env.set ρ x v) t mp r leaf :=
  ⟨by rw [Env.get?_set, if_neg h1]; exact h.task, by rw [Env.get?_set, if_neg h2]; exact h.mp,
   by rw [Env.get?_set, if_neg h3]; exact h.res, by rw [Env.get?_set, if_neg h4]; exact h.leaf⟩

macro "tail_env" h:ident : tactic =>
  `(tactic| (repeat' (first | exact $h | (refine TailEnv.set ?_ _ _ (by decide) (by decide) (by decide) (by decide)))))

syntax "pylite_p" (" [" Lean.Parser.Tactic.simpLemma,* "]")? : tactic
macro_rules
  | `(tactic| pylite_p) => `(tactic| pylite_p [])
  | `(tactic| pylite_p [$ls,*]) => `(tactic|
      simp [execBlockP, Stmt.execP, Expr.evalP, iterOf, truthP, arithP, arith, arithTime,
        PyLite.compare, cmpRat, Atom.asNum?, pyMax_time, pyMin_time, pyMax_num, pure, Except.pure, bind, Except.bind,
        throw, throwThe, MonadExceptOf.throw, Env.get?_set, encHeap_apply,
        encTask_preds, encTask_children, encTask_wbs, encTask_milestone, encTask_resource, encTask_min_start,
        encTask_start, encTask_end, encTask_estimate, encTask_spent,
        heapSet_start, heapSet_end, heapSet_estimate, heapSet_spent, $ls,*])

theorem natCast_eq_zero (n : Nat) : ((n : Nat) : Rat) = 0 ↔ n = 0 := by
  constructor
  · intro h
    have : ((n : Nat) : Rat) = ((0 : Nat) : Rat) := h
    exact Rat.natCast_inj.1 this
  · intro h; subst h; rfl

/-! ### comprehensions, `sum`, `max`, `min` -/

theorem compLoopP_pure (f : Atom → PState → Res (Option Atom × PState)) (g : Atom → Option Atom) (st : PState)
    (vs : List Atom) (h : ∀ v ∈ vs, f v st = .ok (g v, st)) : compLoopP f vs st = .ok (vs.filterMap g, st) := by
  induction vs with
  | nil => rfl
  | cons v vs ih =>
    have h1 := h v (List.mem_cons_self)
    have h2 := ih (fun w hw => h w (List.mem_cons_of_mem _ hw))
    simp only [compLoopP, h1, h2, bind, Except.bind, pure, Except.pure, List.filterMap_cons]
    cases g v <;> rfl

def optTimeA : Option Time → Atom
  | none => .none
  | some t => .time t
def optNumA : Option Rat → Atom
  | none => .none
  | some q => .num q
theorem optTime_eq (o : Option Time) : optTime o = .atom (optTimeA o) := by cases o <;> rfl
theorem optNum_eq (o : Option Rat) : optNum o = .atom (optNumA o) := by cases o <;> rfl

/-- `[x.a for x in <tasks> if x.a is not None]` for a datetime attribute `a` -/
theorem evalP_comp_time (H : PHandlers) (self ρ : PyLite.Env) (env : Pj.Env) (ms : Uid → Bool) (f : Uid → Fields)
    (st : PState) (hh : st.heap = encHeap env ms f) (x a : String) (proj : Fields → Option Time)
    (hattr : ∀ info flag fl, (encTask info flag fl).get? a = some (optTime (proj fl)))
    (it : Expr) (lst : List Uid) (hit : it.evalP H self ρ st = .ok (.list (lst.map Atom.ref), st)) :
    (Expr.listComp (.attr (.var x) a) x it (.isNotNone (.attr (.var x) a))).evalP H self ρ st =
      .ok (.list ((lst.filterMap (fun c => proj (f c))).map Atom.time), st) := by
  simp only [Expr.evalP, hit, bind, Except.bind, iterOf, pure, Except.pure]
  rw [compLoopP_pure (g := fun v => match v with | .ref c => (proj (f c)).map Atom.time | _ => none)]
  · simp only [List.filterMap_map, List.map_filterMap]
    congr 3
  · intro v hv
    obtain ⟨c, _, rfl⟩ := List.mem_map.1 hv
    cases hp : proj (f c) <;>
      simp [Expr.evalP, Env.get?_set, hh, encHeap_apply, hattr, hp, optTime, truthP, bind, Except.bind, pure, Except.pure]

/-- `[x.a for x in <tasks>]` for a numeric attribute `a` -/
theorem evalP_comp_num (H : PHandlers) (self ρ : PyLite.Env) (env : Pj.Env) (ms : Uid → Bool) (f : Uid → Fields)
    (st : PState) (hh : st.heap = encHeap env ms f) (x a : String) (proj : Fields → Option Rat)
    (hattr : ∀ info flag fl, (encTask info flag fl).get? a = some (optNum (proj fl)))
    (it : Expr) (lst : List Uid) (hit : it.evalP H self ρ st = .ok (.list (lst.map Atom.ref), st)) :
    (Expr.listComp (.attr (.var x) a) x it (.bool true)).evalP H self ρ st =
      .ok (.list ((lst.map (fun c => proj (f c))).map optNumA), st) := by
  simp only [Expr.evalP, hit, bind, Except.bind, iterOf, pure, Except.pure]
  rw [compLoopP_pure (g := fun v => match v with | .ref c => some (optNumA (proj (f c))) | _ => none)]
  · simp only [List.filterMap_map, List.map_map]
    congr 2
    rw [← List.filterMap_eq_map]
    rfl
  · intro v hv
    obtain ⟨c, _, rfl⟩ := List.mem_map.1 hv
    simp [Expr.evalP, Env.get?_set, hh, encHeap_apply, hattr, optNum_eq, truthP, bind, Except.bind, pure, Except.pure]

theorem sumLoop_opt (l : List (Option Rat)) (a : Rat) :
    sumLoop (.atom (.num a)) (l.map optNumA) =
      (List.foldlM (m := Res) (fun acc v => match v with | some x => pure (acc + x) | none => throw (Err.crash .type)) a l).map
        (fun q => Val.atom (.num q)) := by
  induction l generalizing a with
  | nil => simp [sumLoop, pure, Except.pure, Except.map]
  | cons v l ih =>
    cases v with
    | none => simp [sumLoop, optNumA, arith, arithTime, Atom.asNum?, bind, Except.bind, throw, throwThe, MonadExceptOf.throw, Except.map]
    | some x => simp [sumLoop, optNumA, arith, arithTime, Atom.asNum?, bind, Except.bind, pure, Except.pure, ih]

theorem foldLoop_max_times (l : List Time) (c : Time) :
    foldLoop pyMax (.atom (.time c)) (l.map Atom.time) = .ok (.atom (.time (l.foldl maxT c))) := by
  induction l generalizing c with
  | nil => rfl
  | cons x l ih => simp [foldLoop, pyMax_time, bind, Except.bind, ih]

theorem foldLoop_min_times (l : List Time) (c : Time) :
    foldLoop pyMin (.atom (.time c)) (l.map Atom.time) = .ok (.atom (.time (l.foldl minT c))) := by
  induction l generalizing c with
  | nil => rfl
  | cons x l ih => simp [foldLoop, pyMin_time, bind, Except.bind, ih]

theorem foldList_max_times (l : List Time) :
    foldList pyMax (.list (l.map Atom.time)) =
      match l with
      | [] => .error (.crash .value)
      | c :: rest => .ok (.atom (.time (rest.foldl maxT c))) := by
  cases l with
  | nil => rfl
  | cons c rest => simp [foldList, foldLoop_max_times]

theorem foldList_min_times (l : List Time) :
    foldList pyMin (.list (l.map Atom.time)) =
      match l with
      | [] => .error (.crash .value)
      | c :: rest => .ok (.atom (.time (rest.foldl minT c))) := by
  cases l with
  | nil => rfl
  | cons c rest => simp [foldList, foldLoop_min_times]

/-! ### stage 2: the statements after the two loops -/

/-- a statement (after the loops) does what a stage of the model's placement does -/
def StmtOK (H : PHandlers) (self : PyLite.Env) (rec : List Atom → PState → Res (Val × PState)) (s : Stmt)
    (ρ : PyLite.Env) (env : Pj.Env) (ms : Uid → Bool) (σ : SS) (r : Res SS) (t : Uid) (mp : Time) (rr : Nat)
    (leaf : Bool) : Prop :=
  match r with
  | .ok σ' => ∃ ρ', s.execP H self rec ρ (encS env ms σ) = .normal ρ' (encS env ms σ') ∧ TailEnv ρ' t mp rr leaf
  | .error e => s.execP H self rec ρ (encS env ms σ) = .raise e

theorem evalP_task_attr (H : PHandlers) (self ρ : PyLite.Env) (st : PState) (x a : String) (u : Uid) (v : Val)
    (hx : ρ.get? x = some (.atom (.ref u))) (ha : (st.heap u).get? a = some v) :
    (Expr.attr (.var x) a).evalP H self ρ st = .ok (v, st) := by
  simp [Expr.evalP, hx, ha, bind, Except.bind, pure, Except.pure]

theorem pyEq_num (a b : Rat) : (Atom.num a).pyEq (Atom.num b) = decide (a = b) := by
  simp [Atom.pyEq, Atom.norm]

theorem natCast_succ_ne_zero (n : Nat) : ¬ ((n : Nat) : Rat) + 1 = 0 := by
  rw [← natCast_succ, natCast_eq_zero]; omega

theorem sumLoop_opt' {α : Type} (g : α → Option Rat) (l : List α) (a : Rat) :
    sumLoop (.atom (.num a)) (l.map (optNumA ∘ g)) =
      (List.foldlM (m := Res) (fun acc v => match v with | some x => pure (acc + x) | none => throw (Err.crash .type)) a
        (l.map g)).map (fun q => Val.atom (.num q)) := by
  rw [← List.map_map]; exact sumLoop_opt _ _

theorem passSelf_default (env : Pj.Env) :
    (passSelf env).get? "default_estimate" = some (.atom (.num env.defaultEst)) := rfl

theorem passSelf_start (env : Pj.Env) : (passSelf env).get? "start" = some (.atom (.time env.bound)) := by
  simp [passSelf, Env.get?]

section
variable (env : Pj.Env) (ms : Uid → Bool) (wfuel : Nat) (calR : Nat → Cal)
  (rec : List Atom → PState → Res (Val × PState)) (σ : SS) (t : Uid) (mp : Time) (ρ : PyLite.Env)

theorem iStart_ok (hρ : TailEnv ρ t mp (resRef (env.info t).resource) (env.info t).children.isEmpty) :
    StmtOK (passH env wfuel calR) (passSelf env) rec tailParts.iStart ρ env ms σ
      (fwdStart env (calR (resRef (env.info t).resource)) (usedBy env σ.rows (env.info t).resource t) t mp σ)
      t mp (resRef (env.info t).resource) (env.info t).children.isEmpty := by
  unfold StmtOK fwdStart
  cases hs : (σ.f t).start with
  | some s0 =>
    refine ⟨ρ, ?_, hρ⟩
    pylite_p [tailParts, fwdTail, src_Fwd_pass, encS, hρ.task, hs, optTime]
  | none =>
    cases hleaf : (env.info t).children.isEmpty with
    | true =>
      rw [hleaf] at hρ
      simp only [hleaf, if_true]
      cases hm : (env.info t).minStart <;>
      pylite_p [tailParts, fwdTail, src_Fwd_pass, encS, hρ.task, hρ.mp, hρ.res, hρ.leaf, hs, optTime, hm,
        passH_call_nearest, passH_clock, now, epoch, Except.map] <;>
      (rcases nearestFwd _ _ _ with e | s
       · simp
       · simp [setF, heapSet_start, upd_upd]
         tail_env hρ)
    | false =>
      rw [hleaf] at hρ
      have hc := evalP_comp_time (passH env wfuel calR) (passSelf env) ρ env ms σ.f (encS env ms σ) rfl "t" "start"
        (·.start) encTask_start (.attr (.var "_task") "children") (env.info t).children
        (evalP_task_attr _ _ _ _ _ _ t _ hρ.task (encTask_children _ _ _))
      simp only [hleaf, Bool.false_eq_true, if_false]
      simp only [encS] at hc
      rcases hcs : (env.info t).children.filterMap (fun c => (σ.f c).start) with _ | ⟨c, rest⟩ <;>
      rw [hcs] at hc <;>
      pylite_p [↓hc, tailParts, fwdTail, src_Fwd_pass, encS, hρ.task, hρ.mp, hρ.res, hρ.leaf, hs, optTime,
        pyEq_num, natCast_succ_ne_zero, foldList, foldLoop, foldLoop_min_times, setF, epoch] <;>
      tail_env hρ

/-- the two halves of `fillEst` -/
def estPart (env : Pj.Env) (t : Uid) (σ : SS) : Res SS :=
  match (σ.f t).est with
  | some _ => pure σ
  | none =>
    if (env.info t).children.isEmpty then pure (setF σ t (fun g => { g with est := some env.defaultEst }))
    else do
      let e ← sumOpt ((env.info t).children.map (fun c => (σ.f c).est))
      pure (setF σ t (fun g => { g with est := some e }))

def spentPart (env : Pj.Env) (t : Uid) (σ : SS) : Res SS :=
  match (σ.f t).spent with
  | some _ => pure σ
  | none =>
    if (env.info t).children.isEmpty then pure (setF σ t (fun g => { g with spent := some 0 }))
    else do
      let e ← sumOpt ((env.info t).children.map (fun c => (σ.f c).spent))
      pure (setF σ t (fun g => { g with spent := some e }))

theorem fillEst_eq (env : Pj.Env) (t : Uid) (σ : SS) : fillEst env t σ = estPart env t σ >>= spentPart env t := rfl

theorem iEst_ok (hρ : TailEnv ρ t mp (resRef (env.info t).resource) (env.info t).children.isEmpty) :
    StmtOK (passH env wfuel calR) (passSelf env) rec tailParts.iEst ρ env ms σ (estPart env t σ)
      t mp (resRef (env.info t).resource) (env.info t).children.isEmpty := by
  unfold StmtOK estPart
  cases hs : (σ.f t).est with
  | some s0 =>
    refine ⟨ρ, ?_, hρ⟩
    pylite_p [tailParts, fwdTail, src_Fwd_pass, encS, hρ.task, hs, optNum]
  | none =>
    cases hleaf : (env.info t).children.isEmpty with
    | true =>
      rw [hleaf] at hρ
      simp only [if_true]
      refine ⟨ρ, ?_, hρ⟩
      pylite_p [tailParts, fwdTail, src_Fwd_pass, encS, hρ.task, hρ.leaf, hs, optNum, passSelf_default, setF]
    | false =>
      rw [hleaf] at hρ
      have hc := evalP_comp_num (passH env wfuel calR) (passSelf env) ρ env ms σ.f (encS env ms σ) rfl "ch" "estimate"
        (·.est) encTask_estimate (.attr (.var "_task") "children") (env.info t).children
        (evalP_task_attr _ _ _ _ _ _ t _ hρ.task (encTask_children _ _ _))
      simp only [Bool.false_eq_true, if_false]
      simp only [encS] at hc
      unfold sumOpt
      pylite_p [↓hc, tailParts, fwdTail, src_Fwd_pass, encS, hρ.task, hρ.leaf, hs, optNum, sumLoop_opt', Except.map]
      rcases List.foldlM _ _ _ with e | q
      · simp
      · simp [setF, heapSet_estimate]
        exact hρ

theorem iSpent_ok (hρ : TailEnv ρ t mp (resRef (env.info t).resource) (env.info t).children.isEmpty) :
    StmtOK (passH env wfuel calR) (passSelf env) rec tailParts.iSpent ρ env ms σ (spentPart env t σ)
      t mp (resRef (env.info t).resource) (env.info t).children.isEmpty := by
  unfold StmtOK spentPart
  cases hs : (σ.f t).spent with
  | some s0 =>
    refine ⟨ρ, ?_, hρ⟩
    pylite_p [tailParts, fwdTail, src_Fwd_pass, encS, hρ.task, hs, optNum]
  | none =>
    cases hleaf : (env.info t).children.isEmpty with
    | true =>
      rw [hleaf] at hρ
      simp only [if_true]
      refine ⟨ρ, ?_, hρ⟩
      pylite_p [tailParts, fwdTail, src_Fwd_pass, encS, hρ.task, hρ.leaf, hs, optNum, setF]
    | false =>
      rw [hleaf] at hρ
      have hc := evalP_comp_num (passH env wfuel calR) (passSelf env) ρ env ms σ.f (encS env ms σ) rfl "ch" "spent"
        (·.spent) encTask_spent (.attr (.var "_task") "children") (env.info t).children
        (evalP_task_attr _ _ _ _ _ _ t _ hρ.task (encTask_children _ _ _))
      simp only [Bool.false_eq_true, if_false]
      simp only [encS] at hc
      unfold sumOpt
      pylite_p [↓hc, tailParts, fwdTail, src_Fwd_pass, encS, hρ.task, hρ.leaf, hs, optNum, sumLoop_opt', Except.map]
      rcases List.foldlM _ _ _ with e | q
      · simp
      · simp [setF, heapSet_spent]
        exact hρ

theorem iEnd_ok (hw : Extracted.fwdShiftMaxSteps < wfuel)
    (hρ : TailEnv ρ t mp (resRef (env.info t).resource) (env.info t).children.isEmpty)
    (h1 : (σ.f t).start.isSome) (h2 : (σ.f t).est.isSome) (h3 : (σ.f t).spent.isSome) :
    StmtOK (passH env wfuel calR) (passSelf env) rec tailParts.iEnd ρ env ms σ
      (fwdEnd env (calR (resRef (env.info t).resource)) (usedBy env σ.rows (env.info t).resource t) t σ)
      t mp (resRef (env.info t).resource) (env.info t).children.isEmpty := by
  unfold StmtOK fwdEnd
  cases hs : (σ.f t).end_ with
  | some s0 =>
    refine ⟨ρ, ?_, hρ⟩
    pylite_p [tailParts, fwdTail, src_Fwd_pass, encS, hρ.task, hs, optTime]
  | none =>
    obtain ⟨st, hst⟩ := Option.isSome_iff_exists.1 h1
    obtain ⟨es, hes⟩ := Option.isSome_iff_exists.1 h2
    obtain ⟨sp, hsp⟩ := Option.isSome_iff_exists.1 h3
    cases hleaf : (env.info t).children.isEmpty with
    | true =>
      rw [hleaf] at hρ
      simp only [hleaf, if_true]
      pylite_p [tailParts, fwdTail, src_Fwd_pass, encS, hρ.task, hρ.mp, hρ.res, hρ.leaf, hs, hst, hes, hsp, optTime, optNum,
        passH_call_shift _ _ hw, passH_clock, now, epoch, Except.map, leftOf, addRows]
      rcases shiftFwd _ _ _ _ with e | ⟨e, new⟩
      · simp
      · by_cases hlt : env.bound < env.clock (σ.reads + 1) <;>
        pylite_p [setF, hst, optTime, SchedSrc.mkRow, Nat.add_assoc, passSelf_start, hlt, hρ.task, hρ.mp, hρ.res,
          hρ.leaf, encS] <;>
        tail_env hρ
    | false =>
      rw [hleaf] at hρ
      have hc := evalP_comp_time (passH env wfuel calR) (passSelf env) ρ env ms σ.f (encS env ms σ) rfl "t" "end"
        (·.end_) encTask_end (.attr (.var "_task") "children") (env.info t).children
        (evalP_task_attr _ _ _ _ _ _ t _ hρ.task (encTask_children _ _ _))
      simp only [hleaf, Bool.false_eq_true, if_false]
      simp only [encS] at hc
      rcases hcs : (env.info t).children.filterMap (fun c => (σ.f c).end_) with _ | ⟨c, rest⟩ <;>
      rw [hcs] at hc <;>
      pylite_p [↓hc, tailParts, fwdTail, src_Fwd_pass, encS, hρ.task, hρ.mp, hρ.res, hρ.leaf, hs, optTime,
        foldList, foldLoop, foldLoop_max_times, setF, epoch] <;>
      tail_env hρ

theorem decide_nil {α : Type} (l : List α) : decide (l = []) = l.isEmpty := by
  cases l <;> simp

theorem encKey_pyEq (a b : Option Nat) : (encKey a).pyEq (encKey b) = (a == b) := by
  cases a <;> cases b <;> simp [encKey, Atom.pyEq, Atom.norm]
  rw [Bool.eq_iff_iff]; simp

theorem find_enc (k : Option Nat) :
    ((fun p : Atom × Nat => p.1.pyEq (encKey k)) ∘ fun p : Option Nat × Cal => (encKey p.1, resRef p.1)) =
      fun p => p.1 == k := by
  funext p
  simp [encKey_pyEq]

theorem g0_ok (h1 : ρ.get? "_task" = some (.atom (.ref t))) (h2 : ρ.get? "max_predecessor_ends" = some (.atom (.time mp))) :
    ∃ ρ', execBlockP (passH env wfuel calR) (passSelf env) rec tailParts.g0 ρ (encS env ms σ) =
        .normal ρ' (encS env ms { σ with res := (resLookup σ.res (env.info t).resource).1 }) ∧
      TailEnv ρ' t mp (resRef (env.info t).resource) (env.info t).children.isEmpty := by
  have hk : (encKey (env.info t).resource).isName = true := by cases (env.info t).resource <;> rfl
  have hn : (passH env wfuel calR).newResource (encKey (env.info t).resource) = .ok (resRef (env.info t).resource) := by
    cases (env.info t).resource <;> rfl
  unfold resLookup
  cases hf : σ.res.find? (fun p => p.1 == (env.info t).resource) with
  | some p =>
    have hp : p.1 = (env.info t).resource := by simpa using List.find?_some hf
    pylite_p [tailParts, fwdTail, src_Fwd_pass, encS, h1, h2, hk, hn, find_enc, hf, pyEq_num, natCast_eq_zero, hp]
    exact ⟨by simp [Env.get?_set, h1], by simp [Env.get?_set, h2], by simp [Env.get?_set],
      by simp [Env.get?_set, decide_nil]⟩
  | none =>
    pylite_p [tailParts, fwdTail, src_Fwd_pass, encS, h1, h2, hk, hn, find_enc, hf, pyEq_num, natCast_eq_zero]
    exact ⟨by simp [Env.get?_set, h1], by simp [Env.get?_set, h2], by simp [Env.get?_set],
      by simp [Env.get?_set, decide_nil]⟩

theorem msCond_ok (leaf : Bool) (r : Nat) (hρ : TailEnv ρ t mp r leaf) :
    (do let (v, st') ← tailParts.msCond.evalP (passH env wfuel calR) (passSelf env) ρ (encS env ms σ)
        pure ((← truthP v), st')) = .ok ((ms t && leaf), encS env ms σ) := by
  cases hm : ms t <;> cases leaf <;>
    pylite_p [tailParts, fwdTail, src_Fwd_pass, encS, hρ.task, hρ.leaf, hm]

theorem msThen_ok (leaf : Bool) (r : Nat) (hρ : TailEnv ρ t mp r leaf) :
    ∃ ρ', execBlockP (passH env wfuel calR) (passSelf env) rec tailParts.msThen ρ (encS env ms σ) =
        .normal ρ' (encS env ms (setF σ t (fun _ => { start := some mp, end_ := some mp, est := some 0, spent := some 0 }))) ∧
      TailEnv ρ' t mp r leaf := by
  pylite_p [tailParts, fwdTail, src_Fwd_pass, encS, hρ.task, hρ.mp, setF, upd_upd]
  tail_env hρ

theorem fin_ok (leaf : Bool) (r : Nat) (hρ : TailEnv ρ t mp r leaf) :
    tailParts.fin.execP (passH env wfuel calR) (passSelf env) rec ρ (encS env ms σ) =
      .normal ρ (encS env ms (markDone σ t)) := by
  pylite_p [tailParts, fwdTail, src_Fwd_pass, encS, hρ.task, markDone]
end
theorem execBlockP_append (H : PHandlers) (self : PyLite.Env) (rec : List Atom → PState → Res (Val × PState))
    (p q : List Stmt) (ρ : PyLite.Env) (st : PState) :
    execBlockP H self rec (p ++ q) ρ st =
      match execBlockP H self rec p ρ st with
      | .normal ρ' st' => execBlockP H self rec q ρ' st'
      | o => o := by
  induction p generalizing ρ st with
  | nil => simp [execBlockP]
  | cons s p ih =>
    simp only [List.cons_append, execBlockP]
    cases s.execP H self rec ρ st <;> simp [ih]

theorem execBlockP_cons (H : PHandlers) (self : PyLite.Env) (rec : List Atom → PState → Res (Val × PState))
    (s : Stmt) (ss : List Stmt) (ρ : PyLite.Env) (st : PState) :
    execBlockP H self rec (s :: ss) ρ st =
      match s.execP H self rec ρ st with
      | .normal ρ' st' => execBlockP H self rec ss ρ' st'
      | o => o := by
  simp only [execBlockP]
  cases s.execP H self rec ρ st <;> rfl

theorem execBlockP_nil (H : PHandlers) (self : PyLite.Env) (rec : List Atom → PState → Res (Val × PState))
    (ρ : PyLite.Env) (st : PState) : execBlockP H self rec [] ρ st = .normal ρ st := by
  simp [execBlockP]

/-! facts about the model's stages -/

theorem fwdStart_some (env : Pj.Env) (cal : Cal) (used : Int → Rat) (t : Uid) (m : Time) (σ σ' : SS)
    (h : fwdStart env cal used t m σ = .ok σ') : (σ'.f t).start.isSome := by
  unfold fwdStart at h
  cases hs : (σ.f t).start with
  | some s => simp [hs, pure, Except.pure] at h; subst h; simp [hs]
  | none =>
    simp only [hs] at h
    split at h
    · simp only [bind, Except.bind] at h
      split at h
      · cases h
      · cases h; simp [setF]
    · split at h <;> (cases h; simp [setF])

theorem estPart_spec (env : Pj.Env) (t : Uid) (σ σ' : SS) (h : estPart env t σ = .ok σ') :
    (σ'.f t).est.isSome ∧ (σ'.f t).start = (σ.f t).start ∧ (σ'.f t).spent = (σ.f t).spent ∧ σ'.rows = σ.rows ∧
      σ'.res = σ.res := by
  unfold estPart at h
  cases hs : (σ.f t).est with
  | some s => simp [hs, pure, Except.pure] at h; subst h; simp [hs]
  | none =>
    simp only [hs] at h
    split at h
    · cases h; simp [setF]
    · simp only [bind, Except.bind] at h
      split at h
      · cases h
      · cases h; simp [setF]

theorem spentPart_spec (env : Pj.Env) (t : Uid) (σ σ' : SS) (h : spentPart env t σ = .ok σ') :
    (σ'.f t).spent.isSome ∧ (σ'.f t).start = (σ.f t).start ∧ (σ'.f t).est = (σ.f t).est ∧ σ'.rows = σ.rows ∧
      σ'.res = σ.res := by
  unfold spentPart at h
  cases hs : (σ.f t).spent with
  | some s => simp [hs, pure, Except.pure] at h; subst h; simp [hs]
  | none =>
    simp only [hs] at h
    split at h
    · cases h; simp [setF]
    · simp only [bind, Except.bind] at h
      split at h
      · cases h
      · cases h; simp [setF]

theorem fwdStart_rows (env : Pj.Env) (cal : Cal) (used : Int → Rat) (t : Uid) (m : Time) (σ σ' : SS)
    (h : fwdStart env cal used t m σ = .ok σ') : σ'.rows = σ.rows := by
  have := (fwdStart_stage env cal used t m σ σ' h).rows
  simpa using this

section
variable (env : Pj.Env) (ms : Uid → Bool) (wfuel : Nat) (calR : Nat → Cal)
  (rec : List Atom → PState → Res (Val × PState)) (σ : SS) (t : Uid) (mp : Time) (ρ : PyLite.Env)

/-- the four `if … is None` statements of the non-milestone branch -/
theorem msElse_ok (hw : Extracted.fwdShiftMaxSteps < wfuel)
    (hρ : TailEnv ρ t mp (resRef (env.info t).resource) (env.info t).children.isEmpty) :
    match (do
      let σ1 ← fwdStart env (calR (resRef (env.info t).resource)) (usedBy env σ.rows (env.info t).resource t) t mp σ
      let σ2 ← fillEst env t σ1
      fwdEnd env (calR (resRef (env.info t).resource)) (usedBy env σ.rows (env.info t).resource t) t σ2) with
    | .ok σ' => ∃ ρ', execBlockP (passH env wfuel calR) (passSelf env) rec
          [tailParts.iStart, tailParts.iEst, tailParts.iSpent, tailParts.iEnd] ρ (encS env ms σ) =
          .normal ρ' (encS env ms σ') ∧ TailEnv ρ' t mp (resRef (env.info t).resource) (env.info t).children.isEmpty
    | .error e => execBlockP (passH env wfuel calR) (passSelf env) rec
          [tailParts.iStart, tailParts.iEst, tailParts.iSpent, tailParts.iEnd] ρ (encS env ms σ) = .raise e := by
  have h1 := iStart_ok env ms wfuel calR rec σ t mp ρ hρ
  simp only [bind, Except.bind, fillEst_eq]
  rcases hs1 : fwdStart env (calR (resRef (env.info t).resource)) (usedBy env σ.rows (env.info t).resource t) t mp σ
    with e | σ1
  · simp only [StmtOK, hs1] at h1; simp [execBlockP_cons, h1]
  simp only [StmtOK, hs1] at h1
  obtain ⟨ρ1, hx1, hρ1⟩ := h1
  have h2 := iEst_ok env ms wfuel calR rec σ1 t mp ρ1 hρ1
  rcases hs2 : estPart env t σ1 with e | σ2
  · simp only [StmtOK, hs2] at h2; simp [execBlockP_cons, hx1, h2, hs2]
  simp only [StmtOK, hs2] at h2
  obtain ⟨ρ2, hx2, hρ2⟩ := h2
  have h3 := iSpent_ok env ms wfuel calR rec σ2 t mp ρ2 hρ2
  rcases hs3 : spentPart env t σ2 with e | σ3
  · simp only [StmtOK, hs3] at h3; simp [execBlockP_cons, hx1, hx2, h3, hs2, hs3]
  simp only [StmtOK, hs3] at h3
  obtain ⟨ρ3, hx3, hρ3⟩ := h3
  have e2 := estPart_spec env t σ1 σ2 hs2
  have e3 := spentPart_spec env t σ2 σ3 hs3
  have hrows : σ3.rows = σ.rows := by rw [e3.2.2.2.1, e2.2.2.2.1, fwdStart_rows _ _ _ _ _ _ _ hs1]
  have h4 := iEnd_ok env ms wfuel calR rec σ3 t mp ρ3 hw hρ3
    (by rw [e3.2.1, e2.2.1]; exact fwdStart_some _ _ _ _ _ _ _ hs1) (by rw [e3.2.2.1]; exact e2.1) e3.1
  rw [hrows] at h4
  rcases hs4 : fwdEnd env (calR (resRef (env.info t).resource)) (usedBy env σ.rows (env.info t).resource t) t σ3
    with e | σ4
  · simp only [StmtOK, hs4] at h4; simp [hs2, hs3, hs4, execBlockP_cons, hx1, hx2, hx3, h4]
  simp only [StmtOK, hs4] at h4
  obtain ⟨ρ4, hx4, hρ4⟩ := h4
  simp only [hs2, hs3, hs4]
  exact ⟨ρ4, by simp [execBlockP_cons, execBlockP_nil, hx1, hx2, hx3, hx4], hρ4⟩


/-- STAGE 2.  The statements of `__forward_pass` after the two recursion loops (from `resource = …setdefault…` to
    `calculated.append(id(_task))`), run on the encoding of a model state, do exactly what `fwdPlace` does. -/
theorem fwdTail_eq (hms : ∀ u, (env.info u).milestone = (ms u && (env.info u).children.isEmpty))
    (hw : Extracted.fwdShiftMaxSteps < wfuel)
    (hcal : calR (resRef (env.info t).resource) = (resLookup σ.res (env.info t).resource).2)
    (h1 : ρ.get? "_task" = some (.atom (.ref t))) (h2 : ρ.get? "max_predecessor_ends" = some (.atom (.time mp))) :
    match fwdPlace env σ t mp with
    | .ok σ' => ∃ ρ', execBlockP (passH env wfuel calR) (passSelf env) rec fwdTail ρ (encS env ms σ) =
        .normal ρ' (encS env ms σ')
    | .error e => execBlockP (passH env wfuel calR) (passSelf env) rec fwdTail ρ (encS env ms σ) = .raise e := by
  obtain ⟨ρ0, hx0, hρ0⟩ := g0_ok env ms wfuel calR rec σ t mp ρ h1 h2
  have hc := msCond_ok env ms wfuel calR { σ with res := (resLookup σ.res (env.info t).resource).1 } t mp ρ0 _ _ hρ0
  rw [fwdTail_shape, execBlockP_append, hx0]
  simp only [execBlockP_cons, execBlockP_nil]
  simp only [Stmt.execP, hc]
  unfold fwdPlace
  simp only [hms t]
  cases hm : (ms t && (env.info t).children.isEmpty) with
  | true =>
    obtain ⟨ρ1, hx1, hρ1⟩ := msThen_ok env ms wfuel calR rec
      { σ with res := (resLookup σ.res (env.info t).resource).1 } t mp ρ0 _ _ hρ0
    simp only [if_true, hx1, fin_ok env ms wfuel calR rec _ t mp ρ1 _ _ hρ1, pure, Except.pure]
    exact ⟨_, rfl⟩
  | false =>
    have he := msElse_ok env ms wfuel calR rec { σ with res := (resLookup σ.res (env.info t).resource).1 } t mp ρ0 hw hρ0
    simp only [Bool.false_eq_true, if_false, ← hcal, bind, Except.bind] at he ⊢
    rcases hs1 : fwdStart env (calR (resRef (env.info t).resource)) (usedBy env σ.rows (env.info t).resource t) t mp
        { σ with res := (resLookup σ.res (env.info t).resource).1 } with e | σ1
    · simp only [hs1] at he ⊢; simp [he]
    simp only [hs1] at he ⊢
    rcases hs2 : fillEst env t σ1 with e | σ2
    · simp only [hs2] at he ⊢; simp [he]
    simp only [hs2] at he ⊢
    rcases hs3 : fwdEnd env (calR (resRef (env.info t).resource)) (usedBy env σ.rows (env.info t).resource t) t σ2
      with e | σ3
    · simp only [hs3] at he ⊢; simp [he]
    simp only [hs3] at he ⊢
    obtain ⟨ρ1, hx1, hρ1⟩ := he
    simp only [hx1, fin_ok env ms wfuel calR rec _ t mp ρ1 _ _ hρ1, pure, Except.pure]
    exact ⟨_, rfl⟩
end
/-! ### stage 3: the recursion -/

theorem maxT_comm (a b : Time) : maxT a b = maxT b a := by unfold maxT; grind
theorem maxT_assoc (a b c : Time) : maxT (maxT a b) c = maxT a (maxT b c) := by unfold maxT; grind

theorem foldl_maxT_swap (es : List Time) (e m : Time) : maxT (es.foldl maxT e) m = es.foldl maxT (maxT m e) := by
  induction es generalizing e with
  | nil => exact maxT_comm _ _
  | cons x xs ih => simp only [List.foldl_cons, ih, maxT_assoc]

/-- Python's `max(ends + [m])` is the model's fold that starts from `m` -/
theorem max_append_single (ends : List Time) (m : Time) :
    foldList pyMax (.list ((ends ++ [m]).map Atom.time)) = .ok (.atom (.time (ends.foldl maxT m))) := by
  rw [foldList_max_times]
  cases ends with
  | nil => rfl
  | cons e es =>
    simp only [List.cons_append, List.foldl_append, List.foldl_cons, List.foldl_nil, foldl_maxT_swap]

/-- a `for x in <tasks>:` loop whose body does one step of the model's `passList` -/
theorem forLoopP_passList (H : PHandlers) (self : PyLite.Env) (rec : List Atom → PState → Res (Val × PState))
    (env : Pj.Env) (ms : Uid → Bool) (x : String) (body : List Stmt) (step : SS → Uid → Res SS)
    (P : PyLite.Env → Prop) (Inv : SS → Prop)
    (hP : ∀ ρ v, P ρ → P (ρ.set x v))
    (hInv : ∀ σ u σ', Inv σ → step σ u = .ok σ' → Inv σ')
    (hbody : ∀ ρ σ u, P ρ → Inv σ → step σ u ≠ .error (.crash .recursion) →
      execBlockP H self rec body (ρ.set x (.atom (.ref u))) (encS env ms σ) =
        match step σ u with
        | .ok σ' => .normal (ρ.set x (.atom (.ref u))) (encS env ms σ')
        | .error e => .raise e) :
    ∀ (l : List Uid) (ρ : PyLite.Env) (σ : SS), P ρ → Inv σ → passList step σ l ≠ .error (.crash .recursion) →
      match passList step σ l with
      | .ok σ' => ∃ ρ', forLoopP x (fun ρ st => execBlockP H self rec body ρ st) (l.map Atom.ref) ρ (encS env ms σ) =
          .normal ρ' (encS env ms σ') ∧ P ρ' ∧ Inv σ'
      | .error e => forLoopP x (fun ρ st => execBlockP H self rec body ρ st) (l.map Atom.ref) ρ (encS env ms σ) =
          .raise e := by
  intro l
  induction l with
  | nil => intro ρ σ hp hi _; exact ⟨ρ, rfl, hp, hi⟩
  | cons u l ih =>
    intro ρ σ hp hi hne
    simp only [passList, bind, Except.bind, List.map_cons, forLoopP] at hne ⊢
    rcases hs : step σ u with e | σ1
    · rw [hs] at hne
      have hb := hbody ρ σ u hp hi (by rw [hs]; exact hne)
      rw [hs] at hb
      simp only [hb]
    · rw [hs] at hne
      have hb := hbody ρ σ u hp hi (by rw [hs]; exact fun h => by cases h)
      rw [hs] at hb
      simp only [hb]
      exact ih _ σ1 (hP _ _ hp) (hInv _ _ _ hi hs) hne

structure HeadParts where
  s0 : Stmt
  x1 : String
  it1 : Expr
  body1 : List Stmt
  s2 : Stmt
  x3 : String
  it3 : Expr
  body3 : List Stmt

def headParts : HeadParts :=
  match fwdHead with
  | [a, .forIn x1 it1 b1, c, .forIn x3 it3 b3] => ⟨a, x1, it1, b1, c, x3, it3, b3⟩
  | _ => ⟨.pass, "", .none, [], .pass, "", .none, []⟩

theorem src_Fwd_pass_shape : src_Fwd_pass =
    [headParts.s0, .forIn headParts.x1 headParts.it1 headParts.body1, headParts.s2,
     .forIn headParts.x3 headParts.it3 headParts.body3] ++ fwdTail := rfl

section
variable (env : Pj.Env) (ms : Uid → Bool) (wfuel : Nat) (calR : Nat → Cal)
  (rec : List Atom → PState → Res (Val × PState)) (σ : SS) (t : Uid) (m : Time) (ρ : PyLite.Env)

theorem s0_ok (h : ρ.get? "_task" = some (.atom (.ref t))) :
    headParts.s0.execP (passH env wfuel calR) (passSelf env) rec ρ (encS env ms σ) =
      if σ.done.contains t then .ret (.atom .none) (encS env ms σ) else .normal ρ (encS env ms σ) := by
  by_cases hd : σ.done.contains t <;>
    pylite_p [headParts, fwdHead, src_Fwd_pass, encS, h, hd]

theorem it1_ok (h : ρ.get? "_task" = some (.atom (.ref t))) :
    (do let (v, st') ← headParts.it1.evalP (passH env wfuel calR) (passSelf env) ρ (encS env ms σ)
        pure ((← iterOf v), st')) = .ok ((env.info t).preds.map Atom.ref, encS env ms σ) := by
  pylite_p [headParts, fwdHead, src_Fwd_pass, encS, h]

theorem it3_ok (h : ρ.get? "_task" = some (.atom (.ref t))) :
    (do let (v, st') ← headParts.it3.evalP (passH env wfuel calR) (passSelf env) ρ (encS env ms σ)
        pure ((← iterOf v), st')) = .ok ((env.info t).children.map Atom.ref, encS env ms σ) := by
  pylite_p [headParts, fwdHead, src_Fwd_pass, encS, h]

theorem body1_ok (h1 : ρ.get? "_task" = some (.atom (.ref t))) (h2 : ρ.get? "min_date" = some (.atom (.time m)))
    (u : Uid) (R : Res SS)
    (hrec : (env.info u).member = (env.info t).member →
      rec [.ref u, .time m] (encS env ms σ) = R.map (fun σ' => (Val.atom .none, encS env ms σ'))) :
    execBlockP (passH env wfuel calR) (passSelf env) rec headParts.body1 (ρ.set headParts.x1 (.atom (.ref u)))
        (encS env ms σ) =
      match (if (env.info u).member == (env.info t).member then R else pure σ) with
      | .ok σ' => .normal (ρ.set headParts.x1 (.atom (.ref u))) (encS env ms σ')
      | .error e => .raise e := by
  by_cases hm : (env.info u).member = (env.info t).member
  · have hr := hrec hm
    simp only [encS] at hr
    cases h3 : (env.info u).member <;> rw [h3] at hm <;> rcases R with e | σ' <;>
      pylite_p [headParts, fwdHead, src_Fwd_pass, encS, h1, h2, ← hm, h3, encWbs, hr, Except.map]
  · cases h3 : (env.info u).member <;> cases h4 : (env.info t).member <;> simp only [h3, h4] at hm <;>
      first
      | exact absurd trivial hm
      | pylite_p [headParts, fwdHead, src_Fwd_pass, encS, h1, h2, h3, h4, encWbs]

theorem body3_ok
    (h2 : ρ.get? "max_predecessor_ends" = some (.atom (.time m)))
    (u : Uid) (R : Res SS)
    (hrec : rec [.ref u, .time m] (encS env ms σ) = R.map (fun σ' => (Val.atom .none, encS env ms σ'))) :
    execBlockP (passH env wfuel calR) (passSelf env) rec headParts.body3 (ρ.set headParts.x3 (.atom (.ref u)))
        (encS env ms σ) =
      match (generalizing := false) R with
      | .ok σ' => .normal (ρ.set headParts.x3 (.atom (.ref u))) (encS env ms σ')
      | .error e => .raise e := by
  simp only [encS] at hrec
  rcases R with e | σ' <;>
    pylite_p [headParts, fwdHead, src_Fwd_pass, encS, h2, hrec, Except.map]

theorem s2_ok (h1 : ρ.get? "_task" = some (.atom (.ref t))) (h2 : ρ.get? "min_date" = some (.atom (.time m))) :
    headParts.s2.execP (passH env wfuel calR) (passSelf env) rec ρ (encS env ms σ) =
      .normal (ρ.set "max_predecessor_ends" (.atom (.time (maxEnds σ (env.info t).preds m)))) (encS env ms σ) := by
  have hc := evalP_comp_time (passH env wfuel calR) (passSelf env) ρ env ms σ.f (encS env ms σ) rfl "t" "end"
    (·.end_) encTask_end (.attr (.var "_task") "predecessors") (env.info t).preds
    (evalP_task_attr _ _ _ _ _ _ t _ h1 (encTask_preds _ _ _))
  simp only [encS] at hc
  have hmx := max_append_single ((env.info t).preds.filterMap (fun c => (σ.f c).end_)) m
  simp only [List.map_append, List.map_cons, List.map_nil] at hmx
  pylite_p [↓hc, headParts, fwdHead, src_Fwd_pass, encS, h1, h2, hmx, maxEnds]

end
/-! the resource table along the model's run -/

theorem calOf_resLookup (res : List (Option Nat × Cal)) (k k' : Option Nat) :
    calOf (resLookup res k).1 k' = calOf res k' := by
  unfold resLookup
  cases hf : res.find? (fun p => p.1 == k) with
  | some p => rfl
  | none =>
    simp only [calOf, List.find?_append]
    cases hf' : res.find? (fun p => p.1 == k') with
    | some q => rfl
    | none =>
      simp only [Option.none_or, List.find?_cons, List.find?_nil]
      by_cases hk : k = k'
      · subst hk; simp
      · have : (k == k') = false := by simpa using hk
        simp [this]

theorem resLookup_snd (res : List (Option Nat × Cal)) (k : Option Nat) : (resLookup res k).2 = calOf res k := by
  rw [← (resLookup_spec res k).2.1, calOf_resLookup]

theorem fwdPlace_res (env : Pj.Env) (σ σ' : SS) (t : Uid) (m : Time) (h : fwdPlace env σ t m = .ok σ') :
    σ'.res = (resLookup σ.res (env.info t).resource).1 := by
  obtain ⟨new, σm, hst, rfl, _⟩ := fwdPlace_stage env σ σ' t m h
  simp [markDone, hst.res]

theorem fwdPass_calOf (env : Pj.Env) (res0 : List (Option Nat × Cal)) (fuel : Nat) (stk : List Uid) (σ σ' : SS)
    (t : Uid) (m : Time) (hi : ∀ k, calOf σ.res k = calOf res0 k) (h : fwdPass env fuel stk σ t m = .ok σ') :
    ∀ k, calOf σ'.res k = calOf res0 k :=
  fwdPass_inv env (fun σ => ∀ k, calOf σ.res k = calOf res0 k) (fun _ => True)
    (fun σ σ' t v _ hi _ _ h k => by rw [fwdPlace_res env σ σ' t v h, calOf_resLookup]; exact hi k)
    (fun _ _ _ _ => trivial) (fun _ _ _ _ _ => trivial) fuel stk σ t m σ' trivial hi h


theorem calRef_resRef (res0 : List (Option Nat × Cal)) (k : Option Nat) : calRef res0 (resRef k) = calOf res0 k := by
  simp [calRef, keyOfRef_resRef]

theorem fwdPass_zero (env : Pj.Env) (stk : List Uid) (σ : SS) (t : Uid) (m : Time) :
    fwdPass env 0 stk σ t m = .error (.crash .recursion) := rfl

def stepPred (env : Pj.Env) (fuel : Nat) (stk : List Uid) (t : Uid) (m : Time) : SS → Uid → Res SS :=
  fun σ p => if (env.info p).member == (env.info t).member then fwdPass env fuel (t :: stk) σ p m else pure σ

def stepCh (env : Pj.Env) (fuel : Nat) (stk : List Uid) (t : Uid) (mp : Time) : SS → Uid → Res SS :=
  fun σ c => fwdPass env fuel (t :: stk) σ c mp

theorem fwdPass_succ (env : Pj.Env) (fuel : Nat) (stk : List Uid) (σ : SS) (t : Uid) (m : Time) :
    fwdPass env (fuel + 1) stk σ t m =
      (if σ.done.contains t then pure σ
      else if stk.contains t then throw (.crash .recursion)
      else do
        let σ1 ← passList (stepPred env fuel stk t m) σ (env.info t).preds
        let σ2 ← passList (stepCh env fuel stk t (maxEnds σ1 (env.info t).preds m)) σ1 (env.info t).children
        fwdPlace env σ2 t (maxEnds σ1 (env.info t).preds m)) := rfl

section
variable (env : Pj.Env) (ms : Uid → Bool) (wfuel : Nat)

/-- STAGE 3 (in terms of `callP`) -/
theorem callP_fwdPass (hms : ∀ u, (env.info u).milestone = (ms u && (env.info u).children.isEmpty))
    (hw : Extracted.fwdShiftMaxSteps < wfuel) (res0 : List (Option Nat × Cal)) :
    ∀ (fuel fuel' : Nat), fuel ≤ fuel' → ∀ (stk : List Uid) (σ : SS) (t : Uid) (m : Time),
      (∀ k, calOf σ.res k = calOf res0 k) →
      fwdPass env fuel stk σ t m ≠ .error (.crash .recursion) →
      callP (passH env wfuel (calRef res0)) (passSelf env) src_Fwd_pass_params src_Fwd_pass fuel'
          [.ref t, .time m] (encS env ms σ) =
        (fwdPass env fuel stk σ t m).map (fun σ' => (Val.atom .none, encS env ms σ')) := by
  intro fuel
  induction fuel with
  | zero => intro fuel' _ stk σ t m _ hne; exact absurd (fwdPass_zero env stk σ t m) hne
  | succ fuel ih =>
    intro fuel' hle stk σ t m hinv hne
    obtain ⟨f', rfl⟩ : ∃ f', fuel' = f' + 1 := ⟨fuel' - 1, by omega⟩
    have hf : fuel ≤ f' := by omega
    rw [fwdPass_succ] at hne ⊢
    have hρ1 : Env.get? [("_task", Val.atom (.ref t)), ("min_date", Val.atom (.time m))] "_task" = some (.atom (.ref t)) := rfl
    have hρ2 : Env.get? [("_task", Val.atom (.ref t)), ("min_date", Val.atom (.time m))] "min_date" = some (.atom (.time m)) := rfl
    have hrec := ih f' hf
    simp only [callP, src_Fwd_pass_params, bindParams, pure, Except.pure, bind, Except.bind] at hrec ⊢
    generalize callP (passH env wfuel (calRef res0)) (passSelf env) ["_task", "min_date"] src_Fwd_pass f' = rec at hrec ⊢
    generalize hρ : [("_task", Val.atom (.ref t)), ("min_date", Val.atom (.time m))] = ρ0 at hρ1 hρ2 ⊢
    rw [src_Fwd_pass_shape, execBlockP_append, execBlockP_cons, s0_ok _ _ _ _ _ _ _ _ hρ1]
    simp only [List.contains_iff_mem, Except.map, pure, Except.pure, bind, Except.bind, throw, throwThe,
      MonadExceptOf.throw] at hne ⊢
    by_cases hd : t ∈ σ.done
    · simp [hd]
    simp only [hd, if_false] at hne ⊢
    by_cases hs : t ∈ stk
    · simp [hs] at hne
    simp only [hs, if_false] at hne ⊢
    -- the loop over the predecessors
    have hx1a : headParts.x1 ≠ "_task" := by decide
    have hx1b : headParts.x1 ≠ "min_date" := by decide
    have L1 := forLoopP_passList (passH env wfuel (calRef res0)) (passSelf env) rec env ms headParts.x1 headParts.body1
      (stepPred env fuel stk t m)
      (fun ρ => ρ.get? "_task" = some (.atom (.ref t)) ∧ ρ.get? "min_date" = some (.atom (.time m)))
      (fun σ => ∀ k, calOf σ.res k = calOf res0 k)
      (fun ρ v h => ⟨by rw [Env.get?_set, if_neg hx1a]; exact h.1, by rw [Env.get?_set, if_neg hx1b]; exact h.2⟩)
      (fun σ u σ' hi h => by
        unfold stepPred at h
        split at h
        · exact fwdPass_calOf env res0 fuel _ σ σ' u m hi h
        · cases h; exact hi)
      (fun ρ σ u hp hi hn => by
        have := body1_ok env ms wfuel (calRef res0) rec σ t m ρ hp.1 hp.2 u (fwdPass env fuel (t :: stk) σ u m)
          (fun hm => hrec (t :: stk) σ u m hi (by simpa [stepPred, hm] using hn))
        simpa [stepPred, pure, Except.pure] using this)
      (env.info t).preds ρ0 σ ⟨hρ1, hρ2⟩ hinv
    rw [execBlockP_cons]
    simp only [Stmt.execP, it1_ok env ms wfuel (calRef res0) σ t ρ0 hρ1]
    rcases h1 : passList (stepPred env fuel stk t m) σ (env.info t).preds with e | σ1
    · simp only [h1] at hne L1 ⊢
      simp [L1 (by simpa using hne)]
    simp only [h1] at hne L1 ⊢
    obtain ⟨ρ1, hx1, ⟨hρ1a, hρ1b⟩, hinv1⟩ := L1 (fun h => by cases h)
    simp only [hx1]
    -- max_predecessor_ends
    rw [execBlockP_cons, s2_ok env ms wfuel (calRef res0) rec σ1 t m ρ1 hρ1a hρ1b]
    simp only []
    generalize hmp : maxEnds σ1 (env.info t).preds m = mp at hne ⊢
    -- the loop over the children
    have hx3a : headParts.x3 ≠ "_task" := by decide
    have hx3b : headParts.x3 ≠ "max_predecessor_ends" := by decide
    have hρ2a : (Env.set ρ1 "max_predecessor_ends" (.atom (.time mp))).get? "_task" = some (.atom (.ref t)) := by
      rw [Env.get?_set, if_neg (by decide)]; exact hρ1a
    have hρ2b : (Env.set ρ1 "max_predecessor_ends" (.atom (.time mp))).get? "max_predecessor_ends" =
        some (.atom (.time mp)) := by
      rw [Env.get?_set, if_pos rfl]
    have L3 := forLoopP_passList (passH env wfuel (calRef res0)) (passSelf env) rec env ms headParts.x3 headParts.body3
      (stepCh env fuel stk t mp)
      (fun ρ => ρ.get? "_task" = some (.atom (.ref t)) ∧ ρ.get? "max_predecessor_ends" = some (.atom (.time mp)))
      (fun σ => ∀ k, calOf σ.res k = calOf res0 k)
      (fun ρ v h => ⟨by rw [Env.get?_set, if_neg hx3a]; exact h.1, by rw [Env.get?_set, if_neg hx3b]; exact h.2⟩)
      (fun σ u σ' hi h => fwdPass_calOf env res0 fuel _ σ σ' u mp hi h)
      (fun ρ σ u hp hi hn =>
        body3_ok env ms wfuel (calRef res0) rec σ mp ρ hp.2 u (fwdPass env fuel (t :: stk) σ u mp)
          (hrec (t :: stk) σ u mp hi hn))
      (env.info t).children _ σ1 ⟨hρ2a, hρ2b⟩ hinv1
    rw [execBlockP_cons]
    simp only [Stmt.execP, it3_ok env ms wfuel (calRef res0) σ1 t _ hρ2a]
    rcases h3 : passList (stepCh env fuel stk t mp) σ1 (env.info t).children with e | σ2
    · simp only [h3] at hne L3 ⊢
      simp [L3 (by simpa using hne)]
    simp only [h3] at hne L3 ⊢
    obtain ⟨ρ3, hx3, ⟨hρ3a, hρ3b⟩, hinv3⟩ := L3 (fun h => by cases h)
    simp only [hx3, execBlockP_nil]
    -- the placement
    have hT := fwdTail_eq env ms wfuel (calRef res0) rec σ2 t mp ρ3 hms hw
      (by rw [calRef_resRef, resLookup_snd, hinv3]) hρ3a hρ3b
    rcases h4 : fwdPlace env σ2 t mp with e | σ3
    · simp only [h4] at hT ⊢; simp [hT]
    · simp only [h4] at hT ⊢
      obtain ⟨ρ4, hx4⟩ := hT
      simp [hx4]

/-- STAGE 3.  Interpreting the translated `__forward_pass` on the encoding of a model state computes the encoding of
    the model's `fwdPass`, PROVIDED the model's run does not end in RecursionError (`.crash .recursion`: the fuel
    of the model runs out, or the model meets a task that is in progress - `stk.contains t`, a check Python does
    not have: there the recursion goes on until the recursion limit, which the fuel of the interpreter plays).
    The interpreter may have more fuel than the model.  `stk` is arbitrary. -/
theorem interpFwdPass_eq (hms : ∀ u, (env.info u).milestone = (ms u && (env.info u).children.isEmpty))
    (hw : Extracted.fwdShiftMaxSteps < wfuel) (fuel fuel' : Nat) (hle : fuel ≤ fuel') (stk : List Uid) (σ : SS)
    (t : Uid) (minDate : Time) (hne : fwdPass env fuel stk σ t minDate ≠ .error (.crash .recursion)) :
    interpFwdPass env wfuel (calRef σ.res) fuel' (encS env ms σ) t minDate =
      (fwdPass env fuel stk σ t minDate).map (encS env ms) := by
  unfold interpFwdPass
  rw [callP_fwdPass env ms wfuel hms hw σ.res fuel fuel' hle stk σ t minDate (fun _ => rfl) hne]
  cases fwdPass env fuel stk σ t minDate <;> rfl

/-- the same inside a run that started from the resource table `res0` (`calOf σ.res = calOf res0`: the table only
    grows by default resources) -/
theorem interpFwdPass_eq' (hms : ∀ u, (env.info u).milestone = (ms u && (env.info u).children.isEmpty))
    (hw : Extracted.fwdShiftMaxSteps < wfuel) (res0 : List (Option Nat × Cal)) (fuel fuel' : Nat) (hle : fuel ≤ fuel')
    (stk : List Uid) (σ : SS) (t : Uid) (minDate : Time) (hres : ∀ k, calOf σ.res k = calOf res0 k)
    (hne : fwdPass env fuel stk σ t minDate ≠ .error (.crash .recursion)) :
    interpFwdPass env wfuel (calRef res0) fuel' (encS env ms σ) t minDate =
      (fwdPass env fuel stk σ t minDate).map (encS env ms) := by
  unfold interpFwdPass
  rw [callP_fwdPass env ms wfuel hms hw res0 fuel fuel' hle stk σ t minDate hres hne]
  cases fwdPass env fuel stk σ t minDate <;> rfl

/-- in particular a successful run of the model is reproduced by the translated source -/
theorem interpFwdPass_ok (hms : ∀ u, (env.info u).milestone = (ms u && (env.info u).children.isEmpty))
    (hw : Extracted.fwdShiftMaxSteps < wfuel) (fuel : Nat) (σ σ' : SS) (t : Uid) (minDate : Time)
    (h : fwdPass env fuel [] σ t minDate = .ok σ') :
    interpFwdPass env wfuel (calRef σ.res) fuel (encS env ms σ) t minDate = .ok (encS env ms σ') := by
  rw [interpFwdPass_eq env ms wfuel hms hw fuel fuel (Nat.le_refl _) [] σ t minDate (by rw [h]; exact fun h => by cases h), h]
  rfl

end

/-- reading back an encoded state (`calR` must know the calendars of the table) -/
theorem decS_encS (env : Pj.Env) (ms : Uid → Bool) (calR : Nat → Cal) (σ : SS)
    (hc : ∀ p ∈ σ.res, calR (resRef p.1) = p.2) : decS calR (encS env ms σ) = σ := by
  have hf : (fun u => decFields ((encS env ms σ).heap u)) = σ.f := by
    funext u
    have e1 : decTime (some (optTime (σ.f u).start)) = (σ.f u).start := by cases (σ.f u).start <;> rfl
    have e2 : decTime (some (optTime (σ.f u).end_)) = (σ.f u).end_ := by cases (σ.f u).end_ <;> rfl
    have e3 : decNum (some (optNum (σ.f u).est)) = (σ.f u).est := by cases (σ.f u).est <;> rfl
    have e4 : decNum (some (optNum (σ.f u).spent)) = (σ.f u).spent := by cases (σ.f u).spent <;> rfl
    simp only [decFields, encS, encHeap_apply, encTask_start, encTask_end, encTask_estimate, encTask_spent, e1, e2, e3, e4]
  have hr : (encS env ms σ).L.map decRow = σ.rows := by
    simp only [encS, List.map_map]
    conv => rhs; rw [← List.map_id σ.rows]
    congr 1
    funext x
    simp [decRow, encRow, keyOfRef_resRef, dayOf_intCast]
  have hres : (encS env ms σ).res.map (fun p => (keyOfRef p.2, calR p.2)) = σ.res := by
    simp only [encS, List.map_map]
    conv => rhs; rw [← List.map_id σ.res]
    apply List.map_congr_left
    intro p hp
    simp [keyOfRef_resRef, hc p hp]
  cases σ
  simp only [decS] at hf hr hres ⊢
  simp only [hf, hr, hres]
  rfl


/-! ### stage 1: concrete runs (kernel-checked)

  `agree env ms n fuel σ t minDate`: interpreting the translated method on the encoding of `σ` and reading the
  result back (`decS`) gives what the model's `fwdPass env fuel [] σ t minDate` gives, observed on the tasks
  `0 … n-1`, the ledger, `calculated`, the resource table and the clock counter (`view`); errors must coincide. -/
namespace Check

def ti (children preds : List Uid) (member : Bool := true) (resource : Option Nat := some 0) (milestone : Bool := false)
    (minStart : Option Time := none) : TaskInfo :=
  { tid := 0, parent := none, children := children, preds := preds, succs := [], member := member,
    resource := resource, milestone := milestone, minStart := minStart }
def nof : Fields := { start := none, end_ := none, est := none, spent := none }
def wf : Nat := Extracted.fwdShiftMaxSteps + 1
/-- every `datetime.now()` is a little later than the one before -/
def clk : Nat → Time := fun k => 19000 + (k : Rat) / 24

def agree (env : Pj.Env) (ms : Uid → Bool) (n fuel : Nat) (σ : SS) (t : Uid) (m : Time) : Prop :=
  (interpFwdPass env wf (calRef σ.res) fuel (encS env ms σ) t m).map (fun st => view n (decS (calRef σ.res) st))
    = (fwdPass env fuel [] σ t m).map (view n)
instance (env ms n fuel σ t m) : Decidable (agree env ms n fuel σ t m) := by unfold agree; infer_instance

/-- a leaf with an estimate -/
def e1 : Pj.Env :=
  { n := 1, info := fun _ => ti [] [], roots := [0], balance := true, defaultEst := 4, clock := clk, bound := 19000 }
def s1 : SS :=
  { f := fun u => if u = 0 then { nof with est := some 20 } else nof, rows := [], done := [], res := [], reads := 1 }
example : agree e1 (fun _ => false) 2 3 s1 0 19000 := by decide +kernel

/-- a summary with two leaves on the same (supplied) resource; the second leaf has work spent; a row of another
    task is already in the ledger -/
def e2 : Pj.Env :=
  { n := 3, info := fun u => match u with
      | 0 => ti [1, 2] [] (resource := none)
      | _ => ti [] [] (resource := some 3),
    roots := [0], balance := true, defaultEst := 6, clock := clk, bound := 19000 }
def s2 : SS :=
  { f := fun u => if u = 2 then { nof with est := some 12, spent := some 2 } else nof,
    rows := [{ res := some 3, day := 19002, task := 7, units := 3 }], done := [],
    res := [(some 3, .weekly none none [6, 6, 6, 6, 6, 6, 6])], reads := 1 }
example : agree e2 (fun _ => false) 4 3 s2 0 19000 := by decide +kernel
/-- the same without resource balancing -/
example : agree { e2 with balance := false } (fun _ => false) 4 3 s2 0 19000 := by decide +kernel

/-- a predecessor chain 0 <- 1 <- 2 where 2 is outside the WBS (it keeps its dates) and has itself an unscheduled
    predecessor 3 -/
def e3 : Pj.Env :=
  { n := 4, info := fun u => match u with
      | 0 => ti [] [1]
      | 1 => ti [] [2] (resource := some 1)
      | 2 => ti [] [3] (member := false)
      | _ => ti [] [] (member := false),
    roots := [0, 1], balance := true, defaultEst := 5, clock := clk, bound := 19000 }
def s3 : SS :=
  { f := fun u => if u = 2 then { nof with start := some 19001, end_ := some ((38015 : Rat) / 2) } else nof,
    rows := [], done := [], res := [], reads := 1 }
example : agree e3 (fun _ => false) 5 5 s3 0 19000 := by decide +kernel
/-- not enough fuel: RecursionError on both sides -/
example : agree e3 (fun _ => false) 5 1 s3 0 19000 := by decide +kernel

/-- a milestone leaf (1) after a leaf (0); the flagged SUMMARY (2, children 0 and 1) is not a milestone -/
def e4 : Pj.Env :=
  { n := 3, info := fun u => match u with
      | 0 => ti [] []
      | 1 => ti [] [0] (milestone := true)
      | _ => ti [0, 1] [],
    roots := [2], balance := true, defaultEst := 3, clock := clk, bound := 19000 }
def ms4 : Uid → Bool := fun u => u = 1 || u = 2
def s4 : SS := { f := fun _ => nof, rows := [], done := [], res := [], reads := 1 }
example : agree e4 ms4 4 5 s4 2 19000 := by decide +kernel

/-- `min_start` (0), a user-fixed start (1), a user-fixed start and end on the resource `None` (2) -/
def e5 : Pj.Env :=
  { n := 4, info := fun u => match u with
      | 0 => ti [] [] (minStart := some 19010)
      | 1 => ti [] []
      | 2 => ti [] [] (resource := none)
      | _ => ti [] [],
    roots := [0, 1, 2], balance := true, defaultEst := 3, clock := clk, bound := 19000 }
def s5 : SS :=
  { f := fun u => if u = 1 then { nof with start := some 18990, est := some 10 }
                  else if u = 2 then { nof with start := some 18990, end_ := some 18995 } else nof,
    rows := [], done := [], res := [], reads := 1 }
example : agree e5 (fun _ => false) 4 5 s5 0 19000 := by decide +kernel
example : agree e5 (fun _ => false) 4 5 s5 1 19000 := by decide +kernel
example : agree e5 (fun _ => false) 4 5 s5 2 19000 := by decide +kernel

/-- errors coincide: the child 1 counts as calculated but has no estimate (TypeError in `sum`); a summary whose
    only child has no end (ValueError in `max`) -/
def e6 : Pj.Env :=
  { n := 2, info := fun u => match u with
      | 0 => ti [1] []
      | _ => ti [] [],
    roots := [0], balance := true, defaultEst := 3, clock := clk, bound := 19000 }
def s6 : SS := { f := fun _ => nof, rows := [], done := [1], res := [], reads := 1 }
def s6' : SS :=
  { f := fun u => if u = 1 then { nof with est := some 1, spent := some 0 } else nof, rows := [], done := [1], res := [],
    reads := 1 }
example : (fwdPass e6 3 [] s6 0 19000).map (view 2) = .error (.crash .type) := by decide +kernel
example : agree e6 (fun _ => false) 3 3 s6 0 19000 := by decide +kernel
example : (fwdPass e6 3 [] s6' 0 19000).map (view 2) = .error (.crash .value) := by decide +kernel
example : agree e6 (fun _ => false) 3 3 s6' 0 19000 := by decide +kernel

end Check


/-
  NEGATIVE SANITY CHECK (not compiled; performed 2026-09-27 with tools in /tmp/leanwork/mut: the text of
  `__forward_pass` in a scratch copy of the snapshot schedule.py is edited, the translator is run on the mutated
  text, its output written to Extracted/PassSrc.lean, then `lake build PjVerif.Lemmas.PassSrc`; afterwards the file
  was regenerated from the real source and the build succeeded again).  `Check eN` = the kernel-checked examples of
  the environment `eN` fail too.  Every semantic mutation is a Miss of the translator or breaks a lemma:

    `+ [min_date]` dropped                                              s2_ok FAILS; Check e1 e2 e4 e5 e6
    `max([...] + [min_date])` -> `min(...)`                             s2_ok FAILS; Check e3 e4
    children get `min_date` instead of `max_predecessor_ends`           body3_ok FAILS
    `and is_leaf` dropped                                               msCond_ok FAILS; Check e4
    milestone: `_task.spent = 0` omitted                                msThen_ok FAILS; Check e4
    milestone: `_task.start = _task.end = …` -> `_task.start = …`       msThen_ok FAILS; Check e4
    `datetime.now()` dropped from the start                             iStart_ok FAILS; Check e1 e2 e3 e4 e5
    `if pred.wbs is _task.wbs` -> `if True`                             body1_ok FAILS; Check e3
    `if id(_task) in calculated: return` removed                        src_Fwd_pass_shape, fwdTail_shape, … FAIL; Check e4 e6
    `calculated.append(id(_task))` -> `pass`                            fin_ok FAILS; Check e1 e2 e3 e4 e5
    `_task.min_start or datetime(1970, 1, 1)` -> `datetime(1970, 1, 2)` iStart_ok FAILS
    `left_hours = max(est - spent, 0)` -> `est - spent`                 iEnd_ok FAILS
    `start = max(_task.start, datetime.now())` -> `_task.start`         iEnd_ok FAILS; Check e1 e2 e3 e4 e5
    `_task.start` dropped from the final `max(shift, now, start)`       iEnd_ok FAILS
    (re-run after the repair of the end clamp, `_task.end = max(end, now, _task.start) if now > self.__start else
     max(end, _task.start)`, which the translator renders with `assign "end"`, `assign "now"`, `ite`, `cmp gt`,
     `field "start"`):
    `now > self.__start` -> `now >= self.__start`                       iEnd_ok FAILS
    the unconditional `max(end, now, _task.start)` of before the repair iEnd_ok FAILS
    the two branches of the conditional swapped                         iEnd_ok FAILS
    `self.__start` -> `min_date` in the test                            iEnd_ok FAILS
    `self.__start` read in `__backward_pass`                            MISS (field of the scheduler)
    shift called with `_task.start` instead of `start`                  iEnd_ok FAILS; Check e5
    last block guarded by `_task.start is None`                         iEnd_ok FAILS; Check e1 e2 e3 e4 e5 e6
    nearest called with `max_predecessor_ends` instead of `_task.start` iStart_ok FAILS; Check e5
    `min(children_starts)` -> `max(children_starts)`                    iStart_ok FAILS; Check e2 e4
    `_task.estimate = self.__default_estimate` -> `= 0`                 iEst_ok FAILS; Check e2 e3 e4 e5
    summary `spent` = sum of the children's ESTIMATES                   iSpent_ok FAILS; Check e2 e4
    `if t.end is not None` dropped (predecessor ends)                   s2_ok FAILS
    `is_leaf = len(children) == 0` -> `>= 0`                            g0_ok FAILS; Check e2 e4 e6
    children loop moved before the predecessor loop                     src_Fwd_pass_shape, s0_ok, … FAIL; Check e3
    `pred.wbs is _task.wbs` -> `==`                                     body1_ok FAILS
    `setdefault(k, Resource(k))` -> `self.__resources[k]`               MISS
    `setdefault(k, Resource(None))`                                     MISS
    aliasing `c = calculated; c.append(id(_task))`                      MISS
    the recursion passes `[]` instead of `calculated`                   MISS
    `id(_task) in calculated` -> `_task in calculated`                  MISS

  Harmless rewrites that still build: comments, a docstring, blank lines, `return None`, `sum([...], 0)` (same term);
  `estimate = 0` / `spent = 0` swapped in the milestone branch; `_task.start = x; _task.end = x` instead of the
  chained assignment; `max(max(a, now), c)` instead of `max(a, now, c)`; `if is_leaf and _task.milestone`;
  `if not (_task.start is not None)`; `_task.wbs is pred.wbs`; renaming the local `task_min_start`; renaming the loop
  variable `pred`.  Harmless rewrites that break a proof or are a Miss (the proofs fix the names of the
  comprehension variables and do not know that `==` / `max` are symmetric): `0 == len(_task.children)` (g0_ok),
  `len(children_starts) < 1` (iStart_ok), `max([min_date] + [...])` (s2_ok), the comprehension variable `t` renamed
  (s2_ok), `max(0, est - spent)` (iEnd_ok), `if not (id(_task) not in calculated)` (Miss).
-/

end Pj.PassSrc
