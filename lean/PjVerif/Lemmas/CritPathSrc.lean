/-
  Lemmas/CritPathSrc.lean — alg/critical_path.py, class `CriticalPathCalculator` with `end_date = None` (the path
  `WBS.critical_path()` takes): the hand-written model (Model/CritPath.lean: `prereqs`, `leaves`, `ef`, `projectLen`,
  `succsOf`, `lfF`, `criticalPath`) equals the interpretation of the CURRENT SOURCE of

    _PNode.__init__   _PLink.__init__   CriticalPathCalculator.__init__ / __insert_task / __new_node / __connect /
    __add_work / __forward / __backward / calc        WBS.critical_path (wbs.py)

  (Extracted/CritPathSrc.lean, regenerated from src/pjplan/alg/critical_path.py and wbs.py by tools/extract_critpath.py on
  every check; `_find_clusters` and the two branches for `end_date is not None` are OUT of scope: the translator replaces
  them by a primitive without meaning, so a run that reached them would be stuck - the theorems show that none does).
  The eleven functions form a PROGRAM (`cpFuns`), run by `progH (cpPrim e tid) cpFuns F` (Model/PyLite.lean: every call
  costs one unit of the fuel `F`, which bounds the DEPTH of nested calls as Python's recursion limit does).

  This is an ALGORITHMIC equivalence, not a statement-by-statement one: the source builds an activity-on-arrow network of
  objects that refer to one another (`_PNode.forward_links / backward_links` hold `_PLink`s, links hold their end nodes),
  runs two memoised recursions over it and selects by a float tolerance; the model characterises the result directly.

  Files.
    this file             encoding of the inputs, primitives, entry point `interpCriticalPath`
    CritPathSrcNet.lean   the object store as a list of typed objects (`Obj`, `encHeap`, `mkSt`) and the program re-written
                          over that store, function by function, in the `Option` monad (`cpA`); validated by evaluation
                          against the interpreter (value, heap, allocation pointer) on the WBSs of the Check files
    CritPathSrcA1/A2/A3/A.lean   layer A, the SIMULATION: the translated source computes what `cpA` computes
                          (`cp_sim`; one lemma per function: `construct_PNode`, `construct_PLink`, `new_node_sim`,
                          `connect_sim`, `add_work_sim`, `insert_sim`, `construct_CPC`, `forward_sim`, `backward_sim`,
                          `calc_sim`); no invariant of the network is needed there
    CritPathSrcB.lean     the two passes on an ARBITRARY store: the memoised `forwardA` / `backwardA` compute the plain
                          recursions `lpF` (longest path into a node) / `ltF` (latest time of a node) over the arcs
                          (`fwd_correct`, `bwd_correct`, `fwd_all`, `bwd_all`)
    CritPathSrcC1.lean    what `__new_node` / `__connect` do to the arcs (`NewNodeSpec`, `ConnSpec`); the invariant `Net`
    CritPathSrcC2.lean    STAGE 2: the network of `__init__` (`Built`, `insert_ok`, `init_ok`)
    CritPathSrcC3.lean    the arithmetic on the network of `calc` (`Wired`): `lp_task`, `lp_end`, `lt_task`
    CritPathSrcC4.lean    `calc`: the begin / end node (`calc_prelude`), the passes and the selection (`calc_ok`)
    CritPathSrcC5.lean    `cpA_ok`, `criticalPath_mem`; the grid hypothesis (`tolExact_of_grid`)
    CritPathSrcD.lean     STAGE 3: the theorems; the NEGATIVE CHECK (comment block at its end)
    CritPathSrcCheck.lean, CritPathSrcCheckB.lean, CritPathSrcCheckC.lean   STAGE 1: the kernel-checked concrete runs

  Setting.
  * The input is a WBS description `e : CPEnv` (Model/CritPath.lean; Drive/CritPath.lean fills it from a WBS: `members` =
    `WBS.tasks`, `children`, public `parent`, `preds`, `est`, `spent` per task) and the ids `tid : Uid → Int` (the model
    identifies tasks by their uid and has no ids; the source uses `task.id` as dict key).  The task `u` is the object
    `ref u`; its library attributes are PRIMITIVES read from `e` (`cpPrim`): `children`, `predecessors` (the raw lists),
    `all_parents` = `ancestors e (e.n + 1)`, `all_children` = `descF e.children (e.n + 1)` (RecursionError when that is
    `none`, i.e. on a cycle among the children lists), `estimate`, `spent` (`None` or a number), `id` = `tid`; `id(t)` of
    `ref u` is the int `u`.  `tasks` = `refs e.members`.  Task attributes are never written.
  * The objects of the module (`_PNode`, `_PLink`, the calculator) are allocated in the store from the address `e.n` on
    (`initSt`: the allocation pointer is the component `reads` of `PState`, as in Model/PyLiteW.lean); `C(args)` is the
    construct `construct` of Model/PyLite.lean ("critical-path constructs"): new object without attributes, then
    `__init__`.  Lists held by attributes are changed in place (`attrAppend`), dicts by `setAttr … (dictSet …)`.
  * Numbers are rationals (the model's abstraction of int / float); the float literal `1e-9` is 1/1000000000.

  Results (all proofs complete; axioms: propext, Classical.choice, Quot.sound).
    Stage 1 (CritPathSrcCheck.lean, CritPathSrcCheckB.lean; `decide +kernel`): on 16 WBSs - a chain; a diamond; parallel
      branches with a tie, a shorter branch and independent chains; zero-length tasks on and off the longest chain;
      a single task; no links at all (with a summary); no tasks; nested summaries over one leaf without estimate; links
      on summaries standing for their leaves (both ends); predecessors outside the calculated set (a leaf, a summary);
      two tasks sharing an id of which one is a member; spent above the estimate; lengths on the grid of eighths; deep
      nesting; predecessors named twice and through their summary; members in non-topological order - (a) the EXACT list
      the translated program returns, which is the list the real Python (src/pjplan run on the same WBS) returns, and
      (b) `agree`: the same SET as the model's `criticalPath`, each task once.  Plus, outside the hypotheses of the
      general theorem: a dependency cycle and a cycle that closes through the hierarchy (KeyError on both sides); see
      Disagreements for the rest.  CritPathSrcCheckC.lean: the general theorem instantiated on three of them.
    Stage 2 (CritPathSrcC2.lean) `init_ok`: IdInj e tid → DescOK e → acyclicB e = true → e.n + 1 ≤ fa →
        ∃ σ done S E L, initA e tid B fa = some σ ∧ Built e tid B σ done [] S E L ∧ ∀ t, t ∈ done ↔ t ∈ leaves e
      where `Built` says: `__nodes` = [S t, E t | t ← done], `__links` = {id t ↦ L t | t ← done} in this order, `__tasks`
      maps id t to t; the object `L t` is the link (S t, E t, max(est - spent, 0)); the arcs INTO `S t` are exactly
      the zero-length arrows from `E p`, p ← `prereqs e t` in that order (`Built.views`), the arc out of `S t` / into
      `E t` is `L t`, the arcs OUT of `E t` are the arrows to `S s` for the inserted `s` with `t ∈ prereqs e s`;
      start and end nodes of different tasks are different objects; no `start_units` / `end_units` is set; every
      prerequisite is inserted before the task (`preDone`).  `done` (the insertion order) is a depth-first post-order
      along `prereqs`.  (`insert_ok`: the recursion; its measure is the fuel the model's `efF` needs - this is where
      acyclicity enters: a task that is being inserted is never reached again.)
    Stage 3 (CritPathSrcD.lean), for every e, tid with
        IdInj e tid       the ids of the member leaves are pairwise different (C05 inside one WBS),
        DescOK e          `all_children` is defined for the predecessors met (`descOK_of_forall`: no cycle of children),
        acyclicB e        the model's domain: the leaf-level waits-for relation has no cycle,
        TolExact e        the float test `abs(r) <= 1e-9 * max(1.0, length)` and the exact test `r = 0` agree on the
                          leaves of e (r = the model's float) - STATED MINIMALLY; implied (`tolExact_of_grid`) by
        OnGrid e ∧ length < 10^8    every `max(estimate - spent, 0)` of a member leaf is a multiple of 1/8,
        2 * e.n + 9 ≤ F   the fuel (the passes nest at most 2 * (e.n + 1) + 2 calls):
      `interpCriticalPath_eq`   ∃ order len, projectLen e = some len ∧ order.Nodup ∧ (∀ t, t ∈ order ↔ t ∈ leaves e) ∧
                                interpCriticalPath F e tid = ok (refs (order.filter (critOf e len)))
      `interpCriticalPath_set`  ∃ r l, interpCriticalPath F e tid = ok (refs r) ∧ criticalPath e = ok l ∧ r.Nodup ∧
                                ∀ t, t ∈ r ↔ t ∈ l
      `interpCriticalPath_perm` … ∧ r.Perm l  (with `e.members.Nodup`)     `interpCriticalPath_grid`  (the grid form)
      The ORDER differs: the source returns the critical tasks in the order of insertion (`__links.items()`), the model
      in WBS order; the theorems compare them as sets / up to a permutation.
      How: `lpF` on the network is the model's forward pass (`lp_task`: start node = earliest start, end node = `ef`;
      `lp_end`: the end node = `projectLen` - the maximum over the sinks is the maximum over all leaves, `sink_reach`);
      `ltF` is the backward pass (`lt_task` = `lfF`; the minimum over the arrows in insertion order = the model's minimum
      over `succsOf` in WBS order, `min_congr`); the memoised recursions compute `lpF` / `ltF` whatever the order of the
      calls (`fwd_correct` / `bwd_correct`).

  Disagreements.  Inside the hypotheses: none.  Outside (kernel-checked in CritPathSrcCheckB.lean):
    * `hcycle` - a leaf that waits for its own summary, i.e. for itself (NOT constructible with the library: "Can't set
      parent as predecessor"): the source sets `__links[id]` before the loop of `__add_work`, connects the end of the arc to
      its start and `__forward` never ends (RecursionError); the model reports KeyError.  Other cycles (`cycle`,
      `hcycle2` - the latter is accepted by the library): KeyError on both sides.
    * `offgrid` - a float of 1e-10: the source's tolerance accepts it, the model's exact test does not (this is what
      `TolExact` excludes).
    * `sharedmembers` - two MEMBERS with the same id (impossible inside one WBS): the source keeps the first only.

  Limitations.  (1) The task library is primitive (see Setting): `task.children` etc. are the lists the encoding gives;
    `all_parents` on a cyclic parent chain is the model's truncated enumeration.  (2) Numbers are rationals: float
    rounding inside the passes is not modelled - the tolerance test is; on the grid of eighths below 10^8 floats are
    exact.  (3) `_ImmutableTaskList(res)` is the list `res`.  (4) The fuel counts the depth of calls of translated
    functions (`_PNode()` included), cf. Lemmas/TaskSrc.lean (2).  (5) Errors carry no state; the theorems are about
    runs on acyclic WBSs, which do not raise.  (6) `end_date` ≠ None and `_find_clusters` are not translated.
    (7) ids are `Int`s.
-/
import PjVerif.Extracted.CritPathSrc
import PjVerif.Spec.CritPath
namespace Pj.CritPathSrc
open Pj.PyLite Pj.Extracted.CritPath

/-! ### the encoding -/

def refs (l : List Uid) : Val := .list (l.map Atom.ref)

/-- `task.id`: an `int` -/
def idA (i : Int) : Atom := .num (i : Rat)

def optNum : Option Rat → Atom
  | none => .none
  | some q => .num q

/-- the library attributes of a task object `ref t`, read from the WBS description `e` (and the ids `tid`) -/
def cpPrim (e : CPEnv) (tid : Uid → Int) : String → List Atom → PState → Res Val := fun name args _ =>
  match args with
  | [.ref t] =>
    if name = "children" then pure (refs (e.children t))
    else if name = "all_parents" then pure (refs (e.ancestors (e.n + 1) t))
    else if name = "all_children" then
      match descF e.children (e.n + 1) t with
      | some l => pure (refs l)
      | none => throw (.crash .recursion)
    else if name = "predecessors" then pure (refs (e.preds t))
    else if name = "estimate" then pure (.atom (optNum (e.est t)))
    else if name = "spent" then pure (.atom (optNum (e.spent t)))
    else if name = "id" then pure (.atom (idA (tid t)))
    else throw stuck
  | _ => throw stuck

/-- the initial Python state: no object of the module exists; the allocation pointer (`reads`) is `base` -/
def initSt (base : Nat) : PState := { L := [], heap := fun _ => [], done := [], res := [], reads := base, boxes := [] }

/-- the handlers of the program with `F` units of fuel -/
abbrev Hc (e : CPEnv) (tid : Uid → Int) (F : Nat) : PHandlers := progH (cpPrim e tid) cpFuns F

/-- call the k-th function of critical_path.py with at most `fuel` nested calls -/
def interp (e : CPEnv) (tid : Uid → Int) (fuel : Nat) (k : Nat) (args : List Val) (st : PState) : Res (Val × PState) :=
  runProg (cpPrim e tid) cpFuns fuel k args st

/-- `wbs.critical_path()` = `CriticalPathCalculator(wbs.tasks, None).calc()`: the returned value -/
def interpCriticalPath (F : Nat) (e : CPEnv) (tid : Uid → Int) : Res Val :=
  (interp e tid F fn_WBS_critical_path [refs e.members] (initSt e.n)).map (·.1)

end Pj.CritPathSrc
