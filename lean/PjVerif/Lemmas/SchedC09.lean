/-
  Lemmas/SchedC09.lean — helper lemmas for Props/C09.lean (pass-level reasoning on top of Lemmas/SchedPass.lean).
-/
import PjVerif.Lemmas.SchedPass
import PjVerif.Spec.Sched2
namespace Pj

/-! ### folds of `minT` / `maxT` -/

theorem minT_le_left (a b : Time) : minT a b ≤ a := by unfold minT; split <;> grind
theorem minT_le_right (a b : Time) : minT a b ≤ b := by unfold minT; split <;> grind
theorem le_minT {x a b : Time} (h1 : x ≤ a) (h2 : x ≤ b) : x ≤ minT a b := by unfold minT; split <;> assumption
theorem maxT_le {x a b : Time} (h1 : a ≤ x) (h2 : b ≤ x) : maxT a b ≤ x := by unfold maxT; split <;> assumption

theorem foldl_minT_le_init : ∀ (l : List Time) (b : Time), l.foldl minT b ≤ b
  | [], _ => by simp
  | y :: l, b => by
    simp only [List.foldl_cons]
    have h1 := foldl_minT_le_init l (minT b y)
    have h2 := minT_le_left b y
    grind

theorem foldl_minT_le_mem : ∀ (l : List Time) (b y : Time), y ∈ l → l.foldl minT b ≤ y
  | [], _, _, h => by cases h
  | z :: l, b, y, h => by
    simp only [List.foldl_cons]
    rcases List.mem_cons.1 h with rfl | h
    · have h1 := foldl_minT_le_init l (minT b y)
      have h2 := minT_le_right b y
      grind
    · exact foldl_minT_le_mem l _ y h

theorem le_foldl_minT : ∀ (l : List Time) (b x : Time), x ≤ b → (∀ y ∈ l, x ≤ y) → x ≤ l.foldl minT b
  | [], _, _, h, _ => by simpa using h
  | z :: l, b, x, h, hl => by
    simp only [List.foldl_cons]
    exact le_foldl_minT l _ x (le_minT h (hl z (by simp))) (fun y hy => hl y (List.mem_cons_of_mem _ hy))

theorem foldl_maxT_le : ∀ (l : List Time) (b x : Time), b ≤ x → (∀ y ∈ l, y ≤ x) → l.foldl maxT b ≤ x
  | [], _, _, h, _ => by simpa using h
  | z :: l, b, x, h, hl => by
    simp only [List.foldl_cons]
    exact foldl_maxT_le l _ x (maxT_le h (hl z (by simp))) (fun y hy => hl y (List.mem_cons_of_mem _ hy))

theorem minStarts_le (σ : SS) (l : List Uid) (m : Time) : minStarts σ l m ≤ m :=
  foldl_minT_le_init _ _

theorem minStarts_le_start (σ : SS) (l : List Uid) (m : Time) (s : Uid) (st : Time) (hs : s ∈ l)
    (h : (σ.f s).start = some st) : minStarts σ l m ≤ st :=
  foldl_minT_le_mem _ _ _ (List.mem_filterMap.2 ⟨s, hs, h⟩)

theorem minStarts_congr (σ σ' : SS) (l : List Uid) (m : Time) (h : ∀ s ∈ l, σ'.f s = σ.f s) :
    minStarts σ' l m = minStarts σ l m := by
  unfold minStarts
  congr 1
  induction l with
  | nil => rfl
  | cons a l ih =>
    simp only [List.filterMap_cons, h a (by simp)]
    rw [ih (fun s hs => h s (List.mem_cons_of_mem _ hs))]

/-! ### days -/

theorem dayOf_le (t : Time) : ((dayOf t : Int) : Rat) ≤ t := Rat.floor_le t

theorem dayOf_mono {a b : Time} (h : a ≤ b) : dayOf a ≤ dayOf b := by
  unfold dayOf
  exact Rat.le_floor_iff.2 (Rat.le_trans (Rat.floor_le a) h)

theorem int_succ_le_cast {a b : Int} (h : a < b) : (a : Rat) + 1 ≤ (b : Rat) := by
  have : ((a + 1 : Int) : Rat) ≤ (b : Rat) := Rat.intCast_le_intCast.2 (by omega)
  rw [Rat.intCast_add] at this
  exact this

theorem mem_daysBetween (a b d : Int) : d ∈ daysBetween a b ↔ a ≤ d ∧ d < b := by
  unfold daysBetween
  simp only [List.mem_map, List.mem_range]
  constructor
  · rintro ⟨i, hi, rfl⟩
    omega
  · intro h
    exact ⟨(d - a).toNat, by omega, by omega⟩

/-- the day `c09Encode` recovers from a computed end `d + 1 − x`, `0 ≤ x < 1` -/
theorem endDay_spec (d : Int) (x : Rat) (h0 : 0 ≤ x) (h1 : x < 1) :
    (if ((d : Rat) + 1 - x) == ((dayOf ((d : Rat) + 1 - x) : Int) : Rat) then dayOf ((d : Rat) + 1 - x) - 1
      else dayOf ((d : Rat) + 1 - x)) = d := by
  by_cases hx : x = 0
  · subst hx
    have he : (d : Rat) + 1 - 0 = ((d + 1 : Int) : Rat) := by rw [Rat.intCast_add]; grind
    rw [he, dayOf_intCast]
    simp
  · have he : (d : Rat) + 1 - x = (d : Rat) + (1 - x) := by grind
    have hd : dayOf ((d : Rat) + 1 - x) = d := by
      rw [he]; exact dayOf_add_frac d _ (by grind) (by grind)
    rw [hd]
    have hne : ¬ ((d : Rat) + 1 - x = (d : Rat)) := by grind
    simp [hne]

/-! ### the backward pass with its dates: every placement knows where its `minDate`/`minSucc` came from -/

theorem passList_done_if (P : Uid → Prop) (step : SS → Uid → Res SS) :
    ∀ (xs : List Uid), (∀ σ x σ', x ∈ xs → step σ x = .ok σ' → Ext σ σ' ∧ (P x → x ∈ σ'.done)) →
      ∀ (σ σ' : SS), passList step σ xs = .ok σ' → ∀ x ∈ xs, P x → x ∈ σ'.done := by
  intro xs
  induction xs with
  | nil => intro _ σ σ' _ x hx; cases hx
  | cons y xs ih =>
    intro hstep σ σ' h x hx hp
    simp only [passList, bind, Except.bind] at h
    split at h
    · cases h
    · rename_i σ1 h1
      have hrest := fun σ z σ' (hz : z ∈ xs) => hstep σ z σ' (List.mem_cons_of_mem _ hz)
      rcases List.mem_cons.1 hx with rfl | hx
      · have he : Ext σ1 σ' := passList_rel Ext Ext.refl (fun _ _ _ => Ext.trans) step xs
          (fun σ z σ' hz hh => (hrest σ z σ' hz hh).1) σ1 σ' h
        exact he.done_sub ((hstep σ x σ1 List.mem_cons_self h1).2 hp)
      · exact ih hrest σ1 σ' h x hx hp

/-- induction over a backward pass that keeps track of the dates handed down: `R t m` relates a task to the
    `minDate` it is called with; the placement learns that its `minSucc` is `minStarts` over the successors in a
    state `σ1` that the placement state extends and in which the same-side successors are done -/
theorem bwdPass_inv2 (env : Env) (I : SS → Prop) (R : Uid → Time → Prop)
    (hplace : ∀ σ1 σ σ' t m, R t m → I σ → t ∉ σ.done → Ext σ1 σ →
      (∀ s ∈ (env.info t).succs, (env.info s).member = (env.info t).member → s ∈ σ1.done) →
      (∀ c ∈ (env.info t).children, c ∈ σ.done) →
      bwdPlace env σ t m (minStarts σ1 (env.info t).succs m) = .ok σ' → I σ')
    (hkids : ∀ σ1 t c m, R t m → c ∈ (env.info t).children → R c (minStarts σ1 (env.info t).succs m))
    (hlinks : ∀ t p m, R t m → p ∈ (env.info t).succs → (env.info p).member = (env.info t).member → R p m) :
    ∀ (fuel : Nat) (stk : List Uid) (σ : SS) (t : Uid) (m : Time) (σ' : SS),
      R t m → I σ → bwdPass env fuel stk σ t m = .ok σ' → I σ' := by
  intro fuel
  induction fuel with
  | zero => intro stk σ t m σ' _ _ h; cases h
  | succ fuel ih =>
    intro stk σ t m σ' hq hi h
    rw [bwdPass_eq_gPass] at h
    rcases gPass_succ_cases env _ _ _ _ fuel stk σ t m σ' h with ⟨hd, rfl⟩ | ⟨hd, hs, σ1, σ2, h1, h2, h3⟩
    · exact hi
    · simp only [← bwdPass_eq_gPass] at h1 h2
      have e1 : ExtS (t :: stk) σ σ1 := passList_extS _ _ _ (fun a x b _ hh => by
        split at hh
        · exact (bwdPass_extS env _ _ _ _ _ _ hh).1
        · cases hh; exact ExtS.refl _ _) _ _ h1
      have e2 : ExtS (t :: stk) σ1 σ2 := passList_extS _ _ _ (fun a x b _ hh =>
        (bwdPass_extS env _ _ _ _ _ _ hh).1) _ _ h2
      have ht2 : t ∉ σ2.done := (e1.trans e2).2 t List.mem_cons_self hd
      have i1 : I σ1 := passList_inv I _ _ (fun a x b hxl ha hh => by
        split at hh
        · rename_i hm
          exact ih _ _ _ _ _ (hlinks t x m hq hxl (by simpa using hm)) ha hh
        · cases hh; exact ha) _ _ hi h1
      have i2 : I σ2 := passList_inv I _ _ (fun a x b hxl ha hh =>
        ih _ _ _ _ _ (hkids σ1 t x m hq (List.mem_reverse.1 hxl)) ha hh) _ _ i1 h2
      have hk : ∀ c ∈ (env.info t).children, c ∈ σ2.done := fun c hc =>
        passList_all_done _ _ (fun a x b _ hh =>
          ⟨(bwdPass_extS env _ _ _ _ _ _ hh).1.1, (bwdPass_extS env _ _ _ _ _ _ hh).2⟩) _ _ h2 c (List.mem_reverse.2 hc)
      have hsd : ∀ s ∈ (env.info t).succs, (env.info s).member = (env.info t).member → s ∈ σ1.done :=
        passList_done_if (fun s => (env.info s).member = (env.info t).member) _ _ (fun a x b _ hh => by
          split at hh
          · exact ⟨(bwdPass_extS env _ _ _ _ _ _ hh).1.1, fun _ => (bwdPass_extS env _ _ _ _ _ _ hh).2⟩
          · rename_i hm
            cases hh
            exact ⟨Ext.refl _, fun hp => absurd (by simpa using hp) hm⟩) _ _ h1
      exact hplace σ1 σ2 σ' t m hq i2 ht2 e2.1 hsd hk h3

/-! ### one backward placement, stage by stage, with the values written -/

theorem bwdPlace_cases (env : Env) (σ σ' : SS) (t : Uid) (m v : Time) (h : bwdPlace env σ t m v = .ok σ') :
    ((env.info t).milestone = true ∧
      σ' = markDone (setF { σ with res := (resLookup σ.res (env.info t).resource).1 } t
        (fun _ => { start := some v, end_ := some v, est := some 0, spent := some 0 })) t) ∨
    ((env.info t).milestone = false ∧ ∃ σ1 σ2 σ3,
      bwdEnd env (resLookup σ.res (env.info t).resource).2 (usedBy env σ.rows (env.info t).resource t) t m v
        { σ with res := (resLookup σ.res (env.info t).resource).1 } = .ok σ1 ∧
      fillEst env t σ1 = .ok σ2 ∧
      bwdStart env (resLookup σ.res (env.info t).resource).2 (usedBy env σ.rows (env.info t).resource t) t m σ2 = .ok σ3 ∧
      σ' = markDone σ3 t) := by
  unfold bwdPlace at h
  rcases hr : resLookup σ.res (env.info t).resource with ⟨res', cal⟩
  simp only [hr, bind, Except.bind, pure, Except.pure] at h ⊢
  split at h
  · rename_i hm
    cases h
    exact Or.inl ⟨hm, rfl⟩
  · rename_i hm
    split at h
    · cases h
    · rename_i σ1 h1
      split at h
      · cases h
      · rename_i σ2 h2
        split at h
        · cases h
        · rename_i σ3 h3
          cases h
          exact Or.inr ⟨by simpa using hm, σ1, σ2, σ3, h1, h2, h3, rfl⟩

/-- `fillEst` leaves the dates alone -/
theorem fillEst_dates (env : Env) (t : Uid) (σ σ' : SS) (h : fillEst env t σ = .ok σ') :
    (σ'.f t).start = (σ.f t).start ∧ (σ'.f t).end_ = (σ.f t).end_ := by
  unfold fillEst at h
  simp only [bind, Except.bind] at h
  split at h
  · cases h
  · rename_i σ1 h1
    have s1 : (σ1.f t).start = (σ.f t).start ∧ (σ1.f t).end_ = (σ.f t).end_ := by
      split at h1
      · cases h1; exact ⟨rfl, rfl⟩
      · split at h1
        · cases h1; simp [setF, upd]
        · split at h1
          · cases h1
          · cases h1; simp [setF, upd]
    have s2 : (σ'.f t).start = (σ1.f t).start ∧ (σ'.f t).end_ = (σ1.f t).end_ := by
      split at h
      · cases h; exact ⟨rfl, rfl⟩
      · split at h
        · cases h; simp [setF, upd]
        · split at h
          · cases h
          · cases h; simp [setF, upd]
    exact ⟨s2.1.trans s1.1, s2.2.trans s1.2⟩

/-- the end a leaf gets when none is fixed -/
theorem bwdEnd_leaf (env : Env) (cal : Cal) (used : Int → Rat) (t : Uid) (m v : Time) (σ σ' : SS)
    (hleaf : (env.info t).children.isEmpty = true) (he : (σ.f t).end_ = none)
    (h : bwdEnd env cal used t m v σ = .ok σ') :
    ∃ e0, nearestBwd cal used v = .ok e0 ∧ (σ'.f t).end_ = some (e0 + 1) ∧ (σ'.f t).start = (σ.f t).start := by
  unfold bwdEnd at h
  simp only at h
  split at h
  · rename_i x hx; rw [he] at hx; cases hx
  · rw [if_pos hleaf] at h
    simp only [bind, Except.bind] at h
    split at h
    · cases h
    · rename_i e0 h0
      cases h
      exact ⟨e0, h0, by simp [setF, upd], by simp [setF, upd]⟩

/-- the end a task with children gets -/
theorem bwdEnd_sum (env : Env) (cal : Cal) (used : Int → Rat) (t : Uid) (m v : Time) (σ σ' : SS)
    (hleaf : (env.info t).children.isEmpty = false) (he : (σ.f t).end_ = none)
    (h : bwdEnd env cal used t m v σ = .ok σ') :
    ((σ'.f t).end_ = some m ∨
      ∃ c rest, (env.info t).children.filterMap (fun c => (σ.f c).end_) = c :: rest ∧
        (σ'.f t).end_ = some (rest.foldl maxT c)) := by
  unfold bwdEnd at h
  simp only at h
  split at h
  · rename_i x hx; rw [he] at hx; cases hx
  · rw [if_neg (by simp [hleaf])] at h
    split at h
    · cases h
      exact Or.inl (by simp [setF, upd])
    · rename_i c rest hc
      cases h
      exact Or.inr ⟨c, rest, hc, by simp [setF, upd]⟩

theorem bwdStart_leaf (env : Env) (cal : Cal) (used : Int → Rat) (t : Uid) (m : Time) (σ σ' : SS)
    (hleaf : (env.info t).children.isEmpty = true) (hs : (σ.f t).start = none)
    (h : bwdStart env cal used t m σ = .ok σ') :
    ∃ s rows, shiftBwd cal used (minT (((σ.f t).end_).getD epoch) m) (leftOf σ t) = .ok (s, rows) ∧
      (σ'.f t).start = some s ∧ (σ'.f t).end_ = (σ.f t).end_ ∧
      σ'.rows = σ.rows ++ rows.map (mkRow (env.info t).resource t) := by
  unfold bwdStart at h
  simp only at h
  rw [if_pos hleaf] at h
  simp only [bind, Except.bind] at h
  split at h
  · cases h
  · rename_i v hv
    obtain ⟨s, rows⟩ := v
    cases h
    refine ⟨s, rows, hv, ?_, ?_, ?_⟩
    · simp [setF, upd, addRows, hs]
    · simp [setF, upd, addRows]
    · simp only [setF, addRows]; rfl

theorem bwdStart_sum (env : Env) (cal : Cal) (used : Int → Rat) (t : Uid) (m : Time) (σ σ' : SS)
    (hleaf : (env.info t).children.isEmpty = false)
    (h : bwdStart env cal used t m σ = .ok σ') :
    (∃ s, (σ'.f t).start = some s) ∧ (σ'.f t).end_ = (σ.f t).end_ ∧ σ'.rows = σ.rows := by
  unfold bwdStart at h
  simp only at h
  rw [if_neg (by simp [hleaf])] at h
  split at h
  · cases h
  · cases h
    rename_i c rest _
    exact ⟨⟨rest.foldl minT c, by simp [setF, upd]⟩, by simp [setF, upd], by simp [setF]⟩

/-- `shiftBwd` with work to place: the exact start it computes -/
theorem shiftBwd_exact (cal : Cal) (used : Int → Rat) (end_ : Time) (left : Rat) (s : Time)
    (rows : List (Int × Rat)) (hl : 0 < left)
    (h : shiftBwd cal used end_ left = .ok (s, rows)) :
    ∃ dayL c, FillBwdSpec cal used (dayOf end_) left rows dayL ∧ rows ≠ [] ∧ capR cal (dayL : Rat) = .ok c ∧
      s = (dayL : Rat) + 1 - (used dayL + daySum rows dayL) / c := by
  unfold shiftBwd at h
  have h0 : ¬ left = 0 := by grind
  simp only [if_neg h0] at h
  cases hf : fillBwd cal used Extracted.bwdShiftMaxSteps (Extracted.bwdShiftMaxSteps + 2) 0
      (dayOf end_) left [] with
  | error err => rw [hf] at h; cases h
  | ok res =>
    obtain ⟨rows', dayL⟩ := res
    rw [hf] at h
    simp only [bind, Except.bind] at h
    cases hcap : capR cal (dayL : Rat) with
    | error err => rw [hcap] at h; cases h
    | ok c =>
      rw [hcap] at h
      simp only at h
      split at h
      · cases h
      · cases h
        obtain ⟨new, hrows, hspec, _⟩ := fillBwd_spec cal used _ _ _ _ _ _ _ _ (Rat.le_of_lt hl) hf
        simp only [List.nil_append] at hrows
        subst hrows
        have hne : rows ≠ [] := by
          intro hn
          subst hn
          have := hspec.total
          simp at this
          grind
        exact ⟨dayL, c, hspec, hne, hcap, rfl⟩

/-- the calendar and the ledger view a placement of `t` in state `σ` works with -/
abbrev placeCal (env : Env) (σ : SS) (t : Uid) : Cal := (resLookup σ.res (env.info t).resource).2
abbrev placeUsed (env : Env) (σ : SS) (t : Uid) : Int → Rat := usedBy env σ.rows (env.info t).resource t

/-- what the placement of a leaf without fixed dates does: `d` = the day the end is measured from, `c` its
    capacity, `s` the start, `rows` the reservations -/
structure LeafPlaced (env : Env) (σ σ' : SS) (t : Uid) (m v : Time) (d : Int) (c : Rat) (s : Time)
    (rows : List (Int × Rat)) : Prop where
  dlt : d < dayOf v
  cap : capR (placeCal env σ t) (d : Rat) = .ok c
  avail : 0 < c - placeUsed env σ t d
  fullAfter : ∀ d', d < d' → d' < dayOf v →
    ∃ c', capR (placeCal env σ t) (d' : Rat) = .ok c' ∧ c' - placeUsed env σ t d' ≤ 0
  end_ : (σ'.f t).end_ = some ((d : Rat) + 1 - placeUsed env σ t d / c)
  start : (σ'.f t).start = some s
  rowsEq : σ'.rows = σ.rows ++ rows.map (mkRow (env.info t).resource t)
  resEq : σ'.res = (resLookup σ.res (env.info t).resource).1
  fill : rows = [] ∨ ∃ dayL c' left,
    FillBwdSpec (placeCal env σ t) (placeUsed env σ t)
      (dayOf (minT ((d : Rat) + 1 - placeUsed env σ t d / c) m)) left rows dayL ∧ rows ≠ [] ∧
    capR (placeCal env σ t) (dayL : Rat) = .ok c' ∧
    s = (dayL : Rat) + 1 - (placeUsed env σ t dayL + daySum rows dayL) / c'

theorem placeUsed_nonneg (env : Env) (σ : SS) (t : Uid) (hl : LedgerOK env σ) (d : Int) : 0 ≤ placeUsed env σ t d :=
  reserved_nonneg _ hl.pos _ _ _

theorem bwdPlace_leaf (env : Env) (σ σ' : SS) (t : Uid) (m v : Time) (hl : LedgerOK env σ)
    (hleaf : (env.info t).children.isEmpty = true) (hm : (env.info t).milestone = false)
    (hs : (σ.f t).start = none) (he : (σ.f t).end_ = none) (h : bwdPlace env σ t m v = .ok σ') :
    ∃ d c s rows, LeafPlaced env σ σ' t m v d c s rows := by
  rcases bwdPlace_cases env σ σ' t m v h with ⟨hm', _⟩ | ⟨_, σ1, σ2, σ3, h1, h2, h3, rfl⟩
  · rw [hm] at hm'; cases hm'
  · have hu := placeUsed_nonneg env σ t hl
    obtain ⟨e0, hn, he1, hs1⟩ := bwdEnd_leaf env _ _ t m v { σ with res := (resLookup σ.res (env.info t).resource).1 } σ1 hleaf he h1
    obtain ⟨d, c, hd, hc, hav, he0, hfull⟩ := nearestBwd_spec _ _ v e0 hu hn
    obtain ⟨hs2, he2⟩ := fillEst_dates env t σ1 σ2 h2
    have hs2' : (σ2.f t).start = none := by rw [hs2, hs1]; exact hs
    obtain ⟨s, rows, hsh, hs3, he3, hr3⟩ := bwdStart_leaf env _ _ t m σ2 σ3 hleaf hs2' h3
    have st1 := bwdEnd_stage env _ _ t m v _ σ1 h1
    have st2 := fillEst_stage env t σ1 σ2 h2
    obtain ⟨new, st3, _⟩ := bwdStart_stage env _ _ t m σ2 σ3 h3
    have hend : (σ2.f t).end_ = some ((d : Rat) + 1 - placeUsed env σ t d / c) := by
      rw [he2, he1, he0]
      congr 1
      show (d : Rat) - usedBy env σ.rows (env.info t).resource t d / c + 1 = _
      grind
    refine ⟨d, c, s, rows, hd, hc, hav, hfull, ?_, hs3, ?_, ?_, ?_⟩
    · show (σ3.f t).end_ = _
      rw [he3, hend]
    · show σ3.rows = _
      rw [hr3, st2.rows, st1.rows]
      simp
    · show σ3.res = _
      rw [st3.res, st2.res, st1.res]
    · rw [hend] at hsh
      simp only [Option.getD_some] at hsh
      have hl0 := leftOf_nonneg σ2 t
      by_cases hz : leftOf σ2 t = 0
      · exact Or.inl ((shiftBwd_spec _ _ _ _ _ _ hl0 hu hsh).1 hz).2
      · obtain ⟨dayL, c', hsp, hne, hc', hs'⟩ := shiftBwd_exact _ _ _ _ _ _ (by grind) hsh
        exact Or.inr ⟨dayL, c', _, hsp, hne, hc', hs'⟩

/-- the placement of a milestone -/
theorem bwdPlace_milestone (env : Env) (σ σ' : SS) (t : Uid) (m v : Time)
    (hm : (env.info t).milestone = true) (h : bwdPlace env σ t m v = .ok σ') :
    (σ'.f t).start = some v ∧ (σ'.f t).end_ = some v ∧ σ'.rows = σ.rows := by
  rcases bwdPlace_cases env σ σ' t m v h with ⟨_, rfl⟩ | ⟨hm', _⟩
  · simp [markDone, setF, upd]
  · rw [hm] at hm'; cases hm'

/-- the placement of a task with children that is not a milestone -/
theorem bwdPlace_sum (env : Env) (σ σ' : SS) (t : Uid) (m v : Time)
    (hleaf : (env.info t).children.isEmpty = false) (hm : (env.info t).milestone = false)
    (he : (σ.f t).end_ = none) (h : bwdPlace env σ t m v = .ok σ') :
    (∃ s, (σ'.f t).start = some s) ∧ σ'.rows = σ.rows ∧
    ((σ'.f t).end_ = some m ∨
      ∃ c rest, (env.info t).children.filterMap (fun c => (σ.f c).end_) = c :: rest ∧
        (σ'.f t).end_ = some (rest.foldl maxT c)) := by
  rcases bwdPlace_cases env σ σ' t m v h with ⟨hm', _⟩ | ⟨_, σ1, σ2, σ3, h1, h2, h3, rfl⟩
  · rw [hm] at hm'; cases hm'
  · have hend := bwdEnd_sum env _ _ t m v { σ with res := (resLookup σ.res (env.info t).resource).1 } σ1 hleaf he h1
    obtain ⟨_, he2⟩ := fillEst_dates env t σ1 σ2 h2
    obtain ⟨hs3, he3, hr3⟩ := bwdStart_sum env _ _ t m σ2 σ3 hleaf h3
    have st1 := bwdEnd_stage env _ _ t m v _ σ1 h1
    have st2 := fillEst_stage env t σ1 σ2 h2
    refine ⟨hs3, ?_, ?_⟩
    · show σ3.rows = _
      rw [hr3, st2.rows, st1.rows]; simp
    · show (σ3.f t).end_ = some m ∨ ∃ c rest, _ ∧ (σ3.f t).end_ = _
      rw [he3, he2]
      exact hend

/-! ### the base invariant of a backward run without fixed dates (carries the deadline clause) -/

structure Base (env : Env) (σ : SS) : Prop where
  ledger : LedgerOK env σ
  rowsDone : ∀ r ∈ σ.rows, r.task ∈ σ.done
  fresh : ∀ t, (env.info t).member = true → t ∉ σ.done → (σ.f t).start = none ∧ (σ.f t).end_ = none
  doneMem : ∀ t ∈ σ.done, (env.info t).member = true
  hasRes : ∀ t ∈ σ.done, (σ.res.map (·.1)).contains (env.info t).resource = true
  dates : ∀ t ∈ σ.done, ∃ s e, (σ.f t).start = some s ∧ (σ.f t).end_ = some e ∧ e ≤ env.bound

theorem bwdPlace_res (env : Env) (σ σ' : SS) (t : Uid) (m v : Time) (h : bwdPlace env σ t m v = .ok σ') :
    σ'.res = (resLookup σ.res (env.info t).resource).1 := by
  obtain ⟨new, σm, hs, rfl, _⟩ := bwdPlace_stage env σ σ' t m v h
  exact hs.res

/-- the end computed for a leaf lies on or before `minSucc` -/
theorem LeafPlaced.end_le {env : Env} {σ σ' : SS} {t : Uid} {m v : Time} {d : Int} {c : Rat} {s : Time}
    {rows : List (Int × Rat)} (hp : LeafPlaced env σ σ' t m v d c s rows) (hl : LedgerOK env σ) :
    (d : Rat) + 1 - placeUsed env σ t d / c ≤ v := by
  have hu := placeUsed_nonneg env σ t hl d
  have hfr := div_nonneg_lt_one (u := placeUsed env σ t d) (c := c) hu (by have := hp.avail; grind)
  have h1 := int_succ_le_cast hp.dlt
  have h2 := dayOf_le v
  grind

/-- dates a placement writes: both are set, the end respects the deadline, and for a leaf or milestone it does
    not exceed `minSucc` -/
theorem bwdPlace_dates (env : Env) (σ σ' : SS) (t : Uid) (m v : Time) (hb : Base env σ)
    (hmem : (env.info t).member = true) (ht : t ∉ σ.done) (hk : ∀ c ∈ (env.info t).children, c ∈ σ.done)
    (hmb : m ≤ env.bound) (hvm : v ≤ m) (h : bwdPlace env σ t m v = .ok σ') :
    ∃ s e, (σ'.f t).start = some s ∧ (σ'.f t).end_ = some e ∧ e ≤ env.bound ∧
      ((env.info t).children.isEmpty = true ∨ (env.info t).milestone = true → e ≤ v) := by
  obtain ⟨hs0, he0⟩ := hb.fresh t hmem ht
  cases hm : (env.info t).milestone with
  | true =>
    obtain ⟨h1, h2, _⟩ := bwdPlace_milestone env σ σ' t m v hm h
    exact ⟨v, v, h1, h2, by grind, fun _ => Rat.le_refl⟩
  | false =>
    cases hleaf : (env.info t).children.isEmpty with
    | true =>
      obtain ⟨d, c, s, rows, hp⟩ := bwdPlace_leaf env σ σ' t m v hb.ledger hleaf hm hs0 he0 h
      have := hp.end_le hb.ledger
      exact ⟨s, _, hp.start, hp.end_, by grind, fun _ => this⟩
    | false =>
      obtain ⟨⟨s, hs⟩, _, hend⟩ := bwdPlace_sum env σ σ' t m v hleaf hm he0 h
      rcases hend with hend | ⟨c, rest, hc, hend⟩
      · exact ⟨s, m, hs, hend, hmb, fun hh => by simp at hh⟩
      · refine ⟨s, _, hs, hend, ?_, fun hh => by simp at hh⟩
        have hall : ∀ y ∈ c :: rest, y ≤ env.bound := by
          intro y hy
          rw [← hc] at hy
          obtain ⟨ch, hch, hy⟩ := List.mem_filterMap.1 hy
          obtain ⟨_, e, _, he, hle⟩ := hb.dates ch (hk ch hch)
          rw [he] at hy
          cases hy
          exact hle
        exact foldl_maxT_le rest c _ (hall c (by simp)) (fun y hy => hall y (List.mem_cons_of_mem _ hy))

theorem Base.place {env : Env} {σ σ' : SS} {t : Uid} {m v : Time} (hb : Base env σ)
    (hmem : (env.info t).member = true) (ht : t ∉ σ.done) (hk : ∀ c ∈ (env.info t).children, c ∈ σ.done)
    (hmb : m ≤ env.bound) (hvm : v ≤ m) (h : bwdPlace env σ t m v = .ok σ') : Base env σ' := by
  obtain ⟨hext, hd⟩ := bwdPlace_ext env σ σ' t m v ht h
  obtain ⟨r, hr, hrd⟩ := hext.rows
  obtain ⟨rr, hrr, _⟩ := hext.res
  refine ⟨bwdPlace_ledger env σ σ' t m v hb.ledger h, ?_, ?_, ?_, ?_, ?_⟩
  · intro x hx
    rw [hr] at hx
    rcases List.mem_append.1 hx with hx | hx
    · exact hext.done_sub (hb.rowsDone x hx)
    · exact (hrd x hx).1
  · intro x hxm hx
    rw [hext.untouched x hx]
    exact hb.fresh x hxm (fun hc => hx (hext.done_sub hc))
  · intro x hx
    rw [hd] at hx
    rcases List.mem_append.1 hx with hx | hx
    · exact hb.doneMem x hx
    · simp only [List.mem_singleton] at hx; subst hx; exact hmem
  · intro x hx
    rw [hd] at hx
    rcases List.mem_append.1 hx with hx | hx
    · rw [hrr]; exact contains_append_left _ _ _ (hb.hasRes x hx)
    · simp only [List.mem_singleton] at hx
      subst hx
      rw [bwdPlace_res env σ σ' x m v h]
      exact (resLookup_spec σ.res (env.info x).resource).2.2
  · intro x hx
    rw [hd] at hx
    rcases List.mem_append.1 hx with hx | hx
    · rw [hext.frozen x hx]; exact hb.dates x hx
    · simp only [List.mem_singleton] at hx
      subst hx
      obtain ⟨s, e, h1, h2, h3, _⟩ := bwdPlace_dates env σ σ' x m v hb hmem ht hk hmb hvm h
      exact ⟨s, e, h1, h2, h3⟩

/-! ### from `backwardCalc` to the final pass state -/

/-- the observable part of a pass state -/
def outOf (σ : SS) : Output := { f := σ.f, rows := σ.rows, res := σ.res }

theorem Base.init (env : Env) (f0 : Uid → Fields) (res0 : List (Option Nat × Cal)) (mem : List Uid)
    (hf : env.flagsOK) (hn : noFixedDates env f0 = true) (hm : members env = some mem) :
    Base env { f := prepare env f0 mem, rows := [], done := [], res := res0, reads := 0 } := by
  refine ⟨LedgerOK.init env _ rfl, by simp, ?_, by simp, by simp, by simp⟩
  intro t htm _
  have htl : t ∈ memberList env := (hf t).1 htm
  have htmem : t ∈ mem := by rw [← memberList_eq env mem hm]; exact htl
  show ((prepare env f0 mem t).start = none ∧ (prepare env f0 mem t).end_ = none)
  unfold prepare
  cases hleaf : (env.info t).children.isEmpty with
  | true =>
    simp only [Bool.not_true, Bool.and_false, Bool.false_eq_true, if_false]
    have := List.all_eq_true.1 hn t htl
    simp only [isLeaf, hleaf, Bool.not_true, Bool.false_or, Bool.and_eq_true, Option.isNone_iff_eq_none] at this
    exact this
  | false =>
    simp [htmem]

/-- run-level induction: an invariant `X` kept by every placement (on top of `Base`, with the dates handed down
    related by `R`) holds of the final state, in which every member is done -/
theorem backwardCalc_final (env : Env) (f0 : Uid → Fields) (res0 : List (Option Nat × Cal)) (o : Output)
    (hf : env.flagsOK) (hn : noFixedDates env f0 = true) (h : backwardCalc env f0 res0 = .ok o)
    (X : SS → Prop) (R : Uid → Time → Prop)
    (hX0 : ∀ σ : SS, σ.done = [] → X σ)
    (hR : ∀ t m, R t m → (env.info t).member = true ∧ m ≤ env.bound)
    (hroot : ∀ r ∈ env.roots, R r env.bound)
    (hkids : ∀ σ1 t c m, R t m → c ∈ (env.info t).children → R c (minStarts σ1 (env.info t).succs m))
    (hlinks : ∀ t p m, R t m → p ∈ (env.info t).succs → (env.info p).member = (env.info t).member → R p m)
    (hplace : ∀ σ1 σ σ' t m, R t m → Base env σ → X σ → t ∉ σ.done → Ext σ1 σ →
      (∀ s ∈ (env.info t).succs, (env.info s).member = (env.info t).member → s ∈ σ1.done) →
      (∀ c ∈ (env.info t).children, c ∈ σ.done) →
      bwdPlace env σ t m (minStarts σ1 (env.info t).succs m) = .ok σ' → Base env σ' → X σ') :
    ∃ σ, Base env σ ∧ X σ ∧ o = outOf σ ∧ ∀ t ∈ memberList env, t ∈ σ.done := by
  obtain ⟨mem, σ, hm, hp, ho⟩ := bwdRun_ok env f0 res0 o (backwardCalc_run env f0 res0 o h)
  have hI : DoneClosed env σ ∧ Base env σ ∧ X σ := by
    refine passList_inv (fun s => DoneClosed env s ∧ Base env s ∧ X s) _ _ ?_ _ _
      ⟨?_, Base.init env f0 res0 mem hf hn hm, hX0 _ rfl⟩ hp
    · intro a x b hx ha hh
      refine ⟨bwdPass_doneClosed env _ _ _ _ _ _ ha.1 hh, ?_⟩
      refine bwdPass_inv2 env (fun s => Base env s ∧ X s) R ?_ hkids hlinks _ _ _ _ _ _
        (hroot x (List.mem_reverse.1 hx)) ha.2 hh
      intro σ1 s s' t m hr hi ht he hsd hk hpl
      obtain ⟨hmem, hmb⟩ := hR t m hr
      have hb' : Base env s' := hi.1.place hmem ht hk hmb (minStarts_le _ _ _) hpl
      exact ⟨hb', hplace σ1 s s' t m hr hi.1 hi.2 ht he hsd hk hpl hb'⟩
    · intro x hx; cases hx
  have hroots : ∀ r ∈ env.roots, r ∈ σ.done := fun r hr =>
    passList_all_done _ _ (fun a x b _ hh => bwdPass_ext env _ _ _ _ _ _ hh) _ _ hp r (List.mem_reverse.2 hr)
  refine ⟨σ, hI.2.1, hI.2.2, ho, ?_⟩
  intro t ht
  rw [memberList_eq env mem hm] at ht
  obtain ⟨rt, hrt, l, hl, htl⟩ := (members_spec env mem hm).2 t ht
  exact hI.1.subtree (hroots rt hrt) _ l hl t htl

/-- the relation used for the clauses that hold for every WBS: members, called with a date not after the bound -/
def RDeadline (env : Env) (t : Uid) (m : Time) : Prop := (env.info t).member = true ∧ m ≤ env.bound

theorem member_child (env : Env) (hf : env.flagsOK) (t c : Uid) (ht : (env.info t).member = true)
    (hc : c ∈ (env.info t).children) : (env.info c).member = true := by
  have htl := (hf t).1 ht
  cases hm : members env with
  | none => simp [memberList, hm] at htl
  | some mem =>
    rw [memberList_eq env mem hm] at htl
    exact (hf c).2 (by rw [memberList_eq env mem hm]; exact members_children env mem hm t htl c hc)

theorem member_root (env : Env) (hf : env.flagsOK) (f0 : Uid → Fields) (res0 : List (Option Nat × Cal)) (o : Output)
    (h : backwardCalc env f0 res0 = .ok o) : ∀ r ∈ env.roots, (env.info r).member = true := by
  obtain ⟨mem, σ, hm, _, _⟩ := bwdRun_ok env f0 res0 o (backwardCalc_run env f0 res0 o h)
  intro r hr
  exact (hf r).2 (by rw [memberList_eq env mem hm]; exact members_root env mem hm r hr)

theorem backwardCalc_c09Deadline (env : Env) (f0 : Uid → Fields) (res0 : List (Option Nat × Cal)) (o : Output)
    (hf : env.flagsOK) (hn : noFixedDates env f0 = true) (h : backwardCalc env f0 res0 = .ok o) :
    c09Deadline env o = true := by
  obtain ⟨σ, hb, _, rfl, hall⟩ := backwardCalc_final env f0 res0 o hf hn h (fun _ => True) (RDeadline env)
    (fun _ _ => trivial) (fun _ _ hr => hr)
    (fun r hr => ⟨member_root env hf f0 res0 o h r hr, Rat.le_refl⟩)
    (fun σ1 t c m hr hc => ⟨member_child env hf t c hr.1 hc, Rat.le_trans (minStarts_le _ _ _) hr.2⟩)
    (fun t p m hr _ he => ⟨he.trans hr.1, hr.2⟩)
    (fun _ _ _ _ _ _ _ _ _ _ _ _ _ _ => trivial)
  unfold c09Deadline
  rw [List.all_eq_true]
  intro t ht
  obtain ⟨s, e, _, he, hle⟩ := hb.dates t (hall t ht)
  show (match (σ.f t).end_ with | some e => decide (e ≤ env.bound) | none => false) = true
  rw [he]
  simpa using hle

/-! ### ledger bookkeeping: a task's rows, first/last day, what was booked before it -/

theorem rowsOf_append (a b : List Row) (t : Uid) : rowsOf (a ++ b) t = rowsOf a t ++ rowsOf b t := by
  simp [rowsOf, List.filter_append]

theorem rowsOf_none (b : List Row) (t : Uid) (h : ∀ x ∈ b, x.task ≠ t) : rowsOf b t = [] := by
  unfold rowsOf
  exact List.filter_eq_nil_iff.2 (fun x hx => by simpa using h x hx)

theorem rowsOf_mk (k : Option Nat) (t : Uid) (new : List (Int × Rat)) :
    rowsOf (new.map (mkRow k t)) t = new.map (mkRow k t) := by
  unfold rowsOf
  exact List.filter_eq_self.2 (fun x hx => by
    obtain ⟨p, _, rfl⟩ := List.mem_map.1 hx
    simp [mkRow])

theorem reserved_other (b : List Row) (k : Option Nat) (d : Int) (t : Uid) (h : ∀ x ∈ b, x.task ≠ t) :
    reserved b k d (some t) = 0 := by
  unfold reserved
  rw [List.filter_eq_nil_iff.2 (fun x hx => by simp [h x hx])]
  simp

theorem firstRowIdx_append_some (a b : List Row) (t : Uid) (i : Nat) (h : firstRowIdx a t = some i) :
    firstRowIdx (a ++ b) t = some i ∧ i ≤ a.length := by
  unfold firstRowIdx at h ⊢
  refine ⟨by rw [List.findIdx?_append, h]; rfl, ?_⟩
  have := (List.findIdx?_eq_some_iff_findIdx_eq.1 h).1
  omega

theorem firstRowIdx_of_rows (a : List Row) (t : Uid) (h : rowsOf a t ≠ []) : ∃ i, firstRowIdx a t = some i := by
  cases hi : firstRowIdx a t with
  | some i => exact ⟨i, rfl⟩
  | none =>
    exfalso
    apply h
    unfold firstRowIdx at hi
    rw [List.findIdx?_eq_none_iff] at hi
    exact rowsOf_none a t (fun x hx => by simpa using hi x hx)

theorem firstRowIdx_new (a : List Row) (k : Option Nat) (t : Uid) (new : List (Int × Rat))
    (ha : ∀ x ∈ a, x.task ≠ t) (hne : new ≠ []) :
    firstRowIdx (a ++ new.map (mkRow k t)) t = some a.length := by
  unfold firstRowIdx
  rw [List.findIdx?_append]
  have h1 : a.findIdx? (fun r => r.task == t) = none :=
    List.findIdx?_eq_none_iff.2 (fun x hx => by simpa using ha x hx)
  rw [h1]
  cases new with
  | nil => exact absurd rfl hne
  | cons p l => simp [List.findIdx?_cons, mkRow]

/-- `bookedBefore` depends on the ledger only -/
def bookedBeforeR (env : Env) (rows : List Row) (k : Option Nat) (d : Int) (t : Uid) : Rat :=
  if env.balance then
    match firstRowIdx rows t with
    | some i => reserved (rows.take i) k d none
    | none => reserved rows k d none
  else 0

theorem bookedBefore_eq (env : Env) (o : Output) (k : Option Nat) (d : Int) (t : Uid) :
    bookedBefore env o k d t = bookedBeforeR env o.rows k d t := rfl

theorem bookedBeforeR_append (env : Env) (a b : List Row) (k : Option Nat) (d : Int) (t : Uid)
    (h : rowsOf a t ≠ []) : bookedBeforeR env (a ++ b) k d t = bookedBeforeR env a k d t := by
  obtain ⟨i, hi⟩ := firstRowIdx_of_rows a t h
  obtain ⟨h1, h2⟩ := firstRowIdx_append_some a b t i hi
  unfold bookedBeforeR
  rw [h1, hi]
  simp only [List.take_append_of_le_length h2]

/-- at its placement a task sees, as `used`, exactly what `bookedBefore` reports afterwards -/
theorem bookedBeforeR_new (env : Env) (a : List Row) (t : Uid) (new : List (Int × Rat)) (d : Int)
    (ha : ∀ x ∈ a, x.task ≠ t) (hne : new ≠ []) :
    bookedBeforeR env (a ++ new.map (mkRow (env.info t).resource t)) (env.info t).resource d t =
      usedBy env a (env.info t).resource t d := by
  unfold bookedBeforeR usedBy
  rw [firstRowIdx_new a _ t new ha hne]
  by_cases hb : env.balance = true
  · simp only [hb, if_true, List.take_left' rfl]
  · simp only [hb, Bool.false_eq_true, if_false]
    exact (reserved_other a _ d t ha).symm

theorem firstDay_go : ∀ (l : List Int) (x : Int),
    ∃ d, l.foldl (fun m d => match m with | none => some d | some x => some (min x d)) (some x) = some d ∧
      (d = x ∨ d ∈ l) ∧ d ≤ x ∧ ∀ y ∈ l, d ≤ y
  | [], x => ⟨x, rfl, Or.inl rfl, Int.le_refl _, by simp⟩
  | y :: l, x => by
    obtain ⟨d, h1, h2, h3, h4⟩ := firstDay_go l (min x y)
    refine ⟨d, by simpa using h1, ?_, by omega, ?_⟩
    · rcases h2 with h2 | h2
      · by_cases hxy : x ≤ y
        · exact Or.inl (by omega)
        · exact Or.inr (by simp; omega)
      · exact Or.inr (List.mem_cons_of_mem _ h2)
    · intro z hz
      rcases List.mem_cons.1 hz with rfl | hz
      · omega
      · exact h4 z hz

theorem lastDay_go : ∀ (l : List Int) (x : Int),
    ∃ d, l.foldl (fun m d => match m with | none => some d | some x => some (max x d)) (some x) = some d ∧
      (d = x ∨ d ∈ l) ∧ x ≤ d ∧ ∀ y ∈ l, y ≤ d
  | [], x => ⟨x, rfl, Or.inl rfl, Int.le_refl _, by simp⟩
  | y :: l, x => by
    obtain ⟨d, h1, h2, h3, h4⟩ := lastDay_go l (max x y)
    refine ⟨d, by simpa using h1, ?_, by omega, ?_⟩
    · rcases h2 with h2 | h2
      · by_cases hxy : y ≤ x
        · exact Or.inl (by omega)
        · exact Or.inr (by simp; omega)
      · exact Or.inr (List.mem_cons_of_mem _ h2)
    · intro z hz
      rcases List.mem_cons.1 hz with rfl | hz
      · omega
      · exact h4 z hz

theorem firstDay_spec (rows : List Row) (d : Int) (h : firstDay rows = some d) :
    (∃ r ∈ rows, r.day = d) ∧ ∀ r ∈ rows, d ≤ r.day := by
  cases rows with
  | nil => simp [firstDay] at h
  | cons r l =>
    unfold firstDay at h
    simp only [List.map_cons, List.foldl_cons] at h
    obtain ⟨d', h1, h2, h3, h4⟩ := firstDay_go (l.map (·.day)) r.day
    have hdd : some d' = some d := h1.symm.trans h
    cases hdd
    constructor
    · rcases h2 with h2 | h2
      · exact ⟨r, by simp, h2.symm⟩
      · obtain ⟨x, hx, rfl⟩ := List.mem_map.1 h2
        exact ⟨x, List.mem_cons_of_mem _ hx, rfl⟩
    · intro x hx
      rcases List.mem_cons.1 hx with rfl | hx
      · exact h3
      · exact h4 _ (List.mem_map_of_mem hx)

theorem lastDay_spec (rows : List Row) (d : Int) (h : lastDay rows = some d) :
    (∃ r ∈ rows, r.day = d) ∧ ∀ r ∈ rows, r.day ≤ d := by
  cases rows with
  | nil => simp [lastDay] at h
  | cons r l =>
    unfold lastDay at h
    simp only [List.map_cons, List.foldl_cons] at h
    obtain ⟨d', h1, h2, h3, h4⟩ := lastDay_go (l.map (·.day)) r.day
    have hdd : some d' = some d := h1.symm.trans h
    cases hdd
    constructor
    · rcases h2 with h2 | h2
      · exact ⟨r, by simp, h2.symm⟩
      · obtain ⟨x, hx, rfl⟩ := List.mem_map.1 h2
        exact ⟨x, List.mem_cons_of_mem _ hx, rfl⟩
    · intro x hx
      rcases List.mem_cons.1 hx with rfl | hx
      · exact h3
      · exact h4 _ (List.mem_map_of_mem hx)

theorem firstDay_some (rows : List Row) (h : rows ≠ []) : ∃ d, firstDay rows = some d := by
  cases rows with
  | nil => exact absurd rfl h
  | cons r l =>
    obtain ⟨d', h1, _⟩ := firstDay_go (l.map (·.day)) r.day
    exact ⟨d', h1⟩

/-- the first (earliest) day of a backward fill is the last day the loop visited -/
theorem firstDay_fill {cal : Cal} {used : Int → Rat} {day0 : Int} {left : Rat} {new : List (Int × Rat)}
    {dayL : Int} (hs : FillBwdSpec cal used day0 left new dayL) (hne : new ≠ []) (k : Option Nat) (t : Uid) :
    firstDay (new.map (mkRow k t)) = some dayL := by
  obtain ⟨d, hd⟩ := firstDay_some (new.map (mkRow k t)) (by simpa using hne)
  obtain ⟨⟨r, hr, hrd⟩, hmin⟩ := firstDay_spec _ d hd
  obtain ⟨u, hlast⟩ := hs.last hne
  have hmemL : (dayL, u) ∈ new := List.mem_of_getLast? hlast
  obtain ⟨p, hp, rfl⟩ := List.mem_map.1 hr
  have h1 := (hs.range p hp).2
  have h2 := hmin _ (List.mem_map_of_mem (f := mkRow k t) hmemL)
  simp only [mkRow] at hrd h2
  rw [hd]
  congr 1
  omega

end Pj
