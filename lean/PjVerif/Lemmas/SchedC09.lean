/-
  Lemmas/SchedC09.lean — helper lemmas for Props/C09.lean (pass-level reasoning on top of Lemmas/SchedPass.lean).
-/
import PjVerif.Lemmas.SchedPass
import PjVerif.Spec.Sched2
namespace Pj

/-! ### folds of `minT` / `maxT` -/

theorem minT_le_left (a b : Time) : minT a b ≤ a := by unfold minT; split <;> grind
theorem minT_le_right (a b : Time) : minT a b ≤ b := by unfold minT; split <;> grind
theorem le_minT {x a b : Time} (h1 : x ≤ a) (h2 : x ≤ b) : x ≤ minT a b := by unfold minT; split <;> assumption
theorem maxT_le {x a b : Time} (h1 : a ≤ x) (h2 : b ≤ x) : maxT a b ≤ x := by unfold maxT; split <;> assumption

theorem foldl_minT_le_init : ∀ (l : List Time) (b : Time), l.foldl minT b ≤ b
  | [], _ => by simp
  | y :: l, b => by
    simp only [List.foldl_cons]
    have h1 := foldl_minT_le_init l (minT b y)
    have h2 := minT_le_left b y
    grind

theorem foldl_minT_le_mem : ∀ (l : List Time) (b y : Time), y ∈ l → l.foldl minT b ≤ y
  | [], _, _, h => by cases h
  | z :: l, b, y, h => by
    simp only [List.foldl_cons]
    rcases List.mem_cons.1 h with rfl | h
    · have h1 := foldl_minT_le_init l (minT b y)
      have h2 := minT_le_right b y
      grind
    · exact foldl_minT_le_mem l _ y h

theorem le_foldl_minT : ∀ (l : List Time) (b x : Time), x ≤ b → (∀ y ∈ l, x ≤ y) → x ≤ l.foldl minT b
  | [], _, _, h, _ => by simpa using h
  | z :: l, b, x, h, hl => by
    simp only [List.foldl_cons]
    exact le_foldl_minT l _ x (le_minT h (hl z (by simp))) (fun y hy => hl y (List.mem_cons_of_mem _ hy))

theorem foldl_maxT_le : ∀ (l : List Time) (b x : Time), b ≤ x → (∀ y ∈ l, y ≤ x) → l.foldl maxT b ≤ x
  | [], _, _, h, _ => by simpa using h
  | z :: l, b, x, h, hl => by
    simp only [List.foldl_cons]
    exact foldl_maxT_le l _ x (maxT_le h (hl z (by simp))) (fun y hy => hl y (List.mem_cons_of_mem _ hy))

theorem minStarts_le (σ : SS) (l : List Uid) (m : Time) : minStarts σ l m ≤ m :=
  foldl_minT_le_init _ _

theorem minStarts_le_start (σ : SS) (l : List Uid) (m : Time) (s : Uid) (st : Time) (hs : s ∈ l)
    (h : (σ.f s).start = some st) : minStarts σ l m ≤ st :=
  foldl_minT_le_mem _ _ _ (List.mem_filterMap.2 ⟨s, hs, h⟩)

theorem minStarts_congr (σ σ' : SS) (l : List Uid) (m : Time) (h : ∀ s ∈ l, σ'.f s = σ.f s) :
    minStarts σ' l m = minStarts σ l m := by
  unfold minStarts
  congr 1
  induction l with
  | nil => rfl
  | cons a l ih =>
    simp only [List.filterMap_cons, h a (by simp)]
    rw [ih (fun s hs => h s (List.mem_cons_of_mem _ hs))]

/-! ### days -/

theorem dayOf_le (t : Time) : ((dayOf t : Int) : Rat) ≤ t := Rat.floor_le t

theorem dayOf_mono {a b : Time} (h : a ≤ b) : dayOf a ≤ dayOf b := by
  unfold dayOf
  exact Rat.le_floor_iff.2 (Rat.le_trans (Rat.floor_le a) h)

theorem int_succ_le_cast {a b : Int} (h : a < b) : (a : Rat) + 1 ≤ (b : Rat) := by
  have : ((a + 1 : Int) : Rat) ≤ (b : Rat) := Rat.intCast_le_intCast.2 (by omega)
  rw [Rat.intCast_add] at this
  exact this

theorem mem_daysBetween (a b d : Int) : d ∈ daysBetween a b ↔ a ≤ d ∧ d < b := by
  unfold daysBetween
  simp only [List.mem_map, List.mem_range]
  constructor
  · rintro ⟨i, hi, rfl⟩
    omega
  · intro h
    exact ⟨(d - a).toNat, by omega, by omega⟩

/-- the day `c09Encode` recovers from a computed end `d + 1 − x`, `0 ≤ x < 1` -/
theorem endDay_spec (d : Int) (x : Rat) (h0 : 0 ≤ x) (h1 : x < 1) :
    (if ((d : Rat) + 1 - x) == ((dayOf ((d : Rat) + 1 - x) : Int) : Rat) then dayOf ((d : Rat) + 1 - x) - 1
      else dayOf ((d : Rat) + 1 - x)) = d := by
  by_cases hx : x = 0
  · subst hx
    have he : (d : Rat) + 1 - 0 = ((d + 1 : Int) : Rat) := by rw [Rat.intCast_add]; grind
    rw [he, dayOf_intCast]
    simp
  · have he : (d : Rat) + 1 - x = (d : Rat) + (1 - x) := by grind
    have hd : dayOf ((d : Rat) + 1 - x) = d := by
      rw [he]; exact dayOf_add_frac d _ (by grind) (by grind)
    rw [hd]
    have hne : ¬ ((d : Rat) + 1 - x = (d : Rat)) := by grind
    simp [hne]

/-! ### the backward pass with its dates: every placement knows where its `minDate`/`minSucc` came from -/

theorem passList_done_if (P : Uid → Prop) (step : SS → Uid → Res SS) :
    ∀ (xs : List Uid), (∀ σ x σ', x ∈ xs → step σ x = .ok σ' → Ext σ σ' ∧ (P x → x ∈ σ'.done)) →
      ∀ (σ σ' : SS), passList step σ xs = .ok σ' → ∀ x ∈ xs, P x → x ∈ σ'.done := by
  intro xs
  induction xs with
  | nil => intro _ σ σ' _ x hx; cases hx
  | cons y xs ih =>
    intro hstep σ σ' h x hx hp
    simp only [passList, bind, Except.bind] at h
    split at h
    · cases h
    · rename_i σ1 h1
      have hrest := fun σ z σ' (hz : z ∈ xs) => hstep σ z σ' (List.mem_cons_of_mem _ hz)
      rcases List.mem_cons.1 hx with rfl | hx
      · have he : Ext σ1 σ' := passList_rel Ext Ext.refl (fun _ _ _ => Ext.trans) step xs
          (fun σ z σ' hz hh => (hrest σ z σ' hz hh).1) σ1 σ' h
        exact he.done_sub ((hstep σ x σ1 List.mem_cons_self h1).2 hp)
      · exact ih hrest σ1 σ' h x hx hp

/-- induction over a backward pass that keeps track of the dates handed down: `R t m` relates a task to the
    `minDate` it is called with; the placement learns that its `minSucc` is `minStarts` over the successors in a
    state `σ1` that the placement state extends and in which the same-side successors are done -/
theorem bwdPass_inv2 (env : Env) (I : SS → Prop) (R : Uid → Time → Prop)
    (hplace : ∀ σ1 σ σ' t m, R t m → I σ → t ∉ σ.done → Ext σ1 σ →
      (∀ s ∈ (env.info t).succs, (env.info s).member = (env.info t).member → s ∈ σ1.done) →
      (∀ c ∈ (env.info t).children, c ∈ σ.done) →
      bwdPlace env σ t m (minStarts σ1 (env.info t).succs m) = .ok σ' → I σ')
    (hkids : ∀ σ1 t c m, R t m → c ∈ (env.info t).children → R c (minStarts σ1 (env.info t).succs m))
    (hlinks : ∀ t p m, R t m → p ∈ (env.info t).succs → (env.info p).member = (env.info t).member → R p m) :
    ∀ (fuel : Nat) (stk : List Uid) (σ : SS) (t : Uid) (m : Time) (σ' : SS),
      R t m → I σ → bwdPass env fuel stk σ t m = .ok σ' → I σ' := by
  intro fuel
  induction fuel with
  | zero => intro stk σ t m σ' _ _ h; cases h
  | succ fuel ih =>
    intro stk σ t m σ' hq hi h
    rw [bwdPass_eq_gPass] at h
    rcases gPass_succ_cases env _ _ _ _ fuel stk σ t m σ' h with ⟨hd, rfl⟩ | ⟨hd, hs, σ1, σ2, h1, h2, h3⟩
    · exact hi
    · simp only [← bwdPass_eq_gPass] at h1 h2
      have e1 : ExtS (t :: stk) σ σ1 := passList_extS _ _ _ (fun a x b _ hh => by
        split at hh
        · exact (bwdPass_extS env _ _ _ _ _ _ hh).1
        · cases hh; exact ExtS.refl _ _) _ _ h1
      have e2 : ExtS (t :: stk) σ1 σ2 := passList_extS _ _ _ (fun a x b _ hh =>
        (bwdPass_extS env _ _ _ _ _ _ hh).1) _ _ h2
      have ht2 : t ∉ σ2.done := (e1.trans e2).2 t List.mem_cons_self hd
      have i1 : I σ1 := passList_inv I _ _ (fun a x b hxl ha hh => by
        split at hh
        · rename_i hm
          exact ih _ _ _ _ _ (hlinks t x m hq hxl (by simpa using hm)) ha hh
        · cases hh; exact ha) _ _ hi h1
      have i2 : I σ2 := passList_inv I _ _ (fun a x b hxl ha hh =>
        ih _ _ _ _ _ (hkids σ1 t x m hq (List.mem_reverse.1 hxl)) ha hh) _ _ i1 h2
      have hk : ∀ c ∈ (env.info t).children, c ∈ σ2.done := fun c hc =>
        passList_all_done _ _ (fun a x b _ hh =>
          ⟨(bwdPass_extS env _ _ _ _ _ _ hh).1.1, (bwdPass_extS env _ _ _ _ _ _ hh).2⟩) _ _ h2 c (List.mem_reverse.2 hc)
      have hsd : ∀ s ∈ (env.info t).succs, (env.info s).member = (env.info t).member → s ∈ σ1.done :=
        passList_done_if (fun s => (env.info s).member = (env.info t).member) _ _ (fun a x b _ hh => by
          split at hh
          · exact ⟨(bwdPass_extS env _ _ _ _ _ _ hh).1.1, fun _ => (bwdPass_extS env _ _ _ _ _ _ hh).2⟩
          · rename_i hm
            cases hh
            exact ⟨Ext.refl _, fun hp => absurd (by simpa using hp) hm⟩) _ _ h1
      exact hplace σ1 σ2 σ' t m hq i2 ht2 e2.1 hsd hk h3

/-! ### one backward placement, stage by stage, with the values written -/

theorem bwdPlace_cases (env : Env) (σ σ' : SS) (t : Uid) (m v : Time) (h : bwdPlace env σ t m v = .ok σ') :
    ((env.info t).milestone = true ∧
      σ' = markDone (setF { σ with res := (resLookup σ.res (env.info t).resource).1 } t
        (fun _ => { start := some v, end_ := some v, est := some 0, spent := some 0 })) t) ∨
    ((env.info t).milestone = false ∧ ∃ σ1 σ2 σ3,
      bwdEnd env (resLookup σ.res (env.info t).resource).2 (usedBy env σ.rows (env.info t).resource t) t m v
        { σ with res := (resLookup σ.res (env.info t).resource).1 } = .ok σ1 ∧
      fillEst env t σ1 = .ok σ2 ∧
      bwdStart env (resLookup σ.res (env.info t).resource).2 (usedBy env σ.rows (env.info t).resource t) t m σ2 = .ok σ3 ∧
      σ' = markDone σ3 t) := by
  unfold bwdPlace at h
  rcases hr : resLookup σ.res (env.info t).resource with ⟨res', cal⟩
  simp only [hr, bind, Except.bind, pure, Except.pure] at h ⊢
  split at h
  · rename_i hm
    cases h
    exact Or.inl ⟨hm, rfl⟩
  · rename_i hm
    split at h
    · cases h
    · rename_i σ1 h1
      split at h
      · cases h
      · rename_i σ2 h2
        split at h
        · cases h
        · rename_i σ3 h3
          cases h
          exact Or.inr ⟨by simpa using hm, σ1, σ2, σ3, h1, h2, h3, rfl⟩

/-- `fillEst` leaves the dates alone -/
theorem fillEst_dates (env : Env) (t : Uid) (σ σ' : SS) (h : fillEst env t σ = .ok σ') :
    (σ'.f t).start = (σ.f t).start ∧ (σ'.f t).end_ = (σ.f t).end_ := by
  unfold fillEst at h
  simp only [bind, Except.bind] at h
  split at h
  · cases h
  · rename_i σ1 h1
    have s1 : (σ1.f t).start = (σ.f t).start ∧ (σ1.f t).end_ = (σ.f t).end_ := by
      split at h1
      · cases h1; exact ⟨rfl, rfl⟩
      · split at h1
        · cases h1; simp [setF, upd]
        · split at h1
          · cases h1
          · cases h1; simp [setF, upd]
    have s2 : (σ'.f t).start = (σ1.f t).start ∧ (σ'.f t).end_ = (σ1.f t).end_ := by
      split at h
      · cases h; exact ⟨rfl, rfl⟩
      · split at h
        · cases h; simp [setF, upd]
        · split at h
          · cases h
          · cases h; simp [setF, upd]
    exact ⟨s2.1.trans s1.1, s2.2.trans s1.2⟩

/-- the end a leaf gets when none is fixed -/
theorem bwdEnd_leaf (env : Env) (cal : Cal) (used : Int → Rat) (t : Uid) (m v : Time) (σ σ' : SS)
    (hleaf : (env.info t).children.isEmpty = true) (he : (σ.f t).end_ = none)
    (h : bwdEnd env cal used t m v σ = .ok σ') :
    ∃ e0, nearestBwd cal used v = .ok e0 ∧ (σ'.f t).end_ = some (e0 + 1) ∧ (σ'.f t).start = (σ.f t).start := by
  unfold bwdEnd at h
  simp only at h
  split at h
  · rename_i x hx; rw [he] at hx; cases hx
  · rw [if_pos hleaf] at h
    simp only [bind, Except.bind] at h
    split at h
    · cases h
    · rename_i e0 h0
      cases h
      exact ⟨e0, h0, by simp [setF, upd], by simp [setF, upd]⟩

/-- the end a task with children gets -/
theorem bwdEnd_sum (env : Env) (cal : Cal) (used : Int → Rat) (t : Uid) (m v : Time) (σ σ' : SS)
    (hleaf : (env.info t).children.isEmpty = false) (he : (σ.f t).end_ = none)
    (h : bwdEnd env cal used t m v σ = .ok σ') :
    ((σ'.f t).end_ = some m ∨
      ∃ c rest, (env.info t).children.filterMap (fun c => (σ.f c).end_) = c :: rest ∧
        (σ'.f t).end_ = some (rest.foldl maxT c)) := by
  unfold bwdEnd at h
  simp only at h
  split at h
  · rename_i x hx; rw [he] at hx; cases hx
  · rw [if_neg (by simp [hleaf])] at h
    split at h
    · cases h
      exact Or.inl (by simp [setF, upd])
    · rename_i c rest hc
      cases h
      exact Or.inr ⟨c, rest, hc, by simp [setF, upd]⟩

theorem bwdStart_leaf (env : Env) (cal : Cal) (used : Int → Rat) (t : Uid) (m : Time) (σ σ' : SS)
    (hleaf : (env.info t).children.isEmpty = true) (hs : (σ.f t).start = none)
    (h : bwdStart env cal used t m σ = .ok σ') :
    ∃ s rows, shiftBwd cal used (minT (((σ.f t).end_).getD epoch) m) (leftOf σ t) = .ok (s, rows) ∧
      (σ'.f t).start = some s ∧ (σ'.f t).end_ = (σ.f t).end_ ∧
      σ'.rows = σ.rows ++ rows.map (mkRow (env.info t).resource t) := by
  unfold bwdStart at h
  simp only at h
  rw [if_pos hleaf] at h
  simp only [bind, Except.bind] at h
  split at h
  · cases h
  · rename_i v hv
    obtain ⟨s, rows⟩ := v
    cases h
    refine ⟨s, rows, hv, ?_, ?_, ?_⟩
    · simp [setF, upd, addRows, hs]
    · simp [setF, upd, addRows]
    · simp only [setF, addRows]; rfl

theorem bwdStart_sum (env : Env) (cal : Cal) (used : Int → Rat) (t : Uid) (m : Time) (σ σ' : SS)
    (hleaf : (env.info t).children.isEmpty = false)
    (h : bwdStart env cal used t m σ = .ok σ') :
    (∃ s, (σ'.f t).start = some s) ∧ (σ'.f t).end_ = (σ.f t).end_ ∧ σ'.rows = σ.rows := by
  unfold bwdStart at h
  simp only at h
  rw [if_neg (by simp [hleaf])] at h
  split at h
  · cases h
  · cases h
    rename_i c rest _
    exact ⟨⟨rest.foldl minT c, by simp [setF, upd]⟩, by simp [setF, upd], by simp [setF]⟩

/-- `shiftBwd` with work to place: the exact start it computes -/
theorem shiftBwd_exact (cal : Cal) (used : Int → Rat) (end_ : Time) (left : Rat) (s : Time)
    (rows : List (Int × Rat)) (hl : 0 < left)
    (h : shiftBwd cal used end_ left = .ok (s, rows)) :
    ∃ dayL c, FillBwdSpec cal used (dayOf end_) left rows dayL ∧ rows ≠ [] ∧ capR cal (dayL : Rat) = .ok c ∧
      s = (dayL : Rat) + 1 - (used dayL + daySum rows dayL) / c := by
  unfold shiftBwd at h
  have h0 : ¬ left = 0 := by grind
  simp only [if_neg h0] at h
  cases hf : fillBwd cal used Extracted.bwdShiftMaxSteps (Extracted.bwdShiftMaxSteps + 2) 0
      (dayOf end_) left [] with
  | error err => rw [hf] at h; cases h
  | ok res =>
    obtain ⟨rows', dayL⟩ := res
    rw [hf] at h
    simp only [bind, Except.bind] at h
    cases hcap : capR cal (dayL : Rat) with
    | error err => rw [hcap] at h; cases h
    | ok c =>
      rw [hcap] at h
      simp only at h
      split at h
      · cases h
      · cases h
        obtain ⟨new, hrows, hspec, _⟩ := fillBwd_spec cal used _ _ _ _ _ _ _ _ (Rat.le_of_lt hl) hf
        simp only [List.nil_append] at hrows
        subst hrows
        have hne : rows ≠ [] := by
          intro hn
          subst hn
          have := hspec.total
          simp at this
          grind
        exact ⟨dayL, c, hspec, hne, hcap, rfl⟩

/-- the calendar and the ledger view a placement of `t` in state `σ` works with -/
abbrev placeCal (env : Env) (σ : SS) (t : Uid) : Cal := (resLookup σ.res (env.info t).resource).2
abbrev placeUsed (env : Env) (σ : SS) (t : Uid) : Int → Rat := usedBy env σ.rows (env.info t).resource t

/-- what the placement of a leaf without fixed dates does: `d` = the day the end is measured from, `c` its
    capacity, `s` the start, `rows` the reservations -/
structure LeafPlaced (env : Env) (σ σ' : SS) (t : Uid) (m v : Time) (d : Int) (c : Rat) (s : Time)
    (rows : List (Int × Rat)) : Prop where
  dlt : d < dayOf v
  cap : capR (placeCal env σ t) (d : Rat) = .ok c
  avail : 0 < c - placeUsed env σ t d
  fullAfter : ∀ d', d < d' → d' < dayOf v →
    ∃ c', capR (placeCal env σ t) (d' : Rat) = .ok c' ∧ c' - placeUsed env σ t d' ≤ 0
  end_ : (σ'.f t).end_ = some ((d : Rat) + 1 - placeUsed env σ t d / c)
  start : (σ'.f t).start = some s
  rowsEq : σ'.rows = σ.rows ++ rows.map (mkRow (env.info t).resource t)
  resEq : σ'.res = (resLookup σ.res (env.info t).resource).1
  fill : rows = [] ∨ ∃ dayL c' left,
    FillBwdSpec (placeCal env σ t) (placeUsed env σ t)
      (dayOf (minT ((d : Rat) + 1 - placeUsed env σ t d / c) m)) left rows dayL ∧ rows ≠ [] ∧
    capR (placeCal env σ t) (dayL : Rat) = .ok c' ∧
    s = (dayL : Rat) + 1 - (placeUsed env σ t dayL + daySum rows dayL) / c'

theorem placeUsed_nonneg (env : Env) (σ : SS) (t : Uid) (hl : LedgerOK env σ) (d : Int) : 0 ≤ placeUsed env σ t d :=
  reserved_nonneg _ hl.pos _ _ _

theorem bwdPlace_leaf (env : Env) (σ σ' : SS) (t : Uid) (m v : Time) (hl : LedgerOK env σ)
    (hleaf : (env.info t).children.isEmpty = true) (hm : (env.info t).milestone = false)
    (hs : (σ.f t).start = none) (he : (σ.f t).end_ = none) (h : bwdPlace env σ t m v = .ok σ') :
    ∃ d c s rows, LeafPlaced env σ σ' t m v d c s rows := by
  rcases bwdPlace_cases env σ σ' t m v h with ⟨hm', _⟩ | ⟨_, σ1, σ2, σ3, h1, h2, h3, rfl⟩
  · rw [hm] at hm'; cases hm'
  · have hu := placeUsed_nonneg env σ t hl
    obtain ⟨e0, hn, he1, hs1⟩ := bwdEnd_leaf env _ _ t m v { σ with res := (resLookup σ.res (env.info t).resource).1 } σ1 hleaf he h1
    obtain ⟨d, c, hd, hc, hav, he0, hfull⟩ := nearestBwd_spec _ _ v e0 hu hn
    obtain ⟨hs2, he2⟩ := fillEst_dates env t σ1 σ2 h2
    have hs2' : (σ2.f t).start = none := by rw [hs2, hs1]; exact hs
    obtain ⟨s, rows, hsh, hs3, he3, hr3⟩ := bwdStart_leaf env _ _ t m σ2 σ3 hleaf hs2' h3
    have st1 := bwdEnd_stage env _ _ t m v _ σ1 h1
    have st2 := fillEst_stage env t σ1 σ2 h2
    obtain ⟨new, st3, _⟩ := bwdStart_stage env _ _ t m σ2 σ3 h3
    have hend : (σ2.f t).end_ = some ((d : Rat) + 1 - placeUsed env σ t d / c) := by
      rw [he2, he1, he0]
      congr 1
      show (d : Rat) - usedBy env σ.rows (env.info t).resource t d / c + 1 = _
      grind
    refine ⟨d, c, s, rows, hd, hc, hav, hfull, ?_, hs3, ?_, ?_, ?_⟩
    · show (σ3.f t).end_ = _
      rw [he3, hend]
    · show σ3.rows = _
      rw [hr3, st2.rows, st1.rows]
      simp
    · show σ3.res = _
      rw [st3.res, st2.res, st1.res]
    · rw [hend] at hsh
      simp only [Option.getD_some] at hsh
      have hl0 := leftOf_nonneg σ2 t
      by_cases hz : leftOf σ2 t = 0
      · exact Or.inl ((shiftBwd_spec _ _ _ _ _ _ hl0 hu hsh).1 hz).2
      · obtain ⟨dayL, c', hsp, hne, hc', hs'⟩ := shiftBwd_exact _ _ _ _ _ _ (by grind) hsh
        exact Or.inr ⟨dayL, c', _, hsp, hne, hc', hs'⟩

/-- the placement of a milestone -/
theorem bwdPlace_milestone (env : Env) (σ σ' : SS) (t : Uid) (m v : Time)
    (hm : (env.info t).milestone = true) (h : bwdPlace env σ t m v = .ok σ') :
    (σ'.f t).start = some v ∧ (σ'.f t).end_ = some v ∧ σ'.rows = σ.rows := by
  rcases bwdPlace_cases env σ σ' t m v h with ⟨_, rfl⟩ | ⟨hm', _⟩
  · simp [markDone, setF, upd]
  · rw [hm] at hm'; cases hm'

/-- the placement of a task with children that is not a milestone -/
theorem bwdPlace_sum (env : Env) (σ σ' : SS) (t : Uid) (m v : Time)
    (hleaf : (env.info t).children.isEmpty = false) (hm : (env.info t).milestone = false)
    (he : (σ.f t).end_ = none) (h : bwdPlace env σ t m v = .ok σ') :
    (∃ s, (σ'.f t).start = some s) ∧ σ'.rows = σ.rows ∧
    ((σ'.f t).end_ = some m ∨
      ∃ c rest, (env.info t).children.filterMap (fun c => (σ.f c).end_) = c :: rest ∧
        (σ'.f t).end_ = some (rest.foldl maxT c)) := by
  rcases bwdPlace_cases env σ σ' t m v h with ⟨hm', _⟩ | ⟨_, σ1, σ2, σ3, h1, h2, h3, rfl⟩
  · rw [hm] at hm'; cases hm'
  · have hend := bwdEnd_sum env _ _ t m v { σ with res := (resLookup σ.res (env.info t).resource).1 } σ1 hleaf he h1
    obtain ⟨_, he2⟩ := fillEst_dates env t σ1 σ2 h2
    obtain ⟨hs3, he3, hr3⟩ := bwdStart_sum env _ _ t m σ2 σ3 hleaf h3
    have st1 := bwdEnd_stage env _ _ t m v _ σ1 h1
    have st2 := fillEst_stage env t σ1 σ2 h2
    refine ⟨hs3, ?_, ?_⟩
    · show σ3.rows = _
      rw [hr3, st2.rows, st1.rows]; simp
    · show (σ3.f t).end_ = some m ∨ ∃ c rest, _ ∧ (σ3.f t).end_ = _
      rw [he3, he2]
      exact hend

/-! ### the base invariant of a backward run without fixed dates (carries the deadline clause) -/

structure Base (env : Env) (σ : SS) : Prop where
  ledger : LedgerOK env σ
  rowsDone : ∀ r ∈ σ.rows, r.task ∈ σ.done
  fresh : ∀ t, (env.info t).member = true → t ∉ σ.done → (σ.f t).start = none ∧ (σ.f t).end_ = none
  doneMem : ∀ t ∈ σ.done, (env.info t).member = true
  hasRes : ∀ t ∈ σ.done, (σ.res.map (·.1)).contains (env.info t).resource = true
  dates : ∀ t ∈ σ.done, ∃ s e, (σ.f t).start = some s ∧ (σ.f t).end_ = some e ∧ e ≤ env.bound

theorem bwdPlace_res (env : Env) (σ σ' : SS) (t : Uid) (m v : Time) (h : bwdPlace env σ t m v = .ok σ') :
    σ'.res = (resLookup σ.res (env.info t).resource).1 := by
  obtain ⟨new, σm, hs, rfl, _⟩ := bwdPlace_stage env σ σ' t m v h
  exact hs.res

/-- the end computed for a leaf lies on or before `minSucc` -/
theorem LeafPlaced.end_le {env : Env} {σ σ' : SS} {t : Uid} {m v : Time} {d : Int} {c : Rat} {s : Time}
    {rows : List (Int × Rat)} (hp : LeafPlaced env σ σ' t m v d c s rows) (hl : LedgerOK env σ) :
    (d : Rat) + 1 - placeUsed env σ t d / c ≤ v := by
  have hu := placeUsed_nonneg env σ t hl d
  have hfr := div_nonneg_lt_one (u := placeUsed env σ t d) (c := c) hu (by have := hp.avail; grind)
  have h1 := int_succ_le_cast hp.dlt
  have h2 := dayOf_le v
  grind

/-- dates a placement writes: both are set, the end respects the deadline, and for a leaf or milestone it does
    not exceed `minSucc` -/
theorem bwdPlace_dates_c09 (env : Env) (σ σ' : SS) (t : Uid) (m v : Time) (hb : Base env σ)
    (hmem : (env.info t).member = true) (ht : t ∉ σ.done) (hk : ∀ c ∈ (env.info t).children, c ∈ σ.done)
    (hmb : m ≤ env.bound) (hvm : v ≤ m) (h : bwdPlace env σ t m v = .ok σ') :
    ∃ s e, (σ'.f t).start = some s ∧ (σ'.f t).end_ = some e ∧ e ≤ env.bound ∧
      ((env.info t).children.isEmpty = true ∨ (env.info t).milestone = true → e ≤ v) := by
  obtain ⟨hs0, he0⟩ := hb.fresh t hmem ht
  cases hm : (env.info t).milestone with
  | true =>
    obtain ⟨h1, h2, _⟩ := bwdPlace_milestone env σ σ' t m v hm h
    exact ⟨v, v, h1, h2, by grind, fun _ => Rat.le_refl⟩
  | false =>
    cases hleaf : (env.info t).children.isEmpty with
    | true =>
      obtain ⟨d, c, s, rows, hp⟩ := bwdPlace_leaf env σ σ' t m v hb.ledger hleaf hm hs0 he0 h
      have := hp.end_le hb.ledger
      exact ⟨s, _, hp.start, hp.end_, by grind, fun _ => this⟩
    | false =>
      obtain ⟨⟨s, hs⟩, _, hend⟩ := bwdPlace_sum env σ σ' t m v hleaf hm he0 h
      rcases hend with hend | ⟨c, rest, hc, hend⟩
      · exact ⟨s, m, hs, hend, hmb, fun hh => by simp at hh⟩
      · refine ⟨s, _, hs, hend, ?_, fun hh => by simp at hh⟩
        have hall : ∀ y ∈ c :: rest, y ≤ env.bound := by
          intro y hy
          rw [← hc] at hy
          obtain ⟨ch, hch, hy⟩ := List.mem_filterMap.1 hy
          obtain ⟨_, e, _, he, hle⟩ := hb.dates ch (hk ch hch)
          rw [he] at hy
          cases hy
          exact hle
        exact foldl_maxT_le rest c _ (hall c (by simp)) (fun y hy => hall y (List.mem_cons_of_mem _ hy))

theorem Base.place {env : Env} {σ σ' : SS} {t : Uid} {m v : Time} (hb : Base env σ)
    (hmem : (env.info t).member = true) (ht : t ∉ σ.done) (hk : ∀ c ∈ (env.info t).children, c ∈ σ.done)
    (hmb : m ≤ env.bound) (hvm : v ≤ m) (h : bwdPlace env σ t m v = .ok σ') : Base env σ' := by
  obtain ⟨hext, hd⟩ := bwdPlace_ext env σ σ' t m v ht h
  obtain ⟨r, hr, hrd⟩ := hext.rows
  obtain ⟨rr, hrr, _⟩ := hext.res
  refine ⟨bwdPlace_ledger env σ σ' t m v hb.ledger h, ?_, ?_, ?_, ?_, ?_⟩
  · intro x hx
    rw [hr] at hx
    rcases List.mem_append.1 hx with hx | hx
    · exact hext.done_sub (hb.rowsDone x hx)
    · exact (hrd x hx).1
  · intro x hxm hx
    rw [hext.untouched x hx]
    exact hb.fresh x hxm (fun hc => hx (hext.done_sub hc))
  · intro x hx
    rw [hd] at hx
    rcases List.mem_append.1 hx with hx | hx
    · exact hb.doneMem x hx
    · simp only [List.mem_singleton] at hx; subst hx; exact hmem
  · intro x hx
    rw [hd] at hx
    rcases List.mem_append.1 hx with hx | hx
    · rw [hrr]; exact contains_append_left _ _ _ (hb.hasRes x hx)
    · simp only [List.mem_singleton] at hx
      subst hx
      rw [bwdPlace_res env σ σ' x m v h]
      exact (resLookup_spec σ.res (env.info x).resource).2.2
  · intro x hx
    rw [hd] at hx
    rcases List.mem_append.1 hx with hx | hx
    · rw [hext.frozen x hx]; exact hb.dates x hx
    · simp only [List.mem_singleton] at hx
      subst hx
      obtain ⟨s, e, h1, h2, h3, _⟩ := bwdPlace_dates_c09 env σ σ' x m v hb hmem ht hk hmb hvm h
      exact ⟨s, e, h1, h2, h3⟩

/-! ### from `backwardCalc` to the final pass state -/

/-- the observable part of a pass state -/
def outOf (σ : SS) : Output := { f := σ.f, rows := σ.rows, res := σ.res }

theorem Base.init (env : Env) (f0 : Uid → Fields) (res0 : List (Option Nat × Cal)) (mem : List Uid)
    (hf : env.flagsOK) (hn : noFixedDates env f0 = true) (hm : members env = some mem) :
    Base env { f := prepare env f0 mem, rows := [], done := [], res := res0, reads := 0 } := by
  refine ⟨LedgerOK.init env _ rfl, by simp, ?_, by simp, by simp, by simp⟩
  intro t htm _
  have htl : t ∈ memberList env := (hf t).1 htm
  have htmem : t ∈ mem := by rw [← memberList_eq env mem hm]; exact htl
  show ((prepare env f0 mem t).start = none ∧ (prepare env f0 mem t).end_ = none)
  unfold prepare
  cases hleaf : (env.info t).children.isEmpty with
  | true =>
    simp only [Bool.not_true, Bool.and_false, Bool.false_eq_true, if_false]
    have := List.all_eq_true.1 hn t htl
    simp only [isLeaf, hleaf, Bool.not_true, Bool.false_or, Bool.and_eq_true, Option.isNone_iff_eq_none] at this
    exact this
  | false =>
    simp [htmem]

/-- run-level induction: an invariant `X` kept by every placement (on top of `Base`, with the dates handed down
    related by `R`) holds of the final state, in which every member is done -/
theorem backwardCalc_final (env : Env) (f0 : Uid → Fields) (res0 : List (Option Nat × Cal)) (o : Output)
    (hf : env.flagsOK) (hn : noFixedDates env f0 = true) (h : backwardCalc env f0 res0 = .ok o)
    (X : SS → Prop) (R : Uid → Time → Prop)
    (hX0 : ∀ σ : SS, σ.done = [] → X σ)
    (hR : ∀ t m, R t m → (env.info t).member = true ∧ m ≤ env.bound)
    (hroot : ∀ r ∈ env.roots, R r env.bound)
    (hkids : ∀ σ1 t c m, R t m → c ∈ (env.info t).children → R c (minStarts σ1 (env.info t).succs m))
    (hlinks : ∀ t p m, R t m → p ∈ (env.info t).succs → (env.info p).member = (env.info t).member → R p m)
    (hplace : ∀ σ1 σ σ' t m, R t m → Base env σ → X σ → t ∉ σ.done → Ext σ1 σ →
      (∀ s ∈ (env.info t).succs, (env.info s).member = (env.info t).member → s ∈ σ1.done) →
      (∀ c ∈ (env.info t).children, c ∈ σ.done) →
      bwdPlace env σ t m (minStarts σ1 (env.info t).succs m) = .ok σ' → Base env σ' → X σ') :
    ∃ σ, Base env σ ∧ X σ ∧ o = outOf σ ∧ ∀ t ∈ memberList env, t ∈ σ.done := by
  obtain ⟨mem, σ, hm, hp, ho⟩ := bwdRun_ok env f0 res0 o (backwardCalc_run env f0 res0 o h)
  have hI : DoneClosed env σ ∧ Base env σ ∧ X σ := by
    refine passList_inv (fun s => DoneClosed env s ∧ Base env s ∧ X s) _ _ ?_ _ _
      ⟨?_, Base.init env f0 res0 mem hf hn hm, hX0 _ rfl⟩ hp
    · intro a x b hx ha hh
      refine ⟨bwdPass_doneClosed env _ _ _ _ _ _ ha.1 hh, ?_⟩
      refine bwdPass_inv2 env (fun s => Base env s ∧ X s) R ?_ hkids hlinks _ _ _ _ _ _
        (hroot x (List.mem_reverse.1 hx)) ha.2 hh
      intro σ1 s s' t m hr hi ht he hsd hk hpl
      obtain ⟨hmem, hmb⟩ := hR t m hr
      have hb' : Base env s' := hi.1.place hmem ht hk hmb (minStarts_le _ _ _) hpl
      exact ⟨hb', hplace σ1 s s' t m hr hi.1 hi.2 ht he hsd hk hpl hb'⟩
    · intro x hx; cases hx
  have hroots : ∀ r ∈ env.roots, r ∈ σ.done := fun r hr =>
    passList_all_done _ _ (fun a x b _ hh => bwdPass_ext env _ _ _ _ _ _ hh) _ _ hp r (List.mem_reverse.2 hr)
  refine ⟨σ, hI.2.1, hI.2.2, ho, ?_⟩
  intro t ht
  rw [memberList_eq env mem hm] at ht
  obtain ⟨rt, hrt, l, hl, htl⟩ := (members_spec env mem hm).2 t ht
  exact hI.1.subtree (hroots rt hrt) _ l hl t htl

/-- the relation used for the clauses that hold for every WBS: members, called with a date not after the bound -/
def RDeadline (env : Env) (t : Uid) (m : Time) : Prop := (env.info t).member = true ∧ m ≤ env.bound

theorem member_child (env : Env) (hf : env.flagsOK) (t c : Uid) (ht : (env.info t).member = true)
    (hc : c ∈ (env.info t).children) : (env.info c).member = true := by
  have htl := (hf t).1 ht
  cases hm : members env with
  | none => simp [memberList, hm] at htl
  | some mem =>
    rw [memberList_eq env mem hm] at htl
    exact (hf c).2 (by rw [memberList_eq env mem hm]; exact members_children env mem hm t htl c hc)

theorem member_root (env : Env) (hf : env.flagsOK) (f0 : Uid → Fields) (res0 : List (Option Nat × Cal)) (o : Output)
    (h : backwardCalc env f0 res0 = .ok o) : ∀ r ∈ env.roots, (env.info r).member = true := by
  obtain ⟨mem, σ, hm, _, _⟩ := bwdRun_ok env f0 res0 o (backwardCalc_run env f0 res0 o h)
  intro r hr
  exact (hf r).2 (by rw [memberList_eq env mem hm]; exact members_root env mem hm r hr)

theorem backwardCalc_c09Deadline (env : Env) (f0 : Uid → Fields) (res0 : List (Option Nat × Cal)) (o : Output)
    (hf : env.flagsOK) (hn : noFixedDates env f0 = true) (h : backwardCalc env f0 res0 = .ok o) :
    c09Deadline env o = true := by
  obtain ⟨σ, hb, _, rfl, hall⟩ := backwardCalc_final env f0 res0 o hf hn h (fun _ => True) (RDeadline env)
    (fun _ _ => trivial) (fun _ _ hr => hr)
    (fun r hr => ⟨member_root env hf f0 res0 o h r hr, Rat.le_refl⟩)
    (fun σ1 t c m hr hc => ⟨member_child env hf t c hr.1 hc, Rat.le_trans (minStarts_le _ _ _) hr.2⟩)
    (fun t p m hr _ he => ⟨he.trans hr.1, hr.2⟩)
    (fun _ _ _ _ _ _ _ _ _ _ _ _ _ _ => trivial)
  unfold c09Deadline
  rw [List.all_eq_true]
  intro t ht
  obtain ⟨s, e, _, he, hle⟩ := hb.dates t (hall t ht)
  show (match (σ.f t).end_ with | some e => decide (e ≤ env.bound) | none => false) = true
  rw [he]
  simpa using hle

/-! ### ledger bookkeeping: a task's rows, first/last day, what was booked before it -/

theorem rowsOf_append (a b : List Row) (t : Uid) : rowsOf (a ++ b) t = rowsOf a t ++ rowsOf b t := by
  simp [rowsOf, List.filter_append]

theorem rowsOf_none (b : List Row) (t : Uid) (h : ∀ x ∈ b, x.task ≠ t) : rowsOf b t = [] := by
  unfold rowsOf
  exact List.filter_eq_nil_iff.2 (fun x hx => by simpa using h x hx)

theorem rowsOf_mk (k : Option Nat) (t : Uid) (new : List (Int × Rat)) :
    rowsOf (new.map (mkRow k t)) t = new.map (mkRow k t) := by
  unfold rowsOf
  exact List.filter_eq_self.2 (fun x hx => by
    obtain ⟨p, _, rfl⟩ := List.mem_map.1 hx
    simp [mkRow])

theorem reserved_other (b : List Row) (k : Option Nat) (d : Int) (t : Uid) (h : ∀ x ∈ b, x.task ≠ t) :
    reserved b k d (some t) = 0 := by
  unfold reserved
  rw [List.filter_eq_nil_iff.2 (fun x hx => by simp [h x hx])]
  simp

theorem firstRowIdx_append_some (a b : List Row) (t : Uid) (i : Nat) (h : firstRowIdx a t = some i) :
    firstRowIdx (a ++ b) t = some i ∧ i ≤ a.length := by
  unfold firstRowIdx at h ⊢
  refine ⟨by rw [List.findIdx?_append, h]; rfl, ?_⟩
  have := (List.findIdx?_eq_some_iff_findIdx_eq.1 h).1
  omega

theorem firstRowIdx_of_rows (a : List Row) (t : Uid) (h : rowsOf a t ≠ []) : ∃ i, firstRowIdx a t = some i := by
  cases hi : firstRowIdx a t with
  | some i => exact ⟨i, rfl⟩
  | none =>
    exfalso
    apply h
    unfold firstRowIdx at hi
    rw [List.findIdx?_eq_none_iff] at hi
    exact rowsOf_none a t (fun x hx => by simpa using hi x hx)

theorem firstRowIdx_new (a : List Row) (k : Option Nat) (t : Uid) (new : List (Int × Rat))
    (ha : ∀ x ∈ a, x.task ≠ t) (hne : new ≠ []) :
    firstRowIdx (a ++ new.map (mkRow k t)) t = some a.length := by
  unfold firstRowIdx
  rw [List.findIdx?_append]
  have h1 : a.findIdx? (fun r => r.task == t) = none :=
    List.findIdx?_eq_none_iff.2 (fun x hx => by simpa using ha x hx)
  rw [h1]
  cases new with
  | nil => exact absurd rfl hne
  | cons p l => simp [List.findIdx?_cons, mkRow]

/-- `bookedBefore` depends on the ledger only -/
def bookedBeforeR (env : Env) (rows : List Row) (k : Option Nat) (d : Int) (t : Uid) : Rat :=
  if env.balance then
    match firstRowIdx rows t with
    | some i => reserved (rows.take i) k d none
    | none => reserved rows k d none
  else 0

theorem bookedBefore_eq (env : Env) (o : Output) (k : Option Nat) (d : Int) (t : Uid) :
    bookedBefore env o k d t = bookedBeforeR env o.rows k d t := rfl

theorem bookedBeforeR_append (env : Env) (a b : List Row) (k : Option Nat) (d : Int) (t : Uid)
    (h : rowsOf a t ≠ []) : bookedBeforeR env (a ++ b) k d t = bookedBeforeR env a k d t := by
  obtain ⟨i, hi⟩ := firstRowIdx_of_rows a t h
  obtain ⟨h1, h2⟩ := firstRowIdx_append_some a b t i hi
  unfold bookedBeforeR
  rw [h1, hi]
  simp only [List.take_append_of_le_length h2]

/-- at its placement a task sees, as `used`, exactly what `bookedBefore` reports afterwards -/
theorem bookedBeforeR_new (env : Env) (a : List Row) (t : Uid) (new : List (Int × Rat)) (d : Int)
    (ha : ∀ x ∈ a, x.task ≠ t) (hne : new ≠ []) :
    bookedBeforeR env (a ++ new.map (mkRow (env.info t).resource t)) (env.info t).resource d t =
      usedBy env a (env.info t).resource t d := by
  unfold bookedBeforeR usedBy
  rw [firstRowIdx_new a _ t new ha hne]
  by_cases hb : env.balance = true
  · simp only [hb, if_true, List.take_left' rfl]
  · simp only [hb, Bool.false_eq_true, if_false]
    exact (reserved_other a _ d t ha).symm

theorem firstDay_go : ∀ (l : List Int) (x : Int),
    ∃ d, l.foldl (fun m d => match m with | none => some d | some x => some (min x d)) (some x) = some d ∧
      (d = x ∨ d ∈ l) ∧ d ≤ x ∧ ∀ y ∈ l, d ≤ y
  | [], x => ⟨x, rfl, Or.inl rfl, Int.le_refl _, by simp⟩
  | y :: l, x => by
    obtain ⟨d, h1, h2, h3, h4⟩ := firstDay_go l (min x y)
    refine ⟨d, by simpa using h1, ?_, by omega, ?_⟩
    · rcases h2 with h2 | h2
      · by_cases hxy : x ≤ y
        · exact Or.inl (by omega)
        · exact Or.inr (by simp; omega)
      · exact Or.inr (List.mem_cons_of_mem _ h2)
    · intro z hz
      rcases List.mem_cons.1 hz with rfl | hz
      · omega
      · exact h4 z hz

theorem lastDay_go : ∀ (l : List Int) (x : Int),
    ∃ d, l.foldl (fun m d => match m with | none => some d | some x => some (max x d)) (some x) = some d ∧
      (d = x ∨ d ∈ l) ∧ x ≤ d ∧ ∀ y ∈ l, y ≤ d
  | [], x => ⟨x, rfl, Or.inl rfl, Int.le_refl _, by simp⟩
  | y :: l, x => by
    obtain ⟨d, h1, h2, h3, h4⟩ := lastDay_go l (max x y)
    refine ⟨d, by simpa using h1, ?_, by omega, ?_⟩
    · rcases h2 with h2 | h2
      · by_cases hxy : y ≤ x
        · exact Or.inl (by omega)
        · exact Or.inr (by simp; omega)
      · exact Or.inr (List.mem_cons_of_mem _ h2)
    · intro z hz
      rcases List.mem_cons.1 hz with rfl | hz
      · omega
      · exact h4 z hz

theorem firstDay_spec (rows : List Row) (d : Int) (h : firstDay rows = some d) :
    (∃ r ∈ rows, r.day = d) ∧ ∀ r ∈ rows, d ≤ r.day := by
  cases rows with
  | nil => simp [firstDay] at h
  | cons r l =>
    unfold firstDay at h
    simp only [List.map_cons, List.foldl_cons] at h
    obtain ⟨d', h1, h2, h3, h4⟩ := firstDay_go (l.map (·.day)) r.day
    have hdd : some d' = some d := h1.symm.trans h
    cases hdd
    constructor
    · rcases h2 with h2 | h2
      · exact ⟨r, by simp, h2.symm⟩
      · obtain ⟨x, hx, rfl⟩ := List.mem_map.1 h2
        exact ⟨x, List.mem_cons_of_mem _ hx, rfl⟩
    · intro x hx
      rcases List.mem_cons.1 hx with rfl | hx
      · exact h3
      · exact h4 _ (List.mem_map_of_mem hx)

theorem lastDay_spec (rows : List Row) (d : Int) (h : lastDay rows = some d) :
    (∃ r ∈ rows, r.day = d) ∧ ∀ r ∈ rows, r.day ≤ d := by
  cases rows with
  | nil => simp [lastDay] at h
  | cons r l =>
    unfold lastDay at h
    simp only [List.map_cons, List.foldl_cons] at h
    obtain ⟨d', h1, h2, h3, h4⟩ := lastDay_go (l.map (·.day)) r.day
    have hdd : some d' = some d := h1.symm.trans h
    cases hdd
    constructor
    · rcases h2 with h2 | h2
      · exact ⟨r, by simp, h2.symm⟩
      · obtain ⟨x, hx, rfl⟩ := List.mem_map.1 h2
        exact ⟨x, List.mem_cons_of_mem _ hx, rfl⟩
    · intro x hx
      rcases List.mem_cons.1 hx with rfl | hx
      · exact h3
      · exact h4 _ (List.mem_map_of_mem hx)

theorem firstDay_some (rows : List Row) (h : rows ≠ []) : ∃ d, firstDay rows = some d := by
  cases rows with
  | nil => exact absurd rfl h
  | cons r l =>
    obtain ⟨d', h1, _⟩ := firstDay_go (l.map (·.day)) r.day
    exact ⟨d', h1⟩

/-- the first (earliest) day of a backward fill is the last day the loop visited -/
theorem firstDay_fill {cal : Cal} {used : Int → Rat} {day0 : Int} {left : Rat} {new : List (Int × Rat)}
    {dayL : Int} (hs : FillBwdSpec cal used day0 left new dayL) (hne : new ≠ []) (k : Option Nat) (t : Uid) :
    firstDay (new.map (mkRow k t)) = some dayL := by
  obtain ⟨d, hd⟩ := firstDay_some (new.map (mkRow k t)) (by simpa using hne)
  obtain ⟨⟨r, hr, hrd⟩, hmin⟩ := firstDay_spec _ d hd
  obtain ⟨u, hlast⟩ := hs.last hne
  have hmemL : (dayL, u) ∈ new := List.mem_of_getLast? hlast
  obtain ⟨p, hp, rfl⟩ := List.mem_map.1 hr
  have h1 := (hs.range p hp).2
  have h2 := hmin _ (List.mem_map_of_mem (f := mkRow k t) hmemL)
  simp only [mkRow] at hrd h2
  rw [hd]
  congr 1
  omega

/-! ### C09, encoding clause -/

/-- the body of `c09Encode` for one task -/
def c09EncodeAt (env : Env) (o : Output) (t : Uid) : Bool :=
  !isLeaf env t || (env.info t).milestone ||
  let k := (env.info t).resource
  match firstDay (rowsOf o.rows t), (o.f t).start, (o.f t).end_ with
  | some d1, some s, some e =>
    let c1 := capMid o.res k d1
    let d0 : Int := if e == (dayOf e : Rat) then dayOf e - 1 else dayOf e
    let c0 := capMid o.res k d0
    decide (0 < c1) && s == (d1 : Rat) + 1 - bookedUpTo env o k d1 t / c1 &&
    decide (0 < c0) && e == (d0 : Rat) + 1 - bookedBefore env o k d0 t / c0
  | none, _, _ => true
  | _, _, _ => false

theorem c09Encode_eq (env : Env) (o : Output) : c09Encode env o = (memberList env).all (c09EncodeAt env o) := rfl

theorem c09EncodeAt_norows (env : Env) (o : Output) (t : Uid) (h : rowsOf o.rows t = []) :
    c09EncodeAt env o t = true := by
  unfold c09EncodeAt
  simp [h, firstDay]

theorem c09EncodeAt_intro (env : Env) (o : Output) (t : Uid) (d1 d : Int)
    (hfd : firstDay (rowsOf o.rows t) = some d1)
    (hc1 : 0 < capMid o.res (env.info t).resource d1)
    (hs : (o.f t).start = some ((d1 : Rat) + 1 - bookedUpTo env o (env.info t).resource d1 t /
      capMid o.res (env.info t).resource d1))
    (h0 : 0 ≤ bookedBefore env o (env.info t).resource d t)
    (h1 : bookedBefore env o (env.info t).resource d t < capMid o.res (env.info t).resource d)
    (he : (o.f t).end_ = some ((d : Rat) + 1 - bookedBefore env o (env.info t).resource d t /
      capMid o.res (env.info t).resource d)) :
    c09EncodeAt env o t = true := by
  have hfr := div_nonneg_lt_one h0 h1
  have hd0 := endDay_spec d _ hfr.1 hfr.2
  unfold c09EncodeAt
  simp only [hfd, hs, he, hd0]
  have hc0 : 0 < capMid o.res (env.info t).resource d := by grind
  simp [hc1, hc0]

/-- the verdict on a done task is not affected by later placements -/
theorem c09EncodeAt_stable (env : Env) (σ σ' : SS) (t : Uid) (he : Ext σ σ') (ht : t ∈ σ.done)
    (hres : (σ.res.map (·.1)).contains (env.info t).resource = true) :
    c09EncodeAt env (outOf σ') t = c09EncodeAt env (outOf σ) t := by
  obtain ⟨r, hr, hrd⟩ := he.rows
  obtain ⟨rr, hrr, _⟩ := he.res
  have hnew : ∀ x ∈ r, x.task ≠ t := fun x hx hc => (hrd x hx).2 (hc ▸ ht)
  have hrows : rowsOf σ'.rows t = rowsOf σ.rows t := by
    rw [hr, rowsOf_append, rowsOf_none r t hnew, List.append_nil]
  by_cases hne : rowsOf σ.rows t = []
  · rw [c09EncodeAt_norows env (outOf σ) t hne, c09EncodeAt_norows env (outOf σ') t (hrows.trans hne)]
  · have hf : σ'.f t = σ.f t := he.frozen t ht
    have hcap : ∀ d, capMid σ'.res (env.info t).resource d = capMid σ.res (env.info t).resource d := fun d => by
      rw [hrr]; exact capMid_append _ _ _ _ hres
    have hbb : ∀ d, bookedBefore env (outOf σ') (env.info t).resource d t =
        bookedBefore env (outOf σ) (env.info t).resource d t := fun d => by
      rw [bookedBefore_eq, bookedBefore_eq]
      show bookedBeforeR env σ'.rows _ _ _ = bookedBeforeR env σ.rows _ _ _
      rw [hr]; exact bookedBeforeR_append env _ _ _ _ _ hne
    have hown : ∀ d, reserved σ'.rows (env.info t).resource d (some t) =
        reserved σ.rows (env.info t).resource d (some t) := fun d => by
      rw [hr, reserved_append, reserved_other r _ d t hnew]; grind
    have hbu : ∀ d, bookedUpTo env (outOf σ') (env.info t).resource d t =
        bookedUpTo env (outOf σ) (env.info t).resource d t := fun d => by
      unfold bookedUpTo
      rw [hbb d]
      show _ + reserved σ'.rows _ _ _ = _ + reserved σ.rows _ _ _
      rw [hown d]
    unfold c09EncodeAt
    simp only [hbb, hbu]
    simp only [outOf, hrows, hf, hcap]
    rfl

theorem capMid_place (env : Env) (σ σ' : SS) (t : Uid) (d : Int) (c : Rat)
    (hres : σ'.res = (resLookup σ.res (env.info t).resource).1)
    (hc : capR (placeCal env σ t) (d : Rat) = .ok c) : capMid σ'.res (env.info t).resource d = c := by
  unfold capMid
  rw [hres, (resLookup_spec σ.res (env.info t).resource).2.1]
  show (match capR (placeCal env σ t) (d : Rat) with | .ok v => v | .error _ => 0) = c
  rw [hc]

/-- the placement of a leaf makes the encoding clause true for it -/
theorem encode_place (env : Env) (σ σ' : SS) (t : Uid) (m v : Time) (d : Int) (c : Rat) (s : Time)
    (rows : List (Int × Rat)) (hb : Base env σ) (ht : t ∉ σ.done)
    (hp : LeafPlaced env σ σ' t m v d c s rows) : c09EncodeAt env (outOf σ') t = true := by
  have hno : ∀ x ∈ σ.rows, x.task ≠ t := fun x hx hc => ht (hc ▸ hb.rowsDone x hx)
  have hrows : rowsOf σ'.rows t = rows.map (mkRow (env.info t).resource t) := by
    rw [hp.rowsEq, rowsOf_append, rowsOf_none _ t hno, rowsOf_mk, List.nil_append]
  have hu := placeUsed_nonneg env σ t hb.ledger
  rcases hp.fill with hnil | ⟨dayL, c', left, hsp, hne, hc', hs'⟩
  · exact c09EncodeAt_norows env (outOf σ') t (by rw [show (outOf σ').rows = σ'.rows from rfl, hrows, hnil]; rfl)
  · have hbb : ∀ x, bookedBefore env (outOf σ') (env.info t).resource x t = placeUsed env σ t x := fun x => by
      rw [bookedBefore_eq]
      show bookedBeforeR env σ'.rows _ _ _ = _
      rw [hp.rowsEq]
      exact bookedBeforeR_new env σ.rows t rows x hno hne
    have hbu : bookedUpTo env (outOf σ') (env.info t).resource dayL t = placeUsed env σ t dayL + daySum rows dayL := by
      unfold bookedUpTo
      rw [hbb]
      show _ + reserved σ'.rows _ _ _ = _
      rw [hp.rowsEq, reserved_append, reserved_other σ.rows _ dayL t hno, reserved_mk]
      simp only [true_and, Option.some.injEq, imp_self, implies_true, if_true]
      grind
    obtain ⟨u, hlast⟩ := hsp.last hne
    obtain ⟨c'', hc'', hu0, hu1⟩ := hsp.fits (dayL, u) (List.mem_of_getLast? hlast)
    simp only at hc'' hu0 hu1
    rw [hc'] at hc''
    cases hc''
    have hcm1 := capMid_place env σ σ' t dayL c' hp.resEq hc'
    have hcm0 := capMid_place env σ σ' t d c hp.resEq hp.cap
    refine c09EncodeAt_intro env (outOf σ') t dayL d ?_ ?_ ?_ ?_ ?_ ?_
    · show firstDay (rowsOf σ'.rows t) = _
      rw [hrows]; exact firstDay_fill hsp hne _ _
    · show 0 < capMid σ'.res _ _
      rw [hcm1]; have := hu dayL; grind
    · show (σ'.f t).start = some (_ - _ / capMid σ'.res _ _)
      rw [hp.start, hs', hbu, hcm1]
    · rw [hbb]; exact hu d
    · rw [hbb]; show _ < capMid σ'.res _ _
      rw [hcm0]; have := hp.avail; grind
    · show (σ'.f t).end_ = some (_ - _ / capMid σ'.res _ _)
      rw [hp.end_, hbb, hcm0]

def EncInv (env : Env) (σ : SS) : Prop := ∀ t ∈ σ.done, c09EncodeAt env (outOf σ) t = true

theorem EncInv.place {env : Env} {σ σ' : SS} {t : Uid} {m v : Time} (hb : Base env σ) (hx : EncInv env σ)
    (hmem : (env.info t).member = true) (ht : t ∉ σ.done) (h : bwdPlace env σ t m v = .ok σ') :
    EncInv env σ' := by
  obtain ⟨hext, hd⟩ := bwdPlace_ext env σ σ' t m v ht h
  intro x hxd
  rw [hd] at hxd
  rcases List.mem_append.1 hxd with hxd | hxd
  · rw [c09EncodeAt_stable env σ σ' x hext hxd (hb.hasRes x hxd)]
    exact hx x hxd
  · simp only [List.mem_singleton] at hxd
    subst hxd
    cases hleaf : (env.info x).children.isEmpty with
    | false => unfold c09EncodeAt; simp [isLeaf, hleaf]
    | true =>
      cases hm : (env.info x).milestone with
      | true => unfold c09EncodeAt; simp [hm]
      | false =>
        obtain ⟨hs0, he0⟩ := hb.fresh x hmem ht
        obtain ⟨d, c, s, rows, hp⟩ := bwdPlace_leaf env σ σ' x m v hb.ledger hleaf hm hs0 he0 h
        exact encode_place env σ σ' x m v d c s rows hb ht hp

theorem backwardCalc_c09Encode (env : Env) (f0 : Uid → Fields) (res0 : List (Option Nat × Cal)) (o : Output)
    (hf : env.flagsOK) (hn : noFixedDates env f0 = true) (h : backwardCalc env f0 res0 = .ok o) :
    c09Encode env o = true := by
  obtain ⟨σ, hb, hx, rfl, hall⟩ := backwardCalc_final env f0 res0 o hf hn h (EncInv env) (RDeadline env)
    (fun σ h0 t ht => by rw [h0] at ht; cases ht) (fun _ _ hr => hr)
    (fun r hr => ⟨member_root env hf f0 res0 o h r hr, Rat.le_refl⟩)
    (fun σ1 t c m hr hc => ⟨member_child env hf t c hr.1 hc, Rat.le_trans (minStarts_le _ _ _) hr.2⟩)
    (fun t p m hr _ he => ⟨he.trans hr.1, hr.2⟩)
    (fun σ1 σ σ' t m hr hb hx ht _ _ _ hpl _ => hx.place hb hr.1 ht hpl)
  rw [c09Encode_eq, List.all_eq_true]
  intro t ht
  exact hx t (hall t ht)

/-! ### C09, dependency and late-packing clauses (no links on tasks with children) -/

theorem nsl_spec (env : Env) (hs : noSummaryLinks env = true) (t : Uid) (ht : t ∈ memberList env)
    (hl : (env.info t).children.isEmpty = false) : (env.info t).preds = [] ∧ (env.info t).succs = [] := by
  have := List.all_eq_true.1 hs t ht
  simpa [isLeaf, hl] using this

theorem ancestors_summary (env : Env) (hp : env.parentsOK) : ∀ (f : Nat) (t : Uid), t ∈ memberList env →
    ∀ x ∈ ancestorsOf env f t, x ∈ memberList env ∧ (env.info x).children.isEmpty = false := by
  intro f
  induction f with
  | zero => intro t _ x hx; simp [ancestorsOf] at hx
  | succ f ih =>
    intro t ht x hx
    unfold ancestorsOf at hx
    cases hpar : (env.info t).parent with
    | none => simp [hpar] at hx
    | some p =>
      simp only [hpar] at hx
      obtain ⟨hpm, hpc⟩ := hp t p ht hpar
      rcases List.mem_cons.1 hx with rfl | hx
      · refine ⟨hpm, ?_⟩
        cases hc : (env.info x).children with
        | nil => rw [hc] at hpc; cases hpc
        | cons a l => rfl
      · exact ih p hpm x hx

/-- without links on summary tasks (and consistent parent pointers) the prerequisites of a member are reached
    through its own predecessor list only -/
theorem prereq_collapse (env : Env) (hs : noSummaryLinks env = true) (hp : env.parentsOK) (t : Uid)
    (ht : t ∈ memberList env) (q : Uid) (h : q ∈ prereqLeaves env t) :
    ∃ p ∈ (env.info t).preds, q ∈ (leavesOf env p).getD [] := by
  unfold prereqLeaves waitsFor at h
  obtain ⟨p, hpm, hq⟩ := List.mem_flatMap.1 h
  obtain ⟨x, hx, hpx⟩ := List.mem_flatMap.1 hpm
  rcases List.mem_cons.1 hx with rfl | hx
  · exact ⟨p, hpx, hq⟩
  · obtain ⟨hxm, hxl⟩ := ancestors_summary env hp _ t ht x hx
    rw [(nsl_spec env hs x hxm hxl).1] at hpx
    cases hpx

theorem leavesOf_leaf (env : Env) (p : Uid) (h : (env.info p).children.isEmpty = true) :
    leavesOf env p = some [p] := by
  unfold leavesOf; simp [h]

theorem succLeaves_own (env : Env) (t s : Uid) (hs : s ∈ (env.info t).succs)
    (hl : (env.info s).children.isEmpty = true) : s ∈ succLeaves env t := by
  unfold succLeaves
  refine List.mem_flatMap.2 ⟨s, List.mem_flatMap.2 ⟨t, by simp, hs⟩, ?_⟩
  rw [leavesOf_leaf env s hl]; simp

/-- dependency invariant: a done leaf ends no later than each of its member successors starts -/
def DepInv (env : Env) (σ : SS) : Prop :=
  ∀ p ∈ σ.done, (env.info p).children.isEmpty = true → ∀ t ∈ (env.info p).succs, (env.info t).member = true →
    t ∈ σ.done ∧ ∃ e st, (σ.f p).end_ = some e ∧ (σ.f t).start = some st ∧ e ≤ st

theorem DepInv.place {env : Env} {σ1 σ σ' : SS} {t : Uid} {m : Time} (hb : Base env σ) (hx : DepInv env σ)
    (hmem : (env.info t).member = true) (ht : t ∉ σ.done) (he1 : Ext σ1 σ)
    (hsd : ∀ s ∈ (env.info t).succs, (env.info s).member = (env.info t).member → s ∈ σ1.done)
    (hk : ∀ c ∈ (env.info t).children, c ∈ σ.done) (hmb : m ≤ env.bound)
    (h : bwdPlace env σ t m (minStarts σ1 (env.info t).succs m) = .ok σ') : DepInv env σ' := by
  obtain ⟨hext, hd⟩ := bwdPlace_ext env σ σ' t m _ ht h
  intro p hpd hleaf s hs hsm
  rw [hd] at hpd
  rcases List.mem_append.1 hpd with hpd | hpd
  · obtain ⟨hsd', e, st, h1, h2, h3⟩ := hx p hpd hleaf s hs hsm
    exact ⟨hext.done_sub hsd', e, st, by rw [hext.frozen p hpd]; exact h1, by rw [hext.frozen s hsd']; exact h2, h3⟩
  · simp only [List.mem_singleton] at hpd
    subst hpd
    have hs1 : s ∈ σ1.done := hsd s hs (hsm.trans hmem.symm)
    have hs2 : s ∈ σ.done := he1.done_sub hs1
    obtain ⟨st, _, hst, _⟩ := hb.dates s hs2
    have hst1 : (σ1.f s).start = some st := by rw [← he1.frozen s hs1]; exact hst
    obtain ⟨_, e, _, hee, _, hle⟩ := bwdPlace_dates_c09 env σ σ' p m _ hb hmem ht hk hmb (minStarts_le _ _ _) h
    refine ⟨hext.done_sub hs2, e, st, hee, by rw [hext.frozen s hs2]; exact hst, ?_⟩
    exact Rat.le_trans (hle (Or.inl hleaf)) (minStarts_le_start σ1 _ m s st hs hst1)

/-- late packing of one task in a state (balancing): its member successors are done, the days after its end's
    day and before the day of the earliest successor start are full, and so are the days strictly inside its
    work span -/
def LPAt (env : Env) (σ : SS) (t : Uid) : Prop :=
  (∀ s ∈ (env.info t).succs, (env.info s).member = true → s ∈ σ.done) ∧
  (∃ e, (σ.f t).end_ = some e ∧ ∀ d', dayOf e < d' → d' < dayOf (minStarts σ (env.info t).succs env.bound) →
    capMid σ.res (env.info t).resource d' ≤ reserved σ.rows (env.info t).resource d' none) ∧
  (∀ d1 d2, firstDay (rowsOf σ.rows t) = some d1 → lastDay (rowsOf σ.rows t) = some d2 →
    ∀ d', d1 < d' → d' < d2 →
      capMid σ.res (env.info t).resource d' ≤ reserved σ.rows (env.info t).resource d' none)

def LPInv (env : Env) (σ : SS) : Prop :=
  ∀ t ∈ σ.done, (env.info t).children.isEmpty = true → (env.info t).milestone = false → LPAt env σ t

theorem reserved_mono_ext {env : Env} {σ σ' : SS} (he : Ext σ σ') (hl : LedgerOK env σ') (k : Option Nat) (d : Int) :
    reserved σ.rows k d none ≤ reserved σ'.rows k d none := by
  obtain ⟨r, hr, _⟩ := he.rows
  rw [hr, reserved_append]
  have := reserved_nonneg r (fun x hx => hl.pos x (by rw [hr]; exact List.mem_append_right _ hx)) k d none
  grind

theorem LPAt.stable {env : Env} {σ σ' : SS} {t : Uid} (hb : Base env σ) (hb' : Base env σ') (he : Ext σ σ')
    (ht : t ∈ σ.done) (h : LPAt env σ t) : LPAt env σ' t := by
  obtain ⟨h1, ⟨e, hee, h2⟩, h3⟩ := h
  obtain ⟨r, hr, hrd⟩ := he.rows
  obtain ⟨rr, hrr, _⟩ := he.res
  have hcap : ∀ d, capMid σ'.res (env.info t).resource d = capMid σ.res (env.info t).resource d := fun d => by
    rw [hrr]; exact capMid_append _ _ _ _ (hb.hasRes t ht)
  have hmono := fun d => reserved_mono_ext he hb'.ledger (env.info t).resource d
  have hms : minStarts σ' (env.info t).succs env.bound = minStarts σ (env.info t).succs env.bound := by
    apply minStarts_congr
    intro s hs
    cases hsm : (env.info s).member with
    | true => exact he.frozen s (h1 s hs hsm)
    | false =>
      apply he.untouched
      intro hc
      rw [hb'.doneMem s hc] at hsm
      cases hsm
  have hrows : rowsOf σ'.rows t = rowsOf σ.rows t := by
    rw [hr, rowsOf_append, rowsOf_none r t (fun x hx hc => (hrd x hx).2 (hc ▸ ht)), List.append_nil]
  refine ⟨fun s hs hsm => he.done_sub (h1 s hs hsm), ⟨e, by rw [he.frozen t ht]; exact hee, ?_⟩, ?_⟩
  · intro d' hd1 hd2
    rw [hms] at hd2
    rw [hcap]
    exact Rat.le_trans (h2 d' hd1 hd2) (hmono d')
  · intro d1 d2 hf hl d' hd1 hd2
    rw [hrows] at hf hl
    rw [hcap]
    exact Rat.le_trans (h3 d1 d2 hf hl d' hd1 hd2) (hmono d')

theorem placeUsed_balance (env : Env) (σ : SS) (t : Uid) (hbal : env.balance = true) (x : Int) :
    placeUsed env σ t x = reserved σ.rows (env.info t).resource x none := by
  simp [placeUsed, usedBy, hbal]

/-- the placement of a working leaf called with the project end establishes late packing for it -/
theorem lp_place (env : Env) (σ1 σ σ' : SS) (t : Uid) (d : Int) (c : Rat) (s : Time) (rows : List (Int × Rat))
    (hbal : env.balance = true) (hb : Base env σ) (hb' : Base env σ') (hmem : (env.info t).member = true)
    (ht : t ∉ σ.done) (he1 : Ext σ1 σ) (hext : Ext σ σ')
    (hsd : ∀ s ∈ (env.info t).succs, (env.info s).member = (env.info t).member → s ∈ σ1.done)
    (hp : LeafPlaced env σ σ' t env.bound (minStarts σ1 (env.info t).succs env.bound) d c s rows) :
    LPAt env σ' t := by
  have he' := he1.trans hext
  have hu := placeUsed_nonneg env σ t hb.ledger
  have hub := placeUsed_balance env σ t hbal
  have hmono := fun x => reserved_mono_ext hext hb'.ledger (env.info t).resource x
  have hno : ∀ x ∈ σ.rows, x.task ≠ t := fun x hx hc => ht (hc ▸ hb.rowsDone x hx)
  have hrows : rowsOf σ'.rows t = rows.map (mkRow (env.info t).resource t) := by
    rw [hp.rowsEq, rowsOf_append, rowsOf_none _ t hno, rowsOf_mk, List.nil_append]
  refine ⟨fun s hs hsm => he'.done_sub (hsd s hs (hsm.trans hmem.symm)), ⟨_, hp.end_, ?_⟩, ?_⟩
  · intro d' hd1 hd2
    have hms : minStarts σ' (env.info t).succs env.bound = minStarts σ1 (env.info t).succs env.bound := by
      apply minStarts_congr
      intro s hs
      cases hsm : (env.info s).member with
      | true => exact he'.frozen s (hsd s hs (hsm.trans hmem.symm))
      | false =>
        apply he'.untouched
        intro hc
        rw [hb'.doneMem s hc] at hsm
        cases hsm
    rw [hms] at hd2
    have hfr := div_nonneg_lt_one (u := placeUsed env σ t d) (c := c) (hu d) (by have := hp.avail; grind)
    have hde : d ≤ dayOf ((d : Rat) + 1 - placeUsed env σ t d / c) := by
      have := dayOf_mono (a := (d : Rat)) (b := (d : Rat) + 1 - placeUsed env σ t d / c) (by grind)
      rwa [dayOf_intCast] at this
    obtain ⟨c', hc', hfull⟩ := hp.fullAfter d' (by omega) hd2
    rw [capMid_place env σ σ' t d' c' hp.resEq hc']
    have := hmono d'
    rw [hub] at hfull
    grind
  · intro d1 d2 hf hl d' hd1 hd2
    rw [hrows] at hf hl
    obtain ⟨⟨r1, hr1, hr1d⟩, _⟩ := firstDay_spec _ d1 hf
    obtain ⟨⟨r2, hr2, hr2d⟩, _⟩ := lastDay_spec _ d2 hl
    obtain ⟨p1, hp1, rfl⟩ := List.mem_map.1 hr1
    obtain ⟨p2, hp2, rfl⟩ := List.mem_map.1 hr2
    simp only [mkRow] at hr1d hr2d
    rcases hp.fill with hnil | ⟨dayL, c', left, hsp, hne, hc', hs'⟩
    · rw [hnil] at hp1; cases hp1
    · have hg1 := (hsp.range p1 hp1).2
      have hg2 := (hsp.range p2 hp2).1
      by_cases hex : ∃ q ∈ rows, q.1 = d'
      · obtain ⟨q, hq, hqd⟩ := hex
        obtain ⟨cq, hcq, hfull⟩ := hsp.full q hq (by omega)
        rw [hqd] at hcq hfull
        rw [capMid_place env σ σ' t d' cq hp.resEq hcq]
        have hsum : reserved σ'.rows (env.info t).resource d' none = placeUsed env σ t d' + q.2 := by
          rw [hp.rowsEq, reserved_append, reserved_mk, hub]
          have hqm : (d', q.2) ∈ rows := by rw [← hqd]; exact hq
          rw [daySum_mem rows d' q.2 (hsp.decr.imp (fun h => Int.ne_of_gt h)) hqm]
          simp
        rw [hsum, hfull]
        grind
      · obtain ⟨c2, hc2, hsk⟩ := hsp.skipped d' (by omega) (by omega) (fun q hq hc => hex ⟨q, hq, hc⟩)
        rw [capMid_place env σ σ' t d' c2 hp.resEq hc2]
        have := hmono d'
        rw [hub] at hsk
        grind

theorem LPInv.place {env : Env} {σ1 σ σ' : SS} {t : Uid} (hbal : env.balance = true) (hb : Base env σ)
    (hb' : Base env σ') (hx : LPInv env σ) (hmem : (env.info t).member = true) (ht : t ∉ σ.done) (he1 : Ext σ1 σ)
    (hsd : ∀ s ∈ (env.info t).succs, (env.info s).member = (env.info t).member → s ∈ σ1.done)
    (h : bwdPlace env σ t env.bound (minStarts σ1 (env.info t).succs env.bound) = .ok σ') : LPInv env σ' := by
  obtain ⟨hext, hd⟩ := bwdPlace_ext env σ σ' t _ _ ht h
  intro x hxd hleaf hm
  rw [hd] at hxd
  rcases List.mem_append.1 hxd with hxd | hxd
  · exact (hx x hxd hleaf hm).stable hb hb' hext hxd
  · simp only [List.mem_singleton] at hxd
    subst hxd
    obtain ⟨hs0, he0⟩ := hb.fresh x hmem ht
    obtain ⟨d, c, s, rows, hp⟩ := bwdPlace_leaf env σ σ' x _ _ hb.ledger hleaf hm hs0 he0 h
    exact lp_place env σ1 σ σ' x d c s rows hbal hb hb' hmem ht he1 hext hsd hp

/-- the relation used under `noSummaryLinks`: every member is called with the project end itself -/
def RPartial (env : Env) (t : Uid) (m : Time) : Prop := (env.info t).member = true ∧ m = env.bound

theorem dueDate_le (env : Env) (σ : SS) (t : Uid)
    (hleafs : ∀ s ∈ (env.info t).succs, (env.info s).children.isEmpty = true) :
    dueDate env (outOf σ) t ≤ minStarts σ (env.info t).succs env.bound := by
  unfold dueDate minStarts
  apply le_foldl_minT
  · exact foldl_minT_le_init _ _
  · intro y hy
    obtain ⟨s, hs, hsy⟩ := List.mem_filterMap.1 hy
    exact foldl_minT_le_mem _ _ _ (List.mem_filterMap.2 ⟨s, succLeaves_own env t s hs (hleafs s hs), hsy⟩)

/-- `C09_partial` with the hypotheses it needs beyond `noSummaryLinks`: parent pointers agree with the children
    lists (`Env.parentsOK`), links are stored on both ends (`Env.linksSym`), and linked tasks outside the WBS are
    plain leaves (`outsideLeaves` for predecessors, `hos` for successors).  Each of the four is necessary: see the
    counterexamples below. -/
theorem C09_partial_v2 (env : Env) (f0 : Uid → Fields) (res0 : List (Option Nat × Cal)) (o : Output)
    (hf : env.flagsOK) (hn : noFixedDates env f0 = true) (hs : noSummaryLinks env = true)
    (hp : env.parentsOK) (hl : env.linksSym) (ho : outsideLeaves env = true)
    (hos : ∀ t ∈ memberList env, ∀ s ∈ (env.info t).succs,
      s ∈ memberList env ∨ (env.info s).children.isEmpty = true)
    (h : backwardCalc env f0 res0 = .ok o) :
    c09Deps env o = true ∧ c09LatePacked env o = true := by
  obtain ⟨σ, hb, ⟨hdep, hlp⟩, rfl, hall⟩ := backwardCalc_final env f0 res0 o hf hn h
    (fun σ => DepInv env σ ∧ (env.balance = true → LPInv env σ)) (RPartial env)
    (fun σ h0 => ⟨(by intro t ht; rw [h0] at ht; cases ht), (by intro _ t ht; rw [h0] at ht; cases ht)⟩)
    (fun _ _ hr => ⟨hr.1, by rw [hr.2]; exact Rat.le_refl⟩)
    (fun r hr => ⟨member_root env hf f0 res0 o h r hr, rfl⟩)
    (fun σ1 t c m hr hc => by
      refine ⟨member_child env hf t c hr.1 hc, ?_⟩
      have hne : (env.info t).children.isEmpty = false := by
        cases hch : (env.info t).children with
        | nil => rw [hch] at hc; cases hc
        | cons a l => rfl
      rw [(nsl_spec env hs t ((hf t).1 hr.1) hne).2]
      simpa [minStarts] using hr.2)
    (fun t p m hr _ he => ⟨he.trans hr.1, hr.2⟩)
    (fun σ1 σ σ' t m hr hb hx ht he1 hsd hk hpl hb' => by
      obtain ⟨hmem, rfl⟩ := hr
      exact ⟨hx.1.place hb hmem ht he1 hsd hk Rat.le_refl hpl,
        fun hbal => (hx.2 hbal).place hbal hb hb' hmem ht he1 hsd hpl⟩)
  have hleafs : ∀ t ∈ memberList env, ∀ s ∈ (env.info t).succs, (env.info s).children.isEmpty = true := by
    intro t ht s hss
    rcases hos t ht s hss with hsm | hsl
    · cases hle : (env.info s).children.isEmpty with
      | true => rfl
      | false =>
        have := (nsl_spec env hs s hsm hle).1
        have htp : t ∈ (env.info s).preds := (hl t s).2 hss
        rw [this] at htp; cases htp
    · exact hsl
  constructor
  · unfold c09Deps
    rw [List.all_eq_true]
    intro t ht
    cases hleaf : isLeaf env t with
    | false => rfl
    | true =>
      simp only [Bool.not_true, Bool.false_or, List.all_eq_true]
      intro q hq
      obtain ⟨hq1, hq2⟩ := List.mem_filter.1 hq
      have hqm : q ∈ memberList env := List.contains_iff_mem.1 hq2
      obtain ⟨p, hpp, hqp⟩ := prereq_collapse env hs hp t ht q hq1
      have hpleaf : (env.info p).children.isEmpty = true := by
        by_cases hpm : p ∈ memberList env
        · cases hle : (env.info p).children.isEmpty with
          | true => rfl
          | false =>
            have := (nsl_spec env hs p hpm hle).2
            have hts : t ∈ (env.info p).succs := (hl p t).1 hpp
            rw [this] at hts; cases hts
        · have := List.all_eq_true.1 (List.all_eq_true.1 ho t ht) p hpp
          simpa [List.contains_iff_mem, hpm] using this
      rw [leavesOf_leaf env p hpleaf] at hqp
      simp only [Option.getD_some, List.mem_singleton] at hqp
      subst hqp
      obtain ⟨_, e, st, he, hst, hle⟩ := hdep q (hall q hqm) hpleaf t ((hl q t).1 hpp) ((hf t).2 ht)
      show (match (σ.f q).end_, (σ.f t).start with
        | some e, some s => decide (e ≤ s)
        | _, _ => false) = true
      rw [he, hst]
      simpa using hle
  · unfold c09LatePacked
    cases hbal : env.balance with
    | false => rfl
    | true =>
      simp only [Bool.not_true, Bool.false_or, List.all_eq_true]
      intro t ht
      cases hleaf : (env.info t).children.isEmpty with
      | false => simp [isLeaf, hleaf]
      | true =>
        cases hm : (env.info t).milestone with
        | true => simp
        | false =>
          obtain ⟨_, ⟨e, he, h2⟩, h3⟩ := hlp hbal t (hall t ht) hleaf hm
          simp only [isLeaf, hleaf, Bool.not_true, Bool.false_or, Bool.and_eq_true]
          constructor
          · show (match (σ.f t).end_ with
              | some e => (daysBetween (dayOf e + 1) (dayOf (dueDate env (outOf σ) t))).all
                  (fun d => fullDay env (outOf σ) (env.info t).resource d t)
              | none => false) = true
            rw [he]
            simp only [List.all_eq_true]
            intro d hd
            obtain ⟨hd1, hd2⟩ := (mem_daysBetween _ _ _).1 hd
            have hdue := dayOf_mono (dueDate_le env σ t (hleafs t ht))
            have := h2 d (by omega) (by omega)
            simpa [fullDay, booked, hbal, outOf] using this
          · show (match firstDay (rowsOf σ.rows t), lastDay (rowsOf σ.rows t) with
              | some d1, some d2 => (daysBetween (d1 + 1) d2).all
                  (fun d => fullDay env (outOf σ) (env.info t).resource d t)
              | _, _ => true) = true
            cases hfd : firstDay (rowsOf σ.rows t) with
            | none => rfl
            | some d1 =>
              cases hld : lastDay (rowsOf σ.rows t) with
              | none => rfl
              | some d2 =>
                simp only [List.all_eq_true]
                intro d hd
                obtain ⟨hd1, hd2⟩ := (mem_daysBetween _ _ _).1 hd
                have := h3 d1 d2 hfd hld d (by omega) hd2
                simpa [fullDay, booked, hbal, outOf] using this

/-! ### counterexamples: `C09_partial` without the extra hypotheses of `C09_partial_v2` (kernel-checked) -/

namespace C09CE

def ti (children preds succs : List Uid) (parent : Option Uid := none) (member : Bool := true) : TaskInfo :=
  { tid := 0, parent := parent, children := children, preds := preds, succs := succs, member := member,
    resource := some 0, milestone := false, minStart := none }

def nof : Fields := { start := none, end_ := none, est := none, spent := none }

/-- asymmetric link: 0 lists 1 as predecessor, 1 does not list 0 as successor -/
def ce1 : Env :=
  { n := 2, info := fun u => match u with
      | 0 => ti [] [1] []
      | 1 => ti [] [] []
      | _ => ti [] [] [] (member := false),
    roots := [0, 1], balance := true, defaultEst := 1, clock := fun _ => 19000, bound := (316249 : Rat) / 16 }

theorem ce1_mem : memberList ce1 = [0, 1] := by decide +kernel

theorem ce1_flags : ce1.flagsOK := by
  intro t
  rw [ce1_mem]
  match t with
  | 0 => decide
  | 1 => decide
  | n + 2 => simp [ce1, ti]

theorem ce1_parents : ce1.parentsOK := by
  intro t p ht hpar
  rw [ce1_mem] at ht
  simp only [List.mem_cons, List.not_mem_nil, or_false] at ht
  rcases ht with rfl | rfl <;> simp [ce1, ti] at hpar

/-- `C09_partial` as stated is false (all its hypotheses hold, even with consistent parents; the dependency
    clause fails): links must be stored on both ends -/
theorem C09_partial_false_asym :
    ∃ env f0 res0 o, env.flagsOK ∧ noFixedDates env f0 = true ∧ noSummaryLinks env = true ∧ env.parentsOK ∧
      backwardCalc env f0 res0 = .ok o ∧ c09Deps env o = false := by
  have hev : (match backwardCalc ce1 (fun _ => nof) [] with
      | .ok o => c09Deps ce1 o == false | .error _ => false) = true := by decide +kernel
  cases hb : backwardCalc ce1 (fun _ => nof) [] with
  | error e => rw [hb] at hev; cases hev
  | ok o =>
    rw [hb] at hev
    exact ⟨ce1, fun _ => nof, [], o, ce1_flags, by decide +kernel, by decide +kernel, ce1_parents, hb,
      by simpa using hev⟩

/-- parent pointer not matched by a children list: 0 claims 1 as parent, 1 waits for 2 -/
def ce2 : Env :=
  { n := 3, info := fun u => match u with
      | 0 => ti [] [] [] (parent := some 1)
      | 1 => ti [] [2] []
      | 2 => ti [] [] [1]
      | _ => ti [] [] [] (member := false),
    roots := [0, 1, 2], balance := false, defaultEst := 1, clock := fun _ => 19000, bound := (316249 : Rat) / 16 }

def ce2f : Uid → Fields := fun u => if u = 0 then { nof with est := some 24 } else nof

theorem ce2_mem : memberList ce2 = [0, 1, 2] := by decide +kernel

theorem ce2_flags : ce2.flagsOK := by
  intro t
  rw [ce2_mem]
  match t with
  | 0 => decide
  | 1 => decide
  | 2 => decide
  | n + 3 => simp [ce2, ti]

theorem ce2_sym : ce2.linksSym := by
  intro a b
  rcases a with _ | _ | _ | a <;> rcases b with _ | _ | _ | b <;> simp [ce2, ti]

/-- `C09_partial` as stated is false also with symmetric links: parent pointers must agree with the children
    lists (`prereqLeaves` follows parent pointers, the scheduler follows children lists) -/
theorem C09_partial_false_parent :
    ∃ env f0 res0 o, env.flagsOK ∧ noFixedDates env f0 = true ∧ noSummaryLinks env = true ∧ env.linksSym ∧
      backwardCalc env f0 res0 = .ok o ∧ c09Deps env o = false := by
  have hev : (match backwardCalc ce2 ce2f [] with
      | .ok o => c09Deps ce2 o == false | .error _ => false) = true := by decide +kernel
  cases hb : backwardCalc ce2 ce2f [] with
  | error e => rw [hb] at hev; cases hev
  | ok o =>
    rw [hb] at hev
    exact ⟨ce2, ce2f, [], o, ce2_flags, by decide +kernel, by decide +kernel, ce2_sym, hb, by simpa using hev⟩

/-- an outside successor that has children and a start date of its own: the scheduler honours the date, the
    due date of the statement looks at the successor's leaves only -/
def ce3 : Env :=
  { n := 3, info := fun u => match u with
      | 0 => ti [] [] [1]
      | 1 => ti [2] [0] [] (member := false)
      | 2 => ti [] [] [] (parent := some 1) (member := false)
      | _ => ti [] [] [] (member := false),
    roots := [0], balance := true, defaultEst := 1, clock := fun _ => 19000, bound := (316249 : Rat) / 16 }

def ce3f : Uid → Fields := fun u => if u = 1 then { nof with start := some 19750 } else nof

theorem ce3_mem : memberList ce3 = [0] := by decide +kernel

theorem ce3_flags : ce3.flagsOK := by
  intro t
  rw [ce3_mem]
  match t with
  | 0 => decide
  | 1 => decide
  | 2 => decide
  | n + 3 => simp [ce3, ti]

theorem ce3_sym : ce3.linksSym := by
  intro a b
  rcases a with _ | _ | _ | a <;> rcases b with _ | _ | _ | b <;> simp [ce3, ti]

theorem ce3_parents : ce3.parentsOK := by
  intro t p ht hpar
  rw [ce3_mem] at ht
  simp only [List.mem_cons, List.not_mem_nil, or_false] at ht
  subst ht
  simp [ce3, ti] at hpar

/-- with consistent parents, symmetric links and leaf-only outside predecessors the late-packing clause still
    fails when an outside successor has children -/
theorem C09_partial_false_outside_succ :
    ∃ env f0 res0 o, env.flagsOK ∧ noFixedDates env f0 = true ∧ noSummaryLinks env = true ∧ env.parentsOK ∧
      env.linksSym ∧ outsideLeaves env = true ∧
      backwardCalc env f0 res0 = .ok o ∧ c09LatePacked env o = false := by
  have hev : (match backwardCalc ce3 ce3f [] with
      | .ok o => c09LatePacked ce3 o == false | .error _ => false) = true := by decide +kernel
  cases hb : backwardCalc ce3 ce3f [] with
  | error e => rw [hb] at hev; cases hev
  | ok o =>
    rw [hb] at hev
    exact ⟨ce3, ce3f, [], o, ce3_flags, by decide +kernel, by decide +kernel, ce3_parents, ce3_sym,
      by decide +kernel, hb, by simpa using hev⟩

/-- an outside predecessor whose subtree contains a member -/
def ce4 : Env :=
  { n := 3, info := fun u => match u with
      | 0 => ti [] [2] []
      | 1 => ti [] [] []
      | 2 => ti [1] [] [0] (member := false)
      | _ => ti [] [] [] (member := false),
    roots := [0, 1], balance := true, defaultEst := 1, clock := fun _ => 19000, bound := (316249 : Rat) / 16 }

def ce4f : Uid → Fields := fun u => if u = 2 then { nof with start := some 19000, end_ := some 19001 } else nof

theorem ce4_mem : memberList ce4 = [0, 1] := by decide +kernel

theorem ce4_flags : ce4.flagsOK := by
  intro t
  rw [ce4_mem]
  match t with
  | 0 => decide
  | 1 => decide
  | 2 => decide
  | n + 3 => simp [ce4, ti]

theorem ce4_sym : ce4.linksSym := by
  intro a b
  rcases a with _ | _ | _ | a <;> rcases b with _ | _ | _ | b <;> simp [ce4, ti]

theorem ce4_parents : ce4.parentsOK := by
  intro t p ht hpar
  rw [ce4_mem] at ht
  simp only [List.mem_cons, List.not_mem_nil, or_false] at ht
  rcases ht with rfl | rfl <;> simp [ce4, ti] at hpar

/-- with consistent parents, symmetric links and no outside successors the dependency clause still fails when an
    outside predecessor has children (its leaves may be members) -/
theorem C09_partial_false_outside_pred :
    ∃ env f0 res0 o, env.flagsOK ∧ noFixedDates env f0 = true ∧ noSummaryLinks env = true ∧ env.parentsOK ∧
      env.linksSym ∧
      (∀ t ∈ memberList env, ∀ s ∈ (env.info t).succs, s ∈ memberList env ∨ (env.info s).children.isEmpty = true) ∧
      backwardCalc env f0 res0 = .ok o ∧ c09Deps env o = false := by
  have hev : (match backwardCalc ce4 ce4f [] with
      | .ok o => c09Deps ce4 o == false | .error _ => false) = true := by decide +kernel
  cases hb : backwardCalc ce4 ce4f [] with
  | error e => rw [hb] at hev; cases hev
  | ok o =>
    rw [hb] at hev
    refine ⟨ce4, ce4f, [], o, ce4_flags, by decide +kernel, by decide +kernel, ce4_parents, ce4_sym, ?_, hb,
      by simpa using hev⟩
    intro t ht s hs
    rw [ce4_mem] at ht
    simp only [List.mem_cons, List.not_mem_nil, or_false] at ht
    rcases ht with rfl | rfl <;> simp [ce4, ti] at hs

end C09CE

end Pj
