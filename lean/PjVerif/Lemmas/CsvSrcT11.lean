/-
  Lemmas/CsvSrcT11.lean — CSV I/O, READ side: the store `readSt` (`read_csv` before it calls `raws_to_wbs`): the raw
  objects `es` at 0, 1, …, nothing else; `read_csv_run2` = `read_csv_run` with the hypotheses on the raw objects `es`.
-/
import PjVerif.Lemmas.CsvSrcT10
namespace Pj.CsvSrc
open Pj.PyLite Pj.Extracted.Csv Pj.Csv

theorem allocs_reads : ∀ (es : List PyLite.Env) (st : PState), (es.foldl allocSt st).reads = st.reads + es.length
  | [], _ => rfl
  | e :: es, st => by
    rw [List.foldl_cons, allocs_reads es, List.length_cons]
    show st.reads + 1 + es.length = _
    omega

theorem allocs_low : ∀ (es : List PyLite.Env) (st : PState) (j : Nat), j < st.reads →
    (es.foldl allocSt st).heap j = st.heap j
  | [], _, _, _ => rfl
  | e :: es, st, j, h => by
    rw [List.foldl_cons, allocs_low es _ j (Nat.lt_succ_of_lt h)]
    simp only [allocSt, if_neg (Nat.ne_of_lt h)]

theorem allocs_high : ∀ (es : List PyLite.Env) (st : PState) (j : Nat), st.reads + es.length ≤ j →
    (es.foldl allocSt st).heap j = st.heap j
  | [], _, _, _ => rfl
  | e :: es, st, j, h => by
    rw [List.length_cons] at h
    rw [List.foldl_cons, allocs_high es _ j (by show st.reads + 1 + es.length ≤ j; omega)]
    simp only [allocSt, if_neg (show j ≠ st.reads by omega)]

theorem allocs_at : ∀ (es : List PyLite.Env) (st : PState) (i : Nat) (h : i < es.length),
    (es.foldl allocSt st).heap (st.reads + i) = es[i]
  | e :: es, st, 0, _ => by
    rw [List.foldl_cons, allocs_low es _ _ (by show st.reads + 0 < st.reads + 1; omega)]
    simp [allocSt]
  | e :: es, st, i + 1, h => by
    have := allocs_at es (allocSt st e) i (by simpa using h)
    rw [List.foldl_cons]
    have he : (allocSt st e).reads + i = st.reads + (i + 1) := by show st.reads + 1 + i = _; omega
    rw [he] at this
    rw [this]; rfl

section readSt
variable (hdr : List Str) (rows : List (List Str)) (es : List PyLite.Env)

theorem readSt_reads : (readSt hdr rows es).reads = es.length := by
  unfold readSt
  rw [allocs_reads]
  show 0 + es.length = _
  omega

theorem readSt_at (i : Nat) (h : i < es.length) : (readSt hdr rows es).heap i = es[i] := by
  unfold readSt
  have := allocs_at es { emptySt with boxes := (hdr :: rows).map atomsOf } i h
  rw [show ({ emptySt with boxes := (hdr :: rows).map atomsOf } : PState).reads + i = i by show 0 + i = i; omega] at this
  exact this

theorem readSt_high (j : Nat) (h : es.length ≤ j) : (readSt hdr rows es).heap j = [] := by
  unfold readSt
  rw [allocs_high es _ j (by show 0 + es.length ≤ j; omega)]
  rfl

theorem readSt_par (hno : ∀ e ∈ es, ∀ x, e.get? "parent" ≠ some (.atom (.ref x))) :
    ParInv (readSt hdr rows es).reads (readSt hdr rows es) := by
  intro j x hx
  exfalso
  by_cases hj : j < es.length
  · rw [readSt_at hdr rows es j hj] at hx
    exact hno _ (List.getElem_mem hj) x hx
  · rw [readSt_high hdr rows es j (by omega)] at hx
    simp [PyLite.Env.get?] at hx

theorem readSt_map {α} (g : PyLite.Env → α) :
    (List.range es.length).map (fun o => g ((readSt hdr rows es).heap o)) = es.map g := by
  apply List.ext_getElem
  · simp
  · intro i h1 h2
    simp only [List.getElem_map, List.getElem_range]
    rw [readSt_at hdr rows es i (by simpa using h1)]

end readSt

/-- `read_csv(path)`, the hypotheses on the raw objects `es` of the data rows: `RawOK2`, no `parent` attribute holding an
    object, pairwise different ids -/
theorem read_csv_run2 (L : IOLib) (F : Nat) (text : List Char) (hdr : List Str) (rows : List (List Str))
    (es : List PyLite.Env) (hp : parse text = some (hdr :: rows)) (hes : RowsRaw L hdr rows es)
    (hok : ∀ e ∈ es, RawOK2 e) (hno : ∀ e ∈ es, ∀ x, e.get? "parent" ≠ some (.atom (.ref x)))
    (hids : (es.map (fun e => slot e "id")).Pairwise (fun a b => a.pyEq b = false))
    (hpreds : ∀ e ∈ es, ∀ k ∈ predsOf e, (dictRef (idDict (readSt hdr rows es) (List.range es.length)) k).isSome)
    (hac : Acyclic (readSt hdr rows es) (List.range es.length)) :
    interpRead L (F + 3) text =
      .ok (.atom (.ref (wbsRef (readSt hdr rows es) (List.range es.length))),
        finalSt (readSt hdr rows es) (List.range es.length)) := by
  have hmem : ∀ o ∈ List.range es.length, ∃ h : o < es.length, (readSt hdr rows es).heap o = es[o] := fun o ho => by
    have h : o < es.length := List.mem_range.1 ho
    exact ⟨h, readSt_at hdr rows es o h⟩
  refine read_csv_run L F text hdr rows es hp hes (fun o ho => ?_) (readSt_par hdr rows es hno) ?_ (fun o ho => ?_) hac
  · obtain ⟨h, e⟩ := hmem o ho
    rw [readSt_reads, e]
    exact ⟨h, hok _ (List.getElem_mem h)⟩
  · rw [readSt_map hdr rows es (fun e => slot e "id")]; exact hids
  · obtain ⟨h, e⟩ := hmem o ho
    rw [e]; exact hpreds _ (List.getElem_mem h)

end Pj.CsvSrc
