/-
  Lemmas/TaskSrc.lean — the CORE OF task.py: the hand-written graph model (Model/Graph.lean: `rootF`, `subtreeF`,
  `descF`, `ancF`, `pubParent`, `hasIdIntersection`, `linkedWithAny`, `setOwners`, `chkParentSome`, `detachOld`,
  `mutParentSome`, `setParentSome`, `setParentNone`, `setParent`, `chkLinks`, `mutPreds`, `setPreds`, `mutSuccs`,
  `setSuccs`, `chkChildren`, `releaseChildren`, `foldSetParent`, `setChildren`) equals the interpretation of the CURRENT
  SOURCE of

    _to_list   _find_root   _collect_subtree   _unique_objects   _has_id_intersection   _linked_with_any
    _check_not_none   _check_no_nones_in_list
    Task._attach   Task._detach   Task._raw_parent   the `parent` getter
    Task.__get_all_parents / __get_all_children / __get_all_predecessors / __get_all_successors (with their generators)
    the four relation setters of `Task`: `parent`, `predecessors`, `successors`, `children`     _ChildrenList.append

  (Extracted/TaskSrc.lean, regenerated from src/pjplan/task.py by tools/extract_task.py on every check), run by the pass
  layer of PyLite with its task constructs (Model/PyLite.lean: `progH` / `callPV` / `Stmt.execP` / `Expr.evalP`).

  This file: the encoding and the entry points.  Lemmas/TaskSrcA.lean: stage A (helpers).  TaskSrcB.lean: stage B (the
  `parent` setter).  TaskSrcC.lean: stage C (`predecessors` / `successors`).  TaskSrcD.lean: stage D (`children`).
  TaskSrcCheck.lean, TaskSrcCheckB/C/D/D1.lean: the kernel-checked concrete runs (stage 1 of every stage).

  Setting.
  * A graph state `s : G` is the store `encHeap s`: the task `u` is the object `ref u` (for EVERY `u : Nat`; the bound
    `s.n` only enters through the model's fuel) with the private fields of `Task` as attributes (`encTask`): `id`
    (`idA`: the model's `Int` as a Python `int`), `parent` (`None` or a reference - the RAW parent, the hidden WBS root
    included), `children` / `predecessors` / `successors` (lists of references: the raw lists `self.__children` …; the
    translator treats the facade classes `_ChildrenList`, `_PredecessorsList`, `_SuccessorsList`, `_ImmutableTaskList`
    as the list they wrap where the code only iterates them / tests membership), `wbs` (`None` or `ref w`, `w` the
    hidden root task of the WBS, `G.owner`).  A WBS object is identified with its hidden root: it is only compared
    (`!=`), tested for `None` and asked for `_root()`, which is the one library primitive (`taskPrim`: the identity).
    `withG st s` = the Python state `st` with the store `encHeap s`; the theorems hold for every `st` whose store is
    `encHeap s` (the ledger, `calculated`, … of `PState` play no role).
  * Identity: `Task` defines no `__eq__` (checked by the translator), so `x in l`, `l.remove(x)`, `==` on tasks are
    identity, PyLite's `pyEq` on references; `id(x)` of `ref u` is the int `u`.  `EMPTY_TASK_ID` = `sys.maxsize` = 2^63-1
    = the model's `emptyId`.
  * Calls are NOT resolved by hand-written handlers: the 25 translated functions form a PROGRAM (`taskFuns`), run by
    `progH taskPrim taskFuns F` (`Hd F`): every call of a function costs one unit of the fuel `F`, i.e. `F` bounds the
    DEPTH of nested calls as Python's recursion limit does; at depth `F` the run ends with RecursionError
    (`.crash .recursion`).  The model's recursions have the fuel `s.fuel = s.n + 1` and end in `.crash .recursion` when it
    runs out - which happens on cyclic structures only.  All theorems therefore have the form
        F ≥ s.n + c,  the model does not end in `.crash .recursion`   ⟹   interp F … = the model,
    the proviso being exactly the case the model adds to the source (as in Lemmas/PassSrc.lean / CalcSrc.lean).
  * `setterResult st r` - what a run of a setter is compared with: `ok (None, withG st s')` when the model accepts with
    the new state `s'`, `error e` when it rejects with `e` (RuntimeError = `.runtime`).  The interpreter's result of a
    rejected call carries no state (an `Except`), so for rejected calls the theorems give the error class only; that a
    rejected call of the `parent` / `predecessors` / `successors` setter leaves the store alone is visible in the
    proofs (the validations are run first and return the unchanged state: `parent_set_checks`, `pd_l1`, `pd_l2`) but is
    not part of the statements.
  * The right-hand side of `predecessors` / `successors` / `children` is any value `v` with `ValueOf v l` (`_to_list(v)`
    is the list of tasks `l`): a Python list of tasks and `None`s (`valueOf_list`, `valueOf_refs`), a single task
    (`valueOf_task`), `None` (`valueOf_none`).  Tuples, sets, generators and facade objects are outside the encoding.

  Results (all proofs complete; axioms: propext, Classical.choice, Quot.sound).
    Stage 1 (TaskSrcCheck*.lean, `decide +kernel`; `view`: the returned value and the objects 0 … n-1 of the final store
             against the encoding of the model's state, errors must coincide) on three graphs - `g1`: a WBS (hidden root,
             nesting, a link), a detached tree, ids shared between the trees, linked detached tasks, a second WBS;
             `g2`: a deeper WBS with a diamond of links; `g3`: NOT well formed, a parent cycle (RecursionError on both
             sides) - EVERY task / pair of tasks: all helpers; every call `t.parent = p` (accepted: a move inside a WBS,
             a detached task entering a WBS, `None` on a member / a detached task / a root task, the same parent again,
             the hidden root as parent; rejected: shared ids, another WBS, the task itself, a descendant, linked with the
             new ancestors, the hidden root as the task); every `t.predecessors / successors = []`, `[a]`, `[a, 3, a]`;
             every `t.children = []`, `[a]`, `[a, 10]`, `[11, a, 11]`; `None`, a task, lists with `None`s as values.
    Stage A (TaskSrcA.lean), for every `s`, every `st` with store `encHeap s`:
             `raw_parent_spec` = `s.parent`; `parent_get_spec` = `s.pubParent`;
             `find_root_spec`        rootF s f t = some r → f + 1 ≤ F → _find_root(ref t) = ref r
             `collect_subtree_spec`  descF s.children f t = some r → f ≤ F → _collect_subtree(ref t) = refs (t :: r)
             `get_all_children_spec` descF s.children f t = some r → f + 1 ≤ F → t.all_children = refs r
             `get_all_parents_spec`  ancF s f (s.parent t) = some r → f + 2 ≤ F → t.all_parents = refs r
             `get_all_predecessors_spec` / `get_all_successors_spec`  descF s.preds f t = some r → f + 1 ≤ F →
                                     t.all_predecessors = refs r.eraseDups
             `unique_objects_spec`   _unique_objects(refs l) = refs l.eraseDups
             `linked_with_any_spec`  _linked_with_any(refs ts, refs os) = linkedWithAny s ts os
             `has_id_intersection_spec`  hasIdIntersection s p chs = some b → s.fuel + 2 ≤ F →
                                     _has_id_intersection(ref p, refs chs) = b
             `attach_spec` / `attach_none` / `detach_spec`  descF s.children f t = some r → f ≤ F →
                                     t._attach(ref w) ends in withG st (setOwners s (t :: r) (some w)); `_attach(None)` does
                                     nothing; t._detach() ends in withG st (setOwners s (t :: r) none)
             `to_list_none` / `to_list_task` / `to_list_list` / `to_list_refs`, `check_not_none_spec`, `check_no_nones_spec`;
             all of them leave the state unchanged except `_attach` / `_detach`.
    Stage B (TaskSrcB.lean) `interpSetParent_eq`: for every s, st (store encHeap s), t, p : Option Uid, F ≥ s.n + 6,
                 (setParent s t p).2 ≠ some (.crash .recursion)  →
                 interpSetParent F t p st = setterResult st (setParent s t p)
             with the one hypothesis `honce` for `p = None` on a MEMBER of a WBS: the children list of the old parent names
             `t` at most once (`WF.once`; `interpSetParent_eq_wf` for well-formed states).  For `p ≠ None`
             (`parent_set_some`) and for a detached task there is NO well-formedness hypothesis.
    Stage C (TaskSrcC.lean) `interpSetPreds_eq` / `interpSetSuccs_eq`: for every s, st, t, v with ValueOf v l, F ≥ s.n + 4,
                 (setPreds s t l).2 ≠ some (.crash .recursion)  →  interpSetPreds F t v st = setterResult st (setPreds s t l)
             - no well-formedness hypothesis.
    Stage D (TaskSrcD.lean) `interpSetChildren_eq`: for every s, st, h, v with ValueOf v l, F ≥ s.n + 6,
                 (setChildren s h l).2 ≠ some (.crash .recursion)  →
                 interpSetChildren F h v st = setterResult st (setChildren s h l)
             - no well-formedness hypothesis (the inner assignments `v.parent = h` run on intermediate states that are not
             well formed: `parent_set_some` does not need it).

  Disagreements.  On REACHABLE states (C01: `WF`) none was found.  Outside them:
    * `honce` is necessary: on a state whose children list names `t` twice, `t.parent = None` for a member of a WBS
      removes both entries in Python (once before, once inside the inner `root.children.append(t)`), one in the model
      (`Check.g4` in TaskSrcCheckB.lean: kernel-checked disagreement; all other calls on that graph agree).
    * (not observable in PyLite) when the inner assignment of `t.parent = None` is REJECTED, Python has already removed
      `t` from the list of its old parent while the model returns the unchanged state; the inner validations can only
      fail on states that are not well formed (the hidden root has no links, `WF.rootsTop`).
  Modelling notes confirmed by the proofs: the comment on `setParentNone` in Model/Graph.lean (the validations of the
  inner call do not look at the removed entry) is `chkParentSome_detachOld`, which needs no forest hypothesis - a
  successful enumeration below `t` never meets a node that lists `t` (`descF_no_back`); the comment on `mutParentSome`
  (the subtree of `_attach` enumerated before the mutation) is `descF_detachOld`.

  Limitations.  (1) Errors carry no state (see `setterResult`).  (2) The fuel of `progH` counts the depth of calls of
  translated functions; Python's limit also counts the frames of the caller and of builtins, and a generator adds
  frames while it is resumed: the theorems say "any sufficiently large limit".  (3) The generators are translated as
  functions returning the list of the yielded values (faithful because they write nothing and are consumed completely
  by code that writes nothing - checked by the translator's effect analysis).  (4) The list facades are the lists they
  wrap; their other methods (`move`, `sort`, `reorder`, `insert`, `remove`, the operators) are not translated.
  (5) ids are the model's `Int` (Python ids may be any hashable value; only `==` and `set` membership are used).
  (6) `Task.__init__`, `clone`, `to_dict`, printing are not translated.
  The negative check is at the end of Lemmas/TaskSrcD.lean.
-/
import PjVerif.Extracted.TaskSrc
import PjVerif.Model.GraphOps
namespace Pj.TaskSrc
open Pj.PyLite Pj.Extracted

/-! ### the encoding of a graph state -/

def optRef : Option Uid → Atom
  | none => .none
  | some u => .ref u

def refs (l : List Uid) : Val := .list (l.map Atom.ref)

/-- `task.id`: the model's `Int` as a Python `int` -/
def idA (i : Int) : Atom := .num (i : Rat)

/-- the task object `ref u` of the graph state `s`: the private fields of `Task` -/
def encTask (s : G) (u : Uid) : PyLite.Env :=
  [("id", .atom (idA (s.tid u))), ("parent", .atom (optRef (s.parent u))), ("children", refs (s.children u)),
   ("predecessors", refs (s.preds u)), ("successors", refs (s.succs u)), ("wbs", .atom (optRef (s.owner u)))]

def encHeap (s : G) : Nat → PyLite.Env := fun u => encTask s u

/-- the one library primitive: `wbs._root()`.  The WBS object of the hidden root task `w` is the reference `ref w`
    itself (a WBS object is only compared, tested for `None` and asked for its root), so `_root()` is the identity -/
def taskPrim : String → List Atom → PState → Res Val := fun name args _ =>
  match args with
  | [.ref w] => if name = "_root" then pure (.atom (.ref w)) else throw stuck
  | _ => throw stuck

/-- a Python state whose store is the encoding of `s` (the other components of `PState` play no role) -/
def encSt (s : G) : PState := { L := [], heap := encHeap s, done := [], res := [], reads := 0, boxes := [] }

/-- call the k-th function of task.py with at most `fuel` nested calls -/
def interp (fuel : Nat) (k : Nat) (args : List Val) (st : PState) : Res (Val × PState) :=
  runProg taskPrim taskFuns fuel k args st

/-- `t.parent = p` -/
def interpSetParent (fuel : Nat) (t : Uid) (p : Option Uid) (st : PState) : Res (Val × PState) :=
  interp fuel fn_Task_parent_set [.atom (.ref t), .atom (optRef p)] st

/-- `t.predecessors = v` / `t.successors = v` / `t.children = v` for a Python value `v` (`refs l`: a list of tasks) -/
def interpSetPreds (fuel : Nat) (t : Uid) (v : Val) (st : PState) : Res (Val × PState) :=
  interp fuel fn_Task_predecessors_set [.atom (.ref t), v] st
def interpSetSuccs (fuel : Nat) (t : Uid) (v : Val) (st : PState) : Res (Val × PState) :=
  interp fuel fn_Task_successors_set [.atom (.ref t), v] st
def interpSetChildren (fuel : Nat) (t : Uid) (v : Val) (st : PState) : Res (Val × PState) :=
  interp fuel fn_Task_children_set [.atom (.ref t), v] st


end Pj.TaskSrc
