/-
  Lemmas/CritPathSrcA2.lean — the simulation layer of the translated tie for alg/critical_path.py, part 2:
  `__insert_task` (three nested loops, recursion) and `CriticalPathCalculator(tasks, None)`.
-/
import PjVerif.Lemmas.CritPathSrcA1
namespace Pj.CritPathSrc
open Pj.PyLite Pj.Extracted.CritPath
open Pj.TaskSrc (callPV_eq execBlockP_cons execBlockP_nil execP_forIn noRec Env.get?_set Env.get?_cons Env.get?_nil pyEq_num
  evalP_listComp_pure)
set_option linter.unusedSimpArgs false
set_option linter.unusedVariables false

/-! ### `__insert_task` -/

def itPre : List Stmt := src_CPC_insert_task.take 4
def itLoop : Stmt := src_CPC_insert_task.getD 4 .pass
def itPost : List Stmt := src_CPC_insert_task.drop 5
def itOwnerBody : List Stmt := match itLoop with | .forIn _ _ b => b | _ => []
def itPredLoop : Stmt := itOwnerBody.getD 0 .pass
def itPredBody : List Stmt := match itPredLoop with | .forIn _ _ b => b | _ => []
def itPLoop : Stmt := itPredBody.getD 0 .pass
def itPBody : List Stmt := match itPLoop with | .forIn _ _ b => b | _ => []

theorem it_shape : src_CPC_insert_task = itPre ++ [itLoop] ++ itPost := rfl
theorem itLoop_eq : itLoop = .forIn "owner" (.bin .add (.listCons (.var "task") .listNil)
    (.listOf (.prim "all_parents" (.listCons (.var "task") .listNil)))) [itPredLoop] := rfl
theorem itPredLoop_eq : itPredLoop =
    .forIn "pred" (.prim "predecessors" (.listCons (.var "owner") .listNil)) [itPLoop] := rfl
theorem itPLoop_eq : itPLoop = .forIn "p" (.bin .add (.listCons (.var "pred") .listNil)
    (.listOf (.prim "all_children" (.listCons (.var "pred") .listNil)))) itPBody := rfl

/-- the local environment of `__insert_task` in its loops -/
def ItEnv (B : Nat) (t : Uid) (acc : Store × List Atom) (ρ : PyLite.Env) : Prop :=
  ρ.get? "self" = some (.atom (.ref B)) ∧ ρ.get? "task" = some (.atom (.ref t)) ∧ ρ.get? "p_ids" = some (.list acc.2)

section loops
variable (e : CPEnv) (tid : Uid → Int) (B : Nat) {H : PHandlers} (hprim : H.prim = cpPrim e tid)
  {rec : Store → Uid → Option Store}
  (hrec : ∀ σ p σ', rec σ p = some σ' →
    H.fnV fn_CPC_insert_task [.atom (.ref B), .atom (.ref p)] (mkSt B σ) = .ok (.atom .none, mkSt B σ'))
include hprim hrec

theorem it_step (t : Uid) (acc acc' : Store × List Atom) (p : Uid) (ρ : PyLite.Env) (hP : ItEnv B t acc ρ)
    (h : insertStep e tid B rec acc p = some acc') :
    ∃ ρ', execBlockP H [] noRec itPBody (ρ.set "p" (.atom (.ref p))) (mkSt B acc.1) = .normal ρ' (mkSt B acc'.1) ∧
      ItEnv B t acc' ρ' := by
  obtain ⟨hs, ht, hp⟩ := hP
  unfold insertStep at h
  split at h
  next _ _ _ _ mem hg =>
    have hr := encHeap_get B hg
    by_cases h1 : (e.children p).length = 0
    · cases h2 : mem.any (fun v => v.pyEq (.num ((p : Nat) : Rat)))
      · simp only [h1, h2, true_and, false_and, Bool.false_eq_true, if_false, Option.some.injEq] at h
        subst h
        cpl [itPBody, itPLoop, itPredBody, itPredLoop, itOwnerBody, itLoop, src_CPC_insert_task, hprim, cpPrim, refs, hs, ht, hp, hr,
          pyEq_num, h1, h2, ItEnv]
      · cases h3 : acc.2.any (fun v => v.pyEq (idA (tid p)))
        · simp only [h1, h2, h3, true_and, if_true] at h
          cases hr' : rec acc.1 p with
          | none => simp [hr'] at h
          | some σ' =>
            simp only [hr', Option.map_some, Option.some.injEq] at h
            subst h
            have hcall := hrec _ _ _ hr'
            cpl [itPBody, itPLoop, itPredBody, itPredLoop, itOwnerBody, itLoop, src_CPC_insert_task, hprim, cpPrim, refs, hs, ht,
              hp, hr, pyEq_num, h1, h2, h3, ItEnv, hcall]
        · simp only [h1, h2, h3, true_and, Bool.true_eq_false, and_false, if_false, Option.some.injEq] at h
          subst h
          cpl [itPBody, itPLoop, itPredBody, itPredLoop, itOwnerBody, itLoop, src_CPC_insert_task, hprim, cpPrim, refs, hs, ht,
            hp, hr, pyEq_num, h1, h2, h3, ItEnv]
    · simp only [h1, false_and, if_false, Option.some.injEq] at h
      subst h
      cpl [itPBody, itPLoop, itPredBody, itPredLoop, itOwnerBody, itLoop, src_CPC_insert_task, hprim, cpPrim, refs, hs, ht,
        hp, hr, pyEq_num, h1, ItEnv]
  next => simp at h

theorem it_pred (t : Uid) (acc acc' : Store × List Atom) (pred : Uid) (ρ : PyLite.Env) (hP : ItEnv B t acc ρ)
    (h : insertPred e tid B rec acc pred = some acc') :
    ∃ ρ', execBlockP H [] noRec [itPLoop] (ρ.set "pred" (.atom (.ref pred))) (mkSt B acc.1) = .normal ρ' (mkSt B acc'.1) ∧
      ItEnv B t acc' ρ' := by
  unfold insertPred at h
  split at h
  next => simp at h
  next d hd =>
    have hit : (Expr.bin .add (.listCons (.var "pred") .listNil)
        (.listOf (.prim "all_children" (.listCons (.var "pred") .listNil)))).evalP H [] (ρ.set "pred" (.atom (.ref pred)))
        (mkSt B acc.1) = .ok (.list ((pred :: d).map Atom.ref), mkSt B acc.1) := by
      cpl [hprim, cpPrim, refs, hd]
    simp only [execBlockP_cons, execBlockP_nil, itPLoop_eq]
    rw [execP_forIn (hit := hit)]
    have hP0 : ItEnv B t acc (ρ.set "pred" (.atom (.ref pred))) := by
      obtain ⟨h1, h2, h3⟩ := hP
      exact ⟨by simp [Env.get?_set, h1], by simp [Env.get?_set, h2], by simp [Env.get?_set, h3]⟩
    have hstep : ∀ (a : Store × List Atom) (b : Uid) (ρ : PyLite.Env) (a' : Store × List Atom), b ∈ (pred :: d) →
        ItEnv B t a ρ → insertStep e tid B rec a b = some a' →
        ∃ ρ', execBlockP H [] noRec itPBody (ρ.set "p" (.atom (.ref b))) (mkSt B a.1) = .normal ρ' (mkSt B a'.1) ∧
          ItEnv B t a' ρ' := fun a b ρ a' _ hP hs => it_step e tid B hprim hrec t a a' b ρ hP hs
    obtain ⟨ρ', hl, hP'⟩ := forLoopP_foldO "p" (fun ρ st => execBlockP H [] noRec itPBody ρ st)
      (fun a : Store × List Atom => mkSt B a.1) (ItEnv B t) (insertStep e tid B rec) Atom.ref (pred :: d) hstep acc _ acc' hP0 h
    refine ⟨ρ', ?_, hP'⟩
    rw [hl]

theorem it_owner (t : Uid) (acc acc' : Store × List Atom) (owner : Uid) (ρ : PyLite.Env) (hP : ItEnv B t acc ρ)
    (h : insertOwner e tid B rec acc owner = some acc') :
    ∃ ρ', execBlockP H [] noRec [itPredLoop] (ρ.set "owner" (.atom (.ref owner))) (mkSt B acc.1) =
        .normal ρ' (mkSt B acc'.1) ∧ ItEnv B t acc' ρ' := by
  unfold insertOwner at h
  have hit : (Expr.prim "predecessors" (.listCons (.var "owner") .listNil)).evalP H []
      (ρ.set "owner" (.atom (.ref owner))) (mkSt B acc.1) = .ok (.list ((e.preds owner).map Atom.ref), mkSt B acc.1) := by
    cpl [hprim, cpPrim, refs]
  simp only [execBlockP_cons, execBlockP_nil, itPredLoop_eq]
  rw [execP_forIn (hit := hit)]
  have hP0 : ItEnv B t acc (ρ.set "owner" (.atom (.ref owner))) := by
    obtain ⟨h1, h2, h3⟩ := hP
    exact ⟨by simp [Env.get?_set, h1], by simp [Env.get?_set, h2], by simp [Env.get?_set, h3]⟩
  have hstep : ∀ (a : Store × List Atom) (b : Uid) (ρ : PyLite.Env) (a' : Store × List Atom), b ∈ e.preds owner →
      ItEnv B t a ρ → insertPred e tid B rec a b = some a' →
      ∃ ρ', execBlockP H [] noRec [itPLoop] (ρ.set "pred" (.atom (.ref b))) (mkSt B a.1) = .normal ρ' (mkSt B a'.1) ∧
        ItEnv B t a' ρ' := fun a b ρ a' _ hP hs => it_pred e tid B hprim hrec t a a' b ρ hP hs
  obtain ⟨ρ', hl, hP'⟩ := forLoopP_foldO "pred" (fun ρ st => execBlockP H [] noRec [itPLoop] ρ st)
    (fun a : Store × List Atom => mkSt B a.1) (ItEnv B t) (insertPred e tid B rec) Atom.ref (e.preds owner) hstep acc _ acc'
    hP0 h
  refine ⟨ρ', ?_, hP'⟩
  rw [hl]

theorem it_loop (t : Uid) (acc acc' : Store × List Atom) (ρ : PyLite.Env) (hP : ItEnv B t acc ρ)
    (h : (t :: e.ancestors (e.n + 1) t).foldlM (insertOwner e tid B rec) acc = some acc') :
    ∃ ρ', itLoop.execP H [] noRec ρ (mkSt B acc.1) = .normal ρ' (mkSt B acc'.1) ∧ ItEnv B t acc' ρ' := by
  have hit : (Expr.bin .add (.listCons (.var "task") .listNil)
      (.listOf (.prim "all_parents" (.listCons (.var "task") .listNil)))).evalP H [] ρ
      (mkSt B acc.1) = .ok (.list ((t :: e.ancestors (e.n + 1) t).map Atom.ref), mkSt B acc.1) := by
    cpl [hprim, cpPrim, refs, hP.2.1]
  rw [itLoop_eq, execP_forIn (hit := hit)]
  have hstep : ∀ (a : Store × List Atom) (b : Uid) (ρ : PyLite.Env) (a' : Store × List Atom),
      b ∈ (t :: e.ancestors (e.n + 1) t) → ItEnv B t a ρ → insertOwner e tid B rec a b = some a' →
      ∃ ρ', execBlockP H [] noRec [itPredLoop] (ρ.set "owner" (.atom (.ref b))) (mkSt B a.1) =
        .normal ρ' (mkSt B a'.1) ∧ ItEnv B t a' ρ' := fun a b ρ a' _ hP hs => it_owner e tid B hprim hrec t a a' b ρ hP hs
  exact forLoopP_foldO "owner" (fun ρ st => execBlockP H [] noRec [itPredLoop] ρ st)
    (fun a : Store × List Atom => mkSt B a.1) (ItEnv B t) (insertOwner e tid B rec) Atom.ref _ hstep acc ρ acc' hP h

end loops
theorem dur_eq (e : CPEnv) (t : Uid) : e.dur t = pyMaxR ((e.est t).getD 0 - (e.spent t).getD 0) 0 := by
  simp only [CPEnv.dur, pyMaxR]

theorem insert_sim (e : CPEnv) (tid : Uid → Int) (B : Nat) :
    ∀ (f : Nat) (σ : Store) (t : Uid) (σ' : Store), insertA e tid B f σ t = some σ' → ∀ F, f + 3 ≤ F →
      (Hc e tid F).fnV fn_CPC_insert_task [.atom (.ref B), .atom (.ref t)] (mkSt B σ) = .ok (.atom .none, mkSt B σ') := by
  intro f
  induction f with
  | zero => intro σ t σ' h; simp [insertA] at h
  | succ f ih =>
    intro σ t σ' h F hF
    obtain ⟨F, rfl⟩ : ∃ F', F = F' + 4 := ⟨F - 4, by omega⟩
    rw [fnV_succ _ _ _ _ _ _ cf_insert]
    have hprim := Hc_prim e tid (F + 3)
    unfold insertA at h
    by_cases hch : 0 < (e.children t).length
    · simp only [hch, if_true, Option.some.injEq] at h
      subst h
      cpl [src_CPC_insert_task_params, src_CPC_insert_task, hprim, cpPrim, refs, Rat.natCast_pos, hch]
    · simp only [hch, if_false] at h
      split at h
      next nodes links tasks ed mem hg =>
        have hr := encHeap_get B hg
        cases hin : (Dict.get? tasks (idA (tid t))).isSome
        · simp only [hin, Bool.false_eq_true, if_false] at h
          split at h
          next => simp at h
          next σ2 pids hfold =>
            have hw := mkSt_set B (f := "__tasks") (v := .dict (Dict.insert tasks (idA (tid t)) (.ref t))) hg
              (o' := .calc nodes links (Dict.insert tasks (idA (tid t)) (.ref t)) ed mem) (by simp [encObj, Env.set, refsN])
            rw [callPV_eq, it_shape]
            simp only [execBlockP_append, src_CPC_insert_task_params, bindParamsV, bind, Except.bind, pure, Except.pure]
            obtain ⟨ρ4, hpre, hP4⟩ : ∃ ρ4, execBlockP (Hc e tid (F + 3)) [] noRec itPre
                [("self", .atom (.ref B)), ("task", .atom (.ref t))] (mkSt B σ) =
                .normal ρ4 (mkSt B (setO B σ B (.calc nodes links (Dict.insert tasks (idA (tid t)) (.ref t)) ed mem))) ∧
                ItEnv B t (setO B σ B (.calc nodes links (Dict.insert tasks (idA (tid t)) (.ref t)) ed mem), []) ρ4 := by
              cpl [itPre, src_CPC_insert_task, hprim, cpPrim, refs, Rat.natCast_pos, hch, hr, hin, hw, ItEnv]
            obtain ⟨ρ5, hloop, hs5, ht5, hp5⟩ := it_loop e tid B hprim
              (fun σ p σ' hrec => ih σ p σ' hrec (F + 3) (by omega)) t _ _ ρ4 hP4 hfold
            have haw := add_work_sim e tid B σ2 σ' (idA (tid t)) (e.dur t) pids h F
            rw [hpre]
            simp only [execBlockP_cons, execBlockP_nil, hloop]
            rw [dur_eq] at haw
            cases hest : e.est t <;> cases hsp : e.spent t <;>
              simp only [hest, hsp, Option.getD_none, Option.getD_some] at haw <;>
              cpl [itPost, src_CPC_insert_task, hprim, cpPrim, hs5, ht5, hp5, hest, hsp, optNum, pyMax_num, haw]
        · simp only [hin, if_true, Option.some.injEq] at h
          subst h
          cpl [src_CPC_insert_task_params, src_CPC_insert_task, hprim, cpPrim, refs, Rat.natCast_pos, hch, hr, hin]
      next => simp at h

/-! ### `CriticalPathCalculator(tasks, None)` -/

def ciPre : List Stmt := src_CPC_init.take 6
def ciLoop : Stmt := src_CPC_init.getD 6 .pass
def ciBody : List Stmt := match ciLoop with | .forIn _ _ b => b | _ => []
theorem ci_shape : src_CPC_init = ciPre ++ [ciLoop] := rfl
theorem ciLoop_eq : ciLoop = .forIn "t" (.var "tasks") ciBody := rfl

theorem ids_comp (H : PHandlers) (ρ : PyLite.Env) (st : PState) (l : List Uid) (h : ρ.get? "tasks" = some (refs l)) :
    (Expr.listComp (.idOf (.var "t")) "t" (.var "tasks") (.bool true)).evalP H [] ρ st =
      .ok (.list (l.map (fun u => Atom.num ((u : Nat) : Rat))), st) := by
  rw [evalP_listComp_pure H [] ρ st st _ _ _ "t" (l.map Atom.ref) (fun _ => true)
    (fun v => match v with | .ref i => .num ((i : Nat) : Rat) | _ => .none)]
  · rw [List.filter_eq_self.2 (by simp)]
    simp [List.map_map, Function.comp_def]
  · cpl [h, refs]
  · intro v _; cpl
  · intro v hv _
    obtain ⟨u, _, rfl⟩ := List.mem_map.1 hv
    cpl

theorem construct_CPC (e : CPEnv) (tid : Uid → Int) (B f : Nat) (σ : Store) (h : initA e tid B f = some σ)
    (F : Nat) (hF : f + 3 ≤ F) (self ρ : PyLite.Env) (em : Expr)
    (hem : em.evalP (Hc e tid (F + 1)) self ρ (mkSt B []) = .ok (refs e.members, mkSt B [])) :
    (Expr.construct fn_CPC_init (.listCons em (.listCons .none .listNil))).evalP (Hc e tid (F + 1)) self ρ (mkSt B [])
      = .ok (.atom (.ref B), mkSt B σ) := by
  simp only [Expr.evalP, Expr.evalArgsP, hem, bind, Except.bind, pure, Except.pure, mkSt_reads, mkSt_heap]
  rw [fnV_succ _ _ _ _ _ _ cf_init, callPV_eq, ci_shape]
  simp only [execBlockP_append, src_CPC_init_params, bindParamsV, bind, Except.bind, pure, Except.pure]
  have hcomp := fun ρ st => ids_comp (Hc e tid F) ρ st e.members
  simp only [refs] at hcomp
  obtain ⟨ρ6, hpre, hs6, ht6, hd6⟩ : ∃ ρ6, execBlockP (Hc e tid F) [] noRec ciPre
      [("self", .atom (.ref (B + ([] : Store).length))), ("tasks", refs e.members), ("end_date", .atom .none)]
      { L := (mkSt B []).L, heap := fun j => if j = B + ([] : Store).length then [] else encHeap B [] j,
        done := (mkSt B []).done, res := (mkSt B []).res, reads := B + ([] : Store).length + 1,
        boxes := (mkSt B []).boxes } =
      .normal ρ6 (mkSt B [.calc [] [] [] .none (memOf e.members)]) ∧
      ρ6.get? "self" = some (.atom (.ref B)) ∧ ρ6.get? "tasks" = some (refs e.members) ∧
      ρ6.get? "end_date" = some (.atom .none) := by

    cpl [ciPre, src_CPC_init, ↓hcomp, refs]
    refine Exists.intro _ (And.intro (And.intro rfl ?_) ?_)
    rotate_left
    · simp [Env.get?_set, Env.get?_cons]
    rw [mkSt_eq]
    simp only [List.length_cons, List.length_nil, PState.mk.injEq, true_and, and_true]
    funext j
    by_cases hj : j = B
    · subst hj
      simp [heapSet, encHeap, getO, Env.set, encObj, refsN, memOf]
    · have hj' : ¬ j = B + ([] : Store).length := by simpa using hj
      have := getO_append B [] (.calc [] [] [] .none (memOf e.members)) j
      simp only [List.nil_append, hj', if_false] at this
      simp [heapSet, encHeap, hj, this]
  erw [hpre]
  simp only [execBlockP_cons, execBlockP_nil, ciLoop_eq, List.length_nil, Nat.add_zero]
  have hit : ∀ st, (Expr.var "tasks").evalP (Hc e tid F) [] ρ6 st = .ok (.list (e.members.map Atom.ref), st) := by
    intro st; cpl [ht6, refs]
  rw [execP_forIn (hit := hit _)]
  have hstep : ∀ (a : Store) (b : Uid) (ρ : PyLite.Env) (a' : Store), b ∈ e.members →
      (ρ.get? "self" = some (.atom (.ref B)) ∧ ρ.get? "end_date" = some (.atom .none)) → insertA e tid B f a b = some a' →
      ∃ ρ', execBlockP (Hc e tid F) [] noRec ciBody (ρ.set "t" (.atom (.ref b))) (mkSt B a) = .normal ρ' (mkSt B a') ∧
        (ρ'.get? "self" = some (.atom (.ref B)) ∧ ρ'.get? "end_date" = some (.atom .none)) := by
    rintro a b ρ a' - ⟨hs, hd⟩ hins
    have hcall := insert_sim e tid B f a b a' hins F hF
    cpl [ciBody, ciLoop, src_CPC_init, hs, hd, hcall]
  obtain ⟨ρ', hl, -⟩ := forLoopP_foldO "t" (fun ρ st => execBlockP (Hc e tid F) [] noRec ciBody ρ st) (mkSt B)
    (fun _ ρ => ρ.get? "self" = some (.atom (.ref B)) ∧ ρ.get? "end_date" = some (.atom .none))
    (fun a b => insertA e tid B f a b) Atom.ref e.members hstep _ ρ6 σ ⟨hs6, hd6⟩ h
  rw [hl]

end Pj.CritPathSrc
