/-
  Lemmas/CsvSrc.lean — CSV I/O (io/csv_io.py + io/raw.py): the setting of the translated tie.  See CsvSrcD.lean for the
  summary, the results and the negative check.

  * The program `csvFuns` (Extracted/CsvSrc.lean, 13 functions) runs over the I/O library of Model/PyLiteIO.lean:
    `runIO L csvFuns F k args st`, `L : IOLib` the meaning of `str` of a number, `strftime` / `strptime('%d.%m.%y')`,
    `float`, `int` - a PARAMETER (the model, Model/CsvRec.lean, takes the formatted cells as given).
  * A WBS is a description `W : WbsD`: the WBS object is `ref 0`, the task `W.tasks[i]` is the object `ref (i+1)` with the
    slots of `encTask` (in the order `Task.__init__` creates them, custom attributes last).
  * `recsOf L W` - the model's records of `W` (one per task in `wbs.tasks` order, `min_start` the first custom column).
  * `sampleLib` - a concrete library for the kernel-checked runs (decimal numbers, proleptic Gregorian dates, `%y`
    pivot 69).
-/
import PjVerif.Extracted.CsvSrc
import PjVerif.Model.PyLiteIO
import PjVerif.Model.CsvRec
namespace Pj.CsvSrc
open Pj.PyLite Pj.Extracted.Csv Pj.Csv

/-! ### the encoding -/

structure TaskD where
  id : Int
  name : Option Str := none
  resource : Option Str := none
  start : Option Time := none
  end_ : Option Time := none
  minStart : Option Time := none
  estimate : Option Rat := none
  spent : Option Rat := none
  milestone : Bool := false
  parent : Option Nat := none
  children : List Nat := []
  preds : List Nat := []
  custom : List (String × Atom) := []

structure WbsD where
  tasks : List TaskD
  roots : List Nat

def optStr : Option Str → Atom
  | none => .none
  | some s => strA s
def optTime : Option Time → Atom
  | none => .none
  | some t => .time t
def optNum : Option Rat → Atom
  | none => .none
  | some q => .num q
def optRef : Option Nat → Atom
  | none => .none
  | some i => .ref i
def refs (l : List Nat) : Val := .list (l.map Atom.ref)

def encTask (d : TaskD) : PyLite.Env :=
  [("__task__", .atom (.bool true)), ("id", .atom (.num (d.id : Rat))), ("name", .atom (optStr d.name)),
   ("resource", .atom (optStr d.resource)), ("start", .atom (optTime d.start)), ("end", .atom (optTime d.end_)),
   ("milestone", .atom (.bool d.milestone)), ("estimate", .atom (optNum d.estimate)), ("spent", .atom (optNum d.spent)),
   ("parent", .atom (optRef d.parent)), ("children", refs d.children), ("predecessors", refs d.preds),
   ("successors", .list []), ("min_start", .atom (optTime d.minStart))] ++ d.custom.map (fun p => (p.1, Val.atom p.2))

def encHeap (W : WbsD) : Nat → PyLite.Env := fun j =>
  if j = 0 then [("__wbs__", .atom (.bool true)), ("roots", refs W.roots)]
  else match W.tasks[j - 1]? with
    | some d => encTask d
    | none => []

def encSt (W : WbsD) : PState :=
  { L := [], heap := encHeap W, done := [], res := [], reads := W.tasks.length + 1, boxes := [] }

def emptySt : PState := { L := [], heap := fun _ => [], done := [], res := [], reads := 0, boxes := [] }

/-! ### the model's records of a WBS -/

def taskAt (W : WbsD) (i : Nat) : Option TaskD := W.tasks[i - 1]?

def cellOpt (L : IOLib) : Atom → Option Str
  | .none => none
  | .time t => some (L.strftime t)
  | a => match L.cell a with
    | .ok s => some s
    | .error _ => none

def idStr (L : IOLib) (W : WbsD) (i : Nat) : Str :=
  match taskAt W i with
  | some d => L.strNum (d.id : Rat)
  | none => []

def recOf (L : IOLib) (W : WbsD) (d : TaskD) : Rec :=
  { id := L.strNum (d.id : Rat), name := d.name, resource := d.resource, start := d.start.map L.strftime,
    end_ := d.end_.map L.strftime, estimate := d.estimate.map L.strNum, spent := d.spent.map L.strNum,
    milestone := d.milestone, parentId := d.parent.map (idStr L W), predIds := d.preds.map (idStr L W),
    custom := ("min_start".toList, d.minStart.map L.strftime) :: d.custom.map (fun p => (p.1.toList, cellOpt L p.2)) }

/-- `wbs.tasks`: depth first -/
def orderOf (W : WbsD) : List Nat := wbsTasks (encSt W) 0

def recsOf (L : IOLib) (W : WbsD) : List Rec := (orderOf W).filterMap (fun i => (taskAt W i).map (recOf L W))

/-! ### entry points -/

def semi : Val := .atom (litA ";")
def utf8 : Val := .atom (litA "utf-8")

/-- a cell function `f(s)` on the text `s` -/
def interpCell (L : IOLib) (F : Nat) (k : Nat) (a : Atom) : Res Val :=
  (runIO L csvFuns F k [.atom a] emptySt).map (·.1)

def textOf (items : List Atom) : List Char :=
  (items.map (fun a => match a with | .str k => strDecode k | _ => [])).flatten

/-- `write_csv(wbs, path)`: the text of the file -/
def interpWrite (L : IOLib) (F : Nat) (W : WbsD) : Res (List Char) :=
  (runIO L csvFuns F fn_write_csv [.atom (.ref 0), .atom (litA "out.csv"), utf8, semi] (encSt W)).map
    (fun r => textOf (r.2.boxes[0]?.getD []))

/-- `read_csv(path)` on a file with the text `text`: the WBS object and the store -/
def interpRead (L : IOLib) (F : Nat) (text : List Char) : Res (Val × PState) :=
  runIO L csvFuns F fn_read_csv [.atom (strA text), utf8, semi] emptySt

/-! ### what the reader builds, as the model says it: the records of `readCsv`, the forest of `rebuildForest` -/

structure TaskView where
  id : Atom
  name : Atom
  resource : Atom
  start : Atom
  end_ : Atom
  estimate : Atom
  spent : Atom
  milestone : Atom
  minStart : Atom
  parentId : Atom
  childIds : List Atom
  predIds : List Atom
  custom : List (Str × Val)
  deriving DecidableEq, Repr

def slot (env : PyLite.Env) (f : String) : Atom :=
  match env.get? f with
  | some (.atom a) => a
  | _ => .none

def idsOf (heap : Nat → PyLite.Env) (v : Option Val) : List Atom :=
  match v with
  | some (.list l) => l.map (fun a => match a with | .ref i => slot (heap i) "id" | _ => .none)
  | _ => []

def stdSlots : List String := ["__task__", "id", "name", "resource", "start", "end", "milestone", "estimate", "spent",
  "parent", "children", "predecessors", "successors", "min_start"]

def viewOf (heap : Nat → PyLite.Env) (i : Nat) : TaskView :=
  let e := heap i
  { id := slot e "id", name := slot e "name", resource := slot e "resource", start := slot e "start", end_ := slot e "end",
    estimate := slot e "estimate", spent := slot e "spent", milestone := slot e "milestone", minStart := slot e "min_start",
    parentId := match e.get? "parent" with | some (.atom (.ref p)) => slot (heap p) "id" | _ => .none
    childIds := idsOf heap (e.get? "children"), predIds := idsOf heap (e.get? "predecessors"),
    custom := (e.filter (fun p => !stdSlots.contains p.1)).map (fun p => (p.1.toList, p.2)) }

/-- the tasks of the WBS object a run returned, depth first -/
def observeRead (r : Res (Val × PState)) : Option (List TaskView) :=
  match r with
  | .ok (.atom (.ref w), st) => some ((wbsTasks st w).map (viewOf st.heap))
  | _ => none

def optParse {α} (f : Str → Res α) (g : α → Atom) : Option Str → Option Atom
  | none => some .none
  | some s => match f s with
    | .ok a => some (g a)
    | .error _ => none

def flattenTree : Nat → List Tree → List (Str × List Str)
  | 0, _ => []
  | f + 1, ts => ts.flatMap (fun t => match t with
    | .node id ch => (id, ch.map (fun c => match c with | .node x _ => x)) :: flattenTree f ch)

/-- the model's reading of a file: records (`readCsv`), hierarchy (`rebuildForest`), the cells parsed by `L` -/
def expectRead (L : IOLib) (text : List Char) : Option (List TaskView) := do
  let recs ← readCsv text
  let forest := rebuildForest (recs.map (fun r => (r.id, r.parentId)))
  let num (s : Str) : Option Atom := match L.toInt s with | .ok q => some (.num q) | .error _ => none
  (flattenTree (recs.length + 1) forest).mapM (fun (p : Str × List Str) => do
    let r ← recs.reverse.find? (fun r => r.id == p.1)
    let id ← num r.id
    let start ← optParse L.strptime Atom.time r.start
    let end_ ← optParse L.strptime Atom.time r.end_
    let est ← optParse L.toFloat Atom.num r.estimate
    let spent ← optParse L.toFloat Atom.num r.spent
    let pid ← optParse L.toInt Atom.num r.parentId
    let preds ← r.predIds.mapM num
    let kids ← p.2.mapM num
    let ms ← match r.custom.find? (fun c => c.1 == "min_start".toList) with
      | some c => optParse L.strptime Atom.time c.2
      | none => some Atom.none
    let parentKnown := match r.parentId with | some q => recs.any (fun x => x.id == q) | none => false
    pure { id := id, name := optStr r.name, resource := optStr r.resource, start := start, end_ := end_, estimate := est,
           spent := spent, milestone := .bool r.milestone, minStart := ms,
           parentId := if parentKnown then pid else .none, childIds := kids, predIds := preds,
           custom := [("parent_id".toList, Val.atom pid), ("predecessor_ids".toList, Val.list preds)] ++
             (r.custom.filter (fun c => c.1 != "min_start".toList)).map (fun c => (c.1, Val.atom (strA (orEmpty c.2)))) })

/-! ### a concrete library for the kernel-checked runs -/

def digitsF : Nat → Nat → List Char → List Char
  | 0, _, acc => acc
  | f + 1, n, acc => if n < 10 then Char.ofNat (48 + n) :: acc else digitsF f (n / 10) (Char.ofNat (48 + n % 10) :: acc)

def natStr (n : Nat) : Str := digitsF (n + 1) n []
def intStr (i : Int) : Str := if i < 0 then '-' :: natStr i.natAbs else natStr i.natAbs

def fracF : Nat → Nat → Nat → List Char
  | 0, _, _ => []
  | f + 1, r, d => if r = 0 then [] else Char.ofNat (48 + r * 10 / d) :: fracF f (r * 10 % d) d

/-- `str` of a number: an integer as an `int`, anything else as a decimal fraction (at most 9 digits) -/
def sampleStrNum (q : Rat) : Str :=
  if q.den = 1 then intStr q.num
  else (if q < 0 then ['-'] else []) ++ natStr (q.num.natAbs / q.den) ++ '.' :: fracF 9 (q.num.natAbs % q.den) q.den

def two (n : Nat) : Str := [Char.ofNat (48 + n / 10 % 10), Char.ofNat (48 + n % 10)]

/-- civil date of a day number (days since 1970-01-01) -/
def civil (z0 : Int) : Int × Nat × Nat :=
  let z := z0 + 719468
  let era := z / 146097
  let doe := (z - era * 146097).toNat
  let yoe := (doe - doe / 1460 + doe / 36524 - doe / 146096) / 365
  let doy := doe - (365 * yoe + yoe / 4 - yoe / 100)
  let mp := (5 * doy + 2) / 153
  let d := doy - (153 * mp + 2) / 5 + 1
  let m := if mp < 10 then mp + 3 else mp - 9
  let y := (yoe : Int) + era * 400 + (if m ≤ 2 then 1 else 0)
  (y, m, d)

def daysFromCivil (y0 : Int) (m d : Nat) : Int :=
  let y := if m ≤ 2 then y0 - 1 else y0
  let era := y / 400
  let yoe := (y - era * 400).toNat
  let doy := (153 * (if m > 2 then m - 3 else m + 9) + 2) / 5 + d - 1
  let doe := yoe * 365 + yoe / 4 - yoe / 100 + doy
  era * 146097 + (doe : Int) - 719468

def sampleStrftime (t : Time) : Str :=
  let (y, m, d) := civil t.floor
  two d ++ '.' :: two m ++ '.' :: two (y % 100).toNat

def digit? (c : Char) : Option Nat := if '0' ≤ c ∧ c ≤ '9' then some (c.toNat - 48) else none

def nat? (s : Str) : Option Nat :=
  if s.isEmpty then none else s.foldl (fun acc c => do let a ← acc; let x ← digit? c; pure (a * 10 + x)) (some 0)

def sampleStrptime (s : Str) : Res Time :=
  match s with
  | [d1, d2, '.', m1, m2, '.', y1, y2] =>
    match nat? [d1, d2], nat? [m1, m2], nat? [y1, y2] with
    | some d, some m, some y =>
      if 1 ≤ m ∧ m ≤ 12 ∧ 1 ≤ d ∧ d ≤ 31 then
        .ok ((daysFromCivil (if y < 69 then 2000 + y else 1900 + y) m d : Int) : Rat)
      else .error (.crash .value)
    | _, _, _ => .error (.crash .value)
  | _ => .error (.crash .value)

def sampleInt (s : Str) : Res Rat :=
  match s with
  | '-' :: r => match nat? r with | some n => .ok (-(n : Rat)) | none => .error (.crash .value)
  | r => match nat? r with | some n => .ok (n : Rat) | none => .error (.crash .value)

def sampleFloat (s : Str) : Res Rat :=
  let (neg, r) := match s with | '-' :: r => (true, r) | r => (false, r)
  let ip := r.takeWhile (fun c => c != '.')
  let fp := (r.dropWhile (fun c => c != '.')).drop 1
  match nat? ip, (if fp.isEmpty then some 0 else nat? fp) with
  | some a, some b =>
    let q : Rat := (a : Rat) + (b : Rat) / ((10 ^ fp.length : Nat) : Rat)
    .ok (if neg then -q else q)
  | _, _ => .error (.crash .value)

def sampleLib : IOLib :=
  { strNum := sampleStrNum, strftime := sampleStrftime, strptime := sampleStrptime, toFloat := sampleFloat,
    toInt := sampleInt, typeName := fun _ => "x".toList }

end Pj.CsvSrc
