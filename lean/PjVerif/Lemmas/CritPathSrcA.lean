/-
  Lemmas/CritPathSrcA.lean — the simulation layer ("layer A") of the translated tie for alg/critical_path.py, last part:
  `calc` and `WBS.critical_path`.  The translated source (Extracted/CritPathSrc.lean) computes, function by function,
  what the store-level program of Lemmas/CritPathSrcNet.lean computes (the `some` case: every run that raises or leaves
  the typed store is `none` there):

    CritPathSrcA1.lean  the typed store and the heap (`heapSet_enc`, `alloc_enc`, `mkSt_set`, `initSt_eq`), blocks and
                        loops (`execBlockP_append`, `forLoopP_foldO`), `construct_PNode`, `construct_PLink`,
                        `new_node_sim`, `connect_sim`, `add_work_sim`
    CritPathSrcA2.lean  `insert_sim` (`__insert_task`), `construct_CPC` (`CriticalPathCalculator(tasks, None)`)
    CritPathSrcA3.lean  `forward_sim`, `backward_sim`
    this file           `calc_sim`, `cp_sim` (fuel: `f + 5 ≤ F`)
-/
import PjVerif.Lemmas.CritPathSrcA2
import PjVerif.Lemmas.CritPathSrcA3
namespace Pj.CritPathSrc
open Pj.PyLite Pj.Extracted.CritPath
open Pj.TaskSrc (callPV_eq execBlockP_cons execBlockP_nil execP_forIn noRec Env.get?_set Env.get?_cons Env.get?_nil pyEq_num)
set_option linter.unusedSimpArgs false
set_option linter.unusedVariables false

/-! ### comprehensions with a condition that reads the store; loops over the keys of a dict -/

theorem compLoopP_filterO (f : Atom → PState → Res (Option Atom × PState)) (c : Nat → Option Bool) (st : PState) :
    ∀ (l r : List Nat), filterO c l = some r →
      (∀ n ∈ l, ∀ b, c n = some b → f (.ref n) st = .ok (if b then some (.ref n) else none, st)) →
      compLoopP f (l.map Atom.ref) st = .ok (r.map Atom.ref, st) := by
  intro l
  induction l with
  | nil => intro r h _; simp only [filterO, Option.some.injEq] at h; subst h; rfl
  | cons n l ih =>
    intro r h hf
    simp only [filterO] at h
    cases hc : c n with
    | none => simp [hc] at h
    | some b =>
      simp only [hc] at h
      cases hl : filterO c l with
      | none => simp [hl] at h
      | some r' =>
        simp only [hl, Option.map_some, Option.some.injEq] at h
        subst h
        have h1 := hf n List.mem_cons_self b hc
        have h2 := ih r' hl (fun m hm => hf m (List.mem_cons_of_mem _ hm))
        simp only [List.map_cons, compLoopP, h1, h2, bind, Except.bind, pure, Except.pure]
        cases b <;> simp

/-- `[x for x in it if cond]`, the condition being the bool `c n` read from the store -/
theorem evalP_listComp_filterO (H : PHandlers) (self ρ : PyLite.Env) (st0 st : PState) (cond it : Expr) (x : String)
    (c : Nat → Option Bool) (l r : List Nat) (hit : it.evalP H self ρ st0 = .ok (.list (l.map Atom.ref), st))
    (hf : filterO c l = some r)
    (hc : ∀ n ∈ l, ∀ b, c n = some b → cond.evalP H self (ρ.set x (.atom (.ref n))) st = .ok (.atom (.bool b), st)) :
    (Expr.listComp (.var x) x it cond).evalP H self ρ st0 = .ok (.list (r.map Atom.ref), st) := by
  simp only [Expr.evalP, hit, bind, Except.bind, pure, Except.pure, iterOf]
  rw [compLoopP_filterO _ c st l r hf]
  intro n hn b hb
  cases b <;> simp [hc n hn _ hb, truthP, Env.get?_set, pure, Except.pure]

theorem execP_forIn_dict (H : PHandlers) (self : PyLite.Env) (rec : List Atom → PState → Res (Val × PState)) (x : String)
    (it : Expr) (body : List Stmt) (ρ : PyLite.Env) (st st' : PState) (kvs : List (Atom × Atom))
    (hit : it.evalP H self ρ st = .ok (.dict kvs, st')) :
    (Stmt.forIn x it body).execP H self rec ρ st =
      forLoopP x (fun ρ st => execBlockP H self rec body ρ st) (kvs.map (·.1)) ρ st' := by
  simp only [Stmt.execP, hit, bind, Except.bind, pure, Except.pure, iterOf]

/-! ### `calc` -/

def cS (i : Nat) : Stmt := src_CPC_calc.getD i .pass
def cBody (i : Nat) : List Stmt := match cS i with | .forIn _ _ b => b | _ => []
theorem calc_shape :
    src_CPC_calc = [cS 0, cS 1, cS 2, cS 3, cS 4, cS 5, cS 6, cS 7, cS 8, cS 9, cS 10, cS 11] := rfl
theorem cS4_eq : cS 4 = .forIn "n" (.var "start_nodes") (cBody 4) := rfl
theorem cS6_eq : cS 6 = .forIn "n" (.var "end_nodes") (cBody 6) := rfl
theorem cS7_eq : cS 7 =
    .forIn "n" (.bin .add (.attr (.var "self") "__nodes") (.listCons (.var "end") .listNil)) (cBody 7) := rfl
theorem cS8_eq : cS 8 = .forIn "n" (.attr (.var "self") "__nodes") (cBody 8) := rfl
theorem cS10_eq : cS 10 = .forIn "k" (.attr (.var "self") "__links") (cBody 10) := rfl

/-- the local environment of `calc` -/
def CalcEnv (B : Nat) (sn en : List Nat) (b : Nat) (oe : Option Nat) (ρ : PyLite.Env) : Prop :=
  ρ.get? "self" = some (.atom (.ref B)) ∧ ρ.get? "start_nodes" = some (.list (sn.map Atom.ref)) ∧
    ρ.get? "end_nodes" = some (.list (en.map Atom.ref)) ∧ ρ.get? "begin" = some (.atom (.ref b)) ∧
    ∀ x, oe = some x → ρ.get? "end" = some (.atom (.ref x))

theorem CalcEnv.set {B : Nat} {sn en : List Nat} {b : Nat} {oe : Option Nat} {ρ : PyLite.Env}
    (h : CalcEnv B sn en b oe ρ) (x : String) (v : Val) (h1 : x ≠ "self") (h2 : x ≠ "start_nodes") (h3 : x ≠ "end_nodes")
    (h4 : x ≠ "begin") (h5 : x ≠ "end") : CalcEnv B sn en b oe (ρ.set x v) := by
  obtain ⟨a1, a2, a3, a4, a5⟩ := h
  refine ⟨by simp [Env.get?_set, h1, a1], by simp [Env.get?_set, h2, a2], by simp [Env.get?_set, h3, a3],
    by simp [Env.get?_set, h4, a4], fun y hy => by simp [Env.get?_set, h5, a5 y hy]⟩

section calcsec
variable (e : CPEnv) (tid : Uid → Int) (B : Nat)

theorem calc_s0 (H : PHandlers) (ρ : PyLite.Env) (σ : Store) (nodes : List Nat) (links tasks : List (Atom × Atom))
    (ed : Atom) (mem : List Atom) (sn : List Nat) (hg : getO B σ B = some (.calc nodes links tasks ed mem))
    (hf : filterO (noBw B σ) nodes = some sn) (hs : ρ.get? "self" = some (.atom (.ref B))) :
    (cS 0).execP H [] noRec ρ (mkSt B σ) = .normal (ρ.set "start_nodes" (.list (sn.map Atom.ref))) (mkSt B σ) := by
  have hr := encHeap_get B hg
  refine Pj.TaskSrc.execP_assign (he := ?_) ..
  refine evalP_listComp_filterO H [] ρ (mkSt B σ) (mkSt B σ) _ _ "n" (noBw B σ) nodes sn (by cpl [hs, hr]) hf ?_
  intro n _ b hb
  unfold noBw at hb
  split at hb
  next fw bw su eu hgn =>
    have hrn := encHeap_get B hgn
    simp only [Option.some.injEq] at hb
    subst hb
    cpl [hrn, pyEq_num]
  next => simp at hb

theorem calc_s1 (H : PHandlers) (ρ : PyLite.Env) (σ : Store) (nodes : List Nat) (links tasks : List (Atom × Atom))
    (ed : Atom) (mem : List Atom) (en : List Nat) (hg : getO B σ B = some (.calc nodes links tasks ed mem))
    (hf : filterO (noFw B σ) nodes = some en) (hs : ρ.get? "self" = some (.atom (.ref B))) :
    (cS 1).execP H [] noRec ρ (mkSt B σ) = .normal (ρ.set "end_nodes" (.list (en.map Atom.ref))) (mkSt B σ) := by
  have hr := encHeap_get B hg
  refine Pj.TaskSrc.execP_assign (he := ?_) ..
  refine evalP_listComp_filterO H [] ρ (mkSt B σ) (mkSt B σ) _ _ "n" (noFw B σ) nodes en (by cpl [hs, hr]) hf ?_
  intro n _ b hb
  unfold noFw at hb
  split at hb
  next fw bw su eu hgn =>
    have hrn := encHeap_get B hgn
    simp only [Option.some.injEq] at hb
    subst hb
    cpl [hrn, pyEq_num]
  next => simp at hb

theorem calc_s4 (F : Nat) (ρ : PyLite.Env) (sn en : List Nat) (b : Nat) (oe : Option Nat) (σ1 σ2 : Store)
    (hP : CalcEnv B sn en b oe ρ) (h : sn.foldlM (fun σ n => (connectA B σ b n 0).map (·.2)) σ1 = some σ2) :
    ∃ ρ', (cS 4).execP (Hc e tid (F + 2)) [] noRec ρ (mkSt B σ1) = .normal ρ' (mkSt B σ2) ∧ CalcEnv B sn en b oe ρ' := by
  have hit : ∀ st, (Expr.var "start_nodes").evalP (Hc e tid (F + 2)) [] ρ st = .ok (.list (sn.map Atom.ref), st) := by
    intro st; cpl [hP.2.1]
  rw [cS4_eq, execP_forIn (hit := hit _)]
  have hstep : ∀ (a : Store) (n : Nat) (ρ : PyLite.Env) (a' : Store), n ∈ sn → CalcEnv B sn en b oe ρ →
      (connectA B a b n 0).map (·.2) = some a' →
      ∃ ρ', execBlockP (Hc e tid (F + 2)) [] noRec (cBody 4) (ρ.set "n" (.atom (.ref n))) (mkSt B a) =
        .normal ρ' (mkSt B a') ∧ CalcEnv B sn en b oe ρ' := by
    intro a n ρ a' _ hP hc
    cases hcn : connectA B a b n 0 with
    | none => simp [hcn] at hc
    | some r =>
      obtain ⟨r, a2⟩ := r
      simp only [hcn, Option.map_some, Option.some.injEq] at hc
      subst hc
      have hcall := connect_sim e tid B a a2 b n 0 r hcn F
      have hP' := hP.set "n" (.atom (.ref n)) (by decide) (by decide) (by decide) (by decide) (by decide)
      refine ⟨_, ?_, hP'⟩
      cpl [cBody, cS, src_CPC_calc, hP'.2.2.2.1, hcall]
  exact forLoopP_foldO "n" (fun ρ st => execBlockP (Hc e tid (F + 2)) [] noRec (cBody 4) ρ st) (mkSt B)
    (fun _ ρ => CalcEnv B sn en b oe ρ) (fun σ n => (connectA B σ b n 0).map (·.2)) Atom.ref sn hstep σ1 ρ σ2 hP h

theorem calc_s6 (F : Nat) (ρ : PyLite.Env) (sn en : List Nat) (b x : Nat) (σ1 σ2 : Store)
    (hP : CalcEnv B sn en b (some x) ρ) (h : en.foldlM (fun σ n => (connectA B σ n x 0).map (·.2)) σ1 = some σ2) :
    ∃ ρ', (cS 6).execP (Hc e tid (F + 2)) [] noRec ρ (mkSt B σ1) = .normal ρ' (mkSt B σ2) ∧
      CalcEnv B sn en b (some x) ρ' := by
  have hit : ∀ st, (Expr.var "end_nodes").evalP (Hc e tid (F + 2)) [] ρ st = .ok (.list (en.map Atom.ref), st) := by
    intro st; cpl [hP.2.2.1]
  rw [cS6_eq, execP_forIn (hit := hit _)]
  have hstep : ∀ (a : Store) (n : Nat) (ρ : PyLite.Env) (a' : Store), n ∈ en → CalcEnv B sn en b (some x) ρ →
      (connectA B a n x 0).map (·.2) = some a' →
      ∃ ρ', execBlockP (Hc e tid (F + 2)) [] noRec (cBody 6) (ρ.set "n" (.atom (.ref n))) (mkSt B a) =
        .normal ρ' (mkSt B a') ∧ CalcEnv B sn en b (some x) ρ' := by
    intro a n ρ a' _ hP hc
    cases hcn : connectA B a n x 0 with
    | none => simp [hcn] at hc
    | some r =>
      obtain ⟨r, a2⟩ := r
      simp only [hcn, Option.map_some, Option.some.injEq] at hc
      subst hc
      have hcall := connect_sim e tid B a a2 n x 0 r hcn F
      have hP' := hP.set "n" (.atom (.ref n)) (by decide) (by decide) (by decide) (by decide) (by decide)
      refine ⟨_, ?_, hP'⟩
      cpl [cBody, cS, src_CPC_calc, hP'.2.2.2.2 x rfl, hcall]
  exact forLoopP_foldO "n" (fun ρ st => execBlockP (Hc e tid (F + 2)) [] noRec (cBody 6) ρ st) (mkSt B)
    (fun _ ρ => CalcEnv B sn en b (some x) ρ) (fun σ n => (connectA B σ n x 0).map (·.2)) Atom.ref en hstep σ1 ρ σ2 hP h

theorem calc_s7 (F f : Nat) (hF : f ≤ F) (ρ : PyLite.Env) (sn en : List Nat) (b x : Nat) (σ3 σ4 : Store) (nodes3 : List Nat)
    (hP : CalcEnv B sn en b (some x) ρ) (hn : nodesOf B σ3 = some nodes3)
    (h : (nodes3 ++ [x]).foldlM (forwardA B f) σ3 = some σ4) :
    ∃ ρ', (cS 7).execP (Hc e tid F) [] noRec ρ (mkSt B σ3) = .normal ρ' (mkSt B σ4) ∧ CalcEnv B sn en b (some x) ρ' := by
  unfold nodesOf at hn
  split at hn
  next nodes links tasks ed mem hg =>
    simp only [Option.some.injEq] at hn
    subst hn
    have hr := encHeap_get B hg
    have hit : (Expr.bin .add (.attr (.var "self") "__nodes") (.listCons (.var "end") .listNil)).evalP (Hc e tid F) [] ρ
        (mkSt B σ3) = .ok (.list ((nodes ++ [x]).map Atom.ref), mkSt B σ3) := by
      cpl [hP.1, hP.2.2.2.2 x rfl, hr]
    rw [cS7_eq, execP_forIn (hit := hit)]
    have hstep : ∀ (a : Store) (n : Nat) (ρ : PyLite.Env) (a' : Store), n ∈ nodes ++ [x] → CalcEnv B sn en b (some x) ρ →
        forwardA B f a n = some a' →
        ∃ ρ', execBlockP (Hc e tid F) [] noRec (cBody 7) (ρ.set "n" (.atom (.ref n))) (mkSt B a) =
          .normal ρ' (mkSt B a') ∧ CalcEnv B sn en b (some x) ρ' := by
      intro a n ρ a' _ hP hc
      have hcall := forward_sim e tid B f a n a' hc F hF
      have hP' := hP.set "n" (.atom (.ref n)) (by decide) (by decide) (by decide) (by decide) (by decide)
      refine ⟨_, ?_, hP'⟩
      cpl [cBody, cS, src_CPC_calc, hP'.1, hcall]
    exact forLoopP_foldO "n" (fun ρ st => execBlockP (Hc e tid F) [] noRec (cBody 7) ρ st) (mkSt B)
      (fun _ ρ => CalcEnv B sn en b (some x) ρ) (forwardA B f) Atom.ref (nodes ++ [x]) hstep σ3 ρ σ4 hP h
  next => simp at hn

theorem calc_s8 (F f : Nat) (hF : f ≤ F) (ρ : PyLite.Env) (sn en : List Nat) (b x : Nat) (σ4 σ5 : Store) (nodes4 : List Nat)
    (hP : CalcEnv B sn en b (some x) ρ) (hn : nodesOf B σ4 = some nodes4)
    (h : nodes4.foldlM (backwardA B f) σ4 = some σ5) :
    ∃ ρ', (cS 8).execP (Hc e tid F) [] noRec ρ (mkSt B σ4) = .normal ρ' (mkSt B σ5) ∧ CalcEnv B sn en b (some x) ρ' := by
  unfold nodesOf at hn
  split at hn
  next nodes links tasks ed mem hg =>
    simp only [Option.some.injEq] at hn
    subst hn
    have hr := encHeap_get B hg
    have hit : (Expr.attr (.var "self") "__nodes").evalP (Hc e tid F) [] ρ
        (mkSt B σ4) = .ok (.list (nodes.map Atom.ref), mkSt B σ4) := by
      cpl [hP.1, hr]
    rw [cS8_eq, execP_forIn (hit := hit)]
    have hstep : ∀ (a : Store) (n : Nat) (ρ : PyLite.Env) (a' : Store), n ∈ nodes → CalcEnv B sn en b (some x) ρ →
        backwardA B f a n = some a' →
        ∃ ρ', execBlockP (Hc e tid F) [] noRec (cBody 8) (ρ.set "n" (.atom (.ref n))) (mkSt B a) =
          .normal ρ' (mkSt B a') ∧ CalcEnv B sn en b (some x) ρ' := by
      intro a n ρ a' _ hP hc
      have hcall := backward_sim e tid B f a n a' hc F hF
      have hP' := hP.set "n" (.atom (.ref n)) (by decide) (by decide) (by decide) (by decide) (by decide)
      refine ⟨_, ?_, hP'⟩
      cpl [cBody, cS, src_CPC_calc, hP'.1, hcall]
    exact forLoopP_foldO "n" (fun ρ st => execBlockP (Hc e tid F) [] noRec (cBody 8) ρ st) (mkSt B)
      (fun _ ρ => CalcEnv B sn en b (some x) ρ) (backwardA B f) Atom.ref nodes hstep σ4 ρ σ5 hP h
  next => simp at hn

theorem calc_s10 (H : PHandlers) (ρ : PyLite.Env) (x : Nat) (σ5 : Store) (nodes : List Nat)
    (links tasks : List (Atom × Atom)) (ed : Atom) (mem : List Atom) (res : List Atom)
    (hg : getO B σ5 B = some (.calc nodes links tasks ed mem))
    (hs : ρ.get? "self" = some (.atom (.ref B))) (he : ρ.get? "end" = some (.atom (.ref x)))
    (hres : ρ.get? "res" = some (.list []))
    (h : (links.map (·.1)).foldlM (resStep B x σ5) [] = some res) :
    ∃ ρ', (cS 10).execP H [] noRec ρ (mkSt B σ5) = .normal ρ' (mkSt B σ5) ∧
      ρ'.get? "self" = some (.atom (.ref B)) ∧ ρ'.get? "res" = some (.list res) := by
  have hr := encHeap_get B hg
  have hit : (Expr.attr (.var "self") "__links").evalP H [] ρ (mkSt B σ5) = .ok (.dict links, mkSt B σ5) := by
    cpl [hs, hr]
  rw [cS10_eq, execP_forIn_dict (hit := hit)]
  have hstep : ∀ (a : List Atom) (k : Atom) (ρ : PyLite.Env) (a' : List Atom), k ∈ links.map (·.1) →
      (ρ.get? "self" = some (.atom (.ref B)) ∧ ρ.get? "end" = some (.atom (.ref x)) ∧ ρ.get? "res" = some (.list a)) →
      resStep B x σ5 a k = some a' →
      ∃ ρ', execBlockP H [] noRec (cBody 10) (ρ.set "k" (.atom k)) (mkSt B σ5) = .normal ρ' (mkSt B σ5) ∧
        (ρ'.get? "self" = some (.atom (.ref B)) ∧ ρ'.get? "end" = some (.atom (.ref x)) ∧
          ρ'.get? "res" = some (.list a')) := by
    rintro a k ρ a' - ⟨hs, he, hres⟩ hst
    unfold resStep at hst
    simp only [hg] at hst
    split at hst
    next v hd =>
      split at hst
      next s t u hgl =>
        have hrl := encHeap_get B hgl
        split at hst
        next fw1 bw1 su1 teu fw2 bw2 ssu eu2 fw3 bw3 len eu3 hgt hgs hge =>
          have hrt := encHeap_get B hgt
          have hrs := encHeap_get B hgs
          have hre := encHeap_get B hge
          by_cases hc : (if teu - ssu - u < 0 then -(teu - ssu - u) else teu - ssu - u) ≤
              (1 / 1000000000 : Rat) * pyMaxR 1 len
          · simp only [hc, if_true] at hst
            split at hst
            next tk htk =>
              simp only [Option.some.injEq] at hst
              subst hst
              cpl [cBody, cS, src_CPC_calc, hs, he, hres, hr, hd, hrl, hrt, hrs, hre, optNum, pyMax_num, htk, hc]
            next => simp at hst
          · simp only [hc, if_false, Option.some.injEq] at hst
            subst hst
            cpl [cBody, cS, src_CPC_calc, hs, he, hres, hr, hd, hrl, hrt, hrs, hre, optNum, pyMax_num, hc]
        next => simp at hst
      next => simp at hst
    next => simp at hst
  obtain ⟨ρ', hl, hs', -, hres'⟩ := forLoopP_foldO "k" (fun ρ st => execBlockP H [] noRec (cBody 10) ρ st)
    (fun _ : List Atom => mkSt B σ5)
    (fun a ρ => ρ.get? "self" = some (.atom (.ref B)) ∧ ρ.get? "end" = some (.atom (.ref x)) ∧
      ρ.get? "res" = some (.list a)) (resStep B x σ5) (fun a => a) (links.map (·.1)) hstep [] ρ res ⟨hs, he, hres⟩ h
  rw [List.map_id'] at hl
  exact ⟨ρ', hl, hs', hres'⟩

theorem calc_newnode (F : Nat) (i : Nat) (x : String) (hi : cS i = .assign x (.construct fn_PNode_init .listNil))
    (ρ : PyLite.Env) (σ : Store) :
    (cS i).execP (Hc e tid (F + 1)) [] noRec ρ (mkSt B σ) =
      .normal (ρ.set x (.atom (.ref (B + σ.length)))) (mkSt B (σ ++ [.node [] [] none none])) := by
  rw [hi]
  exact Pj.TaskSrc.execP_assign (he := construct_PNode e tid F B [] ρ σ) ..

theorem calc_s3 (H : PHandlers) (ρ : PyLite.Env) (σ σ' : Store) (a : Nat) (hb : ρ.get? "begin" = some (.atom (.ref a)))
    (h : setSU B σ a (some 0) = some σ') :
    (cS 3).execP H [] noRec ρ (mkSt B σ) = .normal ρ (mkSt B σ') := by
  unfold setSU at h
  split at h
  next fw bw su eu hg =>
    simp only [Option.some.injEq] at h
    subst h
    have hw := mkSt_set B (f := "start_units") (v := .atom (.num 0)) hg
      (o' := .node fw bw (some 0) eu) (by simp [encObj, Env.set, refsN, optNum])
    cpl [cS, src_CPC_calc, hb, hw]
  next => simp at h

theorem calc_s9 (H : PHandlers) (ρ : PyLite.Env) (st : PState) :
    (cS 9).execP H [] noRec ρ st = .normal (ρ.set "res" (.list [])) st := by
  cpl [cS, src_CPC_calc]

theorem calc_s11 (H : PHandlers) (ρ : PyLite.Env) (σ : Store) (nodes : List Nat) (links tasks : List (Atom × Atom))
    (mem : List Atom) (res : List Atom) (hg : getO B σ B = some (.calc nodes links tasks .none mem))
    (hs : ρ.get? "self" = some (.atom (.ref B))) (hres : ρ.get? "res" = some (.list res)) :
    (cS 11).execP H [] noRec ρ (mkSt B σ) = .ret (.list res) (mkSt B σ) := by
  have hr := encHeap_get B hg
  cpl [cS, src_CPC_calc, hs, hres, hr]

theorem calc_sim (f : Nat) (σ σ' : Store) (res : List Atom) (h : calcA B f σ = some (res, σ')) (F : Nat)
    (hF : f ≤ F + 2) :
    (Hc e tid (F + 3)).fnV fn_CPC_calc [.atom (.ref B)] (mkSt B σ) = .ok (.list res, mkSt B σ') := by
  unfold calcA at h
  split at h
  next nodes links tasks ed mem hg =>
    split at h
    next sn en hsn hen =>
      simp only [newPNode] at h
      split at h
      next => simp at h
      next σ1 h3 =>
        split at h
        next => simp at h
        next σ2 h4 =>
          split at h
          next => simp at h
          next σ3 h6 =>
            split at h
            next => simp at h
            next nodes3 hn3 =>
              split at h
              next => simp at h
              next σ4 h7 =>
                split at h
                next => simp at h
                next nodes4 hn4 =>
                  split at h
                  next => simp at h
                  next σ5 h8 =>
                    split at h
                    next nodes5 links5 tasks5 ed5 mem5 hg5 =>
                      split at h
                      next => simp at h
                      next res' h10 =>
                        by_cases hed : ed5 = .none
                        · simp only [hed, if_true, Option.some.injEq, Prod.mk.injEq] at h
                          obtain ⟨rfl, rfl⟩ := h
                          subst hed
                          rw [fnV_succ _ _ _ _ _ _ cf_calc, callPV_eq, calc_shape]
                          simp only [src_CPC_calc_params, bindParamsV, bind, Except.bind, pure, Except.pure]
                          rw [execBlockP_cons, calc_s0 B _ _ σ nodes links tasks ed mem sn hg hsn
                            (by simp [Env.get?_cons])]
                          dsimp only
                          rw [execBlockP_cons, calc_s1 B _ _ σ nodes links tasks ed mem en hg hen
                            (by simp [Env.get?_set, Env.get?_cons])]
                          dsimp only
                          rw [execBlockP_cons, calc_newnode e tid B (F + 1) 2 "begin" rfl]
                          dsimp only
                          rw [execBlockP_cons, calc_s3 B _ _ _ σ1 (B + σ.length) (by simp [Env.get?_set]) h3]
                          dsimp only
                          have hP4 : CalcEnv B sn en (B + σ.length) none
                              (((Env.set [("self", .atom (.ref B))] "start_nodes" (.list (sn.map Atom.ref))).set "end_nodes"
                                (.list (en.map Atom.ref))).set "begin" (.atom (.ref (B + σ.length)))) :=
                            ⟨by simp [Env.get?_set, Env.get?_cons], by simp [Env.get?_set, Env.get?_cons],
                              by simp [Env.get?_set, Env.get?_cons], by simp [Env.get?_set, Env.get?_cons],
                              fun x hx => by simp at hx⟩
                          obtain ⟨ρ5, hs4, hP5⟩ := calc_s4 e tid B F _ sn en _ none σ1 σ2 hP4 h4
                          rw [execBlockP_cons, hs4]
                          dsimp only
                          rw [execBlockP_cons, calc_newnode e tid B (F + 1) 5 "end" rfl]
                          dsimp only
                          have hP6 : CalcEnv B sn en (B + σ.length) (some (B + σ2.length))
                              (ρ5.set "end" (.atom (.ref (B + σ2.length)))) := by
                            obtain ⟨a1, a2, a3, a4, -⟩ := hP5
                            exact ⟨by simp [Env.get?_set, a1], by simp [Env.get?_set, a2], by simp [Env.get?_set, a3],
                              by simp [Env.get?_set, a4], fun x hx => by cases hx; simp [Env.get?_set]⟩
                          obtain ⟨ρ7, hs6, hP7⟩ := calc_s6 e tid B F _ sn en _ _ _ σ3 hP6 h6
                          rw [execBlockP_cons, hs6]
                          dsimp only
                          obtain ⟨ρ8, hs7, hP8⟩ := calc_s7 e tid B (F + 2) f hF _ sn en _ _ σ3 σ4 nodes3 hP7 hn3 h7
                          rw [execBlockP_cons, hs7]
                          dsimp only
                          obtain ⟨ρ9, hs8, hP9⟩ := calc_s8 e tid B (F + 2) f hF _ sn en _ _ σ4 σ5 nodes4 hP8 hn4 h8
                          rw [execBlockP_cons, hs8]
                          dsimp only
                          rw [execBlockP_cons, calc_s9]
                          dsimp only
                          obtain ⟨ρ11, hs10, hself, hres⟩ := calc_s10 B (Hc e tid (F + 2)) (ρ9.set "res" (.list []))
                            (B + σ2.length) σ5 nodes5 links5 tasks5 .none mem5 res' hg5
                            (by simp [Env.get?_set, hP9.1]) (by simp [Env.get?_set, hP9.2.2.2.2 _ rfl])
                            (by simp [Env.get?_set]) h10
                          rw [execBlockP_cons, hs10]
                          dsimp only
                          rw [execBlockP_cons, calc_s11 B _ _ σ5 nodes5 links5 tasks5 mem5 res' hg5 hself hres]
                        · simp [hed] at h
                    next => simp at h
    next => simp at h
  next => simp at h

end calcsec

/-! ### `WBS.critical_path` -/

/-- the translated `WBS.critical_path` computes what the store-level program `cpA` computes -/
theorem cp_sim (e : CPEnv) (tid : Uid → Int) (B f F : Nat) (l : List Atom) (σ : Store)
    (h : cpA e tid B f = some (l, σ)) (hF : f + 5 ≤ F) :
    interp e tid F fn_WBS_critical_path [refs e.members] (initSt B) = .ok (.list l, mkSt B σ) := by
  obtain ⟨F, rfl⟩ : ∃ F', F = F' + 5 := ⟨F - 5, by omega⟩
  unfold cpA at h
  split at h
  next => simp at h
  next σ0 hinit =>
    show (Hc e tid (F + 4 + 1)).fnV fn_WBS_critical_path [refs e.members] (initSt B) = _
    rw [initSt_eq, fnV_succ _ _ _ _ _ _ cf_cp]
    have hc : ∀ ρ : PyLite.Env, ρ.get? "tasks" = some (refs e.members) →
        (Expr.construct fn_CPC_init (.listCons (.var "tasks") (.listCons .none .listNil))).evalP (Hc e tid (F + 4)) [] ρ
          (mkSt B []) = .ok (.atom (.ref B), mkSt B σ0) := fun ρ hρ =>
      construct_CPC e tid B f σ0 hinit (F + 3) (by omega) [] ρ (.var "tasks") (by cpl [hρ])
    have hcalc : (Hc e tid (F + 4)).fnV fn_CPC_calc [.atom (.ref B)] (mkSt B σ0) = .ok (.list l, mkSt B σ) :=
      calc_sim e tid B f σ0 σ l h (F + 1) (by omega)
    have hc' := hc [("tasks", refs e.members)] (by simp [Env.get?_cons])
    cpl [src_WBS_critical_path_params, src_WBS_critical_path, ↓hc', hcalc]

end Pj.CritPathSrc
