/-
  Lemmas/CsvSrcT5.lean — CSV I/O, READ side: the `children` lists and the list `roots` through the second loop
  (`setParent`, `linkStep`, the fold): what stays in a list, what gets into it, and nothing else.
-/
import PjVerif.Lemmas.CsvSrcT4
namespace Pj.CsvSrc
open Pj.PyLite Pj.Extracted.Csv Pj.Csv

/-- the `children` list of the object `j` -/
def kids (h : Nat → PyLite.Env) (j : Nat) : List Atom := listSlot h j "children"

theorem listSlot_heapSet_same (h : Nat → PyLite.Env) (i j : Nat) (f : String) (l : List Atom) :
    listSlot (heapSet h i f (.list l)) j f = if j = i then l else listSlot h j f := by
  unfold listSlot heapSet
  by_cases hj : j = i
  · simp only [hj, if_true]; rw [envGet_set, if_pos rfl]
  · simp only [if_neg hj]

theorem listSlot_heapSet_ne (h : Nat → PyLite.Env) (i j : Nat) (g f : String) (v : Val) (hne : g ≠ f) :
    listSlot (heapSet h i g v) j f = listSlot h j f := by
  unfold listSlot
  rw [heapSet_get_ne _ _ _ _ _ _ hne]

/-- the first step of `setParent`: the task leaves the `children` of its old parent -/
def unlinkH (h0 : Nat → PyLite.Env) (t : Nat) : Nat → PyLite.Env :=
  match (h0 t).get? "parent" with
  | some (.atom (.ref o)) =>
    heapSet h0 o "children" (.list ((listSlot h0 o "children").filter (fun a => a != Atom.ref t)))
  | _ => h0

theorem setParent_eq (st : PState) (t p : Nat) : setParent st t p =
    { st with heap := (heapSet (heapSet (unlinkH st.heap t) p "children"
        (.list ((listSlot (unlinkH st.heap t) p "children").filter (fun a => a != Atom.ref t) ++ [Atom.ref t])))
        t "parent" (.atom (.ref p))) } := rfl

theorem unlink_kids (h0 : Nat → PyLite.Env) (t j : Nat) :
    kids (unlinkH h0 t) j = kids h0 j ∨ kids (unlinkH h0 t) j = (kids h0 j).filter (fun a => a != Atom.ref t) := by
  unfold unlinkH
  generalize (h0 t).get? "parent" = w
  cases w with
  | none => exact .inl rfl
  | some v =>
    cases v with
    | atom a =>
      cases a with
      | ref o =>
        by_cases hj : j = o
        · right
          show listSlot _ j "children" = _
          rw [listSlot_heapSet_same, if_pos hj, hj]; rfl
        · left
          show listSlot _ j "children" = _
          rw [listSlot_heapSet_same, if_neg hj]; rfl
      | _ => exact .inl rfl
    | _ => exact .inl rfl

theorem mem_filter_ne (l : List Atom) (a b : Atom) : a ∈ l.filter (fun x => x != b) ↔ a ∈ l ∧ a ≠ b := by
  simp [List.mem_filter]

theorem unlink_keep (h0 : Nat → PyLite.Env) (t j : Nat) (a : Atom) (ha : a ∈ kids h0 j) (hne : a ≠ .ref t) :
    a ∈ kids (unlinkH h0 t) j := by
  rcases unlink_kids h0 t j with h | h <;> rw [h]
  · exact ha
  · exact (mem_filter_ne _ _ _).2 ⟨ha, hne⟩

theorem unlink_only (h0 : Nat → PyLite.Env) (t j : Nat) (a : Atom) (ha : a ∈ kids (unlinkH h0 t) j) : a ∈ kids h0 j := by
  rcases unlink_kids h0 t j with h | h <;> rw [h] at ha
  · exact ha
  · exact ((mem_filter_ne _ _ _).1 ha).1

theorem setParent_kids (st : PState) (t p j : Nat) :
    kids (setParent st t p).heap j =
      if j = p then (kids (unlinkH st.heap t) p).filter (fun a => a != Atom.ref t) ++ [Atom.ref t]
      else kids (unlinkH st.heap t) j := by
  rw [setParent_eq]
  show listSlot _ j "children" = _
  rw [listSlot_heapSet_ne _ _ _ _ _ _ (by decide), listSlot_heapSet_same]
  rfl

theorem setParent_keep (st : PState) (t p j : Nat) (a : Atom) (ha : a ∈ kids st.heap j) (hne : a ≠ .ref t) :
    a ∈ kids (setParent st t p).heap j := by
  rw [setParent_kids]
  have h1 := unlink_keep st.heap t j a ha hne
  by_cases hj : j = p
  · rw [if_pos hj]
    exact List.mem_append_left _ ((mem_filter_ne _ _ _).2 ⟨hj ▸ h1, hne⟩)
  · rw [if_neg hj]; exact h1

theorem setParent_new (st : PState) (t p : Nat) : Atom.ref t ∈ kids (setParent st t p).heap p := by
  rw [setParent_kids, if_pos rfl]
  exact List.mem_append_right _ (List.mem_singleton.2 rfl)

theorem setParent_only (st : PState) (t p j : Nat) (a : Atom) (ha : a ∈ kids (setParent st t p).heap j) :
    a ∈ kids st.heap j ∨ a = .ref t := by
  rw [setParent_kids] at ha
  by_cases hj : j = p
  · rw [if_pos hj] at ha
    rcases List.mem_append.1 ha with h | h
    · exact .inl (hj ▸ unlink_only st.heap t p a ((mem_filter_ne _ _ _).1 h).1)
    · exact .inr (List.mem_singleton.1 h)
  · rw [if_neg hj] at ha
    exact .inl (unlink_only st.heap t j a ha)

theorem setParent_id (st : PState) (t p j : Nat) : ((setParent st t p).heap j).get? "id" = (st.heap j).get? "id" := by
  rw [setParent_eq]
  show (heapSet _ _ _ _ j).get? "id" = _
  rw [heapSet_get_ne _ _ _ _ _ _ (by decide), heapSet_get_ne _ _ _ _ _ _ (by decide)]
  unfold unlinkH
  generalize (st.heap t).get? "parent" = w
  cases w with
  | none => rfl
  | some v =>
    cases v with
    | atom a =>
      cases a with
      | ref o => exact heapSet_get_ne _ _ _ _ _ _ (by decide)
      | _ => rfl
    | _ => rfl

/-! ### one round of the second loop -/

/-- the parent the second loop gives a row: none when the parent id is None or names no task -/
def parOf (D : List (Atom × Atom)) (p : Atom) : Option Nat := if p = .none then none else dictRef D p

theorem linkStep_eq (D : List (Atom × Atom)) (hD : ∀ k v, Dict.get? D k = some v → ∃ q, v = .ref q) (t : Nat) (p : Atom)
    (s : PState × List Atom) :
    linkStep D t p s = match parOf D p with
      | some q => (setParent (setParent s.1 t q) t q, s.2)
      | none => (s.1, s.2 ++ [.ref t]) := by
  unfold linkStep parOf dictRef
  by_cases hp : p = .none
  · rw [if_pos hp, if_pos hp]
  · rw [if_neg hp, if_neg hp]
    cases hg : Dict.get? D p with
    | none => rfl
    | some v =>
      obtain ⟨q, rfl⟩ := hD p v hg
      rfl

section step
variable (D : List (Atom × Atom)) (hD : ∀ k v, Dict.get? D k = some v → ∃ q, v = .ref q)
include hD

theorem step_roots_keep (t : Nat) (p : Atom) (s : PState × List Atom) (a : Atom) (ha : a ∈ s.2) :
    a ∈ (linkStep D t p s).2 := by
  rw [linkStep_eq D hD]
  cases parOf D p with
  | none => exact List.mem_append_left _ ha
  | some q => exact ha

theorem step_kids_keep (t : Nat) (p : Atom) (s : PState × List Atom) (j : Nat) (a : Atom) (ha : a ∈ kids s.1.heap j)
    (hne : a ≠ .ref t) : a ∈ kids (linkStep D t p s).1.heap j := by
  rw [linkStep_eq D hD]
  cases parOf D p with
  | none => exact ha
  | some q => exact setParent_keep _ t q j a (setParent_keep _ t q j a ha hne) hne

theorem step_new (t : Nat) (p : Atom) (s : PState × List Atom) :
    match parOf D p with
    | some q => Atom.ref t ∈ kids (linkStep D t p s).1.heap q
    | none => Atom.ref t ∈ (linkStep D t p s).2 := by
  rw [linkStep_eq D hD]
  cases parOf D p with
  | none => exact List.mem_append_right _ (List.mem_singleton.2 rfl)
  | some q => exact setParent_new _ t q

theorem step_roots_only (t : Nat) (p : Atom) (s : PState × List Atom) (a : Atom) (ha : a ∈ (linkStep D t p s).2) :
    a ∈ s.2 ∨ a = .ref t := by
  rw [linkStep_eq D hD] at ha
  cases hq : parOf D p with
  | none =>
    rw [hq] at ha
    rcases List.mem_append.1 ha with h | h
    · exact .inl h
    · exact .inr (List.mem_singleton.1 h)
  | some q => rw [hq] at ha; exact .inl ha

theorem step_kids_only (t : Nat) (p : Atom) (s : PState × List Atom) (j : Nat) (a : Atom)
    (ha : a ∈ kids (linkStep D t p s).1.heap j) : a ∈ kids s.1.heap j ∨ a = .ref t := by
  rw [linkStep_eq D hD] at ha
  cases hq : parOf D p with
  | none => rw [hq] at ha; exact .inl ha
  | some q =>
    rw [hq] at ha
    rcases setParent_only _ t q j a ha with h | h
    · exact setParent_only _ t q j a h
    · exact .inr h

theorem step_id (t : Nat) (p : Atom) (s : PState × List Atom) (j : Nat) :
    ((linkStep D t p s).1.heap j).get? "id" = (s.1.heap j).get? "id" := by
  rw [linkStep_eq D hD]
  cases parOf D p with
  | none => rfl
  | some q => exact (setParent_id _ t q j).trans (setParent_id _ t q j)

/-! ### the fold -/

abbrev linkFold (rows : List LinkRow) (s : PState × List Atom) : PState × List Atom :=
  rows.foldl (fun s r => linkStep D r.t r.p s) s

theorem fold_roots_keep : ∀ (rows : List LinkRow) (s : PState × List Atom) (a : Atom), a ∈ s.2 →
    a ∈ (linkFold D rows s).2
  | [], _, _, h => h
  | r :: rows, s, a, h => fold_roots_keep rows _ a (step_roots_keep D hD r.t r.p s a h)

theorem fold_kids_keep : ∀ (rows : List LinkRow) (s : PState × List Atom) (j : Nat) (a : Atom), a ∈ kids s.1.heap j →
    (∀ r ∈ rows, a ≠ .ref r.t) → a ∈ kids (linkFold D rows s).1.heap j
  | [], _, _, _, h, _ => h
  | r :: rows, s, j, a, h, hne => fold_kids_keep rows _ j a
      (step_kids_keep D hD r.t r.p s j a h (hne r (List.mem_cons_self ..)))
      (fun r' hr' => hne r' (List.mem_cons_of_mem _ hr'))

/-- every row ends up in the `children` of its parent or in `roots` (the tasks of the rows are pairwise different) -/
theorem fold_new : ∀ (rows : List LinkRow) (s : PState × List Atom), rows.Pairwise (fun x y => x.t ≠ y.t) →
    ∀ r ∈ rows, match parOf D r.p with
      | some q => Atom.ref r.t ∈ kids (linkFold D rows s).1.heap q
      | none => Atom.ref r.t ∈ (linkFold D rows s).2
  | [], _, _, r, h => by cases h
  | r0 :: rows, s, hp, r, h => by
    rw [List.pairwise_cons] at hp
    rcases List.mem_cons.1 h with rfl | h
    · have h1 := step_new D hD r.t r.p s
      cases hq : parOf D r.p with
      | none =>
        rw [hq] at h1
        exact fold_roots_keep D hD rows _ _ h1
      | some q =>
        rw [hq] at h1
        exact fold_kids_keep D hD rows _ q _ h1 (fun r' hr' e => hp.1 r' hr' (by injection e))
    · exact fold_new rows _ hp.2 r h

theorem fold_roots_only : ∀ (rows : List LinkRow) (s : PState × List Atom) (a : Atom), a ∈ (linkFold D rows s).2 →
    a ∈ s.2 ∨ ∃ r ∈ rows, a = .ref r.t
  | [], _, _, h => .inl h
  | r :: rows, s, a, h => by
    rcases fold_roots_only rows _ a h with h | ⟨r', hr', e⟩
    · rcases step_roots_only D hD r.t r.p s a h with h | h
      · exact .inl h
      · exact .inr ⟨r, List.mem_cons_self .., h⟩
    · exact .inr ⟨r', List.mem_cons_of_mem _ hr', e⟩

theorem fold_kids_only : ∀ (rows : List LinkRow) (s : PState × List Atom) (j : Nat) (a : Atom),
    a ∈ kids (linkFold D rows s).1.heap j → a ∈ kids s.1.heap j ∨ ∃ r ∈ rows, a = .ref r.t
  | [], _, _, _, h => .inl h
  | r :: rows, s, j, a, h => by
    rcases fold_kids_only rows _ j a h with h | ⟨r', hr', e⟩
    · rcases step_kids_only D hD r.t r.p s j a h with h | h
      · exact .inl h
      · exact .inr ⟨r, List.mem_cons_self .., h⟩
    · exact .inr ⟨r', List.mem_cons_of_mem _ hr', e⟩

theorem fold_id : ∀ (rows : List LinkRow) (s : PState × List Atom) (j : Nat),
    ((linkFold D rows s).1.heap j).get? "id" = (s.1.heap j).get? "id"
  | [], _, _ => rfl
  | r :: rows, s, j => (fold_id rows _ j).trans (step_id D hD r.t r.p s j)

end step

end Pj.CsvSrc
