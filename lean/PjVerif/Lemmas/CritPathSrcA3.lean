/-
  Lemmas/CritPathSrcA3.lean — the simulation layer of the translated tie for alg/critical_path.py, part 3:
  the passes `__forward` and `__backward` (a loop with a recursive call in its body).
-/
import PjVerif.Lemmas.CritPathSrcA1
namespace Pj.CritPathSrc
open Pj.PyLite Pj.Extracted.CritPath
open Pj.TaskSrc (callPV_eq execBlockP_cons execBlockP_nil execP_forIn noRec Env.get?_set Env.get?_cons Env.get?_nil pyEq_num)
set_option linter.unusedSimpArgs false
set_option linter.unusedVariables false

/-! ### `__forward` -/

def fwThen : List Stmt := match src_CPC_forward with | [.ifElse _ t _] => t | _ => []
def fwLoop : Stmt := fwThen.getD 1 .pass
def fwBody : List Stmt := match fwLoop with | .forIn _ _ b => b | _ => []
theorem fw_shape : src_CPC_forward = [.ifElse (.isNone (.attr (.var "node") "start_units")) fwThen []] := rfl
theorem fwThen_eq : fwThen =
    [.assign "max_start" (.num 0), fwLoop, .setAttr (.var "node") "start_units" (.var "max_start")] := rfl
theorem fwLoop_eq : fwLoop = .forIn "link" (.attr (.var "node") "backward_links") fwBody := rfl

def FwEnv (B a : Nat) (acc : Store × Rat) (ρ : PyLite.Env) : Prop :=
  ρ.get? "self" = some (.atom (.ref B)) ∧ ρ.get? "node" = some (.atom (.ref a)) ∧
    ρ.get? "max_start" = some (.atom (.num acc.2))

theorem fw_step (B : Nat) {H : PHandlers} {rec : Store → Nat → Option Store}
    (hrec : ∀ σ p σ', rec σ p = some σ' →
      H.fnV fn_CPC_forward [.atom (.ref B), .atom (.ref p)] (mkSt B σ) = .ok (.atom .none, mkSt B σ'))
    (a : Nat) (acc acc' : Store × Rat) (l : Nat) (ρ : PyLite.Env) (hP : FwEnv B a acc ρ)
    (h : fwdStep B rec acc l = some acc') :
    ∃ ρ', execBlockP H [] noRec fwBody (ρ.set "link" (.atom (.ref l))) (mkSt B acc.1) = .normal ρ' (mkSt B acc'.1) ∧
      FwEnv B a acc' ρ' := by
  obtain ⟨hs, hn, hm⟩ := hP
  unfold fwdStep at h
  split at h
  next s e1 u1 hg1 =>
    split at h
    next fw1 bw1 su eu1 hg2 =>
      have hr1 := encHeap_get B hg1
      have hr2 := encHeap_get B hg2
      cases su with
      | none =>
        simp only [Option.isNone_none, if_true] at h
        split at h
        next => simp at h
        next σ' hrc =>
          have hcall := hrec _ _ _ hrc
          split at h
          next s' e' u' hg3 =>
            split at h
            next fw4 bw4 v eu4 hg4 =>
              simp only [Option.some.injEq] at h
              subst h
              have hr3 := encHeap_get B hg3
              have hr4 := encHeap_get B hg4
              cpl [fwBody, fwLoop, fwThen, src_CPC_forward, hs, hn, hm, hr1, hr2, hr3, hr4, hcall, optNum, pyMax_num, FwEnv]
            next => simp at h
          next => simp at h
      | some w =>
        simp only [Option.isNone_some, Bool.false_eq_true, if_false] at h
        split at h
        next s' e' u' hg3 =>
          split at h
          next fw4 bw4 v eu4 hg4 =>
            simp only [Option.some.injEq] at h
            subst h
            have hr3 := encHeap_get B hg3
            have hr4 := encHeap_get B hg4
            cpl [fwBody, fwLoop, fwThen, src_CPC_forward, hs, hn, hm, hr3, hr4, optNum, pyMax_num, FwEnv]
          next => simp at h
        next => simp at h
    next => simp at h
  next => simp at h

theorem forward_sim (e : CPEnv) (tid : Uid → Int) (B : Nat) :
    ∀ (f : Nat) (σ : Store) (a : Nat) (σ' : Store), forwardA B f σ a = some σ' → ∀ F, f ≤ F →
      (Hc e tid F).fnV fn_CPC_forward [.atom (.ref B), .atom (.ref a)] (mkSt B σ) = .ok (.atom .none, mkSt B σ') := by
  intro f
  induction f with
  | zero => intro σ a σ' h; simp [forwardA] at h
  | succ f ih =>
    intro σ a σ' h F hF
    obtain ⟨F, rfl⟩ : ∃ F', F = F' + 1 := ⟨F - 1, by omega⟩
    rw [fnV_succ _ _ _ _ _ _ cf_forward]
    unfold forwardA at h
    split at h
    next fw bw su eu hg =>
      have hr := encHeap_get B hg
      cases su with
      | some w =>
        simp only [Option.isNone_some, Bool.false_eq_true, if_false, Option.some.injEq] at h
        subst h
        cpl [src_CPC_forward_params, src_CPC_forward, hr, optNum]
      | none =>
        simp only [Option.isNone_none, if_true] at h
        split at h
        next => simp at h
        next σ2 ms hfold =>
          unfold setSU at h
          split at h
          next fw2 bw2 su2 eu2 hg2 =>
            simp only [Option.some.injEq] at h
            subst h
            have hw := mkSt_set B (f := "start_units") (v := .atom (.num ms)) hg2
              (o' := .node fw2 bw2 (some ms) eu2) (by simp [encObj, Env.set, refsN, optNum])
            rw [callPV_eq, fw_shape]
            simp only [src_CPC_forward_params, bindParamsV, bind, Except.bind, pure, Except.pure]
            rw [execBlockP_cons, Pj.TaskSrc.execP_ifElse (b := true) (st' := mkSt B σ) (v := .atom (.bool true))
              (hc := by cpl [hr, optNum]) (hb := rfl)]
            simp only [if_true, fwThen_eq, execBlockP_cons, execBlockP_nil]
            rw [Pj.TaskSrc.execP_assign (v := .atom (.num 0)) (st' := mkSt B σ) (he := by cpl)]
            simp only [fwLoop_eq]
            have hit : (Expr.attr (.var "node") "backward_links").evalP (Hc e tid F) []
                (Env.set [("self", .atom (.ref B)), ("node", .atom (.ref a))] "max_start" (.atom (.num 0))) (mkSt B σ) =
                .ok (.list (bw.map Atom.ref), mkSt B σ) := by
              cpl [hr]
            rw [execP_forIn (hit := hit)]
            have hstep : ∀ (x : Store × Rat) (b : Nat) (ρ : PyLite.Env) (x' : Store × Rat), b ∈ bw →
                FwEnv B a x ρ → fwdStep B (forwardA B f) x b = some x' →
                ∃ ρ', execBlockP (Hc e tid F) [] noRec fwBody (ρ.set "link" (.atom (.ref b))) (mkSt B x.1) =
                  .normal ρ' (mkSt B x'.1) ∧ FwEnv B a x' ρ' :=
              fun x b ρ x' _ hP hs =>
                fw_step B (fun σ p σ' hrec => ih σ p σ' hrec F (by omega)) a x x' b ρ hP hs
            obtain ⟨ρ', hl, hs', hn', hm'⟩ := forLoopP_foldO "link"
              (fun ρ st => execBlockP (Hc e tid F) [] noRec fwBody ρ st) (fun x : Store × Rat => mkSt B x.1) (FwEnv B a)
              (fwdStep B (forwardA B f)) Atom.ref bw hstep (σ, 0)
              (Env.set [("self", .atom (.ref B)), ("node", .atom (.ref a))] "max_start" (.atom (.num 0))) (σ2, ms)
              ⟨by simp [Env.get?_set, Env.get?_cons], by simp [Env.get?_set, Env.get?_cons], by simp [Env.get?_set]⟩ hfold
            rw [hl]
            cpl [hn', hm', hw]
          next => simp at h
    next => simp at h

/-! ### `__backward` -/

def bwThen : List Stmt := match src_CPC_backward with | [.ifElse _ t _] => t | _ => []
def bwLoop : Stmt := bwThen.getD 1 .pass
def bwBody : List Stmt := match bwLoop with | .forIn _ _ b => b | _ => []
def bwPost : List Stmt := bwThen.drop 2
theorem bw_shape : src_CPC_backward = [.ifElse (.isNone (.attr (.var "node") "end_units")) bwThen []] := rfl
theorem bwThen_eq : bwThen = [.assign "min_end" .none, bwLoop] ++ bwPost := rfl
theorem bwLoop_eq : bwLoop = .forIn "link" (.attr (.var "node") "forward_links") bwBody := rfl

def BwEnv (B a : Nat) (acc : Store × Option Rat) (ρ : PyLite.Env) : Prop :=
  ρ.get? "self" = some (.atom (.ref B)) ∧ ρ.get? "node" = some (.atom (.ref a)) ∧
    ρ.get? "min_end" = some (.atom (optNum acc.2))

theorem bw_step (B : Nat) {H : PHandlers} {rec : Store → Nat → Option Store}
    (hrec : ∀ σ p σ', rec σ p = some σ' →
      H.fnV fn_CPC_backward [.atom (.ref B), .atom (.ref p)] (mkSt B σ) = .ok (.atom .none, mkSt B σ'))
    (a : Nat) (acc acc' : Store × Option Rat) (l : Nat) (ρ : PyLite.Env) (hP : BwEnv B a acc ρ)
    (h : bwdStep B rec acc l = some acc') :
    ∃ ρ', execBlockP H [] noRec bwBody (ρ.set "link" (.atom (.ref l))) (mkSt B acc.1) = .normal ρ' (mkSt B acc'.1) ∧
      BwEnv B a acc' ρ' := by
  obtain ⟨hs, hn, hm⟩ := hP
  unfold bwdStep at h
  split at h
  next s1 en u1 hg1 =>
    split at h
    next fw1 bw1 su1 eu hg2 =>
      have hr1 := encHeap_get B hg1
      have hr2 := encHeap_get B hg2
      cases eu with
      | none =>
        simp only [Option.isNone_none, if_true] at h
        split at h
        next => simp at h
        next σ' hrc =>
          have hcall := hrec _ _ _ hrc
          split at h
          next s' en' u' hg3 =>
            split at h
            next fw4 bw4 su4 v hg4 =>
              simp only [Option.some.injEq] at h
              subst h
              have hr3 := encHeap_get B hg3
              have hr4 := encHeap_get B hg4
              cases hacc : acc.2 <;> simp only [hacc] at hm <;>
                cpl [bwBody, bwLoop, bwThen, src_CPC_backward, hs, hn, hm, hr1, hr2, hr3, hr4, hcall, optNum, pyMin_num, BwEnv,
                  Rat.sub_eq_add_neg]
            next => simp at h
          next => simp at h
      | some w =>
        simp only [Option.isNone_some, Bool.false_eq_true, if_false] at h
        split at h
        next s' en' u' hg3 =>
          split at h
          next fw4 bw4 su4 v hg4 =>
            simp only [Option.some.injEq] at h
            subst h
            have hr3 := encHeap_get B hg3
            have hr4 := encHeap_get B hg4
            cases hacc : acc.2 <;> simp only [hacc] at hm <;>
              cpl [bwBody, bwLoop, bwThen, src_CPC_backward, hs, hn, hm, hr3, hr4, optNum, pyMin_num, BwEnv,
                Rat.sub_eq_add_neg]
          next => simp at h
        next => simp at h
    next => simp at h
  next => simp at h

theorem backward_sim (e : CPEnv) (tid : Uid → Int) (B : Nat) :
    ∀ (f : Nat) (σ : Store) (a : Nat) (σ' : Store), backwardA B f σ a = some σ' → ∀ F, f ≤ F →
      (Hc e tid F).fnV fn_CPC_backward [.atom (.ref B), .atom (.ref a)] (mkSt B σ) = .ok (.atom .none, mkSt B σ') := by
  intro f
  induction f with
  | zero => intro σ a σ' h; simp [backwardA] at h
  | succ f ih =>
    intro σ a σ' h F hF
    obtain ⟨F, rfl⟩ : ∃ F', F = F' + 1 := ⟨F - 1, by omega⟩
    rw [fnV_succ _ _ _ _ _ _ cf_backward]
    unfold backwardA at h
    split at h
    next fw bw su eu hg =>
      have hr := encHeap_get B hg
      cases eu with
      | some w =>
        simp only [Option.isNone_some, Bool.false_eq_true, if_false, Option.some.injEq] at h
        subst h
        cpl [src_CPC_backward_params, src_CPC_backward, hr, optNum]
      | none =>
        simp only [Option.isNone_none, if_true] at h
        split at h
        next => simp at h
        next σ2 me hfold =>
          rw [callPV_eq, bw_shape]
          simp only [src_CPC_backward_params, bindParamsV, bind, Except.bind, pure, Except.pure]
          rw [execBlockP_cons, Pj.TaskSrc.execP_ifElse (b := true) (st' := mkSt B σ) (v := .atom (.bool true))
            (hc := by cpl [hr, optNum]) (hb := rfl)]
          simp only [if_true, bwThen_eq, List.cons_append, List.nil_append, execBlockP_cons, execBlockP_nil]
          rw [Pj.TaskSrc.execP_assign (v := .atom .none) (st' := mkSt B σ) (he := by cpl)]
          simp only [bwLoop_eq]
          have hit : (Expr.attr (.var "node") "forward_links").evalP (Hc e tid F) []
              (Env.set [("self", .atom (.ref B)), ("node", .atom (.ref a))] "min_end" (.atom .none)) (mkSt B σ) =
              .ok (.list (fw.map Atom.ref), mkSt B σ) := by
            cpl [hr]
          rw [execP_forIn (hit := hit)]
          have hstep : ∀ (x : Store × Option Rat) (b : Nat) (ρ : PyLite.Env) (x' : Store × Option Rat), b ∈ fw →
              BwEnv B a x ρ → bwdStep B (backwardA B f) x b = some x' →
              ∃ ρ', execBlockP (Hc e tid F) [] noRec bwBody (ρ.set "link" (.atom (.ref b))) (mkSt B x.1) =
                .normal ρ' (mkSt B x'.1) ∧ BwEnv B a x' ρ' :=
            fun x b ρ x' _ hP hs =>
              bw_step B (fun σ p σ' hrec => ih σ p σ' hrec F (by omega)) a x x' b ρ hP hs
          obtain ⟨ρ', hl, hs', hn', hm'⟩ := forLoopP_foldO "link"
            (fun ρ st => execBlockP (Hc e tid F) [] noRec bwBody ρ st) (fun x : Store × Option Rat => mkSt B x.1)
            (BwEnv B a) (bwdStep B (backwardA B f)) Atom.ref fw hstep (σ, none)
            (Env.set [("self", .atom (.ref B)), ("node", .atom (.ref a))] "min_end" (.atom .none)) (σ2, me)
            ⟨by simp [Env.get?_set, Env.get?_cons], by simp [Env.get?_set, Env.get?_cons], by simp [Env.get?_set, optNum]⟩
            hfold
          rw [hl]
          cases me with
          | some m =>
            dsimp only at h
            unfold setEU at h
            split at h
            next fw2 bw2 su2 eu2 hg2 =>
              simp only [Option.some.injEq] at h
              subst h
              have hw := mkSt_set B (f := "end_units") (v := .atom (.num m)) hg2
                (o' := .node fw2 bw2 su2 (some m)) (by simp [encObj, Env.set, refsN, optNum])
              cpl [bwPost, bwThen, src_CPC_backward, hn', hm', hw, optNum]
            next => simp at h
          | none =>
            dsimp only at h
            split at h
            next fw3 bw3 su3 eu3 hg3 =>
              unfold setEU at h
              simp only [hg3, Option.some.injEq] at h
              subst h
              have hr3 := encHeap_get B hg3
              cases su3 with
              | none =>
                have hw := mkSt_set B (f := "end_units") (v := .atom .none) hg3
                  (o' := .node fw3 bw3 none none) (by simp [encObj, Env.set, refsN, optNum])
                cpl [bwPost, bwThen, src_CPC_backward, hn', hm', hr3, hw, optNum]
              | some q =>
                have hw := mkSt_set B (f := "end_units") (v := .atom (.num q)) hg3
                  (o' := .node fw3 bw3 (some q) (some q)) (by simp [encObj, Env.set, refsN, optNum])
                cpl [bwPost, bwThen, src_CPC_backward, hn', hm', hr3, hw, optNum]
            next => simp at h
    next => simp at h

end Pj.CritPathSrc
