/-
  Lemmas/CsvSrcW9.lean — CSV I/O, the WRITE side: `write_csv_eq`.
-/
import PjVerif.Lemmas.CsvSrcW8
namespace Pj.CsvSrc
open Pj.PyLite Pj.Extracted.Csv Pj.Csv

theorem agree_encSt (W : WbsD) : Agree W (encSt W) := ⟨fun _ _ => rfl, Nat.lt_succ_self _⟩

theorem semi_eq : litA ";" = strA [';'] := rfl

set_option maxRecDepth 8000 in
/-- `write_csv(wbs, path)` writes the text of the model: for every library `L` and every well-formed description `W`
    (fuel: three nested calls) -/
theorem write_csv_eq (L : IOLib) (F : Nat) (W : WbsD) (hWF : WF W) :
    interpWrite L (F + 3) W = .ok (writeCsv (recsOf L W)) := by
  -- the tasks
  obtain ⟨ds, hds1, hds2, hds3⟩ := order_ds L W (orderOf W) (orderOf_valid W hWF)
  have hrecs : recsOf L W = ds.map (recOf L W) := hds3
  let st0 := encSt W
  let st1 := rawsSt W st0 (orderOf W)
  let ps := pairsFrom st0.reads ds
  obtain ⟨hps1, hps2⟩ := rawsSt_pairs W (orderOf W) ds st0 hds1
  obtain ⟨hbx, -, -⟩ := rawsSt_frame W (orderOf W) st0
  have hbx1 : st1.boxes = [] := hbx
  have hpsd : ps.map (·.2) = ds := pairsFrom_snd _ _
  have hps : ∀ p ∈ ps, st1.heap p.1 = rawEnv W p.2 ∧ p.2 ∈ W.tasks := fun p hp =>
    ⟨hps1 p hp, hds2 p.2 (by rw [← hpsd]; exact List.mem_map_of_mem hp)⟩
  let cols := customColumns (ds.map (recOf L W))
  have hcols : ∀ col ∈ cols, defaultFields.contains col = false :=
    customColumns_notDefault L W ds (fun d hd => hWF.custom d (hds2 d hd))
  -- the run
  let H := HH L (F + 2)
  let rec_ : List Atom → PState → Res (Val × PState) := fun _ _ => throw stuck
  let env0 : PyLite.Env := [("wbs", .atom (.ref 0)), ("path", .atom (litA "out.csv")), ("encoding", utf8), ("delimiter", semi)]
  let rawsV : Val := .list (ps.map (fun p => Atom.ref p.1))
  let env1 := env0.set "raws" rawsV
  have h1 : (Stmt.assign "raws" (.callFn fn_tasks_to_raws (.listCons (.prim "tasks" (.listCons (.var "wbs") .listNil)) .listNil))).execP
      H [] rec_ env0 st0 = .normal env1 st1 := by
    refine exec_assign ((eval_callFn (evalArgs_cons (eval_prim (v := .list ((orderOf W).map Atom.ref))
      (eval_cons (eval_var (x := "wbs") (v := .atom (.ref 0)) rfl) eval_nil) (by rw [HH_prim, prim_tasks]; rfl))
      evalArgs_nil)).trans ?_)
    have := tasks_to_raws_run L F W hWF st0 (agree_encSt W) (orderOf W) (orderOf_valid W hWF)
    rw [hps2] at this
    exact this
  let st2 : PState := { st1 with boxes := [[]] }
  let env2 := env1.set "output_file" (.atom (.box 0))
  have h2 : (Stmt.assign "output_file" (.newBox .listNil)).execP H [] rec_ env1 st1 = .normal env2 st2 := by
    have := exec_assign (H := H) (self := []) (rec := rec_) (x := "output_file") (env := env1)
      (eval_newBox (st := st1) (vs := []) eval_nil rfl)
    rw [this, hbx1]; rfl
  let cw : Val := .list [.box 0, strA [';']]
  let env3 := env2.set "csvwriter" cw
  have h3 : (Stmt.assign "csvwriter" (.listCons (.var "output_file") (.listCons (.var "delimiter") .listNil))).execP
      H [] rec_ env2 st2 = .normal env3 st2 :=
    exec_assign (eval_cons (eval_var (by rw [envGet_set, if_pos rfl]))
      (eval_cons (eval_var (x := "delimiter") (v := .atom (strA [';'])) (by
        rw [envGet_set, if_neg (by decide), envGet_set, if_neg (by decide)]; rfl)) eval_nil))
  let env4 := env3.set "fields" (.dict [])
  have h4 : (Stmt.assign "fields" .dictNil).execP H [] rec_ env3 st2 = .normal env4 st2 := exec_assign rfl
  have hraws4 : env4.get? "raws" = some rawsV := by
    rw [envGet_set, if_neg (by decide), envGet_set, if_neg (by decide), envGet_set, if_neg (by decide),
      envGet_set, if_pos rfl]
  have hcw4 : env4.get? "csvwriter" = some cw := by rw [envGet_set, if_neg (by decide), envGet_set, if_pos rfl]
  -- the custom columns
  obtain ⟨env5, D, h5, hf5, hk5, hfr5⟩ := fields_outer_loop L (F + 2) rec_ st2 (ps.map (·.1)) env4 [] []
    (by rw [envGet_set, if_pos rfl]) rfl (fun r hr => by
      obtain ⟨p, hp, rfl⟩ := List.mem_map.1 hr
      show GoodEnv (st1.heap p.1)
      rw [(hps p hp).1]; exact rawEnv_good W p.2 (hWF.custom p.2 (hps p hp).2))
  have hcolsEq : (ps.map (·.1)).foldl (fun c r => ((st2.heap r).map (·.1)).foldl colStep c) [] = cols := by
    rw [cols_eq L W st2 ps [] (fun p hp => ⟨(hps p hp).1, hWF.custom p.2 (hps p hp).2⟩), hpsd, customColumns_eq]
  rw [hcolsEq] at hk5
  have h5' : (Stmt.forIn "t" (.var "raws") fieldsOuter).execP H [] rec_ env4 st2 = .normal env5 st2 := by
    rw [exec_forIn (eval_var hraws4) rfl]
    have : ps.map (fun p => Atom.ref p.1) = (ps.map (·.1)).map Atom.ref := by rw [List.map_map]; rfl
    rw [this]; exact h5
  have hraws5 : env5.get? "raws" = some rawsV := by rw [hfr5 "raws" (by simp)]; exact hraws4
  have hcw5 : env5.get? "csvwriter" = some cw := by rw [hfr5 "csvwriter" (by simp)]; exact hcw4
  -- field_list
  let env6 := env5.set "field_list" (.list (cols.map strA))
  have h6 : (Stmt.assign "field_list" (.listComp (.prim "str" (.listCons (.var "k") .listNil)) "k" (.var "fields") (.bool true))).execP
      H [] rec_ env5 st2 = .normal env6 st2 := by
    refine exec_assign ?_
    rw [listComp_pure' H env5 _ _ "k" st2 (.dict D) (cols.map strA)
      (fun a => match a with | .str k => .ok (.str k) | _ => .error stuck) (eval_var hf5)
      (by show Except.ok (D.map (·.1)) = _; rw [hk5])]
    · refine (congrArg _ (mapM_map_ok _ strA strA cols ?_)).trans rfl
      intro _ _; rfl
    · intro v hv
      obtain ⟨c, -, rfl⟩ := List.mem_map.1 hv
      rw [eval_prim (eval_cons (eval_var (by rw [envGet_set, if_pos rfl])) eval_nil)
        (by rw [HH_prim]; exact prim_str_str L st2 (strCode c))]
      rfl
  have hraws6 : env6.get? "raws" = some rawsV := by rw [envGet_set, if_neg (by decide)]; exact hraws5
  have hcw6 : env6.get? "csvwriter" = some cw := by rw [envGet_set, if_neg (by decide)]; exact hcw5
  have hfl6 : env6.get? "field_list" = some (.list (cols.map strA)) := by rw [envGet_set, if_pos rfl]
  -- the header row
  let hdr : Atom := strA (encodeRow (defaultFields ++ cols))
  let st7 : PState := { st2 with boxes := [[hdr]] }
  have h7 : (writeStmt (.bin .add tenLits (.var "field_list"))).execP H [] rec_ env6 st2 = .normal env6 st7 := by
    have := exec_writerow L (F + 2) rec_ env6 st2 0 _ (defaultFields.map strA ++ cols.map strA) (defaultFields ++ cols) []
      hcw6 (eval_bin (op := .add) (eval_tenLits L (F + 2) env6 st2) (eval_var hfl6) rfl)
      (mapM_append_ok _ _ _ _ _ (mapM_map_ok _ strA id _ (fun s _ => cell_strA L s))
        (mapM_map_ok _ strA id _ (fun s _ => cell_strA L s)) |> (by simpa using ·)) rfl
    rw [this]; rfl
  -- the task rows
  obtain ⟨env8, h8⟩ := rows_loop L (F + 1) rec_ W hWF 0 cols hcols ps env6 st7 [hdr] hps hcw6 hfl6 rfl
  have h8' : (Stmt.forIn "task" (.var "raws") [writeStmt rowE]).execP H [] rec_ env6 st7 =
      .normal env8 { st7 with boxes := [hdr :: ps.map (fun p => strA (rowText L W cols p.2))] } := by
    rw [exec_forIn (eval_var hraws6) rfl]; exact h8
  -- together
  unfold interpWrite
  rw [runIO_fn L (F + 2) fn_write_csv _ _ _ _ rfl, src_write_csv_shape]
  simp only [callPV, bindParamsV, src_write_csv_params, pure, Except.pure, bind, Except.bind]
  rw [block_cons_normal h1, block_cons_normal h2, block_cons_normal h3, block_cons_normal h4, block_cons_normal h5',
    block_cons_normal h6, block_cons_normal h7, block_cons_normal h8']
  have htext : textOf (hdr :: ps.map (fun p => strA (rowText L W cols p.2))) = writeCsv (recsOf L W) := by
    have hrows : ps.map (fun p => strA (rowText L W cols p.2)) = ds.map (fun d => strA (rowText L W cols d)) := by
      rw [← hpsd, List.map_map]; rfl
    have : (hdr :: ps.map (fun p => strA (rowText L W cols p.2))) =
        ((fileRows (recsOf L W)).map encodeRow).map strA := by
      rw [hrows, hrecs, fileRows]
      simp only [List.map_cons, List.map_map]
      rfl
    rw [this, textOf_strs, writeCsv, encodeFile]
  rw [← htext]
  rfl

#print axioms write_csv_eq

end Pj.CsvSrc
