/-
  Lemmas/CritPathSrcC5.lean — stage 3 of the translated tie for alg/critical_path.py: the program over the typed store
  (`cpA`, Lemmas/CritPathSrcNet.lean) returns the model's critical tasks (`cpA_ok`, `criticalPath_mem`); the grid
  hypothesis implies the tolerance hypothesis (`tolExact_of_grid`).  See Lemmas/CritPathSrc.lean.
-/
import PjVerif.Lemmas.CritPathSrcC4
namespace Pj.CritPathSrc
open Pj.PyLite Pj.CPEnv
set_option linter.unusedSimpArgs false
set_option linter.unusedVariables false

section top
variable (e : CPEnv) (tid : Uid → Int) (B : Nat)

theorem projectLen_of_acyclic (hac : acyclicB e = true) : ∃ len, projectLen e = some len := by
  obtain ⟨efs, hefs⟩ := mapM_total (ef e) (leaves e) (fun t ht => ef_of_acyclic e hac ht)
  exact ⟨efs.foldl max 0, by unfold projectLen; rw [hefs]; rfl⟩

/-- `CriticalPathCalculator(tasks, None).calc()` over the typed store: the zero-float leaves, in the order of insertion -/
theorem cpA_ok (hid : IdInj e tid) (hdesc : DescOK e) (hac : acyclicB e = true) (htol : TolExact e) (f : Nat)
    (hf : 2 * (e.n + 1) + 2 ≤ f) :
    ∃ (done : List Uid) (σ : Store) (len : Rat), projectLen e = some len ∧ (∀ t, t ∈ done ↔ t ∈ leaves e) ∧ done.Nodup ∧
      cpA e tid B f = some ((done.filter (critOf e len)).map Atom.ref, σ) := by
  obtain ⟨len, hlen⟩ := projectLen_of_acyclic e hac
  obtain ⟨σ, done, S, E, L, hinit, hb, hdone⟩ := init_ok e tid B hid hdesc hac f (by omega)
  obtain ⟨σ5, hcalc⟩ := calc_ok e tid B hid hac htol hb hdone hlen f hf
  exact ⟨done, σ5, len, hlen, hdone, hb.nodup, by simp only [cpA, hinit, hcalc]⟩

/-- the members of the model's result -/
theorem criticalPath_mem {len : Rat} {l : List Uid} (hlen : projectLen e = some len) (h : criticalPath e = .ok l) :
    ∀ t, t ∈ l ↔ t ∈ leaves e ∧ critOf e len t = true := by
  unfold criticalPath at h
  rw [hlen] at h
  simp only at h
  split at h
  · cases h
  · next l' hl' =>
    cases h
    intro t
    constructor
    · intro ht
      obtain ⟨b, hb, hbt⟩ := List.mem_map.mp ht
      obtain ⟨hb1, hb2⟩ := List.mem_filter.mp hb
      obtain ⟨a, ha, hg⟩ := mapM_some_mem_inv _ _ _ hl' b hb1
      cases hf : ef e a with
      | none => simp [hf, bind] at hg
      | some f =>
        cases hv : lfF e len (e.n + 1) a with
        | none => simp [hf, hv, bind] at hg
        | some v =>
          simp only [hf, hv, bind, Option.bind, pure, Option.some.injEq] at hg
          subst hg
          simp only at hbt hb2
          subst hbt
          exact ⟨ha, by simp only [critOf, hf, hv]; exact hb2⟩
    · rintro ⟨htl, hc⟩
      obtain ⟨b, hb, hg⟩ := mapM_some_mem _ _ _ hl' t htl
      cases hf : ef e t with
      | none => simp [critOf, hf] at hc
      | some f =>
        cases hv : lfF e len (e.n + 1) t with
        | none => simp [critOf, hf, hv] at hc
        | some v =>
          simp only [hf, hv, bind, Option.bind, pure, Option.some.injEq] at hg
          subst hg
          simp only [critOf, hf, hv] at hc
          exact List.mem_map.mpr ⟨_, List.mem_filter.mpr ⟨hb, hc⟩, rfl⟩

end top

/-! ### the grid hypothesis -/

section grid
variable (e : CPEnv)

/-- a multiple of 1/8 -/
def G8 (q : Rat) : Prop := ∃ k : Int, 8 * q = k

theorem G8.zero : G8 0 := ⟨0, by grind⟩
theorem G8.add {a b : Rat} (ha : G8 a) (hb : G8 b) : G8 (a + b) := by
  obtain ⟨k1, h1⟩ := ha
  obtain ⟨k2, h2⟩ := hb
  exact ⟨k1 + k2, by rw [Rat.intCast_add]; grind⟩
theorem G8.sub {a b : Rat} (ha : G8 a) (hb : G8 b) : G8 (a - b) := by
  obtain ⟨k1, h1⟩ := ha
  obtain ⟨k2, h2⟩ := hb
  exact ⟨k1 - k2, by rw [Rat.intCast_sub]; grind⟩
theorem G8.max {a b : Rat} (ha : G8 a) (hb : G8 b) : G8 (max a b) := by
  by_cases h : a ≤ b
  · have : Max.max a b = b := by grind
    rw [this]; exact hb
  · have : Max.max a b = a := by grind
    rw [this]; exact ha
theorem G8.min {a b : Rat} (ha : G8 a) (hb : G8 b) : G8 (min a b) := by
  by_cases h : a ≤ b
  · have : Min.min a b = a := by grind
    rw [this]; exact ha
  · have : Min.min a b = b := by grind
    rw [this]; exact hb

theorem G8.foldl_max (l : List Rat) (a : Rat) (ha : G8 a) (hl : ∀ x ∈ l, G8 x) : G8 (l.foldl Max.max a) := by
  induction l generalizing a with
  | nil => exact ha
  | cons x l ih =>
    simp only [List.foldl_cons]
    exact ih _ (ha.max (hl x List.mem_cons_self)) (fun y hy => hl y (List.mem_cons_of_mem _ hy))

theorem G8.foldl_min (l : List Rat) (a : Rat) (ha : G8 a) (hl : ∀ x ∈ l, G8 x) : G8 (l.foldl Min.min a) := by
  induction l generalizing a with
  | nil => exact ha
  | cons x l ih =>
    simp only [List.foldl_cons]
    exact ih _ (ha.min (hl x List.mem_cons_self)) (fun y hy => hl y (List.mem_cons_of_mem _ hy))

/-- every length `max(estimate - spent, 0)` of a leaf of the calculated set is a multiple of 1/8 -/
def OnGrid : Prop := ∀ t ∈ leaves e, G8 (e.dur t)

theorem efF_grid (hg : OnGrid e) : ∀ (f : Nat) (t : Uid) (v : Rat), t ∈ leaves e → efF e f t = some v → G8 v := by
  intro f
  induction f with
  | zero => intro t v _ h; simp [efF] at h
  | succ f ih =>
    intro t v ht h
    rw [efF] at h
    simp only [Option.map_eq_some_iff] at h
    obtain ⟨ll, hll, rfl⟩ := h
    refine (G8.foldl_max ll 0 G8.zero ?_).add (hg t ht)
    intro x hx
    obtain ⟨p, hp, hpx⟩ := mapM_some_mem_inv _ _ _ hll x hx
    exact ih p x (prereqs_leaf e hp) hpx

theorem projectLen_grid (hg : OnGrid e) {len : Rat} (h : projectLen e = some len) : G8 len := by
  unfold projectLen at h
  simp only [Option.map_eq_some_iff] at h
  obtain ⟨ll, hll, rfl⟩ := h
  refine G8.foldl_max ll 0 G8.zero ?_
  intro x hx
  obtain ⟨t, ht, htx⟩ := mapM_some_mem_inv _ _ _ hll x hx
  exact efF_grid e hg _ t x ht htx

theorem lfF_grid (hg : OnGrid e) {len : Rat} (hlen : G8 len) :
    ∀ (f : Nat) (t : Uid) (v : Rat), lfF e len f t = some v → G8 v := by
  intro f
  induction f with
  | zero => intro t v h; simp [lfF] at h
  | succ f ih =>
    intro t v h
    rcases lfF_succ_some e len f t v h with ⟨_, rfl⟩ | ⟨s, ss, b, bs, hcons, hll, rfl⟩
    · exact hlen
    · have key : ∀ x ∈ b :: bs, G8 x := by
        intro x hx
        obtain ⟨a, ha, hax⟩ := mapM_some_mem_inv _ _ _ hll x hx
        simp only [Option.map_eq_some_iff] at hax
        obtain ⟨l0, hl0, rfl⟩ := hax
        rw [← hcons] at ha
        exact (ih a l0 hl0).sub (hg a ((mem_succsOf e t a).mp ha).1)
      exact G8.foldl_min bs b (key b List.mem_cons_self) (fun x hx => key x (List.mem_cons_of_mem _ hx))

/-- on the grid of eighths and below a project length of 10^8 the float test of the source is the exact test -/
theorem tolExact_of_grid (hg : OnGrid e) (hlt : ∀ len, projectLen e = some len → len < 100000000) : TolExact e := by
  intro len hlen t ht f l hf hl
  have hG : G8 (l - (f - e.dur t) - e.dur t) :=
    ((lfF_grid e hg (projectLen_grid e hg hlen) _ t l hl).sub ((efF_grid e hg _ t f ht hf).sub (hg t ht))).sub (hg t ht)
  obtain ⟨k, hk⟩ := hG
  have hl8 := hlt len hlen
  generalize l - (f - e.dur t) - e.dur t = r at hk ⊢
  constructor
  · intro h
    have h1 : 8 * r < 1 ∧ -1 < 8 * r := by grind
    rw [hk] at h1
    have a : (k : Rat) < ((1 : Int) : Rat) := by simpa using h1.1
    have b : (((-1 : Int)) : Rat) < (k : Rat) := by simpa using h1.2
    rw [Rat.intCast_lt_intCast] at a b
    have : k = 0 := by omega
    subst this
    grind
  · intro h
    subst h
    grind

end grid

end Pj.CritPathSrc
