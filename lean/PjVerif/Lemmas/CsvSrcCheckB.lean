/-
  Lemmas/CsvSrcCheckB.lean — STAGE 2, kernel-checked: `write_csv` (translated, with `tasks_to_raws` and `TaskRaw`) on
  concrete WBSs writes exactly the text of the model: `writeCsv (recsOf L W)` - header with the custom columns in
  first-seen order (`min_start` first), one row per task in `wbs.tasks` order with parent id and predecessor ids, the
  csv dialect of Model/Csv.lean.
-/
import PjVerif.Lemmas.CsvSrcCheck
namespace Pj.CsvSrc.Check
open Pj.PyLite Pj.Extracted.Csv Pj.Csv Pj.CsvSrc


example : interpWrite sampleLib FF w1 = .ok (writeCsv (recsOf sampleLib w1)) := by decide +kernel
example : interpWrite sampleLib FF w0 = .ok (writeCsv (recsOf sampleLib w0)) := by decide +kernel
example : interpWrite sampleLib FF w2 = .ok (writeCsv (recsOf sampleLib w2)) := by decide +kernel

/-- the text itself -/
example : interpWrite sampleLib FF w2 = .ok
    "id;name;resource;start;end;estimate;spent;milestone;parent_id;predecessor_ids;min_start\r\n1;;;;;;;False;;;\r\n".toList := by
  decide +kernel

/-- the header of `w1`: standard columns, then `min_start`, then the custom columns in first-seen order -/
example : ((fileRows (recsOf sampleLib w1)).head?.map (·.drop 10)) =
    some (["min_start", "prio", "flag", "note", "ratio", "when", "opt"].map String.toList) := by decide +kernel

/-- too little fuel: RecursionError -/
example : interpWrite sampleLib 1 w2 = .error (.crash .recursion) := by decide +kernel

end Pj.CsvSrc.Check
