/-
  Lemmas/FacadeSrcMono.lean — extending a PROGRAM keeps what was proved about it.

  The list facades of task.py are translated as FURTHER functions of the program task.py (Extracted/FacadeSrc.lean:
  `facadeFuns` = the new functions, and `taskFuns` for the old ones); the library primitives get more meanings
  (`__getattribute__`, `str`, `join`).  The theorems of Lemmas/TaskSrc*.lean are about runs of `progH taskPrim taskFuns`.
  This file shows that they carry over:

      `progH_mono`   if the table `tbl'` extends `tbl` and `prim'` refines `prim`, then every call that does not end
                     STUCK under `progH prim tbl F` has the same result under `progH prim' tbl' F`.

  (`stuck` = `.crash .other` is how a run leaves the modelled fragment - in particular the call of a function that the
  table does not define, and a primitive without meaning.)  The proof is one induction over the pass layer of PyLite:
  `RLe r r'` ("`r` is stuck or `r' = r`") is preserved by every construct (`evalP_mono`, `execP_mono`).

  One construct of the merged language (wbs constructs) does NOT preserve it: `tryExcept body exc handler` with
  `exc = stuck` would CATCH the run that leaves the fragment and turn it into an ordinary result, which an extension of
  the program need not reproduce.  `Stmt.noCatchStuck` / `noCatchStuckL` (a decidable syntactic predicate: no
  `try … except` of the statement names `stuck` = `.crash .other` as the exception it handles) excludes that; the
  theorems about statements and programs are stated for bodies with this property (`TblOk`).  No translator emits such
  a handler (`except StopIteration` is the only one of wbs.py), and the check is `decide` for a concrete program.
-/
import PjVerif.Model.PyLite
namespace Pj.FacadeSrc
open Pj.PyLite
set_option linter.unusedSimpArgs false
set_option linter.unusedVariables false

/-- `r'` refines `r`: the same result, unless `r` is stuck -/
def RLe {α : Type} (r r' : Res α) : Prop := r = .error stuck ∨ r' = r

theorem RLe.refl {α : Type} (r : Res α) : RLe r r := Or.inr rfl

theorem RLe.bind {α β : Type} {x x' : Res α} {f f' : α → Res β} (hx : RLe x x') (hf : ∀ a, RLe (f a) (f' a)) :
    RLe (x >>= f) (x' >>= f') := by
  rcases hx with hx | hx
  · left; rw [hx]; rfl
  · rw [hx]
    cases x with
    | error e => exact Or.inr rfl
    | ok a => exact hf a

/-- the handlers `H'` refine the handlers `H` -/
structure HLe (H H' : PHandlers) : Prop where
  clock : H'.clock = H.clock
  call : ∀ m as L, RLe (H.call m as L) (H'.call m as L)
  newResource : ∀ a, RLe (H.newResource a) (H'.newResource a)
  prim : ∀ n as st, RLe (H.prim n as st) (H'.prim n as st)
  fn : ∀ k as st, RLe (H.fn k as st) (H'.fn k as st)
  fnV : ∀ k as st, RLe (H.fnV k as st) (H'.fnV k as st)

/-! ### the loops of comprehensions -/

theorem compLoopP_mono {f f' : Atom → PState → Res (Option Atom × PState)} (hf : ∀ v st, RLe (f v st) (f' v st)) :
    ∀ vs st, RLe (compLoopP f vs st) (compLoopP f' vs st) := by
  intro vs
  induction vs with
  | nil => intro st; exact RLe.refl _
  | cons v vs ih =>
    intro st
    simp only [compLoopP]
    refine RLe.bind (hf v st) (fun a => ?_)
    refine RLe.bind (ih _) (fun b => ?_)
    exact RLe.refl _

theorem flatLoopP_mono {f f' : Atom → PState → Res (List Atom × PState)} (hf : ∀ v st, RLe (f v st) (f' v st)) :
    ∀ vs st, RLe (flatLoopP f vs st) (flatLoopP f' vs st) := by
  intro vs
  induction vs with
  | nil => intro st; exact RLe.refl _
  | cons v vs ih =>
    intro st
    simp only [flatLoopP]
    refine RLe.bind (hf v st) (fun a => ?_)
    refine RLe.bind (ih _) (fun b => ?_)
    exact RLe.refl _

theorem anyLoopP_mono {f f' : Atom → PState → Res (Bool × PState)} (hf : ∀ v st, RLe (f v st) (f' v st)) :
    ∀ vs st, RLe (anyLoopP f vs st) (anyLoopP f' vs st) := by
  intro vs
  induction vs with
  | nil => intro st; exact RLe.refl _
  | cons v vs ih =>
    intro st
    simp only [anyLoopP]
    refine RLe.bind (hf v st) (fun a => ?_)
    split
    · exact RLe.refl _
    · exact ih _

theorem nextLoopP_mono {f f' : Atom → PState → Res (Option Atom × PState)} (hf : ∀ v st, RLe (f v st) (f' v st)) :
    ∀ vs st, RLe (nextLoopP f vs st) (nextLoopP f' vs st) := by
  intro vs
  induction vs with
  | nil => intro st; exact RLe.refl _
  | cons v vs ih =>
    intro st
    simp only [nextLoopP]
    refine RLe.bind (hf v st) (fun a => ?_)
    split
    · exact RLe.refl _
    · exact ih _

theorem pairLoopP_mono {f f' : Atom → PState → Res (Option (Atom × Atom) × PState)}
    (hf : ∀ v st, RLe (f v st) (f' v st)) :
    ∀ vs st, RLe (pairLoopP f vs st) (pairLoopP f' vs st) := by
  intro vs
  induction vs with
  | nil => intro st; exact RLe.refl _
  | cons v vs ih =>
    intro st
    simp only [pairLoopP]
    refine RLe.bind (hf v st) (fun a => ?_)
    refine RLe.bind (ih _) (fun b => ?_)
    exact RLe.refl _

/-! ### expressions -/

/-- one step of the proof that a construct preserves `RLe`: a leaf, a `bind`, a comprehension loop, a case split -/
syntax "rle_step" : tactic
macro_rules
  | `(tactic| rle_step) => `(tactic| first
      | exact RLe.refl _
      | assumption
      | apply_assumption
      | (refine RLe.bind ?_ (fun _ => ?_))
      | (apply compLoopP_mono; intro _ _)
      | (apply flatLoopP_mono; intro _ _)
      | (apply anyLoopP_mono; intro _ _)
      | (apply nextLoopP_mono; intro _ _)
      | (apply pairLoopP_mono; intro _ _)
      | split)

syntax "rle" : tactic
macro_rules
  | `(tactic| rle) => `(tactic| repeat rle_step)

syntax "ecase" : tactic
macro_rules
  | `(tactic| ecase) => `(tactic|
      (refine ⟨fun env st => ?_, fun env st => ?_⟩ <;> simp only [Expr.evalP, Expr.evalArgsP] <;> rle))

theorem evalP_mono {H H' : PHandlers} (h : HLe H H') (self : Env) : ∀ (e : Expr),
    (∀ env st, RLe (e.evalP H self env st) (e.evalP H' self env st)) ∧
    (∀ env st, RLe (e.evalArgsP H self env st) (e.evalArgsP H' self env st)) := by
  have hcall := h.call
  have hnew := h.newResource
  have hprim := h.prim
  have hfn := h.fn
  have hfnV := h.fnV
  have hclock := h.clock
  intro e
  induction e with
  | none => ecase
  | num q => ecase
  | bool b => ecase
  | var x => ecase
  | self => ecase
  | field f => ecase
  | isNone e ih_e=> obtain ⟨ih_e, ih_e'⟩ := ih_e; ecase
  | isNotNone e ih_e=> obtain ⟨ih_e, ih_e'⟩ := ih_e; ecase
  | cmp op a b ih_a ih_b=> obtain ⟨ih_a, ih_a'⟩ := ih_a; obtain ⟨ih_b, ih_b'⟩ := ih_b; ecase
  | and a b ih_a ih_b=> obtain ⟨ih_a, ih_a'⟩ := ih_a; obtain ⟨ih_b, ih_b'⟩ := ih_b; ecase
  | or a b ih_a ih_b=> obtain ⟨ih_a, ih_a'⟩ := ih_a; obtain ⟨ih_b, ih_b'⟩ := ih_b; ecase
  | not a ih_a=> obtain ⟨ih_a, ih_a'⟩ := ih_a; ecase
  | bin op a b ih_a ih_b=> obtain ⟨ih_a, ih_a'⟩ := ih_a; obtain ⟨ih_b, ih_b'⟩ := ih_b; ecase
  | ite c a b ih_c ih_a ih_b=> obtain ⟨ih_c, ih_c'⟩ := ih_c; obtain ⟨ih_a, ih_a'⟩ := ih_a; obtain ⟨ih_b, ih_b'⟩ := ih_b; ecase
  | units c d ih_c ih_d=> obtain ⟨ih_c, ih_c'⟩ := ih_c; obtain ⟨ih_d, ih_d'⟩ := ih_d; ecase
  | dayStart d ih_d=> obtain ⟨ih_d, ih_d'⟩ := ih_d; ecase
  | timedelta days ih_days=> obtain ⟨ih_days, ih_days'⟩ := ih_days; ecase
  | weekday d ih_d=> obtain ⟨ih_d, ih_d'⟩ := ih_d; ecase
  | index d k ih_d ih_k=> obtain ⟨ih_d, ih_d'⟩ := ih_d; obtain ⟨ih_k, ih_k'⟩ := ih_k; ecase
  | isIn k d ih_k ih_d=> obtain ⟨ih_k, ih_k'⟩ := ih_k; obtain ⟨ih_d, ih_d'⟩ := ih_d; ecase
  | min a b ih_a ih_b=> obtain ⟨ih_a, ih_a'⟩ := ih_a; obtain ⟨ih_b, ih_b'⟩ := ih_b; ecase
  | timedeltaHours h ih_h=> obtain ⟨ih_h, ih_h'⟩ := ih_h; ecase
  | attr e f ih_e=> obtain ⟨ih_e, ih_e'⟩ := ih_e; ecase
  | listComp elt x it cond ih_elt ih_it ih_cond=> obtain ⟨ih_elt, ih_elt'⟩ := ih_elt; obtain ⟨ih_it, ih_it'⟩ := ih_it; obtain ⟨ih_cond, ih_cond'⟩ := ih_cond; ecase
  | sum l start ih_l ih_start=> obtain ⟨ih_l, ih_l'⟩ := ih_l; obtain ⟨ih_start, ih_start'⟩ := ih_start; ecase
  | app param body arg ih_body ih_arg=> obtain ⟨ih_body, ih_body'⟩ := ih_body; obtain ⟨ih_arg, ih_arg'⟩ := ih_arg; ecase
  | rows => ecase
  | mkRow r d t u ih_r ih_d ih_t ih_u=> obtain ⟨ih_r, ih_r'⟩ := ih_r; obtain ⟨ih_d, ih_d'⟩ := ih_d; obtain ⟨ih_t, ih_t'⟩ := ih_t; obtain ⟨ih_u, ih_u'⟩ := ih_u; ecase
  | nearest c d dir ih_c ih_d ih_dir=> obtain ⟨ih_c, ih_c'⟩ := ih_c; obtain ⟨ih_d, ih_d'⟩ := ih_d; obtain ⟨ih_dir, ih_dir'⟩ := ih_dir; ecase
  | reserved r d t ih_r ih_d ih_t=> obtain ⟨ih_r, ih_r'⟩ := ih_r; obtain ⟨ih_d, ih_d'⟩ := ih_d; obtain ⟨ih_t, ih_t'⟩ := ih_t; ecase
  | datetime t => ecase
  | now =>
    exact ⟨fun env st => by simp only [Expr.evalP, hclock]; exact RLe.refl _,
      fun env st => by simp only [Expr.evalArgsP]; exact RLe.refl _⟩
  | listNil => ecase
  | listCons a l ih_a ih_l=> obtain ⟨ih_a, ih_a'⟩ := ih_a; obtain ⟨ih_l, ih_l'⟩ := ih_l; ecase
  | len l ih_l=> obtain ⟨ih_l, ih_l'⟩ := ih_l; ecase
  | max a b ih_a ih_b=> obtain ⟨ih_a, ih_a'⟩ := ih_a; obtain ⟨ih_b, ih_b'⟩ := ih_b; ecase
  | max3 a b c ih_a ih_b ih_c=> obtain ⟨ih_a, ih_a'⟩ := ih_a; obtain ⟨ih_b, ih_b'⟩ := ih_b; obtain ⟨ih_c, ih_c'⟩ := ih_c; ecase
  | maxList l ih_l=> obtain ⟨ih_l, ih_l'⟩ := ih_l; ecase
  | minList l ih_l=> obtain ⟨ih_l, ih_l'⟩ := ih_l; ecase
  | isSame a b ih_a ih_b=> obtain ⟨ih_a, ih_a'⟩ := ih_a; obtain ⟨ih_b, ih_b'⟩ := ih_b; ecase
  | calcHas e ih_e=> obtain ⟨ih_e, ih_e'⟩ := ih_e; ecase
  | resSetdefault k ih_k=> obtain ⟨ih_k, ih_k'⟩ := ih_k; ecase
  | callSelf m args ih_args=> obtain ⟨ih_args, ih_args'⟩ := ih_args; ecase
  | reversed l ih_l=> obtain ⟨ih_l, ih_l'⟩ := ih_l; ecase
  | idOf e ih_e=> obtain ⟨ih_e, ih_e'⟩ := ih_e; ecase
  | prim name args ih_args=> obtain ⟨ih_args, ih_args'⟩ := ih_args; ecase
  | fnRef k => ecase
  | callVal f args ih_f ih_args=> obtain ⟨ih_f, ih_f'⟩ := ih_f; obtain ⟨ih_args, ih_args'⟩ := ih_args; ecase
  | newBox l ih_l=> obtain ⟨ih_l, ih_l'⟩ := ih_l; ecase
  | items b ih_b=> obtain ⟨ih_b, ih_b'⟩ := ih_b; ecase
  | listOf e ih_e=> obtain ⟨ih_e, ih_e'⟩ := ih_e; ecase
  | flatComp inner x it cond ih_inner ih_it ih_cond=> obtain ⟨ih_inner, ih_inner'⟩ := ih_inner; obtain ⟨ih_it, ih_it'⟩ := ih_it; obtain ⟨ih_cond, ih_cond'⟩ := ih_cond; ecase
  | anyComp elt x it cond ih_elt ih_it ih_cond=> obtain ⟨ih_elt, ih_elt'⟩ := ih_elt; obtain ⟨ih_it, ih_it'⟩ := ih_it; obtain ⟨ih_cond, ih_cond'⟩ := ih_cond; ecase
  | range3 lo hi step ih_lo ih_hi ih_step=> obtain ⟨ih_lo, ih_lo'⟩ := ih_lo; obtain ⟨ih_hi, ih_hi'⟩ := ih_hi; obtain ⟨ih_step, ih_step'⟩ := ih_step; ecase
  | listIndex l i ih_l ih_i=> obtain ⟨ih_l, ih_l'⟩ := ih_l; obtain ⟨ih_i, ih_i'⟩ := ih_i; ecase
  | typeIs e ty ih_e=> obtain ⟨ih_e, ih_e'⟩ := ih_e; ecase
  | setOf l ih_l=> obtain ⟨ih_l, ih_l'⟩ := ih_l; ecase
  | setInter a b ih_a ih_b=> obtain ⟨ih_a, ih_a'⟩ := ih_a; obtain ⟨ih_b, ih_b'⟩ := ih_b; ecase
  | callFn k args ih_args=> obtain ⟨ih_args, ih_args'⟩ := ih_args; ecase
  | dictComp k v x it cond ih_k ih_v ih_it ih_cond=> obtain ⟨ih_k, ih_k'⟩ := ih_k; obtain ⟨ih_v, ih_v'⟩ := ih_v; obtain ⟨ih_it, ih_it'⟩ := ih_it; obtain ⟨ih_cond, ih_cond'⟩ := ih_cond; ecase
  | dictGet d k ih_d ih_k=> obtain ⟨ih_d, ih_d'⟩ := ih_d; obtain ⟨ih_k, ih_k'⟩ := ih_k; ecase
  | dictIndex d k ih_d ih_k=> obtain ⟨ih_d, ih_d'⟩ := ih_d; obtain ⟨ih_k, ih_k'⟩ := ih_k; ecase
  | dictValues d ih_d=> obtain ⟨ih_d, ih_d'⟩ := ih_d; ecase
  | nextComp elt x it cond ih_elt ih_it ih_cond=> obtain ⟨ih_elt, ih_elt'⟩ := ih_elt; obtain ⟨ih_it, ih_it'⟩ := ih_it; obtain ⟨ih_cond, ih_cond'⟩ := ih_cond; ecase
  | listInsert l i e ih_l ih_i ih_e=> obtain ⟨ih_l, ih_l'⟩ := ih_l; obtain ⟨ih_i, ih_i'⟩ := ih_i; obtain ⟨ih_e, ih_e'⟩ := ih_e; ecase
  | listRemove l e ih_l ih_e=> obtain ⟨ih_l, ih_l'⟩ := ih_l; obtain ⟨ih_e, ih_e'⟩ := ih_e; ecase
  | indexOf l e ih_l ih_e=> obtain ⟨ih_l, ih_l'⟩ := ih_l; obtain ⟨ih_e, ih_e'⟩ := ih_e; ecase
  | sortedBy key x l rev ih_key ih_l ih_rev=> obtain ⟨ih_key, ih_key'⟩ := ih_key; obtain ⟨ih_l, ih_l'⟩ := ih_l; obtain ⟨ih_rev, ih_rev'⟩ := ih_rev; ecase
  | typeIsS e ty ih_e=> obtain ⟨ih_e, ih_e'⟩ := ih_e; ecase
  | construct k args ih_args=> obtain ⟨ih_args, ih_args'⟩ := ih_args; ecase
  | dictNil => ecase
  | dictSet d k v ih_d ih_k ih_v=> obtain ⟨ih_d, ih_d'⟩ := ih_d; obtain ⟨ih_k, ih_k'⟩ := ih_k; obtain ⟨ih_v, ih_v'⟩ := ih_v; ecase
  | dictHas k d ih_k ih_d=> obtain ⟨ih_k, ih_k'⟩ := ih_k; obtain ⟨ih_d, ih_d'⟩ := ih_d; ecase
  | abs e ih_e=> obtain ⟨ih_e, ih_e'⟩ := ih_e; ecase

theorem evalP_le {H H' : PHandlers} (h : HLe H H') (self : Env) (e : Expr) (env : Env) (st : PState) :
    RLe (e.evalP H self env st) (e.evalP H' self env st) := (evalP_mono h self e).1 env st

/-! ### statements -/

/-- the same for outcomes -/
def OLe (o o' : OutcomeP) : Prop := o = .raise stuck ∨ o' = o

theorem OLe.refl (o : OutcomeP) : OLe o o := Or.inr rfl

theorem forLoopP_mono (x : String) {body body' : Env → PState → OutcomeP} (hb : ∀ env st, OLe (body env st) (body' env st)) :
    ∀ vs env st, OLe (forLoopP x body vs env st) (forLoopP x body' vs env st) := by
  intro vs
  induction vs with
  | nil => intro env st; exact OLe.refl _
  | cons v vs ih =>
    intro env st
    simp only [forLoopP]
    rcases hb (env.set x v) st with hs | he
    · left; rw [hs]
    · rw [he]
      cases body (env.set x v) st with
      | normal env' st' => exact ih env' st'
      | cont env' st' => exact ih env' st'
      | ret v st' => exact OLe.refl _
      | raise e => exact OLe.refl _

/-- the loop of `forLive`: the checks of the live list read the same states on both sides -/
theorem forLiveLoopP_mono (x : String) (i : Nat) (f : String) (snap : List Atom) {body body' : Env → PState → OutcomeP}
    (hb : ∀ env st, OLe (body env st) (body' env st)) :
    ∀ vs env st, OLe (forLiveLoopP x i f snap body vs env st) (forLiveLoopP x i f snap body' vs env st) := by
  intro vs
  induction vs with
  | nil => intro env st; exact OLe.refl _
  | cons v vs ih =>
    intro env st
    simp only [forLiveLoopP]
    split
    · rcases hb (env.set x v) st with hs | he
      · left; rw [hs]
      · rw [he]
        cases body (env.set x v) st with
        | normal env' st' => exact ih env' st'
        | cont env' st' => exact ih env' st'
        | ret v st' => exact OLe.refl _
        | raise e => exact OLe.refl _
    · exact OLe.refl _

/-! `try … except <exc>` with `exc = stuck` is the one construct that does not preserve `OLe` (it catches the run that
    leaves the fragment): the syntactic predicate "no handler of the statement handles `stuck`" -/
mutual
def _root_.Pj.PyLite.Stmt.noCatchStuck : Stmt → Bool
  | .ifElse _ t e => noCatchStuckL t && noCatchStuckL e
  | .forIn _ _ body => noCatchStuckL body
  | .while _ body => noCatchStuckL body
  | .forRange _ _ _ body => noCatchStuckL body
  | .tryExcept body exc handler => !(decide (exc = stuck)) && noCatchStuckL body && noCatchStuckL handler
  | .forLive _ _ _ body => noCatchStuckL body
  | _ => true
def noCatchStuckL : List Stmt → Bool
  | [] => true
  | s :: ss => s.noCatchStuck && noCatchStuckL ss
end

syntax "ole" : tactic
macro_rules
  | `(tactic| ole) => `(tactic| repeat (first | exact OLe.refl _ | assumption | apply_assumption | split))

/-- a statement whose first step is the evaluation `A` (under `H`) / `B` (under `H'`) of the same expressions -/
syntax "scase " term ", " term : tactic
macro_rules
  | `(tactic| scase $A, $B) => `(tactic|
      (have key : RLe $A $B := by rle
       rcases key with hs | he
       · left; simp only [Stmt.execP, hs]
       · simp only [Stmt.execP, he]; ole))

mutual
theorem execP_mono {H H' : PHandlers} (h : HLe H H') (self : Env) (rec : List Atom → PState → Res (Val × PState)) :
    ∀ (s : Stmt), s.noCatchStuck = true → ∀ (env : Env) (st : PState),
      OLe (s.execP H self rec env st) (s.execP H' self rec env st)
  | .assign x e, hnc, env, st => by
    have := evalP_le h self e
    scase e.evalP H self env st, e.evalP H' self env st
  | .aug x op e, hnc, env, st => by
    have := evalP_le h self e
    simp only [Stmt.execP]
    split
    · exact OLe.refl _
    · rcases evalP_le h self e env st with hs | he
      · left; simp only [hs]
      · simp only [he]; ole
  | .ifElse c t e, hnc, env, st => by
    have := evalP_le h self c
    simp only [Stmt.noCatchStuck, Bool.and_eq_true] at hnc
    have iht := execBlockP_mono h self rec t hnc.1
    have ihe := execBlockP_mono h self rec e hnc.2
    scase (do let (v, st') ← c.evalP H self env st; pure ((← truthP v), st')),
      (do let (v, st') ← c.evalP H' self env st; pure ((← truthP v), st'))
  | .forIn x e body, hnc, env, st => by
    have := evalP_le h self e
    simp only [Stmt.noCatchStuck] at hnc
    have ihb := execBlockP_mono h self rec body hnc
    have key : RLe (do let (v, st') ← e.evalP H self env st; pure ((← iterOf v), st'))
        (do let (v, st') ← e.evalP H' self env st; pure ((← iterOf v), st')) := by rle
    rcases key with hs | he
    · left; simp only [Stmt.execP, hs]
    · simp only [Stmt.execP, he]
      split
      · exact forLoopP_mono x (fun env st => ihb env st) _ _ _
      · exact OLe.refl _
  | .while c body, hnc, env, st => by simp only [Stmt.execP]; exact OLe.refl _
  | .raiseRuntime, hnc, env, st => by simp only [Stmt.execP]; exact OLe.refl _
  | .continue, hnc, env, st => by simp only [Stmt.execP]; exact OLe.refl _
  | .ret e, hnc, env, st => by
    have := evalP_le h self e
    scase e.evalP H self env st, e.evalP H' self env st
  | .pass, hnc, env, st => by simp only [Stmt.execP]; exact OLe.refl _
  | .forRange x lo hi body, hnc, env, st => by simp only [Stmt.execP]; exact OLe.refl _
  | .rowsAppend e, hnc, env, st => by simp only [Stmt.execP]; exact OLe.refl _
  | .resReserve c d t u, hnc, env, st => by simp only [Stmt.execP]; exact OLe.refl _
  | .augReserve x op r d t u, hnc, env, st => by simp only [Stmt.execP]; exact OLe.refl _
  | .setAttr o f e, hnc, env, st => by
    have := evalP_le h self e
    have := evalP_le h self o
    scase (do
        let (v, st) ← e.evalP H self env st
        let (ov, st) ← o.evalP H self env st
        pure (v, ov, st)),
      (do
        let (v, st) ← e.evalP H' self env st
        let (ov, st) ← o.evalP H' self env st
        pure (v, ov, st))
  | .calcAppend e, hnc, env, st => by
    have := evalP_le h self e
    scase e.evalP H self env st, e.evalP H' self env st
  | .recurse args, hnc, env, st => by
    simp only [Stmt.execP]
    rcases evalP_le h self args env st with hs | he
    · left; simp only [hs, bind, Except.bind]
    · simp only [he]; exact OLe.refl _
  | .expr e, hnc, env, st => by
    have := evalP_le h self e
    scase e.evalP H self env st, e.evalP H' self env st
  | .boxAppend b e, hnc, env, st => by
    have := evalP_le h self e
    have := evalP_le h self b
    scase (do
        let (bv, st) ← b.evalP H self env st
        let (v, st) ← e.evalP H self env st
        pure (bv, v, st)),
      (do
        let (bv, st) ← b.evalP H' self env st
        let (v, st) ← e.evalP H' self env st
        pure (bv, v, st))
  | .boxPop b, hnc, env, st => by
    have := evalP_le h self b
    scase b.evalP H self env st, b.evalP H' self env st
  | .ledgerNew, hnc, env, st => by simp only [Stmt.execP]; exact OLe.refl _
  | .calcNew, hnc, env, st => by simp only [Stmt.execP]; exact OLe.refl _
  | .attrAppend o f e, hnc, env, st => by
    have := evalP_le h self e
    have := evalP_le h self o
    scase (do
        let (ov, st) ← o.evalP H self env st
        let (v, st) ← e.evalP H self env st
        pure (ov, v, st)),
      (do
        let (ov, st) ← o.evalP H' self env st
        let (v, st) ← e.evalP H' self env st
        pure (ov, v, st))
  | .attrRemove o f e, hnc, env, st => by
    have := evalP_le h self e
    have := evalP_le h self o
    scase (do
        let (ov, st) ← o.evalP H self env st
        let (v, st) ← e.evalP H self env st
        pure (ov, v, st)),
      (do
        let (ov, st) ← o.evalP H' self env st
        let (v, st) ← e.evalP H' self env st
        pure (ov, v, st))
  | .attrClear o f, hnc, env, st => by
    have := evalP_le h self o
    scase o.evalP H self env st, o.evalP H' self env st
  | .tryExcept body exc handler, hnc, env, st => by
    simp only [Stmt.noCatchStuck, Bool.and_eq_true, Bool.not_eq_true', decide_eq_false_iff_not] at hnc
    obtain ⟨⟨hexc, hb⟩, hh⟩ := hnc
    have ihb := execBlockP_mono h self rec body hb env st
    have ihh := execBlockP_mono h self rec handler hh env st
    simp only [Stmt.execP]
    rcases ihb with hs | he
    · left
      rw [hs]
      simp only []
      rw [if_neg (fun hc => hexc hc.symm)]
    · rw [he]
      split
      · split
        · exact ihh
        · exact OLe.refl _
      · exact OLe.refl _
  | .forLive x o f body, hnc, env, st => by
    simp only [Stmt.noCatchStuck] at hnc
    have ihb := execBlockP_mono h self rec body hnc
    simp only [Stmt.execP]
    rcases evalP_le h self o env st with hs | he
    · left; simp only [hs]
    · simp only [he]
      split
      · split
        · exact forLiveLoopP_mono x _ f _ (fun env st => ihb env st) _ _ _
        · exact OLe.refl _
        · exact OLe.refl _
        · exact OLe.refl _
      · exact OLe.refl _
      · exact OLe.refl _
      · exact OLe.refl _

theorem execBlockP_mono {H H' : PHandlers} (h : HLe H H') (self : Env) (rec : List Atom → PState → Res (Val × PState)) :
    ∀ (ss : List Stmt), noCatchStuckL ss = true → ∀ (env : Env) (st : PState),
      OLe (execBlockP H self rec ss env st) (execBlockP H' self rec ss env st)
  | [], hnc, env, st => by simp only [execBlockP]; exact OLe.refl _
  | s :: ss, hnc, env, st => by
    simp only [noCatchStuckL, Bool.and_eq_true] at hnc
    have h1 := execP_mono h self rec s hnc.1 env st
    have h2 := execBlockP_mono h self rec ss hnc.2
    simp only [execBlockP]
    rcases h1 with hs | he
    · left; rw [hs]
    · rw [he]
      cases s.execP H self rec env st with
      | normal env' st' => exact h2 env' st'
      | cont env' st' => exact OLe.refl _
      | ret v st' => exact OLe.refl _
      | raise e => exact OLe.refl _
end

/-! ### programs -/

theorem callPV_mono {H H' : PHandlers} (h : HLe H H') (params : List String) (body : List Stmt)
    (hnc : noCatchStuckL body = true) (args : List Val)
    (st : PState) : RLe (callPV H params body args st) (callPV H' params body args st) := by
  unfold callPV
  split
  · exact RLe.refl _
  · rcases execBlockP_mono h [] (fun _ _ => throw stuck) body hnc _ st with hs | he
    · left; rw [hs]; rfl
    · rw [he]; exact RLe.refl _

/-- the table `tbl'` extends `tbl` -/
def TblLe (tbl tbl' : FunTable) : Prop := ∀ k x, tbl k = some x → tbl' k = some x

/-- no function of the table handles `stuck` in a `try … except` (`Stmt.noCatchStuck`) -/
def TblOk (tbl : FunTable) : Prop := ∀ k params body, tbl k = some (params, body) → noCatchStuckL body = true

/-- the primitives `prim'` refine `prim` -/
def PrimLe (prim prim' : String → List Atom → PState → Res Val) : Prop :=
  ∀ n as st, RLe (prim n as st) (prim' n as st)

theorem progH_HLe {prim prim' : String → List Atom → PState → Res Val} {tbl tbl' : FunTable}
    (hp : PrimLe prim prim') (ht : TblLe tbl tbl') (hok : TblOk tbl) : ∀ F, HLe (progH prim tbl F) (progH prim' tbl' F)
  | 0 =>
    { clock := rfl, call := fun _ _ _ => RLe.refl _, newResource := fun _ => RLe.refl _, prim := hp,
      fn := fun _ _ _ => RLe.refl _, fnV := fun _ _ _ => RLe.refl _ }
  | F + 1 =>
    { clock := rfl, call := fun _ _ _ => RLe.refl _, newResource := fun _ => RLe.refl _, prim := hp,
      fn := fun _ _ _ => RLe.refl _,
      fnV := fun k args st => by
        simp only [progH]
        cases hk : tbl k with
        | none => exact Or.inl rfl
        | some x =>
          obtain ⟨params, body⟩ := x
          rw [ht k _ hk]
          exact callPV_mono (progH_HLe hp ht hok F) params body (hok k params body hk) args st }

/-- EXTENDING A PROGRAM: a call that is not stuck in the program `tbl` with the primitives `prim` has the same result
    in every extension (`hok`: no `try … except` of `tbl` handles `stuck`) -/
theorem progH_mono {prim prim' : String → List Atom → PState → Res Val} {tbl tbl' : FunTable}
    (hp : PrimLe prim prim') (ht : TblLe tbl tbl') (hok : TblOk tbl) (F k : Nat) (args : List Val) (st : PState) (r : Res (Val × PState))
    (hr : (progH prim tbl F).fnV k args st = r) (hns : r ≠ .error stuck) :
    (progH prim' tbl' F).fnV k args st = r := by
  rcases (progH_HLe hp ht hok F).fnV k args st with hs | he
  · rw [hr] at hs; exact absurd hs hns
  · rw [he, hr]

end Pj.FacadeSrc
