/-
  Lemmas/RenderSrc.lean — THE MERMAID RENDERERS (viz/mermaid/network.py, gantt.py): the hand-written model of the two
  sources (Model/Render.lean: `escLabel`, `nodeLabel`, `networkSrc`, `stateOf`, `ganttLine`, `ganttSrc`) against the
  interpretation of the CURRENT SOURCE of

    MermaidNetwork.__label   __src          MermaidGantt.__mermaid_task_state   __mermaid_task   __src

  (Extracted/RenderSrc.lean, regenerated from src/pjplan/viz/mermaid/*.py by tools/extract_render.py on every check).
  The five functions form a PROGRAM (`renderFuns`), run by `progH (renderPrim S V pts) renderFuns F` (Model/PyLite.lean:
  every call costs one unit of the fuel `F`).  Model/PyLite.lean is NOT changed: every string operation is a library
  primitive (`prim`) with the meaning stated below.  The DHTMLX renderer and the HTML templates are out of scope.

  Files.  This file: the encoding, the primitives, the entry points.  RenderSrcCheck.lean / RenderSrcCheckB.lean: stage 1,
  the kernel-checked concrete runs.  RenderSrcA.lean: stage 2 (network), RenderSrcB.lean: stage 3 (Gantt), the general
  theorems; the summary and the NEGATIVE CHECK are the comment block at the end of RenderSrcB.lean.

  Setting.
  * STRINGS are atoms `.str k`; the string library `S : Lib` of Lemmas/PrintSrc.lean relates keys and texts (`S.I`, `S.D`,
    hypothesis `S.OK : ∀ s, S.D (S.I s) = s`), `S.text a` is Python's `str(a)` (`S.strOf` on values that are not strs),
    `S.fmt t` is `t.strftime('%d.%m.%Y %H:%M')`.  `a + b` is "concat", `s.replace(a, b)` is "replace" = `pyReplace`
    (below: left to right, non-overlapping, `a` not empty), f-strings and `'…{}…'.format(…)` are "concat"s of "str"s.
  * A TASK object is `ref t`, described by `pts : Nat → RTask` (`id`: any value; `name`: a str; `milestone`: a bool; `start`,
    `end_`: datetimes (the task is scheduled); `preds`: the predecessor list; `dict`: the entries of `__dict__`
    (name ↦ value)).  `t.network_bar_style` / `t.gantt_section` is the value stored in `__dict__` under that name.
  * The RENDERER object (`self`) is `ref 0`; `V : View` gives what `__init__` stored: `self.wbs.tasks` (`V.tasks`),
    `self.title`, `self.weekends`, `self.tick_interval`; `V.now` is the value of `datetime.now()` (the clock is a parameter);
    `V.style a` is the text `MermaidNetwork.__dict_to_style(a)` (NOT translated; the model takes the style text as given).
  * "truth" is Python's `bool(x)` on None / a bool / a str / a number.
  * `toNTask` / `toGTask` derive what the model reads of a task.
-/
import PjVerif.Extracted.RenderSrc
import PjVerif.Model.Render
import PjVerif.Lemmas.PrintSrc
namespace Pj.RenderSrc
open Pj.PyLite Pj.Render Pj.Extracted.Render
open Pj.PrintSrc (Lib lookupA refsA one)

/-! ### `str.replace` -/

/-- `s.replace(old, new)` for a non-empty `old`: left to right, non-overlapping (`f` bounds the number of steps) -/
def replF (old new : Str) : Nat → Str → Str
  | 0, s => s
  | _ + 1, [] => []
  | f + 1, c :: cs =>
    if old.isPrefixOf (c :: cs) then new ++ replF old new f ((c :: cs).drop old.length)
    else c :: replF old new f cs

def pyReplace (s old new : Str) : Str := replF old new s.length s

/-! ### tasks and the renderer object -/

structure RTask where
  id : Atom
  name : Str
  milestone : Bool
  start : Time
  end_ : Time
  preds : List Nat
  dict : List (Str × Atom)
  deriving Inhabited

structure View where
  tasks : List Nat
  title : Option Str
  weekends : Bool
  tick : Option Str
  now : Time
  style : Atom → Str

def kStyle : Str := "network_bar_style".toList
def kSection : Str := "gantt_section".toList

def toNTask (S : Lib) (V : View) (p : RTask) : NTask :=
  { idText := S.text p.id, name := p.name, preds := p.preds, style := (lookupA p.dict kStyle).map V.style }

def toGTask (S : Lib) (V : View) (p : RTask) : GTask :=
  { idText := S.text p.id, name := p.name, milestone := p.milestone, done := decide (p.end_ ≤ V.now),
    active := decide (p.start < V.now), start := S.fmt p.start, end_ := S.fmt p.end_,
    sect := (lookupA p.dict kSection).map S.text }

/-- Python's `bool(x)` -/
def pyTruth (S : Lib) : Atom → Option Bool
  | .none => some false
  | .bool b => some b
  | .str k => some (!(S.D k).isEmpty)
  | .num q => some (!decide (q = 0))
  | _ => none

/-! ### the primitives -/

def oneTask (args : List Atom) (f : Nat → Val) : Res Val :=
  match args with
  | [.ref t] => pure (f t)
  | _ => throw stuck

def renderPrim (S : Lib) (V : View) (pts : Nat → RTask) : String → List Atom → PState → Res Val := fun name args _ =>
  if name.startsWith "lit:" then
    (match args with
     | [] => pure (S.s (name.drop 4).toString.toList)
     | _ => throw stuck)
  else if name = "self.wbs" then one args (fun _ => pure (Atom.ref 0))
  else if name = "tasks" then one args (fun _ => pure (refsA V.tasks))
  else if name = "self.title" then one args (fun _ => pure (S.os V.title))
  else if name = "self.weekends" then one args (fun _ => pure (Atom.bool V.weekends))
  else if name = "self.tick_interval" then one args (fun _ => pure (S.os V.tick))
  else if name = "truth" then
    one args (fun a => match pyTruth S a with | some b => pure (Atom.bool b) | none => throw stuck)
  else if name = "datetime.now" then (match args with | [] => pure (Atom.time V.now) | _ => throw stuck)
  else if name = "name" then oneTask args (fun t => S.s (pts t).name)
  else if name = "id" then oneTask args (fun t => (pts t).id)
  else if name = "milestone" then oneTask args (fun t => Atom.bool (pts t).milestone)
  else if name = "start" then oneTask args (fun t => Atom.time (pts t).start)
  else if name = "end" then oneTask args (fun t => Atom.time (pts t).end_)
  else if name = "predecessors" then oneTask args (fun t => refsA (pts t).preds)
  else if name = "__dict__" then oneTask args (fun t => .list ((pts t).dict.map (fun p => S.s p.1)))
  else if name = "__getattribute__" then
    (match args with
     | [.ref t, .str k] =>
       match lookupA (pts t).dict (S.D k) with
       | some v => pure v
       | none => throw (.crash .attribute)
     | _ => throw stuck)
  else if name = "dict_to_style" then one args (fun a => pure (S.s (V.style a)))
  else if name = "str" then one args (fun a => pure (S.s (S.text a)))
  else if name = "concat" then
    (match args with
     | [.str a, .str b] => pure (S.s (S.D a ++ S.D b))
     | _ => throw stuck)
  else if name = "replace" then
    (match args with
     | [.str s, .str a, .str b] => if (S.D a).isEmpty then throw stuck else pure (S.s (pyReplace (S.D s) (S.D a) (S.D b)))
     | _ => throw stuck)
  else if name = "strftime:%d.%m.%Y %H:%M" then
    (match args with
     | [.time t] => pure (S.s (S.fmt t))
     | _ => throw stuck)
  else throw stuck

/-! ### entry points -/

def st0 : PState := Pj.PrintSrc.st0

abbrev Hr (S : Lib) (V : View) (pts : Nat → RTask) (F : Nat) : PHandlers := progH (renderPrim S V pts) renderFuns F

def interp (S : Lib) (V : View) (pts : Nat → RTask) (F k : Nat) (args : List Val) : Res Val :=
  (runProg (renderPrim S V pts) renderFuns F k args st0).map (·.1)

/-- `MermaidNetwork.__label(name)` -/
def interpLabel (S : Lib) (V : View) (pts : Nat → RTask) (F : Nat) (name : Str) : Res Val :=
  interp S V pts F fn_label [.atom (S.s name)]

/-- `MermaidNetwork(wbs).__src()` -/
def interpNetworkSrc (S : Lib) (V : View) (pts : Nat → RTask) (F : Nat) : Res Val :=
  interp S V pts F fn_network_src [.atom (.ref 0)]

/-- `MermaidGantt.__mermaid_task_state(t)` -/
def interpTaskState (S : Lib) (V : View) (pts : Nat → RTask) (F : Nat) (t : Nat) : Res Val :=
  interp S V pts F fn_task_state [.atom (.ref t)]

/-- `MermaidGantt(wbs, …).__mermaid_task(t)` -/
def interpGanttLine (S : Lib) (V : View) (pts : Nat → RTask) (F : Nat) (t : Nat) : Res Val :=
  interp S V pts F fn_mermaid_task [.atom (.ref 0), .atom (.ref t)]

/-- `MermaidGantt(wbs, …).__src()` -/
def interpGanttSrc (S : Lib) (V : View) (pts : Nat → RTask) (F : Nat) : Res Val :=
  interp S V pts F fn_gantt_src [.atom (.ref 0)]

/-- the model's inputs -/
def nAll (S : Lib) (V : View) (pts : Nat → RTask) : Nat → NTask := fun i => toNTask S V (pts i)
def gTasks (S : Lib) (V : View) (pts : Nat → RTask) : List GTask := V.tasks.map (fun i => toGTask S V (pts i))

end Pj.RenderSrc
