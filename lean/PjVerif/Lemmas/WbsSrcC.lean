/-
  Lemmas/WbsSrcC.lean — stage 3 of the translated tie for wbs.py (general theorem): `WBS.clone()` / `WBS.subtree(roots)`
  with `__clone`, `__clone_tasks` and its closure `link_target` = `cloneWbs` / `cloneSel` (Model/Clone.lean), for
  reachable states (`Inv`) and roots that are members of the WBS.  See Lemmas/WbsSrc.lean; the model-level part (the
  setters do not look at the not yet constructed WBS object) is Lemmas/WbsSrcM.lean, the dicts are Lemmas/WbsSrcC1.lean.
-/
import PjVerif.Lemmas.WbsSrcC1
import PjVerif.Lemmas.WbsSrcM
namespace Pj.WbsSrc
open Pj.PyLite Pj.Extracted Pj.TaskSrc
set_option linter.unusedSimpArgs false
set_option linter.unusedVariables false

variable (filt : List Atom → PState → List Uid)

/-! ### the store while the setters run: the clones exist, the new WBS object does not -/

/-- the Python state while the per-task setters run on the model state `g`: the object `X` (the hidden root of the
    new WBS) is not constructed yet, the allocation pointer stands at `X` -/
def stU (st : PState) (X : Uid) (v : Int) (g : G) : PState := setHR st (encHeap (unroot X v g)) X

theorem stU_heap (st : PState) (X : Uid) (v : Int) (g : G) : (stU st X v g).heap = encHeap (unroot X v g) := rfl
theorem stU_reads (st : PState) (X : Uid) (v : Int) (g : G) : (stU st X v g).reads = X := rfl
theorem withG_stU (st : PState) (X : Uid) (v : Int) (g g' : G) :
    withG (stU st X v g) (unroot X v g') = stU st X v g' := rfl

theorem encTask_congr (a b : G) (u : Uid) (h1 : a.tid u = b.tid u) (h2 : a.parent u = b.parent u)
    (h3 : a.children u = b.children u) (h4 : a.preds u = b.preds u) (h5 : a.succs u = b.succs u)
    (h6 : a.owner u = b.owner u) : encTask a u = encTask b u := by
  simp only [encTask, h1, h2, h3, h4, h5, h6]

theorem blank_of_ge (s : G) (hb : Bounded s) (u : Uid) (hu : s.n ≤ u) :
    s.parent u = none ∧ s.children u = [] ∧ s.preds u = [] ∧ s.succs u = [] ∧ s.owner u = none := by
  refine ⟨parent_none_of_ge s hb u hu, ?_, ?_, ?_, ?_⟩
  · cases h : s.children u with
    | nil => rfl
    | cons a l => have := (hb.children u a (h ▸ List.mem_cons_self)).1; uomega
  · cases h : s.preds u with
    | nil => rfl
    | cons a l => have := (hb.preds u a (h ▸ List.mem_cons_self)).1; uomega
  · cases h : s.succs u with
    | nil => rfl
    | cons a l => have := (hb.succs u a (h ▸ List.mem_cons_self)).1; uomega
  · cases h : s.owner u with
    | none => rfl
    | some a => have := (hb.owner u a h).1; uomega

theorem newTask_eq (g : G) (u : Uid) (i : Int) (o : Option Uid) (h1 : g.tid u = i) (h2 : g.parent u = none)
    (h3 : g.children u = []) (h4 : g.preds u = []) (h5 : g.succs u = []) (h6 : g.owner u = o) :
    newTask (.atom (idA i)) (optRef o) = encTask g u := by
  simp only [encTask, newTask, h1, h2, h3, h4, h5, h6, refs, List.map_nil, optRef_none]

/-- after the clones are constructed the store is the encoding of the extended universe without its new root -/
theorem cloneHeap_extend (s : G) (hb : Bounded s) (sel : List Uid) :
    cloneHeap s (encHeap s) s.n sel =
      encHeap (unroot (s.n + sel.length) (s.tid (s.n + sel.length)) (extend s sel)) := by
  funext u
  simp only [cloneHeap, encHeap]
  by_cases h : s.n ≤ u ∧ u < s.n + sel.length
  · rw [if_pos h]
    obtain ⟨b1, b2, b3, b4, b5⟩ := blank_of_ge s hb u h.1
    have hne : u ≠ s.n + sel.length := by uomega
    have hu : u = s.n + (u - s.n) := by uomega
    apply newTask_eq _ u _ none
    · rw [unroot_tid_ne _ _ _ _ hne]
      conv => lhs; rw [hu]
      exact extend_tid_clone s sel (u - s.n) (by uomega)
    · exact b1
    · exact b2
    · exact b3
    · exact b4
    · rw [unroot_owner_ne _ _ _ _ hne, extend_owner, if_neg hne]; exact b5
  · rw [if_neg h]
    by_cases hX : u = s.n + sel.length
    · subst hX
      obtain ⟨b1, b2, b3, b4, b5⟩ := blank_of_ge s hb (s.n + sel.length) (by uomega)
      apply encTask_congr <;> simp [unroot, upd, b5]
      all_goals rfl
    · apply encTask_congr
      · rw [unroot_tid_ne _ _ _ _ hX]
        simp only [extend]
        by_cases h1 : u < s.n
        · rw [if_pos h1]
        · rw [if_neg h1, if_neg (by uomega), if_neg hX]
      · rfl
      · rfl
      · rfl
      · rfl
      · rw [unroot_owner_ne _ _ _ _ hX, extend_owner, if_neg hX]

/-- constructing the new WBS object turns the store into the encoding of the model's state -/
theorem rootHeap (X : Uid) (v : Int) (g : G) (hI : Isolated X g) (ht : g.tid X = emptyId) (ho : g.owner X = some X) :
    (fun j => if j = X then newTask (.atom (idA emptyId)) (.ref X) else encHeap (unroot X v g) j) = encHeap g := by
  funext u
  by_cases h : u = X
  · subst h
    rw [if_pos rfl]
    exact newTask_eq g u emptyId (some u) ht hI.parent hI.children hI.preds hI.succs ho
  · rw [if_neg h]
    exact encTask_congr _ _ u (unroot_tid_ne _ _ _ _ h) rfl rfl rfl rfl (unroot_owner_ne _ _ _ _ h)

/-! ### the four setters on the unfinished store -/

theorem wf_unroot_once (X : Uid) (v : Int) (g : G) (hw : WF g) (c : Uid) :
    ∀ w q, (unroot X v g).owner c = some w → (unroot X v g).parent c = some q →
      ((unroot X v g).children q).count c ≤ 1 :=
  fun _ q _ _ => List.nodup_iff_count.1 (hw.once q) c

/-- `c.parent = q` on the unfinished store = `setParent` on the model state -/
theorem call_parent_set (st : PState) (X : Uid) (v : Int) (g : G) (hI : Isolated X g) (hw : WF g) (c : Uid)
    (q : Option Uid) (hc : c ≠ X) (hq : q ≠ some X) (hok : (setParent g c q).2 = none) (F : Nat) (hF : g.n + 7 ≤ F) :
    (Hw filt F).fnV fn_Task_parent_set [.atom (.ref c), .atom (optRef q)] (stU st X v g) =
      .ok (.atom .none, stU st X v (setParent g c q).1) := by
  obtain ⟨F, rfl⟩ : ∃ F', F = F' + 1 := ⟨F - 1, by omega⟩
  rw [fnW_base _ _ _ wf_base_parent_set]
  obtain ⟨hu, _⟩ := setParent_unroot X v g hI c q hc hq
  have := interpSetParent_eq (unroot X v g) (stU st X v g) rfl c q (F + 1) (by simp only [unroot_n]; omega)
    (fun _ => wf_unroot_once X v g hw c) (by rw [hu, hok]; simp)
  unfold interpSetParent at this
  rw [interp_eq] at this
  rw [this, hu, hok]
  rfl

theorem call_children_set (st : PState) (X : Uid) (v : Int) (g : G) (hI : Isolated X g) (c : Uid)
    (l : List Uid) (hc : c ≠ X) (hl : ∀ x ∈ l, x ≠ X) (hok : (setChildren g c l).2 = none) (F : Nat)
    (hF : g.n + 7 ≤ F) :
    (Hw filt F).fnV fn_Task_children_set [.atom (.ref c), refs l] (stU st X v g) =
      .ok (.atom .none, stU st X v (setChildren g c l).1) := by
  obtain ⟨F, rfl⟩ : ∃ F', F = F' + 1 := ⟨F - 1, by omega⟩
  rw [fnW_base _ _ _ wf_base_children_set]
  obtain ⟨hu, _⟩ := setChildren_unroot X v g hI c l hc hl
  have := interpSetChildren_eq (unroot X v g) (stU st X v g) rfl c (refs l) l (valueOf_refs l) (F + 1)
    (by simp only [unroot_n]; omega) (by rw [hu, hok]; simp)
  unfold interpSetChildren at this
  rw [interp_eq] at this
  rw [this, hu, hok]
  rfl

theorem call_preds_set (st : PState) (X : Uid) (v : Int) (g : G) (hI : Isolated X g) (c : Uid)
    (l : List Uid) (hc : c ≠ X) (hl : ∀ x ∈ l, x ≠ X) (hok : (setPreds g c l).2 = none) (F : Nat)
    (hF : g.n + 5 ≤ F) :
    (Hw filt F).fnV fn_Task_predecessors_set [.atom (.ref c), refs l] (stU st X v g) =
      .ok (.atom .none, stU st X v (setPreds g c l).1) := by
  obtain ⟨F, rfl⟩ : ∃ F', F = F' + 1 := ⟨F - 1, by omega⟩
  rw [fnW_base _ _ _ wf_base_preds_set]
  obtain ⟨hu, _⟩ := setPreds_unroot X v g hI c l hc hl
  have := interpSetPreds_eq (unroot X v g) (stU st X v g) rfl c (refs l) l (valueOf_refs l) (F + 1)
    (by simp only [unroot_n]; omega) (by rw [hu, hok]; simp)
  unfold interpSetPreds at this
  rw [interp_eq] at this
  rw [this, hu, hok]
  rfl

theorem call_succs_set (st : PState) (X : Uid) (v : Int) (g : G) (hI : Isolated X g) (c : Uid)
    (l : List Uid) (hc : c ≠ X) (hl : ∀ x ∈ l, x ≠ X) (hok : (setSuccs g c l).2 = none) (F : Nat)
    (hF : g.n + 5 ≤ F) :
    (Hw filt F).fnV fn_Task_successors_set [.atom (.ref c), refs l] (stU st X v g) =
      .ok (.atom .none, stU st X v (setSuccs g c l).1) := by
  obtain ⟨F, rfl⟩ : ∃ F', F = F' + 1 := ⟨F - 1, by omega⟩
  rw [fnW_base _ _ _ wf_base_succs_set]
  obtain ⟨hu, _⟩ := setSuccs_unroot X v g hI c l hc hl
  have := interpSetSuccs_eq (unroot X v g) (stU st X v g) rfl c (refs l) l (valueOf_refs l) (F + 1)
    (by simp only [unroot_n]; omega) (by rw [hu, hok]; simp)
  unfold interpSetSuccs at this
  rw [interp_eq] at this
  rw [this, hu, hok]
  rfl

/-! ### what the source reads while the setters run: the source tasks are unchanged -/

section reads
variable {s : G} {w : Uid} {sel : List Uid} {g : G}

theorem lt_ne_X (s : G) (sel : List Uid) (u : Uid) (hu : u < s.n) : u ≠ s.n + sel.length := by uomega

theorem _root_.Pj.Sound.tid_lt (h : Sound s w sel g) (u : Uid) (hu : u < s.n) : g.tid u = s.tid u := by
  rw [h.ci.2.2]; exact extend_tid_lt s sel u hu

theorem _root_.Pj.Sound.hidden_lt (h : Sound s w sel g) (u : Uid) (hu : u < s.n) : g.hidden u = s.hidden u := by
  rw [h.ci.hidden]; exact extend_hidden_lt s sel u hu

theorem _root_.Pj.Sound.pub_lt (h : Sound s w sel g) (ok : SelOK s w sel) (t : Uid) (ht : t < s.n) :
    g.pubParent t = s.pubParent t := by
  unfold G.pubParent
  rw [h.fr.1.parent t ht]
  cases hp : s.parent t with
  | none => rfl
  | some p => simp only [h.hidden_lt p (ok.inv.bnd.parent t p hp).2]

/-- members of the WBS `w` have ids of their own -/
theorem idInj_of_member (ok : SelOK s w sel) (x : Uid) (hx : s.owner x = some w) (hxh : s.hidden x = false) :
    IdInjOn s sel x := by
  intro a ha e
  apply Classical.byContradiction
  intro hne
  obtain ⟨oa, ha', _⟩ := ok.mem a ha
  exact ok.inv.ids a x hne ha' hxh
    ⟨w, ((owner_iff_root s ok.inv a w).mp oa).1, ((owner_iff_root s ok.inv x w).mp hx).1⟩ e

theorem idInj_of_mem (ok : SelOK s w sel) (x : Uid) (hx : x ∈ sel) : IdInjOn s sel x :=
  idInj_of_member ok x (ok.mem x hx).1 (ok.mem x hx).2.1

end reads

/-! ### the local environment of the loop of `__clone_tasks` -/

structure CtEnv (ρ : PyLite.Env) (s : G) (w : Uid) (sel : List Uid) : Prop where
  self : ρ.get? "self" = some (.atom (.ref w))
  all : ρ.get? "all_tasks" = some (.dict (allDict s sel))
  cl : ρ.get? "cloned_tasks" = some (.dict (cloneDict s s.n sel))

theorem CtEnv.set {ρ : PyLite.Env} {s : G} {w : Uid} {sel : List Uid} (hρ : CtEnv ρ s w sel) (x : String) (v : Val)
    (h1 : x ≠ "self") (h2 : x ≠ "all_tasks") (h3 : x ≠ "cloned_tasks") : CtEnv (Env.set ρ x v) s w sel :=
  ⟨by rw [Env.get?_set, if_neg h1]; exact hρ.self, by rw [Env.get?_set, if_neg h2]; exact hρ.all,
   by rw [Env.get?_set, if_neg h3]; exact hρ.cl⟩

section evals
variable {s : G} {w : Uid} {sel : List Uid} {g : G} (st : PState)

/-- `x.id` for a source task `x` -/
theorem ev_id (H : PHandlers) (h : Sound s w sel g) (ρ : PyLite.Env) (x : String) (t : Uid) (ht : t < s.n)
    (hx : ρ.get? x = some (.atom (.ref t))) :
    (Expr.attr (.var x) "id").evalP H [] ρ (stU st (s.n + sel.length) (s.tid (s.n + sel.length)) g) =
      .ok (.atom (idA (s.tid t)), stU st (s.n + sel.length) (s.tid (s.n + sel.length)) g) := by
  simp only [Expr.evalP, hx, bind, Except.bind, pure, Except.pure, stU_heap, encHeap_apply, encTask_id,
    unroot_tid_ne _ _ _ _ (lt_ne_X s sel t ht), h.tid_lt t ht]

/-- `all_tasks[x.id]` is `x` itself -/
theorem ev_all (H : PHandlers) (h : Sound s w sel g) (ok : SelOK s w sel) (ρ : PyLite.Env) (hρ : CtEnv ρ s w sel)
    (x : String) (t : Uid) (ht : t ∈ sel) (hx : ρ.get? x = some (.atom (.ref t))) :
    (Expr.dictIndex (.var "all_tasks") (.attr (.var x) "id")).evalP H [] ρ
        (stU st (s.n + sel.length) (s.tid (s.n + sel.length)) g) =
      .ok (.atom (.ref t), stU st (s.n + sel.length) (s.tid (s.n + sel.length)) g) := by
  have hid := ev_id st H h ρ x t (ok.mem t ht).2.2 hx
  simp only [Expr.evalP, hρ.all, bind, Except.bind, pure, Except.pure] at hid ⊢
  rw [hid]
  simp only [allDict_get s t sel ht (idInj_of_mem ok t ht)]

/-- `cloned_tasks[x.id]` for a task `x` whose id no other selected task carries: its clone -/
theorem ev_cl_get (y : Uid) (hy : IdInjOn s sel y) :
    Dict.get? (cloneDict s s.n sel) (idA (s.tid y)) = (cloneOf s.n sel y).map Atom.ref :=
  cloneDict_get s y sel s.n hy

theorem ev_cl (H : PHandlers) (h : Sound s w sel g) (ok : SelOK s w sel) (ρ : PyLite.Env) (hρ : CtEnv ρ s w sel)
    (x : String) (t c : Uid) (ht : t ∈ sel) (hc : cloneOf s.n sel t = some c)
    (hx : ρ.get? x = some (.atom (.ref t))) :
    (Expr.dictIndex (.var "cloned_tasks") (.attr (.var x) "id")).evalP H [] ρ
        (stU st (s.n + sel.length) (s.tid (s.n + sel.length)) g) =
      .ok (.atom (.ref c), stU st (s.n + sel.length) (s.tid (s.n + sel.length)) g) := by
  have hid := ev_id st H h ρ x t (ok.mem t ht).2.2 hx
  simp only [Expr.evalP, hρ.cl, bind, Except.bind, pure, Except.pure] at hid ⊢
  rw [hid]
  simp only [ev_cl_get t (idInj_of_mem ok t ht), hc, Option.map_some]

end evals

/-! ### the right-hand sides of the four assignments of the loop body -/

theorem evalP_attr (H : PHandlers) (self ρ : PyLite.Env) (st st' : PState) (e : Expr) (f : String) (i : Nat) (v : Val)
    (he : e.evalP H self ρ st = .ok (.atom (.ref i), st')) (hget : (st'.heap i).get? f = some v) :
    (Expr.attr e f).evalP H self ρ st = .ok (v, st') := by
  simp only [Expr.evalP, he, hget, bind, Except.bind, pure, Except.pure]

section rhs
variable {s : G} {w : Uid} {sel : List Uid} {g : G} (st : PState)

/-- `all_tasks[t.id].parent` (the public parent of the source task) -/
theorem ev_pub (F : Nat) (h : Sound s w sel g) (ok : SelOK s w sel) (hI : Isolated (s.n + sel.length) g)
    (ρ : PyLite.Env) (hρ : CtEnv ρ s w sel) (t : Uid) (ht : t ∈ sel) (hx : ρ.get? "t" = some (.atom (.ref t))) :
    (Expr.callFn fn_Task_parent_get (.listCons (.dictIndex (.var "all_tasks") (.attr (.var "t") "id")) .listNil)).evalP
        (Hw filt (F + 2)) [] ρ (stU st (s.n + sel.length) (s.tid (s.n + sel.length)) g) =
      .ok (.atom (optRef (s.pubParent t)), stU st (s.n + sel.length) (s.tid (s.n + sel.length)) g) := by
  rw [evalP_callFn1 (ha := ev_all st _ h ok ρ hρ "t" t ht hx), fnW_base _ _ _ wf_base_parent_get,
    parent_get_spec (unroot _ _ g) _ rfl (F + 1) t, unroot_pubParent _ _ _ hI, h.pub_lt ok t (ok.mem t ht).2.2]

def ctRhsParent : Expr :=
  .ite (.callFn fn_Task_parent_get (.listCons (.dictIndex (.var "all_tasks") (.attr (.var "t") "id")) .listNil))
    (.dictGet (.var "cloned_tasks") (.attr (.callFn fn_Task_parent_get
      (.listCons (.dictIndex (.var "all_tasks") (.attr (.var "t") "id")) .listNil)) "id"))
    .none

/-- `cloned_tasks.get(all_tasks[t.id].parent.id) if all_tasks[t.id].parent else None` -/
theorem ev_rhs_parent (F : Nat) (h : Sound s w sel g) (ok : SelOK s w sel) (hI : Isolated (s.n + sel.length) g)
    (ρ : PyLite.Env) (hρ : CtEnv ρ s w sel) (t : Uid) (ht : t ∈ sel) (hx : ρ.get? "t" = some (.atom (.ref t))) :
    ctRhsParent.evalP (Hw filt (F + 2)) [] ρ (stU st (s.n + sel.length) (s.tid (s.n + sel.length)) g) =
      .ok (.atom (optRef ((s.pubParent t).bind (cloneOf s.n sel))),
        stU st (s.n + sel.length) (s.tid (s.n + sel.length)) g) := by
  have hpg := ev_pub filt st F h ok hI ρ hρ t ht hx
  unfold ctRhsParent
  cases hp : s.pubParent t with
  | none =>
    rw [hp] at hpg
    simp only [Expr.evalP, Expr.evalArgsP, bind, Except.bind, pure, Except.pure] at hpg ⊢
    simp only [hpg, optRef_none, truthP, Bool.false_eq_true, if_false, Option.bind_none, pure, Except.pure]
  | some p =>
    rw [hp] at hpg
    have hpar := pubParent_some s t p hp
    have hpn : p < s.n := (ok.inv.bnd.parent t p hpar).2
    have hph : s.hidden p = false := by
      unfold G.pubParent at hp
      rw [hpar] at hp
      simp only at hp
      cases hh : s.hidden p with
      | false => rfl
      | true => rw [hh] at hp; simp at hp
    have hpo : s.owner p = some w := by rw [← ok.inv.own.inherit t p hpar]; exact (ok.mem t ht).1
    have hget := ev_cl_get (s := s) (sel := sel) p (idInj_of_member ok p hpo hph)
    simp only [Expr.evalP, Expr.evalArgsP, bind, Except.bind, pure, Except.pure] at hpg ⊢
    simp only [hpg, optRef_some, truthP, if_true, hρ.cl, stU_heap, encHeap_apply, encTask_id, pure, Except.pure,
      unroot_tid_ne _ _ _ _ (lt_ne_X s sel p hpn), h.tid_lt p hpn, hget, Option.bind_some]
    cases cloneOf s.n sel p <;> rfl

theorem map_cloneOf (n : Nat) (sel l : List Uid) (hl : ∀ x ∈ l, x ∈ sel) :
    (l.map Atom.ref).map (fun a => match a with
      | .ref ch => (match cloneOf n sel ch with | some c' => Atom.ref c' | none => Atom.none)
      | _ => Atom.none) = (l.filterMap (cloneOf n sel)).map Atom.ref := by
  induction l with
  | nil => rfl
  | cons a l ih =>
    obtain ⟨c, hc⟩ := cloneOf_mem n sel a (hl a List.mem_cons_self)
    simp only [List.map_cons, List.filterMap_cons, hc]
    rw [ih (fun x hx => hl x (List.mem_cons_of_mem _ hx))]

def ctRhsChildren : Expr :=
  .listComp (.dictIndex (.var "cloned_tasks") (.attr (.var "ch") "id")) "ch"
    (.attr (.dictIndex (.var "all_tasks") (.attr (.var "t") "id")) "children") (.bool true)

/-- `[cloned_tasks[ch.id] for ch in all_tasks[t.id].children]` -/
theorem ev_rhs_children (H : PHandlers) (h : Sound s w sel g) (ok : SelOK s w sel)
    (hclosed : ∀ t ∈ sel, ∀ ch ∈ s.children t, ch ∈ sel)
    (ρ : PyLite.Env) (hρ : CtEnv ρ s w sel) (t : Uid) (ht : t ∈ sel) (hx : ρ.get? "t" = some (.atom (.ref t))) :
    ctRhsChildren.evalP H [] ρ (stU st (s.n + sel.length) (s.tid (s.n + sel.length)) g) =
      .ok (refs ((s.children t).filterMap (cloneOf s.n sel)),
        stU st (s.n + sel.length) (s.tid (s.n + sel.length)) g) := by
  unfold ctRhsChildren
  rw [evalP_listComp_pure (vs := (s.children t).map Atom.ref)
    (st := stU st (s.n + sel.length) (s.tid (s.n + sel.length)) g) (p := fun _ => true)
    (e := fun a => match a with
      | .ref ch => (match cloneOf s.n sel ch with | some c' => Atom.ref c' | none => Atom.none)
      | _ => Atom.none)
    (hit := evalP_attr _ _ _ _ _ _ _ _ _ (ev_all st H h ok ρ hρ "t" t ht hx)
      (by rw [stU_heap, encHeap_apply, encTask_children, unroot_children, h.fr.1.children t (ok.mem t ht).2.2]; rfl))
    (hc := by intro v _; simp only [Expr.evalP, pure, Except.pure])
    (he := by
      intro v hv _
      obtain ⟨ch, hch, rfl⟩ := List.mem_map.1 hv
      have hsel := hclosed t ht ch hch
      obtain ⟨c', hc'⟩ := cloneOf_mem s.n sel ch hsel
      rw [ev_cl st H h ok _ (hρ.set "ch" _ (by decide) (by decide) (by decide)) "ch" ch c' hsel hc'
        (by rw [Env.get?_set, if_pos rfl])]
      simp only [hc'])]
  rw [filter_const_true, map_cloneOf _ _ _ (hclosed t ht)]
  rfl

end rhs

section links
variable {s : G} {w : Uid} {sel : List Uid} {g : G} (st : PState)

def ctRhsLinks (fld : String) : Expr :=
  .listComp (.var "v") "v"
    (.listComp (.callFn fn_WBS_clone_tasks_link_target (.listCons (.var "self") (.listCons (.var "cloned_tasks")
        (.listCons (.var "ch") .listNil)))) "ch"
      (.attr (.dictIndex (.var "all_tasks") (.attr (.var "t") "id")) fld) (.bool true))
    (.isNotNone (.var "v"))

theorem filter_linkTarget (f : Uid → Option Uid) (l : List Uid) :
    ((l.map (fun x => optRef (f x))).filter (fun a => !decide (Val.atom a = Val.atom Atom.none))).map (fun a => a) =
      (l.filterMap f).map Atom.ref := by
  induction l with
  | nil => rfl
  | cons a l ih =>
    simp only [List.map_cons, List.filter_cons, List.filterMap_cons]
    cases f a with
    | none => simpa using ih
    | some y => simpa using ih

/-- `link_target(x)` for a link end `x` of a source task = the model's `linkTarget` -/
theorem ev_link_target (F : Nat) (h : Sound s w sel g) (ok : SelOK s w sel) (ρ : PyLite.Env) (hρ : CtEnv ρ s w sel)
    (x : Uid) (hxn : x < s.n) (hxh : s.hidden x = false) (hx : ρ.get? "ch" = some (.atom (.ref x))) :
    (Expr.callFn fn_WBS_clone_tasks_link_target (.listCons (.var "self") (.listCons (.var "cloned_tasks")
        (.listCons (.var "ch") .listNil)))).evalP (Hw filt (F + 1)) [] ρ
        (stU st (s.n + sel.length) (s.tid (s.n + sel.length)) g) =
      .ok (.atom (optRef (linkTarget s w s.n sel x)), stU st (s.n + sel.length) (s.tid (s.n + sel.length)) g) := by
  rw [evalP_callFn3 (ha := evalP_var _ _ _ _ _ _ hρ.self) (hb := evalP_var _ _ _ _ _ _ hρ.cl)
    (hc := evalP_var _ _ _ _ _ _ hx), link_target_spec filt (unroot _ _ g) _ rfl w x _ F,
    unroot_owner_ne _ _ _ _ (lt_ne_X s sel x hxn), unroot_tid_ne _ _ _ _ (lt_ne_X s sel x hxn),
    h.fr.1.owner x hxn, h.tid_lt x hxn]
  unfold linkTarget
  by_cases ho : s.owner x = some w
  · rw [if_pos ho, if_pos ho, ev_cl_get x (idInj_of_member ok x ho hxh)]
    cases cloneOf s.n sel x <;> rfl
  · rw [if_neg ho, if_neg ho]
    rfl

/-- `[v for v in [link_target(ch) for ch in all_tasks[t.id].<links>] if v is not None]` -/
theorem ev_rhs_links (F : Nat) (h : Sound s w sel g) (ok : SelOK s w sel) (fld : String) (l : List Uid)
    (hfld : (encTask (unroot (s.n + sel.length) (s.tid (s.n + sel.length)) g) t).get? fld = some (refs l))
    (hl : ∀ x ∈ l, s.hidden x = false ∧ x < s.n)
    (ρ : PyLite.Env) (hρ : CtEnv ρ s w sel) (ht : t ∈ sel) (hx : ρ.get? "t" = some (.atom (.ref t))) :
    (ctRhsLinks fld).evalP (Hw filt (F + 1)) [] ρ (stU st (s.n + sel.length) (s.tid (s.n + sel.length)) g) =
      .ok (refs (l.filterMap (linkTarget s w s.n sel)), stU st (s.n + sel.length) (s.tid (s.n + sel.length)) g) := by
  unfold ctRhsLinks
  have hinner := evalP_listComp_pure (Hw filt (F + 1)) [] ρ
    (stU st (s.n + sel.length) (s.tid (s.n + sel.length)) g) (stU st (s.n + sel.length) (s.tid (s.n + sel.length)) g)
    (.callFn fn_WBS_clone_tasks_link_target (.listCons (.var "self") (.listCons (.var "cloned_tasks")
      (.listCons (.var "ch") .listNil)))) (.bool true)
    (.attr (.dictIndex (.var "all_tasks") (.attr (.var "t") "id")) fld) "ch" (l.map Atom.ref) (fun _ => true)
    (fun a => match a with | .ref x => optRef (linkTarget s w s.n sel x) | _ => Atom.none)
    (evalP_attr _ _ _ _ _ _ _ _ _ (ev_all st _ h ok ρ hρ "t" t ht hx) (by rw [stU_heap, encHeap_apply, hfld]; rfl))
    (by intro v _; simp only [Expr.evalP, pure, Except.pure])
    (by
      intro v hv _
      obtain ⟨x, hxl, rfl⟩ := List.mem_map.1 hv
      exact ev_link_target filt st F h ok _ (hρ.set "ch" _ (by decide) (by decide) (by decide)) x (hl x hxl).2
        (hl x hxl).1 (by rw [Env.get?_set, if_pos rfl]))
  rw [filter_const_true, List.map_map] at hinner
  rw [evalP_listComp_pure (vs := l.map (fun x => optRef (linkTarget s w s.n sel x)))
    (st := stU st (s.n + sel.length) (s.tid (s.n + sel.length)) g)
    (p := fun a => !decide (Val.atom a = Val.atom Atom.none)) (e := fun a => a)
    (hit := by rw [hinner]; rfl)
    (hc := by intro v _; simp only [Expr.evalP, Env.get?_set, if_true, bind, Except.bind, pure, Except.pure])
    (he := by intro v _ _; simp only [Expr.evalP, Env.get?_set, if_true, pure, Except.pure]),
    filter_linkTarget]
  rfl

def ctRhsPreds : Expr := ctRhsLinks "predecessors"
def ctRhsSuccs : Expr := ctRhsLinks "successors"

end links

/-! ### one iteration of the loop of `__clone_tasks` = the four setter calls of `perTask` -/

theorem ctBody_eq : ctBody =
    [.assign "c" (.dictIndex (.var "cloned_tasks") (.attr (.var "t") "id")),
     .expr (.callFn fn_Task_parent_set (.listCons (.var "c") (.listCons ctRhsParent .listNil))),
     .expr (.callFn fn_Task_children_set (.listCons (.var "c") (.listCons ctRhsChildren .listNil))),
     .expr (.callFn fn_Task_predecessors_set (.listCons (.var "c") (.listCons ctRhsPreds .listNil))),
     .expr (.callFn fn_Task_successors_set (.listCons (.var "c") (.listCons ctRhsSuccs .listNil)))] := rfl

section step
variable {s : G} {w : Uid} {sel : List Uid} (st : PState)

theorem isClone_ne_X {c : Uid} (hc : IsClone s sel c) : c ≠ s.n + sel.length := by
  obtain ⟨i, hi, rfl⟩ := hc
  uomega

theorem seqOps_four_ok (o1 o2 o3 o4 : G → G × Option Err) (g : G) (h1 : (o1 g).2 = none)
    (h2 : (o2 (o1 g).1).2 = none) (h3 : (o3 (o2 (o1 g).1).1).2 = none) (h4 : (o4 (o3 (o2 (o1 g).1).1).1).2 = none) :
    (seqOps id g [o1, o2, o3, o4]).1 = (o4 (o3 (o2 (o1 g).1).1).1).1 := by
  have e1 : o1 g = ((o1 g).1, none) := by rw [← h1]
  have e2 : o2 (o1 g).1 = ((o2 (o1 g).1).1, none) := by rw [← h2]
  have e3 : o3 (o2 (o1 g).1).1 = ((o3 (o2 (o1 g).1).1).1, none) := by rw [← h3]
  have e4 : o4 (o3 (o2 (o1 g).1).1).1 = ((o4 (o3 (o2 (o1 g).1).1).1).1, none) := by rw [← h4]
  rw [seqOps_cons_ok _ _ _ _ e1, seqOps_cons_ok _ _ _ _ e2, seqOps_cons_ok _ _ _ _ e3, seqOps_cons_ok _ _ _ _ e4]
  rfl

theorem ct_step (F : Nat) (hF : s.n + sel.length + 9 ≤ F) (ok : SelOK s w sel)
    (hclosed : ∀ t ∈ sel, ∀ ch ∈ s.children t, ch ∈ sel) (m : Nat) (hm : m < sel.length) (g : G)
    (h : Sound s w sel g) (hI : Isolated (s.n + sel.length) g) (ρ : PyLite.Env) (hρ : CtEnv ρ s w sel) :
    ∃ ρ', CtEnv ρ' s w sel ∧
      execBlockP (Hw filt F) [] noRec ctBody (Env.set ρ "t" (.atom (.ref (sel.getD m 0))))
          (stU st (s.n + sel.length) (s.tid (s.n + sel.length)) g) =
        .normal ρ' (stU st (s.n + sel.length) (s.tid (s.n + sel.length))
          (seqOps id g (perTask s w sel (sel.getD m 0))).1) ∧
      Sound s w sel (seqOps id g (perTask s w sel (sel.getD m 0))).1 ∧
      Isolated (s.n + sel.length) (seqOps id g (perTask s w sel (sel.getD m 0))).1 := by
  obtain ⟨F, rfl⟩ : ∃ F', F = F' + 2 := ⟨F - 2, by omega⟩
  have ht : sel.getD m 0 ∈ sel := getD_mem sel m hm
  have htn : sel.getD m 0 < s.n := (ok.mem _ ht).2.2
  have hcl : cloneOf s.n sel (sel.getD m 0) = some (s.n + m) := ok.cloneOf_getD m hm
  have hc : IsClone s sel (s.n + m) := ⟨m, hm, rfl⟩
  have hcX := isClone_ne_X hc
  have hsrc : src s sel (s.n + m) = sel.getD m 0 := src_clone s sel m
  rw [ok.perTask_eq m hm]
  generalize ht' : sel.getD m 0 = t at *
  -- the environment after `c = cloned_tasks[t.id]`
  have hρ1 : CtEnv (Env.set ρ "t" (.atom (.ref t))) s w sel := hρ.set "t" _ (by decide) (by decide) (by decide)
  have hρ2 : CtEnv (Env.set (Env.set ρ "t" (.atom (.ref t))) "c" (.atom (.ref (s.n + m)))) s w sel :=
    hρ1.set "c" _ (by decide) (by decide) (by decide)
  have hgt : (Env.set (Env.set ρ "t" (.atom (.ref t))) "c" (.atom (.ref (s.n + m)))).get? "t" =
      some (.atom (.ref t)) := by
    rw [Env.get?_set, if_neg (by decide), Env.get?_set, if_pos rfl]
  have hgc : (Env.set (Env.set ρ "t" (.atom (.ref t))) "c" (.atom (.ref (s.n + m)))).get? "c" =
      some (.atom (.ref (s.n + m))) := by
    rw [Env.get?_set, if_pos rfl]
  -- 1. `c.parent = …`
  have hp : ∀ q, (s.pubParent t).bind (cloneOf s.n sel) = some q →
      IsClone s sel q ∧ s.parent (src s sel (s.n + m)) = some (src s sel q) := by
    intro q hq; rw [hsrc]; exact parentArg_ok s sel _ q hq
  have ok1 := h.setParent_ok ok hc _ hp
  have h1 := h.setParent_sound ok hc _ hp
  obtain ⟨_, hI1⟩ := setParent_unroot (s.n + sel.length) (s.tid (s.n + sel.length)) g hI (s.n + m)
    ((s.pubParent t).bind (cloneOf s.n sel)) hcX (fun e => isClone_ne_X (hp _ e).1 rfl)
  have hn : g.n = s.n + sel.length + 1 := h.ci.2.1
  have c1 := call_parent_set filt st _ (s.tid (s.n + sel.length)) g hI h.ci.1.wf (s.n + m)
    ((s.pubParent t).bind (cloneOf s.n sel)) hcX (fun e => isClone_ne_X (hp _ e).1 rfl) ok1 (F + 2) (by omega)
  generalize hg1 : (setParent g (s.n + m) ((s.pubParent t).bind (cloneOf s.n sel))).1 = g1 at *
  -- 2. `c.children = …`
  have hl2 : ∀ v ∈ (s.children t).filterMap (cloneOf s.n sel),
      IsClone s sel v ∧ s.parent (src s sel v) = some (src s sel (s.n + m)) := by
    intro v hv; rw [hsrc]; exact childrenArg_ok s ok.inv.wf sel _ v hv
  have ok2 := h1.setChildren_ok ok hc _ hl2
  have h2 := h1.setChildren_sound ok hc _ hl2
  obtain ⟨_, hI2⟩ := setChildren_unroot (s.n + sel.length) (s.tid (s.n + sel.length)) g1 hI1 (s.n + m)
    ((s.children t).filterMap (cloneOf s.n sel)) hcX (fun x hx => isClone_ne_X (hl2 x hx).1)
  have hn1 : g1.n = s.n + sel.length + 1 := h1.ci.2.1
  have c2 := call_children_set filt st _ (s.tid (s.n + sel.length)) g1 hI1 (s.n + m)
    ((s.children t).filterMap (cloneOf s.n sel)) hcX (fun x hx => isClone_ne_X (hl2 x hx).1) ok2 (F + 2) (by omega)
  generalize hg2 : (setChildren g1 (s.n + m) ((s.children t).filterMap (cloneOf s.n sel))).1 = g2 at *
  -- 3. `c.predecessors = …`
  have hl3 : ∀ v ∈ (s.preds t).filterMap (linkTarget s w s.n sel),
      (IsClone s sel v ∨ Outside s w v) ∧ src s sel v ∈ s.preds (src s sel (s.n + m)) := by
    intro v hv; rw [hsrc]; exact predsArg_ok s ok.inv w sel _ v hv
  have hne3 : ∀ x ∈ (s.preds t).filterMap (linkTarget s w s.n sel), x ≠ s.n + sel.length := by
    intro x hx
    rcases (hl3 x hx).1 with hx | hx
    · exact isClone_ne_X hx
    · exact lt_ne_X s sel x hx.1
  have ok3 := h2.setPreds_ok ok hc _ (fun v hv => (hl3 v hv).2)
  have h3 := h2.setPreds_sound ok hc _ hl3
  obtain ⟨_, hI3⟩ := setPreds_unroot (s.n + sel.length) (s.tid (s.n + sel.length)) g2 hI2 (s.n + m)
    ((s.preds t).filterMap (linkTarget s w s.n sel)) hcX hne3
  have hn2 : g2.n = s.n + sel.length + 1 := h2.ci.2.1
  have c3 := call_preds_set filt st _ (s.tid (s.n + sel.length)) g2 hI2 (s.n + m)
    ((s.preds t).filterMap (linkTarget s w s.n sel)) hcX hne3 ok3 (F + 2) (by omega)
  generalize hg3 : (setPreds g2 (s.n + m) ((s.preds t).filterMap (linkTarget s w s.n sel))).1 = g3 at *
  -- 4. `c.successors = …`
  have hl4 : ∀ v ∈ (s.succs t).filterMap (linkTarget s w s.n sel),
      (IsClone s sel v ∨ Outside s w v) ∧ src s sel v ∈ s.succs (src s sel (s.n + m)) := by
    intro v hv; rw [hsrc]; exact succsArg_ok s ok.inv w sel _ v hv
  have hne4 : ∀ x ∈ (s.succs t).filterMap (linkTarget s w s.n sel), x ≠ s.n + sel.length := by
    intro x hx
    rcases (hl4 x hx).1 with hx | hx
    · exact isClone_ne_X hx
    · exact lt_ne_X s sel x hx.1
  have ok4 := h3.setSuccs_ok ok hc _ (fun v hv => (hl4 v hv).2)
  have h4 := h3.setSuccs_sound ok hc _ hl4
  obtain ⟨_, hI4⟩ := setSuccs_unroot (s.n + sel.length) (s.tid (s.n + sel.length)) g3 hI3 (s.n + m)
    ((s.succs t).filterMap (linkTarget s w s.n sel)) hcX hne4
  have hn3 : g3.n = s.n + sel.length + 1 := h3.ci.2.1
  have c4 := call_succs_set filt st _ (s.tid (s.n + sel.length)) g3 hI3 (s.n + m)
    ((s.succs t).filterMap (linkTarget s w s.n sel)) hcX hne4 ok4 (F + 2) (by omega)
  have hmem := fun (g' : G) (h' : Sound s w sel g') => h'.fr.2.member t htn (ok.mem t ht).1
  have hb1 := ev_rhs_parent filt st F h ok hI _ hρ2 t ht hgt
  have hb2 := ev_rhs_children st (Hw filt (F + 2)) h1 ok hclosed _ hρ2 t ht hgt
  have hb3 : ctRhsPreds.evalP (Hw filt (F + 2)) []
      (Env.set (Env.set ρ "t" (.atom (.ref t))) "c" (.atom (.ref (s.n + m))))
      (stU st (s.n + sel.length) (s.tid (s.n + sel.length)) g2) =
      .ok (refs ((s.preds t).filterMap (linkTarget s w s.n sel)),
        stU st (s.n + sel.length) (s.tid (s.n + sel.length)) g2) :=
    ev_rhs_links filt st (F + 1) h2 ok "predecessors" (s.preds t)
      (by rw [encTask_preds, unroot_preds, (hmem g2 h2).1])
      (fun x hx => preds_ok s ok.inv t x hx) _ hρ2 ht hgt
  have hb4 : ctRhsSuccs.evalP (Hw filt (F + 2)) []
      (Env.set (Env.set ρ "t" (.atom (.ref t))) "c" (.atom (.ref (s.n + m))))
      (stU st (s.n + sel.length) (s.tid (s.n + sel.length)) g3) =
      .ok (refs ((s.succs t).filterMap (linkTarget s w s.n sel)),
        stU st (s.n + sel.length) (s.tid (s.n + sel.length)) g3) :=
    ev_rhs_links filt st (F + 1) h3 ok "successors" (s.succs t)
      (by rw [encTask_succs, unroot_succs, (hmem g3 h3).2])
      (fun x hx => succs_ok s ok.inv t x hx) _ hρ2 ht hgt
  -- the model side
  subst hg3 hg2 hg1
  have hseq := seqOps_four_ok
    (fun g => setParent g (s.n + m) ((s.pubParent t).bind (cloneOf s.n sel)))
    (fun g => setChildren g (s.n + m) ((s.children t).filterMap (cloneOf s.n sel)))
    (fun g => setPreds g (s.n + m) ((s.preds t).filterMap (linkTarget s w s.n sel)))
    (fun g => setSuccs g (s.n + m) ((s.succs t).filterMap (linkTarget s w s.n sel))) g
    ok1 ok2 ok3 ok4
  rw [hseq]
  refine ⟨_, hρ2, ?_, h4, hI4⟩
  -- the source side
  rw [ctBody_eq, execBlockP_cons, execP_assign (he := ev_cl st _ h ok _ hρ1 "t" t (s.n + m) ht hcl
    (by rw [Env.get?_set, if_pos rfl]))]
  simp only []
  rw [execBlockP_cons, execP_expr (he := by
    rw [evalP_callFn2 (ha := evalP_var _ _ _ _ _ _ hgc) (hb := hb1), c1])]
  simp only []
  rw [execBlockP_cons, execP_expr (he := by
    rw [evalP_callFn2 (ha := evalP_var _ _ _ _ _ _ hgc) (hb := hb2), c2])]
  simp only []
  rw [execBlockP_cons, execP_expr (he := by
    rw [evalP_callFn2 (ha := evalP_var _ _ _ _ _ _ hgc) (hb := hb3), c3])]
  simp only []
  rw [execBlockP_cons, execP_expr (he := by
    rw [evalP_callFn2 (ha := evalP_var _ _ _ _ _ _ hgc) (hb := hb4), c4])]
  rfl

end step

/-! ### the loop of `__clone_tasks` = the per-task part of `cloneOps` -/

section loop
variable {s : G} {w : Uid} {sel : List Uid} (st : PState)

theorem drop_cons_getD (l : List Uid) (m : Nat) (t : Uid) (l' : List Uid) (h : l.drop m = t :: l') :
    m < l.length ∧ t = l.getD m 0 ∧ l.drop (m + 1) = l' := by
  have hm : m < l.length := by
    apply Classical.byContradiction
    intro hge
    rw [List.drop_eq_nil_of_le (by omega)] at h
    cases h
  rw [List.drop_eq_getElem_cons hm] at h
  cases h
  exact ⟨hm, by rw [getD_eq_getElem' l m hm], rfl⟩

theorem ct_loop (F : Nat) (hF : s.n + sel.length + 9 ≤ F) (ok : SelOK s w sel)
    (hclosed : ∀ t ∈ sel, ∀ ch ∈ s.children t, ch ∈ sel) :
    ∀ (l : List Uid) (m : Nat), sel.drop m = l → ∀ (g : G), Sound s w sel g → Isolated (s.n + sel.length) g →
      ∀ ρ, CtEnv ρ s w sel →
      ∃ ρ', CtEnv ρ' s w sel ∧
        forLoopP "t" (fun ρ st => execBlockP (Hw filt F) [] noRec ctBody ρ st) (l.map Atom.ref) ρ
            (stU st (s.n + sel.length) (s.tid (s.n + sel.length)) g) =
          .normal ρ' (stU st (s.n + sel.length) (s.tid (s.n + sel.length))
            (seqOps id g (l.flatMap (perTask s w sel))).1) ∧
        (seqOps id g (l.flatMap (perTask s w sel))).2 = none ∧
        Sound s w sel (seqOps id g (l.flatMap (perTask s w sel))).1 ∧
        Isolated (s.n + sel.length) (seqOps id g (l.flatMap (perTask s w sel))).1 := by
  intro l
  induction l with
  | nil => intro m _ g h hI ρ hρ; exact ⟨ρ, hρ, rfl, rfl, h, hI⟩
  | cons t l ih =>
    intro m hdrop g h hI ρ hρ
    obtain ⟨hm, rfl, hdrop'⟩ := drop_cons_getD sel m t l hdrop
    obtain ⟨ρ1, hρ1, hbody, h1, hI1⟩ := ct_step filt st F hF ok hclosed m hm g h hI ρ hρ
    have hacc := (Sound.task_step ok m hm g h).1
    obtain ⟨ρ2, hρ2, hloop, hacc2, h2, hI2⟩ := ih (m + 1) hdrop' _ h1 hI1 ρ1 hρ1
    rw [List.flatMap_cons, seqOps_append_ok _ _ g hacc]
    refine ⟨ρ2, hρ2, ?_, hacc2, h2, hI2⟩
    simp only [List.map_cons, forLoopP, hbody]
    exact hloop

end loop

/-! ### `__clone_tasks` -/

section cloneTasks
variable {s : G} {w : Uid}

/-- one step of `{task.id: task.clone() for task in …}` -/
def cloneStepF (H : PHandlers) (ρ : PyLite.Env) : Atom → PState → Res (Option (Atom × Atom) × PState) :=
  fun a st => do
    let (c, st) ← (Expr.bool true).evalP H [] (Env.set ρ "task" (.atom a)) st
    if (← truthP c) then
      match (← (Expr.attr (.var "task") "id").evalP H [] (Env.set ρ "task" (.atom a)) st) with
      | (.atom kv, st) =>
        match (← (Expr.callVal (.fnRef pf_Task_clone) (.listCons (.var "task") .listNil)).evalP H []
            (Env.set ρ "task" (.atom a)) st) with
        | (.atom vv, st) => pure (some (kv, vv), st)
        | _ => throw stuck
      | _ => throw stuck
    else pure (Option.none, st)

theorem clone_step (H : PHandlers) (hfn : H.fn = wbsFn) (ρ : PyLite.Env) (t : Uid) (st : PState)
    (hid : (st.heap t).get? "id" = some (.atom (idA (s.tid t)))) :
    cloneStepF H ρ (.ref t) st =
      .ok (some (idA (s.tid t), .ref st.reads), alloc st (newTask (.atom (idA (s.tid t))) .none)) := by
  simp only [cloneStepF, Expr.evalP, Env.get?_set, if_true, hid, hfn, wbsFn, bind, Except.bind, pure, Except.pure,
    truthP]

theorem evalP_cloneComp (H : PHandlers) (ρ : PyLite.Env) (it : Expr) (st : PState) :
    (Expr.dictComp (.attr (.var "task") "id")
      (.callVal (.fnRef pf_Task_clone) (.listCons (.var "task") .listNil)) "task" it (.bool true)).evalP H [] ρ st =
    (do
      let (itv, st) ← it.evalP H [] ρ st
      let vs ← iterOf itv
      let (out, st) ← pairLoopP (cloneStepF H ρ) vs st
      pure (Val.dict (Dict.ofList out), st)) := by
  rw [Expr.evalP]
  rfl

theorem mem_flatten_sel (subs : List (List Uid)) (x : Uid) : x ∈ subs.flatten ↔ x ∈ dedupFirst subs.flatten := by
  unfold dedupFirst; rw [List.mem_eraseDups]

/-- `__clone_tasks(roots)`: the dict of the clones; the store holds the clones wired up by the per-task setter calls
    of the model, the new WBS object does not exist yet -/
theorem clone_tasks_spec (st : PState) (hh : st.heap = encHeap s) (hr : st.reads = s.n) (hi : Inv s)
    (hwbs : s.hidden w = true) (roots : List Uid) (hm : ∀ r ∈ roots, s.owner r = some w ∧ s.hidden r = false)
    (subs : List (List Uid)) (hsubs : roots.mapM (fun r => subtreeF s.children s.fuel r) = some subs)
    (F : Nat) (hF : s.n + (dedupFirst subs.flatten).length + 10 ≤ F) :
    ∃ gP, gP = (seqOps id (extend s (dedupFirst subs.flatten))
        ((dedupFirst subs.flatten).flatMap (perTask s w (dedupFirst subs.flatten)))).1 ∧
      (seqOps id (extend s (dedupFirst subs.flatten))
        ((dedupFirst subs.flatten).flatMap (perTask s w (dedupFirst subs.flatten)))).2 = none ∧
      Sound s w (dedupFirst subs.flatten) gP ∧ Isolated (s.n + (dedupFirst subs.flatten).length) gP ∧
      (Hw filt F).fnV fn_WBS_clone_tasks [.atom (.ref w), refs roots] st =
        .ok (.dict (cloneDict s s.n (dedupFirst subs.flatten)),
          stU st (s.n + (dedupFirst subs.flatten).length) (s.tid (s.n + (dedupFirst subs.flatten).length)) gP) := by
  have ok := SelOK.of_args s w roots subs hi hwbs hm hsubs
  generalize hsel : dedupFirst subs.flatten = sel at *
  obtain ⟨F, rfl⟩ : ∃ F', F = F' + 1 := ⟨F - 1, by omega⟩
  have hclosed : ∀ t ∈ sel, ∀ ch ∈ s.children t, ch ∈ sel := by
    intro t ht ch hch
    rw [← hsel] at ht ⊢
    obtain ⟨r, hr, hx⟩ := (mem_sel_iff s hi.wf roots subs hsubs t).mp ht
    exact (mem_sel_iff s hi.wf roots subs hsubs ch).mpr ⟨r, hr, RTC.trans (RTC.tail RTC.refl ((hi.wf.listed ch t).mpr hch)) hx⟩
  have hX : s.n + sel.length = s.n + sel.length := rfl
  rw [fnW_top _ _ _ _ _ wf_clone_tasks, callPV_eq]
  simp only [src_WBS_clone_tasks_params, ct_shape, bindParamsV, pure, Except.pure, bind, Except.bind]
  -- `all_tasks_list = []`
  rw [execBlockP_cons, execP_assign (v := .list []) (st' := st) (he := by simp only [Expr.evalP, pure, Except.pure])]
  simp only []
  -- the collection loop
  obtain ⟨ρ2, hcol, hacc2, hkeep⟩ := ct_collect filt s st hh roots subs hsubs F (by omega)
    (Env.set [("self", .atom (.ref w)), ("roots", refs roots)] "all_tasks_list" (.list []))
    (by rw [Env.get?_set, if_neg (by decide)]; rfl) (by rw [Env.get?_set, if_pos rfl])
  rw [execBlockP_cons, hcol]
  simp only []
  have hself2 : ρ2.get? "self" = some (.atom (.ref w)) := by
    rw [hkeep "self" (by decide) (by decide), Env.get?_set, if_neg (by decide)]; rfl
  -- `all_tasks = {task.id: task for task in all_tasks_list}`
  have hinjL : ∀ x ∈ subs.flatten, IdInjOn s subs.flatten x := by
    intro x hx a ha e
    rw [mem_flatten_sel, hsel] at hx ha
    exact idInj_of_mem ok x hx a ha e
  have hall : (Expr.dictComp (.attr (.var "task") "id") (.var "task") "task" (.var "all_tasks_list")
      (.bool true)).evalP (Hw filt F) [] ρ2 st = .ok (.dict (allDict s sel), st) := by
    rw [evalP_dictComp_pure (vs := subs.flatten.map Atom.ref) (st := st)
      (ke := fun a => match a with | .ref t => idA (s.tid t) | _ => Atom.none) (ve := fun a => a)
      (hit := evalP_var _ _ _ _ _ _ hacc2)
      (hk := by
        intro a ha
        obtain ⟨t, _, rfl⟩ := List.mem_map.1 ha
        exact evalP_attr _ _ _ _ _ _ _ _ _ (evalP_var _ _ _ _ _ _ (by rw [Env.get?_set, if_pos rfl]))
          (by rw [hh, encHeap_apply, encTask_id]))
      (hv := by intro a _; exact evalP_var _ _ _ _ _ _ (by rw [Env.get?_set, if_pos rfl])),
      List.map_map]
    have := ofList_allDict s subs.flatten hinjL
    unfold dedupFirst at hsel
    rw [hsel] at this
    rw [← this]
    rfl
  rw [execBlockP_cons, execP_assign (he := hall)]
  simp only []
  -- `cloned_tasks = {task.id: task.clone() for task in all_tasks.values()}`
  have hcl : (Expr.dictComp (.attr (.var "task") "id")
      (.callVal (.fnRef pf_Task_clone) (.listCons (.var "task") .listNil)) "task" (.dictValues (.var "all_tasks"))
      (.bool true)).evalP (Hw filt F) [] (Env.set ρ2 "all_tasks" (.dict (allDict s sel))) st =
      .ok (.dict (cloneDict s s.n sel),
        stU st (s.n + sel.length) (s.tid (s.n + sel.length)) (extend s sel)) := by
    have hval : (Expr.dictValues (.var "all_tasks")).evalP (Hw filt F) []
        (Env.set ρ2 "all_tasks" (.dict (allDict s sel))) st = .ok (.list (sel.map Atom.ref), st) := by
      simp only [Expr.evalP, Env.get?_set, if_true, bind, Except.bind, pure, Except.pure, allDict_values]
    have hloop := pairLoopP_clone s (cloneStepF (Hw filt F) (Env.set ρ2 "all_tasks" (.dict (allDict s sel))))
      (fun t st' hid =>
      clone_step (s := s) (Hw filt F) (Hw_fn filt F) (Env.set ρ2 "all_tasks" (.dict (allDict s sel))) t st' hid) sel st
      (by
        intro t ht
        have := (ok.mem t ht).2.2
        exact ⟨by rw [hr]; exact this, by rw [hh, encHeap_apply, encTask_id]⟩)
    rw [evalP_cloneComp]
    simp only [hval, bind, Except.bind, pure, Except.pure, iterOf]
    rw [hloop]
    simp only [ofList_cloneDict' s sel _ ok.nodup (fun x hx => idInj_of_mem ok x hx), hr, hh,
      cloneHeap_extend s hi.bnd sel]
    rfl
  rw [execBlockP_cons, execP_assign (he := hcl)]
  simp only []
  -- the loop
  have hρ4 : CtEnv (Env.set (Env.set ρ2 "all_tasks" (.dict (allDict s sel))) "cloned_tasks"
      (.dict (cloneDict s s.n sel))) s w sel :=
    ⟨by rw [Env.get?_set, if_neg (by decide), Env.get?_set, if_neg (by decide)]; exact hself2,
     by rw [Env.get?_set, if_neg (by decide), Env.get?_set, if_pos rfl],
     by rw [Env.get?_set, if_pos rfl]⟩
  obtain ⟨ρL, hρL, hloop, hacc, hS, hIso⟩ := ct_loop filt st F (by omega) ok hclosed sel 0 rfl (extend s sel)
    (Sound.extend ok) (isolated_extend s hi.bnd sel) _ hρ4
  refine ⟨_, rfl, hacc, hS, hIso, ?_⟩
  rw [execBlockP_cons, ctLoop_eq, execP_forIn (vs := sel.map Atom.ref)
    (st' := stU st (s.n + sel.length) (s.tid (s.n + sel.length)) (extend s sel))
    (hit := by simp only [Expr.evalP, hρ4.all, bind, Except.bind, pure, Except.pure, allDict_values]), hloop]
  simp only []
  rw [execBlockP_cons, execP_ret (he := evalP_var _ _ _ _ _ _ hρL.cl)]

end cloneTasks

/-! ### `__clone`, `clone`, `subtree` -/

/-- `WBS()` after the setters have run: the store becomes the encoding of the model's state -/
theorem alloc_root (st : PState) (X : Uid) (v : Int) (g : G) (hI : Isolated X g) (ht : g.tid X = emptyId)
    (ho : g.owner X = some X) :
    alloc (stU st X v g) (newTask (.atom (idA emptyId)) (.ref X)) = setHR st (encHeap g) (X + 1) := by
  have := rootHeap X v g hI ht ho
  unfold alloc stU setHR
  simp only []
  rw [this]

section cloneRec
variable {s : G} {w : Uid}

theorem wf_clone_rec : wbsFuns fn_WBS_clone_rec = some (src_WBS_clone_rec_params, src_WBS_clone_rec) := rfl
theorem wf_clone : wbsFuns fn_WBS_clone = some (src_WBS_clone_params, src_WBS_clone) := rfl
theorem wf_subtree : wbsFuns fn_WBS_subtree = some (src_WBS_subtree_params, src_WBS_subtree) := rfl

/-- what a run of `clone` / `subtree` is compared with: the new WBS object (its hidden root), the store of the model's
    new state and the allocation pointer at the model's new universe size; or the model's error -/
def cloneResult (st : PState) (r : G × Option Err × Uid) : Res (Val × PState) :=
  match r with
  | (s', none, nw) => .ok (.atom (.ref nw), setHR st (encHeap s') s'.n)
  | (_, some e, _) => .error e

/-- `self.__clone(roots)` = `cloneSel`, for a reachable state and roots that are members of the WBS -/
theorem clone_rec_spec (st : PState) (hh : st.heap = encHeap s) (hr : st.reads = s.n) (hi : Inv s)
    (hwbs : s.hidden w = true) (roots : List Uid) (hm : ∀ r ∈ roots, s.owner r = some w ∧ s.hidden r = false)
    (F : Nat) (hF : (cloneSel s w roots).1.n + 11 ≤ F) :
    (Hw filt F).fnV fn_WBS_clone_rec [.atom (.ref w), refs roots] st = cloneResult st (cloneSel s w roots) := by
  obtain ⟨subs, hsubs⟩ := mapM_total (fun r => subtreeF s.children s.fuel r) roots
    (fun a _ => subtreeF_children_total s hi.wf hi.bnd a)
  have ok := SelOK.of_args s w roots subs hi hwbs hm hsubs
  have hn' : (cloneSel s w roots).1.n = s.n + (dedupFirst subs.flatten).length + 1 :=
    (cloneSel_CInv s w roots subs hi hsubs hm).2.1
  rw [hn'] at hF
  obtain ⟨F, rfl⟩ : ∃ F', F = F' + 1 := ⟨F - 1, by omega⟩
  obtain ⟨gP, hgP, hacc, hS, hIso, hct⟩ := clone_tasks_spec filt st hh hr hi hwbs roots hm subs hsubs F (by omega)
  -- the model: the final call on the state before it
  have hroots : ∀ r ∈ roots, r ∈ dedupFirst subs.flatten := by
    intro r hr'
    exact (mem_sel_iff s hi.wf roots subs hsubs r).mpr ⟨r, hr', RTC.refl⟩
  have hfin := hS.final_ok ok (roots.filterMap (cloneOf s.n (dedupFirst subs.flatten)))
    (filterMap_cloneOf_isClone s _ roots)
  have hmodel : cloneSel s w roots =
      ((setChildren gP (s.n + (dedupFirst subs.flatten).length)
        (roots.filterMap (cloneOf s.n (dedupFirst subs.flatten)))).1, none,
        s.n + (dedupFirst subs.flatten).length) := by
    rw [cloneSel_eq s w roots subs hsubs]
    unfold cloneOps
    rw [seqOps_append_ok _ _ _ hacc, ← hgP]
    have e : finalOp s roots (dedupFirst subs.flatten) gP =
        ((setChildren gP (s.n + (dedupFirst subs.flatten).length)
          (roots.filterMap (cloneOf s.n (dedupFirst subs.flatten)))).1, none) := by
      unfold finalOp
      rw [← hfin]
    rw [seqOps_cons_ok _ _ _ _ e]
    rfl
  rw [hmodel]
  generalize hsel : dedupFirst subs.flatten = sel at *
  -- the source
  rw [fnW_top _ _ _ _ _ wf_clone_rec, callPV_eq]
  simp only [src_WBS_clone_rec_params, src_WBS_clone_rec, bindParamsV, pure, Except.pure, bind, Except.bind]
  rw [execBlockP_cons, execP_assign (he := by
    rw [evalP_callFn2 (ha := evalP_var _ _ _ _ _ _ rfl) (hb := evalP_var _ _ _ _ _ _ rfl), hct])]
  simp only []
  -- `cloned_project = WBS()`
  have htid : gP.tid (s.n + sel.length) = emptyId := by rw [hS.ci.2.2]; exact extend_tid_root s sel
  have hown : gP.owner (s.n + sel.length) = some (s.n + sel.length) := hS.ci.1.own.root _ hS.hidden_root
  have hnew : (Expr.callVal (.fnRef pf_WBS_new) .listNil).evalP (Hw filt F) []
      (Env.set [("self", .atom (.ref w)), ("roots", refs roots)] "cloned_tasks" (.dict (cloneDict s s.n sel)))
      (stU st (s.n + sel.length) (s.tid (s.n + sel.length)) gP) =
      .ok (.atom (.ref (s.n + sel.length)), setHR st (encHeap gP) (s.n + sel.length + 1)) := by
    simp only [Expr.evalP, Hw_fn, wbsFn, bind, Except.bind, pure, Except.pure]
    simp only [pf_WBS_new, pf_Task_clone, Nat.reduceEqDiff, if_false, if_true, stU_reads]
    rw [alloc_root st _ _ gP hIso htid hown]
  rw [execBlockP_cons, execP_assign (he := hnew)]
  simp only []
  -- `cloned_project.roots = [cloned_tasks[r.id] for r in roots]`
  generalize hρ3 : Env.set (Env.set [("self", Val.atom (.ref w)), ("roots", refs roots)] "cloned_tasks"
    (.dict (cloneDict s s.n sel))) "cloned_project" (.atom (.ref (s.n + sel.length))) = ρ3
  have g_self : ρ3.get? "self" = some (.atom (.ref w)) := by rw [← hρ3]; rfl
  have g_roots : ρ3.get? "roots" = some (refs roots) := by rw [← hρ3]; rfl
  have g_cl : ρ3.get? "cloned_tasks" = some (.dict (cloneDict s s.n sel)) := by rw [← hρ3]; rfl
  have g_cp : ρ3.get? "cloned_project" = some (.atom (.ref (s.n + sel.length))) := by rw [← hρ3]; rfl
  have hcomp : (Expr.listComp (.dictIndex (.var "cloned_tasks") (.attr (.var "r") "id")) "r" (.var "roots")
      (.bool true)).evalP (Hw filt F) [] ρ3 (setHR st (encHeap gP) (s.n + sel.length + 1)) =
      .ok (refs (roots.filterMap (cloneOf s.n sel)), setHR st (encHeap gP) (s.n + sel.length + 1)) := by
    rw [evalP_listComp_pure (vs := roots.map Atom.ref) (st := setHR st (encHeap gP) (s.n + sel.length + 1))
      (p := fun _ => true)
      (e := fun a => match a with
        | .ref ch => (match cloneOf s.n sel ch with | some c' => Atom.ref c' | none => Atom.none)
        | _ => Atom.none)
      (hit := evalP_var _ _ _ _ _ _ g_roots)
      (hc := by intro v _; simp only [Expr.evalP, pure, Except.pure])
      (he := by
        intro v hv _
        obtain ⟨r, hr', rfl⟩ := List.mem_map.1 hv
        have hrs := hroots r hr'
        obtain ⟨c', hc'⟩ := cloneOf_mem s.n sel r hrs
        have hrn := (ok.mem r hrs).2.2
        simp only [Expr.evalP, Env.get?_set, if_true, if_neg (show ¬ ("r" = "cloned_tasks") by decide), g_cl,
          setHR_heap, encHeap_apply, encTask_id, hS.tid_lt r hrn, bind, Except.bind, pure, Except.pure,
          ev_cl_get r (idInj_of_mem ok r hrs), hc', Option.map_some])]
    rw [filter_const_true, map_cloneOf _ _ _ hroots]
    rfl
  have hgn : gP.n = s.n + sel.length + 1 := hS.ci.2.1
  have hset := roots_set_spec filt gP (setHR st (encHeap gP) (s.n + sel.length + 1)) rfl (s.n + sel.length)
    (refs (roots.filterMap (cloneOf s.n sel))) _ (valueOf_refs _) F (by omega) (by rw [hfin]; simp)
  have hcall : (Expr.callFn fn_WBS_roots_set (.listCons (.var "cloned_project") (.listCons
      (.listComp (.dictIndex (.var "cloned_tasks") (.attr (.var "r") "id")) "r" (.var "roots") (.bool true))
      .listNil))).evalP (Hw filt F) [] ρ3 (setHR st (encHeap gP) (s.n + sel.length + 1)) =
      .ok (.atom .none, setHR st (encHeap (setChildren gP (s.n + sel.length)
        (roots.filterMap (cloneOf s.n sel))).1) (s.n + sel.length + 1)) := by
    rw [evalP_callFn2 (ha := evalP_var _ _ _ _ _ _ g_cp) (hb := hcomp), hset, ← Prod.eta (setChildren gP _ _), hfin]
    rfl
  rw [execBlockP_cons, execP_expr (he := hcall)]
  simp only []
  -- the public attributes of the WBS object, the result
  have hprim : (Expr.prim "copy_attrs" (.listCons (.var "cloned_project") (.listCons (.var "self") .listNil))).evalP
      (Hw filt F) [] ρ3 (setHR st (encHeap (setChildren gP (s.n + sel.length)
        (roots.filterMap (cloneOf s.n sel))).1) (s.n + sel.length + 1)) =
      .ok (.atom .none, setHR st (encHeap (setChildren gP (s.n + sel.length)
        (roots.filterMap (cloneOf s.n sel))).1) (s.n + sel.length + 1)) := by
    simp only [Expr.evalP, g_cp, g_self, bind, Except.bind, pure, Except.pure, Hw_prim, wbsPrim, String.reduceEq,
      if_false, if_true]
  rw [execBlockP_cons, execP_expr (he := hprim)]
  simp only []
  rw [execBlockP_cons, execP_ret (he := evalP_var _ _ _ _ _ _ g_cp)]
  simp only [cloneResult, setChildren_n, hgn]

end cloneRec

/-! ### the entry points -/

/-- STAGE 3, `WBS.subtree(v)` (`_to_list(v)` = the tasks `roots`) = `cloneSel s w roots`: for every reachable state
    (`Inv`), every WBS `w` of it and roots that are members of that WBS; `st` any Python state with the store
    `encHeap s` and the allocation pointer `s.n`.  The result: the new WBS object is the hidden root the model
    allocates, the store is the encoding of the model's new state, the allocation pointer its universe size.
    (The model never fails on such inputs - `cloneSel_accepted` - so there is no recursion proviso.) -/
theorem interpSubtree_eq (s : G) (st : PState) (hh : st.heap = encHeap s) (hr : st.reads = s.n) (hi : Inv s) (w : Uid)
    (hwbs : s.hidden w = true) (v : Val) (roots : List Uid) (hv : ValueOf v roots)
    (hm : ∀ r ∈ roots, s.owner r = some w ∧ s.hidden r = false) (F : Nat) (hF : (cloneSel s w roots).1.n + 12 ≤ F) :
    interpSubtree F w v st = cloneResult st (cloneSel s w roots) := by
  obtain ⟨F, rfl⟩ : ∃ F', F = F' + 2 := ⟨F - 2, by omega⟩
  unfold interpSubtree
  rw [interpW_eq, fnW_top _ _ _ _ _ wf_subtree, callPV_eq]
  have hrec := clone_rec_spec noFilt st hh hr hi hwbs roots hm (F + 1) (by omega)
  simp only [src_WBS_subtree_params, src_WBS_subtree, bindParamsV, pure, Except.pure, bind, Except.bind]
  have hcall : (Expr.callFn fn_WBS_clone_rec (.listCons (.var "self") (.listCons
      (.callFn fn_to_list (.listCons (.var "roots") .listNil)) .listNil))).evalP (Hw noFilt (F + 1)) []
      [("self", .atom (.ref w)), ("roots", v)] st = cloneResult st (cloneSel s w roots) := by
    rw [evalP_callFn2 (ha := evalP_var _ _ _ _ _ _ rfl) (hb := by
      rw [evalP_callFn1 (ha := evalP_var _ _ _ _ _ _ rfl), fnW_base _ _ _ wf_base_to_list, hv st F]), hrec]
  rw [execBlockP_cons]
  simp only [Stmt.execP, hcall]
  rcases cloneSel s w roots with ⟨s', _ | e, nw⟩ <;> rfl

/-- STAGE 3, `WBS.clone()` = `cloneWbs s w`, for every reachable state and every WBS `w` of it -/
theorem interpClone_eq (s : G) (st : PState) (hh : st.heap = encHeap s) (hr : st.reads = s.n) (hi : Inv s) (w : Uid)
    (hwbs : s.hidden w = true) (F : Nat) (hF : (cloneWbs s w).1.n + 12 ≤ F) :
    interpClone F w st = cloneResult st (cloneWbs s w) := by
  obtain ⟨F, rfl⟩ : ∃ F', F = F' + 2 := ⟨F - 2, by omega⟩
  unfold interpClone cloneWbs
  unfold cloneWbs at hF
  rw [interpW_eq, fnW_top _ _ _ _ _ wf_clone, callPV_eq]
  have hm : ∀ r ∈ s.children w, s.owner r = some w ∧ s.hidden r = false := by
    intro r hr'
    refine ⟨?_, (children_ok s hi w r hr').1⟩
    rw [hi.own.inherit r w ((hi.wf.listed r w).mpr hr')]
    exact hi.own.root w hwbs
  have hrec := clone_rec_spec noFilt st hh hr hi hwbs (s.children w) hm (F + 1) (by omega)
  have hget := interpRootsGet_eq s st hh w (F + 1) (by omega)
  unfold interpRootsGet at hget
  rw [interpW_eq] at hget
  simp only [src_WBS_clone_params, src_WBS_clone, bindParamsV, pure, Except.pure, bind, Except.bind]
  have hcall : (Expr.callFn fn_WBS_clone_rec (.listCons (.var "self") (.listCons
      (.callFn fn_WBS_roots_get (.listCons (.var "self") .listNil)) .listNil))).evalP (Hw noFilt (F + 1)) []
      [("self", .atom (.ref w))] st = cloneResult st (cloneSel s w (s.children w)) := by
    rw [evalP_callFn2 (ha := evalP_var _ _ _ _ _ _ rfl) (hb := by
      rw [evalP_callFn1 (ha := evalP_var _ _ _ _ _ _ rfl), hget]), hrec]
  rw [execBlockP_cons]
  simp only [Stmt.execP, hcall]
  rcases cloneSel s w (s.children w) with ⟨s', _ | e, nw⟩ <;> rfl

section axioms
#print axioms interpTasks_eq
#print axioms interpGetitem_eq
#print axioms interpRootsGet_eq
#print axioms interpRootsSet_eq
#print axioms interpFloordiv_eq
#print axioms interpRemove_eq
#print axioms interpRemoveAll_eq
#print axioms interpSubtree_eq
#print axioms interpClone_eq
end axioms

/-!
  ## Negative check (scratch copies of wbs.py / task.py; scratch/neg/run.py: the mutation is applied, the translator is
  run, the generated Extracted/WbsSrc.lean is put into a scratch copy of the lean tree and WbsSrcCheck, WbsSrcCheckC,
  WbsSrcA, WbsSrcB, WbsSrcC1, WbsSrcC are built).  Every semantic mutation is a Miss of the translator, a failing
  kernel-checked example or a failing lemma:

  semantic mutations
   M1  `__getitem__` walks `_collect_subtree(self.__root)` (the hidden root included)
         translated; examples FAIL (`getAgree g1`, `getAgree g2`: `wbs[EMPTY_TASK_ID]` finds the hidden root); lemma
         `getitem_spec` FAILS.
   M2  `__clone_tasks` skips plain leaves: `… if len(t.children) > 0`            Miss (a facade may only be iterated …);
         `… if [c for c in t.children] != []`   translated; examples FAIL (`cloneAgree`, `subtreeAgree`, CheckC);
         lemma `ctCollectBody_eq` FAILS.    `… if t.parent is not None` (skips top-level tasks): examples FAIL
         (`subtreeAgree g5 0 [0]` / `[6]`), the same lemma FAILS.
   M3  `link_target` looks the id up in `cloned_tasks` BEFORE testing `task.wbs != self`
         translated; examples FAIL (`cloneAgree g5 0`, `g5 6`: the outside task t7 shares its id with t2 - the clone
         gets linked to the clone of t2 instead of t7; `subtreeAgree`); lemma `link_target_spec` FAILS.
   M4  `subtree` without `_to_list`        translated; examples FAIL (a single task / a list with `None`s as the
         argument: CheckC); lemma `interpSubtree_eq` FAILS.
   M5  `remove_all` returns only the tasks that were found: `return _ImmutableTaskList(found)`   Miss;
         `return found`   translated; examples FAIL (`removeAllAgree g1 0 [1, 2, 3]`, `[9, 1]`: a chosen task that
         is gone / foreign is missing from the value); lemma `interpRemoveAll_eq` FAILS.
   M6  `__remove` does not recurse         translated; examples FAIL (`removeAgree g1`, `g2`, `g3`, `removeAllAgree`);
         lemmas `rm_shape`, `rm_loop`, `remove_rec_spec` FAIL.
   M7  `__clone` takes the roots of the copy from `self.__root.children` instead of `roots`
         translated; examples FAIL (`subtreeAgree g5 0 [1]`, `[2]`, …); lemma `clone_rec_spec` FAILS.
   M8  the parent of a clone from `_raw_parent()` instead of the public `parent`          Miss (receiver).
   M9  the successors are not copied       translated; examples FAIL (`cloneAgree`, `subtreeAgree`); lemma `ctBody_eq`
         / `ct_step` FAIL.
   M10 `__floordiv__` returns `self.__root`                                                Miss (expression statement).
   M11 `remove` without the `isinstance` test    translated; examples FAIL (`wbs.remove(None)`, `wbs.remove([…])`
         must raise RuntimeError); lemmas `interpRemove_none`, `interpRemove_list` FAIL.
   M13 `_ChildrenList.remove` filters by id (`t.id != task.id`) instead of identity      Miss (attribute of a facade).
   M14 `Task.clone` passes `parent=self.parent`                                           Miss (Task.clone: the text of
         the constructor primitive is pinned);    M15 `WBS.__init__` without `_attach(self)`   Miss (WBS.__init__).
   M16 the `roots` setter appends (`self.__root.children += value`)                       Miss (augmented assignment).
   M17 `link_target` shares detached tasks only (`if task.wbs is None: return task`; tasks of OTHER WBS are looked up
         by id)   translated; examples FAIL (`cloneAgree g5 0`, `g5 6`, …); lemma `link_target_spec` FAILS.
   M12 `__remove` goes on searching after the task was found and removed (`found = …remove(t); for ch …: if
         self.__remove(t, ch): found = True; return found`): NOT observable - a forest holds a task once, and on
         the cyclic g3 both versions end in RecursionError - all examples pass; the lemmas `rm_shape`, `rm_loop`,
         `remove_rec_spec` FAIL (the proof is about the changed control flow), i.e. the change is noticed, as a failing
         lemma.
  harmless rewrites
   H1  docstrings, comments, return annotations, redundant parentheses;  H2  `self._root()` for `self.__root`;
   H5  `if len(tasks_to_delete) == 0` for `if not tasks_to_delete`:   the SAME generated term - everything checks.
   H3  a local renamed (`cloned_project` → `copy`): all examples pass, WbsSrcA / B / C1 pass; `clone_rec_spec` (which
       names the variable) needs the new name.   H4  `task_id == t.id` for `t.id == task_id`: all examples pass;
       `getitem_spec` (which names the expression) needs the flipped comparison.
-/

end Pj.WbsSrc
