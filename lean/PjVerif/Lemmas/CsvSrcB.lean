/-
  Lemmas/CsvSrcB.lean — CSV I/O (io/csv_io.py, io/raw.py): GENERAL theorems of the translated tie, for EVERY library
  `L : IOLib`, every input and any fuel ≥ the depth of the calls.  Summary (proofs in CsvSrcB1.lean, CsvSrcW.lean …
  CsvSrcW9.lean; nothing here is a kernel run except the last section, which instantiates the theorem):

  1. cells (CsvSrcB1):  `parse_bool_eq`, `parse_int_eq`, `parse_float_eq`, `parse_date_eq`, `parse_predecessors_eq`,
     `format_custom_eq` (and `format_custom_run` on any store, CsvSrcW3) — with `parse_str_eq` of CsvSrcA all eight cell
     functions.  `__format_custom` passes every value that is not a datetime on unchanged (None too: the `''` is made by
     the csv writer, `IOLib.cell`).
  2. header (CsvSrcB1):  `parse_header_run` (the dict `hdrDict cells`, store unchanged) and `hdrDict_get`
     (`header[name]` = the model's `headerIndex`: BOM stripped, the LAST of repeated names).
  3. write side:  `tasks_to_raws_run` (CsvSrcW) and
       `write_csv_eq : WF W → interpWrite L (F + 3) W = .ok (writeCsv (recsOf L W))`   (CsvSrcW9).
     `WF W` (CsvSrcW): roots / children / predecessors / parents name tasks of `W`; custom attribute names are distinct,
     not a slot of `Task` / `TaskRaw`, do not start with '_', their values are None / number / bool / str / datetime.
  4. read side, first half only (CsvSrcR … CsvSrcR8): the cell parsers on any store (`parse_*_run`), the key order of the
     header dict (`hdrDict_keys`: the BOM-free names, first occurrences), `TaskRaw(..., **kwargs)` (`taskRaw_init_kw`), the
     keyword arguments of a data row (`kw_read_loop`, `kwStep`: `min_start` through `__parse_date`, every other
     non-standard column as text), and
       `read_csv_reduce : parse text = some (hdr :: rows) → RowsRaw L hdr rows es →
          interpRead L (F + 3) text = runIO L csvFuns (F + 2) fn_raws_to_wbs [.list (rawRefs 0 es.length)] (readSt hdr rows es)`
     (success direction: every standard cell present and parsed; `rowOK_of_readRow`, CsvSrcR9, derives that from the
     model's `readRow` and the parsers `expectRead` applies).  NOT done: `raws_to_wbs` = `rebuildForest` (the three
     loops over the raw objects, `wbs[id]`), hence not the statement of CsvSrcCheckC; the error direction of `read_csv`.
     Note for that statement: `expectRead` does not look at whether a predecessor id names a task, the program raises
     RuntimeError there (CsvSrcD.lean) — a general theorem needs that hypothesis.
-/
import PjVerif.Lemmas.CsvSrcR9
import PjVerif.Lemmas.CsvSrcCheck
namespace Pj.CsvSrc
open Pj.PyLite Pj.Extracted.Csv Pj.Csv

/-! ### `WF` is decidable on a concrete description -/

instance (W : WbsD) (i : Nat) : Decidable (valid W i) := by unfold valid; infer_instance

instance : (a : Atom) → Decidable (cellOK a)
  | .none => isTrue trivial
  | .num _ => isTrue trivial
  | .bool _ => isTrue trivial
  | .str _ => isTrue trivial
  | .time _ => isTrue trivial
  | .delta _ => isFalse id
  | .ref _ => isFalse id
  | .row _ _ _ _ => isFalse id
  | .fn _ => isFalse id
  | .box _ => isFalse id

def WFb (W : WbsD) : Prop :=
  (∀ i ∈ W.roots, valid W i) ∧
  ∀ d ∈ W.tasks, (∀ c ∈ d.children, valid W c) ∧ (∀ p ∈ d.preds, valid W p) ∧ (∀ p ∈ d.parent.toList, valid W p) ∧
    (d.custom.map (·.1)).Nodup ∧
    ∀ p ∈ d.custom, p.1 ∉ reserved ∧ ['_'].isPrefixOf p.1.toList = false ∧ cellOK p.2

instance (W : WbsD) : Decidable (WFb W) := by unfold WFb; infer_instance

theorem WF_of {W : WbsD} (h : WFb W) : WF W where
  roots := h.1
  children := fun d hd => (h.2 d hd).1
  preds := fun d hd => (h.2 d hd).2.1
  parent := fun d hd p hp => (h.2 d hd).2.2.1 p (by simp [hp])
  custom := fun d hd => ⟨(h.2 d hd).2.2.2.1, (h.2 d hd).2.2.2.2⟩

/-! ### the descriptions of the kernel-checked runs (CsvSrcCheckB.lean) are instances, for every library -/

theorem wf_w0 : WF Check.w0 := WF_of (by decide +kernel)
theorem wf_w2 : WF Check.w2 := WF_of (by decide +kernel)
theorem wf_w1 : WF Check.w1 := WF_of (by decide +kernel)

example (L : IOLib) : interpWrite L 8 Check.w1 = .ok (writeCsv (recsOf L Check.w1)) := write_csv_eq L 5 _ wf_w1
example (L : IOLib) : interpWrite L 3 Check.w2 = .ok (writeCsv (recsOf L Check.w2)) := write_csv_eq L 0 _ wf_w2

#print axioms parse_predecessors_eq
#print axioms format_custom_eq
#print axioms parse_header_run
#print axioms hdrDict_get
#print axioms tasks_to_raws_run
#print axioms write_csv_eq
#print axioms read_csv_reduce
#print axioms rowOK_of_readRow

end Pj.CsvSrc
