/-
  Lemmas/CsvSrcW8.lean — CSV I/O, the WRITE side, part 8: the rows loop and the theorem `write_csv_eq`:
  for every library `L` and every well-formed description `W`,
    interpWrite L (F + 3) W = .ok (writeCsv (recsOf L W)).
-/
import PjVerif.Lemmas.CsvSrcW7
namespace Pj.CsvSrc
open Pj.PyLite Pj.Extracted.Csv Pj.Csv

section more
variable {H : PHandlers} {self : PyLite.Env}
theorem eval_newBox {l : Expr} {env : PyLite.Env} {st st' : PState} {lv : Val} {vs : List Atom}
    (hl : l.evalP H self env st = .ok (lv, st')) (hvs : iterOf lv = .ok vs) :
    (Expr.newBox l).evalP H self env st =
      .ok (.atom (.box st'.boxes.length), { st' with boxes := st'.boxes ++ [vs] }) := by
  simp only [Expr.evalP, hl, hvs, bind, Except.bind, pure, Except.pure]
end more

def rowText (L : IOLib) (W : WbsD) (cols : List Str) (d : TaskD) : Str := encodeRow (rowCells cols (recOf L W d))

theorem rows_loop (L : IOLib) (F : Nat) (rec) (W : WbsD) (hWF : WF W) (b : Nat) (cols : List Str)
    (hcols : ∀ col ∈ cols, defaultFields.contains col = false) :
    ∀ (ps : List (Nat × TaskD)) (env : PyLite.Env) (st : PState) (vs : List Atom),
      (∀ p ∈ ps, st.heap p.1 = rawEnv W p.2 ∧ p.2 ∈ W.tasks) →
      env.get? "csvwriter" = some (.list [.box b, strA [';']]) →
      env.get? "field_list" = some (.list (cols.map strA)) → st.boxes[b]? = some vs →
      ∃ env', forLoopP "task" (fun e s => execBlockP (HH L (F + 1)) [] rec [writeStmt rowE] e s)
          (ps.map (fun p => Atom.ref p.1)) env st =
        .normal env' { st with boxes := st.boxes.set b (vs ++ ps.map (fun p => strA (rowText L W cols p.2))) }
  | [], env, st, vs, _, _, _, hb => by
    obtain ⟨hlt, heq⟩ := List.getElem?_eq_some_iff.1 hb
    refine ⟨env, ?_⟩
    simp only [List.map_nil, forLoopP, List.append_nil]
    rw [← heq, List.set_getElem_self]
  | p :: ps, env, st, vs, hps, hcw, hfl, hb => by
    obtain ⟨hlt, -⟩ := List.getElem?_eq_some_iff.1 hb
    obtain ⟨hr, hdm⟩ := hps p (List.mem_cons_self ..)
    let env0 := env.set "task" (.atom (.ref p.1))
    have ht0 : env0.get? "task" = some (.atom (.ref p.1)) := by rw [envGet_set, if_pos rfl]
    have hcw0 : env0.get? "csvwriter" = some (.list [.box b, strA [';']]) := by
      rw [envGet_set, if_neg (by decide)]; exact hcw
    have hfl0 : env0.get? "field_list" = some (.list (cols.map strA)) := by
      rw [envGet_set, if_neg (by decide)]; exact hfl
    have hrow := exec_writerow L (F + 1) rec env0 st b rowE (rowAtoms L W p.2 cols) (rowCells cols (recOf L W p.2)) vs
      hcw0 (eval_rowE L F W hWF env0 st p.1 p.2 cols hdm hr ht0 hfl0 hcols)
      (row_atoms_cell L W p.2 cols (hWF.custom p.2 hdm) hcols) hb
    obtain ⟨env', h1⟩ := rows_loop L F rec W hWF b cols hcols ps env0
      { st with boxes := st.boxes.set b (vs ++ [strA (rowText L W cols p.2)]) } (vs ++ [strA (rowText L W cols p.2)])
      (fun q hq => hps q (List.mem_cons_of_mem _ hq)) hcw0 hfl0 (List.getElem?_set_self hlt)
    refine ⟨env', ?_⟩
    have hbody : execBlockP (HH L (F + 1)) [] rec [writeStmt rowE] env0 st = .normal env0
        { st with boxes := st.boxes.set b (vs ++ [strA (rowText L W cols p.2)]) } := by
      rw [block_cons_normal hrow]; rfl
    rw [List.map_cons, forLoopP, hbody]
    dsimp only
    rw [h1]
    simp only [List.set_set, List.append_assoc, List.map_cons, List.cons_append, List.nil_append]

/-- the tasks behind `wbs.tasks` -/
theorem order_ds (L : IOLib) (W : WbsD) : ∀ (is : List Nat), (∀ i ∈ is, valid W i) →
    ∃ ds : List TaskD, is.map (taskAt W) = ds.map some ∧ (∀ d ∈ ds, d ∈ W.tasks) ∧
      is.filterMap (fun i => (taskAt W i).map (recOf L W)) = ds.map (recOf L W)
  | [], _ => ⟨[], rfl, fun _ h => (by cases h), rfl⟩
  | i :: is, hv => by
    obtain ⟨d, h1, -, h3⟩ := valid_task (hv i (List.mem_cons_self ..))
    obtain ⟨ds, g1, g2, g3⟩ := order_ds L W is (fun j hj => hv j (List.mem_cons_of_mem _ hj))
    refine ⟨d :: ds, by simp [h1, g1], fun x hx => ?_, by simp [List.filterMap_cons, h1, g3]⟩
    rcases List.mem_cons.1 hx with rfl | hx
    · exact h3
    · exact g2 x hx

end Pj.CsvSrc
