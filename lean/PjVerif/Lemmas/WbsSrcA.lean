/-
  Lemmas/WbsSrcA.lean — stage 1 of the translated tie for wbs.py (general theorems): `WBS.tasks`, `WBS.__getitem__`,
  the `roots` getter / setter, `WBS.__floordiv__` (with `Task.__floordiv__`).  See Lemmas/WbsSrc.lean.
-/
import PjVerif.Lemmas.WbsSrc
import PjVerif.Lemmas.TaskSrcD
namespace Pj.WbsSrc
open Pj.PyLite Pj.Extracted Pj.TaskSrc
set_option linter.unusedSimpArgs false
set_option linter.unusedVariables false

/-! ### the layered program and its handlers -/

variable (filt : List Atom → PState → List Uid)

theorem interpW_eq (F k : Nat) (args : List Val) (st : PState) :
    interpW filt F k args st = (Hw filt F).fnV k args st := rfl

/-- a call of a function of wbs.py -/
theorem fnW_top (F k : Nat) (params : List String) (body : List Stmt) (h : wbsFuns k = some (params, body))
    (args : List Val) (st : PState) :
    (Hw filt (F + 1)).fnV k args st = callPV (Hw filt F) params body args st := by
  simp only [Hw, progW, h]

/-- a call of a function of task.py leaves the layer: it is the run of the program of task.py -/
theorem fnW_base (F k : Nat) (h : wbsFuns k = none) (args : List Val) (st : PState) :
    (Hw filt (F + 1)).fnV k args st = (Hd (F + 1)).fnV k args st := by
  simp only [Hw, progW, h, runProg, Hd]

theorem fnW_zero (k : Nat) (args : List Val) (st : PState) :
    (Hw filt 0).fnV k args st = .error (.crash .recursion) := rfl

theorem Hw_prim (F : Nat) : (Hw filt F).prim = wbsPrim filt := by cases F <;> rfl
theorem Hw_fn (F : Nat) : (Hw filt F).fn = wbsFn := by cases F <;> rfl

theorem prim_root (w : Uid) (st : PState) : wbsPrim filt "_root" [.ref w] st = .ok (.atom (.ref w)) := rfl

/-- `self.__root` -/
theorem evalP_root (F : Nat) (self ρ : PyLite.Env) (st : PState) (x : String) (w : Uid)
    (hx : ρ.get? x = some (.atom (.ref w))) :
    (Expr.prim "_root" (.listCons (.var x) .listNil)).evalP (Hw filt F) self ρ st = .ok (.atom (.ref w), st) := by
  simp only [Expr.evalP, hx, bind, Except.bind, pure, Except.pure, Hw_prim, prim_root]

/-- symbolic execution of a translated body of wbs.py -/
syntax "pyw" (" [" Lean.Parser.Tactic.simpLemma,* "]")? : tactic
macro_rules
  | `(tactic| pyw) => `(tactic| pyw [])
  | `(tactic| pyw [$ls,*]) => `(tactic|
      simp [callPV_eq, bindParamsV, execBlockP, Stmt.execP, Expr.evalP, Expr.evalArgsP, iterOf, truthP, arithP, arith,
        arithTime, PyLite.compare, cmpRat, Atom.asNum?, pure, Except.pure, bind, Except.bind,
        throw, throwThe, MonadExceptOf.throw, Env.get?_set, Env.get?_cons, Env.get?_nil, encHeap_apply,
        encTask_id, encTask_parent, encTask_children, encTask_preds, encTask_succs, encTask_wbs, Hw_prim, Hw_fn, prim_root,
        $ls,*])

/-- the same with `simp only` (no other simp lemma interferes) -/
syntax "pyo" (" [" Lean.Parser.Tactic.simpLemma,* "]")? : tactic
macro_rules
  | `(tactic| pyo) => `(tactic| pyo [])
  | `(tactic| pyo [$ls,*]) => `(tactic|
      simp only [callPV_eq, bindParamsV, execBlockP, Stmt.execP, Expr.evalP, Expr.evalArgsP, iterOf, truthP, arithP, arith,
        arithTime, PyLite.compare, cmpRat, Atom.asNum?, pure, Except.pure, bind, Except.bind,
        throw, throwThe, MonadExceptOf.throw, Env.get?_set, Env.get?_cons, Env.get?_nil, encHeap_apply,
        encTask_id, encTask_parent, encTask_children, encTask_preds, encTask_succs, encTask_wbs, Hw_prim, Hw_fn, prim_root,
        $ls,*])

theorem wf_base_get_all_children : wbsFuns fn_Task_get_all_children = none := rfl
theorem wf_base_children_set : wbsFuns fn_Task_children_set = none := rfl
theorem wf_base_to_list : wbsFuns fn_to_list = none := rfl
theorem wf_base_check_not_none : wbsFuns fn_check_not_none = none := rfl
theorem wf_base_parent_set : wbsFuns fn_Task_parent_set = none := rfl
theorem wf_base_parent_get : wbsFuns fn_Task_parent_get = none := rfl
theorem wf_base_preds_set : wbsFuns fn_Task_predecessors_set = none := rfl
theorem wf_base_succs_set : wbsFuns fn_Task_successors_set = none := rfl

theorem wf_tasks : wbsFuns fn_WBS_tasks = some (src_WBS_tasks_params, src_WBS_tasks) := rfl
theorem wf_getitem : wbsFuns fn_WBS_getitem = some (src_WBS_getitem_params, src_WBS_getitem) := rfl
theorem wf_roots_get : wbsFuns fn_WBS_roots_get = some (src_WBS_roots_get_params, src_WBS_roots_get) := rfl
theorem wf_roots_set : wbsFuns fn_WBS_roots_set = some (src_WBS_roots_set_params, src_WBS_roots_set) := rfl
theorem wf_floordiv : wbsFuns fn_WBS_floordiv = some (src_WBS_floordiv_params, src_WBS_floordiv) := rfl
theorem wf_task_floordiv : wbsFuns fn_Task_floordiv = some (src_Task_floordiv_params, src_Task_floordiv) := rfl

/-! ### `WBS.tasks` -/

/-- `wbs.tasks` = `descF s.children` from the hidden root (`wbsTasks`) -/
theorem tasks_spec (s : G) (st : PState) (hh : st.heap = encHeap s) (f : Nat) (w : Uid) (r : List Uid)
    (h : descF s.children f w = some r) (F : Nat) (hF : f + 2 ≤ F) :
    (Hw filt F).fnV fn_WBS_tasks [.atom (.ref w)] st = .ok (refs r, st) := by
  obtain ⟨F, rfl⟩ : ∃ F', F = F' + 2 := ⟨F - 2, by omega⟩
  rw [fnW_top _ _ _ _ _ wf_tasks]
  have hg := get_all_children_spec s st hh f w r h (F + 1) (by omega)
  pyw [src_WBS_tasks_params, src_WBS_tasks, fnW_base _ _ _ wf_base_get_all_children, hg]

/-- STAGE 1, `WBS.tasks`: the member list of the model -/
theorem interpTasks_eq (s : G) (st : PState) (hh : st.heap = encHeap s) (w : Uid) (r : List Uid)
    (h : wbsTasks s w = some r) (F : Nat) (hF : s.n + 3 ≤ F) :
    interpTasks F w st = .ok (refs r, st) :=
  tasks_spec noFilt s st hh s.fuel w r h F (by unfold G.fuel; omega)

/-! ### the `roots` property -/

/-- STAGE 1, the `roots` getter: the list of the root tasks (as the list it is at that time) -/
theorem interpRootsGet_eq (s : G) (st : PState) (hh : st.heap = encHeap s) (w : Uid) (F : Nat) (hF : 1 ≤ F) :
    interpRootsGet F w st = .ok (refs (s.children w), st) := by
  obtain ⟨F, rfl⟩ : ∃ F', F = F' + 1 := ⟨F - 1, by omega⟩
  unfold interpRootsGet
  rw [interpW_eq, fnW_top _ _ _ _ _ wf_roots_get]
  pyw [src_WBS_roots_get_params, src_WBS_roots_get, hh]

theorem roots_set_spec (s : G) (st : PState) (hh : st.heap = encHeap s) (w : Uid) (v : Val) (l : List Uid)
    (hv : ValueOf v l) (F : Nat) (hF : s.n + 7 ≤ F) (hrec : (setChildren s w l).2 ≠ some (.crash .recursion)) :
    (Hw filt F).fnV fn_WBS_roots_set [.atom (.ref w), v] st = setterResult st (setChildren s w l) := by
  obtain ⟨F, rfl⟩ : ∃ F', F = F' + 2 := ⟨F - 2, by omega⟩
  rw [fnW_top _ _ _ _ _ wf_roots_set]
  have hc := interpSetChildren_eq s st hh w v l hv (F + 1) (by omega) hrec
  unfold interpSetChildren at hc
  rw [interp_eq] at hc
  cases hr : setChildren s w l with
  | mk s' e =>
    rw [hr] at hc
    cases e with
    | none => pyw [src_WBS_roots_set_params, src_WBS_roots_set, fnW_base _ _ _ wf_base_children_set, hc, setterResult]
    | some e => pyw [src_WBS_roots_set_params, src_WBS_roots_set, fnW_base _ _ _ wf_base_children_set, hc, setterResult]

/-- STAGE 1, the `roots` setter: the children setter on the hidden root -/
theorem interpRootsSet_eq (s : G) (st : PState) (hh : st.heap = encHeap s) (w : Uid) (v : Val) (l : List Uid)
    (hv : ValueOf v l) (F : Nat) (hF : s.n + 7 ≤ F) (hrec : (setChildren s w l).2 ≠ some (.crash .recursion)) :
    interpRootsSet F w v st = setterResult st (setChildren s w l) :=
  roots_set_spec noFilt s st hh w v l hv F hF hrec

/-! ### `//` -/

/-- what a run that returns the value `v` is compared with -/
def resultV (st : PState) (v : Val) (r : G × Option Err) : Res (Val × PState) :=
  match r with
  | (s', none) => .ok (v, withG st s')
  | (_, some e) => .error e

/-- `task // other`: `self.children += other; return other` -/
theorem task_floordiv_spec (s : G) (st : PState) (hh : st.heap = encHeap s) (h : Uid) (v : Val) (l : List Uid)
    (hv : ValueOf v l) (F : Nat) (hF : s.n + 7 ≤ F) (hrec : (floordiv s h l).2 ≠ some (.crash .recursion)) :
    (Hw filt F).fnV fn_Task_floordiv [.atom (.ref h), v] st = resultV st v (floordiv s h l) := by
  obtain ⟨F, rfl⟩ : ∃ F', F = F' + 2 := ⟨F - 2, by omega⟩
  rw [fnW_top _ _ _ _ _ wf_task_floordiv]
  unfold floordiv at hrec ⊢
  have hc := interpSetChildren_eq s st hh h (refs (s.children h ++ l)) _ (valueOf_refs _) (F + 1) (by omega) hrec
  unfold interpSetChildren at hc
  rw [interp_eq] at hc
  have hcat : (Val.list (List.map Atom.ref (s.children h) ++ List.map Atom.ref l)) = refs (s.children h ++ l) := by
    simp [refs]
  cases hr : setChildren s h (s.children h ++ l) with
  | mk s' e =>
    rw [hr] at hc
    cases e with
    | none =>
      pyw [src_Task_floordiv_params, src_Task_floordiv, fnW_base _ _ _ wf_base_children_set,
        fnW_base _ _ _ wf_base_to_list, hv st F, hh, refs, resultV]
      rw [hcat, hc]
      pyw [setterResult]
    | some e =>
      pyw [src_Task_floordiv_params, src_Task_floordiv, fnW_base _ _ _ wf_base_children_set,
        fnW_base _ _ _ wf_base_to_list, hv st F, hh, refs, resultV]
      rw [hcat, hc]
      pyw [setterResult]

/-- STAGE 1, `wbs // v` = `floordiv` on the hidden root; the value is `v` -/
theorem interpFloordiv_eq (s : G) (st : PState) (hh : st.heap = encHeap s) (w : Uid) (v : Val) (l : List Uid)
    (hv : ValueOf v l) (F : Nat) (hF : s.n + 8 ≤ F) (hrec : (floordiv s w l).2 ≠ some (.crash .recursion)) :
    interpFloordiv F w v st = resultV st v (floordiv s w l) := by
  obtain ⟨F, rfl⟩ : ∃ F', F = F' + 1 := ⟨F - 1, by omega⟩
  unfold interpFloordiv
  rw [interpW_eq, fnW_top _ _ _ _ _ wf_floordiv]
  have ht := task_floordiv_spec noFilt s st hh w v l hv F (by omega) hrec
  cases hr : floordiv s w l with
  | mk s' e =>
    rw [hr] at ht
    cases e with
    | none => pyw [src_WBS_floordiv_params, src_WBS_floordiv, ht, resultV]
    | some e => pyw [src_WBS_floordiv_params, src_WBS_floordiv, ht, resultV]

/-! ### `WBS.__getitem__` -/

/-- `next(elt for x in vs if cond)` when the element / condition only read -/
theorem nextLoopP_pure (f : Atom → PState → Res (Option Atom × PState)) (g : Atom → Option Atom) (st : PState) :
    ∀ (vs : List Atom), (∀ v ∈ vs, f v st = .ok (g v, st)) → nextLoopP f vs st = .ok (vs.findSome? g, st) := by
  intro vs
  induction vs with
  | nil => intro _; rfl
  | cons v vs ih =>
    intro h
    have h1 := h v List.mem_cons_self
    have h2 := ih (fun v hv => h v (List.mem_cons_of_mem _ hv))
    simp only [nextLoopP, h1, bind, Except.bind, List.findSome?_cons]
    cases g v with
    | some a => rfl
    | none => simpa using h2

/-- `next(elt for x in it if cond)` whose condition and element only read: the first item satisfying `p` -/
theorem evalP_nextComp_pure (H : PHandlers) (self ρ : PyLite.Env) (st0 st : PState) (elt cond it : Expr) (x : String)
    (vs : List Atom) (p : Atom → Bool) (e : Atom → Atom)
    (hit : it.evalP H self ρ st0 = .ok (.list vs, st))
    (hc : ∀ v ∈ vs, cond.evalP H self (ρ.set x v) st = .ok (.atom (.bool (p v)), st))
    (he : ∀ v ∈ vs, p v = true → elt.evalP H self (ρ.set x v) st = .ok (.atom (e v), st)) :
    (Expr.nextComp elt x it cond).evalP H self ρ st0 =
      match vs.find? p with
      | some v => .ok (.atom (e v), st)
      | none => .error (.crash .stopIteration) := by
  simp only [Expr.evalP, hit, bind, Except.bind, pure, Except.pure, iterOf]
  rw [nextLoopP_pure (g := fun v => if p v then some (e v) else none)]
  · have key : vs.findSome? (fun v => if p v then some (e v) else none) = (vs.find? p).map e := by
      clear hc he hit
      induction vs with
      | nil => rfl
      | cons v vs ih => cases hp : p v <;> simp [hp, ih]
    simp only [key]
    cases vs.find? p <;> rfl
  · intro v hv
    cases hp : p v with
    | false => simp [hc v hv, hp, truthP, pure, Except.pure]
    | true => simp [hc v hv, he v hv hp, hp, truthP, pure, Except.pure]

theorem find_refs (p : Uid → Bool) (l : List Uid) :
    (l.map Atom.ref).find? (fun a => match a with | .ref t => p t | _ => false) = (l.find? p).map Atom.ref := by
  induction l with
  | nil => rfl
  | cons a l ih =>
    simp only [List.map_cons, List.find?_cons]
    cases p a <;> simp [ih]

/-- `wbs[i]` = `wbsGet`: the first member with the id `i`, RuntimeError when there is none -/
theorem getitem_spec (s : G) (st : PState) (hh : st.heap = encHeap s) (f : Nat) (w : Uid) (r : List Uid)
    (h : descF s.children f w = some r) (i : Int) (F : Nat) (hF : f + 2 ≤ F) :
    (Hw filt F).fnV fn_WBS_getitem [.atom (.ref w), .atom (idA i)] st =
      match r.find? (fun t => s.tid t == i) with
      | some t => .ok (.atom (.ref t), st)
      | none => .error .runtime := by
  obtain ⟨F, rfl⟩ : ∃ F', F = F' + 2 := ⟨F - 2, by omega⟩
  rw [fnW_top _ _ _ _ _ wf_getitem, callPV_eq]
  have hg := get_all_children_spec s st hh f w r h (F + 1) (by omega)
  simp only [src_WBS_getitem_params, src_WBS_getitem, bindParamsV, pure, Except.pure, bind, Except.bind, execBlockP,
    Stmt.execP]
  rw [evalP_nextComp_pure (vs := r.map Atom.ref) (st := st)
    (p := fun a => match a with | .ref t => s.tid t == i | _ => false) (e := fun a => a)
    (hit := by pyw [fnW_base _ _ _ wf_base_get_all_children, hg, refs])
    (hc := by
      intro v hv
      obtain ⟨t, _, rfl⟩ := List.mem_map.1 hv
      pyw [hh, pyEq_idA]
      cases hid : (s.tid t == i) <;> simpa using hid)
    (he := by
      intro v hv _
      pyw [])]
  rw [find_refs]
  cases r.find? (fun t => s.tid t == i) <;> simp

/-- what `wbs[i]` is compared with -/
def getResult (st : PState) (r : Res Uid) : Res (Val × PState) :=
  match r with
  | .ok t => .ok (.atom (.ref t), st)
  | .error e => .error e

/-- STAGE 1, `WBS.__getitem__` = `wbsGet` -/
theorem interpGetitem_eq (s : G) (st : PState) (hh : st.heap = encHeap s) (w : Uid) (i : Int) (F : Nat)
    (hF : s.n + 3 ≤ F) (hrec : wbsGet s w i ≠ .error (.crash .recursion)) :
    interpGetitem F w (.atom (idA i)) st = getResult st (wbsGet s w i) := by
  unfold wbsGet at hrec ⊢
  cases hm : wbsTasks s w with
  | none => rw [hm] at hrec; exact absurd rfl hrec
  | some r =>
    have := getitem_spec noFilt s st hh s.fuel w r hm i F (by unfold G.fuel; omega)
    unfold interpGetitem
    rw [interpW_eq, this]
    cases hf : r.find? (fun t => s.tid t == i) <;> simp [getResult, hf]

end Pj.WbsSrc
