/-
  Lemmas/CsvSrcB1.lean — CSV I/O, GENERAL theorems, part 1 (every library `L`, every input, any fuel ≥ the depth of calls):
  the remaining cell functions of csv_io.py = the model's cell functions.
-/
import PjVerif.Lemmas.CsvSrcA
namespace Pj.CsvSrc
open Pj.PyLite Pj.Extracted.Csv Pj.Csv

/-- the handlers a function body of the program runs with -/
abbrev HH (L : IOLib) (F : Nat) : PHandlers := progIO (ioPrim L) (ioFn L) csvFuns F

theorem HH_prim (L : IOLib) (F : Nat) : (HH L F).prim = ioPrim L := progIO_prim _ _ _ _

theorem runIO_fn (L : IOLib) (F k : Nat) (params : List String) (body : List Stmt) (args : List Val) (st : PState)
    (h : csvFuns k = some (params, body)) :
    runIO L csvFuns (F + 1) k args st = callPV (HH L F) params body args st := by
  simp only [runIO, progIO, h, HH]

theorem natCast_eq_zero' (n : Nat) : ((n : Nat) : Rat) = 0 ↔ n = 0 :=
  ⟨fun h => Rat.natCast_inj.1 (h.trans (by rfl)), fun h => by subst h; rfl⟩

/-! ### primitives -/

theorem prim_lit_date (L : IOLib) (st : PState) : ioPrim L "lit:%d.%m.%y" [] st = .ok (.atom (strA dateFormat)) := by
  unfold ioPrim; rw [if_pos (by decide +kernel)]; rfl
theorem prim_lit_semi (L : IOLib) (st : PState) : ioPrim L "lit:;" [] st = .ok (.atom (strA [';'])) := by
  unfold ioPrim; rw [if_pos (by decide +kernel)]; rfl

theorem prim_strptime (L : IOLib) (st : PState) (s : List Char) :
    ioPrim L "strptime" [strA s, strA dateFormat] st = (L.strptime s).map (fun t => Val.atom (Atom.time t)) := by
  unfold ioPrim
  rw [if_neg (by decide +kernel), if_neg (by decide +kernel), if_neg (by decide +kernel), if_neg (by decide +kernel),
    if_neg (by decide +kernel), if_neg (by decide +kernel), if_neg (by decide +kernel), if_neg (by decide +kernel),
    if_neg (by decide +kernel), if_pos (by decide +kernel)]
  simp only [strA, strDecode_code, if_true]

theorem prim_strftime (L : IOLib) (st : PState) (t : Time) :
    ioPrim L "strftime" [.time t, strA dateFormat] st = .ok (.atom (strA (L.strftime t))) := by
  unfold ioPrim
  rw [if_neg (by decide +kernel), if_neg (by decide +kernel), if_neg (by decide +kernel), if_neg (by decide +kernel),
    if_neg (by decide +kernel), if_neg (by decide +kernel), if_neg (by decide +kernel), if_neg (by decide +kernel),
    if_pos (by decide +kernel)]
  simp only [strA, strDecode_code, if_true]; rfl

theorem prim_float (L : IOLib) (st : PState) (s : List Char) :
    ioPrim L "float" [strA s] st = (L.toFloat s).map (fun q => Val.atom (Atom.num q)) := by
  unfold ioPrim
  rw [if_neg (by decide +kernel), if_neg (by decide +kernel), if_neg (by decide +kernel), if_neg (by decide +kernel),
    if_neg (by decide +kernel), if_neg (by decide +kernel), if_neg (by decide +kernel), if_neg (by decide +kernel),
    if_neg (by decide +kernel), if_neg (by decide +kernel), if_pos (by decide +kernel)]
  simp only [strA, strDecode_code]

theorem prim_int (L : IOLib) (st : PState) (s : List Char) :
    ioPrim L "int" [strA s] st = (L.toInt s).map (fun q => Val.atom (Atom.num q)) := by
  unfold ioPrim
  rw [if_neg (by decide +kernel), if_neg (by decide +kernel), if_neg (by decide +kernel), if_neg (by decide +kernel),
    if_neg (by decide +kernel), if_neg (by decide +kernel), if_neg (by decide +kernel), if_neg (by decide +kernel),
    if_neg (by decide +kernel), if_neg (by decide +kernel), if_neg (by decide +kernel), if_pos (by decide +kernel)]
  simp only [strA, strDecode_code]

theorem prim_split_semi (L : IOLib) (st : PState) (s : List Char) :
    ioPrim L "split" [strA s, strA [';']] st = .ok (.list (atomsOf (Csv.splitOn ';' s))) := by
  unfold ioPrim
  rw [if_neg (by decide +kernel), if_neg (by decide +kernel), if_neg (by decide +kernel), if_neg (by decide +kernel),
    if_pos (by decide +kernel)]
  simp only [strA, strDecode_code]; rfl

theorem prim_isdt (L : IOLib) (st : PState) (a : Atom) :
    ioPrim L "isinstance_datetime" [a] st =
      match a with
      | .time _ => .ok (.atom (.bool true))
      | .ref _ => .error stuck
      | _ => .ok (.atom (.bool false)) := by
  unfold ioPrim
  rw [if_neg (by decide +kernel), if_neg (by decide +kernel), if_neg (by decide +kernel), if_neg (by decide +kernel),
    if_neg (by decide +kernel), if_neg (by decide +kernel), if_neg (by decide +kernel), if_neg (by decide +kernel),
    if_neg (by decide +kernel), if_neg (by decide +kernel), if_neg (by decide +kernel), if_neg (by decide +kernel),
    if_pos (by decide +kernel)]
  cases a <;> rfl

/-! ### `len(_val) == 0` -/

theorem eval_strlen_zero (L : IOLib) (F : Nat) (env : PyLite.Env) (x : String) (s : List Char) (st : PState)
    (hx : env.get? x = some (.atom (strA s))) :
    (Expr.cmp .eq (.prim "strlen" (.listCons (.var x) .listNil)) (.num 0)).evalP (HH L F) [] env st
      = .ok (.atom (.bool (decide (s = []))), st) := by
  simp only [Expr.evalP, hx, HH_prim, prim_strlen, pure, Except.pure, bind, Except.bind, PyLite.compare, Atom.pyEq,
    Atom.norm]
  congr 3
  by_cases h : s = []
  · subst h; rfl
  · have : ¬ (((s.length : Nat) : Rat) = 0) := fun e => h (List.length_eq_zero_iff.1 ((natCast_eq_zero' _).1 e))
    simp [h, this]

/-! ### the cell functions -/

/-- a cell through a parser: '' ↦ None, anything else through `f` (its error is the error of the cell) -/
def cellParse {α} (f : Str → Res α) (g : α → Atom) (s : Str) : Res Val :=
  match nonEmpty s with
  | none => .ok (.atom .none)
  | some s => (f s).map (fun a => Val.atom (g a))

theorem env1_get (x : String) (v : Val) : PyLite.Env.get? [(x, v)] x = some v := by
  simp [PyLite.Env.get?]

/-- the common shape `if len(x) == 0: return d` / `return e` -/
theorem cell_shape (L : IOLib) (F k : Nat) (x : String) (d e : Expr) (s : List Char)
    (h : csvFuns k = some ([x], [.ifElse (.cmp .eq (.prim "strlen" (.listCons (.var x) .listNil)) (.num 0)) [.ret d] [],
      .ret e])) :
    interpCell L (F + 1) k (strA s) =
      ((if s = [] then d else e).evalP (HH L F) [] [(x, .atom (strA s))] emptySt).map (·.1) := by
  have hx := env1_get x (.atom (strA s))
  simp only [interpCell, runIO_fn L F k _ _ _ _ h, callPV, bindParamsV, pure, Except.pure, bind, Except.bind,
    execBlockP, Stmt.execP, eval_strlen_zero L F _ x s _ hx, truthP]
  by_cases hs : s = []
  · simp only [hs, decide_true, if_true, execBlockP, Stmt.execP]
    cases (d.evalP (HH L F) [] [(x, .atom (strA []))] emptySt) with
    | error e => rfl
    | ok r => rfl
  · simp only [hs, decide_false, if_false, execBlockP, Stmt.execP, Bool.false_eq_true]
    cases (e.evalP (HH L F) [] [(x, .atom (strA s))] emptySt) with
    | error e => rfl
    | ok r => rfl

theorem nonEmpty_nil : nonEmpty ([] : Str) = none := rfl
theorem nonEmpty_ne {s : Str} (h : s ≠ []) : nonEmpty s = some s := by
  cases s with
  | nil => exact absurd rfl h
  | cons c cs => rfl

/-- `__parse_bool` = the model's `ms == "True"` -/
theorem parse_bool_eq (L : IOLib) (F : Nat) (s : List Char) :
    interpCell L (F + 1) fn_parse_bool (strA s) = .ok (.atom (.bool (s == "True".toList))) := by
  rw [cell_shape L F fn_parse_bool "_val" _ _ s rfl]
  by_cases hs : s = []
  · subst hs; rfl
  · simp only [hs, if_false, Expr.evalP, env1_get, HH_prim, prim_lit_True, pure, Except.pure, bind, Except.bind,
      PyLite.compare, litA, pyEq_strA, Except.map]
    congr 3
    by_cases h : s = "True".toList
    · subst h; rfl
    · have : (s == "True".toList) = false := by simpa using h
      rw [this]; exact decide_eq_false h

/-- `__parse_int` = '' ↦ None, else `int` -/
theorem parse_int_eq (L : IOLib) (F : Nat) (s : List Char) :
    interpCell L (F + 1) fn_parse_int (strA s) = cellParse L.toInt Atom.num s := by
  rw [cell_shape L F fn_parse_int "_val" _ _ s rfl]
  by_cases hs : s = []
  · subst hs; rfl
  · simp only [hs, if_false, Expr.evalP, env1_get, HH_prim, prim_int, pure, Except.pure, bind, Except.bind, cellParse,
      nonEmpty_ne hs]
    cases L.toInt s <;> rfl

/-- `__parse_float` = '' ↦ None, else `float` -/
theorem parse_float_eq (L : IOLib) (F : Nat) (s : List Char) :
    interpCell L (F + 1) fn_parse_float (strA s) = cellParse L.toFloat Atom.num s := by
  rw [cell_shape L F fn_parse_float "_val" _ _ s rfl]
  by_cases hs : s = []
  · subst hs; rfl
  · simp only [hs, if_false, Expr.evalP, env1_get, HH_prim, prim_float, pure, Except.pure, bind, Except.bind, cellParse,
      nonEmpty_ne hs]
    cases L.toFloat s <;> rfl

/-- `__parse_date` = '' ↦ None, else `strptime(_, '%d.%m.%y')` -/
theorem parse_date_eq (L : IOLib) (F : Nat) (s : List Char) :
    interpCell L (F + 1) fn_parse_date (strA s) = cellParse L.strptime Atom.time s := by
  rw [cell_shape L F fn_parse_date "_date" _ _ s rfl]
  by_cases hs : s = []
  · subst hs; rfl
  · simp only [hs, if_false, Expr.evalP, env1_get, HH_prim, prim_lit_date, prim_strptime, pure, Except.pure, bind,
      Except.bind, cellParse, nonEmpty_ne hs]
    cases L.strptime s <;> rfl

/-! ### environments, comprehensions -/

theorem envGet_cons (p : String × Val) (ρ : PyLite.Env) (y : String) :
    PyLite.Env.get? (p :: ρ) y = if p.1 = y then some p.2 else PyLite.Env.get? ρ y := by
  by_cases h : p.1 = y <;> simp [PyLite.Env.get?, h]

theorem envGet_set (ρ : PyLite.Env) (x y : String) (v : Val) :
    (PyLite.Env.set ρ x v).get? y = if x = y then some v else ρ.get? y := by
  induction ρ with
  | nil => by_cases h : x = y <;> simp [PyLite.Env.set, PyLite.Env.get?, h]
  | cons p ρ ih =>
    unfold PyLite.Env.set
    by_cases hp : p.1 = x
    · simp only [hp, beq_self_eq_true, if_true, envGet_cons]
      by_cases h : x = y <;> simp [h]
    · have hp' : (p.1 == x) = false := by simpa using hp
      simp only [hp', Bool.false_eq_true, if_false, envGet_cons, ih]
      by_cases h : x = y
      · subst h; simp [hp]
      · simp [h]

theorem mapM_cons_res {α β} (g : α → Res β) (a : α) (l : List α) :
    (a :: l).mapM g = (match g a with
      | .error e => .error e
      | .ok b => match l.mapM g with
        | .error e => .error e
        | .ok bs => .ok (b :: bs)) := by
  rw [List.mapM_cons]
  cases g a with
  | error e => rfl
  | ok b => cases l.mapM g <;> rfl

/-- a comprehension whose element does not change the store and never filters -/
theorem compLoopP_pure (f : Atom → PState → Res (Option Atom × PState)) (g : Atom → Res Atom) (st : PState) :
    ∀ vs : List Atom, (∀ v ∈ vs, f v st = (g v).map (fun a => (some a, st))) →
      compLoopP f vs st = (vs.mapM g).map (fun out => (out, st))
  | [], _ => rfl
  | v :: vs, h => by
    have hv := h v (List.mem_cons_self ..)
    have ih := compLoopP_pure f g st vs (fun w hw => h w (List.mem_cons_of_mem _ hw))
    rw [compLoopP, hv, mapM_cons_res]
    cases g v with
    | error e => rfl
    | ok b =>
      simp only [Except.map, bind, Except.bind, ih]
      cases vs.mapM g <;> rfl

theorem listComp_pure (H : PHandlers) (env : PyLite.Env) (elt it : Expr) (x : String) (st : PState) (vs : List Atom)
    (g : Atom → Res Atom) (hit : it.evalP H [] env st = .ok (.list vs, st))
    (helt : ∀ v ∈ vs, elt.evalP H [] (env.set x v) st = (g v).map (fun a => (Val.atom a, st))) :
    (Expr.listComp elt x it (.bool true)).evalP H [] env st = (vs.mapM g).map (fun out => (Val.list out, st)) := by
  simp only [Expr.evalP, hit, iterOf, pure, Except.pure, bind, Except.bind, truthP, if_true]
  rw [compLoopP_pure _ g st vs]
  · cases vs.mapM g <;> rfl
  · intro v hv
    rw [helt v hv]
    cases g v <;> rfl

theorem mapM_atomsOf {β} (g : Str → Res β) (h : β → Atom) (ps : List Str) :
    (atomsOf ps).mapM (fun a => match a with
      | .str k => (g (strDecode k)).map h
      | _ => .error stuck) = (ps.mapM g).map (fun qs => qs.map h) := by
  induction ps with
  | nil => rfl
  | cons p ps ih =>
    rw [atomsOf, List.map_cons, mapM_cons_res, mapM_cons_res]
    rw [atomsOf] at ih
    simp only [strA, strDecode_code, ih]
    cases g p with
    | error e => rfl
    | ok b => cases ps.mapM g <;> rfl

/-- `__parse_predecessors`: '' ↦ [], else the pieces between ';', each through `int` -/
theorem parse_predecessors_eq (L : IOLib) (F : Nat) (s : List Char) :
    interpCell L (F + 1) fn_parse_predecessors (strA s) =
      if s = [] then .ok (.list []) else ((splitOn ';' s).mapM L.toInt).map (fun qs => Val.list (qs.map Atom.num)) := by
  rw [cell_shape L F fn_parse_predecessors "_val" _ _ s rfl]
  by_cases hs : s = []
  · subst hs; rfl
  · simp only [hs, if_false]
    rw [listComp_pure (HH L F) _ _ _ "v" emptySt (atomsOf (splitOn ';' s))
      (fun a => match a with
        | .str k => (L.toInt (strDecode k)).map Atom.num
        | _ => .error stuck)]
    · rw [mapM_atomsOf]
      cases (splitOn ';' s).mapM L.toInt <;> rfl
    · simp only [Expr.evalP, env1_get, HH_prim, prim_lit_semi, prim_split_semi, pure, Except.pure, bind, Except.bind]
    · intro v hv
      obtain ⟨p, -, rfl⟩ := List.mem_map.1 hv
      simp only [Expr.evalP, envGet_set, if_true, HH_prim, prim_int, pure, Except.pure, bind, Except.bind]
      simp only [strA, strDecode_code]
      cases L.toInt p <;> rfl

/-- `__format_custom`: a datetime ↦ `strftime`, anything else is passed on (an object: outside the fragment) -/
theorem format_custom_eq (L : IOLib) (F : Nat) (a : Atom) :
    interpCell L (F + 1) fn_format_custom a =
      match a with
      | .time t => .ok (.atom (strA (L.strftime t)))
      | .ref _ => .error stuck
      | a => .ok (.atom a) := by
  have hx := env1_get "_val" (.atom a)
  simp only [interpCell, runIO_fn L F fn_format_custom _ _ _ _ rfl, callPV, bindParamsV, pure, Except.pure, bind,
    Except.bind, src_format_custom, src_format_custom_params, execBlockP, Stmt.execP, Expr.evalP, hx, HH_prim, prim_isdt]
  cases a <;>
    simp only [truthP, pure, Except.pure, if_true, Bool.false_eq_true, if_false, execBlockP, Stmt.execP, Expr.evalP, hx,
      HH_prim, prim_lit_date, prim_strftime, bind, Except.bind, Except.map, stuck] <;> rfl

/-! ### statements, one at a time -/

section stmts
variable {H : PHandlers} {self : PyLite.Env} {rec : List Atom → PState → Res (Val × PState)}

theorem block_cons_normal {s : Stmt} {ss : List Stmt} {env env' : PyLite.Env} {st st' : PState}
    (h : s.execP H self rec env st = .normal env' st') :
    execBlockP H self rec (s :: ss) env st = execBlockP H self rec ss env' st' := by
  rw [execBlockP, h]

theorem exec_assign {x : String} {e : Expr} {env : PyLite.Env} {st st' : PState} {v : Val}
    (hev : e.evalP H self env st = .ok (v, st')) :
    (Stmt.assign x e).execP H self rec env st = .normal (env.set x v) st' := by
  rw [Stmt.execP, hev]

theorem exec_expr {e : Expr} {env : PyLite.Env} {st st' : PState} {v : Val}
    (hev : e.evalP H self env st = .ok (v, st')) :
    (Stmt.expr e).execP H self rec env st = .normal env st' := by
  rw [Stmt.execP, hev]

theorem exec_ret {e : Expr} {env : PyLite.Env} {st st' : PState} {v : Val}
    (hev : e.evalP H self env st = .ok (v, st')) :
    (Stmt.ret e).execP H self rec env st = .ret v st' := by
  rw [Stmt.execP, hev]

theorem exec_forIn {x : String} {e : Expr} {body : List Stmt} {env : PyLite.Env} {st st' : PState} {v : Val}
    {vs : List Atom} (hev : e.evalP H self env st = .ok (v, st')) (hit : iterOf v = .ok vs) :
    (Stmt.forIn x e body).execP H self rec env st =
      forLoopP x (fun env' st'' => execBlockP H self rec body env' st'') vs env st' := by
  rw [Stmt.execP, hev]
  simp only [bind, Except.bind, hit, pure, Except.pure]

theorem block_ret {e : Expr} {ss : List Stmt} {env : PyLite.Env} {st st' : PState} {v : Val}
    (hev : e.evalP H self env st = .ok (v, st')) :
    execBlockP H self rec (.ret e :: ss) env st = .ret v st' := by
  rw [execBlockP, exec_ret hev]

end stmts

/-! ### `__parse_header` -/

def bom : Char := '﻿'

theorem prim_lit_bom (L : IOLib) (st : PState) : ioPrim L "lit:﻿" [] st = .ok (.atom (strA [bom])) := by
  unfold ioPrim; rw [if_pos (by decide +kernel)]; rfl

theorem prim_replace (L : IOLib) (st : PState) (s : List Char) (c : Char) :
    ioPrim L "replace" [strA s, strA [c], strA []] st = .ok (.atom (strA (s.filter (fun x => x != c)))) := by
  unfold ioPrim
  rw [if_neg (by decide +kernel), if_neg (by decide +kernel), if_neg (by decide +kernel), if_pos (by decide +kernel)]
  simp only [strA, strDecode_code]; rfl

def numI (i : Nat) : Atom := .num (((i : Nat) : Int) : Rat)

theorem asInt_numI (i : Nat) : (numI i).asInt? = some (i : Int) := by
  simp [numI, Atom.asInt?, Rat.num_intCast, Rat.den_intCast]

theorem asInt_natCast (n : Nat) : Atom.asInt? (.num ((n : Nat) : Rat)) = some (n : Int) := by
  rw [← Rat.intCast_natCast]; exact asInt_numI n

theorem rangeList_up (n : Nat) : (rangeList 0 (n : Int) 1).map (fun (k : Int) => Atom.num (k : Rat)) = (List.range n).map numI := by
  have hc : (((n : Int) - 0 + 1 - 1) / 1).toNat = n := by
    rw [Int.ediv_one]
    have : (n : Int) - 0 + 1 - 1 = (n : Int) := by omega
    rw [this]; exact Int.toNat_natCast n
  unfold rangeList
  rw [if_pos (by decide), hc, List.map_map]
  apply List.map_congr_left
  intro i _
  show Atom.num ((0 + (i : Int) * 1 : Int) : Rat) = numI i
  have : (0 + (i : Int) * 1 : Int) = (i : Int) := by omega
  rw [this]; rfl

/-- the clean name of column `i` -/
def cleanAt (cells : List Str) (i : Nat) : Str := (cells.getD i []).filter (fun x => x != bom)

def hdrStep (cells : List Str) (D : List (Atom × Atom)) (i : Nat) : List (Atom × Atom) :=
  Dict.insert D (strA (cleanAt cells i)) (numI i)

/-- the dict `__parse_header` builds -/
def hdrDict (cells : List Str) : List (Atom × Atom) := (List.range cells.length).foldl (hdrStep cells) []

def hdrBody : List Stmt :=
  [.assign "name" (.prim "replace" (.listCons (.listIndex (.items (.var "row")) (.var "i")) (.listCons (.prim "lit:﻿" .listNil) (.listCons (.prim "lit:" .listNil) .listNil)))),
   .assign "res" (.dictSet (.var "res") (.var "name") (.var "i"))]

theorem hdr_body (L : IOLib) (F : Nat) (rec) (cells : List Str) (b : Nat) (D : List (Atom × Atom)) (i : Nat)
    (env : PyLite.Env) (st : PState)
    (hrow : env.get? "row" = some (.atom (.box b))) (hb : st.boxes[b]? = some (atomsOf cells))
    (hres : env.get? "res" = some (.dict D)) (hi : env.get? "i" = some (.atom (numI i))) (hlt : i < cells.length) :
    execBlockP (HH L F) [] rec hdrBody env st =
      .normal ((env.set "name" (.atom (strA (cleanAt cells i)))).set "res" (.dict (hdrStep cells D i))) st := by
  have hcell : (atomsOf cells)[i]? = some (strA (cells.getD i [])) := by
    simp [atomsOf, List.getD, List.getElem?_map, List.getElem?_eq_getElem hlt]
  have hneg : ¬ ((i : Int) < 0) := by omega
  simp only [hdrBody, execBlockP, Stmt.execP, Expr.evalP, hrow, hb, hi, asInt_numI, hneg, if_false, Int.toNat_natCast,
    hcell, HH_prim, prim_lit_bom, prim_lit_empty, prim_replace, pure, Except.pure, bind, Except.bind]
  simp only [envGet_set, hres, hi, (by decide : ("name" = "res") = False), (by decide : ("name" = "i") = False),
    (by decide : ("name" = "name") = True), if_true, if_false]
  rfl

theorem hdr_loop (L : IOLib) (F : Nat) (rec) (cells : List Str) (b : Nat) (st : PState)
    (hb : st.boxes[b]? = some (atomsOf cells)) :
    ∀ (is : List Nat) (D : List (Atom × Atom)) (env : PyLite.Env), (∀ i ∈ is, i < cells.length) →
      env.get? "row" = some (.atom (.box b)) → env.get? "res" = some (.dict D) →
      ∃ env', forLoopP "i" (fun e s => execBlockP (HH L F) [] rec hdrBody e s) (is.map numI) env st = .normal env' st ∧
        env'.get? "res" = some (.dict (is.foldl (hdrStep cells) D))
  | [], D, env, _, _, hres => ⟨env, rfl, hres⟩
  | i :: is, D, env, hlt, hrow, hres => by
    have h1 := hdr_body L F rec cells b D i (env.set "i" (.atom (numI i))) st
      (by rw [envGet_set, if_neg (by decide)]; exact hrow) hb
      (by rw [envGet_set, if_neg (by decide)]; exact hres)
      (by rw [envGet_set, if_pos rfl]) (hlt i (List.mem_cons_self ..))
    obtain ⟨env', h2, h3⟩ := hdr_loop L F rec cells b st hb is (hdrStep cells D i)
      (((env.set "i" (.atom (numI i))).set "name" (.atom (strA (cleanAt cells i)))).set "res" (.dict (hdrStep cells D i)))
      (fun j hj => hlt j (List.mem_cons_of_mem _ hj))
      (by rw [envGet_set, if_neg (by decide), envGet_set, if_neg (by decide), envGet_set, if_neg (by decide)]; exact hrow)
      (by rw [envGet_set, if_pos rfl])
    refine ⟨env', ?_, h3⟩
    rw [List.map_cons, forLoopP, h1]
    exact h2

/-- `__parse_header(row)` on a list object holding the cells `cells`: the dict `hdrDict cells`, the store unchanged -/
theorem parse_header_run (L : IOLib) (F : Nat) (cells : List Str) (b : Nat) (st : PState)
    (hb : st.boxes[b]? = some (atomsOf cells)) :
    runIO L csvFuns (F + 1) fn_parse_header [.atom (.box b)] st = .ok (.dict (hdrDict cells), st) := by
  rw [runIO_fn L F fn_parse_header _ _ _ _ rfl]
  obtain ⟨env', h1, h2⟩ := hdr_loop L F (fun _ _ => throw stuck) cells b st hb (List.range cells.length) []
    (PyLite.Env.set [("row", .atom (.box b))] "res" (.dict [])) (fun i hi => List.mem_range.1 hi) rfl rfl
  have hlen : (atomsOf cells).length = cells.length := by simp [atomsOf]
  have hrange : (Expr.range3 (.num 0) (.len (.items (.var "row"))) (.num 1)).evalP (HH L F) []
      (PyLite.Env.set [("row", .atom (.box b))] "res" (.dict [])) st
      = .ok (.list ((List.range cells.length).map numI), st) := by
    simp only [Expr.evalP, envGet_set, env1_get, hb, hlen, asInt_natCast, pure, Except.pure, bind, Except.bind,
      (by decide : ("res" = "row") = False), if_false]
    rw [show Atom.asInt? (.num 0) = some 0 from rfl, show Atom.asInt? (.num 1) = some 1 from rfl]
    simp only [(by decide : ¬ ((1 : Int) = 0)), if_false, rangeList_up]
  have hshape : src_parse_header = [.assign "res" .dictNil,
      .forIn "i" (.range3 (.num 0) (.len (.items (.var "row"))) (.num 1)) hdrBody, .ret (.var "res")] := rfl
  rw [hshape]
  simp only [callPV, bindParamsV, src_parse_header_params, pure, Except.pure, bind, Except.bind]
  rw [block_cons_normal (exec_assign (v := .dict []) (st' := st) rfl),
    block_cons_normal ((exec_forIn hrange rfl).trans h1),
    block_ret (v := .dict (hdrDict cells)) (st' := st) (by simp only [Expr.evalP, h2, hdrDict]; rfl)]

/-! ### the dict of `__parse_header` = the model's `headerIndex` -/

theorem pyEq_iff (a b : Atom) : a.pyEq b = true ↔ a.norm = b.norm := by
  simp [Atom.pyEq]

theorem dictGet_cons (p : Atom × Atom) (d : List (Atom × Atom)) (k : Atom) :
    Dict.get? (p :: d) k = if p.1.pyEq k then some p.2 else Dict.get? d k := by
  unfold Dict.get?
  rw [List.find?_cons]
  split <;> simp_all

theorem dictGet_insert (d : List (Atom × Atom)) (k v k' : Atom) :
    Dict.get? (Dict.insert d k v) k' = if k.pyEq k' then some v else Dict.get? d k' := by
  induction d with
  | nil => simp [Dict.insert, Dict.get?]
  | cons p d ih =>
    unfold Dict.insert
    by_cases hpk : p.1.pyEq k = true
    · rw [if_pos hpk, dictGet_cons, dictGet_cons]
      have h1 := (pyEq_iff _ _).1 hpk
      by_cases hkk : k.pyEq k' = true
      · have h2 := (pyEq_iff _ _).1 hkk
        have : p.1.pyEq k' = true := (pyEq_iff _ _).2 (h1.trans h2)
        simp [this, hkk]
      · have : ¬ p.1.pyEq k' = true := fun h => hkk ((pyEq_iff _ _).2 (h1.symm.trans ((pyEq_iff _ _).1 h)))
        simp [this, hkk]
    · rw [if_neg hpk, dictGet_cons, ih, dictGet_cons]
      by_cases hpk' : p.1.pyEq k' = true
      · have : ¬ k.pyEq k' = true := fun h =>
          hpk ((pyEq_iff _ _).2 (((pyEq_iff _ _).1 hpk').trans ((pyEq_iff _ _).1 h).symm))
        simp [this, hpk']
      · simp [hpk']

theorem hdr_get_fold (cells : List Str) (name : Str) : ∀ (is : List Nat) (D : List (Atom × Atom)),
    Dict.get? (is.foldl (hdrStep cells) D) (strA name) =
      is.foldl (fun acc i => if cleanAt cells i == name then some (numI i) else acc) (Dict.get? D (strA name))
  | [], _ => rfl
  | i :: is, D => by
    rw [List.foldl_cons, hdr_get_fold cells name is, List.foldl_cons, hdrStep, dictGet_insert, pyEq_strA]
    congr 1
    by_cases h : cleanAt cells i = name <;> simp [h]

theorem fold_map_numI (c : Nat → Bool) : ∀ (is : List Nat) (a : Option Nat),
    (is.foldl (fun acc i => if c i then some i else acc) a).map numI =
      is.foldl (fun acc i => if c i then some (numI i) else acc) (a.map numI)
  | [], _ => rfl
  | i :: is, a => by
    rw [List.foldl_cons, fold_map_numI c is, List.foldl_cons]
    congr 1
    cases c i <;> simp

theorem clean_getD (cells : List Str) (i : Nat) :
    (cells.map (fun h => h.filter (fun c => c != '﻿'))).getD i [] = cleanAt cells i := by
  unfold cleanAt
  simp only [List.getD, List.getElem?_map]
  cases cells[i]? <;> rfl

/-- `header[name]` = the model's `headerIndex`: BOM stripped from every name, a repeated name keeps the LAST index -/
theorem hdrDict_get (cells : List Str) (name : Str) :
    Dict.get? (hdrDict cells) (strA name) = (headerIndex cells name).map numI := by
  unfold hdrDict headerIndex
  rw [hdr_get_fold]
  simp only [List.length_map, clean_getD]
  rw [fold_map_numI (fun i => cleanAt cells i == name)]
  rfl

end Pj.CsvSrc
