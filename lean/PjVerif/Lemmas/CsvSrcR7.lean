/-
  Lemmas/CsvSrcR7.lean — CSV I/O, towards the READ side: one data row of `read_csv`, the loop over the data rows.
-/
import PjVerif.Lemmas.CsvSrcR6
namespace Pj.CsvSrc
open Pj.PyLite Pj.Extracted.Csv Pj.Csv

theorem dictGet_of_mem : ∀ (D : List (Atom × Atom)) (k : Atom), k ∈ D.map (·.1) → (Dict.get? D k).isSome
  | [], _, h => by cases h
  | p :: D, k, h => by
    rw [dictGet_cons]
    by_cases hp : p.1.pyEq k = true
    · simp [hp]
    · rw [if_neg hp]
      rcases List.mem_cons.1 h with h | h
      · exact absurd (by rw [h]; simp [Atom.pyEq]) hp
      · exact dictGet_of_mem D k h

/-- the columns of the file in the order of the header dict -/
def hdrCols (hdr : List Str) : List Str := (hdr.map (fun h => h.filter (fun c => c != bom))).eraseDups

theorem hdrCols_index (hdr : List Str) : ∀ c ∈ hdrCols hdr, ∃ i, headerIndex hdr c = some i := by
  intro c hc
  have hm : strA c ∈ (hdrDict hdr).map (·.1) := by rw [hdrDict_keys]; exact List.mem_map_of_mem hc
  have := dictGet_of_mem _ _ hm
  rw [hdrDict_get] at this
  cases h : headerIndex hdr c with
  | none => rw [h] at this; cases this
  | some i => exact ⟨i, rfl⟩

/-- the raw object `read_csv` makes of a data row -/
def RowRaw (L : IOLib) (hdr row : List Str) (e : PyLite.Env) : Prop :=
  ∃ a kvs, RowOK L hdr row a ∧ kwFold L hdr row (hdrCols hdr) [] = some kvs ∧ e = kvs.foldl setKw (rawBase a)

theorem row_body (L : IOLib) (F : Nat) (rec) {hdr row : List Str} {rb : Nat} {env : PyLite.Env} {st : PState}
    (hc : RowCtx hdr row rb env st) (e : PyLite.Env) (he : RowRaw L hdr row e) (rs : List Atom)
    (hrs : env.get? "raws" = some (.list rs)) :
    ∃ env', execBlockP (HH L (F + 2)) [] rec rowBody env st = .normal env' (allocSt st e) ∧
      env'.get? "raws" = some (.list (rs ++ [.ref st.reads])) ∧ Frame ["k", "v", "kwargs", "raws"] env env' := by
  obtain ⟨a, kvs, ha, hk, rfl⟩ := he
  let env1 := env.set "kwargs" (.dict [])
  have hfr1 : Frame ["k", "v", "kwargs", "raws"] env env1 := Frame.set env "kwargs" _ (by simp)
  have hc1 : RowCtx hdr row rb env1 st := hc.frame hfr1 (by decide) (by decide)
  obtain ⟨env2, h2, hkw2, hfr2⟩ := kw_read_loop L (F + 1) rec (hdrCols hdr) env1 [] kvs hc1
    (by rw [envGet_set, if_pos rfl]) (hdrCols_index hdr) hk
  have hfr2' : Frame ["k", "v", "kwargs", "raws"] env1 env2 :=
    fun x hx => hfr2 x (fun hm => hx (by simp at hm ⊢; rcases hm with h | h | h <;> simp [h]))
  have hc2 : RowCtx hdr row rb env2 st := hc1.frame hfr2 (by decide) (by decide)
  have hrs2 : env2.get? "raws" = some (.list rs) := by
    rw [hfr2 "raws" (by decide), envGet_set, if_neg (by decide)]; exact hrs
  have hiter : (Expr.var "header").evalP (HH L (F + 2)) [] env1 st = .ok (.dict (hdrDict hdr), st) :=
    eval_var hc1.hheader
  refine ⟨env2.set "raws" (.list (rs ++ [.ref st.reads])), ?_, by rw [envGet_set, if_pos rfl],
    (hfr1.trans hfr2').trans (Frame.set env2 "raws" _ (by simp))⟩
  unfold rowBody
  rw [block_cons_normal (exec_assign (v := .dict []) (st' := st) rfl),
    block_cons_normal ((exec_forIn hiter (by show Except.ok ((hdrDict hdr).map (·.1)) = _; rw [hdrDict_keys]; rfl)).trans h2),
    block_cons_normal (exec_assign (eval_bin (op := .add) (eval_var hrs2)
      (eval_cons (eval_rowCons L F hc2 a ha kvs hkw2 (kwFold_ok hk dictOK_nil)) eval_nil) rfl))]
  rfl

theorem allocSt_boxes (st : PState) (e : PyLite.Env) : (allocSt st e).boxes = st.boxes := rfl

/-- the raw objects of the data rows -/
def RowsRaw (L : IOLib) (hdr : List Str) : List (List Str) → List PyLite.Env → Prop
  | [], [] => True
  | row :: rows, e :: es => RowRaw L hdr row e ∧ RowsRaw L hdr rows es
  | _, _ => False

/-- the loop over the data rows (each row a list object `box p.1` holding the cells `p.2`) -/
theorem read_rows_loop (L : IOLib) (F : Nat) (rec) (hdr : List Str) :
    ∀ (prs : List (Nat × List Str)) (es : List PyLite.Env) (env : PyLite.Env) (st : PState) (rs : List Atom),
      RowsRaw L hdr (prs.map (·.2)) es →
      (∀ p ∈ prs, st.boxes[p.1]? = some (atomsOf p.2)) →
      env.get? "header" = some (.dict (hdrDict hdr)) → env.get? "raws" = some (.list rs) →
      ∃ env', forLoopP "row" (fun e s => execBlockP (HH L (F + 2)) [] rec rowBody e s)
          (prs.map (fun p => Atom.box p.1)) env st = .normal env' (es.foldl allocSt st) ∧
        env'.get? "raws" = some (.list (rs ++ rawRefs st.reads es.length))
  | [], [], env, st, rs, _, _, _, hrs => ⟨env, rfl, by simpa [rawRefs] using hrs⟩
  | [], _ :: _, _, _, _, hf, _, _, _ => by simp [RowsRaw] at hf
  | _ :: _, [], _, _, _, hf, _, _, _ => by simp [RowsRaw] at hf
  | p :: prs, e :: es, env, st, rs, hf, hb, hh, hrs => by
    obtain ⟨h1, h2⟩ : RowRaw L hdr p.2 e ∧ RowsRaw L hdr (prs.map (fun q : Nat × List Str => q.2)) es := by
      simpa [RowsRaw] using hf
    · let env0 := env.set "row" (.atom (.box p.1))
      have hc0 : RowCtx hdr p.2 p.1 env0 st :=
        ⟨by rw [envGet_set, if_pos rfl], hb p (List.mem_cons_self ..), by rw [envGet_set, if_neg (by decide)]; exact hh⟩
      obtain ⟨env1, g1, g2, g3⟩ := row_body L F rec hc0 e h1 rs (by rw [envGet_set, if_neg (by decide)]; exact hrs)
      obtain ⟨env2, g4, g5⟩ := read_rows_loop L F rec hdr prs es env1 (allocSt st e) (rs ++ [.ref st.reads]) h2
        (fun q hq => by rw [allocSt_boxes]; exact hb q (List.mem_cons_of_mem _ hq))
        (by rw [g3 "header" (by decide), envGet_set, if_neg (by decide)]; exact hh) g2
      refine ⟨env2, ?_, ?_⟩
      · rw [List.map_cons, forLoopP, g1]
        dsimp only
        rw [g4]; rfl
      · rw [g5, List.length_cons, rawRefs_succ, List.append_assoc]; rfl

end Pj.CsvSrc
