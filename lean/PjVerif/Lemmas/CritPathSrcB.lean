/-
  Lemmas/CritPathSrcB.lean — the two passes of alg/critical_path.py on an ARBITRARY store: the memoised recursions
  `forwardA` / `backwardA` (Lemmas/CritPathSrcNet.lean) compute the plain recursions `lpF` (longest path into a node) /
  `ltF` (latest time of a node) over the arcs of the store.  See Lemmas/lean.
-/
import PjVerif.Lemmas.CritPathSrcNet
import PjVerif.Lemmas.CritPath
namespace Pj.CritPathSrc
open Pj.PyLite
set_option linter.unusedSimpArgs false
set_option linter.unusedVariables false

/-! ### the store -/

section store
variable (B : Nat)

theorem getO_some_lt {σ : Store} {a : Nat} {o : Obj} (h : getO B σ a = some o) : B ≤ a ∧ a - B < σ.length := by
  unfold getO at h
  split at h
  · cases h
  · next hlt =>
    have := List.getElem?_eq_some_iff.mp h
    obtain ⟨hl, _⟩ := this
    exact ⟨by omega, hl⟩

theorem length_setO (σ : Store) (a : Nat) (o : Obj) : (setO B σ a o).length = σ.length := by
  simp [setO]

theorem getO_setO_same {σ : Store} {a : Nat} {o : Obj} (o' : Obj) (h : getO B σ a = some o) :
    getO B (setO B σ a o') a = some o' := by
  obtain ⟨h1, h2⟩ := getO_some_lt B h
  unfold getO setO
  rw [if_neg (by omega)]
  simp [List.getElem?_set, h2]

theorem getO_setO_ne {σ : Store} {a b : Nat} (o' : Obj) (ha : B ≤ a) (h : a ≠ b) :
    getO B (setO B σ a o') b = getO B σ b := by
  unfold getO setO
  by_cases hb : b < B
  · simp [hb]
  · simp only [hb, if_false]
    rw [List.getElem?_set]
    have : a - B ≠ b - B := by omega
    simp [this]

theorem getO_append_lt (σ τ : Store) {a : Nat} (h : a < B + σ.length) : getO B (σ ++ τ) a = getO B σ a := by
  unfold getO
  by_cases hb : a < B
  · simp [hb]
  · simp only [hb, if_false]
    rw [List.getElem?_append]
    have : a - B < σ.length := by omega
    simp [this]

theorem getO_append_old {σ : Store} (τ : Store) {a : Nat} {o : Obj} (h : getO B σ a = some o) :
    getO B (σ ++ τ) a = some o := by
  obtain ⟨h1, h2⟩ := getO_some_lt B h
  rw [getO_append_lt B σ τ (by omega), h]

theorem getO_append_new (σ : Store) (o : Obj) : getO B (σ ++ [o]) (B + σ.length) = some o := by
  unfold getO
  rw [if_neg (by omega)]
  have : B + σ.length - B = σ.length := by omega
  rw [this]
  simp

theorem getO_ge_none {σ : Store} {a : Nat} (h : B + σ.length ≤ a) : getO B σ a = none := by
  unfold getO
  rw [if_neg (by omega)]
  exact List.getElem?_eq_none (by omega)

/-! ### projections -/

def suOf (σ : Store) (a : Nat) : Option Rat :=
  match getO B σ a with
  | some (.node _ _ su _) => su
  | _ => none

def euOf (σ : Store) (a : Nat) : Option Rat :=
  match getO B σ a with
  | some (.node _ _ _ eu) => eu
  | _ => none

/-- the arc a link stands for, seen from its end / from its start -/
def resolveIn (σ : Store) (l : Nat) : Option (Nat × Rat) :=
  match getO B σ l with
  | some (.link s _ u) => some (s, u)
  | _ => none

def resolveOut (σ : Store) (l : Nat) : Option (Nat × Rat) :=
  match getO B σ l with
  | some (.link _ e u) => some (e, u)
  | _ => none

/-- the arcs into / out of a node: (other end, units), in the order of `backward_links` / `forward_links` -/
def inArcs (σ : Store) (a : Nat) : Option (List (Nat × Rat)) :=
  match getO B σ a with
  | some (.node _ bw _ _) => bw.mapM (resolveIn B σ)
  | _ => none

def outArcs (σ : Store) (a : Nat) : Option (List (Nat × Rat)) :=
  match getO B σ a with
  | some (.node fw _ _ _) => fw.mapM (resolveOut B σ)
  | _ => none

theorem inArcs_some {σ : Store} {a : Nat} {L : List (Nat × Rat)} (h : inArcs B σ a = some L) :
    ∃ fw bw su eu, getO B σ a = some (.node fw bw su eu) ∧ bw.mapM (resolveIn B σ) = some L := by
  unfold inArcs at h
  split at h
  · next fw bw su eu hg => exact ⟨fw, bw, su, eu, hg, h⟩
  · cases h

theorem outArcs_some {σ : Store} {a : Nat} {L : List (Nat × Rat)} (h : outArcs B σ a = some L) :
    ∃ fw bw su eu, getO B σ a = some (.node fw bw su eu) ∧ fw.mapM (resolveOut B σ) = some L := by
  unfold outArcs at h
  split at h
  · next fw bw su eu hg => exact ⟨fw, bw, su, eu, hg, h⟩
  · cases h

theorem resolveIn_some {σ : Store} {l : Nat} {p : Nat × Rat} (h : resolveIn B σ l = some p) :
    ∃ e, getO B σ l = some (.link p.1 e p.2) := by
  unfold resolveIn at h
  split at h
  · next s e u hg => cases h; exact ⟨e, hg⟩
  · cases h

theorem resolveOut_some {σ : Store} {l : Nat} {p : Nat × Rat} (h : resolveOut B σ l = some p) :
    ∃ s, getO B σ l = some (.link s p.1 p.2) := by
  unfold resolveOut at h
  split at h
  · next s e u hg => cases h; exact ⟨s, hg⟩
  · cases h

/-! ### stores that differ in the memo fields only -/

/-- forget `start_units` / `end_units` -/
def Obj.eraseSU : Obj → Obj
  | .node fw bw _ eu => .node fw bw none eu
  | o => o

def Obj.eraseEU : Obj → Obj
  | .node fw bw su _ => .node fw bw su none
  | o => o

/-- the same store up to the `start_units` of the nodes -/
def SameF (σ0 σ : Store) : Prop := ∀ a, (getO B σ0 a).map Obj.eraseSU = (getO B σ a).map Obj.eraseSU

/-- the same store up to the `end_units` of the nodes -/
def SameB (σ0 σ : Store) : Prop := ∀ a, (getO B σ0 a).map Obj.eraseEU = (getO B σ a).map Obj.eraseEU

theorem SameF.refl (σ : Store) : SameF B σ σ := fun _ => rfl
theorem SameB.refl (σ : Store) : SameB B σ σ := fun _ => rfl

theorem SameF.link {σ0 σ : Store} (h : SameF B σ0 σ) {l s e : Nat} {u : Rat} :
    getO B σ0 l = some (.link s e u) ↔ getO B σ l = some (.link s e u) := by
  have := h l
  constructor
  · intro h0
    rw [h0] at this
    cases hg : getO B σ l with
    | none => rw [hg] at this; cases this
    | some o =>
      rw [hg] at this
      cases o <;> simp [Obj.eraseSU] at this
      obtain ⟨rfl, rfl, rfl⟩ := this; rfl
  · intro h0
    rw [h0] at this
    cases hg : getO B σ0 l with
    | none => rw [hg] at this; cases this
    | some o =>
      rw [hg] at this
      cases o <;> simp [Obj.eraseSU] at this
      obtain ⟨rfl, rfl, rfl⟩ := this; rfl

theorem SameF.node {σ0 σ : Store} (h : SameF B σ0 σ) {a : Nat} {fw bw : List Nat} {su0 eu : Option Rat}
    (h0 : getO B σ0 a = some (.node fw bw su0 eu)) : ∃ su, getO B σ a = some (.node fw bw su eu) := by
  have := h a
  rw [h0] at this
  cases hg : getO B σ a with
  | none => rw [hg] at this; cases this
  | some o =>
    rw [hg] at this
    cases o <;> simp [Obj.eraseSU] at this
    obtain ⟨rfl, rfl, rfl⟩ := this
    exact ⟨_, rfl⟩

theorem SameF.symm {σ0 σ : Store} (h : SameF B σ0 σ) : SameF B σ σ0 := fun a => (h a).symm
theorem SameF.trans {σ0 σ1 σ2 : Store} (h : SameF B σ0 σ1) (h' : SameF B σ1 σ2) : SameF B σ0 σ2 :=
  fun a => (h a).trans (h' a)

theorem SameF.resolveIn_eq {σ0 σ : Store} (h : SameF B σ0 σ) (l : Nat) : resolveIn B σ0 l = resolveIn B σ l := by
  have := h l
  unfold resolveIn
  cases h0 : getO B σ0 l with
  | none =>
    rw [h0] at this
    cases hg : getO B σ l with
    | none => rfl
    | some o => rw [hg] at this; cases this
  | some o0 =>
    rw [h0] at this
    cases hg : getO B σ l with
    | none => rw [hg] at this; cases this
    | some o =>
      rw [hg] at this
      cases o0 <;> cases o <;> simp [Obj.eraseSU] at this <;> try rfl
      obtain ⟨rfl, rfl, rfl⟩ := this; rfl

theorem SameF.resolveOut_eq {σ0 σ : Store} (h : SameF B σ0 σ) (l : Nat) : resolveOut B σ0 l = resolveOut B σ l := by
  have := h l
  unfold resolveOut
  cases h0 : getO B σ0 l with
  | none =>
    rw [h0] at this
    cases hg : getO B σ l with
    | none => rfl
    | some o => rw [hg] at this; cases this
  | some o0 =>
    rw [h0] at this
    cases hg : getO B σ l with
    | none => rw [hg] at this; cases this
    | some o =>
      rw [hg] at this
      cases o0 <;> cases o <;> simp [Obj.eraseSU] at this <;> try rfl
      obtain ⟨rfl, rfl, rfl⟩ := this; rfl

theorem SameF.inArcs_eq {σ0 σ : Store} (h : SameF B σ0 σ) (a : Nat) : inArcs B σ0 a = inArcs B σ a := by
  have hr : resolveIn B σ0 = resolveIn B σ := funext (h.resolveIn_eq B)
  have := h a
  unfold inArcs
  cases h0 : getO B σ0 a with
  | none =>
    rw [h0] at this
    cases hg : getO B σ a with
    | none => rfl
    | some o => rw [hg] at this; cases this
  | some o0 =>
    rw [h0] at this
    cases hg : getO B σ a with
    | none => rw [hg] at this; cases this
    | some o =>
      rw [hg] at this
      cases o0 <;> cases o <;> simp [Obj.eraseSU] at this <;> try rfl
      obtain ⟨rfl, rfl, rfl⟩ := this
      simp only [hr]

theorem SameF.outArcs_eq {σ0 σ : Store} (h : SameF B σ0 σ) (a : Nat) : outArcs B σ0 a = outArcs B σ a := by
  have hr : resolveOut B σ0 = resolveOut B σ := funext (h.resolveOut_eq B)
  have := h a
  unfold outArcs
  cases h0 : getO B σ0 a with
  | none =>
    rw [h0] at this
    cases hg : getO B σ a with
    | none => rfl
    | some o => rw [hg] at this; cases this
  | some o0 =>
    rw [h0] at this
    cases hg : getO B σ a with
    | none => rw [hg] at this; cases this
    | some o =>
      rw [hg] at this
      cases o0 <;> cases o <;> simp [Obj.eraseSU] at this <;> try rfl
      obtain ⟨rfl, rfl, rfl⟩ := this
      simp only [hr]

theorem SameF.euOf_eq {σ0 σ : Store} (h : SameF B σ0 σ) (a : Nat) : euOf B σ0 a = euOf B σ a := by
  have := h a
  unfold euOf
  cases h0 : getO B σ0 a with
  | none =>
    rw [h0] at this
    cases hg : getO B σ a with
    | none => rfl
    | some o => rw [hg] at this; cases this
  | some o0 =>
    rw [h0] at this
    cases hg : getO B σ a with
    | none => rw [hg] at this; cases this
    | some o =>
      rw [hg] at this
      cases o0 <;> cases o <;> simp [Obj.eraseSU] at this <;> try rfl
      obtain ⟨rfl, rfl, rfl⟩ := this; rfl

/-- writing `start_units` keeps the store up to `start_units` -/
theorem SameF.of_setSU {σ σ' : Store} {a : Nat} {v : Option Rat} (h : setSU B σ a v = some σ') : SameF B σ σ' := by
  unfold setSU at h
  split at h
  · next fw bw su eu hg =>
    cases h
    intro b
    by_cases hab : a = b
    · subst hab
      rw [getO_setO_same B _ hg, hg]; rfl
    · rw [getO_setO_ne B _ (getO_some_lt B hg).1 hab]
  · cases h

theorem suOf_setSU {σ σ' : Store} {a : Nat} {v : Option Rat} (h : setSU B σ a v = some σ') (b : Nat) :
    suOf B σ' b = if b = a then v else suOf B σ b := by
  unfold setSU at h
  split at h
  · next fw bw su eu hg =>
    cases h
    by_cases hab : b = a
    · subst hab
      simp only [suOf, getO_setO_same B _ hg, if_true]
    · simp only [suOf, getO_setO_ne B _ (getO_some_lt B hg).1 (Ne.symm hab), hab, if_false]
  · cases h

theorem setSU_isSome {σ : Store} {a : Nat} {fw bw : List Nat} {su eu : Option Rat}
    (hg : getO B σ a = some (.node fw bw su eu)) (v : Option Rat) :
    setSU B σ a v = some (setO B σ a (.node fw bw v eu)) := by
  simp only [setSU, hg]


theorem SameB.link {σ0 σ : Store} (h : SameB B σ0 σ) {l s e : Nat} {u : Rat} :
    getO B σ0 l = some (.link s e u) ↔ getO B σ l = some (.link s e u) := by
  have := h l
  constructor
  · intro h0
    rw [h0] at this
    cases hg : getO B σ l with
    | none => rw [hg] at this; cases this
    | some o =>
      rw [hg] at this
      cases o <;> simp [Obj.eraseEU] at this
      obtain ⟨rfl, rfl, rfl⟩ := this; rfl
  · intro h0
    rw [h0] at this
    cases hg : getO B σ0 l with
    | none => rw [hg] at this; cases this
    | some o =>
      rw [hg] at this
      cases o <;> simp [Obj.eraseEU] at this
      obtain ⟨rfl, rfl, rfl⟩ := this; rfl

theorem SameB.node {σ0 σ : Store} (h : SameB B σ0 σ) {a : Nat} {fw bw : List Nat} {su eu0 : Option Rat}
    (h0 : getO B σ0 a = some (.node fw bw su eu0)) : ∃ eu, getO B σ a = some (.node fw bw su eu) := by
  have := h a
  rw [h0] at this
  cases hg : getO B σ a with
  | none => rw [hg] at this; cases this
  | some o =>
    rw [hg] at this
    cases o <;> simp [Obj.eraseEU] at this
    obtain ⟨rfl, rfl, rfl⟩ := this
    exact ⟨_, rfl⟩

theorem SameB.symm {σ0 σ : Store} (h : SameB B σ0 σ) : SameB B σ σ0 := fun a => (h a).symm
theorem SameB.trans {σ0 σ1 σ2 : Store} (h : SameB B σ0 σ1) (h' : SameB B σ1 σ2) : SameB B σ0 σ2 :=
  fun a => (h a).trans (h' a)

theorem SameB.resolveIn_eq {σ0 σ : Store} (h : SameB B σ0 σ) (l : Nat) : resolveIn B σ0 l = resolveIn B σ l := by
  have := h l
  unfold resolveIn
  cases h0 : getO B σ0 l with
  | none =>
    rw [h0] at this
    cases hg : getO B σ l with
    | none => rfl
    | some o => rw [hg] at this; cases this
  | some o0 =>
    rw [h0] at this
    cases hg : getO B σ l with
    | none => rw [hg] at this; cases this
    | some o =>
      rw [hg] at this
      cases o0 <;> cases o <;> simp [Obj.eraseEU] at this <;> try rfl
      obtain ⟨rfl, rfl, rfl⟩ := this; rfl

theorem SameB.resolveOut_eq {σ0 σ : Store} (h : SameB B σ0 σ) (l : Nat) : resolveOut B σ0 l = resolveOut B σ l := by
  have := h l
  unfold resolveOut
  cases h0 : getO B σ0 l with
  | none =>
    rw [h0] at this
    cases hg : getO B σ l with
    | none => rfl
    | some o => rw [hg] at this; cases this
  | some o0 =>
    rw [h0] at this
    cases hg : getO B σ l with
    | none => rw [hg] at this; cases this
    | some o =>
      rw [hg] at this
      cases o0 <;> cases o <;> simp [Obj.eraseEU] at this <;> try rfl
      obtain ⟨rfl, rfl, rfl⟩ := this; rfl

theorem SameB.inArcs_eq {σ0 σ : Store} (h : SameB B σ0 σ) (a : Nat) : inArcs B σ0 a = inArcs B σ a := by
  have hr : resolveIn B σ0 = resolveIn B σ := funext (h.resolveIn_eq B)
  have := h a
  unfold inArcs
  cases h0 : getO B σ0 a with
  | none =>
    rw [h0] at this
    cases hg : getO B σ a with
    | none => rfl
    | some o => rw [hg] at this; cases this
  | some o0 =>
    rw [h0] at this
    cases hg : getO B σ a with
    | none => rw [hg] at this; cases this
    | some o =>
      rw [hg] at this
      cases o0 <;> cases o <;> simp [Obj.eraseEU] at this <;> try rfl
      obtain ⟨rfl, rfl, rfl⟩ := this
      simp only [hr]

theorem SameB.outArcs_eq {σ0 σ : Store} (h : SameB B σ0 σ) (a : Nat) : outArcs B σ0 a = outArcs B σ a := by
  have hr : resolveOut B σ0 = resolveOut B σ := funext (h.resolveOut_eq B)
  have := h a
  unfold outArcs
  cases h0 : getO B σ0 a with
  | none =>
    rw [h0] at this
    cases hg : getO B σ a with
    | none => rfl
    | some o => rw [hg] at this; cases this
  | some o0 =>
    rw [h0] at this
    cases hg : getO B σ a with
    | none => rw [hg] at this; cases this
    | some o =>
      rw [hg] at this
      cases o0 <;> cases o <;> simp [Obj.eraseEU] at this <;> try rfl
      obtain ⟨rfl, rfl, rfl⟩ := this
      simp only [hr]

theorem SameB.suOf_eq {σ0 σ : Store} (h : SameB B σ0 σ) (a : Nat) : suOf B σ0 a = suOf B σ a := by
  have := h a
  unfold suOf
  cases h0 : getO B σ0 a with
  | none =>
    rw [h0] at this
    cases hg : getO B σ a with
    | none => rfl
    | some o => rw [hg] at this; cases this
  | some o0 =>
    rw [h0] at this
    cases hg : getO B σ a with
    | none => rw [hg] at this; cases this
    | some o =>
      rw [hg] at this
      cases o0 <;> cases o <;> simp [Obj.eraseEU] at this <;> try rfl
      obtain ⟨rfl, rfl, rfl⟩ := this; rfl

/-- writing `end_units` keeps the store up to `end_units` -/
theorem SameB.of_setEU {σ σ' : Store} {a : Nat} {v : Option Rat} (h : setEU B σ a v = some σ') : SameB B σ σ' := by
  unfold setEU at h
  split at h
  · next fw bw su eu hg =>
    cases h
    intro b
    by_cases hab : a = b
    · subst hab
      rw [getO_setO_same B _ hg, hg]; rfl
    · rw [getO_setO_ne B _ (getO_some_lt B hg).1 hab]
  · cases h

theorem euOf_setEU {σ σ' : Store} {a : Nat} {v : Option Rat} (h : setEU B σ a v = some σ') (b : Nat) :
    euOf B σ' b = if b = a then v else euOf B σ b := by
  unfold setEU at h
  split at h
  · next fw bw su eu hg =>
    cases h
    by_cases hab : b = a
    · subst hab
      simp only [euOf, getO_setO_same B _ hg, if_true]
    · simp only [euOf, getO_setO_ne B _ (getO_some_lt B hg).1 (Ne.symm hab), hab, if_false]
  · cases h

theorem setEU_isSome {σ : Store} {a : Nat} {fw bw : List Nat} {su eu : Option Rat}
    (hg : getO B σ a = some (.node fw bw su eu)) (v : Option Rat) :
    setEU B σ a v = some (setO B σ a (.node fw bw su v)) := by
  simp only [setEU, hg]

end store

/-! ### numbers -/

theorem pyMaxR_eq_max (a b : Rat) : pyMaxR a b = max a b := by
  unfold pyMaxR
  by_cases h : a < b
  · rw [if_pos h]; grind
  · rw [if_neg h]; grind

theorem pyMinR_eq_min (a b : Rat) : pyMinR a b = min a b := by
  unfold pyMinR
  by_cases h : b < a
  · rw [if_pos h]; grind
  · rw [if_neg h]; grind

/-! ### the forward pass -/

/-- the longest path into a node, by plain recursion over the arcs: `max(0, …)` of source + units -/
def lpF (arcs : Nat → Option (List (Nat × Rat))) : Nat → Nat → Option Rat
  | 0, _ => none
  | k + 1, a =>
    match arcs a with
    | none => none
    | some L => (L.mapM (fun p => (lpF arcs k p.1).map (fun x => x + p.2))).map (fun vs => vs.foldl pyMaxR 0)

theorem lpF_mono (arcs : Nat → Option (List (Nat × Rat))) (k : Nat) (a : Nat) (v : Rat) (h : lpF arcs k a = some v) :
    lpF arcs (k + 1) a = some v := by
  induction k generalizing a v with
  | zero => simp [lpF] at h
  | succ k ih =>
    rw [lpF] at h ⊢
    cases hL : arcs a with
    | none => rw [hL] at h; cases h
    | some L =>
      rw [hL] at h
      simp only [Option.map_eq_some_iff] at h ⊢
      obtain ⟨vs, hvs, rfl⟩ := h
      refine ⟨vs, mapM_some_congr _ _ _ _ (fun p _ b hb => ?_) hvs, rfl⟩
      simp only [Option.map_eq_some_iff] at hb ⊢
      obtain ⟨x, hx, rfl⟩ := hb
      exact ⟨x, ih p.1 x hx, rfl⟩

theorem lpF_mono_le (arcs : Nat → Option (List (Nat × Rat))) (k k' : Nat) (hk : k ≤ k') (a : Nat) (v : Rat)
    (h : lpF arcs k a = some v) : lpF arcs k' a = some v := by
  induction k' with
  | zero =>
    have : k = 0 := by omega
    subst this; exact h
  | succ k' ih =>
    by_cases hk' : k ≤ k'
    · exact lpF_mono arcs k' a v (ih hk')
    · have : k = k' + 1 := by omega
      subst this; exact h

theorem lpF_agree (arcs : Nat → Option (List (Nat × Rat))) (k k' : Nat) (a : Nat) (v v' : Rat)
    (h : lpF arcs k a = some v) (h' : lpF arcs k' a = some v') : v = v' := by
  have h1 := lpF_mono_le arcs k (max k k') (Nat.le_max_left _ _) a v h
  have h2 := lpF_mono_le arcs k' (max k k') (Nat.le_max_right _ _) a v' h'
  rw [h1] at h2
  exact Option.some.inj h2

section forward
variable (B : Nat)

/-- the state of a forward pass over the store `σ0`: only `start_units` were written, and what was written is the
    longest path -/
structure FwdInv (σ0 σ : Store) : Prop where
  same : SameF B σ0 σ
  memo : ∀ a v, suOf B σ a = some v → ∃ k, lpF (inArcs B σ0) k a = some v

/-- memo entries are never removed -/
def SuMono (σ σ' : Store) : Prop := ∀ b, (suOf B σ b).isSome → (suOf B σ' b).isSome

theorem SuMono.refl (σ : Store) : SuMono B σ σ := fun _ h => h
theorem SuMono.trans {σ1 σ2 σ3 : Store} (h : SuMono B σ1 σ2) (h' : SuMono B σ2 σ3) : SuMono B σ1 σ3 :=
  fun b hb => h' b (h b hb)

/-- what a call of `__forward` achieves -/
def FwdOK (σ0 : Store) (k : Nat) : Prop :=
  ∀ a v σ, FwdInv B σ0 σ → lpF (inArcs B σ0) k a = some v →
    ∃ σ', forwardA B k σ a = some σ' ∧ FwdInv B σ0 σ' ∧ suOf B σ' a = some v ∧ SuMono B σ σ'

theorem fwd_loop (σ0 : Store) (k : Nat) (hrec : FwdOK B σ0 k) :
    ∀ (bw : List Nat) (L : List (Nat × Rat)) (vs : List Rat) (σ : Store) (ms : Rat),
      FwdInv B σ0 σ → bw.mapM (resolveIn B σ0) = some L →
      L.mapM (fun p => (lpF (inArcs B σ0) k p.1).map (fun x => x + p.2)) = some vs →
      ∃ σ', bw.foldlM (fwdStep B (forwardA B k)) (σ, ms) = some (σ', vs.foldl pyMaxR ms) ∧ FwdInv B σ0 σ' ∧
        SuMono B σ σ' := by
  intro bw
  induction bw with
  | nil =>
    intro L vs σ ms hinv hL hvs
    simp only [List.mapM_nil, pure, Option.some.injEq] at hL
    subst hL
    simp only [List.mapM_nil, pure, Option.some.injEq] at hvs
    subst hvs
    exact ⟨σ, rfl, hinv, SuMono.refl B σ⟩
  | cons l bw ih =>
    intro L vs σ ms hinv hL hvs
    obtain ⟨p, L', hp, hL', rfl⟩ := (mapM_some_cons _ l bw L).mp hL
    obtain ⟨x, vs', hx, hvs', rfl⟩ := (mapM_some_cons _ p L' vs).mp hvs
    simp only [Option.map_eq_some_iff] at hx
    obtain ⟨w, hw, rfl⟩ := hx
    obtain ⟨e', hl0⟩ := resolveIn_some B hp
    have hl : getO B σ l = some (.link p.1 e' p.2) := (hinv.same.link B).mp hl0
    -- the source of the arc is a node
    have hs0 : ∃ L2, inArcs B σ0 p.1 = some L2 := by
      cases k with
      | zero => simp [lpF] at hw
      | succ k =>
        rw [lpF] at hw
        cases hA : inArcs B σ0 p.1 with
        | none => rw [hA] at hw; cases hw
        | some L2 => exact ⟨L2, rfl⟩
    obtain ⟨L2, hL2⟩ := hs0
    obtain ⟨fws, bws, sus0, eus, hgs0, _⟩ := inArcs_some B hL2
    obtain ⟨sus, hgs⟩ := hinv.same.node B hgs0
    -- the recursive call, or the memo
    have hstep : ∃ σ1, (if sus.isNone then forwardA B k σ p.1 else some σ) = some σ1 ∧ FwdInv B σ0 σ1 ∧
        suOf B σ1 p.1 = some w ∧ SuMono B σ σ1 := by
      cases hsus : sus with
      | none =>
        obtain ⟨σ1, h1, h2, h3, h4⟩ := hrec p.1 w σ hinv hw
        exact ⟨σ1, by simpa using h1, h2, h3, h4⟩
      | some w' =>
        have hsu : suOf B σ p.1 = some w' := by simp only [suOf, hgs, hsus]
        obtain ⟨k', hk'⟩ := hinv.memo p.1 w' hsu
        have : w' = w := lpF_agree _ _ _ _ _ _ hk' hw
        subst this
        exact ⟨σ, by simp, hinv, hsu, SuMono.refl B σ⟩
    obtain ⟨σ1, hσ1, hinv1, hsu1, hmono1⟩ := hstep
    have hl1 : getO B σ1 l = some (.link p.1 e' p.2) := (hinv1.same.link B).mp hl0
    obtain ⟨sus1, hgs1⟩ := hinv1.same.node B hgs0
    have hsus1 : sus1 = some w := by
      simp only [suOf, hgs1] at hsu1; exact hsu1
    subst hsus1
    have hone : fwdStep B (forwardA B k) (σ, ms) l = some (σ1, pyMaxR ms (w + p.2)) := by
      simp only [fwdStep, hl, hgs, hσ1, hl1, hgs1]
    obtain ⟨σ', hfold, hinv', hmono'⟩ := ih L' vs' σ1 (pyMaxR ms (w + p.2)) hinv1 hL' hvs'
    refine ⟨σ', ?_, hinv', SuMono.trans B hmono1 hmono'⟩
    simp only [List.foldlM_cons, hone, bind, Option.bind, List.foldl_cons]
    exact hfold

theorem fwd_correct (σ0 : Store) : ∀ k, FwdOK B σ0 k := by
  intro k
  induction k with
  | zero => intro a v σ _ h; simp [lpF] at h
  | succ k ih =>
    intro a v σ hinv h
    have h' := h
    rw [lpF] at h'
    cases hA : inArcs B σ0 a with
    | none => rw [hA] at h'; cases h'
    | some L =>
      rw [hA] at h'
      simp only [Option.map_eq_some_iff] at h'
      obtain ⟨vs, hvs, rfl⟩ := h'
      obtain ⟨fw, bw, su0, eu, hg0, hbw⟩ := inArcs_some B hA
      obtain ⟨su, hg⟩ := hinv.same.node B hg0
      cases hsu : su with
      | some w =>
        subst hsu
        have hsuo : suOf B σ a = some w := by simp only [suOf, hg]
        obtain ⟨k', hk'⟩ := hinv.memo a w hsuo
        have : w = vs.foldl pyMaxR 0 := lpF_agree _ _ _ _ _ _ hk' h
        refine ⟨σ, ?_, hinv, by rw [hsuo, this], SuMono.refl B σ⟩
        simp only [forwardA, hg, Option.isNone_some, Bool.false_eq_true, if_false]
      | none =>
        subst hsu
        obtain ⟨σ1, hfold, hinv1, hmono1⟩ := fwd_loop B σ0 k ih bw L vs σ 0 hinv hbw hvs
        obtain ⟨su1, hg1⟩ := hinv1.same.node B hg0
        have hset := setSU_isSome B hg1 (some (vs.foldl pyMaxR 0))
        refine ⟨_, ?_, ⟨hinv1.same.trans B (SameF.of_setSU B hset), ?_⟩, ?_, ?_⟩
        · simp only [forwardA, hg, Option.isNone_none, if_true, hfold, hset]
        · intro b w hb
          rw [suOf_setSU B hset] at hb
          by_cases hba : b = a
          · subst hba
            simp only [if_true, Option.some.injEq] at hb
            subst hb
            exact ⟨k + 1, h⟩
          · rw [if_neg hba] at hb
            exact hinv1.memo b w hb
        · rw [suOf_setSU B hset]; simp
        · intro b hb
          rw [suOf_setSU B hset]
          by_cases hba : b = a
          · simp [hba]
          · rw [if_neg hba]; exact hmono1 b hb

/-- a loop `for n in ns: self.__forward(n)` -/
theorem fwd_all (σ0 : Store) (k : Nat) :
    ∀ (ns : List Nat) (σ : Store), FwdInv B σ0 σ → (∀ n ∈ ns, ∃ v, lpF (inArcs B σ0) k n = some v) →
      ∃ σ', ns.foldlM (forwardA B k) σ = some σ' ∧ FwdInv B σ0 σ' ∧ SuMono B σ σ' ∧
        ∀ n ∈ ns, (suOf B σ' n).isSome := by
  intro ns
  induction ns with
  | nil => intro σ hinv _; exact ⟨σ, rfl, hinv, SuMono.refl B σ, fun _ h => by cases h⟩
  | cons n ns ih =>
    intro σ hinv hall
    obtain ⟨v, hv⟩ := hall n List.mem_cons_self
    obtain ⟨σ1, h1, hinv1, hsu1, hmono1⟩ := fwd_correct B σ0 k n v σ hinv hv
    obtain ⟨σ', h2, hinv', hmono', hset'⟩ := ih σ1 hinv1 (fun m hm => hall m (List.mem_cons_of_mem _ hm))
    refine ⟨σ', ?_, hinv', SuMono.trans B hmono1 hmono', ?_⟩
    · simp only [List.foldlM_cons, h1, bind, Option.bind]; exact h2
    · intro m hm
      rcases List.mem_cons.mp hm with rfl | hm
      · exact hmono' _ (by rw [hsu1]; rfl)
      · exact hset' m hm

/-- after the pass a written `start_units` is the longest path -/
theorem FwdInv.su_eq {σ0 σ : Store} (h : FwdInv B σ0 σ) {k : Nat} {a : Nat} {v : Rat}
    (hv : lpF (inArcs B σ0) k a = some v) (hs : (suOf B σ a).isSome) : suOf B σ a = some v := by
  obtain ⟨w, hw⟩ := Option.isSome_iff_exists.mp hs
  obtain ⟨k', hk'⟩ := h.memo a w hw
  rw [hw, lpF_agree _ _ _ _ _ _ hk' hv]

end forward

/-! ### the backward pass -/

/-- one step of the running minimum of `__backward` (`min_end` starts as `None`) -/
def minStep (acc : Option Rat) (x : Rat) : Option Rat :=
  some (match acc with | none => x | some m => pyMinR m x)

/-- the latest time of a node, by plain recursion over the arcs: the minimum of target - units; a node without
    outgoing arcs gets its `start_units` (`su0`) -/
def ltF (arcs : Nat → Option (List (Nat × Rat))) (su0 : Nat → Option Rat) : Nat → Nat → Option Rat
  | 0, _ => none
  | k + 1, a =>
    match arcs a with
    | none => none
    | some L =>
      match L.mapM (fun p => (ltF arcs su0 k p.1).map (fun x => x - p.2)) with
      | none => none
      | some vs =>
        match vs.foldl minStep none with
        | some m => some m
        | none => su0 a

theorem ltF_mono (arcs : Nat → Option (List (Nat × Rat))) (su0 : Nat → Option Rat) (k : Nat) (a : Nat) (v : Rat)
    (h : ltF arcs su0 k a = some v) : ltF arcs su0 (k + 1) a = some v := by
  induction k generalizing a v with
  | zero => simp [ltF] at h
  | succ k ih =>
    rw [ltF] at h ⊢
    cases hL : arcs a with
    | none => rw [hL] at h; cases h
    | some L =>
      rw [hL] at h
      simp only at h ⊢
      cases hvs : L.mapM (fun p => (ltF arcs su0 k p.1).map (fun x => x - p.2)) with
      | none => rw [hvs] at h; cases h
      | some vs =>
        rw [hvs] at h
        have : L.mapM (fun p => (ltF arcs su0 (k + 1) p.1).map (fun x => x - p.2)) = some vs := by
          refine mapM_some_congr _ _ _ _ (fun p _ b hb => ?_) hvs
          simp only [Option.map_eq_some_iff] at hb ⊢
          obtain ⟨x, hx, rfl⟩ := hb
          exact ⟨x, ih p.1 x hx, rfl⟩
        rw [this]
        exact h

theorem ltF_mono_le (arcs : Nat → Option (List (Nat × Rat))) (su0 : Nat → Option Rat) (k k' : Nat) (hk : k ≤ k')
    (a : Nat) (v : Rat) (h : ltF arcs su0 k a = some v) : ltF arcs su0 k' a = some v := by
  induction k' with
  | zero =>
    have : k = 0 := by omega
    subst this; exact h
  | succ k' ih =>
    by_cases hk' : k ≤ k'
    · exact ltF_mono arcs su0 k' a v (ih hk')
    · have : k = k' + 1 := by omega
      subst this; exact h

theorem ltF_agree (arcs : Nat → Option (List (Nat × Rat))) (su0 : Nat → Option Rat) (k k' : Nat) (a : Nat) (v v' : Rat)
    (h : ltF arcs su0 k a = some v) (h' : ltF arcs su0 k' a = some v') : v = v' := by
  have h1 := ltF_mono_le arcs su0 k (max k k') (Nat.le_max_left _ _) a v h
  have h2 := ltF_mono_le arcs su0 k' (max k k') (Nat.le_max_right _ _) a v' h'
  rw [h1] at h2
  exact Option.some.inj h2

section backward
variable (B : Nat)

/-- the state of a backward pass over the store `σ1`: only `end_units` were written, and what was written is the
    latest time -/
structure BwdInv (σ1 σ : Store) : Prop where
  same : SameB B σ1 σ
  memo : ∀ a v, euOf B σ a = some v → ∃ k, ltF (outArcs B σ1) (suOf B σ1) k a = some v

def EuMono (σ σ' : Store) : Prop := ∀ b, (euOf B σ b).isSome → (euOf B σ' b).isSome

theorem EuMono.refl (σ : Store) : EuMono B σ σ := fun _ h => h
theorem EuMono.trans {σ1 σ2 σ3 : Store} (h : EuMono B σ1 σ2) (h' : EuMono B σ2 σ3) : EuMono B σ1 σ3 :=
  fun b hb => h' b (h b hb)

/-- what a call of `__backward` achieves -/
def BwdOK (σ1 : Store) (k : Nat) : Prop :=
  ∀ a v σ, BwdInv B σ1 σ → ltF (outArcs B σ1) (suOf B σ1) k a = some v →
    ∃ σ', backwardA B k σ a = some σ' ∧ BwdInv B σ1 σ' ∧ euOf B σ' a = some v ∧ EuMono B σ σ'

theorem bwd_loop (σ1 : Store) (k : Nat) (hrec : BwdOK B σ1 k) :
    ∀ (fw : List Nat) (L : List (Nat × Rat)) (vs : List Rat) (σ : Store) (me : Option Rat),
      BwdInv B σ1 σ → fw.mapM (resolveOut B σ1) = some L →
      L.mapM (fun p => (ltF (outArcs B σ1) (suOf B σ1) k p.1).map (fun x => x - p.2)) = some vs →
      ∃ σ', fw.foldlM (bwdStep B (backwardA B k)) (σ, me) = some (σ', vs.foldl minStep me) ∧ BwdInv B σ1 σ' ∧
        EuMono B σ σ' := by
  intro fw
  induction fw with
  | nil =>
    intro L vs σ me hinv hL hvs
    simp only [List.mapM_nil, pure, Option.some.injEq] at hL
    subst hL
    simp only [List.mapM_nil, pure, Option.some.injEq] at hvs
    subst hvs
    exact ⟨σ, rfl, hinv, EuMono.refl B σ⟩
  | cons l fw ih =>
    intro L vs σ me hinv hL hvs
    obtain ⟨p, L', hp, hL', rfl⟩ := (mapM_some_cons _ l fw L).mp hL
    obtain ⟨x, vs', hx, hvs', rfl⟩ := (mapM_some_cons _ p L' vs).mp hvs
    simp only [Option.map_eq_some_iff] at hx
    obtain ⟨w, hw, rfl⟩ := hx
    obtain ⟨s', hl0⟩ := resolveOut_some B hp
    have hl : getO B σ l = some (.link s' p.1 p.2) := (hinv.same.link B).mp hl0
    have hs0 : ∃ L2, outArcs B σ1 p.1 = some L2 := by
      cases k with
      | zero => simp [ltF] at hw
      | succ k =>
        rw [ltF] at hw
        cases hA : outArcs B σ1 p.1 with
        | none => rw [hA] at hw; cases hw
        | some L2 => exact ⟨L2, rfl⟩
    obtain ⟨L2, hL2⟩ := hs0
    obtain ⟨fwe, bwe, sue, eue0, hge0, _⟩ := outArcs_some B hL2
    obtain ⟨eue, hge⟩ := hinv.same.node B hge0
    have hstep : ∃ σ2, (if eue.isNone then backwardA B k σ p.1 else some σ) = some σ2 ∧ BwdInv B σ1 σ2 ∧
        euOf B σ2 p.1 = some w ∧ EuMono B σ σ2 := by
      cases heue : eue with
      | none =>
        obtain ⟨σ2, h1, h2, h3, h4⟩ := hrec p.1 w σ hinv hw
        exact ⟨σ2, by simpa using h1, h2, h3, h4⟩
      | some w' =>
        have heu : euOf B σ p.1 = some w' := by simp only [euOf, hge, heue]
        obtain ⟨k', hk'⟩ := hinv.memo p.1 w' heu
        have : w' = w := ltF_agree _ _ _ _ _ _ _ hk' hw
        subst this
        exact ⟨σ, by simp, hinv, heu, EuMono.refl B σ⟩
    obtain ⟨σ2, hσ2, hinv2, heu2, hmono2⟩ := hstep
    have hl2 : getO B σ2 l = some (.link s' p.1 p.2) := (hinv2.same.link B).mp hl0
    obtain ⟨eue2, hge2⟩ := hinv2.same.node B hge0
    have heue2 : eue2 = some w := by
      simp only [euOf, hge2] at heu2; exact heu2
    subst heue2
    have hone : bwdStep B (backwardA B k) (σ, me) l = some (σ2, minStep me (w - p.2)) := by
      simp only [bwdStep, hl, hge, hσ2, hl2, hge2, minStep]
      cases me <;> rfl
    obtain ⟨σ', hfold, hinv', hmono'⟩ := ih L' vs' σ2 (minStep me (w - p.2)) hinv2 hL' hvs'
    refine ⟨σ', ?_, hinv', EuMono.trans B hmono2 hmono'⟩
    simp only [List.foldlM_cons, hone, bind, Option.bind, List.foldl_cons]
    exact hfold

theorem bwd_correct (σ1 : Store) : ∀ k, BwdOK B σ1 k := by
  intro k
  induction k with
  | zero => intro a v σ _ h; simp [ltF] at h
  | succ k ih =>
    intro a v σ hinv h
    have h' := h
    rw [ltF] at h'
    cases hA : outArcs B σ1 a with
    | none => rw [hA] at h'; cases h'
    | some L =>
      rw [hA] at h'
      simp only at h'
      cases hvs : L.mapM (fun p => (ltF (outArcs B σ1) (suOf B σ1) k p.1).map (fun x => x - p.2)) with
      | none => rw [hvs] at h'; cases h'
      | some vs =>
        rw [hvs] at h'
        simp only at h'
        obtain ⟨fw, bw, su, eu0, hg0, hfw⟩ := outArcs_some B hA
        obtain ⟨eu, hg⟩ := hinv.same.node B hg0
        cases heu : eu with
        | some w =>
          subst heu
          have heuo : euOf B σ a = some w := by simp only [euOf, hg]
          obtain ⟨k', hk'⟩ := hinv.memo a w heuo
          have : w = v := ltF_agree _ _ _ _ _ _ _ hk' h
          refine ⟨σ, ?_, hinv, by rw [heuo, this], EuMono.refl B σ⟩
          simp only [backwardA, hg, Option.isNone_some, Bool.false_eq_true, if_false]
        | none =>
          subst heu
          obtain ⟨σ2, hfold, hinv2, hmono2⟩ := bwd_loop B σ1 k ih fw L vs σ none hinv hfw hvs
          obtain ⟨eu2, hg2⟩ := hinv2.same.node B hg0
          -- the value written
          have hval : ∃ σ', (match vs.foldl minStep none with
                | some m => setEU B σ2 a (some m)
                | none =>
                  match getO B σ2 a with
                  | some (.node _ _ su' _) => setEU B σ2 a su'
                  | _ => none) = some σ' ∧ setEU B σ2 a (some v) = some σ' := by
            cases hm : vs.foldl minStep none with
            | some m =>
              rw [hm] at h'
              have hmv : m = v := Option.some.inj h'
              subst hmv
              exact ⟨_, setEU_isSome B hg2 (some m), setEU_isSome B hg2 (some m)⟩
            | none =>
              rw [hm] at h'
              simp only at h'
              have hsu : su = some v := by
                simp only [suOf, hg0] at h'; exact h'
              subst hsu
              simp only [hg2]
              exact ⟨_, setEU_isSome B hg2 (some v), setEU_isSome B hg2 (some v)⟩
          obtain ⟨σ', hrun, hset⟩ := hval
          refine ⟨σ', ?_, ⟨hinv2.same.trans B (SameB.of_setEU B hset), ?_⟩, ?_, ?_⟩
          · simp only [backwardA, hg, Option.isNone_none, if_true, hfold]
            exact hrun
          · intro b w hb
            rw [euOf_setEU B hset] at hb
            by_cases hba : b = a
            · subst hba
              simp only [if_true, Option.some.injEq] at hb
              subst hb
              exact ⟨k + 1, h⟩
            · rw [if_neg hba] at hb
              exact hinv2.memo b w hb
          · rw [euOf_setEU B hset]; simp
          · intro b hb
            rw [euOf_setEU B hset]
            by_cases hba : b = a
            · simp [hba]
            · rw [if_neg hba]; exact hmono2 b hb

/-- a loop `for n in ns: self.__backward(n)` -/
theorem bwd_all (σ1 : Store) (k : Nat) :
    ∀ (ns : List Nat) (σ : Store), BwdInv B σ1 σ →
      (∀ n ∈ ns, ∃ v, ltF (outArcs B σ1) (suOf B σ1) k n = some v) →
      ∃ σ', ns.foldlM (backwardA B k) σ = some σ' ∧ BwdInv B σ1 σ' ∧ EuMono B σ σ' ∧
        ∀ n ∈ ns, (euOf B σ' n).isSome := by
  intro ns
  induction ns with
  | nil => intro σ hinv _; exact ⟨σ, rfl, hinv, EuMono.refl B σ, fun _ h => by cases h⟩
  | cons n ns ih =>
    intro σ hinv hall
    obtain ⟨v, hv⟩ := hall n List.mem_cons_self
    obtain ⟨σ2, h1, hinv2, heu2, hmono2⟩ := bwd_correct B σ1 k n v σ hinv hv
    obtain ⟨σ', h2, hinv', hmono', hset'⟩ := ih σ2 hinv2 (fun m hm => hall m (List.mem_cons_of_mem _ hm))
    refine ⟨σ', ?_, hinv', EuMono.trans B hmono2 hmono', ?_⟩
    · simp only [List.foldlM_cons, h1, bind, Option.bind]; exact h2
    · intro m hm
      rcases List.mem_cons.mp hm with rfl | hm
      · exact hmono' _ (by rw [heu2]; rfl)
      · exact hset' m hm

theorem BwdInv.eu_eq {σ1 σ : Store} (h : BwdInv B σ1 σ) {k : Nat} {a : Nat} {v : Rat}
    (hv : ltF (outArcs B σ1) (suOf B σ1) k a = some v) (hs : (euOf B σ a).isSome) : euOf B σ a = some v := by
  obtain ⟨w, hw⟩ := Option.isSome_iff_exists.mp hs
  obtain ⟨k', hk'⟩ := h.memo a w hw
  rw [hw, ltF_agree _ _ _ _ _ _ _ hk' hv]

end backward

end Pj.CritPathSrc
